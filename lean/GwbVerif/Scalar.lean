/-
Scalar abstraction.  Every model function is polymorphic in a type `R` carrying a `Scalar R`
instance and *no laws*.  Three instances exist:

* `Float`   (Driver/FloatScalar.lean)  — IEEE double; the compiled driver that is diffed against the C++;
* `Rat`     (Driver/RatScalar.lean)    — exact rationals for lattice inputs (libm members are not used there);
* any linearly ordered field, `ℝ` in particular (Proofs/FieldScalar.lean) — used by theorems only.

`fabs`, `min`, `max` are *defined* from comparisons exactly as libstdc++ defines them so their
behaviour on NaN is the code's.

This file imports nothing outside core Lean.
-/
namespace Gwb

class Scalar (R : Type) extends Add R, Sub R, Mul R, Div R, Neg R, LT R, LE R where
  ofNat        : Nat → R
  ofScientific : Nat → Bool → Nat → R
  decLt        : (a b : R) → Decidable (a < b)
  decLe        : (a b : R) → Decidable (a ≤ b)
  /-- C++ `==` on doubles -/
  beq          : R → R → Bool
  -- <cmath>; uninterpreted in the model
  sqrt  : R → R
  exp   : R → R
  log   : R → R
  sin   : R → R
  cos   : R → R
  tan   : R → R
  asin  : R → R
  acos  : R → R
  atan  : R → R
  tanh  : R → R
  erfc  : R → R
  floor : R → R
  ceil  : R → R
  round : R → R
  atan2 : R → R → R
  pow   : R → R → R
  fmod  : R → R → R
  /-- `std::log10`; instances that do not name it get `log x / log 10` (the `Float` instance binds libm's `log10`) -/
  log10 : R → R := fun x => log x / log (ofNat 10)
  /-- `Consts::PI` -/
  pi     : R
  /-- `std::numeric_limits<double>::epsilon()` -/
  eps    : R
  /-- `std::numeric_limits<double>::min()` -/
  dblMin : R
  /-- `std::numeric_limits<double>::max()` -/
  dblMax : R
  /-- `std::numeric_limits<double>::infinity()` -/
  inf    : R
  /-- conversion of an unsigned/size_t to double -/
  isNaN  : R → Bool
  isFinite : R → Bool

namespace Scalar
variable {R : Type} [Scalar R]

instance : Inhabited R := ⟨Scalar.ofNat 0⟩
instance (n : Nat) : OfNat R n := ⟨Scalar.ofNat n⟩
instance : OfScientific R := ⟨Scalar.ofScientific⟩
instance (a b : R) : Decidable (a < b) := Scalar.decLt a b
instance (a b : R) : Decidable (a ≤ b) := Scalar.decLe a b

/-- `std::min(a,b)` as libstdc++ defines it: `(b < a) ? b : a`. -/
@[inline] def min (a b : R) : R := if b < a then b else a
/-- `std::max(a,b)` as libstdc++ defines it: `(a < b) ? b : a`. -/
@[inline] def max (a b : R) : R := if a < b then b else a
/-- `std::fabs` / `std::abs` on doubles.  (Sign of zero / NaN payload are not observable in the model.) -/
@[inline] def fabs (a : R) : R := if a < 0 then -a else a
/-- `x*x` -/
@[inline] def sq (a : R) : R := a * a
/-- size_t / unsigned → double -/
@[inline] def nat (n : Nat) : R := Scalar.ofNat n

end Scalar

export Scalar (sqrt exp sin cos tan asin acos atan tanh erfc floor ceil round atan2 pow fmod)

end Gwb
