/-
`World::properties` (3-D and 2-D), single-property entry points.  Anchors: world.cc:314-590.
-/
import GwbVerif.Model.Features.Area
import GwbVerif.Model.Features.Line
namespace Gwb
open Scalar
variable {R : Type} [Scalar R]

inductive Feature (R : Type)
  | area (f : AreaFeature R)
  | plume (f : PlumeFeature R)
  | line (f : LineFeature R)

def Feature.name : Feature R → String
  | .area f => f.name
  | .plume f => f.name
  | .line f => f.name

def Feature.apply {G : Type} [RandGen G R] (f : Feature R) (ctx : Ctx R) (q : Query R)
    (pes : List (Req × Nat)) (out : List R) : QM G (List R) :=
  match f with
  | .area a => a.apply ctx q pes out
  | .plume p => p.apply ctx q pes out
  | .line l => l.apply ctx q pes out

structure World (R : Type) where
  ctx : Ctx R
  /-- `cross_section` (radians in spherical worlds) when `dim == 2` -/
  cross : Option (P2 R × P2 R)
  features : List (Feature R)

/-- `surface_coord_conversions = (cs[0]-cs[1]) * (-1/‖cs[0]-cs[1]‖)` -/
def surfaceCoordConversions (c0 c1 : P2 R) : P2 R :=
  let d := c0 - c1
  let s := (-1 : R) / P2.norm d
  ⟨d.x * s, d.y * s⟩

/-- is the forced surface temperature branch taken? `std::fabs(depth) < 2.0 * eps && force_surface_temperature` -/
@[inline] def forcedSurface (ctx : Ctx R) (depth : R) : Bool :=
  decide (fabs depth < (2.0 : R) * Scalar.eps) && ctx.forceSurfaceT

/-- the background block of one request (world.cc:421-480) -/
def initBlock (ctx : Ctx R) (gravityNorm depth : R) (p : Req) : Except Err (List R) :=
  match p.code with
  | 1 => if forcedSurface ctx depth then .ok [ctx.surfaceT]
         else .ok [adiabat ctx.potentialT ctx.alpha gravityNorm ctx.cp depth]
  | 2 => .ok [0.0]
  | 3 => .ok (List.replicate (p.k * 10) 0.0)
  | 4 => .ok [-1]
  | 5 => .ok [0, 0, 0]
  | _ => .error .unknownProperty

/-- the loop after the features (world.cc, `fix:` dc333d22): a forced surface temperature is re-imposed on every temperature entry -/
def reimposeForced (ctx : Ctx R) (depth : R) (pes : List (Req × Nat)) (out : List R) : List R :=
  if forcedSurface ctx depth then
    pes.foldl (fun out (pe : Req × Nat) => if pe.1.code == 1 then writeBlock pe.2 [ctx.surfaceT] out else out) out
  else out

/-- the early return inside the background loop: forced surface temperature *and* a one-entry request -/
def earlyReturn (ctx : Ctx R) (depth : R) : List Req → Bool
  | [p] => p.code == 1 && forcedSurface ctx depth
  | _ => false

/-- the temperature entry alone, see `AreaFeature.applyTemp` -/
def Feature.applyTemp (f : Feature R) (ctx : Ctx R) (q : Query R) (old : R) : Except Err R :=
  match f with
  | .area a => a.applyTemp ctx q old
  | .plume p => p.applyTemp ctx q old
  | .line l => l.applyTemp ctx q old

/-- `world->properties(point, depth, {{{1,0,0}}})[0]` as the `tian water content` models call it from inside a query:
`World.props3` specialised to the one-entry temperature request.  Temperature models draw no random numbers, so it is a pure
function (the background value or the forced surface temperature with its early return, then the features in order; the
re-imposition loop has nothing to do when the early return was not taken). -/
def World.temperaturePure (w : World R) (pt : P3 R) (depth : R) : Except Err R :=
  let nat := w.ctx.coord.toNatural pt
  let g := w.ctx.gravity
  let q : Query R := { pt := pt, nat := nat, depth := depth, gravityNorm := g }
  if forcedSurface w.ctx depth then .ok w.ctx.surfaceT
  else w.features.foldlM (fun t f => f.applyTemp w.ctx q t) (adiabat w.ctx.potentialT w.ctx.alpha g w.ctx.cp depth)

/-- the query as the features see it: point, natural coordinates, depth, gravity norm, and (unevaluated) the temperature the
whole world gives there, for the models that call back into `World::properties` -/
def World.query (w : World R) (pt : P3 R) (depth : R) : Query R :=
  { pt := pt, nat := w.ctx.coord.toNatural pt, depth := depth, gravityNorm := w.ctx.gravity,
    worldT := fun _ => w.temperaturePure pt depth }

/-- `World::properties(point_3d, depth, properties)` -/
def World.props3 {G : Type} [RandGen G R] (w : World R) (pt : P3 R) (depth : R) (ps : List Req) : QM G (List R) := do
  let g := w.ctx.gravity
  let q : Query R := w.query pt depth
  let blocks ← liftE (ps.mapM (initBlock w.ctx g depth))
  let out := blocks.flatten
  if earlyReturn w.ctx depth ps then return out
  let pes := ps.zip (entries ps)
  let out ← w.features.foldlM (fun out f => f.apply w.ctx q pes out) out
  return reimposeForced w.ctx depth pes out

/-- the 2-D → 3-D point mapping (world.cc:326-348) -/
def World.lift2 (w : World R) (c0 c1 : P2 R) (pt : P2 R) : P3 R :=
  let conv := surfaceCoordConversions c0 c1
  if w.ctx.coord.spherical then
    let r := sqrt (pt.x * pt.x + pt.y * pt.y)
    let a := atan2 pt.y pt.x
    w.ctx.coord.toCartesian ⟨r, c0.x + a * conv.x, c0.y + a * conv.y⟩
  else
    w.ctx.coord.toCartesian ⟨c0.x + pt.x * conv.x, c0.y + pt.x * conv.y, pt.y⟩

/-- the re-walk of the 2-D wrapper (world.cc:350-398) with its own counter, **as written** -/
def rewalk2 (conv : P2 R) : List Req → Nat → List R → Except Err (List R)
  | [], _, res => .ok res
  | p :: ps, counter, res =>
    if p.code == 5 then do
      let r0 ← idx res counter
      let r1 ← idx res (counter + 1)
      let r2 ← idx res (counter + 2)
      let res := writeBlock counter [conv.x * r0 + conv.y * r1, r2, 0] res
      rewalk2 conv ps (counter + 3) res
    else rewalk2 conv ps (counter + wrapper2dAdvance p) res

/-- `World::properties(point_2d, depth, properties)` -/
def World.props2 {G : Type} [RandGen G R] (w : World R) (pt : P2 R) (depth : R) (ps : List Req) : QM G (List R) := do
  match w.cross with
  | none => QM.throw .noCrossSection
  | some (c0, c1) =>
    let p3 := w.lift2 c0 c1 pt
    let res ← w.props3 p3 depth ps
    liftE (rewalk2 (surfaceCoordConversions c0 c1) ps 0 res)

/-- `World::distance_to_plane(point, depth, name)`: the first feature with that name; `(0, 0)` if there is none;
features other than slabs and faults throw. -/
def World.distanceToPlane (w : World R) (pt : P3 R) (depth : R) (name : String) : Except Err (R × R) :=
  let q : Query R := { pt := pt, nat := w.ctx.coord.toNatural pt, depth := depth, gravityNorm := w.ctx.gravity }
  match w.features.find? (fun f => f.name == name) with
  | none => .ok (0.0, 0.0)
  | some (.line l) => l.distanceToPlane w.ctx q
  | some _ => .error .other

/-- `World::temperature(point, depth)` (3-D) -/
def World.temperature3 {G : Type} [RandGen G R] (w : World R) (pt : P3 R) (depth : R) : QM G R := do
  let r ← w.props3 pt depth [Req.temperature]
  liftE (idx r 0)

/-- `World::composition(point, depth, n)` (3-D) -/
def World.composition3 {G : Type} [RandGen G R] (w : World R) (pt : P3 R) (depth : R) (n : Nat) : QM G R := do
  let r ← w.props3 pt depth [Req.composition n]
  liftE (idx r 0)

def World.temperature2 {G : Type} [RandGen G R] (w : World R) (pt : P2 R) (depth : R) : QM G R := do
  let r ← w.props2 pt depth [Req.temperature]
  liftE (idx r 0)

def World.composition2 {G : Type} [RandGen G R] (w : World R) (pt : P2 R) (depth : R) (n : Nat) : QM G R := do
  let r ← w.props2 pt depth [Req.composition n]
  liftE (idx r 0)

end Gwb
