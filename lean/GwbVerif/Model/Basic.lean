/-
Basic types shared by all model modules: points, error classes, the query monad.
Anchors: include/world_builder/point.h, assert.h (WBAssertThrow → `Err`).
-/
import GwbVerif.Scalar
namespace Gwb
open Scalar

/-- Error classes.  Every `WBAssertThrow` reachable on a modelled path maps to one of these;
`internal` is reserved for "the model indexed out of range", which the C++ would do as undefined behaviour. -/
inductive Err
  | parse | schema | version | length | option | noCrossSection | unknownProperty
  | notInTriangle | newton | internal | unsupported | other
  deriving Repr, DecidableEq, Inhabited

def Err.toString : Err → String
  | .parse => "parse" | .schema => "schema" | .version => "version" | .length => "length"
  | .option => "option" | .noCrossSection => "no-cross-section" | .unknownProperty => "unknown-property"
  | .notInTriangle => "not-in-triangle" | .newton => "newton" | .internal => "internal"
  | .unsupported => "unsupported" | .other => "other"
instance : ToString Err := ⟨Err.toString⟩

structure P2 (R : Type) where
  x : R
  y : R
  deriving Inhabited, Repr

structure P3 (R : Type) where
  x : R
  y : R
  z : R
  deriving Inhabited, Repr

namespace P2
variable {R : Type} [Scalar R]
@[inline] def add (a b : P2 R) : P2 R := ⟨a.x + b.x, a.y + b.y⟩
@[inline] def sub (a b : P2 R) : P2 R := ⟨a.x - b.x, a.y - b.y⟩
@[inline] def smul (s : R) (a : P2 R) : P2 R := ⟨s * a.x, s * a.y⟩
/-- `Point::operator/(scalar)`: multiplies by `1/scalar` (point.h:216-224) -/
@[inline] def sdiv (a : P2 R) (s : R) : P2 R := let inv := (1 : R) / s; ⟨a.x * inv, a.y * inv⟩
/-- `Point * double` -/
@[inline] def smul' (a : P2 R) (s : R) : P2 R := ⟨a.x * s, a.y * s⟩
@[inline] def dot (a b : P2 R) : R := a.x * b.x + a.y * b.y
@[inline] def normSq (a : P2 R) : R := a.x * a.x + a.y * a.y
@[inline] def norm (a : P2 R) : R := sqrt (a.x * a.x + a.y * a.y)
/-- `point[i]` for `i : bool/size_t` -/
@[inline] def get (a : P2 R) (yAxis : Bool) : R := if yAxis then a.y else a.x
instance : Add (P2 R) := ⟨add⟩
instance : Sub (P2 R) := ⟨sub⟩
end P2

namespace P3
variable {R : Type} [Scalar R]
@[inline] def add (a b : P3 R) : P3 R := ⟨a.x + b.x, a.y + b.y, a.z + b.z⟩
@[inline] def sub (a b : P3 R) : P3 R := ⟨a.x - b.x, a.y - b.y, a.z - b.z⟩
@[inline] def smul (s : R) (a : P3 R) : P3 R := ⟨s * a.x, s * a.y, s * a.z⟩
/-- `Point::operator/(scalar)`: multiplies by `1/scalar` -/
@[inline] def sdiv (a : P3 R) (s : R) : P3 R := let inv := (1 : R) / s; ⟨a.x * inv, a.y * inv, a.z * inv⟩
/-- `Point * double` -/
@[inline] def smul' (a : P3 R) (s : R) : P3 R := ⟨a.x * s, a.y * s, a.z * s⟩
/-- `Point<3>::operator*` : `x*x' + y*y' + z*z'` summed left to right (point.h) -/
@[inline] def dot (a b : P3 R) : R := a.x * b.x + a.y * b.y + a.z * b.z
@[inline] def normSq (a : P3 R) : R := a.x * a.x + a.y * a.y + a.z * a.z
@[inline] def norm (a : P3 R) : R := sqrt (a.x * a.x + a.y * a.y + a.z * a.z)
@[inline] def cross (a b : P3 R) : P3 R :=
  ⟨a.y * b.z - b.y * a.z, a.z * b.x - b.z * a.x, a.x * b.y - b.x * a.y⟩
instance : Add (P3 R) := ⟨add⟩
instance : Sub (P3 R) := ⟨sub⟩
end P3

/-- 3×3 matrix, row major (std::array<std::array<double,3>,3>). -/
structure M3 (R : Type) where
  a00 : R
  a01 : R
  a02 : R
  a10 : R
  a11 : R
  a12 : R
  a20 : R
  a21 : R
  a22 : R
  deriving Inhabited, Repr

namespace M3
variable {R : Type} [Scalar R]
def toList (m : M3 R) : List R := [m.a00, m.a01, m.a02, m.a10, m.a11, m.a12, m.a20, m.a21, m.a22]
def ofList? : List R → Option (M3 R)
  | [a, b, c, d, e, f, g, h, i] => some ⟨a, b, c, d, e, f, g, h, i⟩
  | _ => none
/-- `Utilities::multiply_3x3_matrices`: `result[i][j] = 0; result[i][j] += mat1[i][k]*mat2[k][j]` for k = 0,1,2. -/
def mul (a b : M3 R) : M3 R :=
  let z : R := 0
  ⟨((z + a.a00 * b.a00) + a.a01 * b.a10) + a.a02 * b.a20,
   ((z + a.a00 * b.a01) + a.a01 * b.a11) + a.a02 * b.a21,
   ((z + a.a00 * b.a02) + a.a01 * b.a12) + a.a02 * b.a22,
   ((z + a.a10 * b.a00) + a.a11 * b.a10) + a.a12 * b.a20,
   ((z + a.a10 * b.a01) + a.a11 * b.a11) + a.a12 * b.a21,
   ((z + a.a10 * b.a02) + a.a11 * b.a12) + a.a12 * b.a22,
   ((z + a.a20 * b.a00) + a.a21 * b.a10) + a.a22 * b.a20,
   ((z + a.a20 * b.a01) + a.a21 * b.a11) + a.a22 * b.a21,
   ((z + a.a20 * b.a02) + a.a21 * b.a12) + a.a22 * b.a22⟩
def zero : M3 R := ⟨0, 0, 0, 0, 0, 0, 0, 0, 0⟩
end M3

/-- The query monad: threads the world's random-number engine `G` and may throw.
(If the C++ throws inside a query, draws made before the throw stay consumed; the model drops the
state on error.  Only observable for random worlds after an exception; documented in DESIGN §7.) -/
abbrev QM (G : Type) (α : Type) := StateT G (Except Err) α

@[inline] def QM.throw {G α : Type} (e : Err) : QM G α := fun _ => .error e

/-- `xs[i]` in C++; out of range is `Err.internal` (undefined behaviour in the code). -/
@[inline] def idx {α : Type} (xs : List α) (i : Nat) : Except Err α :=
  match xs[i]? with
  | some v => .ok v
  | none => .error .internal

@[inline] def liftE {G α : Type} (e : Except Err α) : QM G α := fun g =>
  match e with
  | .ok v => .ok (v, g)
  | .error err => .error err

end Gwb
