/-
`Utilities::distance_point_from_curved_planes` (utilities.cc:379-1038): signed distance from, and distance along,
the curved surface of a slab or fault hanging from a trench curve.
`+∞` sentinels are `Scalar.inf` exactly as in the code (every use is a comparison).
-/
import GwbVerif.Model.Geometry.Bezier
namespace Gwb
open Scalar
variable {R : Type} [Scalar R]

/-- `PointDistanceFromCurvedPlanes` -/
structure PlaneDist (R : Type) where
  distanceFromPlane : R
  distanceAlongPlane : R
  fractionOfSection : R
  fractionOfSegment : R
  sectionIdx : Nat
  segment : Nat
  averageAngle : R
  depthReferenceSurface : R
  closestTrenchPoint : P3 R
  deriving Inhabited

/-- `Point<2>::distance(two)` (point.cc): haversine angle in spherical systems, Euclidean otherwise -/
def P2.distanceTo (spherical : Bool) (a two : P2 R) : R :=
  if spherical then
    let dLong := two.x - a.x
    let dLat := two.y - a.y
    let sLat := sin (dLat * (0.5 : R))
    let sLong := sin (dLong * (0.5 : R))
    (2.0 : R) * asin (sqrt (sLat * sLat + sLong * sLong * cos a.y * cos two.y))
  else
    let dx := a.x - two.x
    let dy := a.y - two.y
    sqrt (dx * dx + dy * dy)

/-- natural 3-D point from a surface point and a radius/height: Cartesian `(x, y, h)`, spherical `(h, lon, lat)` -/
@[inline] def surface3 (spherical : Bool) (p : P2 R) (h : R) : P3 R :=
  if spherical then ⟨h, p.x, p.y⟩ else ⟨p.x, p.y, h⟩

/-- state carried through the segment loop (variables declared outside the loop in the C++) -/
structure SegState (R : Type) where
  distance : R
  newDistance : R
  along : R
  newAlong : R
  newDepthRef : R
  segment : Nat
  segmentFraction : R
  totalAverageAngle : R
  depthRef : R
  beginSeg : P2 R
  endSeg : P2 R
  totalLength : R
  addAngle : R
  addAngleCorrection : R
  averageAngle : R
  found : Bool       -- whether the "closest so far" block ran (then section / section_fraction are set)

/-- one iteration of the `for i_segment` loop -/
def segmentStep (dm : DepthMethod) (onlyPositive : Bool) (startRadius fraction : R) (check2d : P2 R)
    (angCur angNext : P2 R) (lenCur lenNext : R) (i : Nat) (s : SegState R) : SegState R :=
  -- angle between the previous begin and end
  let s :=
    if i != 0 ∧ (dm == .beginSegment ∨ dm == .beginAtEndSegment) then
      let inner := P2.dot s.beginSeg s.endSeg / (P2.norm s.beginSeg * P2.norm s.endSeg)
      let inner := if inner < 0.0 ∧ inner ≥ (-1e-14 : R) then 0.0 else inner
      let inner := if inner > 1.0 ∧ inner ≤ (1.0 : R) + (1e-14 : R) then 1.0 else inner
      let corr := acos inner
      { s with addAngleCorrection := corr, addAngle := s.addAngle + corr }
    else s
  let s := { s with beginSeg := s.endSeg }
  let deg90 : R := (0.5 : R) * Scalar.pi
  let angTop := angCur.x + fraction * (angNext.x - angCur.x) + s.addAngle
                  + (if dm == .beginAtEndSegment ∧ i != 0 then -s.addAngleCorrection else 0)
  let angBot := angCur.y + fraction * (angNext.y - angCur.y) + s.addAngle
  let len := lenCur + fraction * (lenNext - lenCur)
  if len < (1e-14 : R) then s
  else
    let diff := angTop - angBot
    let s :=
      if fabs diff < (1e-8 : R) then
        if fabs len > Scalar.eps then
          let endSeg : P2 R := ⟨s.endSeg.x + len * sin (deg90 - angTop), s.endSeg.y - len * cos (deg90 - angTop)⟩
          let s := { s with endSeg := endSeg }
          let bsEs := endSeg - s.beginSeg
          let bsCp := check2d - s.beginSeg
          let c1 := P2.dot bsEs bsCp
          let c2 := P2.dot bsEs bsEs
          if c1 < 0 ∨ c2 < c1 then
            { s with newDistance := Scalar.inf, newAlong := Scalar.inf, newDepthRef := Scalar.inf }
          else
            let pb := s.beginSeg + P2.smul (c1 / c2) bsEs
            let side : R := if (s.beginSeg.x - endSeg.x) * (check2d.y - s.beginSeg.y)
                                - (s.beginSeg.y - endSeg.y) * (check2d.x - s.beginSeg.x) < 0 then -1.0 else 1.0
            { s with newDistance := side * P2.norm (check2d - pb), newAlong := P2.norm (s.beginSeg - pb),
                     newDepthRef := startRadius - pb.y }
        else s
      else
        let radius := fabs (len / diff)
        let cosTop := cos angTop
        let center : P2 R :=
          if fabs (angTop - (0.5 : R) * Scalar.pi) < (1e-8 : R) then
            ⟨if diff > 0 then s.beginSeg.x + radius else s.beginSeg.x - radius, s.beginSeg.y⟩
          else if fabs (angTop - (1.5 : R) * Scalar.pi) < (1e-8 : R) then
            ⟨if diff > 0 then s.beginSeg.x - radius else s.beginSeg.x + radius, s.beginSeg.y⟩
          else
            let tanTop := tan angTop
            let cy := if diff < 0 then s.beginSeg.y - radius * cosTop else s.beginSeg.y + radius * cosTop
            let ccybs := cy - s.beginSeg.y
            ⟨s.beginSeg.x + tanTop * ccybs, cy⟩
        let bspc := s.beginSeg - center
        let sinD := sin diff
        let cosD := cos diff
        let endSeg : P2 R := ⟨cosD * bspc.x - sinD * bspc.y + center.x, sinD * bspc.x + cosD * bspc.y + center.y⟩
        let s := { s with endSeg := endSeg }
        let cpcr := check2d - center
        let cpcrNorm := P2.norm cpcr
        -- `CPCR * Point<2>(0, radius)`
        let dotp := cpcr.x * (0 : R) + cpcr.y * radius
        let cpa : R :=
          if fabs cpcrNorm < Scalar.eps then (2.0 : R) * Scalar.pi
          else if check2d.x ≤ center.x then acos (dotp / (cpcrNorm * radius))
          else (2.0 : R) * Scalar.pi - acos (dotp / (cpcrNorm * radius))
        let cpa := if diff ≥ 0 then Scalar.pi - cpa else (2.0 : R) * Scalar.pi - cpa
        let cpa := if fabs (cpa - (2 : R) * Scalar.pi) < (1e-14 : R) then 0 else cpa
        if (diff > 0 ∧ (cpa ≤ angTop ∨ fabs (cpa - angTop) < (1e-12 : R)) ∧ (cpa ≥ angBot ∨ fabs (cpa - angBot) < (1e-12 : R)))
           ∨ (diff < 0 ∧ (cpa ≥ angTop ∨ fabs (cpa - angTop) < (1e-12 : R)) ∧ (cpa ≤ angBot ∨ fabs (cpa - angBot) < (1e-12 : R))) then
          let sgn : R := if diff < 0 then 1 else -1
          { s with newDistance := (radius - cpcrNorm) * sgn,
                   newAlong := (radius * cpa - radius * angTop) * sgn,
                   newDepthRef := startRadius - (sin (cpa + angTop) * bspc.x + cos (cpa + angTop) * bspc.y + center.y) }
        -- not in this arc's sector: ∞, as the straight branch does (fixed upstream: the values of the previous segment stayed and could be recorded for this one)
        else { s with newDistance := Scalar.inf, newAlong := Scalar.inf, newDepthRef := Scalar.inf }
    -- closest segment so far?
    let s :=
      if s.newAlong ≥ (-1e-10 : R) ∧ s.newAlong ≤ fabs len ∧ fabs s.newDistance < fabs s.distance then
        let taa := s.averageAngle * s.totalLength + (0.5 : R) * (angTop + angBot - (2 : R) * s.addAngle) * s.newAlong
        let taa := if fabs taa < Scalar.eps then 0 else taa / (s.totalLength + s.newAlong)
        { s with distance := if onlyPositive then fabs s.newDistance else s.newDistance,
                 along := s.newAlong + s.totalLength, segment := i, segmentFraction := s.newAlong / len,
                 totalAverageAngle := taa, depthRef := s.newDepthRef, found := true }
      else s
    let aa := s.averageAngle * s.totalLength + (0.5 : R) * (angTop + angBot - (2 : R) * s.addAngle) * len
    let aa := if fabs aa < Scalar.eps then 0 else aa / (s.totalLength + len)
    { s with averageAngle := aa, totalLength := s.totalLength + len }

def segmentLoop (dm : DepthMethod) (onlyPositive : Bool) (startRadius fraction : R) (check2d : P2 R)
    (angsCur angsNext : List (P2 R)) (lensCur lensNext : List R) : Nat → Nat → SegState R → Except Err (SegState R)
  | 0, _, s => .ok s
  | fuel + 1, i, s =>
    if i < lensCur.length then do
      let ac ← idx angsCur i
      let an ← idx angsNext i
      let lc ← idx lensCur i
      let ln ← idx lensNext i
      segmentLoop dm onlyPositive startRadius fraction check2d angsCur angsNext lensCur lensNext fuel (i + 1)
        (segmentStep dm onlyPositive startRadius fraction check2d ac an lc ln i s)
    else .ok s

/-- `distance_point_from_curved_planes` -/
def distancePointFromCurvedPlanes (coord : CoordSys R) (checkPoint nat : P3 R) (reference : P2 R) (pointList : List (P2 R))
    (lengths : List (List R)) (angles : List (List (P2 R))) (startRadius : R) (onlyPositive : Bool) (bz : Bezier R) :
    Except Err (PlaneDist R) := do
  let sph := coord.spherical
  let cart := !sph
  let checkSurface : P3 R := ⟨if cart then nat.x else startRadius, nat.y, if cart then startRadius else nat.z⟩
  let checkSurface2d := surfacePoint sph nat
  let cpo ← bz.closestPoint sph checkSurface2d
  match cpo with
  | none =>
    -- `closest_point_on_line_2d` is NaN: nothing is computed, the sentinels are returned
    let nan : R := Scalar.inf - Scalar.inf
    return { distanceFromPlane := Scalar.inf, distanceAlongPlane := Scalar.inf, fractionOfSection := 0.0, fractionOfSegment := 0.0,
             sectionIdx := 0, segment := 0, averageAngle := 0.0, depthReferenceSurface := 0.0,
             closestTrenchPoint := coord.toCartesian (surface3 sph ⟨nan, nan⟩ startRadius) }
  | some cp =>
    let cl2d := cp.point
    let clSurface := surface3 sph cl2d startRadius
    let clCart := coord.toCartesian clSurface
    let iSec := cp.index
    let fraction := cp.fraction
    let clBottom : P3 R := if cart then { clSurface with z := 0 } else { clSurface with x := 0 }
    let clBottomCart := coord.toCartesian clBottom
    let checkSurfaceCart := coord.toCartesian checkSurface
    let yAxis0 := clCart - clBottomCart
    let xAxis0 := clCart - checkSurfaceCart
    let angsCur ← idx angles iSec
    let angsNext ← idx angles (iSec + 1)
    let lensCur ← idx lengths iSec
    let lensNext ← idx lengths (iSec + 1)
    -- spherical: the description of the check point closest in longitude to the closest trench point decides 'on or below the trench'
    -- (upstream 'fix: on-trench test compared longitudes that can be 2 pi apart')
    let lonShift : R :=
      let dl := checkSurface2d.x - cl2d.x
      if dl > Scalar.pi then (-2.0 : R) * Scalar.pi else if dl < -Scalar.pi then (2.0 : R) * Scalar.pi else 0.0
    let checkSurfaceAl : P3 R := if cart then checkSurface else { checkSurface with y := checkSurface.y + lonShift }
    let checkSurface2dAl : P2 R := if cart then checkSurface2d else ⟨checkSurface2d.x + lonShift, checkSurface2d.y⟩
    -- the frame
    let frame : Except Err (Option (P3 R × P3 R)) :=
      if fabs (P3.norm (checkSurfaceAl - clSurface)) < (2e-14 : R) then
        if fabs (P3.norm (checkPoint - clCart)) > (2e-14 : R) then do
          let p1 ← idx pointList iSec
          let p2 ← idx pointList (iSec + 1)
          let p1p2 := p2 - p1
          let un := P2.sdiv p1p2 (P2.norm p1p2)
          let nrm := P2.norm cl2d
          let f := (1e-8 : R) * (if nrm > 1.0 then nrm else 1.0)
          let plus : P2 R := cl2d + P2.smul' un f
          let plusCart := coord.toCartesian (surface3 sph plus startRadius)
          let ntp := plusCart - clCart
          let ntp := P3.sdiv ntp (P3.norm ntp)
          let y := clCart - clBottomCart
          let y := P3.sdiv y (P3.norm y)
          let vx := y.x; let vy := y.y; let vz := y.z
          let ux := ntp.x; let uy := ntp.y; let uz := ntp.z
          let x : P3 R := ⟨ux * ux * vx + ux * uy * vy - uz * vy + uy * uz * vz + uy * vz,
                           uy * ux * vx + uz * vx + uy * uy * vy + uy * uz * vz - ux * vz,
                           uz * ux * vx - uy * vx + uz * uy * vy + ux * vy + uz * uz * vz⟩
          -- `((normal - closest)*1e2) + closest`
          let refp : P2 R := ⟨(cp.normal.x - cl2d.x) * (1e2 : R) + cl2d.x, (cp.normal.y - cl2d.y) * (1e2 : R) + cl2d.y⟩
          let side : R := if P2.normSq (cl2d - refp) < P2.normSq (checkSurface2dAl - refp) then -1 else 1
          let x := P3.smul' x (side / P3.norm x)
          pure (some (x, y))
        else pure none
      else do
        let y := P3.sdiv yAxis0 (P3.norm yAxis0)
        let cs2dTemp ← (if !cart then do
            let k := iSec + (if round fraction ≥ 1.0 then 1 else 0)     -- `static_cast<size_t>(std::round(fraction))`, fraction ∈ [-1e-8, 1+1e-8]
            let pk ← idx pointList k
            let normal := fabs (pk.x - checkSurface2d.x)
            let plus := fabs (pk.x - (checkSurface2d.x + (2 : R) * Scalar.pi))
            let minus := fabs (pk.x - (checkSurface2d.x - (2 : R) * Scalar.pi))
            pure (if plus < normal then (⟨checkSurface2d.x + (2 : R) * Scalar.pi, checkSurface2d.y⟩ : P2 R)
                  else if minus < normal then ⟨checkSurface2d.x - (2 : R) * Scalar.pi, checkSurface2d.y⟩
                  else checkSurface2d)
          else pure checkSurface2d : Except Err (P2 R))
        let dref := P2.distanceTo sph cl2d reference
        let abn : P2 R := ⟨cp.normal.x * dref, cp.normal.y * dref⟩
        let localRef : P2 R := ⟨abn.x * (1.0 : R) + cl2d.x, abn.y * (1.0 : R) + cl2d.y⟩
        -- `(check − foot) · (local reference − foot) < 0` (was a comparison of distances to the local reference point; fixed upstream,
        -- 'fix: slab and fault side test flipped for points farther from the trench than twice the dip point')
        let refNormalSide := decide (P2.dot (cs2dTemp - cl2d) (localRef - cl2d) < 0.0)
        let pFirst ← idx pointList 0
        let pLast ← idx pointList (pointList.length - 1)
        let refPointSide := decide ((pLast.x - pFirst.x) * (reference.y - pFirst.y) - (reference.x - pFirst.x) * (pLast.y - pFirst.y) < 0.0)
        let side : R := if refNormalSide == refPointSide then 1 else -1
        pure (some (P3.smul' xAxis0 (side / P3.norm xAxis0), y))
    match ← frame with
    | none =>
      let a0 ← idx angsCur 0
      let a1 ← idx angsNext 0
      return { distanceFromPlane := 0.0, distanceAlongPlane := 0.0, fractionOfSection := fraction, fractionOfSegment := 0.0,
               sectionIdx := iSec, segment := 0, averageAngle := a0.x + fraction * (a1.x - a0.x), depthReferenceSurface := 0.0,
               closestTrenchPoint := clCart }
    | some (xAxis, yAxis) =>
      let check2d : P2 R := ⟨P3.dot xAxis (checkPoint - clBottomCart), P3.dot yAxis (checkPoint - clBottomCart)⟩
      let begin0 : P2 R := ⟨P3.dot xAxis (clCart - clBottomCart), P3.dot yAxis (clCart - clBottomCart)⟩
      let s0 : SegState R :=
        { distance := Scalar.inf, newDistance := Scalar.inf, along := Scalar.inf, newAlong := Scalar.inf, newDepthRef := Scalar.inf,
          segment := 0, segmentFraction := 0.0, totalAverageAngle := 0.0, depthRef := 0.0,
          beginSeg := begin0, endSeg := begin0, totalLength := 0.0, addAngle := 0.0, addAngleCorrection := 0.0, averageAngle := 0.0, found := false }
      let s ← segmentLoop coord.depthMethod onlyPositive startRadius fraction check2d angsCur angsNext lensCur lensNext (lensCur.length + 1) 0 s0
      return { distanceFromPlane := s.distance, distanceAlongPlane := s.along,
               fractionOfSection := if s.found then fraction else 0.0, fractionOfSegment := s.segmentFraction,
               sectionIdx := if s.found then iSec else 0, segment := s.segment, averageAngle := s.totalAverageAngle,
               depthReferenceSurface := s.depthRef, closestTrenchPoint := clCart }

end Gwb
