/-
`Objects::BezierCurve` (source/world_builder/objects/bezier_curve.cc): control points from the trench
coordinates, and the closest point on the curve by a damped Newton iteration (150 iterations × 10 line-search
steps; Cartesian and spherical branches).  Loops take their bound as fuel; the arithmetic is transliterated
operation by operation.
-/
import GwbVerif.Model.Geometry.Coords
namespace Gwb
open Scalar
variable {R : Type} [Scalar R]

structure Bezier (R : Type) where
  points : List (P2 R)
  /-- `control_points[i] = {c0, c1}` for the piece between `points[i]` and `points[i+1]` -/
  control : List (P2 R × P2 R)
  angles : List R
  deriving Inhabited

/-- `(p1[0]-p2[0])*(q[1]-p1[1]) - (p1[1]-p2[1])*(q[0]-p1[0]) < 0` -/
@[inline] def sideOfLine (p1 p2 q : P2 R) : Bool :=
  decide ((p1.x - p2.x) * (q.y - p1.y) - (p1.y - p2.y) * (q.x - p1.x) < 0)

/-- `cos(angle)*length*fraction + p` -/
@[inline] def ctrlAt (angle len : R) (p : P2 R) : P2 R :=
  ⟨cos angle * len * (0.2 : R) + p.x, sin angle * len * (0.2 : R) + p.y⟩

/-- the angles: first points at the second point, last at the second to last, inner ones the average minus π/2 -/
def bezierAngles (pts : List (P2 R)) : Except Err (List R) := do
  let n := pts.length
  if n < 2 then .error .internal
  let p0 ← idx pts 0
  let p1 ← idx pts 1
  let a0 := atan2 (p1.y - p0.y) (p1.x - p0.x)
  let inner ← (List.range (n - 2)).mapM (fun k => do
    let i := k + 1
    let pm ← idx pts (i - 1)
    let pi ← idx pts i
    let pn ← idx pts (i + 1)
    let a12 := atan2 (pm.y - pi.y) (pm.x - pi.x)
    let a31 := atan2 (pn.y - pi.y) (pn.x - pi.x)
    return (a12 + a31) * (0.5 : R) - Scalar.pi * (0.5 : R))
  let pl ← idx pts (n - 1)
  let pk ← idx pts (n - 2)
  let al := atan2 (pk.y - pl.y) (pk.x - pl.x)
  return a0 :: inner ++ [al]

/-- control points of pieces `1 … n-2` given the second control point of the previous piece -/
def bezierControlRest (pts : List (P2 R)) (angles : List R) (n : Nat) : Nat → Nat → P2 R → Except Err (List (P2 R × P2 R))
  | 0, _, _ => .ok []
  | fuel + 1, i, prevC1 =>
    if i + 1 < n then do
      let p1 ← idx pts i
      let p2 ← idx pts (i + 1)
      let len := P2.norm (p1 - p2)
      let ai ← idx angles i
      let an ← idx angles (i + 1)
      let c0 := ctrlAt ai len p1
      let c0 := if sideOfLine p1 p2 prevC1 == sideOfLine p1 p2 c0 then ctrlAt (ai + Scalar.pi) len p1 else c0
      let c1 := ctrlAt an len p2
      let c1 ← (if i + 1 < n - 1 then do
          let p3 ← idx pts (i + 2)
          pure (if sideOfLine p1 p2 c1 == sideOfLine p1 p2 p3 then ctrlAt (an + Scalar.pi) len p2 else c1)
        else pure c1 : Except Err (P2 R))
      let rest ← bezierControlRest pts angles n fuel (i + 1) c1
      return (c0, c1) :: rest
    else .ok []

/-- `BezierCurve::BezierCurve(points)` (no angle constraints) -/
def Bezier.build (pts : List (P2 R)) : Except Err (Bezier R) := do
  let n := pts.length
  let angles ← bezierAngles pts
  let p0 ← idx pts 0
  if n ≤ 2 then
    -- `control_points.resize(n-1, {p[0], p[0]})` and nothing else
    return ⟨pts, List.replicate (n - 1) (p0, p0), angles⟩
  let p1 := p0
  let p2 ← idx pts 1
  let p3 ← idx pts 2
  let len := P2.norm (p1 - p2)
  let a0 ← idx angles 0
  let a1 ← idx angles 1
  let c00 := ctrlAt a0 len p1
  let c01 := ctrlAt a1 len p2
  let c01 := if sideOfLine p1 p2 c01 == sideOfLine p1 p2 p3 then ctrlAt (a1 + Scalar.pi) len p2 else c01
  let rest ← bezierControlRest pts angles n n 1 c01
  return ⟨pts, (c00, c01) :: rest, angles⟩

/-- `ClosestPointOnCurve` (only the members that are used afterwards) -/
structure ClosestPoint (R : Type) where
  distance : R
  fraction : R          -- parametric_fraction
  index : Nat
  point : P2 R
  normal : P2 R
  deriving Inhabited

/-- power-basis coefficients of one piece -/
structure Cubic (R : Type) where
  a : P2 R
  b : P2 R
  c : P2 R
  d : P2 R

def cubicOf (p0 p1 c0 c1 : P2 R) : Cubic R :=
  { a := ⟨(3.0 : R) * c0.x - (3.0 : R) * c1.x + p1.x - p0.x, (3.0 : R) * c0.y - (3.0 : R) * c1.y + p1.y - p0.y⟩
    b := ⟨(3.0 : R) * p0.x - (6.0 : R) * c0.x + (3.0 : R) * c1.x, (3.0 : R) * p0.y - (6.0 : R) * c0.y + (3.0 : R) * c1.y⟩
    c := ⟨(-3.0 : R) * p0.x + (3.0 : R) * c0.x, (-3.0 : R) * p0.y + (3.0 : R) * c0.y⟩
    d := p0 }

/-- `std::min(1., std::max(0., (P1Pc*P1P2)/P2P2_dot))` or 1 -/
def initialEstimate (p1 p2 cp : P2 R) : R :=
  let d := P2.dot (p2 - p1) (p2 - p1)
  -- `P1Pc*P1P2` is `Point::operator*`: 0 + x*x' + y*y'
  if d > 0.0 then Scalar.min (1.0 : R) (Scalar.max (0.0 : R) (P2.dot (cp - p1) (p2 - p1) / d)) else 1.0

/-- spherical branch: the same estimate with the longitude difference `cp − p1` brought into `[−π, π]`
(upstream 'fix: spherical closest point … 2 pi'; before, a trench written 360° away from the query's longitude clamped the estimate to the wrong end) -/
def initialEstimateSph (p1 p2 cp : P2 R) : R :=
  let d := P2.dot (p2 - p1) (p2 - p1)
  let dx0 := cp.x - p1.x
  let dx := if dx0 > Scalar.pi then dx0 - (2.0 : R) * Scalar.pi else if dx0 < -Scalar.pi then dx0 + (2.0 : R) * Scalar.pi else dx0
  let pc : P2 R := ⟨dx, cp.y - p1.y⟩
  if d > 0.0 then Scalar.min (1.0 : R) (Scalar.max (0.0 : R) (P2.dot pc (p2 - p1) / d)) else 1.0

/-! #### Cartesian branch -/

@[inline] def evalC (k : Cubic R) (dm0 dm1 t : R) : R :=
  let tsq := t * t
  let e0 := k.a.x * tsq * t + k.b.x * tsq + k.c.x * t + dm0
  let e1 := k.a.y * tsq * t + k.b.y * tsq + k.c.y * t + dm1
  e0 * e0 + e1 * e1

/-- the 10-step line search of the Cartesian branch; returns `line_search` -/
def lineSearchC (k : Cubic R) (dm0 dm1 est update sd : R) : Nat → Nat → R → R → R
  | 0, _, ls, _ => ls
  | fuel + 1, i, ls, prev =>
    let estTest := est - update * ls
    let test := evalC k dm0 dm1 estTest
    if i > 0 ∧ test > prev ∧ prev - sd < 0 then ls * ((3.0 : R) / 2.0)
    else lineSearchC k dm0 dm1 est update sd fuel (i + 1) (ls * ((2.0 : R) / 3.0)) test

/-- the Newton loop of the Cartesian branch: `(est, found)` -/
def newtonC (k : Cubic R) (dm0 dm1 : R) : Nat → R → R × Bool
  | 0, est => (est, false)
  | fuel + 1, est =>
    let estSq := est * est
    let e0 := k.a.x * estSq * est + k.b.x * estSq + k.c.x * est + dm0
    let e1 := k.a.y * estSq * est + k.b.y * estSq + k.c.y * est + dm1
    let d0 := (3.0 : R) * k.a.x * estSq + (2.0 : R) * k.b.x * est + k.c.x
    let d1 := (3.0 : R) * k.a.y * estSq + (2.0 : R) * k.b.y * est + k.c.y
    let sd := e0 * e0 + e1 * e1
    let sdd := (2.0 : R) * (d0 * e0 + d1 * e1)
    let sd2 := fabs ((2.0 : R) * (((6.0 : R) * k.a.x * est + (2.0 : R) * k.b.x) * e0 + d0 * d0
                                  + ((6.0 : R) * k.a.y * est + (2.0 : R) * k.b.y) * e1 + d1 * d1))
    if sd2 ≤ 0.0 then (est, true)
    else
      let update := Scalar.min (0.5 : R) (Scalar.max (-0.5 : R) (sdd / sd2))
      let ls := if fabs update > (1e-1 : R) then lineSearchC k dm0 dm1 est update sd 10 0 1.0 sd else 1.0
      let est := est - update * ls
      if fabs update < (1e-4 : R) ∨ est < (-0.1 : R) ∨ est > (1.1 : R) then (est, true)
      else newtonC k dm0 dm1 fuel est

/-- the acceptance window `est >= -1e-8 && cp_i+est > 0 && est-1 <= 1e-8 && est-1 < cp_i` -/
@[inline] def accept (i : Nat) (est : R) : Bool :=
  decide (est ≥ (-1e-8 : R)) && decide (Scalar.nat i + est > 0) && decide (est - (1.0 : R) ≤ (1e-8 : R)) && decide (est - (1.0 : R) < Scalar.nat i)

/-- result for an accepted estimate (shared tail of both branches); `msd` is the accepted squared distance -/
def closestOf (k : Cubic R) (p0 p1 c0 c1 cp : P2 R) (i : Nat) (est msd : R) (onCurve : P2 R) : ClosestPoint R :=
  let w0 := ((6.0 : R) - (3.0 : R) * est) * est - (3.0 : R)
  let w1 := est * ((9 : R) * est - (12 : R)) + (3 : R)
  let w2 := ((6.0 : R) - (9.0 : R) * est) * est
  -- `points[i]*w0 + control[i][0]*w1 + control[i][1]*(6-9 est)*est + points[i+1]*3.*est*est` (Point*double, left to right)
  let dpx := p0.x * w0 + c0.x * w1 + c1.x * ((6.0 : R) - (9.0 : R) * est) * est + p1.x * (3.0 : R) * est * est
  let dpy := p0.y * w0 + c0.y * w1 + c1.y * ((6.0 : R) - (9.0 : R) * est) * est + p1.y * (3.0 : R) * est * est
  let _ := w2
  let tx := dpx - onCurve.x
  let ty := dpy - onCurve.y
  let dotp := tx * (cp.x - onCurve.x) + ty * (cp.y - onCurve.y)
  let sign : R := if dotp < 0.0 then -1.0 else 1.0
  let dx := k.a.x * est * est + k.b.x * est + k.c.x
  let dy := k.a.y * est * est + k.b.y * est + k.c.y
  let ns := sqrt (dx * dx + dy * dy)
  let normal : P2 R := if ns > 0.0 then ⟨dy / ns, -dx / ns⟩ else ⟨dx, dy⟩
  { distance := sign * sqrt msd, fraction := est, index := i, point := onCurve, normal := normal }

def closestCartesianLoop (bz : Bezier R) (cp : P2 R) : Nat → Nat → R → Option (ClosestPoint R) → Except Err (Option (ClosestPoint R))
  | 0, _, _, best => .ok best
  | fuel + 1, i, minSq, best =>
    if i < bz.control.length then do
      let p1 ← idx bz.points i
      let p2 ← idx bz.points (i + 1)
      let (c0, c1) ← idx bz.control i
      let est0 := initialEstimate p1 p2 cp
      let k := cubicOf p1 p2 c0 c1
      let dm0 := k.d.x - cp.x
      let dm1 := k.d.y - cp.y
      let (est, found) := newtonC k dm0 dm1 150 est0
      if !found then .error .newton
      let e0 := k.a.x * est * est * est + k.b.x * est * est + k.c.x * est + dm0
      let e1 := k.a.y * est * est * est + k.b.y * est * est + k.c.y * est + dm1
      let msd := e0 * e0 + e1 * e1
      if msd < minSq ∧ accept i est then
        let onCurve : P2 R := ⟨k.a.x * est * est * est + k.b.x * est * est + k.c.x * est + k.d.x,
                               k.a.y * est * est * est + k.b.y * est * est + k.c.y * est + k.d.y⟩
        closestCartesianLoop bz cp fuel (i + 1) msd (some (closestOf k p1 p2 c0 c1 cp i est msd onCurve))
      else closestCartesianLoop bz cp fuel (i + 1) minSq best
    else .ok best

/-! #### spherical branch -/

/-- `a*est*est*est + b*est*est + c*est + d` on points (`Point*double` component-wise, left to right) -/
@[inline] def cubicPoint (k : Cubic R) (t : R) : P2 R :=
  ⟨k.a.x * t * t * t + k.b.x * t * t + k.c.x * t + k.d.x, k.a.y * t * t * t + k.b.y * t * t + k.c.y * t + k.d.y⟩

@[inline] def sqDistS (cosCpLat : R) (cp ep : P2 R) : R :=
  let sLong := sin ((ep.x - cp.x) * (0.5 : R))
  let sLat := sin ((ep.y - cp.y) * (0.5 : R))
  sLat * sLat + sLong * sLong * cosCpLat * cos (ep.y - cp.y)

/-- the line search of the spherical branch (with its step adaptation); returns `line_search` -/
def lineSearchS (k : Cubic R) (cosCpLat : R) (cp : P2 R) (est update sd : R) : Nat → Nat → R → R → R → R
  | 0, _, ls, _, _ => ls
  | fuel + 1, i, ls, prev, step =>
    let estTest := est - update * ls
    let test := sqDistS cosCpLat cp (cubicPoint k estTest)
    if i > 0 ∧ test > prev then
      if prev - sd < 0 then ls * ((1 : R) / step)
      else if i > 1 then
        let ls := ls * (((1 : R) / step) * ((1 : R) / step))
        let estTest := est - update * ls
        let prev := sqDistS cosCpLat cp (cubicPoint k estTest)
        let step := Scalar.min (step * ((11.0 : R) / 10.0)) (0.95 : R)
        lineSearchS k cosCpLat cp est update sd fuel (i + 1) ls prev step
      else lineSearchS k cosCpLat cp est update sd fuel (i + 1) (ls * step) test step
    else lineSearchS k cosCpLat cp est update sd fuel (i + 1) (ls * step) test step

def newtonS (k : Cubic R) (cosCpLat : R) (cp : P2 R) : Nat → R → R × Bool
  | 0, est => (est, false)
  | fuel + 1, est =>
    let ep := cubicPoint k est
    let sLongH := sin ((ep.x - cp.x) * (0.5 : R))
    let sLatH := sin ((ep.y - cp.y) * (0.5 : R))
    let cDLat := cos (ep.y - cp.y)
    let sd := sLatH * sLatH + sLongH * sLongH * cosCpLat * cDLat
    let sDLat := sin (ep.y - cp.y)
    let cLongH := cos ((0.5 : R) * (ep.x - cp.x))
    let cLatH := cos ((0.5 : R) * (ep.y - cp.y))
    let dLong := (3.0 : R) * k.a.x * est * est + (2.0 : R) * k.b.x * est + k.c.x
    let dLat := (3.0 : R) * k.a.y * est * est + (2.0 : R) * k.b.y * est + k.c.y
    let sdd := cosCpLat * (-dLat) * sLongH * sLongH * sDLat + cosCpLat * dLong * sLongH * cLongH * cDLat + dLat * sLatH * cLatH
    if fabs sdd > (1e-15 : R) then
      let sd2 := cosCpLat * cDLat * ((-0.5 : R) * dLong * dLong * sLongH * sLongH + (0.5 : R) * dLong * dLong * cLongH * cLongH
                    + ((6.0 : R) * k.a.x * est + (2.0 : R) * k.b.x) * sLongH * cLongH)
                + cosCpLat * sLongH * sLongH * (dLat * dLat * (-cDLat) - ((6.0 : R) * k.a.y * est + (2.0 : R) * k.b.y) * sDLat)
                - (2.0 : R) * cosCpLat * dLong * dLat * sLongH * cLongH * sDLat
                - (0.5 : R) * dLat * dLat * sLatH * sLatH + (0.5 : R) * dLat * dLat * cLatH * cLatH
                + ((6.0 : R) * k.a.y * est + (2.0 : R) * k.b.y) * sLatH * cLatH
      let update := Scalar.min (0.5 : R) (Scalar.max (-0.5 : R) (sdd / fabs sd2))
      let ls := lineSearchS k cosCpLat cp est update sd 10 0 1.0 sd ((2.0 : R) / 3.0)
      let est := est - update * ls
      if fabs update < (1e-4 : R) ∨ est < (-0.1 : R) ∨ est > (1.1 : R) then (est, true)
      else newtonS k cosCpLat cp fuel est
    else (est, true)

def closestSphericalLoop (bz : Bezier R) (cp : P2 R) (cosCpLat : R) : Nat → Nat → R → Option (ClosestPoint R) → Except Err (Option (ClosestPoint R))
  | 0, _, _, best => .ok best
  | fuel + 1, i, minSq, best =>
    if i < bz.control.length then do
      let p1 ← idx bz.points i
      let p2 ← idx bz.points (i + 1)
      let (c0, c1) ← idx bz.control i
      let est0 := initialEstimateSph p1 p2 cp
      -- `3.*control[0] - 3.*control[1] + points[i+1] - points[i]` etc. on points: same component expressions as `cubicOf`
      let k := cubicOf p1 p2 c0 c1
      let (est, found) := newtonS k cosCpLat cp 150 est0
      if !found then .error .newton
      let ep := cubicPoint k est
      let msd := sqDistS cosCpLat cp ep
      if msd < minSq ∧ accept i est then
        closestSphericalLoop bz cp cosCpLat fuel (i + 1) msd (some (closestOf k p1 p2 c0 c1 cp i est msd ep))
      else closestSphericalLoop bz cp cosCpLat fuel (i + 1) minSq best
    else .ok best

/-- `BezierCurve::closest_point_on_curve_segment(check_point)`; `none` = the default-constructed (NaN) result -/
def Bezier.closestPoint (bz : Bezier R) (spherical : Bool) (cp : P2 R) : Except Err (Option (ClosestPoint R)) :=
  if spherical then closestSphericalLoop bz cp (cos cp.y) (bz.control.length + 1) 0 Scalar.inf none
  else closestCartesianLoop bz cp (bz.control.length + 1) 0 Scalar.inf none

end Gwb
