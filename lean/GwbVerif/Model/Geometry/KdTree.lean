/-
2-d kd-tree nearest-centroid search (source/world_builder/kd_tree.cc).
The tree is the node array in the order `create_tree` leaves it (libstdc++ `nth_element`, order among
equal keys unspecified): the array is an *input* of the model (dumped from the library by the harness);
`KdInv` (Proofs/KdTree.lean) states what the search relies on.  `buildMedian` is the model's own build used
when no dump is available (kernel tests): a median split by sorting, which satisfies the same invariant.
-/
import GwbVerif.Model.Basic
namespace Gwb
open Scalar
variable {R : Type} [Scalar R]

structure KdNode (R : Type) where
  index : Nat
  x : R
  y : R
  deriving Inhabited, Repr

@[inline] def KdNode.get (n : KdNode R) (yAxis : Bool) : R := if yAxis then n.y else n.x

structure IndexDistance (R : Type) where
  index : Nat
  distance : R
  deriving Inhabited

/-- `IndexDistances` -/
structure KdState (R : Type) where
  minIndex : Nat
  minDistance : R
  visited : List (IndexDistance R)   -- in emplace_back order (stored reversed, see `KdState.vector`)
  deriving Inhabited

def KdState.vector (s : KdState R) : List (IndexDistance R) := s.visited.reverse

@[inline] def kdDistance (n : KdNode R) (p : P2 R) : R :=
  sqrt ((n.x - p.x) * (n.x - p.x) + (n.y - p.y) * (n.y - p.y))

@[inline] def kdVisit (mid : Nat) (n : KdNode R) (p : P2 R) (s : KdState R) : KdState R :=
  let d := kdDistance n p
  let s := if s.minDistance > d then { s with minIndex := mid, minDistance := d } else s
  { s with visited := ⟨mid, d⟩ :: s.visited }

/-- `find_closest_points_recursive` (also covers `find_closest_point_recursive`, which is the same walk
without the visited list). Out-of-range access is impossible for `right < nodes.size`; the model keeps the state unchanged then. -/
def kdSearch (nodes : Array (KdNode R)) (p : P2 R) (left right : Nat) (yAxis : Bool) (s : KdState R) : KdState R :=
  let mid := (left + right) / 2
  match nodes[mid]? with
  | none => s
  | some node =>
    if p.get yAxis < node.get yAxis then
      let s := if left < mid then kdSearch nodes p left (mid - 1) (!yAxis) s else s
      let s := kdVisit mid node p s
      if right > mid then
        if node.get yAxis - p.get yAxis < s.minDistance then kdSearch nodes p (mid + 1) right (!yAxis) s else s
      else s
    else
      let s := if right > mid then kdSearch nodes p (mid + 1) right (!yAxis) s else s
      let s := kdVisit mid node p s
      if left < mid then
        if node.get yAxis - p.get yAxis < s.minDistance then kdSearch nodes p left (mid - 1) (!yAxis) s else s
      else s
termination_by right + 1 - left
decreasing_by all_goals omega

/-- `KDTree::find_closest_points`; an empty tree is undefined behaviour in the C++ (`nodes.size()-1` wraps). -/
def kdFindClosestPoints (nodes : Array (KdNode R)) (p : P2 R) : Except Err (KdState R) :=
  if nodes.size = 0 then .error .internal
  else .ok (kdSearch nodes p 0 (nodes.size - 1) false ⟨0, Scalar.dblMax, []⟩)

/-- insertion of a node into a list sorted on one axis (stable) -/
def kdInsert (yAxis : Bool) (n : KdNode R) : List (KdNode R) → List (KdNode R)
  | [] => [n]
  | m :: ms => if n.get yAxis < m.get yAxis then n :: m :: ms else m :: kdInsert yAxis n ms

def kdSort (yAxis : Bool) (ns : List (KdNode R)) : List (KdNode R) := ns.foldr (kdInsert yAxis) []

/-- the model's own `create_tree`: sort the range, put the median at `mid = (left+right)/2`, recurse. -/
def buildMedian (fuel : Nat) (ns : List (KdNode R)) (yAxis : Bool) : List (KdNode R) :=
  match fuel with
  | 0 => ns
  | fuel + 1 =>
    match ns with
    | [] => []
    | [n] => [n]
    | _ =>
      let sorted := kdSort yAxis ns
      let mid := (ns.length - 1) / 2
      let l := sorted.take mid
      let r := sorted.drop (mid + 1)
      match sorted[mid]? with
      | none => sorted
      | some m => buildMedian fuel l (!yAxis) ++ m :: buildMedian fuel r (!yAxis)

end Gwb
