/-
Coordinate systems and natural coordinates.
Anchors: utilities.cc:254-282, objects/natural_coordinate.cc, coordinate_systems/{cartesian,spherical}.cc.
-/
import GwbVerif.Model.Basic
namespace Gwb
open Scalar
variable {R : Type} [Scalar R]

/-- `DepthMethod` (coordinate_systems/interface.h) -/
inductive DepthMethod
  | none | startingPoint | beginSegment | beginAtEndSegment | continuous
  deriving Repr, DecidableEq, Inhabited

/-- which coordinate system plugin is active, with its parameters -/
structure CoordSys (R : Type) where
  spherical : Bool
  depthMethod : DepthMethod
  /-- `max_model_depth()`: `radius` for spherical, `+∞` for cartesian -/
  radius : R
  deriving Inhabited

/-- `cartesian_to_spherical_coordinates` → (R, lon, lat) -/
def cartesianToSpherical (p : P3 R) : P3 R :=
  let r := P3.norm p
  let lon := atan2 p.y p.x
  let lat := if r > Scalar.dblMin then (0.5 : R) * Scalar.pi - acos (p.z / r) else 0.0
  ⟨r, lon, lat⟩

/-- `spherical_to_cartesian_coordinates` of (R, lon, lat) -/
def sphericalToCartesian (s : P3 R) : P3 R :=
  let cosLat := s.x * sin ((0.5 : R) * Scalar.pi - s.z)
  ⟨cosLat * cos s.y, cosLat * sin s.y, s.x * cos ((0.5 : R) * Scalar.pi - s.z)⟩

/-- `cartesian_to_natural_coordinates` -/
def CoordSys.toNatural (c : CoordSys R) (p : P3 R) : P3 R :=
  if c.spherical then cartesianToSpherical p else p

/-- `natural_to_cartesian_coordinates` -/
def CoordSys.toCartesian (c : CoordSys R) (p : P3 R) : P3 R :=
  if c.spherical then sphericalToCartesian p else p

/-- `NaturalCoordinate::get_surface_point` -/
def surfacePoint (spherical : Bool) (nat : P3 R) : P2 R :=
  if spherical then ⟨nat.y, nat.z⟩ else ⟨nat.x, nat.y⟩

/-- `NaturalCoordinate::get_depth_coordinate` -/
def depthCoordinate (spherical : Bool) (nat : P3 R) : R :=
  if spherical then nat.x else nat.z

/-- `get_ref_depth_coordinate() += d` -/
def addToDepthCoordinate (spherical : Bool) (nat : P3 R) (d : R) : P3 R :=
  if spherical then { nat with x := nat.x + d } else { nat with z := nat.z + d }

/-- `Cartesian::distance_between_points_at_same_depth`: sqrt of squared differences of the first two coordinates
(cartesian.cc); `Spherical::…`: great-circle with the clamp as written (`max(-1., …)` after the `fix:` commit; before it `max(0., …)`). -/
def distanceSameDepth (spherical : Bool) (p1 p2 : P3 R) : R :=
  if spherical then
    let radius := p1.x
    let c1 := sphericalToCartesian p1
    let c2 := sphericalToCartesian p2
    radius * acos (Scalar.min (1.0 : R) (Scalar.max (-1.0 : R) (P3.dot c1 c2 / (radius * radius))))
  else
    sqrt ((p1.x - p2.x) * (p1.x - p2.x) + (p1.y - p2.y) * (p1.y - p2.y))

end Gwb
