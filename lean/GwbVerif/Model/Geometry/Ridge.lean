/-
`Utilities::calculate_ridge_distance_and_spreading` (utilities.cc:1289-1479) and small helpers
(`euler_angles_to_rotation_matrix` utilities.cc:1147-1169, `interpolate_angle_across_zero` 1094-1115,
`fraction_from_ellipse_center` 166-186).
-/
import GwbVerif.Model.Geometry.Polygon
import GwbVerif.Model.Geometry.Coords
namespace Gwb
open Scalar
variable {R : Type} [Scalar R]

/-- result vector `[spreading velocity (m/s), distance, subducting velocity (m/s), ridge migration time]` -/
structure RidgeParams (R : Type) where
  spreading : R
  distance : R
  subducting : R
  migrationTime : R
  deriving Inhabited

def secondsInYear : R := (60.0 : R) * 60.0 * 24.0 * 365.25

/-- the "which side of the transform fault" loop: first `relevant_ridge` in `0 … n-2` whose test succeeds, else `n-1`. -/
def relevantRidge (ridges : List (List (P2 R))) (check other : P2 R) : Nat → Nat → Except Err Nat
  | 0, i => .ok i
  | fuel + 1, i =>
    if i + 1 < ridges.length then do
      let rNext ← idx ridges (i + 1)
      let rCur ← idx ridges i
      let t0 ← idx rNext 0
      let t1 ← idx rCur (rCur.length - 1)
      let ref ← idx rCur 0
      let refSide := decide ((t1.x - t0.x) * (ref.y - t0.y) - (t1.y - t0.y) * (ref.x - t0.x) < 0)
      -- the description of the query (the point or the point ± 2π) closest in longitude to the transform fault
      -- (upstream 'fix: transform fault side test ignored the 2 pi periodicity of longitude')
      let chk := if fabs (other.x - t0.x) < fabs (check.x - t0.x) then other else check
      let chkSide := decide ((t1.x - t0.x) * (chk.y - t0.y) - (t1.y - t0.y) * (chk.x - t0.x) < 0)
      if refSide == chkSide then .ok i else relevantRidge ridges check other fuel (i + 1)
    else .ok i

/-- state of the segment loop -/
structure RidgeAcc (R : Type) where
  distance : R
  spreading : R
  subducting : R
  migration : R

/-- one segment of the relevant ridge -/
def ridgeSegment (spherical : Bool) (natAtMinDepth : P3 R) (check other : P2 R)
    (s0 s1 : P2 R) (v0 v1 sub0 sub1 : R) (first : Bool) (acc : RidgeAcc R) : RidgeAcc R :=
  let v := s1 - s0
  let w1 := check - s0
  let w2 := other - s0
  let c1 := w1.x * v.x + w1.y * v.y
  let c := v.x * v.x + v.y * v.y
  let c2 := w2.x * v.x + w2.y * v.y
  let (pb1, sp1, su1) :=
    if c1 ≤ 0 then (s0, v0, sub0)
    else if c ≤ c1 then (s1, v1, sub1)
    else (s0 + P2.smul (c1 / c) v, v0 + (v1 - v0) * (c1 / c), sub0 + (sub1 - sub0) * (c1 / c))
  let (pb2, sp2, su2) :=
    if c2 ≤ 0 then (s0, v0, sub0)
    else if c ≤ c2 then (s1, v1, sub1)        -- (was `v1`: upstream 'fix: far copy of the query took the spreading velocity as subducting velocity')
    else (s0 + P2.smul (c2 / c) v, v0 + (v1 - v0) * (c2 / c), sub0 + (sub1 - sub0) * (c2 / c))
  let dc := depthCoordinate spherical natAtMinDepth
  let cmp1 : P3 R := if spherical then ⟨dc, pb1.x, pb1.y⟩ else ⟨pb1.x, pb1.y, dc⟩
  let cmp2 : P3 R := if spherical then ⟨dc, pb2.x, pb2.y⟩ else ⟨pb2.x, pb2.y, dc⟩
  let d1 := distanceSameDepth spherical natAtMinDepth cmp1
  let d2 := distanceSameDepth spherical natAtMinDepth cmp2
  -- the copy that is closer in longitude to the segment is the one that is used (was `if d2 < d1`: the far copy always projects onto an end point,
  -- which could win on the sphere; upstream 'fix: ridge distance in spherical worlds depended on the sign of the query longitude')
  let mid := (0.5 : R) * (s0.x + s1.x)
  let (d, sp, su) := if fabs (other.x - mid) < fabs (check.x - mid) then (d2, sp2, su2) else (d1, sp1, su1)
  if first ∨ d < acc.distance then { acc with distance := d, spreading := sp, subducting := su } else acc

def ridgeSegments (spherical : Bool) (natAtMinDepth : P3 R) (check other : P2 R)
    (ridge : List (P2 R)) (vels : List R) (subVels : Option (List R)) (sub00 : R) :
    Nat → Nat → RidgeAcc R → Except Err (RidgeAcc R)
  | 0, _, acc => .ok acc
  | fuel + 1, i, acc =>
    if i + 1 < ridge.length then do
      let s0 ← idx ridge i
      let s1 ← idx ridge (i + 1)
      let v0 ← idx vels i
      let v1 ← idx vels (i + 1)
      let (sub0, sub1) ← (match subVels with
        | none => (.ok (sub00, sub00) : Except Err (R × R))
        | some sv => do
          let a ← idx sv i
          let b ← idx sv (i + 1)
          pure (a, b))
      let acc := ridgeSegment spherical natAtMinDepth check other s0 s1 v0 v1 sub0 sub1 (i == 0) acc
      ridgeSegments spherical natAtMinDepth check other ridge vels subVels sub00 fuel (i + 1) acc
    else .ok acc

/-- `calculate_ridge_distance_and_spreading`.  `subVel`: `subducting_plate_velocities`, `migr`: `ridge_migration_times`. -/
def ridgeDistanceAndSpreading (spherical : Bool) (ridges : List (List (P2 R))) (vels : List (List R))
    (natAtMinDepth : P3 R) (subVel : List (List R)) (migr : List R) : Except Err (RidgeParams R) := do
  let check := surfacePoint spherical natAtMinDepth
  let other := if spherical then otherPoint check else check
  let r0 ← idx ridges 0
  let rel ← (if r0.length > 1 then relevantRidge ridges check other ridges.length 0 else .ok 0)
  let ridge ← idx ridges rel
  let vs ← idx vels rel
  let sv0 ← idx subVel 0
  let sub00 ← idx sv0 0
  let perPoint := sv0.length > 1
  let subVels ← (if perPoint then (idx subVel rel).map some else .ok none)
  let migration ← (if perPoint ∧ ridge.length > 1 then idx migr rel else .ok (0 : R))
  let acc ← ridgeSegments spherical natAtMinDepth check other ridge vs subVels sub00 ridge.length 0
              ⟨Scalar.dblMax, 0, 0, migration⟩
  return { spreading := acc.spreading / secondsInYear, distance := acc.distance,
           subducting := acc.subducting / secondsInYear, migrationTime := acc.migration }

/-- `euler_angles_to_rotation_matrix(phi1_d, theta_d, phi2_d)` -/
def eulerToMatrix (phi1d thetad phi2d : R) : M3 R :=
  let d2r : R := Scalar.pi / 180.0
  let phi1 := phi1d * d2r
  let theta := thetad * d2r
  let phi2 := phi2d * d2r
  { a00 := cos phi2 * cos phi1 - cos theta * sin phi1 * sin phi2
    a01 := -cos phi2 * sin phi1 - cos theta * cos phi1 * sin phi2
    a02 := -sin phi2 * sin theta
    a10 := sin phi2 * cos phi1 + cos theta * sin phi1 * cos phi2
    a11 := -sin phi2 * sin phi1 + cos theta * cos phi1 * cos phi2
    a12 := cos phi2 * sin theta
    a20 := -sin theta * sin phi1
    a21 := -sin theta * cos phi1
    a22 := cos theta }

/-- `interpolate_angle_across_zero(angle_1, angle_2, fraction)` -/
def interpolateAngleAcrossZero (a1 a2 fraction : R) : R :=
  let (t1, t2) :=
    if fabs (a2 - a1) > Scalar.pi then
      (if a2 > a1 then (a1 + (2.0 : R) * Scalar.pi, a2) else (a1, a2 + (2.0 : R) * Scalar.pi))
    else (a1, a2)
  let rot := ((1 : R) - fraction) * t1 + fraction * t2
  rot - (2 : R) * Scalar.pi * floor (rot / ((2 : R) * Scalar.pi))

/-- `fraction_from_ellipse_center`; note the C++ `return false` (= 0.0) for a degenerate ellipse. -/
def fractionFromEllipseCenter (center : P2 R) (semiMajor ecc theta : R) (p : P2 R) : R :=
  let xr := (p.x - center.x) * cos theta + (p.y - center.y) * sin theta
  let yr := -(p.x - center.x) * sin theta + (p.y - center.y) * cos theta
  let semiMinor := semiMajor * sqrt ((1 : R) - pow ecc 2)
  -- `return infinity` (was `return false`, i.e. 0.0 = the centre: a degenerate ellipse contained every point; fixed upstream)
  if semiMajor < (10 : R) * Scalar.dblMin ∨ semiMinor < (10 : R) * Scalar.dblMin then Scalar.inf
  else pow xr 2 / pow semiMajor 2 + pow yr 2 / pow semiMinor 2

end Gwb
