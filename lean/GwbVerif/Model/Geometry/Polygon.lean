/-
Point-in-polygon test and `approx`.
Anchors: source/world_builder/utilities.cc:45-160 (`polygon_contains_point`, `_implementation`),
include/world_builder/utilities.h:48-52 (`approx`), utilities.cc:186-251 (`signed_distance_to_polygon`).

Transliteration notes: the C++ loop `for i … { …; j = i; }` with `j = pointNo-1` initially visits the
edges `(point_list[j], point_list[i])` = `(last, p₀), (p₀, p₁), …`; the model folds over exactly that
list.  `size_t wn` with `--wn` wraps modulo 2^64; the model counts in `Int` (equal unless a polygon
has 2^64 crossings).
-/
import GwbVerif.Model.Basic
namespace Gwb
open Scalar
variable {R : Type} [Scalar R]

/-- `Utilities::approx(a, b, error_factor = 1e4)` -/
@[inline] def approx (a b : R) : Bool :=
  decide (fabs (a - b) < fabs (Scalar.min a b) * Scalar.eps * (1e4 : R))

inductive EdgeRes
  | hit
  | delta (d : Int)

/-- body of the loop for the edge from `pj = point_list[j]` to `pi = point_list[i]`. -/
def edgeStep (pj pi p : P2 R) : EdgeRes :=
  if pj.y ≤ p.y then
    -- first check if a point is directly on a line (within epsilon)
    if approx pi.x p.x && approx pi.y p.y then .hit
    else if pi.y ≥ p.y then
      let isLeft := (pi.x - pj.x) * (p.y - pj.y) - (p.x - pj.x) * (pi.y - pj.y)
      if isLeft > 0 ∧ pi.y > p.y then .delta 1
      else if fabs isLeft < Scalar.eps then
        let dotp := P2.dot (p - pj) (pi - pj)
        if dotp ≥ 0 then
          let sql := P2.normSq (pi - pj)
          if dotp ≤ sql then .hit else .delta 0
        else .delta 0
      else .delta 0
    else .delta 0
  else
    if pi.y ≤ p.y then
      let isLeft := (pi.x - pj.x) * (p.y - pj.y) - (p.x - pj.x) * (pi.y - pj.y)
      if isLeft < 0 then .delta (-1)
      else if fabs isLeft < Scalar.eps then
        let dotp := P2.dot (p - pj) (pi - pj)
        if dotp ≥ 0 then
          let sql := P2.normSq (pi - pj)
          if dotp ≤ sql then .hit else .delta 0
        else .delta 0
      else .delta 0
    else .delta 0

def polyLoop (p : P2 R) : List (P2 R × P2 R) → Int → Bool
  | [], wn => wn != 0
  | (pj, pi) :: es, wn =>
    match edgeStep pj pi p with
    | .hit => true
    | .delta d => polyLoop p es (wn + d)

/-- the edges in loop order: `(point_list[j], point_list[i])`. -/
def polygonEdges (pts : List (P2 R)) : List (P2 R × P2 R) :=
  match pts.getLast? with
  | none => []
  | some l => (l :: pts.dropLast).zip pts

/-- `polygon_contains_point_implementation` -/
def polygonContainsImpl (pts : List (P2 R)) (p : P2 R) : Bool :=
  polyLoop p (polygonEdges pts) 0

/-- the ±2π alias of a spherical surface point (utilities.cc:52, surface.cc, bounding_box.h) -/
@[inline] def otherPoint (p : P2 R) : P2 R :=
  ⟨p.x + (if p.x < 0 then (2.0 : R) * Scalar.pi else (-2.0 : R) * Scalar.pi), p.y⟩

/-- `polygon_contains_point` -/
def polygonContains (spherical : Bool) (pts : List (P2 R)) (p : P2 R) : Bool :=
  if spherical then
    polygonContainsImpl pts p || polygonContainsImpl pts (otherPoint p)
  else polygonContainsImpl pts p

end Gwb
