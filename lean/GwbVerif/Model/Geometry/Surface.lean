/-
`Objects::Surface`: a depth surface given as values at points (source/world_builder/objects/surface.cc).
The Delaunay triangulation (third-party `delaunator`) and the kd-tree node order (`nth_element`) are inputs:
`SurfaceAux` is dumped from the library under test through the `GWB_VERIF` hook in `Surface::Surface`;
`Surface.build` re-derives everything else (min/max, `in_triangle_precomputed`) with the code's arithmetic
and checks that every dumped triangle vertex is one of the model's own nodes with the model's own value.
-/
import GwbVerif.Model.Geometry.Polygon
import GwbVerif.Model.Geometry.KdTree
namespace Gwb
open Scalar
variable {R : Type} [Scalar R]

/-- one triangle: three `[x, y, value]` rows (`triangles[i][0..2]`) -/
structure Tri (R : Type) where
  p0 : P3 R
  p1 : P3 R
  p2 : P3 R
  deriving Inhabited

/-- `in_triangle_precomputed[iii][0..7]` -/
structure TriPre (R : Type) where
  c0 : R
  c1 : R
  c2 : R
  c3 : R
  c4 : R
  c5 : R
  c6 : R
  c7 : R
  deriving Inhabited

/-- surface.cc:135-145 -/
def Tri.precompute (t : Tri R) : TriPre R :=
  let c6 := -(-t.p1.y * t.p2.x + t.p0.y * (-t.p1.x + t.p2.x) + t.p0.x * (t.p1.y - t.p2.y) + t.p1.x * t.p2.y)
  { c0 := t.p0.y * t.p2.x - t.p0.x * t.p2.y
    c1 := t.p2.y - t.p0.y
    c2 := t.p0.x - t.p2.x
    c3 := t.p0.x * t.p1.y - t.p0.y * t.p1.x
    c4 := t.p0.y - t.p1.y
    c5 := t.p1.x - t.p0.x
    c6 := c6
    c7 := (1.0 : R) / c6 }

/-- `in_triangle`: `some value` iff the (tolerant) test succeeds. surface.cc:38-62 -/
def inTriangle (t : Tri R) (pre : TriPre R) (p : P2 R) : Option R :=
  let factor : R := 1e4
  let s := -(pre.c0 + pre.c1 * p.x + pre.c2 * p.y)
  let tt := -(pre.c3 + pre.c4 * p.x + pre.c5 * p.y)
  if s ≥ -factor * Scalar.eps ∧ tt ≥ -factor * Scalar.eps ∧ s + tt - pre.c6 ≤ pre.c6 * factor * Scalar.eps then
    let is := pre.c7 * s
    let it := pre.c7 * tt
    some (t.p0.z * ((1 : R) - is - it) + t.p1.z * is + t.p2.z * it)
  else none

structure Surface (R : Type) where
  constant : Bool
  minimum : R
  maximum : R
  triangles : Array (Tri R)
  pre : Array (TriPre R)
  nodes : Array (KdNode R)
  deriving Inhabited

/-- what the harness dumps for one non-constant surface -/
structure SurfaceAux (R : Type) where
  triangles : Array (Tri R)
  nodes : Array (KdNode R)
  deriving Inhabited

/-- min / max loop of the constructor (surface.cc:73-87); `values` is non-empty (else the C++ throws). -/
def minMax (v0 : R) (vs : List R) : R × R :=
  vs.foldl (fun (mn, mx) v =>
    let mn := if v < mn then v else mn
    let mx := if v > mx then v else mx
    (mn, mx)) (v0, v0)

def Surface.constantOf (v : R) : Surface R :=
  { constant := true, minimum := v, maximum := v, triangles := #[], pre := #[], nodes := #[] }

/-- does the dumped vertex `(x, y, v)` occur among the model's nodes? (exact comparison) -/
def vertexKnown (values : List R) (pts : List (P2 R)) (q : P3 R) : Bool :=
  (values.zip pts).any (fun (v, p) => Scalar.beq p.x q.x && Scalar.beq p.y q.y && Scalar.beq v q.z)

/-- `Surface::Surface(values_at_points)`.  `aux = none` is only legal for constant surfaces. -/
def Surface.build (values : List R) (pts : List (P2 R)) (aux : Option (SurfaceAux R)) : Except Err (Surface R) :=
  match values with
  | [] => .error .other
  | v0 :: _ =>
    let (mn, mx) := minMax v0 values
    if pts.isEmpty then
      .ok { constant := true, minimum := mn, maximum := mx, triangles := #[], pre := #[], nodes := #[] }
    else
      match aux with
      | none => .error .unsupported
      | some a =>
        if a.triangles.all (fun t => vertexKnown values pts t.p0 && vertexKnown values pts t.p1 && vertexKnown values pts t.p2) then
          .ok { constant := false, minimum := mn, maximum := mx, triangles := a.triangles,
                pre := a.triangles.map Tri.precompute, nodes := a.nodes }
        else .error .internal

/-- try the triangle stored at kd-node position `ni` -/
def Surface.tryNode (s : Surface R) (ni : Nat) (p : P2 R) : Except Err (Option R) := do
  match s.nodes[ni]? with
  | none => .error .internal
  | some nd =>
    match s.triangles[nd.index]?, s.pre[nd.index]? with
    | some t, some pre => .ok (inTriangle t pre p)
    | _, _ => .error .internal

def Surface.tryList (s : Surface R) (p : P2 R) : List (IndexDistance R) → Except Err (Option R)
  | [] => .ok none
  | id :: ids => do
    match ← s.tryNode id.index p with
    | some v => .ok (some v)
    | none => s.tryList p ids

/-- the final scan over all nodes: `check_point` first, then (spherical) `other_point`, per node -/
def Surface.scanAll (s : Surface R) (spherical : Bool) (p other : P2 R) : List (KdNode R) → Except Err (Option R)
  | [] => .ok none
  | nd :: nds =>
    match s.triangles[nd.index]?, s.pre[nd.index]? with
    | some t, some pre =>
      match inTriangle t pre p with
      | some v => .ok (some v)
      | none =>
        match (if spherical then inTriangle t pre other else none) with
        | some v => .ok (some v)
        | none => s.scanAll spherical p other nds
    | _, _ => .error .internal

/-- `Surface::local_value(check_point).interpolated_value` (surface.cc:155-230) -/
def Surface.localValue (s : Surface R) (spherical : Bool) (p : P2 R) : Except Err R := do
  if s.constant then return s.minimum
  let ids ← kdFindClosestPoints s.nodes p
  match ← s.tryNode ids.minIndex p with
  | some v => return v
  | none =>
    let other := otherPoint p
    let idsOther ← (if spherical then kdFindClosestPoints s.nodes other else .ok ⟨0, Scalar.dblMax, []⟩)
    let r1 ← (if spherical then s.tryNode idsOther.minIndex other else .ok none)
    match r1 with
    | some v => return v
    | none =>
      match ← s.tryList p ids.vector with
      | some v => return v
      | none =>
        match ← (if spherical then s.tryList other idsOther.vector else .ok none) with
        | some v => return v
        | none =>
          match ← s.scanAll spherical p other s.nodes.toList with
          | some v => return v
          | none => .error .notInTriangle

/-- the recurring idiom
`surface.constant_value ? bound : surface.local_value(point).interpolated_value` -/
@[inline] def Surface.localOr (s : Surface R) (bound : R) (spherical : Bool) (p : P2 R) : Except Err R :=
  if s.constant then .ok bound else s.localValue spherical p

end Gwb
