/-
Area features (continental plate, oceanic plate, mantle layer: `properties` is textually the same in the
three classes) and the plume.  Anchors: features/continental_plate.cc:187-310, oceanic_plate.cc, mantle_layer.cc,
plume.cc:262-440.
-/
import GwbVerif.Model.Models.Area
namespace Gwb
open Scalar
variable {R : Type} [Scalar R]

/-- the four model lists of a feature -/
structure Models (R : Type) where
  temps : List (TempModel R) := []
  vels : List (VelModel R) := []
  comps : List (CompModel R) := []
  grains : List (GrainsModel R) := []

instance : Inhabited (Models R) := ⟨{}⟩

/-- what the per-property `switch` of an area feature / plume does for request `p` whose block starts at `e`.
`fMin fMax`: the feature's (local) depth range handed to the models; `rel`: the plume's relative distance. -/
def paintAt {G : Type} [RandGen G R] (tag : Nat) (ms : Models R) (ctx : Ctx R) (q : Query R) (fMin fMax rel : R)
    (p : Req) (e : Nat) (out : List R) : QM G (List R) :=
  match p.code with
  | 1 => do
    let old ← liftE (idx out e)
    let t ← liftE (ms.temps.foldlM (fun t m => m.get ctx q t fMin fMax rel) old)
    return writeBlock e [t] out
  | 2 => do
    let old ← liftE (idx out e)
    let c ← ms.comps.foldlM (fun c m => m.get ctx q p.n c) old
    return writeBlock e [c] out
  | 3 => do
    let g := Grains.ofBlock p.k (readBlock e (p.k * 10) out)
    let g ← ms.grains.foldlM (fun g m => m.get ctx q p.n g) g
    return writeBlock e g.toBlock out
  | 4 => return writeBlock e [Scalar.nat tag] out
  | 5 => do
    let v ← liftE (ms.vels.foldlM (fun v m => m.get ctx q v) (⟨0, 0, 0⟩ : P3 R))
    return writeBlock e [v.x, v.y, v.z] out
  | _ => QM.throw .unknownProperty

/-- the `for i_property` loop -/
def paintAll {G : Type} [RandGen G R] (tag : Nat) (ms : Models R) (ctx : Ctx R) (q : Query R) (fMin fMax rel : R)
    (pes : List (Req × Nat)) (out : List R) : QM G (List R) :=
  pes.foldlM (fun out (pe : Req × Nat) => paintAt tag ms ctx q fMin fMax rel pe.1 pe.2 out) out

structure AreaFeature (R : Type) where
  name : String
  tag : Nat
  coords : List (P2 R)
  rng : DepthRange R
  models : Models R
  deriving Inhabited

/-- the guards evaluated before the area feature writes anything; `some (min_depth_local, max_depth_local)` when it covers. -/
def AreaFeature.covers (f : AreaFeature R) (ctx : Ctx R) (q : Query R) : Except Err (Option (R × R)) :=
  let sph := ctx.coord.spherical
  let sp := surfacePoint sph q.nat
  if q.depth ≤ f.rng.maxDepth ∧ q.depth ≥ f.rng.minDepth ∧ polygonContains sph f.coords sp then do
    let mn ← f.rng.minS.localOr f.rng.minDepth sph sp
    let mx ← f.rng.maxS.localOr f.rng.maxDepth sph sp
    if q.depth ≤ mx ∧ q.depth ≥ mn then return some (mn, mx) else return none
  else return none

def AreaFeature.apply {G : Type} [RandGen G R] (f : AreaFeature R) (ctx : Ctx R) (q : Query R)
    (pes : List (Req × Nat)) (out : List R) : QM G (List R) := do
  match ← liftE (f.covers ctx q) with
  | none => return out
  | some (mn, mx) => paintAll f.tag f.models ctx q mn mx 0 pes out

/-- the temperature entry alone (`properties = {{1,0,0}}`, as the water-content models request it): the guards, then the
temperature models.  No random numbers are involved, so this is a pure function of the running value `old`. -/
def AreaFeature.applyTemp (f : AreaFeature R) (ctx : Ctx R) (q : Query R) (old : R) : Except Err R := do
  match ← f.covers ctx q with
  | none => return old
  | some (mn, mx) => f.models.temps.foldlM (fun t m => m.get ctx q t mn mx 0) old

structure PlumeFeature (R : Type) where
  name : String
  tag : Nat
  coords : List (P2 R)
  minDepth : R
  maxDepth : R
  depths : List R
  semiMajor : List R        -- radians in spherical worlds
  ecc : List R
  rot : List R              -- already `π/2 − angle·π/180`
  models : Models R
  deriving Inhabited

/-- plume.cc:270-345: the cross-section lookup and the relative distance; `none` = returns without writing. -/
def PlumeFeature.covers (f : PlumeFeature R) (ctx : Ctx R) (q : Query R) : Except Err (Option R) := do
  let depth := q.depth
  let up ← upperBound f.depths depth (f.depths.length + 1) 0 f.depths.length
  let _c0 ← idx f.coords 0      -- `Point<2> plume_center(coordinates[0])`
  if depth < f.minDepth then return none
  let d0 ← front f.depths
  let (center, sma, ecc, rot) ← (if up = 0 then do
      let c ← idx f.coords 0
      let e ← front f.ecc
      let r ← front f.rot
      let fraction := (depth - f.minDepth) / (d0 - f.minDepth)
      let a := d0 - f.minDepth
      let b ← front f.semiMajor
      let y := ((1.0 : R) - fraction) * a
      pure (c, sqrt (((1 : R) - pow (y / a) 2) * b * b), e, r)
    else if up = f.depths.length then do
      pure (← idx f.coords (f.coords.length - 1), ← back f.semiMajor, ← back f.ecc, ← back f.rot)
    else do
      let dl ← idx f.depths (up - 1)
      let dh ← idx f.depths up
      let fraction := (depth - dl) / (dh - dl)
      let cl ← idx f.coords (up - 1)
      let ch ← idx f.coords up
      let sl ← idx f.semiMajor (up - 1)
      let sh ← idx f.semiMajor up
      let el ← idx f.ecc (up - 1)
      let eh ← idx f.ecc up
      let rl ← idx f.rot (up - 1)
      let rh ← idx f.rot up
      pure (⟨((1 : R) - fraction) * cl.x + fraction * ch.x, ((1 : R) - fraction) * cl.y + fraction * ch.y⟩,
            ((1 : R) - fraction) * sl + fraction * sh, ((1 : R) - fraction) * el + fraction * eh,
            interpolateAngleAcrossZero rl rh fraction) : Except Err (P2 R × R × R × R))
  let sp0 := surfacePoint ctx.coord.spherical q.nat
  -- spherical: the description of the query longitude closest to the plume centre
  -- (upstream 'fix: plume ignored the 2 pi periodicity of longitude')
  let sp : P2 R :=
    if ctx.coord.spherical then
      if sp0.x - center.x > Scalar.pi then ⟨sp0.x - (2.0 : R) * Scalar.pi, sp0.y⟩
      else if sp0.x - center.x < -Scalar.pi then ⟨sp0.x + (2.0 : R) * Scalar.pi, sp0.y⟩
      else sp0
    else sp0
  let rel0 := fractionFromEllipseCenter center sma ecc rot sp
  let rel ← (if depth ≥ f.minDepth ∧ depth < d0 then do
      let a ← front f.semiMajor
      let b := a * sqrt ((1 : R) - pow ecc 2)
      let c := d0 - f.minDepth
      let x := (sp.x - center.x) * cos rot + (sp.y - center.y) * sin rot
      let y := -(sp.x - center.x) * sin rot + (sp.y - center.y) * cos rot
      let z := d0 - depth
      pure ((x * x) / (a * a) + (y * y) / (b * b) + (z * z) / (c * c))
    else pure rel0 : Except Err R)
  if depth ≤ f.maxDepth ∧ depth ≥ f.minDepth ∧ rel ≤ 1.0 then return some rel else return none

def PlumeFeature.apply {G : Type} [RandGen G R] (f : PlumeFeature R) (ctx : Ctx R) (q : Query R)
    (pes : List (Req × Nat)) (out : List R) : QM G (List R) := do
  match ← liftE (f.covers ctx q) with
  | none => return out
  | some rel => paintAll f.tag f.models ctx q f.minDepth f.maxDepth rel pes out

/-- the temperature entry alone, see `AreaFeature.applyTemp` -/
def PlumeFeature.applyTemp (f : PlumeFeature R) (ctx : Ctx R) (q : Query R) (old : R) : Except Err R := do
  match ← f.covers ctx q with
  | none => return old
  | some rel => f.models.temps.foldlM (fun t m => m.get ctx q t f.minDepth f.maxDepth rel) old

end Gwb
