/-
Line features: subducting plate and fault (`properties` is the same code modulo the membership test and
`only_positive`).  Anchors: features/subducting_plate.cc:497-846, fault.cc:470-815, their `*_models/*/*.cc`,
include/glm/glm.h (quaternion helpers used for grains), include/world_builder/bounding_box.h.

Temperature models: `uniform`, `linear`, `adiabatic` exist for both kinds (`LineTemp`, total functions); the slab has two more,
`plate model` and `mass conserving` (`SlabTemp`, Model/Models/SlabTemp.lean), which read the `AdditionalParameters` the membership test
computes (`LineHit.ap`) and can throw.  A segment's list holds either kind (`SegTemp`).
-/
import GwbVerif.Model.Features.Area
import GwbVerif.Model.Geometry.Dpfcp
import GwbVerif.Model.Models.SlabTemp
namespace Gwb
open Scalar
variable {R : Type} [Scalar R]

/-- the distance a line model tests against its range: slab `distance_from_plane`, fault `|distance_from_plane|` -/
@[inline] def lineDist (isFault : Bool) (d : R) : R := if isFault then fabs d else d

inductive LineTemp (R : Type)
  | uniform (mn mx : R) (op : Op) (t : R)
  /-- slab: top / bottom temperature; fault: center / side temperature -/
  | linear (mn mx : R) (op : Op) (top bottom : R)
  | adiabatic (mn mx : R) (op : Op) (tp alpha cp : R)

def LineTemp.get (m : LineTemp R) (isFault : Bool) (ctx : Ctx R) (depth gravityNorm : R) (pd : PlaneDist R) (old : R) : R :=
  let d := lineDist isFault pd.distanceFromPlane
  match m with
  | .uniform mn mx op t => if d ≤ mx ∧ d ≥ mn then applyOp op old t else old
  | .linear mn mx op top bottom =>
    if d ≤ mx ∧ d ≥ mn then
      let topL := if top < 0 then adiabat ctx.potentialT ctx.alpha gravityNorm ctx.cp mn else top
      let botL := if bottom < 0 then adiabat ctx.potentialT ctx.alpha gravityNorm ctx.cp mx else bottom
      -- the degenerate range is guarded like in the area copies (fixed upstream: 0 * (x / 0) was NaN on the surface `d = mn = mx`)
      applyOp op old (topL + (if mx - mn < (10.0 : R) * Scalar.eps then (0.0 : R) else (d - mn) * ((botL - topL) / (mx - mn))))
    else old
  | .adiabatic mn mx op tp alpha cp =>
    if d ≤ mx ∧ d ≥ mn then applyOp op old (adiabat tp alpha gravityNorm cp depth) else old

/-- an entry of a segment's `temperature_systems`: one of the models shared by slab and fault (`LineTemp`, total), or one of the
slab-only models that read the `AdditionalParameters` and may throw (`SlabTemp`, Model/Models/SlabTemp.lean) -/
inductive SegTemp (R : Type)
  | basic (m : LineTemp R)
  | slab (m : SlabTemp R)

/-- `temperature_model->get_temperature(position, depth, gravity_norm, temperature, starting_depth, maximum_depth, distance_from_planes, additional_parameters)` -/
def SegTemp.get (m : SegTemp R) (isFault : Bool) (ctx : Ctx R) (depth gravityNorm : R) (pd : PlaneDist R) (ap : AdditionalParams R) (old : R) :
    Except Err R :=
  match m with
  | .basic b => .ok (b.get isFault ctx depth gravityNorm pd old)
  | .slab s => s.get ctx depth gravityNorm pd ap old

inductive LineComp (R : Type)
  | uniform (mn mx : R) (op : Op) (comps : List Nat) (fractions : List R)
  /-- slab: `min/max distance slab top`, top / bottom fractions (side = |max − min|);
      fault: `min distance`, `side distance`, center / side fractions — no range test at all -/
  | smooth (mn mx side : R) (op : Op) (comps : List Nat) (topF bottomF : List R)
  /-- slab only: `tian water content` (`min/max distance slab top`).  What it paints depends on the query depth and on the
  temperature of the whole world at the query point, neither of which `LineComp.get` is handed: `LineComp.prepare` turns it, for
  the query at hand and where its range test passes, into the `uniform` model with that value; where the range test fails it is
  left as it is and `get` returns `old`, as the C++ does. -/
  | tianWater (mn mx : R) (op : Op) (comps : List Nat) (spec : TianSpec R)

def LineComp.get (m : LineComp R) (isFault : Bool) (pd : PlaneDist R) (n : Nat) (old : R) : Except Err R :=
  match m with
  | .uniform mn mx op comps fr =>
    let d := lineDist isFault pd.distanceFromPlane
    if d ≤ mx ∧ d ≥ mn then
      match findComposition comps n with
      | some i => do return applyOp op old (← idx fr i)
      | none => if op == .replace then .ok 0.0 else .ok old
    else .ok old
  | .smooth mn mx side op comps topF bottomF =>
    let d := pd.distanceFromPlane
    if isFault then
      match findComposition comps n with
      | some i => do
        let c ← idx topF i
        let s ← idx bottomF i
        let v := s + (c - s) * ((1 : R) - tanh ((10 : R) * (d - side / (2 : R)) / side)) / (2 : R)
        return applyOp op old v
      | none => if op == .replace then .ok 0.0 else .ok old
    else
      if d ≤ mx ∧ d ≥ mn then
        match findComposition comps n with
        | some i => do
          let t ← idx topF i
          let b ← idx bottomF i
          let scaling := ((1 : R) - tanh ((10 : R) * (d - side / (2.0 : R) - mn) / side)) / (2.0 : R)
          return applyOp op old (t * scaling + b * ((1 : R) - scaling))
        | none => if op == .replace then .ok 0.0 else .ok old
      else .ok old
  | .tianWater .. => .ok old

/-- `TianWaterContent::get_composition` up to the composition look-up: the range test, then (inside the range only)
`world->properties(position, depth, {{{1,0,0}}})[0]`, the pressure and the polynomial fits.  The remaining lines —
`for i: if (compositions[i] == composition_number) return apply_operation(operation, composition, partition_coefficient);`
`if (operation == REPLACE) return 0.0;` — are those of the `uniform` model with every fraction equal to that value. -/
def LineComp.prepare (m : LineComp R) (isFault : Bool) (q : Query R) (pd : PlaneDist R) : Except Err (LineComp R) :=
  match m with
  | .tianWater mn mx op comps spec =>
    let d := lineDist isFault pd.distanceFromPlane
    if d ≤ mx ∧ d ≥ mn then do
      let t ← q.worldT ()
      let w := spec.value q.depth t
      return .uniform mn mx op comps (comps.map (fun _ => w))
    else return m
  | _ => return m

inductive LineVel (R : Type)
  | uniformRaw (mn mx : R) (op : Op) (v : P3 R)

def LineVel.get (m : LineVel R) (isFault : Bool) (pd : PlaneDist R) (old : P3 R) : P3 R :=
  match m with
  | .uniformRaw mn mx op v =>
    let d := lineDist isFault pd.distanceFromPlane
    if d ≤ mx ∧ d ≥ mn then ⟨applyOp op old.x v.x, applyOp op old.y v.y, applyOp op old.z v.z⟩ else old

inductive LineGrains (R : Type)
  | uniform (mn mx : R) (comps : List Nat) (mats : List (M3 R)) (sizes : List R)
  /-- `random uniform distribution` (same code as the area copies modulo the range test).  The random numbers are drawn by
  `LineGrains.prepare`, which replaces the model by `drawn` for the request at hand where it applies; where it does not apply
  (out of range, composition not listed) it is left as it is and `get` returns `old`. -/
  | randomUniform (mn mx : R) (comps : List Nat) (sizes : List R) (normalize : List Bool)
  /-- `random uniform distribution deflected` -/
  | randomUniformDeflected (mn mx : R) (comps : List Nat) (basis : List (M3 R)) (sizes : List R)
      (normalize : List Bool) (deflections : List R)
  /-- a random model after `LineGrains.prepare` drew its numbers for one request: `get_grains` returns these grains -/
  | drawn (g : Grains R)

def LineGrains.get (m : LineGrains R) (isFault : Bool) (pd : PlaneDist R) (n : Nat) (old : Grains R) : Except Err (Grains R) :=
  match m with
  | .randomUniform .. => .ok old
  | .randomUniformDeflected .. => .ok old
  | .drawn g =>
    -- `prepare` drew one matrix and one size per grain of `old` (every model keeps the number of grains), so the test is always true there
    if g.sizes.length = old.sizes.length ∧ g.mats.length = old.mats.length then .ok g else .ok old
  | .uniform mn mx comps mats sizes =>
    let d := lineDist isFault pd.distanceFromPlane
    if d ≤ mx ∧ d ≥ mn then
      match findComposition comps n with
      | none => .ok old
      | some i => do
        let mat ← idx mats i
        let gs ← idx sizes i
        let size := if gs < 0 then (1.0 : R) / Scalar.nat old.sizes.length else gs
        return { sizes := old.sizes.map (fun _ => size), mats := old.mats.map (fun _ => mat) }
    else .ok old

/-- the random part of `get_grains` of the two random models, evaluated for one request ahead of the (pure) painting code:
the range test, the composition look-up, then one matrix per grain (three draws each) and one size per grain (one draw each where
the listed size is negative), in this order, exactly as in `GrainsModel.get` (Model/Models/Area.lean).  `g0`: the grains
the request starts from; only the number of grains is used. -/
def LineGrains.prepare {G : Type} [RandGen G R] (m : LineGrains R) (isFault : Bool) (pd : PlaneDist R) (n : Nat) (g0 : Grains R) :
    QM G (LineGrains R) :=
  match m with
  | .randomUniform mn mx comps sizes normalize =>
    let d := lineDist isFault pd.distanceFromPlane
    if d ≤ mx ∧ d ≥ mn then
      match findComposition comps n with
      | none => return m
      | some i => do
        let mats ← drawMatrices none none g0.mats.length
        let gs ← liftE (idx sizes i)
        let (ss, total) ← drawSizes gs g0.sizes.length 0
        let norm ← liftE (idx normalize i)
        let ss := if norm then let inv := (1 : R) / total; ss.map (· * inv) else ss
        return .drawn { sizes := ss, mats := mats }
    else return m
  | .randomUniformDeflected mn mx comps basis sizes normalize deflections =>
    let d := lineDist isFault pd.distanceFromPlane
    if d ≤ mx ∧ d ≥ mn then
      match findComposition comps n with
      | none => return m
      | some i => do
        let dfl ← liftE (idx deflections i)
        let b ← liftE (idx basis i)
        let mats ← drawMatrices (some dfl) (some b) g0.mats.length
        let gs ← liftE (idx sizes i)
        let (ss, total) ← drawSizes gs g0.sizes.length 0
        let norm ← liftE (idx normalize i)
        let ss := if norm then let inv := (1 : R) / total; ss.map (· * inv) else ss
        return .drawn { sizes := ss, mats := mats }
    else return m
  | _ => return m

/-- one segment of one section, models resolved (segment → section → feature) -/
structure Segment (R : Type) where
  length : R
  thickness : P2 R
  topTruncation : P2 R
  angle : P2 R            -- degrees, as in the file
  temps : List (SegTemp R)
  comps : List (LineComp R)
  grains : List (LineGrains R)
  vels : List (LineVel R)

/-- `BoundingBox<2>` -/
structure BBox (R : Type) where
  lo : P2 R
  hi : P2 R
  deriving Inhabited

def BBox.insideImpl (b : BBox R) (p : P2 R) (tol : R) : Bool :=
  let okx := !(decide (p.x < b.lo.x - tol * fabs (b.hi.x - b.lo.x)) || decide (p.x > b.hi.x + tol * fabs (b.hi.x - b.lo.x)))
  let oky := !(decide (p.y < b.lo.y - tol * fabs (b.hi.y - b.lo.y)) || decide (p.y > b.hi.y + tol * fabs (b.hi.y - b.lo.y)))
  okx && oky

/-- `BoundingBox<2>::point_inside(point)` with the default tolerance `epsilon`; spherical: the point, the point + 2π and the
point − 2π are tried (upstream 'fix: bounding box tried only one longitude alias') -/
def BBox.inside (b : BBox R) (spherical : Bool) (p : P2 R) : Bool :=
  if spherical then b.insideImpl p Scalar.eps || b.insideImpl ⟨p.x + (2.0 : R) * Scalar.pi, p.y⟩ Scalar.eps
    || b.insideImpl ⟨p.x - (2.0 : R) * Scalar.pi, p.y⟩ Scalar.eps
  else b.insideImpl p Scalar.eps

structure LineFeature (R : Type) where
  name : String
  tag : Nat
  isFault : Bool
  coords : List (P2 R)
  reference : P2 R          -- dip point
  minDepth : R              -- starting_depth
  maxDepth : R
  sections : List (List (Segment R))
  bezier : Bezier R
  /-- false when the `GWB_VERIF` hook disabled the culling shortcuts (infinite box and length) -/
  cull : Bool := true

/-- std::max over all thickness entries, starting from 0; for slabs also over the negated top truncations (a negative truncation extends the
slab above its surface; upstream 'fix: slab culling bounds ignored a negative top truncation') — the fault has no truncation and no such terms -/
def LineFeature.maxThickness (f : LineFeature R) : R :=
  f.sections.foldl (fun m sec => sec.foldl (fun m s =>
    let m := Scalar.max (Scalar.max m s.thickness.x) s.thickness.y
    if f.isFault then m else Scalar.max (Scalar.max m (-s.topTruncation.x)) (-s.topTruncation.y)) m) 0

def sectionLength (sec : List (Segment R)) : R := sec.foldl (fun l s => l + s.length) 0

def LineFeature.maxTotalLength (f : LineFeature R) : R :=
  f.sections.foldl (fun m sec => Scalar.max m (sectionLength sec)) 0

/-- first element minimising / maximising a coordinate (`std::min_element` / `std::max_element` with `<`) -/
def minBy (xs : List R) : Except Err R :=
  match xs with
  | [] => .error .internal
  | x :: rest => .ok (rest.foldl (fun m v => if v < m then v else m) x)
def maxBy (xs : List R) : Except Err R :=
  match xs with
  | [] => .error .internal
  | x :: rest => .ok (rest.foldl (fun m v => if m < v then v else m) x)

/-- the surface bounding box with its buffer (subducting_plate.cc:430-485) -/
def LineFeature.bbox (f : LineFeature R) (coord : CoordSys R) : Except Err (BBox R) := do
  let minX0 ← minBy (f.coords.map (·.x))
  let maxX0 ← maxBy (f.coords.map (·.x))
  let minY0 ← minBy (f.coords.map (·.y))
  let maxY0 ← maxBy (f.coords.map (·.y))
  -- the trench curve lies in the convex hull of its points and control points: the box covers the control points too
  -- (upstream 'fix: bounding box of slabs and faults ignored the bulge of the trench curve'); `std::min(a,b)` is `b < a ? b : a`, `std::max(a,b)` is `a < b ? b : a`
  let cps : List (P2 R) := f.bezier.control.flatMap (fun c => [c.1, c.2])
  let minX := cps.foldl (fun m v => if v.x < m then v.x else m) minX0
  let maxX := cps.foldl (fun m v => if m < v.x then v.x else m) maxX0
  let minY := cps.foldl (fun m v => if v.y < m then v.y else m) minY0
  let maxY := cps.foldl (fun m v => if m < v.y then v.y else m) maxY0
  let buffer := f.maxThickness + f.maxTotalLength
  if coord.spherical then
    let minCosInv := (1.0 : R) / cos minY
    let maxCosInv := (1.0 : R) / cos maxY
    let rInv := (1 : R) / coord.radius
    let bs := (2 : R) * Scalar.pi * buffer * rInv
    return ⟨⟨minX - bs * minCosInv, minY - bs⟩, ⟨maxX + bs * maxCosInv, maxY + bs⟩⟩
  else
    return ⟨⟨minX - buffer, minY - buffer⟩, ⟨maxX + buffer, maxY + buffer⟩⟩

/-- `slab_segment_lengths`, `slab_segment_angles` (radians: `value_angle * (PI/180)`) -/
def LineFeature.lengths (f : LineFeature R) : List (List R) := f.sections.map (·.map (·.length))
def LineFeature.anglesRad (f : LineFeature R) : List (List (P2 R)) :=
  f.sections.map (·.map (fun s => (⟨s.angle.x * (Scalar.pi / 180), s.angle.y * (Scalar.pi / 180)⟩ : P2 R)))

/-! #### quaternions (include/glm/glm.h) -/

structure Quat (R : Type) where
  w : R
  x : R
  y : R
  z : R

def quatCast (m : M3 R) : Quat R :=
  let fx := m.a00 - m.a11 - m.a22
  let fy := m.a11 - m.a00 - m.a22
  let fz := m.a22 - m.a00 - m.a11
  let fw := m.a00 + m.a11 + m.a22
  let (bi, big) : Nat × R := (0, fw)
  let (bi, big) := if fx > big then (1, fx) else (bi, big)
  let (bi, big) := if fy > big then (2, fy) else (bi, big)
  let (bi, big) := if fz > big then (3, fz) else (bi, big)
  let bv := sqrt (big + (1 : R)) * (0.5 : R)
  let mult := (0.25 : R) / bv
  match bi with
  | 0 => ⟨bv, (m.a12 - m.a21) * mult, (m.a20 - m.a02) * mult, (m.a01 - m.a10) * mult⟩
  | 1 => ⟨(m.a12 - m.a21) * mult, bv, (m.a01 + m.a10) * mult, (m.a20 + m.a02) * mult⟩
  | 2 => ⟨(m.a20 - m.a02) * mult, (m.a01 + m.a10) * mult, bv, (m.a12 + m.a21) * mult⟩
  | _ => ⟨(m.a01 - m.a10) * mult, (m.a20 + m.a02) * mult, (m.a12 + m.a21) * mult, bv⟩

def mat3Cast (q : Quat R) : M3 R :=
  let qxx := q.x * q.x; let qyy := q.y * q.y; let qzz := q.z * q.z
  let qxz := q.x * q.z; let qxy := q.x * q.y; let qyz := q.y * q.z
  let qwx := q.w * q.x; let qwy := q.w * q.y; let qwz := q.w * q.z
  { a00 := (1 : R) - (2 : R) * (qyy + qzz), a01 := (2 : R) * (qxy + qwz), a02 := (2 : R) * (qxz - qwy)
    a10 := (2 : R) * (qxy - qwz), a11 := (1 : R) - (2 : R) * (qxx + qzz), a12 := (2 : R) * (qyz + qwx)
    a20 := (2 : R) * (qxz + qwy), a21 := (2 : R) * (qyz - qwx), a22 := (1 : R) - (2 : R) * (qxx + qyy) }

@[inline] def mix (x y a : R) : R := x * ((1.0 : R) - a) + y * a

def slerp (x y : Quat R) (a : R) : Quat R :=
  let c0 := x.w * y.w + x.x * y.x + x.y * y.y + x.z * y.z
  let (z, c) : Quat R × R := if c0 < 0 then (⟨-y.w, -y.x, -y.y, -y.z⟩, -c0) else (y, c0)
  if c > (1.0 : R) - Scalar.eps then ⟨mix x.w z.w a, mix x.x z.x a, mix x.y z.y a, mix x.z z.z a⟩
  else
    let angle := acos c
    let s1 := sin (((1.0 : R) - a) * angle)
    let s2 := sin (a * angle)
    let sa := sin angle
    -- `(s1 * x + s2 * z) / sin(angle)`: `double*quat` multiplies each member by the scalar on the right
    ⟨(x.w * s1 + z.w * s2) / sa, (x.x * s1 + z.x * s2) / sa, (x.y * s1 + z.y * s2) / sa, (x.z * s1 + z.z * s2) / sa⟩

/-! #### the feature -/

/-- everything the membership test needs, and the geometry result handed to the models -/
structure LineHit (R : Type) where
  pd : PlaneDist R
  cur : Segment R
  next : Segment R
  /-- `Features::AdditionalParameters{max_slab_length, thickness_local}` as computed by the membership test -/
  ap : AdditionalParams R

/-- the culling pre-test in front of the geometry (subducting_plate.cc:519, fault.cc:493) -/
def LineFeature.preTest (f : LineFeature R) (ctx : Ctx R) (q : Query R) : Except Err Bool := do
  let sph := ctx.coord.spherical
  let depth := q.depth
  let box ← f.bbox ctx.coord
  let sp := surfacePoint sph q.nat
  if f.cull then
    return decide (depth ≤ f.maxDepth) && decide (depth ≥ f.minDepth) && decide (depth - f.minDepth ≤ f.maxTotalLength + f.maxThickness) && box.inside sph sp
  else
    -- hook `inflate_culling_bounds`: `maximum_total_*_length = +∞`, default (infinite, Cartesian-typed) bounding box
    return decide (depth ≤ f.maxDepth) && decide (depth ≥ f.minDepth)

/-- everything after the pre-test: geometry and membership (does not look at `cull`) -/
def LineFeature.coversBody (f : LineFeature R) (ctx : Ctx R) (q : Query R) : Except Err (Option (LineHit R)) := do
  let sph := ctx.coord.spherical
  let depth := q.depth
  let startingRadius := depthCoordinate sph q.nat + depth - f.minDepth
  let pd ← distancePointFromCurvedPlanes ctx.coord q.pt q.nat f.reference f.coords f.lengths f.anglesRad startingRadius f.isFault f.bezier
  if !(fabs pd.distanceFromPlane < Scalar.inf ∨ pd.distanceAlongPlane < Scalar.inf) then return none
  let secCur ← idx f.sections pd.sectionIdx
  let secNext ← idx f.sections (pd.sectionIdx + 1)
  let cur ← idx secCur pd.segment
  let next ← idx secNext pd.segment
  let sf := pd.fractionOfSection
  let gf := pd.fractionOfSegment
  let thUp := cur.thickness.x + sf * (next.thickness.x - cur.thickness.x)
  let thDown := cur.thickness.y + sf * (next.thickness.y - cur.thickness.y)
  let thLocal := thUp + gf * (thDown - thUp)
  if fabs thLocal < (2.0 : R) * Scalar.eps then return none
  let ttUp := cur.topTruncation.x + sf * (next.topTruncation.x - cur.topTruncation.x)
  let ttDown := cur.topTruncation.y + sf * (next.topTruncation.y - cur.topTruncation.y)
  let ttLocal := ttUp + gf * (ttDown - ttUp)
  if thLocal < ttLocal then return none
  let lenCur := sectionLength secCur
  let lenNext := sectionLength secNext
  let maxLen := lenCur + sf * (lenNext - lenCur)
  let d := pd.distanceFromPlane
  let a := pd.distanceAlongPlane
  let inside :=
    if f.isFault then decide (fabs d ≤ thLocal * (0.5 : R)) && decide (a > 0) && decide (a ≤ maxLen)
    else decide (d ≥ ttLocal) && decide (d ≤ thLocal) && decide (a ≥ 0) && decide (a ≤ maxLen)
  if inside then return some ⟨pd, cur, next, ⟨maxLen, thLocal⟩⟩ else return none

/-- the guards of `SubductingPlate::properties` / `Fault::properties`: `some hit` when the feature writes -/
def LineFeature.covers (f : LineFeature R) (ctx : Ctx R) (q : Query R) : Except Err (Option (LineHit R)) := do
  if !(← f.preTest ctx q) then return none
  f.coversBody ctx q

/-- the per-property `switch` inside a slab / fault for the request whose block starts at `e` -/
def linePaintAt (f : LineFeature R) (ctx : Ctx R) (q : Query R) (h : LineHit R) (p : Req) (e : Nat) (out : List R) : Except Err (List R) :=
  let sf := h.pd.fractionOfSection
  match p.code with
  | 1 => do
    let old ← idx out e
    let tc ← h.cur.temps.foldlM (fun t m => m.get f.isFault ctx q.depth q.gravityNorm h.pd h.ap t) old
    let tn ← h.next.temps.foldlM (fun t m => m.get f.isFault ctx q.depth q.gravityNorm h.pd h.ap t) old
    return writeBlock e [tc + sf * (tn - tc)] out
  | 2 => do
    let old ← idx out e
    let cc ← h.cur.comps.foldlM (fun c m => m.get f.isFault h.pd p.n c) old
    let cn ← h.next.comps.foldlM (fun c m => m.get f.isFault h.pd p.n c) old
    return writeBlock e [cc + sf * (cn - cc)] out
  | 3 => do
    let g := Grains.ofBlock p.k (readBlock e (p.k * 10) out)
    let gc ← h.cur.grains.foldlM (fun g m => m.get f.isFault h.pd p.n g) g
    let gn ← h.next.grains.foldlM (fun g m => m.get f.isFault h.pd p.n g) g
    let sizes := List.zipWith (fun (a b : R) => a + sf * (b - a)) gc.sizes gn.sizes
    let mats := List.zipWith (fun (a b : M3 R) => mat3Cast (slerp (quatCast a) (quatCast b) sf)) gc.mats gn.mats
    return writeBlock e ({ sizes := sizes, mats := mats } : Grains R).toBlock out
  | 4 => return writeBlock e [Scalar.nat f.tag] out
  | 5 => do
    let o0 ← idx out e
    let o1 ← idx out (e + 1)
    -- as written: `velocity_current_section[2] = output[entry_in_output[i_property]]+2;`
    let v0 : P3 R := ⟨o0, o1, o0 + (2 : R)⟩
    let vc := h.cur.vels.foldl (fun v m => m.get f.isFault h.pd v) v0
    let vn := h.next.vels.foldl (fun v m => m.get f.isFault h.pd v) v0
    return writeBlock e [vc.x + sf * (vn.x - vc.x), vc.y + sf * (vn.y - vc.y), vc.z + sf * (vn.z - vc.z)] out
  | _ => .error .unknownProperty

/-- the models of one section's segment made ready for request `p`: a composition request evaluates the water-content models
(world temperature), a grains request draws the random numbers of the random grains models, in list order -/
def Segment.prepare {G : Type} [RandGen G R] (s : Segment R) (isFault : Bool) (q : Query R) (pd : PlaneDist R) (p : Req) (g0 : Grains R) :
    QM G (Segment R) :=
  match p.code with
  | 2 => do
    let comps ← liftE (s.comps.mapM (fun m => m.prepare isFault q pd))
    return { s with comps := comps }
  | 3 => do
    let grains ← s.grains.mapM (fun m => m.prepare isFault pd p.n g0)
    return { s with grains := grains }
  | _ => return s

/-- current section first, then the next one: the order in which the C++ walks the two model lists -/
def LineHit.prepare {G : Type} [RandGen G R] (h : LineHit R) (isFault : Bool) (q : Query R) (p : Req) (g0 : Grains R) : QM G (LineHit R) := do
  let cur ← h.cur.prepare isFault q h.pd p g0
  let next ← h.next.prepare isFault q h.pd p g0
  return { h with cur := cur, next := next }

/-- one request of the per-property loop: whatever needs the world or the random-number engine first (`LineHit.prepare`),
then the pure painting code -/
def linePaintAtM {G : Type} [RandGen G R] (f : LineFeature R) (ctx : Ctx R) (q : Query R) (h : LineHit R) (p : Req) (e : Nat) (out : List R) :
    QM G (List R) := do
  let h' ← h.prepare f.isFault q p (Grains.ofBlock p.k (readBlock e (p.k * 10) out))
  liftE (linePaintAt f ctx q h' p e out)

def LineFeature.apply {G : Type} [RandGen G R] (f : LineFeature R) (ctx : Ctx R) (q : Query R) (pes : List (Req × Nat)) (out : List R) :
    QM G (List R) := do
  match ← liftE (f.covers ctx q) with
  | none => return out
  | some h => pes.foldlM (fun out (pe : Req × Nat) => linePaintAtM f ctx q h pe.1 pe.2 out) out

/-- the temperature entry alone (`properties = {{1,0,0}}`), see `AreaFeature.applyTemp` -/
def LineFeature.applyTemp (f : LineFeature R) (ctx : Ctx R) (q : Query R) (old : R) : Except Err R := do
  match ← f.covers ctx q with
  | none => return old
  | some h =>
    let sf := h.pd.fractionOfSection
    let tc ← h.cur.temps.foldlM (fun t m => m.get f.isFault ctx q.depth q.gravityNorm h.pd h.ap t) old
    let tn ← h.next.temps.foldlM (fun t m => m.get f.isFault ctx q.depth q.gravityNorm h.pd h.ap t) old
    return tc + sf * (tn - tc)

/-- `distance_to_feature_plane` -/
def LineFeature.distanceToPlane (f : LineFeature R) (ctx : Ctx R) (q : Query R) : Except Err (R × R) := do
  let sph := ctx.coord.spherical
  let startingRadius := depthCoordinate sph q.nat + q.depth - f.minDepth
  let pd ← distancePointFromCurvedPlanes ctx.coord q.pt q.nat f.reference f.coords f.lengths f.anglesRad startingRadius false f.bezier
  return (pd.distanceFromPlane, pd.distanceAlongPlane)

end Gwb
