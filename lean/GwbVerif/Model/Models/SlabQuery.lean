/-
Named intermediate quantities of `MassConserving.get` (`MassConserving::get_temperature`, mass_conserving.cc:288-637): explicit definitions
`mcBackground`, `mcSubfact`, `mcTcoup`, …, `mcRegime` (the five-tuple `(theta, min_temperature − T_surface − adiabatic gradient, offset,
initial heat content, effective plate age in seconds)` of the three depth regimes) and the record `McQuery` with `minT`, `offset`,
`bottomHeat`, `topHeat`, `adjustedDistance`, `analyticT`.  New definitions only (nothing existing is changed); Mathlib-free, so the Float
driver can print them.  `Proofs/SlabGet.lean` proves that `MassConserving.get` IS `applyOp op old (analytic …)` of these quantities.
-/
import GwbVerif.Model.Models.SlabTemp
namespace Gwb
open Scalar
variable {R : Type} [Scalar R]


/-- `background_temperature`: the adiabat of the potential temperature at the query depth (or the potential temperature itself) -/
def mcBackground (m : MassConserving R) (gravityNorm depth : R) : R :=
  if m.adiabaticHeating then m.potentialT * exp (m.alpha * gravityNorm * depth / m.cp) else m.potentialT

/-- `adiabatic_gradient = background_temperature − potential_mantle_temperature` (0 without adiabatic heating) -/
def mcAdiabaticGradient (m : MassConserving R) (gravityNorm depth : R) : R :=
  if m.adiabaticHeating then mcBackground m gravityNorm depth - m.potentialT else 0

/-- `vsubfact`: `0.35 → 0.1` over subducting velocities `0 → 0.2 m/yr`, clamped -/
def mcVsubfact (subVel : R) : R :=
  Scalar.min (Scalar.max ((0.35 : R) + (((0.1 : R) - 0.35) / ((20 : R) / (100 : R))) * subVel) 0.1) 0.35

/-- `agefact`: `1 → 0.1` over trench ages `0 → 100 Myr`, clamped -/
def mcAgefact (ageAtTrench : R) : R :=
  Scalar.min (Scalar.max ((1.0 : R) + (((0.1 : R) - 1.0) / ((100 : R) * (1.0e6 : R))) * ageAtTrench) 0.1) 1.0

/-- `agefact2`: `0.1 → 0.35` over trench ages `0 → 100 Myr`, clamped -/
def mcAgefact2 (ageAtTrench : R) : R :=
  Scalar.max (Scalar.min ((0.1 : R) + (((0.35 : R) - 0.1) / ((100 : R) * (1.0e6 : R))) * ageAtTrench) 0.35) 0.1

/-- `subfact` (scales the minimum temperature) -/
def mcSubfact (subVel ageAtTrench : R) : R := (0.3 : R) + mcVsubfact subVel + mcAgefact ageAtTrench
/-- `subfact2` (scales the offset of the minimum) -/
def mcSubfact2 (subVel ageAtTrench : R) : R := (0.3 : R) + mcVsubfact subVel + mcAgefact2 ageAtTrench

/-- `Tcoup = 10 + (subfact − 0.5)·(350 − 10)` -/
def mcTcoup (s : R) : R := (10 : R) + (s - 0.5) * ((350 : R) - 10)
/-- `Tmin660 = 300 + (subfact − 0.5)·(900 − 300)` -/
def mcTmin660 (s : R) : R := (300 : R) + (s - 0.5) * ((900 : R) - 300)
/-- `offset_coup = 2 km + subfact2·(10 km − 2 km)` -/
def mcOffsetCoup (s2 : R) : R := (2 : R) * (1.0e3 : R) + s2 * ((10 : R) * (1.0e3 : R) - (2 : R) * (1.0e3 : R))
/-- `offset660 = 15 km + subfact2·(25 km − 15 km)` -/
def mcOffset660 (s2 : R) : R := (15 : R) * (1.0e3 : R) + s2 * ((25 : R) * (1.0e3 : R) - (15 : R) * (1.0e3 : R))

/-- `initial_heat_content` before the taper: half-space `2 k (T_s − T_p) √(t/(κπ))`, or the plate-model sum;
`subVel` in m/yr, `ageAtTrench` in yr -/
def mcInitialHeat0 (m : MassConserving R) (subVel ageAtTrench : R) : R :=
  if m.plateRef then
    heatContentSeries m (m.surfaceT - m.potentialT) (subVel / secondsInYear) subVel ageAtTrench 50 0
      (m.conductivity / m.kappa * (m.surfaceT - m.potentialT) * m.mx / (2.0 : R))
  else
    (2 : R) * m.conductivity * (m.surfaceT - m.potentialT) * sqrt (ageAtTrench * secondsInYear / (m.kappa * Scalar.pi))

/-- `start_taper_distance = total segment length − taper distance` -/
def mcStartTaper (m : MassConserving R) (ap : AdditionalParams R) : R := ap.totalLocalSegmentLength - m.taperDistance

/-- the three depth regimes of `get_temperature`:
`(theta, min_temperature − T_surface − adiabatic gradient, offset, initial_heat_content, effective_plate_age_sec)` -/
def mcRegime (m : MassConserving R) (pd : PlaneDist R) (ap : AdditionalParams R) (subVel ageAtTrench effAge : R) : R × R × R × R × R :=
  let s := mcSubfact subVel ageAtTrench
  let s2 := mcSubfact2 subVel ageAtTrench
  let depthRef := pd.depthReferenceSurface
  let along := pd.distanceAlongPlane
  let uml := (660e3 : R) - m.couplingDepth
  if depthRef < m.couplingDepth then
    let theta := (m.couplingDepth - depthRef) / (s * m.couplingDepth)
    (theta, mcTcoup s * erfc theta, mcOffsetCoup s2 * erfc theta, mcInitialHeat0 m subVel ageAtTrench, effAge * secondsInYear)
  else if along ≥ mcStartTaper m ap then
    let depthStartTaper := depthRef - (along - mcStartTaper m ap) * sin (pd.averageAngle * Scalar.pi / 180.0)
    let thetaStart := (m.couplingDepth - depthStartTaper) / (s * uml)
    let tminStartTaper := mcTcoup s + mcTmin660 s * erfc thetaStart - mcTmin660 s
    let offsetStartTaper := mcOffsetCoup s2 + mcOffset660 s2 * erfc thetaStart - mcOffset660 s2
    let theta := (along - mcStartTaper m ap) / m.taperDistance
    (theta,
     tminStartTaper + (m.potentialT - tminStartTaper) * ((1 : R) - erfc ((0.8 : R) * theta)),
     offsetStartTaper + ((2 : R) * ((25 : R) * (1.0e3 : R)) - offsetStartTaper) * ((1 : R) - erfc ((0.8 : R) * theta)),
     mcInitialHeat0 m subVel ageAtTrench * erfc ((1.5 : R) * (0.8 : R) * theta),
     effAge * secondsInYear * erfc ((1.5 : R) * (0.8 : R) * theta))
  else
    let theta := (m.couplingDepth - depthRef) / (s * uml)
    (theta, mcTcoup s + mcTmin660 s * erfc theta - mcTmin660 s, mcOffsetCoup s2 + mcOffset660 s2 * erfc theta - mcOffset660 s2,
     mcInitialHeat0 m subVel ageAtTrench, effAge * secondsInYear)

/-- the quantities `get_temperature` derives from the ridge parameters, the two ages and the query -/
structure McQuery (R : Type) where
  m : MassConserving R
  pd : PlaneDist R
  ap : AdditionalParams R
  depth : R
  gravityNorm : R
  /-- `ridge_parameters` -/
  rp : RidgeParams R
  /-- `age_at_trench` (yr) -/
  ageAtTrench : R
  /-- `effective_plate_age` (yr) -/
  effAge : R

namespace McQuery
variable (q : McQuery R)

/-- `spreading_velocity` in m/yr -/
def spreadingVelocity : R := q.rp.spreading * secondsInYear
/-- `subducting_velocity` in m/yr -/
def subductingVelocity : R := q.rp.subducting * secondsInYear
def regime : R × R × R × R × R := mcRegime q.m q.pd q.ap q.subductingVelocity q.ageAtTrench q.effAge
def theta : R := q.regime.1
/-- `min_temperature` before the surface temperature and the adiabatic gradient are added -/
def minT0 : R := q.regime.2.1
/-- `offset`: how far below the slab surface the coldest point lies -/
def offset : R := q.regime.2.2.1
/-- `initial_heat_content` (tapered) -/
def initialHeat : R := q.regime.2.2.2.1
/-- `effective_plate_age_sec` (tapered) -/
def effAgeSec : R := q.regime.2.2.2.2
/-- `background_temperature` -/
def background : R := mcBackground q.m q.gravityNorm q.depth
/-- `min_temperature` -/
def minT : R := q.minT0 + mcAdiabaticGradient q.m q.gravityNorm q.depth + q.m.surfaceT
/-- `adjusted_distance = distance − offset` -/
def adjustedDistance : R := q.pd.distanceFromPlane - q.offset
/-- `max_top_heat_content = −1e9 · forearc cooling factor · background` -/
def maxTopHeat : R := (-1.0e9 : R) * q.m.forearcCoolingFactor * q.background
/-- `bottom_heat_content` -/
def bottomHeat : R :=
  if q.m.plateRef then
    heatContentSeries q.m (q.minT - q.m.potentialT) (q.subductingVelocity / secondsInYear) (q.subductingVelocity / secondsInYear) q.effAgeSec 50 0
      (q.m.conductivity / q.m.kappa * (q.minT - q.m.potentialT) * q.m.mx / (2.0 : R))
  else
    (2 : R) * q.m.conductivity * (q.minT - q.m.potentialT) * sqrt (q.effAgeSec / (q.m.kappa * Scalar.pi))
/-- `top_heat_content` before the taper -/
def topHeat0 : R := Scalar.min q.maxTopHeat (q.initialHeat - q.bottomHeat)
/-- `top_heat_content` -/
def topHeat : R :=
  if q.pd.distanceAlongPlane > mcStartTaper q.m q.ap then q.topHeat0 * erfc ((0.8 : R) * q.theta) else q.topHeat0
/-- the temperature `get_temperature_analytic` returns for this query with incoming temperature `old` -/
def analyticT (old : R) : R :=
  q.m.analytic q.topHeat q.minT q.background old q.spreadingVelocity q.effAgeSec q.adjustedDistance

end McQuery

end Gwb
