/-
The two slab-only temperature models of the subducting plate: `plate model` (McKenzie 1970) and `mass conserving`.
Anchors: source/world_builder/features/subducting_plate_models/temperature/plate_model.cc:130-207,
mass_conserving.cc:288-637, utilities.cc:1481-1508 (`calculate_effective_trench_and_plate_ages`),
utilities.cc:1040-1086 + include/world_builder/utilities.h:188-214 (`Utilities::interpolation`, the monotone spline with unit spacing),
include/world_builder/features/feature_utilities.h (`AdditionalParameters`).

Both models read the geometry result (`PlaneDist`) and the two `AdditionalParameters` the slab computes for a hit
(`total_local_segment_length` = the section-interpolated total slab length, `local_thickness`).
-/
import GwbVerif.Model.Models.Area
import GwbVerif.Model.Geometry.Dpfcp
namespace Gwb
open Scalar
variable {R : Type} [Scalar R]

/-- `Features::AdditionalParameters` -/
structure AdditionalParams (R : Type) where
  totalLocalSegmentLength : R
  localThickness : R
  deriving Inhabited

/-! ### `plate model` -/

/-- members of `SubductingPlateModels::Temperature::PlateModel` after `parse_entries`
(`surface_temperature` is stored by the C++ but never read) -/
structure SlabPlateModel (R : Type) where
  mn : R
  mx : R
  op : Op
  density : R
  plateVelocity : R
  conductivity : R
  alpha : R
  cp : R
  adiabaticHeating : Bool
  potentialT : R

/-- the 500-term series (plate_model.cc:188-194); `i` runs 1 … 500.
`std::pow((-1.0), i)` is `pow(double, int)` = `pow(-1.0, (double) i)`; `i * i` is an `int` product converted to double. -/
def slabPlateSeries (bigR xScaled zScaled : R) : Nat → Nat → R → R
  | 0, _, sum => sum
  | fuel + 1, i, sum =>
    let fi : R := Scalar.nat i
    let sum := sum + (pow (-1.0 : R) fi / (fi * Scalar.pi)) *
      (exp ((bigR - pow (bigR * bigR + Scalar.nat (i * i) * Scalar.pi * Scalar.pi) 0.5) * xScaled)) *
      (sin (fi * Scalar.pi * zScaled))
    slabPlateSeries bigR xScaled zScaled fuel (i + 1) sum

/-- `PlateModel::get_temperature` -/
def SlabPlateModel.get (m : SlabPlateModel R) (depth gravityNorm : R) (pd : PlaneDist R) (ap : AdditionalParams R) (old : R) : R :=
  let thicknessLocal := Scalar.min ap.localThickness m.mx
  let d := pd.distanceFromPlane
  let a := pd.distanceAlongPlane
  if d ≤ m.mx ∧ d ≥ m.mn then
    let bigR := (m.density * m.cp * (m.plateVelocity / ((365.25 : R) * 24.0 * 60.0 * 60.0)) * thicknessLocal) / ((2.0 : R) * m.conductivity)
    let zScaled := (1 : R) - (if fabs d < (2.0 : R) * Scalar.eps then (2.0 : R) * Scalar.eps else d / thicknessLocal)
    let xScaled := if fabs a < (2.0 : R) * Scalar.eps then (2.0 : R) * Scalar.eps else a / thicknessLocal
    let temp : R := if m.adiabaticHeating then exp ((m.alpha * gravityNorm * depth) / m.cp) else 1
    let sum := slabPlateSeries bigR xScaled zScaled 500 1 0
    let temperature := temp * (m.potentialT + (2.0 : R) * (m.potentialT - 273.15) * sum)
    applyOp m.op old temperature
  else old

/-! ### `Utilities::interpolation`: monotone cubic spline through `y[0], y[1], …` at unit spacing -/

/-- the coefficient table `m[i] = {a, b, c, y}` -/
structure SplineRow (R : Type) where
  a : R
  b : R
  c : R
  y : R
  deriving Inhabited

/-- the interior tangents `m[i+1][2]` for `i = 0 … n-3` (first loop of `set_points`) -/
def splineTangents (y : List R) : Nat → Nat → Except Err (List R)
  | 0, _ => .ok []
  | fuel + 1, i =>
    if i + 2 < y.length then do
      let y0 ← idx y i
      let y1 ← idx y (i + 1)
      let y2 ← idx y (i + 2)
      let m0 := y1 - y0
      let m1 := y2 - y1
      let c : R := if m0 * m1 ≤ 0 then 0 else (2 : R) * m0 * m1 / (m0 + m1)
      let rest ← splineTangents y fuel (i + 1)
      return c :: rest
    else .ok []

/-- rows `0 … n-2` (second loop of `set_points`) -/
def splineRows (y cs : List R) : Nat → Nat → Except Err (List (SplineRow R))
  | 0, _ => .ok []
  | fuel + 1, i =>
    if i + 1 < y.length then do
      let c1 ← idx cs i
      let cNext ← idx cs (i + 1)
      let y0 ← idx y i
      let y1 ← idx y (i + 1)
      let m0 := y1 - y0
      let common0 := c1 + cNext - m0 - m0
      let rest ← splineRows y cs fuel (i + 1)
      return ⟨common0, m0 - c1 - common0, c1, y0⟩ :: rest
    else .ok []

/-- `interpolation::set_points(y)`; `y.size() ≥ 2` (the caller passes `2*(spline_n_points+1)` values).
The last row keeps `a = b = 0` from `m.resize(n)` (value-initialised). -/
def splineSetPoints (y : List R) : Except Err (List (SplineRow R)) := do
  let n := y.length
  if n < 2 then .error .internal            -- `n-2` wraps around in the C++
  let inner ← splineTangents y (n + 1) 0
  let yLast ← idx y (n - 1)
  let yPrev ← idx y (n - 2)
  let cs : List R := (0 : R) :: inner ++ [yLast - yPrev]
  let rows ← splineRows y cs (n + 1) 0
  let cLast ← idx cs (n - 1)
  return rows ++ [⟨0, 0, cLast, yLast⟩]

/-- `static_cast<size_t>(x)` for `0 ≤ x ≤ bound`: the largest `k ≤ bound` with `(double) k ≤ x` -/
def natTrunc (x : R) : Nat → Nat → Nat
  | 0, k => k
  | fuel + 1, k => if Scalar.nat (k + 1) ≤ x then natTrunc x fuel (k + 1) else k

/-- `interpolation::operator()(x)` with `mx_size_min = rows.length − 1`, the index of the last point (was `rows.length`: `x ∈ (n−1, n]` and `x > n`
indexed past the table; fixed upstream 'monotone spline evaluation read one entry past its coefficient table').
Inside `[0, n−1]` the cubic of row `⌊x⌋`; below `0` the quadratic extrapolation from row 0; above `n−1` from the last row;
NaN: `static_cast<int>` of it is undefined. -/
def splineEval (rows : List (SplineRow R)) (x : R) : Except Err R :=
  let n := rows.length
  if x ≥ 0 ∧ x ≤ Scalar.nat (n - 1) then do
    -- `static_cast<size_t>(x)` of `0 ≤ x ≤ n−1`: at most `n−1` (the search stops there)
    let k := natTrunc x (n - 1) 0
    let h := x - Scalar.nat k
    let r ← idx rows k
    return ((r.a * h + r.b) * h + r.c) * h + r.y
  else if x < 0 then do
    let r ← idx rows 0
    let h := x - Scalar.nat 0
    return (r.b * h + r.c) * h + r.y
  else if x > Scalar.nat (n - 1) then do
    let r ← idx rows (n - 1)
    let h := x - Scalar.nat (n - 1)
    return (r.b * h + r.c) * h + r.y
  else .error .internal

/-! ### `mass conserving` -/

/-- members of `SubductingPlateModels::Temperature::MassConserving` after `parse_entries` -/
structure MassConserving (R : Type) where
  mn : R
  mx : R
  op : Op
  density : R
  conductivity : R
  couplingDepth : R
  forearcCoolingFactor : R
  taperDistance : R
  alpha : R
  cp : R
  kappa : R
  adiabaticHeating : Bool
  potentialT : R
  surfaceT : R
  /-- `mid_oceanic_ridges`, `ridge_spreading_velocities_at_each_ridge_point` -/
  ridge : RidgeSpec R
  /-- `subducting_velocities` -/
  subVel : List (List R)
  /-- `ridge_spreading_velocities.first`, handed to the ridge search as `ridge_migration_times` -/
  migrationTimes : List R
  /-- `reference_model_name == plate_model` -/
  plateRef : Bool
  applySpline : Bool
  splineNPoints : Nat

/-- `calculate_effective_trench_and_plate_ages(ridge_parameters, distance_along_plane)` → `(age_at_trench, effective_plate_age)` in years;
the two `WBAssertThrow`s are release checks -/
def effectiveTrenchAndPlateAges (rp : RidgeParams R) (along : R) : Except Err (R × R) :=
  let spreadingVelocity := rp.spreading * secondsInYear
  let distanceRidge := rp.distance
  let subductingVelocity := rp.subducting * secondsInYear
  if subductingVelocity ≥ 0 then
    let effectivePlateAge := (distanceRidge + along) / spreadingVelocity
    let ageAtTrench := effectivePlateAge - along / subductingVelocity
    if ageAtTrench ≥ 0 then .ok (ageAtTrench, effectivePlateAge) else .error .other
  else .error .other

/-- the 50-term sums subtracted from the initial / bottom heat content for the `plate model` reference
(mass_conserving.cc:343-357, 493-505); `i` runs 0 … 49, `n = 2i+1`.
`front = thermal_conductivity / thermal_diffusivity * ΔT`, `tail` = the product that multiplies the bracket inside `exp`
(`subducting_velocity * age_at_trench` resp. `subducting_velocity_UI * effective_plate_age_sec`), applied factor by factor. -/
def heatContentSeries (m : MassConserving R) (dT svUI tail1 tail2 : R) : Nat → Nat → R → R
  | 0, _, hc => hc
  | fuel + 1, i, hc =>
    let n : R := Scalar.nat (2 * i + 1)
    let t := m.conductivity / m.kappa * dT * (4 : R) * m.mx / n / n / Scalar.pi / Scalar.pi *
      exp ((svUI * m.mx / (2 : R) / m.kappa -
            sqrt (svUI * svUI * m.mx * m.mx / (4.0 : R) / m.kappa / m.kappa + n * n * Scalar.pi * Scalar.pi)) *
           tail1 * tail2 / m.mx)
    heatContentSeries m dT svUI tail1 tail2 fuel (i + 1) (hc - t)

/-- the 49-term series of the analytic plate-model bottom side (mass_conserving.cc:614-622); `i` runs 1 … 49 -/
def analyticPlateSeries (m : MassConserving R) (minT bg svUI epa adj : R) : Nat → Nat → R → R
  | 0, _, t => t
  | fuel + 1, i, t =>
    let fi : R := Scalar.nat i
    let t := t - (minT - bg) *
      (((2 : R) / (fi * Scalar.pi)) * sin ((fi * Scalar.pi * adj) / m.mx) *
        exp ((((svUI * m.mx) / ((2 : R) * m.kappa)) -
              sqrt (((svUI * svUI * m.mx * m.mx) / ((4 : R) * m.kappa * m.kappa)) + fi * fi * Scalar.pi * Scalar.pi)) *
             ((svUI * epa) / m.mx)))
    analyticPlateSeries m minT bg svUI epa adj fuel (i + 1) t

/-- `MassConserving::get_temperature_analytic`; `velocity` is the caller's `spreading_velocity` in m/yr -/
def MassConserving.analytic (m : MassConserving R) (topHeatContent minT bg old velocity epa adj : R) : R :=
  if adj < 0 then
    let timeTopSlab := ((1 : R) / (Scalar.pi * m.kappa)) *
      pow (((2 : R) * topHeatContent) / ((2 : R) * m.density * m.cp * (minT - old + (1e-16 : R)))) 2 + (1e-16 : R)
    if old < minT then old
    else
      old + ((2 : R) * topHeatContent / ((2 : R) * m.density * m.cp * sqrt (Scalar.pi * m.kappa * timeTopSlab))) *
        exp (-(adj * adj) / ((4 : R) * m.kappa * timeTopSlab))
  else
    if m.plateRef then
      if adj < m.mx then
        let svUI := velocity / secondsInYear
        let t0 := bg + (minT - bg) * ((1 : R) - adj / m.mx)
        analyticPlateSeries m minT bg svUI epa adj 49 1 t0
      else bg
    else
      bg + (minT - bg) * erfc (adj / ((2 : R) * sqrt (m.kappa * epa)))

/-- the sample loop of the spline branch: `i = 0 … 2*spline_n_points` -/
def splineSamples (m : MassConserving R) (topHeatContent minT bg old velocity epa interval : R) : Nat → Nat → List R
  | 0, _ => []
  | fuel + 1, i =>
    let iAdj := (Scalar.nat i * interval - (1.0 : R)) * m.mx
    m.analytic topHeatContent minT bg old velocity epa iAdj :: splineSamples m topHeatContent minT bg old velocity epa interval fuel (i + 1)

/-- the last step of `get_temperature` inside `min_temperature < background_temperature`: the analytic profile, directly or through the
monotone spline over `2*spline_n_points + 1` samples of it (mass_conserving.cc:526-554) -/
def MassConserving.profile (m : MassConserving R) (topHeatContent minT bg old spreadingVelocity effAgeSec adjustedDistance : R) : Except Err R :=
  let nondimAdjustedDistance := adjustedDistance / m.mx
  if m.applySpline then do
    let intervalSplineDistance := (1.0 : R) / Scalar.nat m.splineNPoints
    -- `i_temperatures(2*(spline_n_points+1), 0.0)`: the last entry is never assigned
    let samples := splineSamples m topHeatContent minT bg old spreadingVelocity effAgeSec intervalSplineDistance (2 * m.splineNPoints + 1) 0
    let rows ← splineSetPoints (samples ++ [(0.0 : R)])
    let indexDistance := (nondimAdjustedDistance + (1.0 : R)) / intervalSplineDistance
    splineEval rows indexDistance
  else
    pure (m.analytic topHeatContent minT bg old spreadingVelocity effAgeSec adjustedDistance)

/-- `MassConserving::get_temperature` -/
def MassConserving.get (m : MassConserving R) (ctx : Ctx R) (depth gravityNorm : R) (pd : PlaneDist R) (ap : AdditionalParams R) (old : R) :
    Except Err R :=
  let d := pd.distanceFromPlane
  if d ≤ m.mx ∧ d ≥ m.mn then do
    let trenchNat := ctx.coord.toNatural pd.closestTrenchPoint
    let rp ← ridgeDistanceAndSpreading ctx.coord.spherical m.ridge.ridges m.ridge.vels trenchNat m.subVel m.migrationTimes
    let along := pd.distanceAlongPlane
    let depthRef := pd.depthReferenceSurface
    let totalSegmentLength := ap.totalLocalSegmentLength
    let averageAngle := pd.averageAngle
    let (ageAtTrench, effAge) ← effectiveTrenchAndPlateAges rp along
    let spreadingVelocity := rp.spreading * secondsInYear
    let subductingVelocity := rp.subducting * secondsInYear
    let plateAgeSec := ageAtTrench * secondsInYear
    -- 1. initial heat content
    let initialHeatContent0 : R :=
      if m.plateRef then
        let hc0 := m.conductivity / m.kappa * (m.surfaceT - m.potentialT) * m.mx / (2.0 : R)
        heatContentSeries m (m.surfaceT - m.potentialT) (subductingVelocity / secondsInYear) subductingVelocity ageAtTrench 50 0 hc0
      else
        (2 : R) * m.conductivity * (m.surfaceT - m.potentialT) * sqrt (plateAgeSec / (m.kappa * Scalar.pi))
    let effAgeSec0 := effAge * secondsInYear
    let bg : R := if m.adiabaticHeating then m.potentialT * exp (m.alpha * gravityNorm * depth / m.cp) else m.potentialT
    let adiabaticGradient : R := if m.adiabaticHeating then bg - m.potentialT else 0
    -- 2. Tmin and offset as a function of depth
    let maxPlateVel : R := (20 : R) / (100 : R)
    let vsubfact := Scalar.min (Scalar.max ((0.35 : R) + (((0.1 : R) - 0.35) / maxPlateVel) * subductingVelocity) 0.1) 0.35
    let maxPlateAge : R := (100 : R) * (1.0e6 : R)
    let maxAgeFact : R := 1.0
    let agefact := Scalar.min (Scalar.max (maxAgeFact + (((0.1 : R) - maxAgeFact) / maxPlateAge) * ageAtTrench) 0.1) maxAgeFact
    let agefact2 := Scalar.max (Scalar.min ((0.1 : R) + (((0.35 : R) - 0.1) / maxPlateAge) * ageAtTrench) 0.35) 0.1
    let subfact := (0.3 : R) + vsubfact + agefact
    let subfact2 := (0.3 : R) + vsubfact + agefact2
    let minTcoup : R := 10
    let maxTcoup : R := 350
    let tcoup := minTcoup + (subfact - 0.5) * (maxTcoup - minTcoup)
    let minTmin660 : R := 300
    let maxTmin660 : R := 900
    let tmin660 := minTmin660 + (subfact - 0.5) * (maxTmin660 - minTmin660)
    let km2m : R := 1.0e3
    let minOffsetCoup : R := (2 : R) * km2m
    let maxOffsetCoup : R := (10 : R) * km2m
    let offsetCoup := minOffsetCoup + subfact2 * (maxOffsetCoup - minOffsetCoup)
    let minOffset660 : R := (15 : R) * km2m
    let maxOffset660 : R := (25 : R) * km2m
    let offset660 := minOffset660 + subfact2 * (maxOffset660 - minOffset660)
    let startTaperDistance := totalSegmentLength - m.taperDistance
    let upperMantleLengthscale := (660e3 : R) - m.couplingDepth
    let taperCon : R := 0.8
    -- (theta, min_temperature, offset, initial_heat_content, effective_plate_age_sec)
    let (theta, minT0, offset, initialHeatContent, effAgeSec) : R × R × R × R × R :=
      if depthRef < m.couplingDepth then
        let theta := (m.couplingDepth - depthRef) / (subfact * m.couplingDepth)
        (theta, tcoup * erfc theta, offsetCoup * erfc theta, initialHeatContent0, effAgeSec0)
      else if along ≥ startTaperDistance then
        let depthStartTaper := depthRef - (along - startTaperDistance) * sin (averageAngle * Scalar.pi / 180.0)
        let thetaStart := (m.couplingDepth - depthStartTaper) / (subfact * upperMantleLengthscale)
        let tminStartTaper := tcoup + tmin660 * erfc thetaStart - tmin660
        let offsetStartTaper := offsetCoup + offset660 * erfc thetaStart - offset660
        let theta := (along - startTaperDistance) / m.taperDistance
        (theta,
         tminStartTaper + (m.potentialT - tminStartTaper) * ((1 : R) - erfc (taperCon * theta)),
         offsetStartTaper + ((2 : R) * maxOffset660 - offsetStartTaper) * ((1 : R) - erfc (taperCon * theta)),
         initialHeatContent0 * erfc ((1.5 : R) * taperCon * theta),
         effAgeSec0 * erfc ((1.5 : R) * taperCon * theta))
      else
        let theta := (m.couplingDepth - depthRef) / (subfact * upperMantleLengthscale)
        (theta, tcoup + tmin660 * erfc theta - tmin660, offsetCoup + offset660 * erfc theta - offset660, initialHeatContent0, effAgeSec0)
    let minT := minT0 + adiabaticGradient + m.surfaceT
    let adjustedDistance := d - offset
    let maxTopHeatContent := (-1.0e9 : R) * m.forearcCoolingFactor * bg
    let temperature ← (if minT < bg then
        -- 3. bottom heat content
        let bottomHeatContent : R :=
          if m.plateRef then
            let hc0 := m.conductivity / m.kappa * (minT - m.potentialT) * m.mx / (2.0 : R)
            let svUI := subductingVelocity / secondsInYear
            heatContentSeries m (minT - m.potentialT) svUI svUI effAgeSec 50 0 hc0
          else
            (2 : R) * m.conductivity * (minT - m.potentialT) * sqrt (effAgeSec / (m.kappa * Scalar.pi))
        -- 4. the difference goes into the top side
        let topHeatContent0 := Scalar.min maxTopHeatContent (initialHeatContent - bottomHeatContent)
        let topHeatContent := if along > startTaperDistance then topHeatContent0 * erfc (taperCon * theta) else topHeatContent0
        m.profile topHeatContent minT bg old spreadingVelocity effAgeSec adjustedDistance
      else pure old : Except Err R)
    return applyOp m.op old temperature
  else .ok old

/-! ### the sum type stored in a segment's temperature-model list -/

inductive SlabTemp (R : Type)
  | plateModel (m : SlabPlateModel R)
  | massConserving (m : MassConserving R)

def SlabTemp.get (m : SlabTemp R) (ctx : Ctx R) (depth gravityNorm : R) (pd : PlaneDist R) (ap : AdditionalParams R) (old : R) : Except Err R :=
  match m with
  | .plateModel p => .ok (p.get depth gravityNorm pd ap old)
  | .massConserving p => p.get ctx depth gravityNorm pd ap old

end Gwb
