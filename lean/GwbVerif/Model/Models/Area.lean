/-
Temperature / composition / velocity / grains models of the area features
(continental plate, oceanic plate, mantle layer) and — same code modulo names — the plume's uniform models.
Anchors: source/world_builder/features/{continental_plate,oceanic_plate,mantle_layer}_models/*/*.cc.

The three copies of a model are modelled once where the C++ copies are textually equal (checked with
`diff` after renaming; DESIGN §3.2).  Where a copy differs it gets a flag:
* `uniform` temperature / `uniform raw` velocity of the continental plate test the local range before the
  global one (`localFirst`).
(The continental copy of `linear` used to offset with `depth - min_depth_local`; fixed upstream, 'fix: continental plate linear
temperature measured depth from the model's min depth instead of the local top', so the three copies are equal again.)
-/
import GwbVerif.Model.Ops
import GwbVerif.Model.Layout
import GwbVerif.Model.Geometry.Surface
import GwbVerif.Model.Geometry.Ridge
namespace Gwb
open Scalar
variable {R : Type} [Scalar R]

/-- world-level constants visible to models through `this->world->…` -/
structure Ctx (R : Type) where
  coord : CoordSys R
  potentialT : R
  surfaceT : R
  forceSurfaceT : Bool
  alpha : R
  cp : R
  kappa : R
  gravity : R            -- uniform gravity model magnitude
  deriving Inhabited

/-- a query as the feature sees it -/
structure Query (R : Type) where
  pt : P3 R              -- cartesian
  nat : P3 R             -- natural coordinates
  depth : R
  gravityNorm : R
  /-- `world->properties(position_in_cartesian_coordinates.get_array(), depth, {{{1,0,0}}})[0]`: the temperature the whole world
  gives at the query point, as the `tian water content` composition models ask for it.  `World.props3` fills it in
  (`World.temperaturePure`); a thunk, so that it is evaluated only where the C++ makes the call. -/
  worldT : Unit → Except Err R := fun _ => .error .unsupported
  deriving Inhabited

/-- `min_depth_surface`, `max_depth_surface`; `min_depth = minS.minimum`, `max_depth = maxS.maximum`. -/
structure DepthRange (R : Type) where
  minS : Surface R
  maxS : Surface R
  deriving Inhabited

@[inline] def DepthRange.minDepth (r : DepthRange R) : R := r.minS.minimum
@[inline] def DepthRange.maxDepth (r : DepthRange R) : R := r.maxS.maximum

/-- adiabatic temperature `Tp * exp(((α g)/cp) * d)` with the code's association -/
@[inline] def adiabat (tp alpha g cp d : R) : R := tp * exp (((alpha * g) / cp) * d)

/-- the two-stage range test; `some (min_depth_local, max_depth_local)` when the model applies.
`localFirst = false`: `if (depth <= max_depth && depth >= min_depth) { locals…; if (depth <= max_local && depth >= min_local)`;
`localFirst = true` : locals first, then the local test, then the global test. -/
def DepthRange.locals (r : DepthRange R) (ctx : Ctx R) (q : Query R) (localFirst : Bool) : Except Err (Option (R × R)) :=
  let sp := surfacePoint ctx.coord.spherical q.nat
  if localFirst then do
    let mn ← r.minS.localOr r.minDepth ctx.coord.spherical sp
    let mx ← r.maxS.localOr r.maxDepth ctx.coord.spherical sp
    if q.depth ≤ mx ∧ q.depth ≥ mn then
      if q.depth ≤ r.maxDepth ∧ q.depth ≥ r.minDepth then return some (mn, mx) else return none
    else return none
  else
    if q.depth ≤ r.maxDepth ∧ q.depth ≥ r.minDepth then do
      let mn ← r.minS.localOr r.minDepth ctx.coord.spherical sp
      let mx ← r.maxS.localOr r.maxDepth ctx.coord.spherical sp
      if q.depth ≤ mx ∧ q.depth ≥ mn then return some (mn, mx) else return none
    else return .none

/-- parameters of the ridge-based oceanic models -/
structure RidgeSpec (R : Type) where
  ridges : List (List (P2 R))           -- `mid_oceanic_ridges` (already in radians for spherical)
  vels : List (List R)                  -- `spreading_velocities_at_each_ridge_point`
  deriving Inhabited

inductive TempModel (R : Type)
  | uniform (rng : DepthRange R) (op : Op) (temperature : R) (localFirst : Bool)
  | linear (rng : DepthRange R) (op : Op) (top bottom : R)
  | adiabatic (rng : DepthRange R) (op : Op) (tp alpha cp : R)
  | chapman (rng : DepthRange R) (op : Op) (top flux conductivity heat : R)
  | halfSpace (rng : DepthRange R) (op : Op) (top bottom : R) (ridge : RidgeSpec R)
  | plateModel (rng : DepthRange R) (op : Op) (top bottom : R) (ridge : RidgeSpec R)
  | plateModelConstantAge (rng : DepthRange R) (op : Op) (top bottom plateAge : R)
  /-- plume only: `depths`, `centerline temperatures`, `gaussian sigmas` -/
  | gaussian (op : Op) (depths centerT sigmas : List R)

/-- the 100-term series of `plate model` (plate_model.cc:160-180); `i` runs 1 … 100 -/
def plateSeries (depth maxDepth kappa spreading age dT : R) : Nat → Nat → R → R
  | 0, _, t => t
  | fuel + 1, i, t =>
    let fi : R := Scalar.nat i
    let t := t + dT *
      (((2 : R) / (fi * Scalar.pi)) * sin ((fi * Scalar.pi * depth) / maxDepth) *
        exp ((((spreading * maxDepth) / ((2 : R) * kappa)) -
              sqrt (((spreading * spreading * maxDepth * maxDepth) / ((4 : R) * kappa * kappa)) + fi * fi * Scalar.pi * Scalar.pi)) *
             ((spreading * age) / maxDepth)))
    plateSeries depth maxDepth kappa spreading age dT fuel (i + 1) t

/-- the 100-term series of `plate model constant age` (plate_model_constant_age.cc); note `-1.0 * i * i` is evaluated left to right in double. -/
def plateSeriesConstAge (depth maxDepth kappa plateAge dT : R) : Nat → Nat → R → R
  | 0, _, t => t
  | fuel + 1, i, t =>
    let fi : R := Scalar.nat i
    let t := t + dT *
      (((2 : R) / (fi * Scalar.pi)) * sin ((fi * Scalar.pi * depth) / maxDepth) *
        exp ((-1.0 : R) * fi * fi * Scalar.pi * Scalar.pi * kappa * plateAge / (maxDepth * maxDepth)))
    plateSeriesConstAge depth maxDepth kappa plateAge dT fuel (i + 1) t

/-- `position_in_natural_coordinates_at_min_depth` of the ridge models -/
def natAtMinDepth (ctx : Ctx R) (q : Query R) (minDepth : R) : P3 R :=
  addToDepthCoordinate ctx.coord.spherical (ctx.coord.toNatural q.pt) (q.depth - minDepth)

/-- libstdc++ `std::upper_bound(first, last, val)` as a binary search (`__upper_bound`): returns the offset.
On an ascending list this is the number of entries `≤ val`. -/
def upperBound (xs : List R) (val : R) : Nat → Nat → Nat → Except Err Nat
  | 0, first, _ => .ok first
  | fuel + 1, first, len =>
    if len > 0 then do
      let half := len / 2
      let middle := first + half
      let m ← idx xs middle
      if val < m then upperBound xs val fuel first half
      else upperBound xs val fuel (middle + 1) (len - half - 1)
    else .ok first

/-- `.front()` / `.back()`; empty is undefined behaviour in the C++ -/
@[inline] def front (xs : List R) : Except Err R := idx xs 0
@[inline] def back (xs : List R) : Except Err R := idx xs (xs.length - 1)

/-- `get_temperature(position, natural, depth, gravity_norm, temperature_, feature_min_depth, feature_max_depth[, relative_distance_from_center])` -/
def TempModel.get (m : TempModel R) (ctx : Ctx R) (q : Query R) (old fMin fMax : R) (rel : R := 0) : Except Err R :=
  match m with
  | .gaussian op depths centerT sigmas =>
    if q.depth ≤ fMax ∧ q.depth ≥ fMin ∧ rel ≤ 1.0 then do
      let up ← upperBound depths q.depth (depths.length + 1) 0 depths.length
      let (ct, sg) ← (if up = 0 then do
          pure (← front centerT, ← front sigmas)
        else if up = depths.length then do
          pure (← back centerT, ← back sigmas)
        else do
          let d0 ← idx depths (up - 1)
          let d1 ← idx depths up
          let fraction := (q.depth - d0) / (d1 - d0)
          let c0 ← idx centerT (up - 1)
          let c1 ← idx centerT up
          let s0 ← idx sigmas (up - 1)
          let s1 ← idx sigmas up
          pure (((1 : R) - fraction) * c0 + fraction * c1, ((1 : R) - fraction) * s0 + fraction * s1) : Except Err (R × R))
      let ct := if ct < 0 then adiabat ctx.potentialT ctx.alpha q.gravityNorm ctx.cp q.depth else ct
      let newT := ct * exp (-rel / ((2.0 : R) * pow sg 2))
      return applyOp op old newT
    else return old
  | .uniform rng op temp lf => do
    match ← rng.locals ctx q lf with
    | none => return old
    | some _ => return applyOp op old temp
  | .linear rng op top bottom => do
    match ← rng.locals ctx q false with
    | none => return old
    | some (mn, mx) =>
      let mnLL := Scalar.max fMin mn
      let mxLL := Scalar.min fMax mx
      let topL := if top < 0 then adiabat ctx.potentialT ctx.alpha q.gravityNorm ctx.cp mnLL else top
      let botL := if bottom < 0 then adiabat ctx.potentialT ctx.alpha q.gravityNorm ctx.cp mxLL else bottom
      let newT := topL + (if mxLL - mnLL < (10.0 : R) * Scalar.eps then 0.0
                          else (q.depth - mnLL) * ((botL - topL) / (mxLL - mnLL)))
      return applyOp op old newT
  | .adiabatic rng op tp alpha cp => do
    match ← rng.locals ctx q false with
    | none => return old
    | some _ => return applyOp op old (adiabat tp alpha q.gravityNorm cp q.depth)
  | .chapman rng op top flux k heat => do
    match ← rng.locals ctx q false with
    | none => return old
    | some (mn, _) =>
      let mnLL := Scalar.max fMin mn
      let topL := if top < 0 then adiabat ctx.potentialT ctx.alpha q.gravityNorm ctx.cp mnLL else top
      let dz := q.depth - mnLL
      let newT := topL + (flux / k) * dz - heat / ((2.0 : R) * k) * dz * dz
      return applyOp op old newT
  | .halfSpace rng op top bottom ridge => do
    match ← rng.locals ctx q false with
    | none => return old
    | some _ =>
      let nat0 := natAtMinDepth ctx q rng.minDepth
      let botL := if bottom < 0 then adiabat ctx.potentialT ctx.alpha q.gravityNorm ctx.cp q.depth else bottom
      let rp ← ridgeDistanceAndSpreading ctx.coord.spherical ridge.ridges ridge.vels nat0 [[0]] [0.0]
      let age := rp.distance / rp.spreading
      let t := botL + (if age > 0 then (top - botL) * erfc (q.depth / ((2 : R) * sqrt (ctx.kappa * age))) else 0.0)
      return applyOp op old t
  | .plateModel rng op top bottom ridge => do
    match ← rng.locals ctx q false with
    | none => return old
    | some _ =>
      let nat0 := natAtMinDepth ctx q rng.minDepth
      let botL := if bottom < 0 then adiabat ctx.potentialT ctx.alpha q.gravityNorm ctx.cp q.depth else bottom
      let rp ← ridgeDistanceAndSpreading ctx.coord.spherical ridge.ridges ridge.vels nat0 [[0]] [0.0]
      let age := rp.distance / rp.spreading
      let t0 := top + (botL - top) * (q.depth / rng.maxDepth)
      let t := plateSeries q.depth rng.maxDepth ctx.kappa rp.spreading age (botL - top) 100 1 t0
      return applyOp op old t
  | .plateModelConstantAge rng op top bottom plateAge => do
    match ← rng.locals ctx q false with
    | none => return old
    | some _ =>
      let botL := if bottom < 0 then adiabat ctx.potentialT ctx.alpha q.gravityNorm ctx.cp q.depth else bottom
      let t0 := top + (botL - top) * (q.depth / rng.maxDepth)
      let t := plateSeriesConstAge q.depth rng.maxDepth ctx.kappa plateAge (botL - top) 100 1 t0
      return applyOp op old t

/-- `for i in compositions: if compositions[i] == composition_number` → index of the first match -/
def findComposition (comps : List Nat) (n : Nat) : Option Nat := comps.findIdx? (· == n)

/-! #### `tian water content` (oceanic plate and subducting plate copies; `calculate_water_content` is textually the same in both) -/

/-- `enum LithologyName { peridotite, gabbro, MORB, sediment }` -/
inductive Lithology
  | peridotite | gabbro | MORB | sediment
  deriving Repr, DecidableEq, Inhabited

/-- `parse_entries`: the chain of `if (lithology_string == …)`; any other string leaves `lithology_type` uninitialised (`none`) -/
def Lithology.ofString (s : String) : Option Lithology :=
  if s == "peridotite" then some .peridotite
  else if s == "gabbro" then some .gabbro
  else if s == "MORB" then some .MORB
  else if s == "sediment" then some .sediment
  else none

/-- `LR_poly[lithology_type]` (tian2019_water_content.h) -/
def Lithology.lrPoly : Lithology → List R
  | .peridotite => [-19.0609, 168.983, -630.032, 1281.84, -1543.14, 1111.88, -459.142, 95.4143, 1.97246]
  | .gabbro => [-1.81745, 7.67198, -10.8507, 5.09329, 8.14519]
  | .MORB => [-1.78177, 7.50871, -10.4840, 5.19725, 7.96365]
  | .sediment => [-2.03283, 10.8186, -21.2119, 18.3351, -6.48711, 8.32459]

/-- `c_sat_poly[lithology_type]` -/
def Lithology.cSatPoly : Lithology → List R
  | .peridotite => [0.00115628, 2.42179]
  | .gabbro => [-0.0176673, 0.0893044, 1.52732]
  | .MORB => [0.0102725, -0.115390, 0.324452, 1.41588]
  | .sediment => [-0.150662, 0.301807, 1.01867]

/-- `Td_poly[lithology_type]` -/
def Lithology.tdPoly : Lithology → List R
  | .peridotite => [-15.4627, 94.9716, 636.603]
  | .gabbro => [-1.72277, 20.5898, 637.517]
  | .MORB => [-3.81280, 22.7809, 638.049]
  | .sediment => [2.83277, -24.7593, 85.9090, 524.898]

/-- `for (i = 0; i < poly.size(); ++i) value += poly[i] * std::pow(x, poly.size() - 1 - i)`: the exponent is the number of
coefficients still to come (an unsigned integer, converted to double by `std::pow`) -/
def tianPoly (x : R) : List R → R → R
  | [], acc => acc
  | c :: cs, acc => tianPoly x cs (acc + c * pow x (Scalar.nat cs.length))

/-- `TianWaterContent::calculate_water_content(pressure, temperature)` -/
def tianWaterContent (lith : Lithology) (pressure temperature : R) : R :=
  let lnCSat : R := match lith with
    | .sediment => tianPoly (Scalar.log10 pressure) (lith.cSatPoly) 0
    | _ => tianPoly pressure (lith.cSatPoly) 0
  let lnLR : R := tianPoly ((1 : R) / pressure) (lith.lrPoly) 0
  let td : R := tianPoly pressure (lith.tdPoly) 0
  exp lnCSat * exp (exp lnLR * ((1 : R) / temperature - (1 : R) / td))

/-- the parameters of one `tian water content` model -/
structure TianSpec (R : Type) where
  density : R
  lithology : Lithology
  maxWater : R            -- `initial water content`
  cutoffPressure : R
  deriving Inhabited

/-- `lithostatic_pressure = std::max(0.5, std::min(density * 9.81 * depth / 1e9, cutoff_pressure))` (GPa) -/
def TianSpec.pressure (s : TianSpec R) (depth : R) : R :=
  Scalar.max (0.5 : R) (Scalar.min (s.density * (9.81 : R) * depth / (1e9 : R)) s.cutoffPressure)

/-- the value the model paints: `std::min(max_water_content, calculate_water_content(lithostatic_pressure, slab_temperature)) / 100` -/
def TianSpec.value (s : TianSpec R) (depth temperature : R) : R :=
  let pc := tianWaterContent s.lithology (s.pressure depth) temperature
  Scalar.min s.maxWater pc / (100 : R)

inductive CompModel (R : Type)
  | uniform (rng : DepthRange R) (op : Op) (comps : List Nat) (fractions : List R)
  | random (rng : DepthRange R) (op : Op) (comps : List Nat) (minValue maxValue : List R)
  /-- oceanic plate only -/
  | tianWater (rng : DepthRange R) (op : Op) (comps : List Nat) (spec : TianSpec R)

/-- a source of `std::uniform_real_distribution<>(0,1)` draws from the world's `std::mt19937` -/
class RandGen (G : Type) (R : Type) where
  /-- `generate_canonical<double,53>(engine)` -/
  canonical : G → R × G

@[inline] def drawCanonical {G : Type} [RandGen G R] : QM G R := fun g =>
  let (u, g') := RandGen.canonical g
  .ok (u, g')

/-- `std::uniform_real_distribution<>(a,b)(engine)`: `(b - a) * canonical + a` (libstdc++ `operator()`) -/
@[inline] def drawUniform {G : Type} [RandGen G R] (a b : R) : QM G R := do
  let u ← drawCanonical
  return (b - a) * u + a

def CompModel.get {G : Type} [RandGen G R] (m : CompModel R) (ctx : Ctx R) (q : Query R) (n : Nat) (old : R) : QM G R :=
  match m with
  | .uniform rng op comps fractions => do
    match ← liftE (rng.locals ctx q false) with
    | none => return old
    | some _ =>
      match findComposition comps n with
      | some i => do
        let f ← liftE (idx fractions i)
        return applyOp op old f
      | none => if op == .replace then return 0.0 else return old
  | .random rng op comps minValue maxValue => do
    match ← liftE (rng.locals ctx q false) with
    | none => return old
    | some _ =>
      match findComposition comps n with
      | some i => do
        -- bounds at the composition's own position (after the `fix:` commit; before it index 0 was used for every composition)
        let a ← liftE (idx minValue i)
        let b ← liftE (idx maxValue i)
        let c ← drawUniform a b
        return applyOp op old c
      | none => if op == .replace then return 0.0 else return old
  | .tianWater rng op comps spec => do
    match ← liftE (rng.locals ctx q false) with
    | none => return old
    | some _ =>
      -- the world's temperature is asked for before the composition list is looked at
      let t ← liftE (q.worldT ())
      let w := spec.value q.depth t
      match findComposition comps n with
      | some _ => return applyOp op old w
      | none => if op == .replace then return 0.0 else return old

inductive VelModel (R : Type)
  | uniformRaw (rng : DepthRange R) (op : Op) (v : P3 R) (localFirst : Bool)

def VelModel.get (m : VelModel R) (ctx : Ctx R) (q : Query R) (old : P3 R) : Except Err (P3 R) :=
  match m with
  | .uniformRaw rng op v lf => do
    match ← rng.locals ctx q lf with
    | none => return old
    | some _ => return ⟨applyOp op old.x v.x, applyOp op old.y v.y, applyOp op old.z v.z⟩

inductive GrainsModel (R : Type)
  | uniform (rng : DepthRange R) (comps : List Nat) (mats : List (M3 R)) (sizes : List R)
  | randomUniform (rng : DepthRange R) (comps : List Nat) (sizes : List R) (normalize : List Bool)
  | randomUniformDeflected (rng : DepthRange R) (comps : List Nat) (basis : List (M3 R)) (sizes : List R)
      (normalize : List Bool) (deflections : List R)

/-- the Arvo random rotation (Graphics Gems III) from three canonical draws, with the deflection factor
(`deflection = 1` for the plain model: `2π·one·1` is *not* what the plain model computes, so it has its own flag). -/
def arvoMatrix (one two three : R) (deflection : Option R) : M3 R :=
  let theta := match deflection with
    | none => (2.0 : R) * Scalar.pi * one
    | some d => (2.0 : R) * Scalar.pi * one * d
  let phi := (2.0 : R) * Scalar.pi * two
  let z := match deflection with
    | none => (2.0 : R) * three
    | some d => (2.0 : R) * three * d
  let r := sqrt z
  let vx := sin phi * r
  let vy := cos phi * r
  let vz := sqrt ((2.0 : R) - z)
  let st := sin theta
  let ct := cos theta
  let sx := vx * ct - vy * st
  let sy := vx * st + vy * ct
  { a00 := vx * sx - ct, a01 := vx * sy - st, a02 := vx * vz
    a10 := vy * sx + st, a11 := vy * sy - ct, a12 := vy * vz
    a20 := vz * sx,      a21 := vz * sy,      a22 := (1.0 : R) - z }

/-- one random matrix per existing grain -/
def drawMatrices {G : Type} [RandGen G R] (deflection : Option R) (basis : Option (M3 R)) : Nat → QM G (List (M3 R))
  | 0 => pure []
  | k + 1 => do
    let one ← drawCanonical
    let two ← drawCanonical
    let three ← drawCanonical
    let m := arvoMatrix one two three deflection
    let m := match basis with
      | none => m
      | some b => M3.mul m b
    let rest ← drawMatrices deflection basis k
    return m :: rest

/-- the size loop: `it_sizes = grain_sizes[i] < 0 ? dist(engine) : grain_sizes[i]; total_size += it_sizes` -/
def drawSizes {G : Type} [RandGen G R] (size : R) : Nat → R → QM G (List R × R)
  | 0, total => pure ([], total)
  | k + 1, total => do
    let s ← (if size < 0 then drawUniform (0.0 : R) 1.0 else pure size)
    let (rest, tot) ← drawSizes size k (total + s)
    return (s :: rest, tot)

def GrainsModel.get {G : Type} [RandGen G R] (m : GrainsModel R) (ctx : Ctx R) (q : Query R) (n : Nat) (old : Grains R) : QM G (Grains R) :=
  match m with
  | .uniform rng comps mats sizes => do
    match ← liftE (rng.locals ctx q false) with
    | none => return old
    | some _ =>
      match findComposition comps n with
      | none => return old
      | some i => do
        let mat ← liftE (idx mats i)
        let gs ← liftE (idx sizes i)
        let size := if gs < 0 then (1.0 : R) / Scalar.nat old.sizes.length else gs
        return { sizes := old.sizes.map (fun _ => size), mats := old.mats.map (fun _ => mat) }
  | .randomUniform rng comps sizes normalize => do
    match ← liftE (rng.locals ctx q false) with
    | none => return old
    | some _ =>
      match findComposition comps n with
      | none => return old
      | some i => do
        let mats ← drawMatrices none none old.mats.length
        let gs ← liftE (idx sizes i)
        let (ss, total) ← drawSizes gs old.sizes.length 0
        let norm ← liftE (idx normalize i)
        let ss := if norm then let inv := (1 : R) / total; ss.map (· * inv) else ss
        return { sizes := ss, mats := mats }
  | .randomUniformDeflected rng comps basis sizes normalize deflections => do
    match ← liftE (rng.locals ctx q false) with
    | none => return old
    | some _ =>
      match findComposition comps n with
      | none => return old
      | some i => do
        let d ← liftE (idx deflections i)
        let b ← liftE (idx basis i)
        let mats ← drawMatrices (some d) (some b) old.mats.length
        let gs ← liftE (idx sizes i)
        let (ss, total) ← drawSizes gs old.sizes.length 0
        let norm ← liftE (idx normalize i)
        let ss := if norm then let inv := (1 : R) / total; ss.map (· * inv) else ss
        return { sizes := ss, mats := mats }

end Gwb
