/-
The C interface (wrapper_c.cc) and the C++ wrapper class (wrapper_cpp.cc) as functions of the native `World` model.
All argument plumbing comes from `GwbVerif/Generated/Wrapper.lean`, which `tools/gen_wrapper_model.py` regenerates from the two
source files on every run of the C16 check: the order in which coordinates are packed into `position`, the triple-copy index map,
the values copy, and how `create_world` computes the constructor arguments.
-/
import GwbVerif.Model.World
import GwbVerif.Generated.Wrapper
namespace Gwb
open Scalar
variable {R G : Type} [Scalar R] [RandGen G R]

/-- `properties[i][a] = properties_[i][b]` for every `(a, b)` of the generated copy map; a field never written stays 0 -/
def copyTriple (m : List (Nat × Nat)) (t : Nat × Nat × Nat) : Req :=
  let src (b : Nat) : Nat := if b = 0 then t.1 else if b = 1 then t.2.1 else t.2.2
  let field (a : Nat) : Nat := match m.find? (fun ab => ab.1 = a) with
    | some ab => src ab.2
    | none => 0
  ⟨field 0, field 1, field 2⟩

/-- `for i < returned_values.size(): values[i] = returned_values[i]` (the generated copy is `("i","i")`); the rest of `values` is untouched.
Writing past the end of `values` is undefined behaviour in C: modelled as `none`. -/
def copyValues (how : String × String) (ret values : List R) : Option (List R) :=
  if how = ("i", "i") then (if ret.length ≤ values.length then some (ret ++ values.drop ret.length) else none) else none

def p3OfList : List R → Option (P3 R)
  | [a, b, c] => some ⟨a, b, c⟩
  | _ => none
def p2OfList : List R → Option (P2 R)
  | [a, b] => some ⟨a, b⟩
  | _ => none

/-- `properties_3d(world, x, y, z, depth, properties_, n, values)` -/
def cProperties3d (w : World R) (x y z depth : R) (props : List (Nat × Nat × Nat)) (values : List R) : QM G (Option (List R)) := do
  match p3OfList (Gen.c_properties_3d_position x y z), Gen.c_properties_3d_method, Gen.c_properties_3d_depthArg with
  | some pt, "properties", "depth" =>
    let ret ← w.props3 pt depth (props.map (copyTriple Gen.c_properties_3d_tripleCopy))
    return copyValues Gen.c_properties_3d_valuesCopy ret values
  | _, _, _ => return none

/-- `properties_2d(world, x, z, depth, properties_, n, values)` -/
def cProperties2d (w : World R) (x z depth : R) (props : List (Nat × Nat × Nat)) (values : List R) : QM G (Option (List R)) := do
  match p2OfList (Gen.c_properties_2d_position x z), Gen.c_properties_2d_method, Gen.c_properties_2d_depthArg with
  | some pt, "properties", "depth" =>
    let ret ← w.props2 pt depth (props.map (copyTriple Gen.c_properties_2d_tripleCopy))
    return copyValues Gen.c_properties_2d_valuesCopy ret values
  | _, _, _ => return none

/-- `properties_output_size(world, properties_, n)` -/
def cOutputSize (props : List (Nat × Nat × Nat)) : Except Err Nat :=
  outputSize? (props.map (copyTriple Gen.c_properties_output_size_tripleCopy))

/-- `temperature_3d`, both the C function (`how = Gen.c_…`) and the C++ wrapper method (`how = Gen.cpp_…`) -/
def wTemperature3d (pos : R → R → R → List R) (method depthArg : String) (extra : List String) (w : World R) (x y z depth : R) : QM G (Option R) := do
  match p3OfList (pos x y z), method, depthArg, extra with
  | some pt, "temperature", "depth", [] => return some (← w.temperature3 pt depth)
  | _, _, _, _ => return none
def wTemperature2d (pos : R → R → List R) (method depthArg : String) (extra : List String) (w : World R) (x z depth : R) : QM G (Option R) := do
  match p2OfList (pos x z), method, depthArg, extra with
  | some pt, "temperature", "depth", [] => return some (← w.temperature2 pt depth)
  | _, _, _, _ => return none
def wComposition3d (pos : R → R → R → List R) (method depthArg : String) (extra : List String) (w : World R) (x y z depth : R) (n : Nat) : QM G (Option R) := do
  match p3OfList (pos x y z), method, depthArg, extra with
  | some pt, "composition", "depth", ["composition_number"] => return some (← w.composition3 pt depth n)
  | _, _, _, _ => return none
def wComposition2d (pos : R → R → List R) (method depthArg : String) (extra : List String) (w : World R) (x z depth : R) (n : Nat) : QM G (Option R) := do
  match p2OfList (pos x z), method, depthArg, extra with
  | some pt, "composition", "depth", ["composition_number"] => return some (← w.composition2 pt depth n)
  | _, _, _, _ => return none

end Gwb
