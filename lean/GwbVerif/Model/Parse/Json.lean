/-
Elaboration of a world-builder JSON document into the model `World`.
Anchors: parameters.cc (`get<T>`, `get_vector<T>`, `get(name, addition_points)`, `get_value_at_array`,
`get_unique_pointers`), world.cc:155-270 (`World::parse_entries`), features/interface.cc (`get_coordinates`),
`parse_entries` of every modelled feature and model.

Defaults are *data*: they are read from the declarations document the library under test writes
(`world_builder_declarations.schema.json`), exactly where `Parameters::get` reads them
(`<schema path>/<name>/default value`, `…/minItems`, `…/items/default value`, `…/oneOf/0/default value`,
`…/oneOf/1/items/items/anyOf/0/default value`).  A changed default in the C++ therefore changes the model too.

The document is assumed to have passed the schema validator (Model/Parse/Schema.lean).
-/
import Lean.Data.Json
import GwbVerif.Model.World
namespace Gwb
open Scalar Lean
variable {R : Type} [Scalar R]

/-- `Value::GetDouble()` of a JSON number (decimal → R by the instance's `ofScientific`) -/
def numOfJson (n : JsonNumber) : R :=
  if n.mantissa < 0 then -(Scalar.ofScientific n.mantissa.natAbs true n.exponent)
  else Scalar.ofScientific n.mantissa.toNat true n.exponent

/-- a cursor: the JSON object we are in, and the `properties` object of its schema -/
structure Cur where
  obj : Json
  schema : Json

/-- parser monad: consumes the surface dumps in construction order -/
abbrev PM (R : Type) := StateT (List (SurfaceAux R)) (Except Err)

@[inline] def pmErr {α : Type} (e : Err) : PM R α := fun _ => .error e
@[inline] def pmLift {α : Type} (e : Except Err α) : PM R α := fun s => e.map (·, s)

def jnum (j : Json) : Except Err R :=
  match j with
  | .num n => .ok (numOfJson n)
  | _ => .error .schema

/-- `Value::GetUint()`.  The schema type `integer` admits every integer literal of 64 bits; `GetUint` asserts `kUintFlag`
(0 ≤ v < 2³²), and rapidjson's assertion is turned into an exception of class `other` (`-1`, `4294967296` pass the schema). -/
def jnat (j : Json) : Except Err Nat :=
  match j with
  | .num n =>
    if n.exponent == 0 then
      (if n.mantissa ≥ 0 ∧ n.mantissa < 4294967296 then .ok n.mantissa.toNat else .error .other)
    else .error .schema
  | _ => .error .schema

def jstr (j : Json) : Except Err String :=
  match j with
  | .str s => .ok s
  | _ => .error .schema

def jarr (j : Json) : Except Err (Array Json) :=
  match j with
  | .arr a => .ok a
  | _ => .error .schema

def jbool (j : Json) : Except Err Bool :=
  match j with
  | .bool b => .ok b
  | _ => .error .schema

def Cur.has (c : Cur) (name : String) : Bool := (c.obj.getObjVal? name).isOk
def Cur.val? (c : Cur) (name : String) : Option Json := (c.obj.getObjVal? name).toOption

def schemaAt (s : Json) (path : List String) : Except Err Json :=
  path.foldlM (fun j k =>
    match j with
    | .arr a => match k.toNat? with
      | some i => match a[i]? with
        | some v => .ok v
        | none => .error .internal
      | none => .error .internal
    | _ => match j.getObjVal? k with
      | .ok v => .ok v
      | .error _ => .error .internal) s

/-- `prm.get<double>(name)` -/
def Cur.getNum (c : Cur) (name : String) : Except Err R :=
  match c.val? name with
  | some v => jnum v
  | none => do jnum (← schemaAt c.schema [name, "default value"])

/-- `prm.get<std::string>(name)` -/
def Cur.getStr (c : Cur) (name : String) : Except Err String :=
  match c.val? name with
  | some v => jstr v
  | none => do jstr (← schemaAt c.schema [name, "default value"])

/-- `prm.get<bool>(name)` -/
def Cur.getBool (c : Cur) (name : String) : Except Err Bool :=
  match c.val? name with
  | some v => jbool v
  | none => do jbool (← schemaAt c.schema [name, "default value"])

/-- `prm.get<int>(name)` -/
def Cur.getInt (c : Cur) (name : String) : Except Err Int :=
  let conv (j : Json) : Except Err Int := match j with
    -- `Value::GetInt()` asserts `kIntFlag` (−2³¹ ≤ v < 2³¹): class `other` for the other integer literals the schema type `integer` admits
    | .num n =>
      if n.exponent == 0 then
        (if n.mantissa ≥ -2147483648 ∧ n.mantissa < 2147483648 then .ok n.mantissa else .error .other)
      else .error .schema
    | _ => .error .schema
  match c.val? name with
  | some v => conv v
  | none => do conv (← schemaAt c.schema [name, "default value"])

/-- `prm.get_vector<double>(name)`: absent ⇒ `minItems` copies of `items/default value` -/
def Cur.getNumVec (c : Cur) (name : String) : Except Err (List R) :=
  match c.val? name with
  | some v => do (← jarr v).toList.mapM jnum
  | none => do
    let n ← jnat (← schemaAt c.schema [name, "minItems"])
    let d ← jnum (← schemaAt c.schema [name, "items", "default value"])
    return List.replicate n d

/-- `prm.get_vector<unsigned int>(name)` -/
def Cur.getNatVec (c : Cur) (name : String) : Except Err (List Nat) :=
  match c.val? name with
  | some v => do (← jarr v).toList.mapM jnat
  | none => do
    let n ← jnat (← schemaAt c.schema [name, "minItems"])
    let d ← jnat (← schemaAt c.schema [name, "items", "default value"])
    return List.replicate n d

/-- `prm.get_vector<bool>(name)` -/
def Cur.getBoolVec (c : Cur) (name : String) : Except Err (List Bool) :=
  match c.val? name with
  | some v => do (← jarr v).toList.mapM jbool
  | none => do
    let n ← jnat (← schemaAt c.schema [name, "minItems"])
    let d ← jbool (← schemaAt c.schema [name, "items", "default value"])
    return List.replicate n d

def jpoint2 (j : Json) : Except Err (P2 R) := do
  let a ← jarr j
  match a[0]?, a[1]? with
  | some x, some y => return ⟨← jnum x, ← jnum y⟩
  | _, _ => .error .internal

/-- `prm.get_vector<Point<2>>(name)` (throws when absent) -/
def Cur.getPoint2Vec (c : Cur) (name : String) : Except Err (List (P2 R)) :=
  match c.val? name with
  | some v => do (← jarr v).toList.mapM jpoint2
  | none => .error .other

/-- `get_vector<std::array<double,3>>` -/
def Cur.getTripleVec (c : Cur) (name : String) : Except Err (List (P3 R)) :=
  match c.val? name with
  | some v => do (← jarr v).toList.mapM (fun j => do
      let a ← jarr j
      match a[0]?, a[1]?, a[2]? with
      | some x, some y, some z => return (⟨← jnum x, ← jnum y, ← jnum z⟩ : P3 R)
      | _, _, _ => .error .internal)
  | none => .error .other

/-- `get_vector<std::array<std::array<double,3>,3>>` -/
def Cur.getMatVec (c : Cur) (name : String) : Except Err (List (M3 R)) :=
  match c.val? name with
  | some v => do (← jarr v).toList.mapM (fun j => do
      let rows ← jarr j
      let flat ← rows.toList.mapM (fun r => do (← jarr r).toList.mapM jnum)
      match M3.ofList? flat.flatten with
      | some m => return m
      | none => .error .internal)
  | none => .error .other

/-- enter one element of a plugin list / plugin object: choose the `oneOf` alternative by model name -/
def pluginCursor (alts : Json) (obj : Json) : Except Err (String × Cur) := do
  let model ← jstr (← (obj.getObjVal? "model").toOption.elim (.error .schema) .ok)
  let as ← jarr alts
  match as.toList.find? (fun a =>
      match schemaAt a ["properties", "model", "enum", "0"] with
      | .ok (.str s) => s == model
      | _ => false) with
  | some a => return (model, ⟨obj, ← schemaAt a ["properties"]⟩)
  | none => .error .schema

/-- `prm.get_unique_pointers<T>(name, vector)` + entering each element: the list of (model name, cursor) -/
def Cur.pluginList (c : Cur) (name : String) : Except Err (List (String × Cur)) :=
  match c.val? name with
  | none => .ok []
  | some v => do
    let alts ← schemaAt c.schema [name, "items", "oneOf"]
    (← jarr v).toList.mapM (pluginCursor alts)

/-- multiply by `Consts::PI / 180.0` when spherical (`x *= (spherical ? PI/180 : 1.)`) -/
@[inline] def dtr (spherical : Bool) : R := if spherical then Scalar.pi / 180.0 else 1.0

/-- the approx-merge of one listed point (parameters.cc:640-668) -/
def mergePoint (value c0 c1 : R) : List R → List (P2 R) → List R × List (P2 R)
  | v :: vs, p :: ps =>
    if approx p.x c0 && approx p.y c1 then (value :: vs, p :: ps)
    else
      let (vs', ps') := mergePoint value c0 c1 vs ps
      (v :: vs', p :: ps')
  | vs, _ => (vs ++ [value], [⟨c0, c1⟩])
-- note: the second clause is only reached with both lists exhausted (they have equal length by construction)

/-- a value that the schema admits (`anyOf [number, array of points]` for both items of an entry) but that the reader accesses with the other accessor:
rapidjson's own assertion (`IsNumber()`, `IsArray()`) fires, which the library turns into an exception of class `other` -/
def asOther {α : Type} (x : Except Err α) : Except Err α :=
  match x with
  | .ok a => .ok a
  | .error _ => .error .other

/-- `Parameters::get(name, addition_points)`: (values, points) for a `OneOf(Double, Array(ValueAtPoints))` entry -/
def Cur.getValueAtPoints (c : Cur) (name : String) (spherical : Bool) (corners : List (P2 R)) : Except Err (List R × List (P2 R)) :=
  match c.val? name with
  | none => do
    let d ← jnum (← schemaAt c.schema [name, "oneOf", "0", "default value"])
    return ([d], [])
  | some (.arr arr) => do
    let d : R ← jnum (← schemaAt c.schema [name, "oneOf", "1", "items", "items", "anyOf", "0", "default value"])
    let first : Option (Array Json) := match arr[0]? with
      | some (Json.arr e) => some e
      | _ => none
    let single := arr.size == 1 && (match first with
      | some e => e.size < 2
      | none => false)
    if single then do
      match first with
      | some e => match e[0]? with
        | some v => return ([← asOther (jnum v)], [])
        | none => .error .internal
      | none => .error .internal
    else do
      let init : List R × List (P2 R) := (corners.map (fun _ => d), corners)
      arr.toList.foldlM (fun (acc : List R × List (P2 R)) item => do
        let e ← jarr item
        let value : R ← (match e[0]? with
          | some v => asOther (jnum v)
          | none => .error .internal)
        match e[1]? with
        | some pts => do
          (← asOther (jarr pts)).toList.foldlM (fun (acc : List R × List (P2 R)) pj => do
            -- `WBAssertThrow(… /0 and /1 exist …)`: a point needs two entries (fixed upstream: the missing one was a null dereference)
            if (← jarr pj).size < 2 then .error .other
            let p : P2 R ← jpoint2 pj
            let c0 := p.x * dtr spherical
            let c1 := p.y * dtr spherical
            return mergePoint value c0 c1 acc.1 acc.2) acc
        | none =>
          -- no points: overwrite the values of the additional points (they come first)
          return (acc.1.mapIdx (fun i v => if i < corners.length then value else v), acc.2)) init
  | some v => do return ([← jnum v], [])

/-- `Objects::Surface(prm.get(name, coordinates))` -/
def Cur.getSurface (c : Cur) (name : String) (spherical : Bool) (corners : List (P2 R)) : PM R (Surface R) := do
  let (vals, pts) ← pmLift (c.getValueAtPoints name spherical corners)
  if pts.isEmpty then pmLift (Surface.build vals pts none)
  else do
    match ← get with
    | [] => pmErr .unsupported
    | a :: rest => do
      set rest
      pmLift (Surface.build vals pts (some a))

def Cur.getRange (c : Cur) (spherical : Bool) (corners : List (P2 R)) : PM R (DepthRange R) := do
  let mn ← c.getSurface "min depth" spherical corners
  let mx ← c.getSurface "max depth" spherical corners
  return ⟨mn, mx⟩

def Cur.getOp (c : Cur) : Except Err Op := do return Op.ofString (← c.getStr "operation")

/-- `Parameters::get_value_at_array(name)` → (`first`, `second`) -/
def Cur.getValueAtArray (c : Cur) (name : String) : Except Err (List R × List R) :=
  match c.val? name with
  | none => do
    -- no user value: `first = {0.0}`, `second = {default}` (parameters.cc:875-880)
    let d : R ← jnum (← schemaAt c.schema [name, "oneOf", "0", "default value"])
    return ([0.0], [d])
  | some (.arr arr) => do
    arr.toList.foldlM (fun (acc : List R × List R) item => do
      let e ← jarr item
      -- both items of an entry are `anyOf [number, array of arrays]` for the schema: `GetDouble()` of an array and `Size()` of a
      -- number are rapidjson assertions (class `other`)
      let value : R ← (match e[0]? with
        | some v => asOther (jnum v)
        | none => .error .internal)
      match e[1]? with
      | some lists => do
        let flat ← (← asOther (jarr lists)).toList.mapM (fun l => do (← jarr l).toList.mapM jnum)
        return (acc.1 ++ [value], acc.2 ++ flat.flatten)
      | none => return acc) ([], [])
  | some v => do return ([0.0], [← jnum v])

/-- ridge coordinates and per-point spreading velocities (half_space_model.cc:100-135, plate_model.cc) -/
def Cur.getRidgeSpec (c : Cur) (spherical : Bool) : Except Err (RidgeSpec R) := do
  let (_, second) ← c.getValueAtArray "spreading velocity"
  let ridgesJ ← (match c.val? "ridge coordinates" with
    | some v => jarr v
    | none => .error .other)
  let ridges ← ridgesJ.toList.mapM (fun r => do
    let pts ← (← jarr r).toList.mapM jpoint2
    return pts.map (fun (p : P2 R) => (⟨p.x * dtr spherical, p.y * dtr spherical⟩ : P2 R)))
  -- `WBAssertThrow(second.size() == 1 || second.size() == n_ridge_points, …)` (fixed upstream: the table was indexed unchecked)
  let nPts := ridges.foldl (fun n r => n + r.length) 0
  if !(second.length == 1 || second.length == nPts) then .error .other
  -- running `ridge_point_index`
  let rec go : List (List (P2 R)) → Nat → Except Err (List (List R))
    | [], _ => .ok []
    | r :: rs, k => do
      let vs ← (List.range r.length).mapM (fun j =>
        if second.length ≤ 1 then idx second 0 else idx second (k + j))
      let rest ← go rs (k + r.length)
      return vs :: rest
  let vels ← go ridges 0
  return ⟨ridges, vels⟩

/-- temperature models of the area features.  `kind`: 0 continental, 1 oceanic, 2 mantle layer -/
def parseAreaTemp (ctx : Ctx R) (kind : Nat) (corners : List (P2 R)) (model : String) (c : Cur) : PM R (TempModel R) := do
  let sph := ctx.coord.spherical
  let rng ← c.getRange sph corners
  let op ← pmLift c.getOp
  match model with
  | "uniform" => return .uniform rng op (← pmLift (c.getNum "temperature")) (kind == 0)
  | "linear" => return .linear rng op (← pmLift (c.getNum "top temperature")) (← pmLift (c.getNum "bottom temperature"))
  | "adiabatic" => do
    let tp : R ← pmLift (c.getNum "potential mantle temperature")
    let al : R ← pmLift (c.getNum "thermal expansion coefficient")
    let cp : R ← pmLift (c.getNum "specific heat")
    return .adiabatic rng op (if tp < 0 then ctx.potentialT else tp) (if al < 0 then ctx.alpha else al) (if cp < 0 then ctx.cp else cp)
  | "chapman" => do
    let k ← pmLift (c.getNum "thermal conductivity")
    let h ← pmLift (c.getNum "heat generation per unit volume")
    let f ← pmLift (c.getNum "top heat flux")
    let t ← pmLift (c.getNum "top temperature")
    return .chapman rng op t f k h
  | "half space model" =>
    return .halfSpace rng op (← pmLift (c.getNum "top temperature")) (← pmLift (c.getNum "bottom temperature")) (← pmLift (c.getRidgeSpec sph))
  | "plate model" => do
    -- `WBAssertThrow(max_depth > 0. && max_depth < max double, …)` (upstream 'fix: plate models accepted a zero or unbounded plate thickness')
    if !(decide (rng.maxDepth > 0.0) && decide (rng.maxDepth < Scalar.dblMax)) then pmErr .other
    return .plateModel rng op (← pmLift (c.getNum "top temperature")) (← pmLift (c.getNum "bottom temperature")) (← pmLift (c.getRidgeSpec sph))
  | "plate model constant age" => do
    if !(decide (rng.maxDepth > 0.0) && decide (rng.maxDepth < Scalar.dblMax)) then pmErr .other
    let age : R ← pmLift (c.getNum "plate age")
    return .plateModelConstantAge rng op (← pmLift (c.getNum "top temperature")) (← pmLift (c.getNum "bottom temperature")) (age * 31557600)
  | _ => pmErr .unsupported

def parseAreaComp (sph : Bool) (corners : List (P2 R)) (model : String) (c : Cur) : PM R (CompModel R) := do
  let rng ← c.getRange sph corners
  match model with
  | "uniform" => do
    let comps ← pmLift (c.getNatVec "compositions")
    let fr ← pmLift (c.getNumVec "fractions")
    let op ← pmLift c.getOp
    if comps.length != fr.length then pmErr .length
    return .uniform rng op comps fr
  | "random" => do
    let comps ← pmLift (c.getNatVec "compositions")
    let mn ← pmLift (c.getNumVec "min value")
    let mx ← pmLift (c.getNumVec "max value")
    let op ← pmLift c.getOp
    if comps.length != mn.length || comps.length != mx.length then pmErr .length
    return .random rng op comps mn mx
  | "tian water content" => do
    -- oceanic plate only (the other area features do not register it; their schema rejects the name)
    let density ← pmLift (c.getNum "density")
    let comps ← pmLift (c.getNatVec "compositions")
    let maxWater ← pmLift (c.getNum "initial water content")
    let op ← pmLift c.getOp
    let cutoff ← pmLift (c.getNum "cutoff pressure")
    let lith ← pmLift (c.getStr "lithology")
    -- `WBAssertThrow(false, "The lithology … is not a valid option")` (fixed upstream: any other string left `lithology_type` uninitialised)
    match Lithology.ofString lith with
    | none => pmErr .other
    | some l => return .tianWater rng op comps ⟨density, l, maxWater, cutoff⟩
  | _ => pmErr .unsupported

def parseAreaVel (sph : Bool) (kind : Nat) (corners : List (P2 R)) (model : String) (c : Cur) : PM R (VelModel R) := do
  let rng ← c.getRange sph corners
  match model with
  | "uniform raw" => do
    let op ← pmLift c.getOp
    let v ← pmLift (c.getNumVec "velocity")
    return .uniformRaw rng op ⟨← pmLift (idx v 0), ← pmLift (idx v 1), ← pmLift (idx v 2)⟩ (kind == 0)
  | _ => pmErr .unsupported

/-- Euler angles or rotation matrices, exactly one of them (grains/uniform.cc, …deflected.cc) -/
def getRotations (c : Cur) (eulerKey matKey : String) : Except Err (List (M3 R)) :=
  let se := c.has eulerKey
  let sm := c.has matKey
  if se && sm then .error .option
  else if !se && !sm then .error .option
  else if se then do
    let es ← c.getTripleVec eulerKey
    return es.map (fun (e : P3 R) => eulerToMatrix e.x e.y e.z)
  else c.getMatVec matKey

def parseGrainsWith (rngM : PM R (DepthRange R)) (model : String) (c : Cur) : PM R (GrainsModel R) := do
  let rng ← rngM
  let comps ← pmLift (c.getNatVec "compositions")
  match model with
  | "uniform" => do
    let mats ← pmLift (getRotations c "Euler angles z-x-z" "rotation matrices")
    let _ ← pmLift (c.getStr "orientation operation")
    let sizes ← pmLift (c.getNumVec "grain sizes")
    if comps.length != mats.length then pmErr .length
    if comps.length != sizes.length then pmErr .length
    return .uniform rng comps mats sizes
  | "random uniform distribution" => do
    let _ ← pmLift (c.getStr "orientation operation")
    let sizes ← pmLift (c.getNumVec "grain sizes")
    let norm ← pmLift (c.getBoolVec "normalize grain sizes")
    if comps.length != sizes.length then pmErr .length
    if comps.length != norm.length then pmErr .length
    return .randomUniform rng comps sizes norm
  | "random uniform distribution deflected" => do
    let basis ← pmLift (getRotations c "basis Euler angles z-x-z" "basis rotation matrices")
    let _ ← pmLift (c.getStr "orientation operation")
    let sizes ← pmLift (c.getNumVec "grain sizes")
    let norm ← pmLift (c.getBoolVec "normalize grain sizes")
    let defl ← pmLift (c.getNumVec "deflections")
    if comps.length != sizes.length then pmErr .length
    if comps.length != norm.length then pmErr .length
    if comps.length != defl.length then pmErr .length
    if comps.length != basis.length then pmErr .length
    return .randomUniformDeflected rng comps basis sizes norm defl
  | _ => pmErr .unsupported

def parseAreaGrains (sph : Bool) (corners : List (P2 R)) (model : String) (c : Cur) : PM R (GrainsModel R) :=
  parseGrainsWith (c.getRange sph corners) model c

/-- `add_vector_unique(world->feature_tags, tag)` -/
def addTag (tags : List String) (tag : String) : List String × Nat :=
  match tags.findIdx? (· == tag) with
  | some i => (tags, i)
  | none => (tags ++ [tag], tags.length)

/-- `Interface::get_coordinates`: `p * PI / 180.0` in spherical worlds: `(p*π) * (1/180)` by `Point::operator/` (unlike `dtr`) -/
def getCoordinates (c : Cur) (sph : Bool) : Except Err (List (P2 R)) := do
  let pts ← c.getPoint2Vec "coordinates"
  if sph then return pts.map (fun (p : P2 R) => P2.sdiv (⟨p.x * Scalar.pi, p.y * Scalar.pi⟩ : P2 R) 180.0)
  else return pts

def parseArea (ctx : Ctx R) (kind : Nat) (defaultTag : String) (c : Cur) (tags : List String) : PM R (AreaFeature R × List String) := do
  let sph := ctx.coord.spherical
  let name ← pmLift (c.getStr "name")
  let tag ← pmLift (c.getStr "tag")
  let (tags, ti) := addTag tags (if tag == "" then defaultTag else tag)
  let coords ← pmLift (getCoordinates c sph)
  let rng ← c.getRange sph coords
  -- parse order (it fixes the construction order of the depth surfaces): continental plate parses
  -- temperature, velocity, composition, grains; oceanic plate and mantle layer parse temperature, composition, grains, velocity.
  let temps ← (← pmLift (c.pluginList "temperature models")).mapM (fun (m, cc) => parseAreaTemp ctx kind coords m cc)
  let velList ← pmLift (c.pluginList "velocity models")
  let velsFirst ← (if kind == 0 then velList.mapM (fun (m, cc) => parseAreaVel sph kind coords m cc) else pure [])
  let comps ← (← pmLift (c.pluginList "composition models")).mapM (fun (m, cc) => parseAreaComp sph coords m cc)
  let grains ← (← pmLift (c.pluginList "grains models")).mapM (fun (m, cc) => parseAreaGrains sph coords m cc)
  let vels ← (if kind == 0 then pure velsFirst else velList.mapM (fun (m, cc) => parseAreaVel sph kind coords m cc))
  return ({ name := name, tag := ti, coords := coords, rng := rng,
            models := { temps := temps, vels := vels, comps := comps, grains := grains } }, tags)

/-- plume models have plain double depth bounds → constant surfaces -/
def Cur.getPlainRange (c : Cur) : Except Err (DepthRange R) := do
  let mn : R ← c.getNum "min depth"
  let mx : R ← c.getNum "max depth"
  return ⟨Surface.constantOf mn, Surface.constantOf mx⟩

/-- `depths[i] < depths[i+1]` for every consecutive pair -/
def ascending : List R → Bool
  | a :: b :: rest => decide (a < b) && ascending (b :: rest)
  | _ => true

def parsePlume (ctx : Ctx R) (c : Cur) (tags : List String) : PM R (PlumeFeature R × List String) := do
  let sph := ctx.coord.spherical
  let name ← pmLift (c.getStr "name")
  let tag ← pmLift (c.getStr "tag")
  let (tags, ti) := addTag tags (if tag == "" then "plume" else tag)
  let coords ← pmLift (getCoordinates c sph)
  let minD : R ← pmLift (c.getNum "min depth")
  let maxD : R ← pmLift (c.getNum "max depth")
  let depths ← pmLift (c.getNumVec "cross section depths")
  let sma ← pmLift (c.getNumVec "semi-major axis")
  let ecc ← pmLift (c.getNumVec "eccentricity")
  let rot ← pmLift (c.getNumVec "rotation angles")
  -- always-on checks (plume.cc, `WBAssertThrow`): list lengths, then strictly ascending depths
  if depths.length != coords.length then pmErr .length
  if sma.length != coords.length then pmErr .length
  if ecc.length != coords.length then pmErr .length
  if rot.length != coords.length then pmErr .length
  if !(ascending depths) then pmErr .other
  let rot := rot.map (fun (a : R) => Scalar.pi / 2.0 - a * Scalar.pi / 180.0)
  let sma := if sph then sma.map (fun (a : R) => a * (Scalar.pi / 180.0)) else sma
  let temps ← (← pmLift (c.pluginList "temperature models")).mapM (fun (m, cc) => pmLift (do
    let op ← cc.getOp
    match m with
    | "uniform" => do
      let rng ← cc.getPlainRange
      return TempModel.uniform rng op (← cc.getNum "temperature") false
    | "gaussian" => do
      let ds ← cc.getNumVec "depths"
      let ct ← cc.getNumVec "centerline temperatures"
      let sg ← cc.getNumVec "gaussian sigmas"
      -- `WBAssertThrow(gaussian_sigma != 0., …)` for every sigma, then non-emptiness, then the lengths
      if sg.any (fun (x : R) => Scalar.beq x 0.0) then .error .other
      if ds.length == 0 then .error .other
      if ct.length != ds.length || sg.length != ds.length then .error .length
      return TempModel.gaussian op ds ct sg
    | _ => .error .unsupported))
  let comps ← (← pmLift (c.pluginList "composition models")).mapM (fun (m, cc) => pmLift (do
    match m with
    | "uniform" => do
      let rng ← cc.getPlainRange
      let cs ← cc.getNatVec "compositions"
      let fr ← cc.getNumVec "fractions"
      let op ← cc.getOp
      if cs.length != fr.length then .error .length
      return CompModel.uniform rng op cs fr
    | _ => .error .unsupported))
  let grains ← (← pmLift (c.pluginList "grains models")).mapM (fun (m, cc) => do
    -- same parse code as the area copies, with plain depth bounds (no surfaces are constructed)
    let g ← parseGrainsWith (pmLift cc.getPlainRange) m cc
    return g)
  let vels ← (← pmLift (c.pluginList "velocity models")).mapM (fun (m, cc) => pmLift (do
    match m with
    | "uniform raw" => do
      let rng ← cc.getPlainRange
      let op ← cc.getOp
      let v ← cc.getNumVec "velocity"
      return VelModel.uniformRaw rng op ⟨← idx v 0, ← idx v 1, ← idx v 2⟩ false
    | _ => .error .unsupported))
  return ({ name := name, tag := ti, coords := coords, minDepth := minD, maxDepth := maxD, depths := depths,
            semiMajor := sma, ecc := ecc, rot := rot,
            models := { temps := temps, vels := vels, comps := comps, grains := grains } }, tags)

/-- `[a]` or `[a, b]` → `(a, a)` or `(a, b)` (parameters.cc:1165-1215) -/
def jpair (j : Json) : Except Err (P2 R) := do
  let a ← jarr j
  match a[0]?, a[1]? with
  | some x, none => do let v : R ← jnum x; return ⟨v, v⟩
  | some x, some y => return ⟨← jnum x, ← jnum y⟩
  | _, _ => .error .internal

/-- the model list of one kind for a segment: its own, else the nearest enclosing one (section entry, feature), else none.
Mirrors the search-back / JSON-copy of `Parameters::get_vector<Segment>`: the inherited JSON is parsed under the segment's schema. -/
def resolveModels (seg : Cur) (ancestors : List Json) (key : String) : Except Err (List (String × Cur)) :=
  let own := seg.val? key
  let src : Option Json := match own with
    | some v => some v
    | none => (ancestors.findSome? (fun a => (a.getObjVal? key).toOption))
  match src with
  | none => .ok []
  | some v => do
    let alts ← schemaAt seg.schema [key, "items", "oneOf"]
    (← jarr v).toList.mapM (pluginCursor alts)

def parseLineTemp (ctx : Ctx R) (isFault : Bool) (model : String) (c : Cur) : Except Err (LineTemp R) := do
  let mn : R ← c.getNum (if isFault then "min distance fault center" else "min distance slab top")
  let mx : R ← c.getNum (if isFault then "max distance fault center" else "max distance slab top")
  let op ← c.getOp
  match model with
  | "uniform" => return .uniform mn mx op (← c.getNum "temperature")
  | "linear" =>
    if isFault then return .linear mn mx op (← c.getNum "center temperature") (← c.getNum "side temperature")
    else return .linear mn mx op (← c.getNum "top temperature") (← c.getNum "bottom temperature")
  | "adiabatic" => do
    let tp : R ← c.getNum "potential mantle temperature"
    let al : R ← c.getNum "thermal expansion coefficient"
    let cp : R ← c.getNum "specific heat"
    return .adiabatic mn mx op (if tp < 0 then ctx.potentialT else tp) (if al < 0 then ctx.alpha else al) (if cp < 0 then ctx.cp else cp)
  | _ => .error .unsupported

/-- `Parameters::get_vector_or_double(name)` (parameters.cc:954-1062): a number → `{{v}}`, an array of arrays → itself,
absent → `{{default}}` -/
def Cur.getVectorOrDouble (c : Cur) (name : String) : Except Err (List (List R)) :=
  match c.val? name with
  | none => do
    let d : R ← jnum (← schemaAt c.schema [name, "oneOf", "0", "default value"])
    return [[d]]
  | some (.arr arr) => arr.toList.mapM (fun l => do (← jarr l).toList.mapM jnum)
  | some v => do return [[← jnum v]]

/-- `prm.get<unsigned int>(name)` -/
def Cur.getNat (c : Cur) (name : String) : Except Err Nat :=
  match c.val? name with
  | some v => jnat v
  | none => do jnat (← schemaAt c.schema [name, "default value"])

/-- `world->potential_mantle_temperature >= 0 ? world->potential_mantle_temperature : prm.get<double>("potential mantle temperature")`
(slab `plate model` and `mass conserving`: the world's value wins unless it is negative) -/
def slabPotentialT (ctx : Ctx R) (c : Cur) : Except Err R := do
  if ctx.potentialT ≥ 0 then return ctx.potentialT else c.getNum "potential mantle temperature"

/-- `SubductingPlateModels::Temperature::PlateModel::parse_entries` (plate_model.cc:98-127) -/
def parseSlabPlateModel (ctx : Ctx R) (c : Cur) : Except Err (SlabPlateModel R) := do
  let mn : R ← c.getNum "min distance slab top"
  let mx : R ← c.getNum "max distance slab top"
  let op ← c.getOp
  let density : R ← c.getNum "density"
  let pv : R ← c.getNum "plate velocity"
  let k : R ← c.getNum "thermal conductivity"
  let al : R ← c.getNum "thermal expansion coefficient"
  let cp : R ← c.getNum "specific heat"
  let ah ← c.getBool "adiabatic heating"
  let tp ← slabPotentialT ctx c
  return { mn := mn, mx := mx, op := op, density := density, plateVelocity := pv, conductivity := k,
           alpha := if al < 0 then ctx.alpha else al, cp := if cp < 0 then ctx.cp else cp,
           adiabaticHeating := ah, potentialT := tp }

/-- `approx(sv[r][p], spreading[r][p])` for every point of every ridge, after the dimension test of ridge `r`
(mass_conserving.cc:271-284) -/
def checkSubductingVelocities (ridges : List (List (P2 R))) (vels subVel : List (List R)) : Nat → Nat → Except Err Unit
  | 0, _ => .ok ()
  | fuel + 1, r =>
    if r < ridges.length then do
      let ridge ← idx ridges r
      if !(subVel.length == ridges.length) then .error .other
      let sv ← idx subVel r
      if !(sv.length == ridge.length) then .error .other
      let vs ← idx vels r
      (List.range ridge.length).forM (fun p => do
        let a ← idx sv p
        let b ← idx vs p
        if !(approx a b) then .error .other)
      checkSubductingVelocities ridges vels subVel fuel (r + 1)
    else .ok ()

/-- `MassConserving::parse_entries` (mass_conserving.cc:186-286) -/
def parseMassConserving (ctx : Ctx R) (c : Cur) : Except Err (MassConserving R) := do
  let sph := ctx.coord.spherical
  let mn : R ← c.getNum "min distance slab top"
  let mx : R ← c.getNum "max distance slab top"
  let op ← c.getOp
  let density : R ← c.getNum "density"
  let k : R ← c.getNum "thermal conductivity"
  let (first, _) ← c.getValueAtArray (R := R) "spreading velocity"
  let subVel : List (List R) ← c.getVectorOrDouble "subducting velocity"
  let coupling : R ← c.getNum "coupling depth"
  let forearc : R ← c.getNum "forearc cooling factor"
  let taper : R ← c.getNum "taper distance"
  let al : R ← c.getNum "thermal expansion coefficient"
  let cp : R ← c.getNum "specific heat"
  let kappa : R ← c.getNum "thermal diffusivity"
  let ah ← c.getBool "adiabatic heating"
  let tp ← slabPotentialT ctx c
  -- ridge coordinates (× π/180 when spherical), the always-on length check, the per-ridge velocity table
  let ridge ← c.getRidgeSpec sph
  let refName ← c.getStr "reference model name"
  -- any other string leaves `reference_model_name` uninitialised in the C++ (no schema enum, no check): not modelled
  let plateRef ← (if refName == "plate model" then pure true
                  else if refName == "half space model" then pure false
                  -- `WBAssertThrow(false, "The reference model name … is not a valid option")` (fixed upstream: the enum stayed uninitialised)
                  else .error .other : Except Err Bool)
  let spline ← c.getBool "apply spline"
  let nPts ← c.getNat "number of points in spline"
  -- `WBAssertThrow(spline_n_points >= 1, …)` (fixed upstream: with 0 points the sample spacing 1/0 made every splined temperature NaN)
  if nPts == 0 then .error .other
  -- `WBAssertThrow(!apply_spline || max_depth < max double, …)` (fixed upstream: the spline samples at (i/n − 1)·max distance, which overflowed)
  if spline && !(decide (mx < Scalar.dblMax)) then .error .other
  let sv0 ← idx subVel 0
  if sv0.length > 1 then do
    -- `WBAssertThrow(ridge_spreading_velocities.first.size() == mid_oceanic_ridges.size(), …)` (fixed upstream: the migration times were indexed by ridge unchecked)
    if !(first.length == ridge.ridges.length) then .error .other
    checkSubductingVelocities ridge.ridges ridge.vels subVel (ridge.ridges.length + 1) 0
  return { mn := mn, mx := mx, op := op, density := density, conductivity := k, couplingDepth := coupling,
           forearcCoolingFactor := forearc, taperDistance := taper,
           alpha := if al < 0 then ctx.alpha else al, cp := if cp < 0 then ctx.cp else cp,
           kappa := if kappa < 0 then ctx.kappa else kappa,
           adiabaticHeating := ah, potentialT := tp, surfaceT := ctx.surfaceT,
           ridge := ridge, subVel := subVel, migrationTimes := first,
           plateRef := plateRef, applySpline := spline, splineNPoints := nPts }

/-- one entry of a segment's `temperature models` list: the slab-only models, else the models shared with the fault -/
def parseSegTemp (ctx : Ctx R) (isFault : Bool) (model : String) (c : Cur) : Except Err (SegTemp R) := do
  if !isFault && model == "plate model" then return .slab (.plateModel (← parseSlabPlateModel ctx c))
  else if !isFault && model == "mass conserving" then return .slab (.massConserving (← parseMassConserving ctx c))
  else return .basic (← parseLineTemp ctx isFault model c)

def parseLineComp (isFault : Bool) (model : String) (c : Cur) : Except Err (LineComp R) := do
  match model with
  | "uniform" => do
    let mn : R ← c.getNum (if isFault then "min distance fault center" else "min distance slab top")
    let mx : R ← c.getNum (if isFault then "max distance fault center" else "max distance slab top")
    let comps ← c.getNatVec "compositions"
    let fr ← c.getNumVec "fractions"
    let op ← c.getOp
    if comps.length != fr.length then .error .length
    return .uniform mn mx op comps fr
  | "smooth" =>
    if isFault then do
      let mn : R ← c.getNum "min distance fault center"
      let side : R ← c.getNum "side distance fault center"
      let op ← c.getOp
      let cf ← c.getNumVec "center fractions"
      let sf ← c.getNumVec "side fractions"
      let comps ← c.getNatVec "compositions"
      if comps.length != cf.length || comps.length != sf.length then .error .length
      return .smooth mn mn side op comps cf sf
    else do
      let mn : R ← c.getNum "min distance slab top"
      let mx : R ← c.getNum "max distance slab top"
      let op ← c.getOp
      let tf ← c.getNumVec "top fractions"
      let bf ← c.getNumVec "bottom fractions"
      let comps ← c.getNatVec "compositions"
      if comps.length != tf.length || comps.length != bf.length then .error .length
      return .smooth mn mx (fabs (mx - mn)) op comps tf bf
  | "tian water content" =>
    -- subducting plate only (faults do not register it; their schema rejects the name)
    if isFault then .error .unsupported
    else do
      let mn : R ← c.getNum "min distance slab top"
      let mx : R ← c.getNum "max distance slab top"
      let density : R ← c.getNum "density"
      let comps ← c.getNatVec "compositions"
      let maxWater : R ← c.getNum "initial water content"
      let cutoff : R ← c.getNum "cutoff pressure"
      let op ← c.getOp
      let lith ← c.getStr "lithology"
      -- `WBAssertThrow(false, "The lithology … is not a valid option")` (fixed upstream)
      match Lithology.ofString lith with
      | none => .error .other
      | some l => return .tianWater mn mx op comps ⟨density, l, maxWater, cutoff⟩
  | _ => .error .unsupported

def parseLineVel (isFault : Bool) (model : String) (c : Cur) : Except Err (LineVel R) := do
  match model with
  | "uniform raw" => do
    let mn : R ← c.getNum (if isFault then "min distance fault center" else "min distance slab top")
    let mx : R ← c.getNum (if isFault then "max distance fault center" else "max distance slab top")
    let op ← c.getOp
    let v ← c.getNumVec "velocity"
    return .uniformRaw mn mx op ⟨← idx v 0, ← idx v 1, ← idx v 2⟩
  | _ => .error .unsupported

def parseLineGrains (isFault : Bool) (model : String) (c : Cur) : Except Err (LineGrains R) := do
  match model with
  | "uniform" => do
    let mn : R ← c.getNum (if isFault then "min distance fault center" else "min distance slab top")
    let mx : R ← c.getNum (if isFault then "max distance fault center" else "max distance slab top")
    let comps ← c.getNatVec "compositions"
    let mats ← getRotations c "Euler angles z-x-z" "rotation matrices"
    let _ ← c.getStr "orientation operation"
    let sizes ← c.getNumVec "grain sizes"
    if comps.length != mats.length then .error .length
    if comps.length != sizes.length then .error .length
    return .uniform mn mx comps mats sizes
  | "random uniform distribution" => do
    let mn : R ← c.getNum (if isFault then "min distance fault center" else "min distance slab top")
    let mx : R ← c.getNum (if isFault then "max distance fault center" else "max distance slab top")
    let comps ← c.getNatVec "compositions"
    let _ ← c.getStr "orientation operation"
    let sizes ← c.getNumVec "grain sizes"
    let norm ← c.getBoolVec "normalize grain sizes"
    if comps.length != sizes.length then .error .length
    if comps.length != norm.length then .error .length
    return .randomUniform mn mx comps sizes norm
  | "random uniform distribution deflected" => do
    let mn : R ← c.getNum (if isFault then "min distance fault center" else "min distance slab top")
    let mx : R ← c.getNum (if isFault then "max distance fault center" else "max distance slab top")
    let comps ← c.getNatVec "compositions"
    let basis ← getRotations c "basis Euler angles z-x-z" "basis rotation matrices"
    let _ ← c.getStr "orientation operation"
    let sizes ← c.getNumVec "grain sizes"
    let norm ← c.getBoolVec "normalize grain sizes"
    let defl ← c.getNumVec "deflections"
    if comps.length != sizes.length then .error .length
    if comps.length != norm.length then .error .length
    if comps.length != defl.length then .error .length
    if comps.length != basis.length then .error .length
    return .randomUniformDeflected mn mx comps basis sizes norm defl
  | _ => .error .unsupported

/-- one entry of a `segments` array -/
def parseSegment (ctx : Ctx R) (isFault : Bool) (seg : Cur) (ancestors : List Json) : Except Err (Segment R) := do
  let len : R ← (match seg.val? "length" with
    | some v => jnum v
    | none => .error .internal)
  let th : P2 R ← (match seg.val? "thickness" with
    | some v => jpair v
    | none => .error .other)
  let tt : P2 R ← (match seg.val? "top truncation" with
    | some v => jpair v
    | none => .ok ⟨0, 0⟩)
  let ang : P2 R ← (match seg.val? "angle" with
    | some v => jpair v
    | none => .error .other)
  let temps ← (← resolveModels seg ancestors "temperature models").mapM (fun (m, c) => parseSegTemp ctx isFault m c)
  let comps ← (← resolveModels seg ancestors "composition models").mapM (fun (m, c) => parseLineComp isFault m c)
  let grains ← (← resolveModels seg ancestors "grains models").mapM (fun (m, c) => parseLineGrains isFault m c)
  let vels ← (← resolveModels seg ancestors "velocity models").mapM (fun (m, c) => parseLineVel isFault m c)
  return { length := len, thickness := th, topTruncation := tt, angle := ang, temps := temps, comps := comps, grains := grains, vels := vels }

/-- a `segments` array found in `obj` (feature or section entry); `segSchema`: the `properties` of one segment -/
def parseSegments (ctx : Ctx R) (isFault : Bool) (obj : Json) (segSchema : Json) (ancestors : List Json) : Except Err (List (Segment R)) :=
  match (obj.getObjVal? "segments").toOption with
  | none => .error .other
  | some v => do (← jarr v).toList.mapM (fun sj => parseSegment ctx isFault ⟨sj, segSchema⟩ ancestors)

def parseLine (ctx : Ctx R) (isFault : Bool) (c : Cur) (tags : List String) (cull : Bool) : Except Err (LineFeature R × List String) := do
  let sph := ctx.coord.spherical
  let name ← c.getStr "name"
  let tag ← c.getStr "tag"
  let (tags, ti) := addTag tags (if tag == "" then (if isFault then "fault" else "subducting plate") else tag)
  let coords ← getCoordinates c sph
  -- `WBAssertThrow(coordinates.size() >= 2, …)` (slab and fault)
  if coords.length < 2 then .error .other
  let bz ← Bezier.build coords
  let minD : R ← c.getNum "min depth"
  let maxD : R ← c.getNum "max depth"
  let dip : P2 R ← (match c.val? "dip point" with
    | some v => jpoint2 v
    | none => .error .other)
  let dip : P2 R := if sph then ⟨dip.x * (Scalar.pi / 180.0), dip.y * (Scalar.pi / 180.0)⟩ else dip
  let segSchema ← schemaAt c.schema ["segments", "items", "properties"]
  let defaultSegs ← parseSegments ctx isFault c.obj segSchema [c.obj]
  -- `WBAssertThrow(!default_segment_vector.empty(), …)` (fixed upstream: `segments: []` indexed empty segment tables)
  if defaultSegs.length == 0 then .error .other
  let n := coords.length
  let init : List (List (Segment R)) := List.replicate n defaultSegs
  let secs ← (match c.val? "sections" with
    | none => .ok init
    | some v => do
      let secSegSchema ← schemaAt c.schema ["sections", "items", "properties", "segments", "items", "properties"]
      let secProps ← schemaAt c.schema ["sections", "items", "properties"]
      (← jarr v).toList.foldlM (fun (acc : List (List (Segment R))) sj => do
        let sc : Cur := ⟨sj, secProps⟩
        let k ← (match sc.val? "coordinate" with
          | some kv => jnat kv
          | none => do jnat (← schemaAt secProps ["coordinate", "default value"]))
        if k ≥ n then .error .other
        let segs ← parseSegments ctx isFault sj secSegSchema [sj, c.obj]
        if segs.length != defaultSegs.length then .error .length
        return acc.set k segs) init)
  return ({ name := name, tag := ti, isFault := isFault, coords := coords, reference := dip, minDepth := minD, maxDepth := maxD,
            sections := secs, bezier := bz, cull := cull }, tags)

/-- result of parsing: the world, the tag table, the seed override (`random number seed ≥ 0`) -/
structure Parsed (R : Type) where
  world : World R
  tags : List String
  seed : Option Nat

/-- `World::parse_entries`.  `decl`: the declarations document; `version`: `Version::MAJOR.MINOR`. -/
def parseWorld (decl : Json) (version : String) (doc : Json) (cull : Bool := true) : PM R (Parsed R) := do
  let props ← pmLift (schemaAt decl ["properties"])
  let c : Cur := ⟨doc, props⟩
  let v ← pmLift (c.getStr "version")
  if v != version then pmErr .version
  -- coordinate system
  let csAlts ← pmLift (schemaAt props ["coordinate system", "oneOf"])
  let coord : CoordSys R ← (match c.val? "coordinate system" with
    | none => pure ⟨false, .none, Scalar.inf⟩
    | some o => do
      let (m, cc) ← pmLift (pluginCursor csAlts o)
      if m == "spherical" then do
        let dm ← pmLift (cc.getStr "depth method")
        let method : DepthMethod :=
          if dm == "starting point" then .startingPoint
          else if dm == "begin segment" then .beginSegment
          else if dm == "begin at end segment" then .beginAtEndSegment
          else .continuous
        -- `WBAssertThrow(false, "… is not a valid depth method …")` (was `true`: never thrown, enum left uninitialised; fixed upstream)
        if method == .continuous then pmErr .option
        let r : R ← pmLift (cc.getNum "radius")
        pure ⟨true, method, r⟩
      else pure ⟨false, .none, Scalar.inf⟩)
  -- gravity
  let gAlts ← pmLift (schemaAt props ["gravity model", "oneOf"])
  let gravity : R ← (match c.val? "gravity model" with
    | none => do
      -- default plugin "uniform" with its default magnitude
      let a ← pmLift (schemaAt gAlts ["0", "properties", "magnitude", "default value"])
      pmLift (jnum a)
    | some o => do
      let (_, cc) ← pmLift (pluginCursor gAlts o)
      pmLift (cc.getNum "magnitude"))
  let cross : Option (P2 R × P2 R) ← (match c.val? "cross section" with
    | none => pure none
    | some _ => do
      let pts ← pmLift (c.getPoint2Vec "cross section")
      match pts with
      | [a, b] =>
        let f : R := if coord.spherical then Scalar.pi / 180.0 else 1.0
        pure (some ((⟨a.x * f, a.y * f⟩ : P2 R), (⟨b.x * f, b.y * f⟩ : P2 R)))
      | _ => pmErr .other)
  let ctx : Ctx R :=
    { coord := coord
      potentialT := ← pmLift (c.getNum "potential mantle temperature")
      surfaceT := ← pmLift (c.getNum "surface temperature")
      forceSurfaceT := ← pmLift (c.getBool "force surface temperature")
      alpha := ← pmLift (c.getNum "thermal expansion coefficient")
      cp := ← pmLift (c.getNum "specific heat")
      kappa := ← pmLift (c.getNum "thermal diffusivity")
      gravity := gravity }
  let seed ← pmLift (c.getInt "random number seed")
  let feats ← pmLift (c.pluginList "features")
  let (features, tags) ← feats.foldlM (fun (acc : List (Feature R) × List String) (mc : String × Cur) => do
    let (m, cc) := mc
    match m with
    | "continental plate" => do
      let (f, tags) ← parseArea ctx 0 "continental plate" cc acc.2
      return (acc.1 ++ [Feature.area f], tags)
    | "oceanic plate" => do
      let (f, tags) ← parseArea ctx 1 "oceanic plate" cc acc.2
      return (acc.1 ++ [Feature.area f], tags)
    | "mantle layer" => do
      let (f, tags) ← parseArea ctx 2 "mantle layer" cc acc.2
      return (acc.1 ++ [Feature.area f], tags)
    | "plume" => do
      let (f, tags) ← parsePlume ctx cc acc.2
      return (acc.1 ++ [Feature.plume f], tags)
    | "subducting plate" => do
      let (f, tags) ← pmLift (parseLine ctx false cc acc.2 cull)
      return (acc.1 ++ [Feature.line f], tags)
    | "fault" => do
      let (f, tags) ← pmLift (parseLine ctx true cc acc.2 cull)
      return (acc.1 ++ [Feature.line f], tags)
    | _ => pmErr .unsupported) (([] : List (Feature R)), ([] : List String))
  return { world := { ctx := ctx, cross := cross, features := features }, tags := tags,
           seed := if seed ≥ 0 then some seed.toNat else none }

end Gwb
