/-
JSON-Schema validation of a world-builder file, as the library applies it.
Anchors: parameters.cc:139-194 (`SchemaDocument schema(declarations); SchemaValidator validator(schema); parameters.Accept(validator)`),
include/rapidjson/schema.h (the copy shipped in /repo, rapidjson 1.1.0 with the world-builder patch at `EndObject`):
  `Schema::Schema` 485-744 (which members of a schema object are read and how), `AddType` 1370, `AssignIfExist` 1282-1312,
  `Null/Bool/Int/Uint/Double/String/StartObject/Key/EndObject/StartArray/EndArray` 913-1186, `BeginValue` 781, `EndValue` 812-911,
  `GenericSchemaValidator::EndValue` 2641-2680 (uniqueItems).

Only the keywords that occur in `world_builder_declarations.schema.json` are modelled:
  `type` (a string, or an array of strings), `enum`, `anyOf`, `oneOf`, `properties`, `required`, `additionalProperties` (boolean),
  `items` (one schema), `minItems`, `maxItems`, `uniqueItems`, and the patched-in `default` (see `hasDefault`).
Everything else (`description`, `default value`, `documentation`, `defaultSnippets`, …) is an annotation and ignored, as rapidjson ignores it.
Keywords rapidjson implements but the declarations never use (`allOf`, `not`, `dependencies`, `patternProperties`, `min/maxProperties`,
`additionalItems`, tuple `items`, schema-valued `additionalProperties`, `min/maxLength`, `pattern`, `minimum`, `maximum`,
`exclusiveMinimum/Maximum`, `multipleOf`, `$ref`) are NOT modelled; `unsupported` lists the ones a schema uses so the driver can refuse.
Also flagged there: an `anyOf`/`oneOf` entry that is not an object (rapidjson leaves a null schema pointer and crashes; the model
treats it as the empty schema), numbers inside `enum`, and `uniqueItems: true` (rapidjson compares 64-bit hashes in which numbers enter
through their `double` value, so `2` = `2.0`; the model compares the literals).  The declarations have none of these.

The validator works on a first-order copy `J` of `Lean.Json` (`ofJson`); that conversion is glue, exercised by the correspondence run.
Known representation gaps of the glue (information `Lean.Json` does not keep): a number literal with a positive exponent and no
fractional digits left (`1e2`, `1.5e1`) is an integer for Lean and a double for rapidjson; duplicate keys of one object are collapsed by
Lean's parser (last wins) while rapidjson reports every member; `NaN`/`Infinity` literals (kParseNanAndInfFlag) are parse errors for Lean.
-/
import Lean.Data.Json
namespace Gwb.Schema
open Lean

/-- first-order JSON tree; object members in document order (keys may repeat, `get?` returns the first like `FindMember`) -/
inductive J where
  | null
  | bool (b : Bool)
  | num (n : JsonNumber)
  | str (s : String)
  | arr (xs : List J)
  | obj (kvs : List (String × J))
  deriving Inhabited

namespace J

/-- `value.FindMember(name)`; `none` for a missing member and for a non-object -/
def get? : J → String → Option J
  | .obj kvs, k => kvs.lookup k
  | _, _ => none

mutual
/-- nesting depth (scalars 0) -/
def depth : J → Nat
  | .arr xs => depthList xs + 1
  | .obj kvs => depthMembers kvs + 1
  | _ => 0
def depthList : List J → Nat
  | [] => 0
  | x :: xs => max x.depth (depthList xs)
def depthMembers : List (String × J) → Nat
  | [] => 0
  | (_, v) :: r => max v.depth (depthMembers r)
end

mutual
/-- structural equality (stands for the equality of rapidjson's 64-bit value hashes used by `enum` and `uniqueItems`) -/
def beq : J → J → Bool
  | .null, .null => true
  | .bool a, .bool b => a == b
  | .num a, .num b => a == b
  | .str a, .str b => a == b
  | .arr a, .arr b => beqList a b
  | .obj a, .obj b => beqMembers a b
  | _, _ => false
def beqList : List J → List J → Bool
  | [], [] => true
  | x :: xs, y :: ys => x.beq y && beqList xs ys
  | _, _ => false
def beqMembers : List (String × J) → List (String × J) → Bool
  | [], [] => true
  | (k, x) :: xs, (l, y) :: ys => k == l && x.beq y && beqMembers xs ys
  | _, _ => false
end

instance : BEq J := ⟨beq⟩

end J

/-! ### the non-recursive keywords -/

/-- a literal rapidjson's reader delivers through `Int/Uint/Int64/Uint64` (no fraction, no exponent, fits 64 bits) rather than `Double` -/
def isIntLit (n : JsonNumber) : Bool :=
  n.exponent == 0 && decide (-(2 ^ 63 : Int) ≤ n.mantissa) && decide (n.mantissa < (2 ^ 64 : Int))

/-- does the type name `t` (one `AddType`) admit the value: `number` sets the number and the integer bit, `integer` only the integer bit;
`Double` needs the number bit, the integer events need either (`CheckInt`/`CheckUint`) -/
def typeNameAdmits (t : String) : J → Bool
  | .null => t == "null"
  | .bool _ => t == "boolean"
  | .obj _ => t == "object"
  | .arr _ => t == "array"
  | .str _ => t == "string"
  | .num n => t == "number" || (t == "integer" && isIntLit n)

/-- `type`: absent → every type; a string; an array (non-string entries add nothing); anything else leaves the type mask empty -/
def typeOK (s d : J) : Bool :=
  match s.get? "type" with
  | none => true
  | some (.str t) => typeNameAdmits t d
  | some (.arr ts) => ts.any fun | .str t => typeNameAdmits t d | _ => false
  | some _ => false

/-- `enum`: read only when it is a non-empty array -/
def enumOK (s d : J) : Bool :=
  match s.get? "enum" with
  | some (.arr (e :: es)) => (e :: es).any (· == d)
  | _ => true

/-- `AssignIfExist(SizeType&, …)`: the member counts only when it is an unsigned integer literal that fits `SizeType` (32 bits) -/
def uintOf? : Option J → Option Nat
  | some (.num n) => if n.exponent == 0 && decide (0 ≤ n.mantissa) && decide (n.mantissa < (2 ^ 32 : Int)) then some n.mantissa.toNat else none
  | _ => none

/-- schema of the property `k`: the member `k` of `properties` (when `properties` is an object) -/
def propertySchema? (s : J) (k : String) : Option J := (s.get? "properties").bind (·.get? k)

/-- string entries of `required` (when it is an array) -/
def requiredNames (s : J) : List String :=
  match s.get? "required" with
  | some (.arr names) => names.filterMap fun | .str k => some k | _ => none
  | _ => []

/-- `additionalProperties_` is switched off only by the boolean `false` -/
def forbidsAdditional (s : J) : Bool :=
  match s.get? "additionalProperties" with
  | some (.bool false) => true
  | _ => false

/-- world-builder patch in `EndObject` (schema.h:1106): a missing required property is not reported when its own schema has a
non-empty string member `default` (`defaultValueLength_ != 0`).  The declarations use the key `default value`, never `default`. -/
def hasDefault (s : J) (k : String) : Bool :=
  match (propertySchema? s k).bind (·.get? "default") with
  | some (.str t) => t != ""
  | _ => false

/-- `EndObject`: every required name is a member of the document (or excused by `hasDefault`) -/
def requiredOK (s : J) (ms : List (String × J)) : Bool :=
  (requiredNames s).all fun k => (ms.any (·.1 == k)) || hasDefault s k

/-- `uniqueItems` check of `GenericSchemaValidator::EndValue`: no element equals an earlier one -/
def allDistinct : List J → Bool
  | [] => true
  | x :: xs => !(xs.any (· == x)) && allDistinct xs

/-- the array keywords that do not recurse: `EndArray` (`minItems`, `maxItems`) and `uniqueItems: true` -/
def arrayShapeOK (s : J) (xs : List J) : Bool :=
  (match uintOf? (s.get? "minItems") with | some n => decide (n ≤ xs.length) | none => true) &&
  (match uintOf? (s.get? "maxItems") with | some n => decide (xs.length ≤ n) | none => true) &&
  (match s.get? "uniqueItems" with | some (.bool true) => allDistinct xs | _ => true)

/-! ### the keywords that apply sub-schemas (`ok` is the validator one level down) -/

/-- `anyOf`: read only when it is a non-empty array; every entry is a schema of its own; at least one validates -/
def anyOfOK (s : J) (ok : J → Bool) : Bool :=
  match s.get? "anyOf" with
  | some (.arr (a :: as)) => (a :: as).any ok
  | _ => true

/-- `oneOf`: read only when it is a non-empty array; exactly one entry validates -/
def oneOfOK (s : J) (ok : J → Bool) : Bool :=
  match s.get? "oneOf" with
  | some (.arr (a :: as)) => (a :: as).countP ok == 1
  | _ => true

/-- `Key`: a declared property is checked against its schema; a name that is only listed in `required` is a known property with
the empty schema (schema.h:580-605); any other name needs `additionalProperties` not to be `false` -/
def membersOK (s : J) (ok : J → J → Bool) (ms : List (String × J)) : Bool :=
  ms.all fun (k, v) =>
    match propertySchema? s k with
    | some p => ok p v
    | none => (requiredNames s).contains k || !forbidsAdditional s

/-- `items` as one schema applies to every element -/
def itemsOK (s : J) (ok : J → J → Bool) (xs : List J) : Bool :=
  match s.get? "items" with
  | some (.obj it) => xs.all (ok (.obj it))
  | _ => true

/-! ### the validator -/

/-- `validate fuel schema doc`: does `doc` pass `SchemaValidator(schema)`.  Every recursive call descends into the schema, so
`schema.depth < fuel` is enough fuel (`C12_validate_sound_complete`); without fuel the answer is `false`. -/
def validate : Nat → J → J → Bool
  | 0, _, _ => false
  | fuel + 1, s, d =>
    match s with
    | .obj _ =>
      typeOK s d && enumOK s d && anyOfOK s (validate fuel · d) && oneOfOK s (validate fuel · d) &&
      (match d with
       | .obj ms => requiredOK s ms && membersOK s (validate fuel) ms
       | .arr xs => arrayShapeOK s xs && itemsOK s (validate fuel) xs
       | _ => true)
    -- a schema that is not an object constrains nothing (`if (!value.IsObject()) return;`)
    | _ => true

/-! ### which schemas are inside the modelled subset -/

/-- validation keywords rapidjson implements and this model does not -/
def unmodelledKeywords : List String :=
  ["allOf", "not", "dependencies", "patternProperties", "minProperties", "maxProperties", "additionalItems", "minLength", "maxLength",
   "pattern", "minimum", "maximum", "exclusiveMinimum", "exclusiveMaximum", "multipleOf", "$ref"]

mutual
/-- does the value contain a number (rapidjson compares numbers of `enum`/`uniqueItems` through a hash of their `double` value, so `2`
and `2.0` coincide there; the model compares `JsonNumber`s) -/
def J.hasNum : J → Bool
  | .num _ => true
  | .arr xs => hasNumList xs
  | .obj kvs => hasNumMembers kvs
  | _ => false
def hasNumList : List J → Bool
  | [] => false
  | x :: xs => x.hasNum || hasNumList xs
def hasNumMembers : List (String × J) → Bool
  | [] => false
  | (_, v) :: r => v.hasNum || hasNumMembers r
end

/-- the unmodelled keywords / keyword forms a schema uses at schema positions (empty = the model covers the schema).
Not part of any theorem; meant for the driver to refuse a declarations file the model does not speak for. -/
def unsupported : Nat → J → List String
  | 0, _ => ["<out of fuel>"]
  | fuel + 1, s =>
    let alts (key : String) : List String :=
      match s.get? key with
      | some (.arr as) => as.flatMap fun | .obj a => unsupported fuel (.obj a) | _ => [key ++ "(entry is not an object: null schema pointer in rapidjson)"]
      | _ => []
    match s with
    | .obj kvs =>
      (kvs.filterMap fun (k, _) => if unmodelledKeywords.contains k then some k else none) ++
      (match s.get? "items" with | some (.arr _) => ["items(tuple)"] | _ => []) ++
      (match s.get? "additionalProperties" with | some (.obj _) => ["additionalProperties(schema)"] | _ => []) ++
      (match s.get? "enum" with | some (.arr es) => if hasNumList es then ["enum(number: compared as double by rapidjson)"] else [] | _ => []) ++
      (match s.get? "uniqueItems" with | some (.bool true) => ["uniqueItems(true: numbers compared as double by rapidjson)"] | _ => []) ++
      (match s.get? "properties" with | some (.obj ps) => ps.flatMap fun (_, p) => unsupported fuel p | _ => []) ++
      (match s.get? "items" with | some (.obj it) => unsupported fuel (.obj it) | _ => []) ++
      alts "anyOf" ++ alts "oneOf"
    | _ => []

/-! ### glue: `Lean.Json` → `J` -/

/-- conversion with fuel (`Lean.Json` is nested through `Array` and `Std.TreeMap.Raw`); `none` when the document is nested deeper than `fuel` -/
def ofJson : Nat → Json → Option J
  | 0, _ => none
  | fuel + 1, j =>
    match j with
    | .null => some .null
    | .bool b => some (.bool b)
    | .num n => some (.num n)
    | .str s => some (.str s)
    | .arr a => (a.toList.mapM (ofJson fuel)).map .arr
    | .obj m => (m.toList.mapM fun (kv : String × Json) => (ofJson fuel kv.2).map fun v' => (kv.1, v')).map .obj

/-- nesting bound of the glue; a document nested deeper is rejected -/
def maxNesting : Nat := 100000

/-- `validate` with enough fuel for the given schema -/
def validateJ (schema doc : J) : Bool := validate (schema.depth + 1) schema doc

end Gwb.Schema

namespace Gwb
open Lean

/-- glue: the declarations document as a `J` tree (convert once, validate many files) -/
def schemaOfJson? (schema : Json) : Option Schema.J := Schema.ofJson Schema.maxNesting schema

/-- `true` iff `doc` passes the schema validator built from the converted schema `s` -/
def validateWith (s : Schema.J) (doc : Json) : Bool :=
  match Schema.ofJson Schema.maxNesting doc with
  | some d => Schema.validateJ s d
  | none => false

/-- driver entry point: `true` iff `doc` passes the schema validator built from `schema` (the declarations document) -/
def validateDoc (schema doc : Json) : Bool :=
  match schemaOfJson? schema with
  | some s => validateWith s doc
  | none => false

/-- driver helper: the unmodelled keywords the schema uses (must be `[]` for `validateDoc` to speak for rapidjson) -/
def schemaUnsupported (schema : Json) : List String :=
  match Schema.ofJson Schema.maxNesting schema with
  | some s => Schema.unsupported (s.depth + 1) s
  | none => ["<nesting>"]

end Gwb
