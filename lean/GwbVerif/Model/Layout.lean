/-
Output layout of `World::properties`.
Anchors: world.cc:273-310 (`properties_output_size`), world.cc:421-480 (background fill / `entry_in_output`),
world.cc:350-398 (2-D re-walk counter), grains.cc (pack / unpack).
-/
import GwbVerif.Model.Basic
namespace Gwb
open Scalar

/-- One entry `{code, n, k}` of the `properties` argument (`std::array<unsigned int,3>`).
codes: 1 temperature, 2 composition n, 3 grains (composition n, k grains), 4 tag, 5 velocity. -/
structure Req where
  code : Nat
  n : Nat
  k : Nat
  deriving Repr, DecidableEq, Inhabited

namespace Req
def temperature : Req := ⟨1, 0, 0⟩
def composition (n : Nat) : Req := ⟨2, n, 0⟩
def grains (n k : Nat) : Req := ⟨3, n, k⟩
def tag : Req := ⟨4, 0, 0⟩
def velocity : Req := ⟨5, 0, 0⟩

/-- number of output entries of one request; `none` for an unimplemented code (the C++ throws). -/
def size? (p : Req) : Option Nat :=
  match p.code with
  | 1 => some 1
  | 2 => some 1
  | 3 => some (p.k * 10)
  | 4 => some 1
  | 5 => some 3
  | _ => none

def valid (p : Req) : Bool := p.size?.isSome

/-- size with unknown codes counted as 0 (only used under `valid`). -/
def size (p : Req) : Nat := (p.size?).getD 0
end Req

/-- `World::properties_output_size` -/
def outputSize? : List Req → Except Err Nat
  | [] => .ok 0
  | p :: ps =>
    match p.size? with
    | none => .error .unknownProperty
    | some s => (outputSize? ps).map (s + ·)

def outputSize (ps : List Req) : Nat := (ps.map Req.size).sum

/-- `entry_in_output`: the running offsets, as pushed by the background loop (`output.size()` before each block). -/
def entriesFrom (start : Nat) : List Req → List Nat
  | [] => []
  | p :: ps => start :: entriesFrom (start + p.size) ps

def entries (ps : List Req) : List Nat := entriesFrom 0 ps

/-- advance of the 2-D wrapper's own `counter` (world.cc:350-398), as written (after the `fix:` commit 3894c472:
grains advance by `property[2]*10`; before it they advanced by 10 whatever `k`). -/
def wrapper2dAdvance (p : Req) : Nat :=
  match p.code with
  | 1 => 1
  | 2 => 1
  | 3 => p.k * 10
  | 4 => 1
  | 5 => 3
  | _ => 0

variable {R : Type}

/-- read `n` consecutive entries starting at `e` -/
def readBlock (e n : Nat) (out : List R) : List R := (out.drop e).take n
/-- overwrite the entries `e … e+blk.length-1` -/
def writeBlock (e : Nat) (blk out : List R) : List R := out.take e ++ blk ++ out.drop (e + blk.length)

/-- `WorldBuilder::grains`: sizes and rotation matrices of `k` grains. -/
structure Grains (R : Type) where
  sizes : List R
  mats  : List (M3 R)
  deriving Inhabited

/-- split a list into consecutive chunks of 9 → matrices (stops at the first incomplete chunk). -/
def chunkM3 [Scalar R] : Nat → List R → List (M3 R)
  | 0, _ => []
  | k + 1, xs =>
    match M3.ofList? (xs.take 9) with
    | some m => m :: chunkM3 k (xs.drop 9)
    | none => []

/-- `grains::grains(vector, number_of_grains, start_entry)` applied to a block (start_entry = 0). -/
def Grains.ofBlock [Scalar R] (k : Nat) (blk : List R) : Grains R :=
  { sizes := blk.take k, mats := chunkM3 k (blk.drop k) }

/-- `grains::unroll_into` as a block. -/
def Grains.toBlock [Scalar R] (g : Grains R) : List R :=
  g.sizes ++ (g.mats.map M3.toList).flatten

end Gwb
