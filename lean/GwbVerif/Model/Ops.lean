/-
`Operations` and `apply_operation` (include/world_builder/features/feature_utilities.h:35-73,
source/world_builder/features/feature_utilities.cc `string_operations_to_enum`).
-/
import GwbVerif.Model.Basic
namespace Gwb
open Scalar

inductive Op
  | replace | add | subtract | replaceDefinedOnly
  deriving Repr, DecidableEq, Inhabited

/-- `string_operations_to_enum`; in a release build an unknown string falls through to REPLACE
(the `WBAssert` is compiled out; the schema's enum rejects unknown strings before this is reached). -/
def Op.ofString (s : String) : Op :=
  if s == "add" then .add
  else if s == "subtract" then .subtract
  else if s == "replace defined only" then .replaceDefinedOnly
  else .replace

variable {R : Type} [Scalar R]

/-- `apply_operation(operation, old_value, new_value)` -/
@[inline] def applyOp (op : Op) (old new : R) : R :=
  match op with
  | .replace => new
  | .replaceDefinedOnly => new
  | .add => old + new
  | .subtract => old - new

end Gwb
