/-
`gwb-dat` (source/gwb-dat/main.cc lines 160-340): tokenising the data file, the option lines, the property list handed
to `World::properties`, the header line and the columns of a data row.  Natural numbers, strings and lists only.

Anchors
* main.cc:164-176  `datTokens`      (split at white space, then erase every ',' inside each token)
* main.cc:179-197  `datOptStep`, `datOptions`   (all lines are scanned, in file order; later lines override earlier ones)
* main.cc:200-212  `datProps`
* main.cc:220-233  (dim 2) / 276-289 (dim 3)   `datHeader`
* main.cc:236-272  (dim 2) / 292-334 (dim 3)   `datRows`, `datRowSlots`
* world.cc:273-310, 421-480 and grains.cc:58-79 (`unroll_into`)   `reqNames`, `slotNames` (what the LIBRARY stores in each slot)

Out-of-range reads.  The C++ tests `line_i[1] == "dim" && line_i[2] == "=" …` and then reads `line_i[3]` without ever looking at
`line_i.size()` (only `!line_i.empty()` is checked).  `std::vector::operator[]` past the end is undefined behaviour: a bare `#`
line reads `line_i[1]`, a line `# dim =` reads `line_i[3]`.  The model reads tokens with `line[i]?`; a missing token compares
unequal to every keyword and a missing / unparsable number leaves the configuration unchanged (the C++: undefined behaviour,
resp. `WBAssertThrow` in `string_to_unsigned_int`).  `datLineDefined` tells for which lines the C++ stays inside the vector and
the number parses, i.e. for which lines the total model `datOptStep` is the C++ behaviour.
-/
import GwbVerif.Model.Layout
namespace Gwb

/-! ### configuration -/

/-- the five variables set by the option lines, with the defaults of main.cc:74-78 -/
structure DatCfg where
  dim : Nat := 3
  compositions : Nat := 0
  grainCompositions : Nat := 0
  nGrains : Nat := 0
  convertSpherical : Bool := false
  deriving Repr, DecidableEq, Inhabited

/-! ### tokenising (main.cc:164-176) -/

/-- `std::istream_iterator<std::string>`: maximal runs of non-white-space characters -/
def splitWsAux : List Char → List Char → List (List Char)
  | [], cur => if cur.isEmpty then [] else [cur.reverse]
  | c :: cs, cur =>
    if c.isWhitespace then
      (if cur.isEmpty then splitWsAux cs [] else cur.reverse :: splitWsAux cs [])
    else splitWsAux cs (c :: cur)

/-- one line of the data file → its tokens; every ',' is erased from each token AFTER splitting
(so a lone `,` becomes an empty token that still counts as an entry). -/
def datTokens (line : String) : List String :=
  (splitWsAux line.toList []).map (fun t => String.ofList (t.filter (· ≠ ',')))

/-! ### option lines (main.cc:179-197) -/

/-- `string_to_unsigned_int` restricted to plain digit strings below 2^32 (`none`: the C++ throws).
Not modelled: the C++ stream extraction also accepts a leading `+`/`-` sign. -/
def parseUInt? (s : String) : Option Nat :=
  let cs := s.toList
  if cs.isEmpty ∨ ¬ cs.all Char.isDigit then none
  else
    let n := cs.foldl (fun n c => 10 * n + (c.toNat - '0'.toNat)) 0
    if n < 2 ^ 32 then some n else none

/-- `cfg.x = string_to_unsigned_int(line[i])`, total version: a missing token or an unparsable number changes nothing -/
def setFrom (line : List String) (i : Nat) (set : Nat → DatCfg) (cfg : DatCfg) : DatCfg :=
  match (line[i]?).bind parseUInt? with
  | some n => set n
  | none => cfg

/-- the body of the loop `for (auto &line_i : data)`: five independent `if`s, executed in this order -/
def datOptStep (cfg : DatCfg) (line : List String) : DatCfg :=
  let cfg :=
    if !line.isEmpty && line[0]? == some "#" && line[1]? == some "dim" && line[2]? == some "=" then
      setFrom line 3 (fun n => { cfg with dim := n }) cfg else cfg
  let cfg :=
    if !line.isEmpty && line[0]? == some "#" && line[1]? == some "compositions" && line[2]? == some "=" then
      setFrom line 3 (fun n => { cfg with compositions := n }) cfg else cfg
  let cfg :=
    if !line.isEmpty && line[0]? == some "#" && line[1]? == some "grain" && line[2]? == some "compositions"
        && line[3]? == some "=" then
      setFrom line 4 (fun n => { cfg with grainCompositions := n }) cfg else cfg
  let cfg :=
    if !line.isEmpty && line[0]? == some "#" && line[1]? == some "number" && line[2]? == some "of"
        && line[3]? == some "grains" && line[4]? == some "=" then
      setFrom line 5 (fun n => { cfg with nGrains := n }) cfg else cfg
  let cfg :=
    if !line.isEmpty && line[0]? == some "#" && line[1]? == some "convert" && line[2]? == some "spherical"
        && line[3]? == some "=" && line[4]? == some "true" then
      { cfg with convertSpherical := true } else cfg
  cfg

/-- the configuration after the whole file has been scanned -/
def datOptions (lines : List (List String)) : DatCfg := lines.foldl datOptStep {}

/-- the keyword prefixes of the five option lines and the index of the value token that is read after a match
(`none`: no value is read; the last keyword of `convert spherical = true` is itself the value) -/
def datOptPatterns : List (List String × Option Nat) :=
  [ (["#", "dim", "="], some 3),
    (["#", "compositions", "="], some 3),
    (["#", "grain", "compositions", "="], some 4),
    (["#", "number", "of", "grains", "="], some 5),
    (["#", "convert", "spherical", "=", "true"], none) ]

/-- a line that matches one of the five keyword prefixes (only such lines can change the configuration) -/
def isOptLine (line : List String) : Bool := datOptPatterns.any (fun p => p.1.isPrefixOf line)

/-- Evaluation of the short-circuit chain `line[0]==k0 && line[1]==k1 && …` with bounds tracking:
`some true` all keywords matched, `some false` a comparison failed (nothing further is read),
`none` the chain reads `line[i]` with `i ≥ line.size()` (undefined behaviour in the C++). -/
def chainEval (line : List String) : Nat → List String → Option Bool
  | _, [] => some true
  | i, k :: ks =>
    match line[i]? with
    | none => none
    | some t => if t = k then chainEval line (i + 1) ks else some false

/-- the C++ evaluates this line without reading past the end of the token vector and without a parse failure -/
def datLineDefined (line : List String) : Bool :=
  line.isEmpty ||
  datOptPatterns.all (fun p =>
    match chainEval line 0 p.1, p.2 with
    | none, _ => false
    | some false, _ => true
    | some true, none => true
    | some true, some i => ((line[i]?).bind parseUInt?).isSome)

/-- the lines printed as data rows: `data[i].size() > 0 && data[i][0] != "#"` -/
def isDataRow (line : List String) : Bool := !line.isEmpty && line[0]? != some "#"

def datRows (lines : List (List String)) : List (List String) := lines.filter isDataRow

/-- `WBAssertThrow(data[i].size() == dim + 1, …)` -/
def datRowOk (cfg : DatCfg) (line : List String) : Bool := line.length == cfg.dim + 1

/-! ### the property list (main.cc:200-212) -/

def datProps (cfg : DatCfg) : List Req :=
  [Req.temperature, Req.velocity]
    ++ (List.range cfg.compositions).map Req.composition
    ++ (List.range cfg.grainCompositions).map (fun gc => Req.grains gc cfg.nGrains)
    ++ [Req.tag]

/-! ### column names -/

/-- names of columns.  `input i` the echoed i-th token of the data row (x y z d, or x z d), `T` temperature,
`v i` the i-th entry of the velocity block, `c n` composition n, `gs gc g` size of grain g of grain composition gc,
`gm gc g row col` entry of its rotation matrix, `tag`, and `g` the extra name in the 3-D header. -/
inductive ColName
  | input (i : Nat)
  | T
  | v (i : Nat)
  | c (n : Nat)
  | gs (gc g : Nat)
  | gm (gc g row col : Nat)
  | tag
  | g
  deriving DecidableEq, Repr, Inhabited

/-- the ten header names written for grain `g` of grain composition `gc` (main.cc:227-230 and 283-286) -/
def grainHeader (gc g : Nat) : List ColName :=
  [.gs gc g,
   .gm gc g 0 0, .gm gc g 0 1, .gm gc g 0 2,
   .gm gc g 1 0, .gm gc g 1 1, .gm gc g 1 2,
   .gm gc g 2 0, .gm gc g 2 1, .gm gc g 2 2]

/-- the part of the header after the velocity names; the same text in both `case`s -/
def datHeaderTail (cfg : DatCfg) : List ColName :=
  (List.range cfg.compositions).map .c
    ++ (List.range cfg.grainCompositions).flatMap (fun gc => (List.range cfg.nGrains).flatMap (grainHeader gc))
    ++ [.tag]

/-- the names on the header line, as written (the leading `#` is not a column).
dim 2: `# x z d T vx vz …`; dim 3: `# x y z d g T vx vy vz …`; any other dim prints no header. -/
def datHeader (cfg : DatCfg) : List ColName :=
  if cfg.dim = 2 then
    [.input 0, .input 1, .input 2, .T, .v 0, .v 1] ++ datHeaderTail cfg
  else if cfg.dim = 3 then
    [.input 0, .input 1, .input 2, .input 3, .g, .T, .v 0, .v 1, .v 2] ++ datHeaderTail cfg
  else []

/-- the 3-D header with the name `g` (position 4) removed -/
def datHeaderWithoutG (cfg : DatCfg) : List ColName := (datHeader cfg).eraseIdx 4

/-! ### the columns of a data row -/

/-- the ten `output[…]` indices printed for grain `g` of a grains block starting at `start` with `n` grains
(main.cc:263-266 and 325-328) -/
def grainSlots (start n g : Nat) : List (Option Nat) :=
  [some (start + g),
   some (start + n + g * 9), some (start + n + g * 9 + 1), some (start + n + g * 9 + 2),
   some (start + n + g * 9 + 3), some (start + n + g * 9 + 4), some (start + n + g * 9 + 5),
   some (start + n + g * 9 + 6), some (start + n + g * 9 + 7), some (start + n + g * 9 + 8)]

/-- the composition and grain columns, reading from offset `off` (`3` in the 2-D case, `4` in the 3-D case) -/
def datRowMiddle (off : Nat) (cfg : DatCfg) : List (Option Nat) :=
  (List.range cfg.compositions).map (fun c => some (off + c))
    ++ (List.range cfg.grainCompositions).flatMap (fun gc =>
          let start := off + cfg.compositions + gc * cfg.nGrains * 10
          (List.range cfg.nGrains).flatMap (grainSlots start cfg.nGrains))

/-- For each printed column of a data row: `none` an echoed input token, `some s` the value `output[s]`, as written.
`output.size()` is `outputSize (datProps cfg)` (≥ 5, so `size - 1` does not wrap). -/
def datRowSlots (cfg : DatCfg) : List (Option Nat) :=
  if cfg.dim = 2 then
    [none, none, none, some 0, some 1, some 2] ++ datRowMiddle 3 cfg ++ [some (outputSize (datProps cfg) - 1)]
  else if cfg.dim = 3 then
    [none, none, none, none, some 0, some 1, some 2, some 3] ++ datRowMiddle 4 cfg
      ++ [some (outputSize (datProps cfg) - 1)]
  else []

/-! ### what the library stores in each slot -/

/-- names of the entries of the block the library writes for one request (world.cc:421-480, grains.cc:58-79):
grains = `k` sizes, then `k` matrices row-major (`Grains.toBlock`); velocity = three entries
(in 2-D these are `(v_in_section, v_z, 0)`). -/
def reqNames (p : Req) : List ColName :=
  match p.code with
  | 1 => [.T]
  | 2 => [.c p.n]
  | 3 => (List.range p.k).map (.gs p.n)
          ++ (List.range p.k).flatMap (fun g =>
              [.gm p.n g 0 0, .gm p.n g 0 1, .gm p.n g 0 2,
               .gm p.n g 1 0, .gm p.n g 1 1, .gm p.n g 1 2,
               .gm p.n g 2 0, .gm p.n g 2 1, .gm p.n g 2 2])
  | 4 => [.tag]
  | 5 => [.v 0, .v 1, .v 2]
  | _ => []

/-- the library's name of every slot of `output` for an arbitrary property list -/
def propNames (ps : List Req) : List ColName := ps.flatMap reqNames

/-- the library's name of every slot of `output` for the property list of `gwb-dat` -/
def slotNames (cfg : DatCfg) : List ColName := propNames (datProps cfg)

/-! ### alignment of header, row and library layout -/

/-- Header, row and library layout agree: as many names as columns; the first `nIn` columns echo the input tokens under the
names `input 0 … input (nIn-1)`; and every column that prints `output[s]` stands under the library's name of slot `s`. -/
def Aligned (nIn : Nat) (header : List ColName) (slots : List (Option Nat)) (names : List ColName) : Prop :=
  header.length = slots.length ∧
  (∀ j : Nat, j < nIn → slots[j]? = some none ∧ header[j]? = some (.input j)) ∧
  (∀ j s : Nat, slots[j]? = some (some s) → ∃ n, header[j]? = some n ∧ names[s]? = some n)

/-- executable version of `Aligned` (for the driver); `alignedB_iff` in Proofs/Dat.lean -/
def alignedB (nIn : Nat) (header : List ColName) (slots : List (Option Nat)) (names : List ColName) : Bool :=
  header.length == slots.length &&
  (List.range nIn).all (fun j => slots[j]? == some none && header[j]? == some (.input j)) &&
  (List.range slots.length).all (fun j =>
    match slots[j]? with
    | some (some s) => (match header[j]? with | some n => names[s]? == some n | none => false)
    | _ => true)

/-- the columns whose header name differs from the library's name of the printed slot: `(column, header name, slot, library name)` -/
def misalignedColumns (header : List ColName) (slots : List (Option Nat)) (names : List ColName) :
    List (Nat × Option ColName × Nat × Option ColName) :=
  (List.range slots.length).filterMap (fun j =>
    match slots[j]? with
    | some (some s) => if header[j]? = names[s]? then none else some (j, header[j]?, s, names[s]?)
    | _ => none)

end Gwb
