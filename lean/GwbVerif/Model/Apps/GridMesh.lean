/-
`gwb-grid` (source/gwb-grid/main.cc): the mesh part.

* grid generation for `cartesian` (dim 2, 3; lines 632-816), `annulus` (dim 2; lines 817-897) and `chunk` (dim 2, 3; lines 898-1117)
  with `compress_size == true` (it is a `const bool` set to `true` at line 621, so the `!compress_size` branches are dead code and are
  not modelled).  The `sphere` grid is modelled in GridSphere.lean.
* the VTK arrays `points`, `connectivity`, `offsets`, `types` (lines 1510-1564);
* `filter_vtu_mesh` (lines 82-146).

Conventions of the transliteration
* Every grid loop nest of the code has the shape
  `counter = 0; for a … for b … { array[counter] = f(a,b); counter++; }` with `array` resized to `n_p` (resp. `n_cell`) beforehand.
  The array after the loop nest is the list of the `f(a,b)` in iteration order; this is written
  `(range a).flatMap fun a => (range b).map fun b => f a b` with the *same nesting order* as the code.  That the number of iterations
  equals the size the arrays were resized to (`n_p`, `n_cell`, which the code computes by a separate formula) is theorem `C18_counts`.
  Where the code uses `counter` as a *value* (annulus connectivity) the iteration list is numbered with `zipIdx`.
* Loop variables that start at 1 in the code start at 1 here (`List.range' 1 n` is `1, …, n`); `size_t` arithmetic is `Nat` arithmetic
  (truncated subtraction; the theorems show that no subtraction truncates).
* `static_cast<double>(i)` is `Scalar.nat i`.
* In 2-D the code never touches `grid_y` (it stays empty); the node record carries `y = 0` there, and `vtkPoints` writes
  `(grid_x, grid_z, 0.0)` for `dim == 2` exactly as lines 1511-1517 do.
* For `chunk`/`annulus` the inputs are the values *after* the degree → radian conversion of lines 595-603 (`degToRad`).
  Note: that conversion also mentions a grid type `"spherical"`, but no generation branch for `"spherical"` exists
  (line 1490: such a grid type throws "not a valid geometry type").
* annulus: `n_cell_t = static_cast<size_t>((2.0 * Consts::PI * outer_radius)/dr)` is a double → integer truncation, for which `Scalar`
  has no operation.  The double expression is `annulusQuotient`; the truncated value is a parameter `nt` of the annulus functions.

Core Lean only.
-/
import GwbVerif.Scalar
namespace Gwb

open Scalar (nat)

/-- `grid_x[i], grid_y[i], grid_z[i], grid_depth[i]` -/
structure GridNode (R : Type) where
  x : R
  y : R
  z : R
  depth : R

/-- `n_p`, `n_cell`, the node arrays and `grid_connectivity` -/
structure GridMesh (R : Type) where
  nP : Nat
  nCell : Nat
  nodes : List (GridNode R)
  cells : List (List Nat)

section
variable {R : Type} [Scalar R]

/-- lines 599-602: `x *= (Consts::PI/180)` -/
def degToRad (a : R) : R := a * (Scalar.pi / (180 : R))

/-! ### cartesian, dim = 2 (lines 634-675, 763-776) -/

/-- `n_p = (n_cell_x + 1) * (n_cell_z + 1) * (dim == 3 ? (n_cell_y + 1) : 1)` with `dim = 2` -/
def cartesianNP2 (nx nz : Nat) : Nat := (nx + 1) * (nz + 1) * 1
/-- `n_cell = n_cell_x * n_cell_z * (dim == 3 ? n_cell_y : 1)` with `dim = 2` -/
def cartesianNCell2 (nx nz : Nat) : Nat := nx * nz * 1

/-- lines 665-674 -/
def cartesianNodes2 (xmin xmax zmin zmax : R) (nx nz : Nat) : List (GridNode R) :=
  let dx := (xmax - xmin) / nat nx
  let dz := (zmax - zmin) / nat nz
  let surface := zmax
  (List.range (nz + 1)).flatMap fun j =>
    (List.range (nx + 1)).map fun i =>
      { x := xmin + nat i * dx
        y := 0
        z := zmin + nat j * dz
        depth := (surface - zmin) - nat j * dz }

/-- lines 765-775 -/
def cartesianCells2 (nx nz : Nat) : List (List Nat) :=
  (List.range' 1 nz).flatMap fun j =>
    (List.range' 1 nx).map fun i =>
      [ i + (j - 1) * (nx + 1) - 1,
        i + 1 + (j - 1) * (nx + 1) - 1,
        i + 1 + j * (nx + 1) - 1,
        i + j * (nx + 1) - 1 ]

def cartesianGrid2 (xmin xmax zmin zmax : R) (nx nz : Nat) : GridMesh R :=
  { nP := cartesianNP2 nx nz, nCell := cartesianNCell2 nx nz,
    nodes := cartesianNodes2 xmin xmax zmin zmax nx nz, cells := cartesianCells2 nx nz }

/-! ### cartesian, dim = 3 (lines 634-694, 781-798) -/

def cartesianNP3 (nx ny nz : Nat) : Nat := (nx + 1) * (nz + 1) * (ny + 1)
def cartesianNCell3 (nx ny nz : Nat) : Nat := nx * nz * ny

/-- lines 680-693 -/
def cartesianNodes3 (xmin xmax ymin ymax zmin zmax : R) (nx ny nz : Nat) : List (GridNode R) :=
  let dx := (xmax - xmin) / nat nx
  let dy := (ymax - ymin) / nat ny
  let dz := (zmax - zmin) / nat nz
  let surface := zmax
  (List.range (nx + 1)).flatMap fun i =>
    (List.range (ny + 1)).flatMap fun j =>
      (List.range (nz + 1)).map fun k =>
        { x := xmin + nat i * dx
          y := ymin + nat j * dy
          z := zmin + nat k * dz
          depth := (surface - zmin) - nat k * dz }

/-- the eight entries written at lines 787-794 (identical at lines 1086-1093) -/
def hexCell (ny nz i j k : Nat) : List Nat :=
  [ (ny + 1) * (nz + 1) * (i - 1) + (nz + 1) * (j - 1) + k - 1,
    (ny + 1) * (nz + 1) * i + (nz + 1) * (j - 1) + k - 1,
    (ny + 1) * (nz + 1) * i + (nz + 1) * j + k - 1,
    (ny + 1) * (nz + 1) * (i - 1) + (nz + 1) * j + k - 1,
    (ny + 1) * (nz + 1) * (i - 1) + (nz + 1) * (j - 1) + k,
    (ny + 1) * (nz + 1) * i + (nz + 1) * (j - 1) + k,
    (ny + 1) * (nz + 1) * i + (nz + 1) * j + k,
    (ny + 1) * (nz + 1) * (i - 1) + (nz + 1) * j + k ]

/-- lines 781-798 -/
def cartesianCells3 (nx ny nz : Nat) : List (List Nat) :=
  (List.range' 1 nx).flatMap fun i =>
    (List.range' 1 ny).flatMap fun j =>
      (List.range' 1 nz).map fun k => hexCell ny nz i j k

def cartesianGrid3 (xmin xmax ymin ymax zmin zmax : R) (nx ny nz : Nat) : GridMesh R :=
  { nP := cartesianNP3 nx ny nz, nCell := cartesianNCell3 nx ny nz,
    nodes := cartesianNodes3 xmin xmax ymin ymax zmin zmax nx ny nz, cells := cartesianCells3 nx ny nz }

/-! ### chunk, dim = 2 (lines 900-945, 1029-1037, 1061-1075).  `xmin`, `xmax` in radians. -/

def chunkNP2 (nx nz : Nat) : Nat := (nx + 1) * (nz + 1) * 1
def chunkNCell2 (nx nz : Nat) : Nat := nx * nz * 1

/-- stage 1, lines 937-944: `grid_x` = longitude, `grid_z` = radius -/
def chunkStage1_2 (xmin xmax inner outer : R) (nx nz : Nat) : List (GridNode R) :=
  let openingLong := xmax - xmin
  let dlong := openingLong / nat nx
  let lr := outer - inner
  let dr := lr / nat nz
  (List.range' 1 (nx + 1)).flatMap fun i =>
    (List.range' 1 (nz + 1)).map fun j =>
      { x := xmin + (nat i - 1) * dlong
        y := 0
        z := inner + (nat j - 1) * dr
        depth := lr - (nat j - 1) * dr }

/-- stage 2, lines 1029-1037, one node -/
def chunkToCartesian2 (n : GridNode R) : GridNode R :=
  let longitude := n.x
  let radius := n.z
  { n with x := radius * cos longitude, z := radius * sin longitude }

def chunkNodes2 (xmin xmax inner outer : R) (nx nz : Nat) : List (GridNode R) :=
  (chunkStage1_2 xmin xmax inner outer nx nz).map chunkToCartesian2

/-- lines 1061-1074 -/
def chunkCells2 (nx nz : Nat) : List (List Nat) :=
  (List.range' 1 nx).flatMap fun i =>
    (List.range' 1 nz).map fun j =>
      [ (nz + 1) * (i - 1) + j - 1,
        (nz + 1) * (i - 1) + j,
        (nz + 1) * i + j,
        (nz + 1) * i + j - 1 ]

def chunkGrid2 (xmin xmax inner outer : R) (nx nz : Nat) : GridMesh R :=
  { nP := chunkNP2 nx nz, nCell := chunkNCell2 nx nz,
    nodes := chunkNodes2 xmin xmax inner outer nx nz, cells := chunkCells2 nx nz }

/-! ### chunk, dim = 3 (lines 900-960, 1041-1051, 1080-1097).  `xmin … ymax` in radians. -/

def chunkNP3 (nx ny nz : Nat) : Nat := (nx + 1) * (nz + 1) * (ny + 1)
def chunkNCell3 (nx ny nz : Nat) : Nat := nx * nz * ny

/-- stage 1, lines 950-959: `grid_x` = longitude, `grid_y` = latitude, `grid_z` = radius -/
def chunkStage1_3 (xmin xmax ymin ymax inner outer : R) (nx ny nz : Nat) : List (GridNode R) :=
  let openingLong := xmax - xmin
  let openingLat := ymax - ymin
  let dlong := openingLong / nat nx
  let dlat := openingLat / nat ny
  let lr := outer - inner
  let dr := lr / nat nz
  (List.range' 1 (nx + 1)).flatMap fun i =>
    (List.range' 1 (ny + 1)).flatMap fun j =>
      (List.range' 1 (nz + 1)).map fun k =>
        { x := xmin + (nat i - 1) * dlong
          y := ymin + (nat j - 1) * dlat
          z := inner + (nat k - 1) * dr
          depth := lr - (nat k - 1) * dr }

/-- stage 2, lines 1041-1051, one node -/
def chunkToCartesian3 (n : GridNode R) : GridNode R :=
  let longitude := n.x
  let latitude := n.y
  let radius := n.z
  { n with x := radius * cos latitude * cos longitude
           y := radius * cos latitude * sin longitude
           z := radius * sin latitude }

def chunkNodes3 (xmin xmax ymin ymax inner outer : R) (nx ny nz : Nat) : List (GridNode R) :=
  (chunkStage1_3 xmin xmax ymin ymax inner outer nx ny nz).map chunkToCartesian3

/-- lines 1080-1097 -/
def chunkCells3 (nx ny nz : Nat) : List (List Nat) :=
  (List.range' 1 nx).flatMap fun i =>
    (List.range' 1 ny).flatMap fun j =>
      (List.range' 1 nz).map fun k => hexCell ny nz i j k

def chunkGrid3 (xmin xmax ymin ymax inner outer : R) (nx ny nz : Nat) : GridMesh R :=
  { nP := chunkNP3 nx ny nz, nCell := chunkNCell3 nx ny nz,
    nodes := chunkNodes3 xmin xmax ymin ymax inner outer nx ny nz, cells := chunkCells3 nx ny nz }

/-! ### annulus, dim = 2 (lines 826-896).  `nt` is `n_cell_t`. -/

/-- the double whose truncation to `size_t` is `n_cell_t` (line 834) -/
def annulusQuotient (inner outer : R) (nz : Nat) : R :=
  let lr := outer - inner
  let dr := lr / nat nz
  ((2 : R) * Scalar.pi * outer) / dr

def annulusNP2 (nt nz : Nat) : Nat := nt * (nz + 1)
def annulusNCell2 (nt nz : Nat) : Nat := nt * nz

/-- lines 848-856: arc length along the outer circle in `x`, height above the inner radius in `z`; `grid_depth` not yet written -/
def annulusStage1 (inner outer : R) (nt nz : Nat) : List (R × R) :=
  let lOuter := (2 : R) * Scalar.pi * outer
  let lr := outer - inner
  let dr := lr / nat nz
  let sx := lOuter / nat nt
  let sz := dr
  (List.range (nz + 1)).flatMap fun j =>
    (List.range' 1 nt).map fun i =>
      ((nat i - 1) * sx, nat j * sz)

/-- lines 863-869, one node -/
def annulusToCartesian (inner outer : R) (p : R × R) : GridNode R :=
  let lOuter := (2 : R) * Scalar.pi * outer
  let xi := p.1
  let zi := p.2
  let theta := xi / lOuter * (2 : R) * Scalar.pi
  let gx := cos theta * (inner + zi)
  let gz := sin theta * (inner + zi)
  let d := outer - sqrt (gx * gx + gz * gz)
  let d := if Scalar.fabs d < (1e-8 : R) then (0 : R) else d
  { x := gx, y := 0, z := gz, depth := d }

/-- the second loop nest (lines 859-872) runs `(n_cell_z + 1) * n_cell_t` times over `counter = 0, 1, …`, i.e. over all nodes in order -/
def annulusNodes2 (inner outer : R) (nt nz : Nat) : List (GridNode R) :=
  (annulusStage1 inner outer nt nz).map (annulusToCartesian inner outer)

/-- lines 880-893, one cell; `counter` is the number of cells written before -/
def annulusCell (nt counter j i : Nat) : List Nat :=
  let c0 := counter + 1
  let c1 := counter + 1 + 1
  let c2 := i + j * nt + 1
  let c3 := i + j * nt
  let c1 := if i = nt then c1 - nt else c1
  let c2 := if i = nt then c2 - nt else c2
  [c1 - 1, c0 - 1, c3 - 1, c2 - 1]

/-- lines 875-896 -/
def annulusCells2 (nt nz : Nat) : List (List Nat) :=
  let iterations := (List.range' 1 nz).flatMap fun j => (List.range' 1 nt).map fun i => (j, i)
  iterations.zipIdx.map fun (ji, counter) => annulusCell nt counter ji.1 ji.2

def annulusGrid2 (inner outer : R) (nt nz : Nat) : GridMesh R :=
  { nP := annulusNP2 nt nz, nCell := annulusNCell2 nt nz,
    nodes := annulusNodes2 inner outer nt nz, cells := annulusCells2 nt nz }

/-! ### the VTK arrays (lines 1510-1564) -/

/-- `points` (lines 1510-1526): `dim == 2` writes `(grid_x, grid_z, 0.0)`, otherwise `(grid_x, grid_y, grid_z)` -/
def vtkPoints (dim : Nat) (nodes : List (GridNode R)) : List R :=
  nodes.flatMap fun n => if dim = 2 then [n.x, n.z, (0.0 : R)] else [n.x, n.y, n.z]

end

/-- `pow_2_dim = dim == 2 ? 4 : 8` -/
def pow2dim (dim : Nat) : Nat := if dim = 2 then 4 else 8

/-- `connectivity` (lines 1530-1551): `connectivity[i*pow_2_dim + a] = grid_connectivity[i][a]` -/
def vtkConnectivity (cells : List (List Nat)) : List Nat := cells.flatten

/-- `offsets[i] = (i+1) * 2^dim` (lines 1554-1560) -/
def vtkOffsets (dim nCell : Nat) : List Nat := (List.range nCell).map fun i => (i + 1) * pow2dim dim

/-- `types(n_cell, dim == 2 ? 9 : 12)` (line 1564) -/
def vtkTypes (dim nCell : Nat) : List Nat := List.replicate nCell (if dim = 2 then 9 else 12)

/-! ### `filter_vtu_mesh` (lines 82-146)

Abstraction: a node's data (its three `points` entries and its entries in every `input_data[d]`, three of them for `d == 2`) is one
record of an arbitrary type; the output node list is kept as the list of *source node indices* (`outNodes`), the copied records are
`outPoints`.  `tag v` is `static_cast<int>(input_data[3][v])`.  `include_tag` is a function (the code indexes a `vector<bool>`).
`vertex_index_map` is an array of `Option Nat`, `none` being the code's `invalid = -1`.  Output cells are recorded by their input
cell index (`output_mesh.types()` receives `input_mesh.types()[cellidx]`). -/

structure FilterState where
  /-- `vertex_index_map` -/
  vmap : Array (Option Nat)
  /-- source index of every output node; `output_mesh.points().size()/3 = outNodes.size` -/
  outNodes : Array Nat
  /-- `output_mesh.connectivity()` -/
  outConn : Array Nat
  /-- `output_mesh.offsets()` -/
  outOffsets : Array Nat
  /-- input index of every output cell (stands for `output_mesh.types()`) -/
  outCells : Array Nat
  /-- `dst_cellid` -/
  dstCellId : Nat

/-- lines 113-139: one pass of the second inner loop, for the connectivity entry `src_vid` -/
def filterVertex (st : FilterState) (srcVid : Nat) : FilterState :=
  match st.vmap.getD srcVid none with
  | some dstVid => { st with outConn := st.outConn.push dstVid }
  | none =>
    let dstVid := st.outNodes.size
    { st with vmap := st.vmap.setIfInBounds srcVid (some dstVid)
              outNodes := st.outNodes.push srcVid
              outConn := st.outConn.push dstVid }

/-- lines 100-105: `highest_tag` of a cell with the given node list -/
def highestTag (tag : Nat → Int) (cellNodes : List Nat) : Int :=
  cellNodes.foldl (fun h v => max h (tag v)) (-1)

/-- negation of the `continue` condition at line 106 -/
def cellKept (tag : Nat → Int) (includeTag : Nat → Bool) (cellNodes : List Nat) : Bool :=
  let h := highestTag tag cellNodes
  !(h < 0 || includeTag h.toNat == false)

/-- lines 100-144: one pass of the cell loop; `cellNodes` is `connectivity[cellidx*n_vert_per_cell … (cellidx+1)*n_vert_per_cell - 1]` -/
def filterCell (tag : Nat → Int) (includeTag : Nat → Bool) (nVertPerCell : Nat)
    (st : FilterState) (cellidx : Nat) (cellNodes : List Nat) : FilterState :=
  if cellKept tag includeTag cellNodes then
    let st := { st with dstCellId := st.dstCellId + 1 }
    let st := cellNodes.foldl filterVertex st
    { st with outOffsets := st.outOffsets.push (st.dstCellId * nVertPerCell)
              outCells := st.outCells.push cellidx }
  else st

/-- the entries `idx = cellidx*n … (cellidx+1)*n - 1` of the flat connectivity array -/
def cellNodesOf (conn : Array Nat) (nVertPerCell cellidx : Nat) : List Nat :=
  (List.range' (cellidx * nVertPerCell) nVertPerCell).map fun idx => conn.getD idx 0

structure FilteredMesh (α : Type) where
  /-- source node index of each output node -/
  nodes : List Nat
  /-- the copied node records -/
  points : List α
  connectivity : List Nat
  offsets : List Nat
  /-- input cell index of each output cell -/
  cells : List Nat

def filterInit (nPoints : Nat) : FilterState :=
  { vmap := Array.replicate nPoints none, outNodes := #[], outConn := #[], outOffsets := #[], outCells := #[], dstCellId := 0 }

def filterRun (dim : Nat) (includeTag : Nat → Bool) (nPoints : Nat) (conn : Array Nat) (nCells : Nat) (tag : Nat → Int) : FilterState :=
  let nVertPerCell := if dim = 3 then 8 else 4
  (List.range nCells).foldl
    (fun st cellidx => filterCell tag includeTag nVertPerCell st cellidx (cellNodesOf conn nVertPerCell cellidx))
    (filterInit nPoints)

/-- `filter_vtu_mesh(dim, include_tag, input_mesh, input_data, output_mesh, output_data)`; `nCells` is `input_mesh.types().size()` -/
def filterMesh {α : Type} [Inhabited α] (dim : Nat) (includeTag : Nat → Bool) (points : List α) (connectivity : List Nat)
    (nCells : Nat) (tag : Nat → Int) : FilteredMesh α :=
  let pts := points.toArray
  let st := filterRun dim includeTag pts.size connectivity.toArray nCells tag
  { nodes := st.outNodes.toList
    points := st.outNodes.toList.map fun s => pts.getD s default
    connectivity := st.outConn.toList
    offsets := st.outOffsets.toList
    cells := st.outCells.toList }

end Gwb
