/-
`gwb-grid` (source/gwb-grid/main.cc): the `sphere` grid (lines 1118-1487) with its helpers `project_on_sphere` (lines 216-231) and
`lay_points` (lines 233-276).

The code builds the surface mesh of a unit sphere out of `n_block = 12` quadrilateral blocks of `n_cell_x × n_cell_x` cells each
(a tetrahedron A B C D, the middles M N P Q of its faces and the middles E F G H J K of its edges, all projected on the unit sphere;
every face of the tetrahedron is cut into three quadrilaterals), removes the points that occur in several blocks, and stacks
`n_cell_z + 1` copies of that shell, each projected on its own radius.  `n_cell_y` is not used (only a debug-only `WBAssert` compares it
with `n_cell_x`).

Conventions of the transliteration (as in GridMesh.lean)
* A loop nest `counter = 0; for a … for b … { array[counter] = f(a,b); counter++; }` is the list of the `f(a,b)` in iteration order.
* lines 1140-1156 (the first "block node layout" loop, `block_grid_x = i * Lx / n` …) are dead: every entry is overwritten by
  `lay_points`; only the block connectivity (lines 1158-1172) survives.  It is the 2-D cartesian connectivity with `nx = nz = n_cell_x`.
* `block_grid_hull` is a `vector<bool>` initialised to `false`; `lay_points` sets it to `true` on the four edges of the block.
* "merge blocks" (lines 1280-1300) concatenates the 12 blocks: `temp_x[i_block * block_n_p + counter]`.
* the duplicate search (lines 1312-1338): for `i = 1 …`, if `sides[i]`, the FIRST `j` in `0 … i-2` (the loop bound is `j < i-1`: the
  immediate predecessor `i-1` is never examined) with `sides[j]` and all three coordinate differences `< 1e-12 * outer_radius` in
  absolute value makes `i` a double point with `point_to[i] = j`.  Here: `sphereFindDouble` searches `temp.take (i - 1)`; for `i = 0`
  that is the empty list (the code starts at `i = 1`; `point_to[0] = 0`, `double_points[0] = false`).
* `compact` (lines 1377-1387) is a `vector<size_t>` (zero-initialised) that is only written at the points that are not doubles.
* the lookups `point_to[...]` (line 1372) and `compact[...]` (line 1393) are the only data-dependent array accesses: they are `idx`
  (out of range = `Err.internal`); `C18_sphere_total` shows that they never fail.
* `double radius = 1;` and `static_cast<double>(i)` are `Scalar.nat`.

Core Lean only.
-/
import GwbVerif.Model.Basic
import GwbVerif.Model.Apps.GridMesh
namespace Gwb

open Scalar (nat)

section
variable {R : Type} [Scalar R]

/-- `project_on_sphere(radius, x_, y_, z_)` (lines 216-231); `Point<3>::norm()` is `sqrt(x*x + y*y + z*z)` -/
def projectOnSphere (radius : R) (p : P3 R) : P3 R :=
  let r := P3.norm p
  let theta := atan2 p.y p.x
  let phi := acos (p.z / r)
  ⟨radius * cos theta * sin phi, radius * sin theta * sin phi, radius * cos phi⟩

/-- one pass of the loop body of `lay_points` (lines 245-272): the point and its `hull` flag -/
def layPoint (p1 p2 p3 p4 : P3 R) (level i j : Nat) : P3 R × Bool :=
  let pi4 : R := Scalar.pi * (0.25 : R)
  let x0 := -pi4 + nat i * (2.0 : R) * pi4 / nat level
  let y0 := -pi4 + nat j * (2.0 : R) * pi4 / nat level
  let r := tan x0
  let s := tan y0
  let n1 := (0.25 : R) * ((1.0 : R) - r) * ((1.0 : R) - s)
  let n2 := (0.25 : R) * ((1.0 : R) + r) * ((1.0 : R) - s)
  let n3 := (0.25 : R) * ((1.0 : R) + r) * ((1.0 : R) + s)
  let n4 := (0.25 : R) * ((1.0 : R) - r) * ((1.0 : R) + s)
  (⟨p1.x * n1 + p2.x * n2 + p3.x * n3 + p4.x * n4,
    p1.y * n1 + p2.y * n2 + p3.y * n3 + p4.y * n4,
    p1.z * n1 + p2.z * n2 + p3.z * n3 + p4.z * n4⟩,
   i == 0 || j == 0 || i == level || j == level)

/-- `lay_points(x1 … z4, x, y, z, hull, level)` (lines 233-276): `j` outer, `i` inner -/
def layPoints (p1 p2 p3 p4 : P3 R) (level : Nat) : List (P3 R × Bool) :=
  (List.range (level + 1)).flatMap fun j =>
    (List.range (level + 1)).map fun i => layPoint p1 p2 p3 p4 level i j

/-- the 14 reference points after lines 1178-1256 -/
structure SphereRefs (R : Type) where
  A : P3 R
  B : P3 R
  C : P3 R
  D : P3 R
  E : P3 R
  F : P3 R
  G : P3 R
  H : P3 R
  J : P3 R
  K : P3 R
  M : P3 R
  N : P3 R
  P : P3 R
  Q : P3 R

/-- `(a + b + c) / 3.0` componentwise (lines 1197-1211) -/
def faceMiddle (a b c : P3 R) : P3 R :=
  ⟨(a.x + b.x + c.x) / (3.0 : R), (a.y + b.y + c.y) / (3.0 : R), (a.z + b.z + c.z) / (3.0 : R)⟩

/-- `(a + b) / 2.0` componentwise (lines 1214-1236) -/
def edgeMiddle (a b : P3 R) : P3 R :=
  ⟨(a.x + b.x) / (2.0 : R), (a.y + b.y) / (2.0 : R), (a.z + b.z) / (2.0 : R)⟩

/-- lines 1175-1256: the corners, the middles (computed from the corners as first assigned), then all 14 projected on radius 1 -/
def sphereRefs : SphereRefs R :=
  let radius : R := nat 1
  let a : P3 R := ⟨-(1.0 : R), (0.0 : R), -(1.0 : R) / sqrt (2.0 : R)⟩
  let b : P3 R := ⟨(1.0 : R), (0.0 : R), -(1.0 : R) / sqrt (2.0 : R)⟩
  let c : P3 R := ⟨(0.0 : R), -(1.0 : R), (1.0 : R) / sqrt (2.0 : R)⟩
  let d : P3 R := ⟨(0.0 : R), (1.0 : R), (1.0 : R) / sqrt (2.0 : R)⟩
  let m := faceMiddle a b c
  let n := faceMiddle a d c
  let p := faceMiddle a d b
  let q := faceMiddle c d b
  let f := edgeMiddle b c
  let g := edgeMiddle a c
  let e := edgeMiddle b a
  let h := edgeMiddle d c
  let j := edgeMiddle d a
  let k := edgeMiddle d b
  { A := projectOnSphere radius a, B := projectOnSphere radius b, C := projectOnSphere radius c, D := projectOnSphere radius d,
    E := projectOnSphere radius e, F := projectOnSphere radius f, G := projectOnSphere radius g, H := projectOnSphere radius h,
    J := projectOnSphere radius j, K := projectOnSphere radius k, M := projectOnSphere radius m, N := projectOnSphere radius n,
    P := projectOnSphere radius p, Q := projectOnSphere radius q }

/-- the corner quadruples of the 12 `lay_points` calls (lines 1258-1269), in block order -/
def sphereBlockCorners (s : SphereRefs R) : List (P3 R × P3 R × P3 R × P3 R) :=
  [ (s.M, s.G, s.A, s.E), (s.F, s.M, s.E, s.B), (s.C, s.G, s.M, s.F), (s.G, s.N, s.J, s.A),
    (s.C, s.H, s.N, s.G), (s.H, s.D, s.J, s.N), (s.A, s.J, s.P, s.E), (s.J, s.D, s.K, s.P),
    (s.P, s.K, s.B, s.E), (s.Q, s.K, s.D, s.H), (s.Q, s.H, s.C, s.F), (s.Q, s.F, s.B, s.K) ]

/-- `n_block` -/
def sphereNBlock : Nat := 12
/-- `block_n_p = (n_cell_x + 1) * (n_cell_x + 1)` -/
def sphereBlockNP (n : Nat) : Nat := (n + 1) * (n + 1)
/-- `block_n_cell = n_cell_x * n_cell_x` -/
def sphereBlockNCell (n : Nat) : Nat := n * n

/-- lines 1258-1278: one block, laid out and projected on radius 1 -/
def sphereBlock (n : Nat) (c : P3 R × P3 R × P3 R × P3 R) : List (P3 R × Bool) :=
  (layPoints c.1 c.2.1 c.2.2.1 c.2.2.2 n).map fun ph => (projectOnSphere (nat 1) ph.1, ph.2)

/-- lines 1280-1300: `temp_x/y/z` and `sides` -/
def sphereTemp (n : Nat) : List (P3 R × Bool) :=
  (sphereBlockCorners (sphereRefs (R := R))).flatMap (sphereBlock n)

/-- the test at lines 1325-1327 -/
def sphereClose (distance : R) (p q : P3 R) : Bool :=
  decide (Scalar.fabs (p.x - q.x) < distance) && decide (Scalar.fabs (p.y - q.y) < distance) &&
    decide (Scalar.fabs (p.z - q.z) < distance)

/-- lines 1316-1336 for one `i`: `some j` = `i` is a double point and `point_to[i] = j` -/
def sphereFindDouble (distance : R) (temp : List (P3 R × Bool)) (i : Nat) (p : P3 R × Bool) : Option Nat :=
  if p.2 then (temp.take (i - 1)).findIdx? (fun q => q.2 && sphereClose distance p.1 q.1) else none

/-- lines 1312-1338: per point, `none` = not a double point, `some j` = double of `j` -/
def sphereDoubles (distance : R) (temp : List (P3 R × Bool)) : List (Option Nat) :=
  temp.zipIdx.map fun pi => sphereFindDouble distance temp pi.2 pi.1

/-- `point_to` (lines 1304-1307, 1330) -/
def spherePointTo (ds : List (Option Nat)) : List Nat :=
  ds.zipIdx.map fun di => match di.1 with
    | some j => j
    | none => di.2

/-- `amount_of_double_points` -/
def sphereAmountDouble (ds : List (Option Nat)) : Nat := ds.countP Option.isSome

/-- `compact` (lines 1377-1387); `counter` is the number of non-double points met so far -/
def sphereCompact : List (Option Nat) → Nat → List Nat
  | [], _ => []
  | none :: ds, counter => counter :: sphereCompact ds (counter + 1)
  | some _ :: ds, counter => 0 :: sphereCompact ds counter

/-- lines 1352-1355: `fabs(v) < 1e-8 ? 0. : v` -/
def sphereSnap (v : R) : R := if Scalar.fabs v < (1e-8 : R) then (0.0 : R) else v

/-- `shell_grid_x/y/z` (lines 1347-1359) -/
def sphereShellPoints (temp : List (P3 R × Bool)) (ds : List (Option Nat)) : List (P3 R) :=
  (temp.zip ds).filterMap fun pd => match pd.2 with
    | none => some ⟨sphereSnap pd.1.1.x, sphereSnap pd.1.1.y, sphereSnap pd.1.1.z⟩
    | some _ => none

end

/-- `block_grid_connectivity[i_block]` (lines 1158-1172; the same for every block) -/
def sphereBlockCells (n : Nat) : List (List Nat) :=
  (List.range' 1 n).flatMap fun j =>
    (List.range' 1 n).map fun i =>
      [ i + (j - 1) * (n + 1) - 1,
        i + 1 + (j - 1) * (n + 1) - 1,
        i + 1 + j * (n + 1) - 1,
        i + j * (n + 1) - 1 ]

/-- lines 1361-1367: `shell_grid_connectivity[i * block_n_cell + counter][k] = block_grid_connectivity[i][counter][k] + i * block_n_p` -/
def sphereShellCellsRaw (n : Nat) : List (List Nat) :=
  (List.range sphereNBlock).flatMap fun b => (sphereBlockCells n).map fun cell => cell.map (· + b * sphereBlockNP n)

/-- lines 1369-1375 and 1390-1396: `compact[point_to[c]]` -/
def sphereRenumber (pointTo compact : List Nat) (c : Nat) : Except Err Nat := do
  let p ← idx pointTo c
  idx compact p

def sphereShellCells (n : Nat) (pointTo compact : List Nat) : Except Err (List (List Nat)) :=
  (sphereShellCellsRaw n).mapM fun cell => cell.mapM (sphereRenumber pointTo compact)

section
variable {R : Type} [Scalar R]

/-- line 1436: `radius = inner_radius + ((outer_radius - inner_radius) / static_cast<double>(n_cell_z)) * static_cast<double>(i)` -/
def sphereLayerRadius (inner outer : R) (nz i : Nat) : R := inner + ((outer - inner) / nat nz) * nat i

/-- lines 1437-1461 for one point of one layer -/
def sphereLayerNode (outer radius : R) (p : P3 R) : GridNode R :=
  let q := projectOnSphere radius p
  let d := outer - sqrt (q.x * q.x + q.y * q.y + q.z * q.z)
  let d := if Scalar.fabs d < (1e-8 : R) then (0 : R) else d
  { x := q.x, y := q.y, z := q.z, depth := d }

/-- lines 1426-1462 -/
def sphereNodes (inner outer : R) (nz : Nat) (shell : List (P3 R)) : List (GridNode R) :=
  (List.range (nz + 1)).flatMap fun i => shell.map (sphereLayerNode outer (sphereLayerRadius inner outer nz i))

end

/-- lines 1464-1487: the lower face on layer `i`, the upper face on layer `i + 1` -/
def sphereCells (nz shellNP : Nat) (shellCells : List (List Nat)) : List (List Nat) :=
  (List.range nz).flatMap fun i =>
    shellCells.map fun cell => cell.map (· + i * shellNP) ++ cell.map (· + (i + 1) * shellNP)

section
variable {R : Type} [Scalar R]

/-- `shell_n_p = n_block * block_n_p - amount_of_double_points` for the given bounds -/
def sphereShellNP (outer : R) (n : Nat) : Nat :=
  let temp := sphereTemp (R := R) n
  let ds := sphereDoubles ((1e-12 : R) * outer) temp
  sphereNBlock * sphereBlockNP n - sphereAmountDouble ds

/-- the `sphere` branch (lines 1118-1487); `n` is `n_cell_x`, `inner = z_min`, `outer = z_max` -/
def sphereGrid (inner outer : R) (n nz : Nat) : Except Err (GridMesh R) := do
  let temp := sphereTemp (R := R) n
  let distance := (1e-12 : R) * outer
  let ds := sphereDoubles distance temp
  let shellNP := sphereNBlock * sphereBlockNP n - sphereAmountDouble ds
  let shellNCell := sphereNBlock * sphereBlockNCell n
  let shell := sphereShellPoints temp ds
  let shellCells ← sphereShellCells n (spherePointTo ds) (sphereCompact ds 0)
  pure { nP := (nz + 1) * shellNP
         nCell := nz * shellNCell
         nodes := sphereNodes inner outer nz shell
         cells := sphereCells nz shellNP shellCells }

end

end Gwb
