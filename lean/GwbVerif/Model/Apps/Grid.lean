/-
`gwb-grid` (source/gwb-grid/main.cc): the thread pool's `parallel_for` (lines 154-213) and the per-node write
pattern of the property loop (lines 1600-1636).  Natural numbers only.
-/
namespace Gwb

/-- the launch loop of `ThreadPool::parallel_for`: `for (i = 0; i + 1 < pool.size() && i1 < end; ++i)` -/
def launchLoop (slice stop pool : Nat) : Nat → Nat → Nat → Nat → List (Nat × Nat) × Nat
  | 0, _, i1, _ => ([], i1)
  | fuel + 1, i, i1, i2 =>
    if i + 1 < pool ∧ i1 < stop then
      let (rest, last) := launchLoop slice stop pool fuel (i + 1) i2 (min (i2 + slice) stop)
      ((i1, i2) :: rest, last)
    else ([], i1)

/-- the index ranges `[k1, k2)` handed to the threads by `parallel_for(start, end, func)` with a pool of `pool` threads -/
def parallelForSlices (start stop pool : Nat) : List (Nat × Nat) :=
  let n := stop - start + 1
  -- `static_cast<size_t>(std::round(n / pool.size()))`: integer division, `round` of an integer is the identity
  let slice := max (n / pool) 1
  let (jobs, i1) := launchLoop slice stop pool pool 0 start (min (start + slice) stop)
  if i1 < stop then jobs ++ [(i1, stop)] else jobs

/-- the cells of the output arrays written by `func(i)`: `T[i]`, `V[3i..3i+2]`, `Tag[i]`, `C_c[i]`;
arrays are numbered 1 (temperature), 2 (velocity), 3 (tag), 4+c (composition c) as `data_set[...]` -/
def nodeWrites (compositions : Nat) (i : Nat) : List (Nat × Nat) :=
  [(1, i), (2, 3 * i), (2, 3 * i + 1), (2, 3 * i + 2), (3, i)] ++ (List.range compositions).map (fun c => (4 + c, i))

end Gwb
