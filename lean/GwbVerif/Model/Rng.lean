/-
`std::mt19937` (seeding, twist, tempering) and libstdc++'s `std::generate_canonical<double,53>` /
`std::uniform_real_distribution<double>`; world.cc:57-63 (constructor seed), 248-251 (`random number seed`).
Reference: ISO C++ [rand.eng.mers], libstdc++ bits/random.tcc.
-/
import GwbVerif.Model.Models.Area
namespace Gwb
open Scalar

structure Mt19937 where
  mt : Array UInt32
  index : Nat
  deriving Inhabited

namespace Mt19937

/-- `mersenne_twister_engine::seed(value)`: `x[0] = value mod 2^32; x[i] = 1812433253·(x[i-1] xor (x[i-1] >> 30)) + i` -/
def seed (s : Nat) : Mt19937 :=
  let x0 : UInt32 := UInt32.ofNat (s % 4294967296)
  let rec go (i : Nat) (fuel : Nat) (prev : UInt32) (acc : Array UInt32) : Array UInt32 :=
    match fuel with
    | 0 => acc
    | fuel + 1 =>
      let v : UInt32 := (1812433253 : UInt32) * (prev ^^^ (prev >>> 30)) + UInt32.ofNat i
      go (i + 1) fuel v (acc.push v)
  ⟨go 1 623 x0 #[x0], 624⟩

/-- `_M_gen_rand`: regenerate all 624 words in place -/
def twist (g : Mt19937) : Mt19937 :=
  let upper : UInt32 := 0x80000000
  let lower : UInt32 := 0x7fffffff
  let rec go (k : Nat) (fuel : Nat) (mt : Array UInt32) : Array UInt32 :=
    match fuel with
    | 0 => mt
    | fuel + 1 =>
      let y := (mt[k]! &&& upper) ||| (mt[(k + 1) % 624]! &&& lower)
      let v := mt[(k + 397) % 624]! ^^^ (y >>> 1) ^^^ (if y &&& 1 == 1 then (0x9908b0df : UInt32) else 0)
      go (k + 1) fuel (mt.set! k v)
  ⟨go 0 624 g.mt, 0⟩

/-- `operator()`: one tempered 32-bit word -/
def next (g : Mt19937) : UInt32 × Mt19937 :=
  let g := if g.index ≥ 624 then twist g else g
  let y := g.mt[g.index]!
  let y := y ^^^ (y >>> 11)
  let y := y ^^^ ((y <<< 7) &&& 0x9d2c5680)
  let y := y ^^^ ((y <<< 15) &&& 0xefc60000)
  let y := y ^^^ (y >>> 18)
  (y, { g with index := g.index + 1 })

end Mt19937

/-- `std::generate_canonical<double,53>(mt19937)`: two draws, `(x1 + x2·2^32) / 2^64`, clamped below 1 -/
def canonicalMt {R : Type} [Scalar R] (oneBelow : R) (g : Mt19937) : R × Mt19937 :=
  let (x1, g) := g.next
  let (x2, g) := g.next
  let sum : R := (0 : R) + Scalar.nat x1.toNat * (1 : R)
  let sum := sum + Scalar.nat x2.toNat * (4294967296 : R)
  let ret := sum / (18446744073709551616 : R)
  (if ret ≥ 1 then oneBelow else ret, g)

end Gwb
