import GwbVerif.Model.Apps.GridMesh
import GwbVerif.Proofs.FieldScalar
namespace Gwb

theorem length_flatMap_uniform_mesh {α β : Type} (l : List α) (g : α → List β) (n : Nat)
    (h : ∀ x ∈ l, (g x).length = n) : (l.flatMap g).length = l.length * n := by
  induction l with
  | nil => simp
  | cons x xs ih =>
    rw [List.flatMap_cons, List.length_append, h x (by simp), ih (fun y hy => h y (by simp [hy])), List.length_cons]
    ring

theorem getElem?_flatMap_uniform {α β : Type} (l : List α) (g : α → List β) (n : Nat)
    (h : ∀ x ∈ l, (g x).length = n) (k a : Nat) (ha : a < n) :
    (l.flatMap g)[k * n + a]? = (l[k]?).bind (fun x => (g x)[a]?) := by
  induction l generalizing k with
  | nil => simp
  | cons x xs ih =>
    have hx := h x (by simp)
    have hxs : ∀ y ∈ xs, (g y).length = n := fun y hy => h y (by simp [hy])
    rw [List.flatMap_cons]
    cases k with
    | zero =>
      rw [List.getElem?_append_left (by omega)]
      simp
    | succ k =>
      rw [List.getElem?_append_right (by rw [hx, Nat.add_mul]; omega)]
      have : (k + 1) * n + a - (g x).length = k * n + a := by rw [hx, Nat.add_mul]; omega
      rw [this, ih hxs]
      simp

theorem lattice_lt {i j n m : Nat} (hi : i < n) (hj : j < m) : j * n + i < m * n := by
  calc j * n + i < j * n + n := by omega
    _ = (j + 1) * n := by ring
    _ ≤ m * n := Nat.mul_le_mul_right n hj

theorem getElem?_range'_one (n k : Nat) (hk : k < n) : (List.range' 1 n)[k]? = some (k + 1) := by
  rw [List.getElem?_range' hk]; simp [Nat.add_comm]



theorem lattice3_lt {i j k a b c : Nat} (hi : i < a) (hj : j < b) (hk : k < c) :
    i * (b * c) + (j * c + k) < a * (b * c) :=
  lattice_lt (lattice_lt hk hj) hi

/-- three nested loops: the element written in iteration `(i, j, k)` sits at index `i·(|lb|·|lc|) + j·|lc| + k` -/
theorem getElem?_flatMap3 {α β γ δ : Type} (la : List α) (lb : List β) (lc : List γ) (f : α → β → γ → δ)
    (i j k : Nat) (hj : j < lb.length) (hk : k < lc.length) :
    (la.flatMap fun x => lb.flatMap fun y => lc.map (f x y))[i * (lb.length * lc.length) + (j * lc.length + k)]? =
      (la[i]?).bind fun x => (lb[j]?).bind fun y => (lc[k]?).map (f x y) := by
  rw [getElem?_flatMap_uniform _ _ (lb.length * lc.length)
    (fun x _ => length_flatMap_uniform_mesh _ _ lc.length (by simp)) i _ (lattice_lt hk hj)]
  congr 1
  funext x
  rw [getElem?_flatMap_uniform _ _ lc.length (by simp) j k hk]
  simp

theorem length_flatMap3 {α β γ δ : Type} (la : List α) (lb : List β) (lc : List γ) (f : α → β → γ → δ) :
    (la.flatMap fun x => lb.flatMap fun y => lc.map (f x y)).length = la.length * (lb.length * lc.length) :=
  length_flatMap_uniform_mesh _ _ _ (fun x _ => length_flatMap_uniform_mesh _ _ lc.length (by simp))

/-- a property of all entries of an `m × n` table follows from the property of every entry `(j, i)` -/
theorem forall_mem_lattice {α : Type} (l : List α) (n m : Nat) (hlen : l.length = m * n) (P : α → Prop)
    (h : ∀ i j, i < n → j < m → ∀ x, l[j * n + i]? = some x → P x) : ∀ x ∈ l, P x := by
  intro x hx
  obtain ⟨idx, hidx, rfl⟩ := List.getElem_of_mem hx
  rw [hlen] at hidx
  have hn : 0 < n := by
    rcases Nat.eq_zero_or_pos n with h0 | h0
    · subst h0; simp at hidx
    · exact h0
  have h1 : idx / n * n + idx % n = idx := by rw [Nat.mul_comm]; exact Nat.div_add_mod idx n
  refine h (idx % n) (idx / n) (Nat.mod_lt _ hn) ((Nat.div_lt_iff_lt_mul hn).2 hidx) _ ?_
  rw [h1]; exact List.getElem?_eq_getElem _

theorem forall_mem_lattice3 {α : Type} (l : List α) (a b c : Nat) (hlen : l.length = a * (b * c)) (P : α → Prop)
    (h : ∀ i j k, i < a → j < b → k < c → ∀ x, l[i * (b * c) + (j * c + k)]? = some x → P x) : ∀ x ∈ l, P x := by
  refine forall_mem_lattice l (b * c) a hlen P ?_
  intro r i hr hi x hx
  have hc : 0 < c := by
    rcases Nat.eq_zero_or_pos c with h0 | h0
    · subst h0; simp at hr
    · exact h0
  have h1 : r / c * c + r % c = r := by rw [Nat.mul_comm]; exact Nat.div_add_mod r c
  refine h i (r / c) (r % c) hi ((Nat.div_lt_iff_lt_mul hc).2 hr) (Nat.mod_lt _ hc) x ?_
  rw [h1]; exact hx

/-! ## cartesian 2-D -/
section
variable {R : Type} [Scalar R]

theorem cartesianNodes2_length (xmin xmax zmin zmax : R) (nx nz : Nat) :
    (cartesianNodes2 xmin xmax zmin zmax nx nz).length = cartesianNP2 nx nz := by
  unfold cartesianNodes2 cartesianNP2
  rw [length_flatMap_uniform_mesh _ _ (nx + 1) (by simp)]
  simp; ring

theorem cartesianNodes2_get (xmin xmax zmin zmax : R) (nx nz i j : Nat) (hi : i ≤ nx) (hj : j ≤ nz) :
    (cartesianNodes2 xmin xmax zmin zmax nx nz)[j * (nx + 1) + i]? =
      some { x := xmin + Scalar.nat i * ((xmax - xmin) / Scalar.nat nx)
             y := 0
             z := zmin + Scalar.nat j * ((zmax - zmin) / Scalar.nat nz)
             depth := (zmax - zmin) - Scalar.nat j * ((zmax - zmin) / Scalar.nat nz) } := by
  unfold cartesianNodes2
  rw [getElem?_flatMap_uniform _ _ (nx + 1) (by simp) j i (by omega)]
  simp [Nat.lt_succ_of_le hi, Nat.lt_succ_of_le hj]

theorem cartesianCells2_length (nx nz : Nat) : (cartesianCells2 nx nz).length = cartesianNCell2 nx nz := by
  unfold cartesianCells2 cartesianNCell2
  rw [length_flatMap_uniform_mesh _ _ nx (by simp)]
  simp; ring

theorem cartesianCells2_get (nx nz ci cj : Nat) (hi : ci < nx) (hj : cj < nz) :
    (cartesianCells2 nx nz)[cj * nx + ci]? =
      some [cj * (nx + 1) + ci, cj * (nx + 1) + (ci + 1), (cj + 1) * (nx + 1) + (ci + 1), (cj + 1) * (nx + 1) + ci] := by
  unfold cartesianCells2
  rw [getElem?_flatMap_uniform _ _ nx (by simp) cj ci hi, getElem?_range'_one _ _ hj]
  simp only [Option.bind_some, List.getElem?_map, getElem?_range'_one _ _ hi, Option.map_some, Nat.add_sub_cancel]
  refine congrArg some ?_
  simp only [List.cons.injEq, and_true]
  omega

theorem cartesianCells2_in_range (nx nz : Nat) :
    ∀ cell ∈ cartesianCells2 nx nz, cell.length = 4 ∧ ∀ e ∈ cell, e < cartesianNP2 nx nz := by
  refine forall_mem_lattice _ nx nz (by rw [cartesianCells2_length]; unfold cartesianNCell2; ring) _ ?_
  intro ci cj hi hj cell hcell
  rw [cartesianCells2_get nx nz ci cj hi hj] at hcell
  injection hcell with hcell
  subst hcell
  have e : cartesianNP2 nx nz = (nz + 1) * (nx + 1) := by unfold cartesianNP2; ring
  rw [e]
  refine ⟨rfl, ?_⟩
  simp only [List.mem_cons, List.not_mem_nil, or_false]
  rintro _ (rfl | rfl | rfl | rfl) <;> exact lattice_lt (by omega) (by omega)

/-! ## cartesian 3-D -/

theorem cartesianNodes3_length (xmin xmax ymin ymax zmin zmax : R) (nx ny nz : Nat) :
    (cartesianNodes3 xmin xmax ymin ymax zmin zmax nx ny nz).length = cartesianNP3 nx ny nz := by
  unfold cartesianNodes3 cartesianNP3
  rw [length_flatMap3]
  simp; ring

theorem cartesianNodes3_get (xmin xmax ymin ymax zmin zmax : R) (nx ny nz i j k : Nat)
    (hi : i ≤ nx) (hj : j ≤ ny) (hk : k ≤ nz) :
    (cartesianNodes3 xmin xmax ymin ymax zmin zmax nx ny nz)[(ny + 1) * (nz + 1) * i + (nz + 1) * j + k]? =
      some { x := xmin + Scalar.nat i * ((xmax - xmin) / Scalar.nat nx)
             y := ymin + Scalar.nat j * ((ymax - ymin) / Scalar.nat ny)
             z := zmin + Scalar.nat k * ((zmax - zmin) / Scalar.nat nz)
             depth := (zmax - zmin) - Scalar.nat k * ((zmax - zmin) / Scalar.nat nz) } := by
  unfold cartesianNodes3
  have e : (ny + 1) * (nz + 1) * i + (nz + 1) * j + k
      = i * ((List.range (ny + 1)).length * (List.range (nz + 1)).length) + (j * (List.range (nz + 1)).length + k) := by
    simp only [List.length_range]; ring
  rw [e, getElem?_flatMap3 _ _ _ _ i j k (by simp; omega) (by simp; omega)]
  simp [Nat.lt_succ_of_le hi, Nat.lt_succ_of_le hj, Nat.lt_succ_of_le hk]

/-- the connectivity loop nest shared by cartesian 3-D and chunk 3-D -/
def hexCells (nx ny nz : Nat) : List (List Nat) :=
  (List.range' 1 nx).flatMap fun i => (List.range' 1 ny).flatMap fun j => (List.range' 1 nz).map fun k => hexCell ny nz i j k

theorem cartesianCells3_eq (nx ny nz : Nat) : cartesianCells3 nx ny nz = hexCells nx ny nz := rfl
theorem chunkCells3_eq (nx ny nz : Nat) : chunkCells3 nx ny nz = hexCells nx ny nz := rfl

theorem hexCells_length (nx ny nz : Nat) :
    (hexCells nx ny nz).length = nx * (ny * nz) := by
  unfold hexCells; rw [length_flatMap3]; simp

/-- cell `(ci, cj, ck)` (0-based) is written in iteration `counter = (ci·ny + cj)·nz + ck` and lists the eight lattice corners
in VTK hexahedron order -/
theorem hexCells_get (nx ny nz ci cj ck : Nat) (hi : ci < nx) (hj : cj < ny) (hk : ck < nz) :
    (hexCells nx ny nz)[ci * (ny * nz) + (cj * nz + ck)]? =
      some [ (ny + 1) * (nz + 1) * ci + (nz + 1) * cj + ck,
             (ny + 1) * (nz + 1) * (ci + 1) + (nz + 1) * cj + ck,
             (ny + 1) * (nz + 1) * (ci + 1) + (nz + 1) * (cj + 1) + ck,
             (ny + 1) * (nz + 1) * ci + (nz + 1) * (cj + 1) + ck,
             (ny + 1) * (nz + 1) * ci + (nz + 1) * cj + (ck + 1),
             (ny + 1) * (nz + 1) * (ci + 1) + (nz + 1) * cj + (ck + 1),
             (ny + 1) * (nz + 1) * (ci + 1) + (nz + 1) * (cj + 1) + (ck + 1),
             (ny + 1) * (nz + 1) * ci + (nz + 1) * (cj + 1) + (ck + 1) ] := by
  have e : ci * (ny * nz) + (cj * nz + ck)
      = ci * ((List.range' 1 ny).length * (List.range' 1 nz).length) + (cj * (List.range' 1 nz).length + ck) := by
    simp only [List.length_range']
  unfold hexCells
  rw [e, getElem?_flatMap3 _ _ _ _ ci cj ck (by simpa using hj) (by simpa using hk)]
  rw [getElem?_range'_one _ _ hi, getElem?_range'_one _ _ hj, getElem?_range'_one _ _ hk]
  simp only [Option.bind_some, Option.map_some, hexCell, Nat.add_sub_cancel]
  refine congrArg some ?_
  simp only [List.cons.injEq, and_true]
  omega

theorem hexNode_lt {nx ny nz i j k : Nat} (hi : i ≤ nx) (hj : j ≤ ny) (hk : k ≤ nz) :
    (ny + 1) * (nz + 1) * i + (nz + 1) * j + k < (nx + 1) * (nz + 1) * (ny + 1) := by
  have := @lattice3_lt i j k (nx + 1) (ny + 1) (nz + 1) (by omega) (by omega) (by omega)
  calc (ny + 1) * (nz + 1) * i + (nz + 1) * j + k = i * ((ny + 1) * (nz + 1)) + (j * (nz + 1) + k) := by ring
    _ < (nx + 1) * ((ny + 1) * (nz + 1)) := this
    _ = (nx + 1) * (nz + 1) * (ny + 1) := by ring

theorem hexCells_in_range (nx ny nz : Nat) :
    ∀ cell ∈ hexCells nx ny nz,
      cell.length = 8 ∧ ∀ e ∈ cell, e < (nx + 1) * (nz + 1) * (ny + 1) := by
  refine forall_mem_lattice3 _ nx ny nz (hexCells_length nx ny nz) _ ?_
  intro ci cj ck hi hj hk cell hcell
  rw [hexCells_get nx ny nz ci cj ck hi hj hk] at hcell
  injection hcell with hcell
  subst hcell
  refine ⟨rfl, ?_⟩
  simp only [List.mem_cons, List.not_mem_nil, or_false]
  rintro _ (rfl | rfl | rfl | rfl | rfl | rfl | rfl | rfl) <;> exact hexNode_lt (by omega) (by omega) (by omega)

theorem cartesianCells3_length (nx ny nz : Nat) : (cartesianCells3 nx ny nz).length = cartesianNCell3 nx ny nz := by
  rw [cartesianCells3_eq, hexCells_length]; unfold cartesianNCell3; ring

/-! ## chunk 2-D -/

theorem chunkNodes2_length (xmin xmax inner outer : R) (nx nz : Nat) :
    (chunkNodes2 xmin xmax inner outer nx nz).length = chunkNP2 nx nz := by
  unfold chunkNodes2 chunkStage1_2 chunkNP2
  rw [List.length_map, length_flatMap_uniform_mesh _ _ (nz + 1) (by simp)]
  simp

theorem chunkNodes2_get (xmin xmax inner outer : R) (nx nz i j : Nat) (hi : i ≤ nx) (hj : j ≤ nz) :
    (chunkNodes2 xmin xmax inner outer nx nz)[(nz + 1) * i + j]? =
      some (chunkToCartesian2
        { x := xmin + (Scalar.nat (i + 1) - 1) * ((xmax - xmin) / Scalar.nat nx)
          y := 0
          z := inner + (Scalar.nat (j + 1) - 1) * ((outer - inner) / Scalar.nat nz)
          depth := (outer - inner) - (Scalar.nat (j + 1) - 1) * ((outer - inner) / Scalar.nat nz) }) := by
  unfold chunkNodes2 chunkStage1_2
  rw [List.getElem?_map, Nat.mul_comm (nz + 1) i,
    getElem?_flatMap_uniform _ _ (nz + 1) (by simp) i j (by omega),
    getElem?_range'_one _ _ (Nat.lt_succ_of_le hi)]
  simp [getElem?_range'_one _ _ (Nat.lt_succ_of_le hj)]

theorem chunkCells2_length (nx nz : Nat) : (chunkCells2 nx nz).length = chunkNCell2 nx nz := by
  unfold chunkCells2 chunkNCell2
  rw [length_flatMap_uniform_mesh _ _ nz (by simp)]
  simp

theorem chunkCells2_get (nx nz ci cj : Nat) (hi : ci < nx) (hj : cj < nz) :
    (chunkCells2 nx nz)[ci * nz + cj]? =
      some [(nz + 1) * ci + cj, (nz + 1) * ci + (cj + 1), (nz + 1) * (ci + 1) + (cj + 1), (nz + 1) * (ci + 1) + cj] := by
  unfold chunkCells2
  rw [getElem?_flatMap_uniform _ _ nz (by simp) ci cj hj, getElem?_range'_one _ _ hi]
  simp only [Option.bind_some, List.getElem?_map, getElem?_range'_one _ _ hj, Option.map_some, Nat.add_sub_cancel]
  refine congrArg some ?_
  simp only [List.cons.injEq, and_true, true_and]
  omega

theorem chunkCells2_in_range (nx nz : Nat) :
    ∀ cell ∈ chunkCells2 nx nz, cell.length = 4 ∧ ∀ e ∈ cell, e < chunkNP2 nx nz := by
  refine forall_mem_lattice _ nz nx (by rw [chunkCells2_length]; unfold chunkNCell2; ring) _ ?_
  intro cj ci hj hi cell hcell
  rw [chunkCells2_get nx nz ci cj hi hj] at hcell
  injection hcell with hcell
  subst hcell
  have e : chunkNP2 nx nz = (nx + 1) * (nz + 1) := by unfold chunkNP2; ring
  rw [e]
  refine ⟨rfl, ?_⟩
  simp only [List.mem_cons, List.not_mem_nil, or_false]
  rintro _ (rfl | rfl | rfl | rfl) <;> (rw [Nat.mul_comm (nz + 1)]; exact lattice_lt (by omega) (by omega))

/-! ## chunk 3-D -/

theorem chunkNodes3_length (xmin xmax ymin ymax inner outer : R) (nx ny nz : Nat) :
    (chunkNodes3 xmin xmax ymin ymax inner outer nx ny nz).length = chunkNP3 nx ny nz := by
  unfold chunkNodes3 chunkStage1_3 chunkNP3
  rw [List.length_map, length_flatMap3]
  simp; ring

theorem chunkNodes3_get (xmin xmax ymin ymax inner outer : R) (nx ny nz i j k : Nat)
    (hi : i ≤ nx) (hj : j ≤ ny) (hk : k ≤ nz) :
    (chunkNodes3 xmin xmax ymin ymax inner outer nx ny nz)[(ny + 1) * (nz + 1) * i + (nz + 1) * j + k]? =
      some (chunkToCartesian3
        { x := xmin + (Scalar.nat (i + 1) - 1) * ((xmax - xmin) / Scalar.nat nx)
          y := ymin + (Scalar.nat (j + 1) - 1) * ((ymax - ymin) / Scalar.nat ny)
          z := inner + (Scalar.nat (k + 1) - 1) * ((outer - inner) / Scalar.nat nz)
          depth := (outer - inner) - (Scalar.nat (k + 1) - 1) * ((outer - inner) / Scalar.nat nz) }) := by
  unfold chunkNodes3 chunkStage1_3
  have e : (ny + 1) * (nz + 1) * i + (nz + 1) * j + k
      = i * ((List.range' 1 (ny + 1)).length * (List.range' 1 (nz + 1)).length) + (j * (List.range' 1 (nz + 1)).length + k) := by
    simp only [List.length_range']; ring
  rw [List.getElem?_map, e, getElem?_flatMap3 _ _ _ _ i j k (by simp; omega) (by simp; omega),
    getElem?_range'_one _ _ (Nat.lt_succ_of_le hi), getElem?_range'_one _ _ (Nat.lt_succ_of_le hj),
    getElem?_range'_one _ _ (Nat.lt_succ_of_le hk)]
  simp

theorem chunkCells3_length (nx ny nz : Nat) : (chunkCells3 nx ny nz).length = chunkNCell3 nx ny nz := by
  rw [chunkCells3_eq, hexCells_length]; unfold chunkNCell3; ring

/-! ## annulus -/

theorem annulusNodes2_length (inner outer : R) (nt nz : Nat) :
    (annulusNodes2 inner outer nt nz).length = annulusNP2 nt nz := by
  unfold annulusNodes2 annulusStage1 annulusNP2
  rw [List.length_map, length_flatMap_uniform_mesh _ _ nt (by simp)]
  simp; ring

theorem annulusNodes2_get (inner outer : R) (nt nz i j : Nat) (hi : i < nt) (hj : j ≤ nz) :
    (annulusNodes2 inner outer nt nz)[j * nt + i]? =
      some (annulusToCartesian inner outer
        ((Scalar.nat (i + 1) - 1) * ((2 : R) * Scalar.pi * outer / Scalar.nat nt),
         Scalar.nat j * ((outer - inner) / Scalar.nat nz))) := by
  unfold annulusNodes2 annulusStage1
  rw [List.getElem?_map, getElem?_flatMap_uniform _ _ nt (by simp) j i hi]
  simp [Nat.lt_succ_of_le hj, getElem?_range'_one _ _ hi]

theorem annulusCells2_length (nt nz : Nat) : (annulusCells2 nt nz).length = annulusNCell2 nt nz := by
  unfold annulusCells2 annulusNCell2
  rw [List.length_map, List.length_zipIdx, length_flatMap_uniform_mesh _ _ nt (by simp)]
  simp; ring

/-- cell `(ci, cj)` of the annulus: the angular neighbour of column `nt - 1` is column `0` -/
theorem annulusCells2_get (nt nz ci cj : Nat) (hi : ci < nt) (hj : cj < nz) :
    (annulusCells2 nt nz)[cj * nt + ci]? =
      some [cj * nt + (ci + 1) % nt, cj * nt + ci, (cj + 1) * nt + ci, (cj + 1) * nt + (ci + 1) % nt] := by
  unfold annulusCells2
  simp only
  rw [List.getElem?_map, List.getElem?_zipIdx, getElem?_flatMap_uniform _ _ nt (by simp) cj ci hi,
    getElem?_range'_one _ _ hj]
  simp only [Option.bind_some, List.getElem?_map, getElem?_range'_one _ _ hi, Option.map_some, Nat.zero_add, annulusCell]
  refine congrArg some ?_
  by_cases h : ci + 1 = nt
  · subst h
    simp only [if_true, Nat.mod_self, List.cons.injEq, and_true]
    omega
  · have hm : (ci + 1) % nt = ci + 1 := Nat.mod_eq_of_lt (by omega)
    simp only [h, if_false, hm, List.cons.injEq, and_true]
    omega

theorem annulusCells2_in_range (nt nz : Nat) :
    ∀ cell ∈ annulusCells2 nt nz, cell.length = 4 ∧ ∀ e ∈ cell, e < annulusNP2 nt nz := by
  refine forall_mem_lattice _ nt nz (by rw [annulusCells2_length]; unfold annulusNCell2; ring) _ ?_
  intro ci cj hi hj cell hcell
  rw [annulusCells2_get nt nz ci cj hi hj] at hcell
  injection hcell with hcell
  subst hcell
  have e : annulusNP2 nt nz = (nz + 1) * nt := by unfold annulusNP2; ring
  rw [e]
  have hm : (ci + 1) % nt < nt := Nat.mod_lt _ (by omega)
  refine ⟨rfl, ?_⟩
  simp only [List.mem_cons, List.not_mem_nil, or_false]
  rintro _ (rfl | rfl | rfl | rfl) <;> exact lattice_lt (by omega) (by omega)

end
end Gwb
