/-
Helper lemmas and the declarative specification `Satisfies` for the JSON-Schema validator model (`Model/Parse/Schema.lean`).
-/
import GwbVerif.Model.Parse.Schema
namespace Gwb.Schema
open Lean

/-! ### depth -/

theorem depthMembers_lookup {kvs : List (String × J)} {k : String} {v : J} (h : kvs.lookup k = some v) :
    v.depth ≤ J.depthMembers kvs := by
  induction kvs with
  | nil => simp [List.lookup] at h
  | cons kv r ih =>
    obtain ⟨k', v'⟩ := kv
    simp only [List.lookup] at h
    simp only [J.depthMembers]
    split at h
    · cases h; exact Nat.le_max_left _ _
    · exact Nat.le_trans (ih h) (Nat.le_max_right _ _)

theorem depthList_mem {xs : List J} {a : J} (h : a ∈ xs) : a.depth ≤ J.depthList xs := by
  induction xs with
  | nil => cases h
  | cons x r ih =>
    simp only [J.depthList]
    cases h with
    | head => exact Nat.le_max_left _ _
    | tail _ h => exact Nat.le_trans (ih h) (Nat.le_max_right _ _)

theorem depth_get?_lt {s v : J} {k : String} (h : s.get? k = some v) : v.depth < s.depth := by
  cases s <;> simp only [J.get?] at h <;> try cases h
  simp only [J.depth]
  exact Nat.lt_succ_of_le (depthMembers_lookup h)

theorem depth_mem_lt {xs : List J} {a : J} (h : a ∈ xs) : a.depth < (J.arr xs).depth := by
  simp only [J.depth]
  exact Nat.lt_succ_of_le (depthList_mem h)

theorem depth_alt_lt {s a : J} {k : String} {alts : List J} (h : s.get? k = some (.arr alts)) (ha : a ∈ alts) :
    a.depth < s.depth := Nat.lt_trans (depth_mem_lt ha) (depth_get?_lt h)

theorem depth_propertySchema?_lt {s p : J} {k : String} (h : propertySchema? s k = some p) : p.depth < s.depth := by
  unfold propertySchema? at h
  cases hp : s.get? "properties" with
  | none => simp [hp] at h
  | some ps =>
    simp only [hp, Option.bind] at h
    exact Nat.lt_trans (depth_get?_lt h) (depth_get?_lt hp)

/-! ### equality -/

mutual
theorem J.beq_iff : ∀ a b : J, a.beq b = true ↔ a = b
  | .null, b => by cases b <;> simp [J.beq]
  | .bool x, b => by cases b <;> simp [J.beq]
  | .num x, b => by cases b <;> simp [J.beq]
  | .str x, b => by cases b <;> simp [J.beq]
  | .arr x, b => by
    cases b <;> simp only [J.beq, J.arr.injEq] <;> try simp
    exact J.beqList_iff x _
  | .obj x, b => by
    cases b <;> simp only [J.beq, J.obj.injEq] <;> try simp
    exact J.beqMembers_iff x _
theorem J.beqList_iff : ∀ a b : List J, J.beqList a b = true ↔ a = b
  | [], [] => by simp [J.beqList]
  | [], _ :: _ => by simp [J.beqList]
  | _ :: _, [] => by simp [J.beqList]
  | x :: xs, y :: ys => by
    simp only [J.beqList, Bool.and_eq_true, List.cons.injEq]
    exact and_congr (J.beq_iff x y) (J.beqList_iff xs ys)
theorem J.beqMembers_iff : ∀ a b : List (String × J), J.beqMembers a b = true ↔ a = b
  | [], [] => by simp [J.beqMembers]
  | [], _ :: _ => by simp [J.beqMembers]
  | _ :: _, [] => by simp [J.beqMembers]
  | (k, x) :: xs, (l, y) :: ys => by
    simp only [J.beqMembers, Bool.and_eq_true, List.cons.injEq, Prod.mk.injEq, beq_iff_eq]
    exact and_congr (and_congr Iff.rfl (J.beq_iff x y)) (J.beqMembers_iff xs ys)
end

theorem beq_iff_eq' (a b : J) : (a == b) = true ↔ a = b := J.beq_iff a b

instance : LawfulBEq J where
  eq_of_beq h := (beq_iff_eq' _ _).1 h
  rfl := (beq_iff_eq' _ _).2 rfl


/-! ### the specification

`Satisfies schema doc` is written from the JSON-Schema draft-04 validation text, keyword by keyword, for the keyword subset of the
declarations file, with rapidjson's reading of malformed keyword values (a keyword whose value has the wrong JSON type is ignored,
except `type`) and the two deviations of the shipped rapidjson from draft-04 spelled out (`IsRequired` names count as declared
properties; `HasDefault` excuses a missing required property).  It shares with the validator only the accessors `J.get?` and
`propertySchema?`. -/

/-- the number literal is an integer for rapidjson's reader: no fraction/exponent digits and within `int64 ∪ uint64` -/
def IsIntegerLiteral (n : JsonNumber) : Prop := n.exponent = 0 ∧ -(2 ^ 63 : Int) ≤ n.mantissa ∧ n.mantissa < (2 ^ 64 : Int)

/-- `HasType name value`: the draft-04 primitive types; an integer literal has both the types `integer` and `number` -/
inductive HasType : String → J → Prop
  | null : HasType "null" .null
  | boolean (b : Bool) : HasType "boolean" (.bool b)
  | object (ms : List (String × J)) : HasType "object" (.obj ms)
  | array (xs : List J) : HasType "array" (.arr xs)
  | string (t : String) : HasType "string" (.str t)
  | number (n : JsonNumber) : HasType "number" (.num n)
  | integer (n : JsonNumber) : IsIntegerLiteral n → HasType "integer" (.num n)

/-- `type`: when present, the value has one of the named types (`type` may be one name or an array of names) -/
def TypeClause (s d : J) : Prop :=
  ∀ t, s.get? "type" = some t → ∃ name, HasType name d ∧ (t = .str name ∨ ∃ ts, t = .arr ts ∧ J.str name ∈ ts)

/-- `enum`: when it is a non-empty array, the value is one of its entries -/
def EnumClause (s d : J) : Prop :=
  ∀ vs, s.get? "enum" = some (.arr vs) → vs ≠ [] → d ∈ vs

/-- `k` is one of the strings of the array `required` -/
def IsRequired (s : J) (k : String) : Prop := ∃ names, s.get? "required" = some (.arr names) ∧ J.str k ∈ names

/-- the schema of property `k` carries a non-empty string `default` (world-builder patch of rapidjson's `EndObject`) -/
def HasDefault (s : J) (k : String) : Prop :=
  ∃ p t, propertySchema? s k = some p ∧ p.get? "default" = some (.str t) ∧ t ≠ ""

/-- the keyword value is an unsigned integer literal `n` that fits rapidjson's 32-bit `SizeType` -/
def IsSize (o : Option J) (n : Nat) : Prop :=
  ∃ m : JsonNumber, o = some (.num m) ∧ m.exponent = 0 ∧ m.mantissa = (n : Int) ∧ n < 2 ^ 32

/-- **the specification** of "document `d` is valid against schema `s`" -/
def Satisfies (s d : J) : Prop :=
  TypeClause s d ∧ EnumClause s d ∧
  -- anyOf: valid against at least one entry
  (∀ alts, s.get? "anyOf" = some (.arr alts) → alts ≠ [] → ∃ a, ∃ _ : a ∈ alts, Satisfies a d) ∧
  -- oneOf: valid against exactly one entry (entries counted by position)
  (∀ alts, s.get? "oneOf" = some (.arr alts) → alts ≠ [] →
    ∃ i, ∃ h : i < alts.length, Satisfies alts[i] d ∧ ∀ j, ∀ hj : j < alts.length, Satisfies alts[j] d → j = i) ∧
  -- objects
  (∀ ms, d = .obj ms →
    -- required: every required name is a member (or is excused by a `default`)
    (∀ k, IsRequired s k → (∃ v, (k, v) ∈ ms) ∨ HasDefault s k) ∧
    (∀ k v, (k, v) ∈ ms →
      -- properties: a member with a declared name is valid against the declared schema
      (∀ p, propertySchema? s k = some p → Satisfies p v) ∧
      -- additionalProperties false: no other names (names listed in `required` count as declared)
      (propertySchema? s k = none → s.get? "additionalProperties" = some (.bool false) → IsRequired s k))) ∧
  -- arrays
  (∀ xs, d = .arr xs →
    (∀ it, s.get? "items" = some (.obj it) → ∀ x, x ∈ xs → Satisfies (.obj it) x) ∧
    (∀ n, IsSize (s.get? "minItems") n → n ≤ xs.length) ∧
    (∀ n, IsSize (s.get? "maxItems") n → xs.length ≤ n) ∧
    (s.get? "uniqueItems" = some (.bool true) → xs.Nodup))
termination_by s.depth
decreasing_by
  · exact depth_alt_lt ‹_› ‹_›
  · exact depth_alt_lt ‹_› (List.getElem_mem _)
  · exact depth_alt_lt ‹_› (List.getElem_mem _)
  · exact depth_propertySchema?_lt ‹_›
  · exact depth_get?_lt ‹_›


/-! ### list lemmas -/

theorem countP_eq_one_iff {α : Type} (p : α → Bool) : ∀ l : List α, l.countP p = 1 ↔
    ∃ i, ∃ h : i < l.length, p l[i] = true ∧ ∀ j, ∀ hj : j < l.length, p l[j] = true → j = i
  | [] => by simp
  | a :: l => by
    have ih := countP_eq_one_iff p l
    rw [List.countP_cons]
    cases hpa : p a with
    | true =>
      simp only [if_true]
      constructor
      · intro h
        have h0 : l.countP p = 0 := by omega
        rw [List.countP_eq_zero] at h0
        refine ⟨0, Nat.zero_lt_succ _, by simpa using hpa, ?_⟩
        intro j hj hpj
        cases j with
        | zero => rfl
        | succ j =>
          exfalso
          simp only [List.getElem_cons_succ] at hpj
          exact h0 _ (List.getElem_mem _) hpj
      · rintro ⟨i, hi, hpi, huniq⟩
        have hi0 : i = 0 := (huniq 0 (Nat.zero_lt_succ _) (by simpa using hpa)).symm
        subst hi0
        have : l.countP p = 0 := by
          rw [List.countP_eq_zero]
          intro x hx hpx
          obtain ⟨j, hj, rfl⟩ := List.getElem_of_mem hx
          have := huniq (j+1) (Nat.succ_lt_succ hj) (by simpa using hpx)
          omega
        omega
    | false =>
      simp only [Bool.false_eq_true, if_false, Nat.add_zero]
      rw [ih]
      constructor
      · rintro ⟨i, hi, hpi, huniq⟩
        refine ⟨i+1, Nat.succ_lt_succ hi, by simpa using hpi, ?_⟩
        intro j hj hpj
        cases j with
        | zero => simp [hpa] at hpj
        | succ j =>
          simp only [List.getElem_cons_succ] at hpj
          have := huniq j (Nat.lt_of_succ_lt_succ hj) hpj
          omega
      · rintro ⟨i, hi, hpi, huniq⟩
        cases i with
        | zero => simp [hpa] at hpi
        | succ i =>
          refine ⟨i, Nat.lt_of_succ_lt_succ hi, by simpa using hpi, ?_⟩
          intro j hj hpj
          have := huniq (j+1) (Nat.succ_lt_succ hj) (by simpa using hpj)
          omega

/-- `countP … = 1` against a `Prop`-valued reading of the predicate on the members of the list -/
theorem countP_eq_one_iff' {α : Type} (p : α → Bool) (q : α → Prop) (l : List α) (hpq : ∀ x, x ∈ l → (p x = true ↔ q x)) :
    l.countP p = 1 ↔ ∃ i, ∃ h : i < l.length, q l[i] ∧ ∀ j, ∀ hj : j < l.length, q l[j] → j = i := by
  rw [countP_eq_one_iff]
  constructor
  · rintro ⟨i, hi, hpi, huniq⟩
    exact ⟨i, hi, (hpq _ (List.getElem_mem _)).1 hpi, fun j hj hq => huniq j hj ((hpq _ (List.getElem_mem _)).2 hq)⟩
  · rintro ⟨i, hi, hpi, huniq⟩
    exact ⟨i, hi, (hpq _ (List.getElem_mem _)).2 hpi, fun j hj hq => huniq j hj ((hpq _ (List.getElem_mem _)).1 hq)⟩

theorem allDistinct_iff : ∀ xs : List J, allDistinct xs = true ↔ xs.Nodup
  | [] => by simp [allDistinct]
  | x :: xs => by
    simp only [allDistinct, Bool.and_eq_true, Bool.not_eq_true', List.nodup_cons, allDistinct_iff xs]
    refine and_congr ?_ Iff.rfl
    rw [← Bool.not_eq_true, List.any_eq_true]
    constructor
    · intro h hx; exact h ⟨x, hx, by simp⟩
    · rintro h ⟨y, hy, hyx⟩; rw [beq_iff_eq] at hyx; subst hyx; exact h hy

/-! ### the non-recursive keywords -/

@[simp] theorem get?_null (k : String) : J.get? .null k = none := rfl
@[simp] theorem get?_bool (b : Bool) (k : String) : J.get? (.bool b) k = none := rfl
@[simp] theorem get?_num (n : JsonNumber) (k : String) : J.get? (.num n) k = none := rfl
@[simp] theorem get?_str (t : String) (k : String) : J.get? (.str t) k = none := rfl
@[simp] theorem get?_arr (xs : List J) (k : String) : J.get? (.arr xs) k = none := rfl

theorem isIntLit_iff (n : JsonNumber) : isIntLit n = true ↔ IsIntegerLiteral n := by
  simp [isIntLit, IsIntegerLiteral, and_assoc]

theorem typeNameAdmits_iff (t : String) (d : J) : typeNameAdmits t d = true ↔ HasType t d := by
  cases d with
  | null => simp only [typeNameAdmits, beq_iff_eq]; exact ⟨fun h => h ▸ .null, fun h => by cases h; rfl⟩
  | bool b => simp only [typeNameAdmits, beq_iff_eq]; exact ⟨fun h => h ▸ .boolean b, fun h => by cases h; rfl⟩
  | str x => simp only [typeNameAdmits, beq_iff_eq]; exact ⟨fun h => h ▸ .string x, fun h => by cases h; rfl⟩
  | arr x => simp only [typeNameAdmits, beq_iff_eq]; exact ⟨fun h => h ▸ .array x, fun h => by cases h; rfl⟩
  | obj x => simp only [typeNameAdmits, beq_iff_eq]; exact ⟨fun h => h ▸ .object x, fun h => by cases h; rfl⟩
  | num n =>
    simp only [typeNameAdmits, Bool.or_eq_true, Bool.and_eq_true, beq_iff_eq, isIntLit_iff]
    constructor
    · rintro (h | ⟨h, hn⟩)
      · exact h ▸ .number n
      · exact h ▸ .integer n hn
    · intro h
      cases h with
      | number => exact .inl rfl
      | integer _ hn => exact .inr ⟨rfl, hn⟩

theorem not_hasType_of {t : String} {d : J} (h : typeNameAdmits t d = false) : ¬ HasType t d := by
  rw [← typeNameAdmits_iff, h]; exact Bool.false_ne_true

theorem typeOK_iff (s d : J) : typeOK s d = true ↔ TypeClause s d := by
  unfold typeOK TypeClause
  cases hg : s.get? "type" with
  | none => simp
  | some t =>
    cases t with
    | str name =>
      simp only [typeNameAdmits_iff]
      constructor
      · intro h t ht; cases ht; exact ⟨name, h, .inl rfl⟩
      · intro h
        obtain ⟨name', hty, h' | ⟨ts, h', _⟩⟩ := h _ rfl
        · cases h'; exact hty
        · cases h'
    | arr ts =>
      simp only [List.any_eq_true]
      constructor
      · rintro ⟨x, hx, hfx⟩ t ht
        cases ht
        cases x with
        | str name => exact ⟨name, (typeNameAdmits_iff _ _).1 hfx, .inr ⟨ts, rfl, hx⟩⟩
        | _ => cases hfx
      · intro h
        obtain ⟨name, hty, h' | ⟨ts', h', hmem⟩⟩ := h _ rfl
        · cases h'
        · cases h'; exact ⟨.str name, hmem, (typeNameAdmits_iff _ _).2 hty⟩
    | null | bool _ | num _ | obj _ =>
      simp only [Bool.false_eq_true, false_iff]
      intro h
      obtain ⟨name, _, h' | ⟨ts', h', _⟩⟩ := h _ rfl <;> cases h'

theorem enumOK_iff (s d : J) : enumOK s d = true ↔ EnumClause s d := by
  unfold enumOK EnumClause
  cases hg : s.get? "enum" with
  | none => simp
  | some t =>
    cases t with
    | arr vs =>
      cases vs with
      | nil => simp
      | cons e es =>
        simp only [List.any_eq_true, beq_iff_eq]
        constructor
        · rintro ⟨x, hx, rfl⟩ vs hvs _; cases hvs; exact hx
        · intro h; exact ⟨d, h _ rfl (by simp), rfl⟩
    | _ => simp

theorem uintOf?_iff (o : Option J) (n : Nat) : uintOf? o = some n ↔ IsSize o n := by
  unfold uintOf? IsSize
  cases o with
  | none => simp
  | some t =>
    cases t with
    | num m =>
      simp only [Bool.and_eq_true, beq_iff_eq, decide_eq_true_eq, Option.some.injEq, J.num.injEq, exists_eq_left']
      constructor
      · intro h
        split at h
        · rename_i hc
          cases h
          obtain ⟨⟨h1, h2⟩, h3⟩ := hc
          refine ⟨h1, by omega, ?_⟩
          have : ((m.mantissa.toNat : Nat) : Int) < 2 ^ 32 := by omega
          exact_mod_cast this
        · cases h
      · rintro ⟨h1, h2, h3⟩
        have h3' : (n : Int) < 2 ^ 32 := by exact_mod_cast h3
        rw [if_pos ⟨⟨h1, by omega⟩, by omega⟩]
        congr 1; omega
    | _ => simp

theorem mem_requiredNames (s : J) (k : String) : k ∈ requiredNames s ↔ IsRequired s k := by
  unfold requiredNames IsRequired
  cases hg : s.get? "required" with
  | none => simp
  | some t =>
    cases t with
    | arr names =>
      simp only [List.mem_filterMap, Option.some.injEq, J.arr.injEq, exists_eq_left']
      constructor
      · rintro ⟨x, hx, hfx⟩
        cases x with
        | str k' => simp only [Option.some.injEq] at hfx; subst hfx; exact hx
        | _ => cases hfx
      · intro h; exact ⟨_, h, rfl⟩
    | _ => simp

theorem forbidsAdditional_iff (s : J) : forbidsAdditional s = true ↔ s.get? "additionalProperties" = some (.bool false) := by
  unfold forbidsAdditional
  cases hg : s.get? "additionalProperties" with
  | none => simp
  | some t =>
    cases t with
    | bool b => cases b <;> simp
    | _ => simp

theorem hasDefault_iff (s : J) (k : String) : hasDefault s k = true ↔ HasDefault s k := by
  unfold hasDefault HasDefault
  cases hp : propertySchema? s k with
  | none => simp
  | some p =>
    simp only [Option.bind, Option.some.injEq, exists_and_left, exists_eq_left']
    cases hg : p.get? "default" with
    | none => simp
    | some t =>
      cases t with
      | str x => simp
      | _ => simp

theorem requiredOK_iff (s : J) (ms : List (String × J)) :
    requiredOK s ms = true ↔ ∀ k, IsRequired s k → (∃ v, (k, v) ∈ ms) ∨ HasDefault s k := by
  unfold requiredOK
  simp only [List.all_eq_true, Bool.or_eq_true, mem_requiredNames, hasDefault_iff, List.any_eq_true, beq_iff_eq]
  refine forall_congr' fun k => imp_congr Iff.rfl (or_congr ?_ Iff.rfl)
  constructor
  · rintro ⟨⟨k', v⟩, hm, rfl⟩; exact ⟨v, hm⟩
  · rintro ⟨v, hm⟩; exact ⟨(k, v), hm, rfl⟩

theorem arrayShapeOK_iff (s : J) (xs : List J) :
    arrayShapeOK s xs = true ↔
      (∀ n, IsSize (s.get? "minItems") n → n ≤ xs.length) ∧ (∀ n, IsSize (s.get? "maxItems") n → xs.length ≤ n) ∧
      (s.get? "uniqueItems" = some (.bool true) → xs.Nodup) := by
  unfold arrayShapeOK
  simp only [Bool.and_eq_true, and_assoc]
  refine and_congr ?_ (and_congr ?_ ?_)
  · cases h : uintOf? (s.get? "minItems") with
    | none =>
      simp only [true_iff]
      intro n hn; rw [← uintOf?_iff, h] at hn; cases hn
    | some n =>
      simp only [decide_eq_true_eq]
      constructor
      · intro hle n' hn'; rw [← uintOf?_iff, h] at hn'; cases hn'; exact hle
      · intro hall; exact hall n ((uintOf?_iff _ _).1 h)
  · cases h : uintOf? (s.get? "maxItems") with
    | none =>
      simp only [true_iff]
      intro n hn; rw [← uintOf?_iff, h] at hn; cases hn
    | some n =>
      simp only [decide_eq_true_eq]
      constructor
      · intro hle n' hn'; rw [← uintOf?_iff, h] at hn'; cases hn'; exact hle
      · intro hall; exact hall n ((uintOf?_iff _ _).1 h)
  · cases hg : s.get? "uniqueItems" with
    | none => simp
    | some t =>
      cases t with
      | bool b => cases b <;> simp [allDistinct_iff]
      | _ => simp

/-! ### the keywords that apply sub-schemas -/

theorem anyOfOK_iff (s : J) (ok : J → Bool) (P : J → Prop)
    (h : ∀ alts a, s.get? "anyOf" = some (.arr alts) → a ∈ alts → (ok a = true ↔ P a)) :
    anyOfOK s ok = true ↔ ∀ alts, s.get? "anyOf" = some (.arr alts) → alts ≠ [] → ∃ a, ∃ _ : a ∈ alts, P a := by
  unfold anyOfOK
  cases hg : s.get? "anyOf" with
  | none => simp
  | some t =>
    cases t with
    | arr alts =>
      cases alts with
      | nil => simp
      | cons e es =>
        simp only [List.any_eq_true]
        constructor
        · rintro ⟨x, hx, hfx⟩ alts halts _
          cases halts
          exact ⟨x, hx, (h _ x hg hx).1 hfx⟩
        · intro hall
          obtain ⟨a, ha, hPa⟩ := hall _ rfl (by simp)
          exact ⟨a, ha, (h _ a hg ha).2 hPa⟩
    | _ => simp

theorem oneOfOK_iff (s : J) (ok : J → Bool) (P : J → Prop)
    (h : ∀ alts a, s.get? "oneOf" = some (.arr alts) → a ∈ alts → (ok a = true ↔ P a)) :
    oneOfOK s ok = true ↔ ∀ alts, s.get? "oneOf" = some (.arr alts) → alts ≠ [] →
      ∃ i, ∃ hi : i < alts.length, P alts[i] ∧ ∀ j, ∀ hj : j < alts.length, P alts[j] → j = i := by
  unfold oneOfOK
  cases hg : s.get? "oneOf" with
  | none => simp
  | some t =>
    cases t with
    | arr alts =>
      cases alts with
      | nil => simp
      | cons e es =>
        simp only [beq_iff_eq]
        rw [countP_eq_one_iff' ok P (e :: es) (fun x hx => h _ x hg hx)]
        constructor
        · intro hex alts halts _; cases halts; exact hex
        · intro hall; exact hall _ rfl (by simp)
    | _ => simp

theorem membersOK_iff (s : J) (ok : J → J → Bool) (P : J → J → Prop) (ms : List (String × J))
    (h : ∀ k p v, propertySchema? s k = some p → (ok p v = true ↔ P p v)) :
    membersOK s ok ms = true ↔ ∀ k v, (k, v) ∈ ms →
      (∀ p, propertySchema? s k = some p → P p v) ∧
      (propertySchema? s k = none → s.get? "additionalProperties" = some (.bool false) → IsRequired s k) := by
  unfold membersOK
  simp only [List.all_eq_true, Prod.forall]
  refine forall_congr' fun k => forall_congr' fun v => imp_congr Iff.rfl ?_
  cases hp : propertySchema? s k with
  | none =>
    simp only [Bool.or_eq_true, List.contains_iff_mem, mem_requiredNames, Bool.not_eq_true', ← forbidsAdditional_iff]
    constructor
    · rintro (hr | hf)
      · exact ⟨fun p hp' => (by cases hp'), fun _ _ => hr⟩
      · exact ⟨fun p hp' => (by cases hp'), fun _ hf' => (by rw [hf] at hf'; cases hf')⟩
    · rintro ⟨_, himp⟩
      cases hf : forbidsAdditional s with
      | false => exact .inr rfl
      | true => exact .inl (himp trivial hf)
  | some p =>
    simp only [h k p v hp]
    constructor
    · intro hP; exact ⟨fun p' hp' => (by cases hp'; exact hP), fun hn => (by cases hn)⟩
    · intro hall; exact hall.1 p rfl

theorem itemsOK_iff (s : J) (ok : J → J → Bool) (P : J → J → Prop) (xs : List J)
    (h : ∀ it x, s.get? "items" = some (.obj it) → (ok (.obj it) x = true ↔ P (.obj it) x)) :
    itemsOK s ok xs = true ↔ ∀ it, s.get? "items" = some (.obj it) → ∀ x, x ∈ xs → P (.obj it) x := by
  unfold itemsOK
  cases hg : s.get? "items" with
  | none => simp
  | some t =>
    cases t with
    | obj it =>
      simp only [List.all_eq_true, Option.some.injEq, J.obj.injEq]
      constructor
      · intro hall it' hit' x hx; cases hit'; exact (h it x hg).1 (hall x hx)
      · intro hall x hx; exact (h it x hg).2 (hall it rfl x hx)
    | _ => simp

/-! ### validator ↔ specification -/

theorem satisfies_of_not_obj {s : J} (hs : ∀ kvs, s ≠ .obj kvs) (d : J) : Satisfies s d := by
  have hg : ∀ k, s.get? k = none := by
    intro k; cases s <;> first | rfl | exact absurd rfl (hs _)
  have hp : ∀ k, propertySchema? s k = none := by intro k; simp [propertySchema?, hg]
  rw [Satisfies]
  simp [TypeClause, EnumClause, IsRequired, IsSize, hg, hp]

theorem validate_iff_satisfies : ∀ (fuel : Nat) (s d : J), s.depth < fuel → (validate fuel s d = true ↔ Satisfies s d)
  | 0, _, _, h => absurd h (Nat.not_lt_zero _)
  | fuel + 1, s, d, h => by
    have IH : ∀ s' d', s'.depth < s.depth → (validate fuel s' d' = true ↔ Satisfies s' d') :=
      fun s' d' hs' => validate_iff_satisfies fuel s' d' (by omega)
    cases s with
    | obj kvs =>
      rw [Satisfies]
      simp only [validate, Bool.and_eq_true, and_assoc]
      refine and_congr (typeOK_iff _ _) (and_congr (enumOK_iff _ _) (and_congr ?_ (and_congr ?_ ?_)))
      · exact anyOfOK_iff _ _ (fun a => Satisfies a d) (fun alts a hg ha => IH a d (depth_alt_lt hg ha))
      · exact oneOfOK_iff _ _ (fun a => Satisfies a d) (fun alts a hg ha => IH a d (depth_alt_lt hg ha))
      · cases d with
        | obj ms =>
          simp only [Bool.and_eq_true, J.obj.injEq, forall_eq', reduceCtorEq, false_imp_iff, implies_true, and_true]
          exact and_congr (requiredOK_iff _ _)
            (membersOK_iff _ _ Satisfies ms (fun k p v hp => IH p v (depth_propertySchema?_lt hp)))
        | arr xs =>
          simp only [Bool.and_eq_true, J.arr.injEq, forall_eq', reduceCtorEq, false_imp_iff, implies_true, true_and]
          rw [arrayShapeOK_iff, itemsOK_iff _ _ Satisfies xs (fun it x hg => IH _ x (depth_get?_lt hg))]
          constructor
          · rintro ⟨⟨h1, h2, h3⟩, h4⟩; exact ⟨h4, h1, h2, h3⟩
          · rintro ⟨h4, h1, h2, h3⟩; exact ⟨⟨h1, h2, h3⟩, h4⟩
        | null | bool _ | num _ | str _ => simp
    | null | bool _ | num _ | str _ | arr _ =>
      simp only [validate, true_iff]
      exact satisfies_of_not_obj (by intro kvs hk; cases hk) d

/-! ### what an accepting run has checked, whatever the fuel -/

theorem isObj_of_get? {s t : J} {k : String} (h : s.get? k = some t) : ∃ kvs, s = .obj kvs := by
  cases s <;> first | cases h | exact ⟨_, rfl⟩

/-- the non-recursive checks an accepting run of an object schema has passed (any fuel) -/
theorem validate_true_parts {fuel : Nat} {kvs : List (String × J)} {d : J} (h : validate fuel (.obj kvs) d = true) :
    TypeClause (.obj kvs) d ∧ EnumClause (.obj kvs) d ∧
    (∀ ms, d = .obj ms → ∃ ok, requiredOK (.obj kvs) ms = true ∧ membersOK (.obj kvs) ok ms = true ∧
        ∀ p v, ok p v = true → ∃ f, fuel = f + 1 ∧ validate f p v = true) ∧
    (∀ xs, d = .arr xs → ∃ ok, arrayShapeOK (.obj kvs) xs = true ∧ itemsOK (.obj kvs) ok xs = true ∧
        ∀ p v, ok p v = true → ∃ f, fuel = f + 1 ∧ validate f p v = true) := by
  cases fuel with
  | zero => simp [validate] at h
  | succ f =>
    simp only [validate, Bool.and_eq_true, and_assoc] at h
    obtain ⟨h1, h2, _, _, h5⟩ := h
    refine ⟨(typeOK_iff _ _).1 h1, (enumOK_iff _ _).1 h2, ?_, ?_⟩
    · intro ms hd; subst hd
      simp only [Bool.and_eq_true] at h5
      exact ⟨validate f, h5.1, h5.2, fun p v hv => ⟨f, rfl, hv⟩⟩
    · intro xs hd; subst hd
      simp only [Bool.and_eq_true] at h5
      exact ⟨validate f, h5.1, h5.2, fun p v hv => ⟨f, rfl, hv⟩⟩

end Gwb.Schema
