/-
Helper vocabulary and lemmas for C10 (sections of slabs and faults): the interpolation `lerp`, the named interpolated quantities of
`LineFeature.coversBody` / `linePaintAt`, the factorisation of `coversBody` into "geometry → read two sections → decide", the
locality of `distancePointFromCurvedPlanes` in `lengths` / `angles`, and the inheritance lemmas about `resolveModels`,
`parseSegment`, `parseSegments`, `parseLine`.
-/
import GwbVerif.Model.Parse.Json
import GwbVerif.Proofs.FieldScalar
namespace Gwb
open Scalar
set_option linter.unusedSectionVars false

/-! ## 1. `lerp` -/

section lerp
variable {R : Type} [Scalar R]

/-- the interpolation every section quantity goes through: `a + f*(b − a)` (subducting_plate.cc:556-594, 644, 689, 727-739) -/
@[inline] def lerp (a b f : R) : R := a + f * (b - a)

end lerp

section lerpField
variable {F : Type} [Field F] [LinearOrder F] [IsStrictOrderedRing F] (T : Transc F)

theorem lerp_field (a b f : F) : @lerp F (fieldScalar T) a b f = a + f * (b - a) := rfl

/-- `lerp` is the convex combination `(1−f)·a + f·b` -/
theorem lerp_convex_form (a b f : F) : @lerp F (fieldScalar T) a b f = (1 - f) * a + f * b := by
  rw [lerp_field]; ring

theorem lerp_at_zero (a b : F) : @lerp F (fieldScalar T) a b 0 = a := by
  rw [lerp_field]; ring

theorem lerp_at_one (a b : F) : @lerp F (fieldScalar T) a b 1 = b := by
  rw [lerp_field]; ring

/-- for `0 ≤ f ≤ 1` the interpolated value lies between the two end values -/
theorem lerp_within (a b f : F) (h0 : 0 ≤ f) (h1 : f ≤ 1) :
    min a b ≤ @lerp F (fieldScalar T) a b f ∧ @lerp F (fieldScalar T) a b f ≤ max a b := by
  rw [lerp_field]
  rcases le_total a b with h | h
  · rw [min_eq_left h, max_eq_right h]
    constructor
    · nlinarith [mul_nonneg h0 (sub_nonneg.mpr h)]
    · nlinarith [mul_nonneg (sub_nonneg.mpr h1) (sub_nonneg.mpr h)]
  · rw [min_eq_right h, max_eq_left h]
    constructor
    · nlinarith [mul_nonneg (sub_nonneg.mpr h1) (sub_nonneg.mpr h)]
    · nlinarith [mul_nonneg h0 (sub_nonneg.mpr h)]

/-- two equal end values: the interpolation is that value whatever the fraction (no hypothesis on `f`) -/
theorem lerp_same (a f : F) : @lerp F (fieldScalar T) a a f = a := by
  rw [lerp_field]; ring

/-- outside `[0,1]` the value leaves the interval: the bound really needs the hypothesis on `f` -/
theorem lerp_extrapolates (a b f : F) (hab : a < b) (hf : 1 < f) : b < @lerp F (fieldScalar T) a b f := by
  rw [lerp_field]
  nlinarith [mul_pos (sub_pos.mpr hf) (sub_pos.mpr hab)]

end lerpField

/-! ## 2. the named interpolated quantities of `coversBody`, and its factorisation -/

section covers
variable {R : Type} [Scalar R]

/-- `thickness_up` (subducting_plate.cc:556): thickness at the top of the segment, interpolated between the two sections -/
def Segment.secThUp (cur next : Segment R) (sf : R) : R := lerp cur.thickness.x next.thickness.x sf
/-- `thickness_down` -/
def Segment.secThDown (cur next : Segment R) (sf : R) : R := lerp cur.thickness.y next.thickness.y sf
/-- `thickness_local`: interpolated along the segment -/
def Segment.secThLocal (cur next : Segment R) (sf gf : R) : R := lerp (Segment.secThUp cur next sf) (Segment.secThDown cur next sf) gf
/-- `top_truncation_up` -/
def Segment.secTtUp (cur next : Segment R) (sf : R) : R := lerp cur.topTruncation.x next.topTruncation.x sf
/-- `top_truncation_down` -/
def Segment.secTtDown (cur next : Segment R) (sf : R) : R := lerp cur.topTruncation.y next.topTruncation.y sf
/-- `top_truncation_local` -/
def Segment.secTtLocal (cur next : Segment R) (sf gf : R) : R := lerp (Segment.secTtUp cur next sf) (Segment.secTtDown cur next sf) gf
/-- `max_slab_length` / `max_fault_length`: total length, interpolated between the two sections -/
def sectionsMaxLen (secCur secNext : List (Segment R)) (sf : R) : R := lerp (sectionLength secCur) (sectionLength secNext) sf

/-- the hit an accepted point gets: the geometry result, segment `pd.segment` of the two adjacent sections, and the
`Features::AdditionalParameters{max_slab_length, thickness_local}` the membership test computed on the way -/
def hitOf (pd : PlaneDist R) (secCur secNext : List (Segment R)) (cur next : Segment R) : LineHit R :=
  ⟨pd, cur, next, ⟨sectionsMaxLen secCur secNext pd.fractionOfSection,
                   Segment.secThLocal cur next pd.fractionOfSection pd.fractionOfSegment⟩⟩

/-- the membership decision of `coversBody` once the geometry result `pd` and the data of the two adjacent sections are known -/
def coversDecide (isFault : Bool) (pd : PlaneDist R) (secCur secNext : List (Segment R)) (cur next : Segment R) :
    Option (LineHit R) :=
  let sf := pd.fractionOfSection
  let gf := pd.fractionOfSegment
  let thLocal := Segment.secThLocal cur next sf gf
  if fabs thLocal < (2.0 : R) * Scalar.eps then none
  else
    let ttLocal := Segment.secTtLocal cur next sf gf
    if thLocal < ttLocal then none
    else
      let maxLen := sectionsMaxLen secCur secNext sf
      let d := pd.distanceFromPlane
      let a := pd.distanceAlongPlane
      let inside :=
        if isFault then decide (fabs d ≤ thLocal * (0.5 : R)) && decide (a > 0) && decide (a ≤ maxLen)
        else decide (d ≥ ttLocal) && decide (d ≤ thLocal) && decide (a ≥ 0) && decide (a ≤ maxLen)
      if inside then some ⟨pd, cur, next, ⟨maxLen, thLocal⟩⟩ else none

/-- everything `coversBody` does after the geometry: the sentinel test, reading sections `pd.sectionIdx` and `pd.sectionIdx + 1`
(and in them segment `pd.segment`), and the decision -/
def readAndDecide (sections : List (List (Segment R))) (isFault : Bool) (pd : PlaneDist R) : Except Err (Option (LineHit R)) :=
  if !(fabs pd.distanceFromPlane < Scalar.inf ∨ pd.distanceAlongPlane < Scalar.inf) then .ok none
  else do
    let secCur ← idx sections pd.sectionIdx
    let secNext ← idx sections (pd.sectionIdx + 1)
    let cur ← idx secCur pd.segment
    let next ← idx secNext pd.segment
    return coversDecide isFault pd secCur secNext cur next

/-- `coversBody` = geometry, then `readAndDecide` -/
theorem coversBody_eq (f : LineFeature R) (ctx : Ctx R) (q : Query R) :
    f.coversBody ctx q =
      (distancePointFromCurvedPlanes ctx.coord q.pt q.nat f.reference f.coords f.lengths f.anglesRad
        (depthCoordinate ctx.coord.spherical q.nat + q.depth - f.minDepth) f.isFault f.bezier) >>=
      readAndDecide f.sections f.isFault := by
  unfold LineFeature.coversBody readAndDecide coversDecide
  simp only [bind, Except.bind, pure, Except.pure]
  generalize distancePointFromCurvedPlanes ctx.coord q.pt q.nat f.reference f.coords f.lengths f.anglesRad
        (depthCoordinate ctx.coord.spherical q.nat + q.depth - f.minDepth) f.isFault f.bezier = r
  cases r with
  | error e => rfl
  | ok pd =>
    simp only
    split
    · rfl
    · cases idx f.sections pd.sectionIdx with
      | error e => rfl
      | ok secCur =>
      dsimp only
      cases idx f.sections (pd.sectionIdx + 1) with
      | error e => rfl
      | ok secNext =>
      dsimp only
      cases idx secCur pd.segment with
      | error e => rfl
      | ok cur =>
      dsimp only
      cases idx secNext pd.segment with
      | error e => rfl
      | ok next =>
      simp only [apply_ite (@Except.ok Err (Option (LineHit R)))]
      rfl

/-- an accepted point carries the geometry result and the two segments it was decided with -/
theorem coversDecide_some (isFault : Bool) (pd : PlaneDist R) (secCur secNext : List (Segment R)) (cur next : Segment R)
    (hit : LineHit R) (h : coversDecide isFault pd secCur secNext cur next = some hit) :
    hit = hitOf pd secCur secNext cur next := by
  unfold coversDecide at h
  simp only at h
  split at h
  · exact absurd h (by simp)
  · split at h
    · exact absurd h (by simp)
    · split at h <;> split at h <;> first | exact (Option.some.inj h).symm | exact absurd h (by simp)

/-- a hit of `readAndDecide` was decided with segment `pd.segment` of the sections `pd.sectionIdx` and `pd.sectionIdx + 1` -/
theorem readAndDecide_some (sections : List (List (Segment R))) (isFault : Bool) (pd : PlaneDist R) (hit : LineHit R)
    (h : readAndDecide sections isFault pd = .ok (some hit)) :
    ∃ secCur secNext cur next, idx sections pd.sectionIdx = .ok secCur ∧ idx sections (pd.sectionIdx + 1) = .ok secNext ∧
      idx secCur pd.segment = .ok cur ∧ idx secNext pd.segment = .ok next ∧
      coversDecide isFault pd secCur secNext cur next = some hit ∧
      hit = hitOf pd secCur secNext cur next := by
  unfold readAndDecide at h
  split at h
  · exact absurd h (by simp)
  · simp only [bind, Except.bind, pure, Except.pure] at h
    split at h
    · exact absurd h (by simp)
    split at h
    · exact absurd h (by simp)
    split at h
    · exact absurd h (by simp)
    split at h
    · exact absurd h (by simp)
    rename_i _ secCur h0 _ secNext h1 _ cur h2 _ next h3
    have hd := Except.ok.inj h
    exact ⟨secCur, secNext, cur, next, h0, h1, h2, h3, hd, coversDecide_some _ _ _ _ _ _ _ hd⟩

/-! ### the named per-section quantities of `linePaintAt` -/

/-- what the temperature models of one section's segment make of `old` -/
def sectionTemp (isFault : Bool) (ctx : Ctx R) (q : Query R) (pd : PlaneDist R) (ap : AdditionalParams R) (seg : Segment R) (old : R) :
    Except Err R :=
  seg.temps.foldlM (fun t m => m.get isFault ctx q.depth q.gravityNorm pd ap t) old
/-- what the composition models of one section's segment make of `old` (composition number `n`) -/
def sectionComp (isFault : Bool) (pd : PlaneDist R) (n : Nat) (seg : Segment R) (old : R) : Except Err R :=
  seg.comps.foldlM (fun c m => m.get isFault pd n c) old
/-- what the grains models of one section's segment make of `g` -/
def sectionGrains (isFault : Bool) (pd : PlaneDist R) (n : Nat) (seg : Segment R) (g : Grains R) : Except Err (Grains R) :=
  seg.grains.foldlM (fun g m => m.get isFault pd n g) g
/-- what the velocity models of one section's segment make of `v0` -/
def sectionVel (isFault : Bool) (pd : PlaneDist R) (seg : Segment R) (v0 : P3 R) : P3 R :=
  seg.vels.foldl (fun v m => m.get isFault pd v) v0

/-- temperature (code 1): the value written is `lerp` of the two sections' temperatures -/
theorem linePaintAt_temperature (f : LineFeature R) (ctx : Ctx R) (q : Query R) (h : LineHit R) (p : Req) (e : Nat) (out : List R)
    (old tc tn : R) (hcode : p.code = 1) (hold : idx out e = .ok old)
    (hc : sectionTemp f.isFault ctx q h.pd h.ap h.cur old = .ok tc) (hn : sectionTemp f.isFault ctx q h.pd h.ap h.next old = .ok tn) :
    linePaintAt f ctx q h p e out = .ok (writeBlock e [lerp tc tn h.pd.fractionOfSection] out) := by
  unfold sectionTemp at hc hn
  unfold linePaintAt
  simp only [hcode, hold, hc, hn, bind, Except.bind, pure, Except.pure]
  rfl

/-- models of the kinds shared by slab and fault (`SegTemp.basic`) cannot throw: their monadic fold is the plain left fold of `LineTemp.get` -/
theorem foldlM_basic (isFault : Bool) (ctx : Ctx R) (q : Query R) (pd : PlaneDist R) (ap : AdditionalParams R)
    (ms : List (LineTemp R)) (old : R) :
    (ms.map SegTemp.basic).foldlM (fun t m => m.get isFault ctx q.depth q.gravityNorm pd ap t) old =
      (.ok (ms.foldl (fun t m => m.get isFault ctx q.depth q.gravityNorm pd t) old) : Except Err R) := by
  induction ms generalizing old with
  | nil => rfl
  | cons m ms ih =>
    rw [List.map_cons, List.foldlM_cons, List.foldl_cons]
    exact ih _

/-- a segment whose temperature models are all of the kinds shared by slab and fault: the section's temperature is the plain left
fold of `LineTemp.get` -/
theorem sectionTemp_basic (isFault : Bool) (ctx : Ctx R) (q : Query R) (pd : PlaneDist R) (ap : AdditionalParams R) (seg : Segment R)
    (ms : List (LineTemp R)) (hms : seg.temps = ms.map SegTemp.basic) (old : R) :
    sectionTemp isFault ctx q pd ap seg old =
      .ok (ms.foldl (fun t m => m.get isFault ctx q.depth q.gravityNorm pd t) old) := by
  unfold sectionTemp
  rw [hms]
  exact foldlM_basic isFault ctx q pd ap ms old

/-- composition (code 2): the value written is `lerp` of the two sections' compositions -/
theorem linePaintAt_composition (f : LineFeature R) (ctx : Ctx R) (q : Query R) (h : LineHit R) (p : Req) (e : Nat) (out : List R)
    (old cc cn : R) (hcode : p.code = 2) (hold : idx out e = .ok old)
    (hc : sectionComp f.isFault h.pd p.n h.cur old = .ok cc) (hn : sectionComp f.isFault h.pd p.n h.next old = .ok cn) :
    linePaintAt f ctx q h p e out = .ok (writeBlock e [lerp cc cn h.pd.fractionOfSection] out) := by
  unfold sectionComp at hc hn
  unfold linePaintAt
  simp only [hcode, hold, hc, hn, bind, Except.bind, pure, Except.pure]
  rfl

/-- velocity (code 5): the three values written are `lerp`s of the two sections' velocity components -/
theorem linePaintAt_velocity (f : LineFeature R) (ctx : Ctx R) (q : Query R) (h : LineHit R) (p : Req) (e : Nat) (out : List R)
    (o0 o1 : R) (hcode : p.code = 5) (h0 : idx out e = .ok o0) (h1 : idx out (e + 1) = .ok o1) :
    linePaintAt f ctx q h p e out =
      (let v0 : P3 R := ⟨o0, o1, o0 + (2 : R)⟩
       let vc := sectionVel f.isFault h.pd h.cur v0
       let vn := sectionVel f.isFault h.pd h.next v0
       .ok (writeBlock e [lerp vc.x vn.x h.pd.fractionOfSection, lerp vc.y vn.y h.pd.fractionOfSection,
                          lerp vc.z vn.z h.pd.fractionOfSection] out)) := by
  unfold linePaintAt
  simp only [hcode, h0, h1, bind, Except.bind, pure, Except.pure]
  rfl

/-- grains (code 3): the grain sizes written are `lerp`s, pairwise, of the two sections' grain sizes -/
theorem linePaintAt_grains (f : LineFeature R) (ctx : Ctx R) (q : Query R) (h : LineHit R) (p : Req) (e : Nat) (out : List R)
    (gc gn : Grains R) (hcode : p.code = 3)
    (hc : sectionGrains f.isFault h.pd p.n h.cur (Grains.ofBlock p.k (readBlock e (p.k * 10) out)) = .ok gc)
    (hn : sectionGrains f.isFault h.pd p.n h.next (Grains.ofBlock p.k (readBlock e (p.k * 10) out)) = .ok gn) :
    linePaintAt f ctx q h p e out =
      .ok (writeBlock e ({ sizes := List.zipWith (fun a b => lerp a b h.pd.fractionOfSection) gc.sizes gn.sizes,
                           mats := List.zipWith (fun (a b : M3 R) => mat3Cast (slerp (quatCast a) (quatCast b) h.pd.fractionOfSection))
                                     gc.mats gn.mats } : Grains R).toBlock out) := by
  unfold sectionGrains at hc hn
  unfold linePaintAt
  simp only [hcode, hc, hn, bind, Except.bind, pure, Except.pure]
  rfl

end covers

/-! ## 3. locality: which sections the geometry and the membership test read -/

section locality
variable {R : Type} [Scalar R]

/-- `distancePointFromCurvedPlanes` reads `lengths` and `angles` only at the index `cp.index` returned by the closest-point search
and at `cp.index + 1` -/
theorem dpfcp_congr (coord : CoordSys R) (checkPoint nat : P3 R) (reference : P2 R) (pointList : List (P2 R))
    (lengths lengths' : List (List R)) (angles angles' : List (List (P2 R))) (startRadius : R) (onlyPositive : Bool) (bz : Bezier R)
    (cp : ClosestPoint R)
    (hcp : bz.closestPoint coord.spherical (surfacePoint coord.spherical nat) = .ok (some cp))
    (hl0 : idx lengths' cp.index = idx lengths cp.index) (hl1 : idx lengths' (cp.index + 1) = idx lengths (cp.index + 1))
    (ha0 : idx angles' cp.index = idx angles cp.index) (ha1 : idx angles' (cp.index + 1) = idx angles (cp.index + 1)) :
    distancePointFromCurvedPlanes coord checkPoint nat reference pointList lengths' angles' startRadius onlyPositive bz =
    distancePointFromCurvedPlanes coord checkPoint nat reference pointList lengths angles startRadius onlyPositive bz := by
  unfold distancePointFromCurvedPlanes
  simp only [hcp, bind, Except.bind]
  rw [ha0, ha1, hl0, hl1]

/-- without a closest point (`none`, the NaN result) or with a failed search, `lengths` and `angles` are not read at all -/
theorem dpfcp_congr_no_closest (coord : CoordSys R) (checkPoint nat : P3 R) (reference : P2 R) (pointList : List (P2 R))
    (lengths lengths' : List (List R)) (angles angles' : List (List (P2 R))) (startRadius : R) (onlyPositive : Bool) (bz : Bezier R)
    (hcp : ∀ cp, bz.closestPoint coord.spherical (surfacePoint coord.spherical nat) ≠ .ok (some cp)) :
    distancePointFromCurvedPlanes coord checkPoint nat reference pointList lengths' angles' startRadius onlyPositive bz =
    distancePointFromCurvedPlanes coord checkPoint nat reference pointList lengths angles startRadius onlyPositive bz := by
  unfold distancePointFromCurvedPlanes
  cases h : bz.closestPoint coord.spherical (surfacePoint coord.spherical nat) with
  | error e => simp only [h, bind, Except.bind]
  | ok o =>
    cases o with
    | none => simp only [h, bind, Except.bind]
    | some cp => exact absurd h (hcp cp)

/-- the result without a closest point: both distances are the `+∞` sentinel -/
theorem dpfcp_none_sentinel (coord : CoordSys R) (checkPoint nat : P3 R) (reference : P2 R) (pointList : List (P2 R))
    (lengths : List (List R)) (angles : List (List (P2 R))) (startRadius : R) (onlyPositive : Bool) (bz : Bezier R) (pd : PlaneDist R)
    (hcp : bz.closestPoint coord.spherical (surfacePoint coord.spherical nat) = .ok none)
    (h : distancePointFromCurvedPlanes coord checkPoint nat reference pointList lengths angles startRadius onlyPositive bz = .ok pd) :
    pd.distanceFromPlane = Scalar.inf ∧ pd.distanceAlongPlane = Scalar.inf ∧ pd.sectionIdx = 0 := by
  unfold distancePointFromCurvedPlanes at h
  simp only [hcp, bind, Except.bind, pure, Except.pure] at h
  rw [← Except.ok.inj h]
  exact ⟨rfl, rfl, rfl⟩

/-- "no closest segment found yet ⇒ the `+∞` sentinels are still in `distance` and `along`" -/
def SegState.Sentinel (s : SegState R) : Prop := s.found = false → s.distance = Scalar.inf ∧ s.along = Scalar.inf

theorem ite_sentinel {α β : Type} {A C : Prop} [Decidable A] [Decidable C] (f0 : Bool) (d0 X : α) (a0 Y : β) :
    (if A then f0 else if C then true else f0) = false →
      f0 = false ∧ (if A then d0 else if C then X else d0) = d0 ∧ (if A then a0 else if C then Y else a0) = a0 := by
  intro h
  by_cases hA : A
  · rw [if_pos hA] at h
    rw [if_pos hA, if_pos hA]
    exact ⟨h, rfl, rfl⟩
  · rw [if_neg hA] at h
    rw [if_neg hA, if_neg hA]
    by_cases hC : C
    · rw [if_pos hC] at h
      exact absurd h (by simp)
    · rw [if_neg hC] at h
      rw [if_neg hC, if_neg hC]
      exact ⟨h, rfl, rfl⟩

/-- one iteration of the segment loop: `found` is only ever set, and while it is not set `distance` and `along` are untouched -/
theorem segmentStep_found (dm : DepthMethod) (onlyPositive : Bool) (startRadius fraction : R) (check2d : P2 R)
    (angCur angNext : P2 R) (lenCur lenNext : R) (i : Nat) (s : SegState R) :
    (segmentStep dm onlyPositive startRadius fraction check2d angCur angNext lenCur lenNext i s).found = false →
     s.found = false ∧
    (segmentStep dm onlyPositive startRadius fraction check2d angCur angNext lenCur lenNext i s).distance = s.distance ∧
    (segmentStep dm onlyPositive startRadius fraction check2d angCur angNext lenCur lenNext i s).along = s.along := by
  unfold segmentStep
  simp only [apply_ite SegState.found, apply_ite SegState.distance, apply_ite SegState.along, ite_self]
  exact ite_sentinel _ _ _ _ _

theorem segmentStep_sentinel (dm : DepthMethod) (onlyPositive : Bool) (startRadius fraction : R) (check2d : P2 R)
    (angCur angNext : P2 R) (lenCur lenNext : R) (i : Nat) (s : SegState R) (hs : s.Sentinel) :
    (segmentStep dm onlyPositive startRadius fraction check2d angCur angNext lenCur lenNext i s).Sentinel := by
  intro h
  obtain ⟨h0, h1, h2⟩ := segmentStep_found dm onlyPositive startRadius fraction check2d angCur angNext lenCur lenNext i s h
  rw [h1, h2]
  exact hs h0

theorem segmentLoop_sentinel (dm : DepthMethod) (onlyPositive : Bool) (startRadius fraction : R) (check2d : P2 R)
    (angsCur angsNext : List (P2 R)) (lensCur lensNext : List R) (fuel i : Nat) (s s' : SegState R) (hs : s.Sentinel)
    (h : segmentLoop dm onlyPositive startRadius fraction check2d angsCur angsNext lensCur lensNext fuel i s = .ok s') :
    s'.Sentinel := by
  induction fuel generalizing i s with
  | zero =>
    unfold segmentLoop at h
    rw [← Except.ok.inj h]; exact hs
  | succ n ih =>
    unfold segmentLoop at h
    split at h
    · simp only [bind, Except.bind] at h
      split at h
      · exact absurd h (by simp)
      split at h
      · exact absurd h (by simp)
      split at h
      · exact absurd h (by simp)
      split at h
      · exact absurd h (by simp)
      exact ih _ _ (segmentStep_sentinel dm onlyPositive startRadius fraction check2d _ _ _ _ i s hs) h
    · rw [← Except.ok.inj h]; exact hs

/-- the section index the geometry reports is the one of the closest point, unless no segment was found — and then both
distances are still the `+∞` sentinel (and the index is reported as 0) -/
theorem dpfcp_sectionIdx (coord : CoordSys R) (checkPoint nat : P3 R) (reference : P2 R) (pointList : List (P2 R))
    (lengths : List (List R)) (angles : List (List (P2 R))) (startRadius : R) (onlyPositive : Bool) (bz : Bezier R)
    (cp : ClosestPoint R) (pd : PlaneDist R)
    (hcp : bz.closestPoint coord.spherical (surfacePoint coord.spherical nat) = .ok (some cp))
    (h : distancePointFromCurvedPlanes coord checkPoint nat reference pointList lengths angles startRadius onlyPositive bz = .ok pd) :
    pd.sectionIdx = cp.index ∨
      (pd.sectionIdx = 0 ∧ pd.distanceFromPlane = Scalar.inf ∧ pd.distanceAlongPlane = Scalar.inf) := by
  unfold distancePointFromCurvedPlanes at h
  simp only [hcp, bind, Except.bind] at h
  split at h
  · exact absurd h (by simp)
  split at h
  · exact absurd h (by simp)
  split at h
  · exact absurd h (by simp)
  split at h
  · exact absurd h (by simp)
  split at h
  · exact absurd h (by simp)
  clear ‹_ = Except.ok (_ : Option (P3 R × P3 R))›
  split at h
  · split at h
    · exact absurd h (by simp)
    split at h
    · exact absurd h (by simp)
    left
    rw [← Except.ok.inj h]
  · split at h
    · exact absurd h (by simp)
    rename_i s hloop
    have hsent := segmentLoop_sentinel _ _ _ _ _ _ _ _ _ _ _ _ s
      (by intro _; exact ⟨rfl, rfl⟩) hloop
    rw [← Except.ok.inj h]
    dsimp only
    cases hf : s.found with
    | true => left; rfl
    | false => right; exact ⟨rfl, hsent hf⟩

/-- the section fraction the geometry reports is the parametric fraction of the closest point, unchanged (0 when no segment is found) -/
theorem dpfcp_fraction (coord : CoordSys R) (checkPoint nat : P3 R) (reference : P2 R) (pointList : List (P2 R))
    (lengths : List (List R)) (angles : List (List (P2 R))) (startRadius : R) (onlyPositive : Bool) (bz : Bezier R)
    (cp : ClosestPoint R) (pd : PlaneDist R)
    (hcp : bz.closestPoint coord.spherical (surfacePoint coord.spherical nat) = .ok (some cp))
    (h : distancePointFromCurvedPlanes coord checkPoint nat reference pointList lengths angles startRadius onlyPositive bz = .ok pd) :
    pd.fractionOfSection = cp.fraction ∨ pd.fractionOfSection = 0.0 := by
  unfold distancePointFromCurvedPlanes at h
  simp only [hcp, bind, Except.bind] at h
  split at h
  · exact absurd h (by simp)
  split at h
  · exact absurd h (by simp)
  split at h
  · exact absurd h (by simp)
  split at h
  · exact absurd h (by simp)
  split at h
  · exact absurd h (by simp)
  clear ‹_ = Except.ok (_ : Option (P3 R × P3 R))›
  split at h
  · split at h
    · exact absurd h (by simp)
    split at h
    · exact absurd h (by simp)
    left
    rw [← Except.ok.inj h]
  · split at h
    · exact absurd h (by simp)
    rename_i s _
    rw [← Except.ok.inj h]
    dsimp only
    cases s.found with
    | true => left; rfl
    | false => right; rfl

/-- one iteration of the Cartesian closest-point loop, spelled out (every `Scalar R`) -/
theorem closestCartesianLoop_step (bz : Bezier R) (cp : P2 R) (fuel i : Nat) (minSq : R)
    (best : Option (ClosestPoint R)) (p1 p2 c0 c1 : P2 R) (est : R)
    (hi : i < bz.control.length) (hp1 : idx bz.points i = .ok p1) (hp2 : idx bz.points (i + 1) = .ok p2)
    (hc : idx bz.control i = .ok (c0, c1))
    (hn : newtonC (cubicOf p1 p2 c0 c1) ((cubicOf p1 p2 c0 c1).d.x - cp.x) ((cubicOf p1 p2 c0 c1).d.y - cp.y) 150
            (initialEstimate p1 p2 cp) = (est, true)) :
    closestCartesianLoop bz cp (fuel + 1) i minSq best =
      (let k := cubicOf p1 p2 c0 c1
       let e0 := k.a.x * est * est * est + k.b.x * est * est + k.c.x * est + (k.d.x - cp.x)
       let e1 := k.a.y * est * est * est + k.b.y * est * est + k.c.y * est + (k.d.y - cp.y)
       let msd := e0 * e0 + e1 * e1
       if msd < minSq ∧ accept i est then
         closestCartesianLoop bz cp fuel (i + 1) msd (some (closestOf k p1 p2 c0 c1 cp i est msd
           ⟨k.a.x * est * est * est + k.b.x * est * est + k.c.x * est + k.d.x,
            k.a.y * est * est * est + k.b.y * est * est + k.c.y * est + k.d.y⟩))
       else closestCartesianLoop bz cp fuel (i + 1) minSq best) := by
  rw [closestCartesianLoop]
  rw [if_pos hi]
  simp only [hp1, hp2, hc, bind, Except.bind, hn]
  rfl

theorem closestCartesianLoop_end (bz : Bezier R) (cp : P2 R) (fuel i : Nat) (minSq : R)
    (best : Option (ClosestPoint R)) (hi : ¬ i < bz.control.length) :
    closestCartesianLoop bz cp (fuel + 1) i minSq best = .ok best := by
  rw [closestCartesianLoop, if_neg hi]

/-- the two facts about the `+∞` sentinel that the sentinel test of `coversBody` relies on (they hold for IEEE doubles and in every
ordered field whatever `inf` is: see `infLaw_field`) -/
structure InfLaw (R : Type) [Scalar R] : Prop where
  fabs_inf_not_lt : ¬ (fabs (Scalar.inf : R) < Scalar.inf)
  inf_not_lt : ¬ ((Scalar.inf : R) < Scalar.inf)

theorem idx_set_ne {α : Type} (l : List α) (k j : Nat) (a : α) (h : k ≠ j) : idx (l.set k a) j = idx l j := by
  unfold idx
  rw [List.getElem?_set_ne h]

/-- with both distances at the sentinel the membership test answers "not covered" before reading any section -/
theorem readAndDecide_sentinel (hinf : InfLaw R) (sections : List (List (Segment R))) (isFault : Bool) (pd : PlaneDist R)
    (hd : pd.distanceFromPlane = Scalar.inf) (ha : pd.distanceAlongPlane = Scalar.inf) :
    readAndDecide sections isFault pd = .ok none := by
  unfold readAndDecide
  rw [hd, ha, if_pos]
  simp only [Bool.not_eq_eq_eq_not, Bool.not_true, decide_eq_false_iff_not, not_or]
  exact ⟨hinf.fabs_inf_not_lt, hinf.inf_not_lt⟩

/-- `readAndDecide` reads `sections` only at `pd.sectionIdx` and `pd.sectionIdx + 1` -/
theorem readAndDecide_congr (sections sections' : List (List (Segment R))) (isFault : Bool) (pd : PlaneDist R)
    (h0 : idx sections' pd.sectionIdx = idx sections pd.sectionIdx)
    (h1 : idx sections' (pd.sectionIdx + 1) = idx sections (pd.sectionIdx + 1)) :
    readAndDecide sections' isFault pd = readAndDecide sections isFault pd := by
  unfold readAndDecide
  rw [h0, h1]

/-- replacing one section: the feature with `sections[k] := sec'` -/
def LineFeature.setSection (f : LineFeature R) (k : Nat) (sec' : List (Segment R)) : LineFeature R :=
  { f with sections := f.sections.set k sec' }

theorem LineFeature.setSection_lengths (f : LineFeature R) (k : Nat) (sec' : List (Segment R)) :
    (f.setSection k sec').lengths = f.lengths.set k (sec'.map (·.length)) := by
  unfold LineFeature.setSection LineFeature.lengths
  simp only [List.map_set]

theorem LineFeature.setSection_anglesRad (f : LineFeature R) (k : Nat) (sec' : List (Segment R)) :
    (f.setSection k sec').anglesRad =
      f.anglesRad.set k (sec'.map (fun s => (⟨s.angle.x * (Scalar.pi / 180), s.angle.y * (Scalar.pi / 180)⟩ : P2 R))) := by
  unfold LineFeature.setSection LineFeature.anglesRad
  simp only [List.map_set]

/-- locality of `coversBody`, closest point found: sections other than `cp.index`, `cp.index + 1` are not read.
`hread`: either the sentinel laws, or the replaced index is also different from 0 and 1 (the index reported when no segment is found) -/
theorem coversBody_setSection (f : LineFeature R) (ctx : Ctx R) (q : Query R) (k : Nat) (sec' : List (Segment R))
    (cp : ClosestPoint R)
    (hcp : f.bezier.closestPoint ctx.coord.spherical (surfacePoint ctx.coord.spherical q.nat) = .ok (some cp))
    (hk0 : cp.index ≠ k) (hk1 : cp.index + 1 ≠ k) (hread : InfLaw R ∨ (k ≠ 0 ∧ k ≠ 1)) :
    (f.setSection k sec').coversBody ctx q = f.coversBody ctx q := by
  rw [coversBody_eq, coversBody_eq]
  have hgeo : distancePointFromCurvedPlanes ctx.coord q.pt q.nat (f.setSection k sec').reference (f.setSection k sec').coords
        (f.setSection k sec').lengths (f.setSection k sec').anglesRad
        (depthCoordinate ctx.coord.spherical q.nat + q.depth - (f.setSection k sec').minDepth) (f.setSection k sec').isFault
        (f.setSection k sec').bezier =
      distancePointFromCurvedPlanes ctx.coord q.pt q.nat f.reference f.coords f.lengths f.anglesRad
        (depthCoordinate ctx.coord.spherical q.nat + q.depth - f.minDepth) f.isFault f.bezier := by
    rw [LineFeature.setSection_lengths, LineFeature.setSection_anglesRad]
    exact dpfcp_congr ctx.coord q.pt q.nat f.reference f.coords _ _ _ _ _ f.isFault f.bezier cp hcp
      (idx_set_ne _ _ _ _ hk0.symm) (idx_set_ne _ _ _ _ hk1.symm) (idx_set_ne _ _ _ _ hk0.symm) (idx_set_ne _ _ _ _ hk1.symm)
  rw [hgeo]
  cases hpd : distancePointFromCurvedPlanes ctx.coord q.pt q.nat f.reference f.coords f.lengths f.anglesRad
        (depthCoordinate ctx.coord.spherical q.nat + q.depth - f.minDepth) f.isFault f.bezier with
  | error e => rfl
  | ok pd =>
    show readAndDecide (f.sections.set k sec') f.isFault pd = readAndDecide f.sections f.isFault pd
    rcases dpfcp_sectionIdx _ _ _ _ _ _ _ _ _ _ cp pd hcp hpd with hidx | ⟨hz, hd, ha⟩
    · apply readAndDecide_congr
      · rw [hidx]; exact idx_set_ne _ _ _ _ hk0.symm
      · rw [hidx]; exact idx_set_ne _ _ _ _ hk1.symm
    · rcases hread with hinf | ⟨k0, k1⟩
      · rw [readAndDecide_sentinel hinf _ _ _ hd ha, readAndDecide_sentinel hinf _ _ _ hd ha]
      · apply readAndDecide_congr
        · rw [hz]; exact idx_set_ne _ _ _ _ k0
        · rw [hz]; exact idx_set_ne _ _ _ _ k1

/-- locality of `coversBody`, no closest point (`none`) or failed search: no section is read at all (sentinel laws), or only
sections 0 and 1 -/
theorem coversBody_setSection_no_closest (f : LineFeature R) (ctx : Ctx R) (q : Query R) (k : Nat) (sec' : List (Segment R))
    (hcp : ∀ cp, f.bezier.closestPoint ctx.coord.spherical (surfacePoint ctx.coord.spherical q.nat) ≠ .ok (some cp))
    (hread : InfLaw R ∨ (k ≠ 0 ∧ k ≠ 1)) :
    (f.setSection k sec').coversBody ctx q = f.coversBody ctx q := by
  rw [coversBody_eq, coversBody_eq]
  have hgeo : distancePointFromCurvedPlanes ctx.coord q.pt q.nat (f.setSection k sec').reference (f.setSection k sec').coords
        (f.setSection k sec').lengths (f.setSection k sec').anglesRad
        (depthCoordinate ctx.coord.spherical q.nat + q.depth - (f.setSection k sec').minDepth) (f.setSection k sec').isFault
        (f.setSection k sec').bezier =
      distancePointFromCurvedPlanes ctx.coord q.pt q.nat f.reference f.coords f.lengths f.anglesRad
        (depthCoordinate ctx.coord.spherical q.nat + q.depth - f.minDepth) f.isFault f.bezier :=
    dpfcp_congr_no_closest ctx.coord q.pt q.nat f.reference f.coords _ _ _ _ _ f.isFault f.bezier hcp
  rw [hgeo]
  cases hpd : distancePointFromCurvedPlanes ctx.coord q.pt q.nat f.reference f.coords f.lengths f.anglesRad
        (depthCoordinate ctx.coord.spherical q.nat + q.depth - f.minDepth) f.isFault f.bezier with
  | error e => rfl
  | ok pd =>
    show readAndDecide (f.sections.set k sec') f.isFault pd = readAndDecide f.sections f.isFault pd
    cases hc : f.bezier.closestPoint ctx.coord.spherical (surfacePoint ctx.coord.spherical q.nat) with
    | error e =>
      unfold distancePointFromCurvedPlanes at hpd
      simp only [hc, bind, Except.bind] at hpd
      exact absurd hpd (by simp)
    | ok o =>
      cases o with
      | some cp => exact absurd hc (hcp cp)
      | none =>
        obtain ⟨hd, ha, hz⟩ := dpfcp_none_sentinel _ _ _ _ _ _ _ _ _ _ pd hc hpd
        rcases hread with hinf | ⟨k0, k1⟩
        · rw [readAndDecide_sentinel hinf _ _ _ hd ha, readAndDecide_sentinel hinf _ _ _ hd ha]
        · apply readAndDecide_congr
          · rw [hz]; exact idx_set_ne _ _ _ _ k0
          · rw [hz]; exact idx_set_ne _ _ _ _ k1

/-- the bounding box succeeds or fails (with the same error) independently of the sections -/
theorem bbox_setSection (f : LineFeature R) (k : Nat) (sec' : List (Segment R)) (coord : CoordSys R) :
    (∃ e, (f.setSection k sec').bbox coord = .error e ∧ f.bbox coord = .error e) ∨
    (∃ b b', (f.setSection k sec').bbox coord = .ok b' ∧ f.bbox coord = .ok b) := by
  unfold LineFeature.bbox
  have hc : (f.setSection k sec').coords = f.coords := rfl
  rw [hc]
  simp only [bind, Except.bind, pure, Except.pure]
  cases minBy (f.coords.map (·.x)) with
  | error e => exact .inl ⟨e, rfl, rfl⟩
  | ok a =>
  cases maxBy (f.coords.map (·.x)) with
  | error e => exact .inl ⟨e, rfl, rfl⟩
  | ok b =>
  cases minBy (f.coords.map (·.y)) with
  | error e => exact .inl ⟨e, rfl, rfl⟩
  | ok c =>
  cases maxBy (f.coords.map (·.y)) with
  | error e => exact .inl ⟨e, rfl, rfl⟩
  | ok d =>
  dsimp only
  split
  · exact .inr ⟨_, _, rfl, rfl⟩
  · exact .inr ⟨_, _, rfl, rfl⟩

/-- with the culling shortcuts off the pre-test does not depend on the sections -/
theorem preTest_setSection_nocull (f : LineFeature R) (ctx : Ctx R) (q : Query R) (k : Nat) (sec' : List (Segment R))
    (hcull : f.cull = false) : (f.setSection k sec').preTest ctx q = f.preTest ctx q := by
  unfold LineFeature.preTest
  have hc : (f.setSection k sec').cull = f.cull := rfl
  have h1 : (f.setSection k sec').maxDepth = f.maxDepth := rfl
  have h2 : (f.setSection k sec').minDepth = f.minDepth := rfl
  rw [hc, h1, h2, hcull]
  rcases bbox_setSection f k sec' ctx.coord with ⟨e, he', he⟩ | ⟨b, b', hb', hb⟩
  · rw [he', he]; rfl
  · rw [hb', hb]; rfl

/-- painting uses the feature only through `isFault` and `tag` -/
theorem linePaintAt_setSection (f : LineFeature R) (k : Nat) (sec' : List (Segment R)) (ctx : Ctx R) (q : Query R) (h : LineHit R)
    (p : Req) (e : Nat) (out : List R) :
    linePaintAt (f.setSection k sec') ctx q h p e out = linePaintAt f ctx q h p e out := rfl

end locality

/-! ## 4. inheritance of segment models -/

section inherit
variable {R : Type} [Scalar R]
open Lean

/-- the four kinds of models a segment may declare -/
def segmentModelKeys : List String := ["temperature models", "composition models", "grains models", "velocity models"]

/-- what an ancestor chain (nearest first) offers for `key`: the value in the first ancestor that has the key -/
def inheritedJson (ancestors : List Json) (key : String) : Option Json :=
  ancestors.findSome? (fun a => (a.getObjVal? key).toOption)

/-- the model list of kind `key` read from the JSON array `v` under the segment schema `schema` -/
def parseModelList (schema : Json) (key : String) (v : Json) : Except Err (List (String × Cur)) := do
  let alts ← schemaAt schema [key, "items", "oneOf"]
  (← jarr v).toList.mapM (pluginCursor alts)

/-- `resolveModels` = "own value, else inherited value, else no models", parsed under the segment's schema -/
theorem resolveModels_eq (seg : Cur) (ancestors : List Json) (key : String) :
    resolveModels seg ancestors key =
      match (seg.val? key).orElse (fun _ => inheritedJson ancestors key) with
      | none => .ok []
      | some v => parseModelList seg.schema key v := by
  unfold resolveModels inheritedJson parseModelList
  cases seg.val? key <;> rfl

theorem resolveModels_own (seg : Cur) (ancestors : List Json) (key : String) (v : Json) (h : seg.val? key = some v) :
    resolveModels seg ancestors key = parseModelList seg.schema key v := by
  rw [resolveModels_eq, h]; rfl

theorem resolveModels_inherit (seg : Cur) (ancestors : List Json) (key : String) (h : seg.val? key = none) :
    resolveModels seg ancestors key =
      match inheritedJson ancestors key with
      | none => .ok []
      | some v => parseModelList seg.schema key v := by
  rw [resolveModels_eq, h]; rfl

/-- the nearest ancestor that has the key wins: ancestors before it lack the key, ancestors after it are not looked at -/
theorem inheritedJson_nearest (pre post : List Json) (a : Json) (key : String) (v : Json)
    (hpre : ∀ b ∈ pre, (b.getObjVal? key).toOption = none) (ha : (a.getObjVal? key).toOption = some v) :
    inheritedJson (pre ++ a :: post) key = some v := by
  unfold inheritedJson
  induction pre with
  | nil => simp [ha]
  | cons b rest ih =>
    have hb := hpre b (by simp)
    simp only [List.cons_append, List.findSome?, hb]
    exact ih (fun c hc => hpre c (by simp [hc]))

theorem inheritedJson_none (ancestors : List Json) (key : String)
    (h : ∀ b ∈ ancestors, (b.getObjVal? key).toOption = none) : inheritedJson ancestors key = none := by
  unfold inheritedJson
  induction ancestors with
  | nil => rfl
  | cons b rest ih =>
    simp only [List.findSome?, h b (by simp)]
    exact ih (fun c hc => h c (by simp [hc]))

/-- `resolveModels` depends on the segment only through `val? key` and its schema, and on the ancestors only through `inheritedJson` -/
theorem resolveModels_congr (seg seg' : Cur) (anc anc' : List Json) (key : String) (hs : seg'.schema = seg.schema)
    (h : (seg'.val? key).orElse (fun _ => inheritedJson anc' key) = (seg.val? key).orElse (fun _ => inheritedJson anc key)) :
    resolveModels seg' anc' key = resolveModels seg anc key := by
  rw [resolveModels_eq, resolveModels_eq, h, hs]

/-- `parseSegment` in terms of the four geometry entries and the four resolved model lists -/
theorem parseSegment_congr (ctx : Ctx R) (isFault : Bool) (seg seg' : Cur) (anc anc' : List Json)
    (hlen : seg'.val? "length" = seg.val? "length") (hth : seg'.val? "thickness" = seg.val? "thickness")
    (htt : seg'.val? "top truncation" = seg.val? "top truncation") (hang : seg'.val? "angle" = seg.val? "angle")
    (ht : resolveModels seg' anc' "temperature models" = resolveModels seg anc "temperature models")
    (hc : resolveModels seg' anc' "composition models" = resolveModels seg anc "composition models")
    (hg : resolveModels seg' anc' "grains models" = resolveModels seg anc "grains models")
    (hv : resolveModels seg' anc' "velocity models" = resolveModels seg anc "velocity models") :
    parseSegment ctx isFault seg' anc' = parseSegment ctx isFault seg anc := by
  unfold parseSegment
  rw [hlen, hth, htt, hang, ht, hc, hg, hv]

/-! ### `sections` entries that repeat the feature -/

/-- the coordinate number of a `sections` entry -/
def sectionCoordinate (secProps sj : Json) : Except Err Nat :=
  match (Cur.mk sj secProps).val? "coordinate" with
  | some kv => jnat kv
  | none => do jnat (← schemaAt secProps ["coordinate", "default value"])

/-- one `sections` entry applied to the per-coordinate list of sections (the body of the fold in `parseLine`) -/
def sectionStep (ctx : Ctx R) (isFault : Bool) (c : Cur) (n : Nat) (defaultSegs : List (Segment R)) (secSegSchema secProps : Json)
    (acc : List (List (Segment R))) (sj : Json) : Except Err (List (List (Segment R))) := do
  let k ← sectionCoordinate secProps sj
  if k ≥ n then .error .other
  let segs ← parseSegments ctx isFault sj secSegSchema [sj, c.obj]
  if segs.length != defaultSegs.length then .error .length
  return acc.set k segs

/-- the `sections` part of `parseLine` -/
def parseLineSections (ctx : Ctx R) (isFault : Bool) (c : Cur) (n : Nat) (defaultSegs : List (Segment R)) :
    Except Err (List (List (Segment R))) :=
  match c.val? "sections" with
  | none => .ok (List.replicate n defaultSegs)
  | some v => do
    let secSegSchema ← schemaAt c.schema ["sections", "items", "properties", "segments", "items", "properties"]
    let secProps ← schemaAt c.schema ["sections", "items", "properties"]
    (← jarr v).toList.foldlM (sectionStep ctx isFault c n defaultSegs secSegSchema secProps) (List.replicate n defaultSegs)

theorem parseLine_eq (ctx : Ctx R) (isFault : Bool) (c : Cur) (tags : List String) (cull : Bool) :
    parseLine ctx isFault c tags cull = (do
      let sph := ctx.coord.spherical
      let name ← c.getStr "name"
      let tag ← c.getStr "tag"
      let (tags, ti) := addTag tags (if tag == "" then (if isFault then "fault" else "subducting plate") else tag)
      let coords ← getCoordinates c sph
      if coords.length < 2 then .error .other
      let bz ← Bezier.build coords
      let minD : R ← c.getNum "min depth"
      let maxD : R ← c.getNum "max depth"
      let dip : P2 R ← (match c.val? "dip point" with
        | some v => jpoint2 v
        | none => .error .other)
      let dip : P2 R := if sph then ⟨dip.x * (Scalar.pi / 180.0), dip.y * (Scalar.pi / 180.0)⟩ else dip
      let segSchema ← schemaAt c.schema ["segments", "items", "properties"]
      let defaultSegs ← parseSegments ctx isFault c.obj segSchema [c.obj]
      if defaultSegs.length == 0 then .error .other
      let secs ← parseLineSections ctx isFault c coords.length defaultSegs
      return ({ name := name, tag := ti, isFault := isFault, coords := coords, reference := dip, minDepth := minD, maxDepth := maxD,
                sections := secs, bezier := bz, cull := cull }, tags)) := by
  rfl


/-- a `sections` entry that only repeats the feature: its `segments` array is the feature's, it declares no models of its own,
and its coordinate number is a valid one (`< n`) -/
structure RepeatsDefault (c : Cur) (n : Nat) (secProps sj : Json) : Prop where
  coordinate : ∃ k, sectionCoordinate secProps sj = .ok k ∧ k < n
  segments : (sj.getObjVal? "segments").toOption = (c.obj.getObjVal? "segments").toOption
  noModels : ∀ key ∈ segmentModelKeys, (sj.getObjVal? key).toOption = none

theorem inheritedJson_skip (sj : Json) (rest : List Json) (key : String) (h : (sj.getObjVal? key).toOption = none) :
    inheritedJson (sj :: rest) key = inheritedJson rest key := by
  unfold inheritedJson
  simp only [List.findSome?, h]

theorem inheritedJson_congr_head (a b : Json) (key : String) (h : (a.getObjVal? key).toOption = (b.getObjVal? key).toOption) :
    inheritedJson [a] key = inheritedJson [b] key := by
  unfold inheritedJson
  simp only [List.findSome?, h]

/-- `parseSegments` depends on the object only through its `segments` entry, on the ancestors only through `inheritedJson` of the
four model keys -/
theorem parseSegments_congr (ctx : Ctx R) (isFault : Bool) (obj obj' : Json) (segSchema : Json) (anc anc' : List Json)
    (hseg : (obj'.getObjVal? "segments").toOption = (obj.getObjVal? "segments").toOption)
    (hanc : ∀ key ∈ segmentModelKeys, inheritedJson anc' key = inheritedJson anc key) :
    parseSegments ctx isFault obj' segSchema anc' = parseSegments ctx isFault obj segSchema anc := by
  unfold parseSegments
  rw [hseg]
  have hf : (fun sj => parseSegment ctx isFault ⟨sj, segSchema⟩ anc') = (fun sj => parseSegment ctx isFault ⟨sj, segSchema⟩ anc) := by
    funext sj
    have key : ∀ k ∈ segmentModelKeys, resolveModels ⟨sj, segSchema⟩ anc' k = resolveModels ⟨sj, segSchema⟩ anc k := by
      intro k hk
      apply resolveModels_congr _ _ _ _ _ rfl
      rw [hanc k hk]
    exact parseSegment_congr ctx isFault _ _ anc anc' rfl rfl rfl rfl
      (key _ (by simp [segmentModelKeys])) (key _ (by simp [segmentModelKeys]))
      (key _ (by simp [segmentModelKeys])) (key _ (by simp [segmentModelKeys]))
  rw [hf]

/-- one repeating entry leaves the list of sections as it is -/
theorem sectionStep_repeat (ctx : Ctx R) (isFault : Bool) (c : Cur) (n : Nat) (defaultSegs : List (Segment R)) (segSchema secProps : Json)
    (sj : Json) (hdef : parseSegments ctx isFault c.obj segSchema [c.obj] = .ok defaultSegs)
    (hrep : RepeatsDefault c n secProps sj) :
    sectionStep ctx isFault c n defaultSegs segSchema secProps (List.replicate n defaultSegs) sj = .ok (List.replicate n defaultSegs) := by
  obtain ⟨⟨k, hk, hkn⟩, hseg, hno⟩ := hrep
  have hsegs : parseSegments ctx isFault sj segSchema [sj, c.obj] = .ok defaultSegs := by
    rw [← hdef]
    exact parseSegments_congr ctx isFault c.obj sj segSchema [c.obj] [sj, c.obj] hseg
      (fun key hkey => inheritedJson_skip sj [c.obj] key (hno key hkey))
  unfold sectionStep
  simp only [hk, hsegs, bind, Except.bind, pure, Except.pure]
  rw [if_neg (by omega)]
  simp

theorem foldlM_fixed {α β : Type} (f : β → α → Except Err β) (init : β) (l : List α) (h : ∀ a ∈ l, f init a = .ok init) :
    l.foldlM f init = .ok init := by
  induction l with
  | nil => rfl
  | cons a rest ih =>
    rw [List.foldlM_cons, h a (by simp)]
    exact ih (fun b hb => h b (by simp [hb]))

/-- any list of repeating entries leaves the list of sections as it is -/
theorem parseLineSections_repeat (ctx : Ctx R) (isFault : Bool) (c : Cur) (n : Nat) (defaultSegs : List (Segment R))
    (segSchema secProps : Json) (entries : Array Json)
    (hsec : c.val? "sections" = some (.arr entries))
    (hsss : schemaAt c.schema ["sections", "items", "properties", "segments", "items", "properties"] = .ok segSchema)
    (hsp : schemaAt c.schema ["sections", "items", "properties"] = .ok secProps)
    (hdef : parseSegments ctx isFault c.obj segSchema [c.obj] = .ok defaultSegs)
    (hall : ∀ sj ∈ entries.toList, RepeatsDefault c n secProps sj) :
    parseLineSections ctx isFault c n defaultSegs = .ok (List.replicate n defaultSegs) := by
  unfold parseLineSections
  simp only [hsec, hsss, hsp, jarr, bind, Except.bind]
  exact foldlM_fixed _ _ _ (fun sj hsj => sectionStep_repeat ctx isFault c n defaultSegs segSchema secProps sj hdef (hall sj hsj))

theorem parseLineSections_absent (ctx : Ctx R) (isFault : Bool) (c : Cur) (n : Nat) (defaultSegs : List (Segment R))
    (h : c.val? "sections" = none) : parseLineSections ctx isFault c n defaultSegs = .ok (List.replicate n defaultSegs) := by
  unfold parseLineSections
  rw [h]

theorem Cur.getStr_congr (c c0 : Cur) (name : String) (hs : c0.schema = c.schema) (hv : c0.val? name = c.val? name) :
    c0.getStr name = c.getStr name := by
  unfold Cur.getStr; rw [hv, hs]

theorem Cur.getNum_congr (c c0 : Cur) (name : String) (hs : c0.schema = c.schema) (hv : c0.val? name = c.val? name) :
    (c0.getNum name : Except Err R) = c.getNum name := by
  unfold Cur.getNum; rw [hv, hs]

theorem getCoordinates_congr (c c0 : Cur) (sph : Bool) (hv : c0.val? "coordinates" = c.val? "coordinates") :
    (getCoordinates c0 sph : Except Err (List (P2 R))) = getCoordinates c sph := by
  unfold getCoordinates Cur.getPoint2Vec; rw [hv]

theorem Except.error_bind' {ε α β : Type} (e : ε) (f : α → Except ε β) : (Except.error e >>= f) = Except.error e := rfl

theorem Except.bind_congr_ok {ε α β : Type} (x : Except ε α) (f g : α → Except ε β) (h : ∀ a, x = .ok a → f a = g a) :
    x >>= f = x >>= g := by
  cases x with
  | error e => rfl
  | ok a => exact h a rfl

/-- the keys of a slab / fault object that `parseLine` reads, other than `sections` -/
def lineFeatureKeys : List String :=
  ["name", "tag", "coordinates", "min depth", "max depth", "dip point", "segments"] ++ segmentModelKeys

/-- a feature whose `sections` array consists of entries that only repeat the feature parses to the same `LineFeature`
as the feature without `sections` -/
theorem parseLine_repeat_default (ctx : Ctx R) (isFault : Bool) (c c0 : Cur) (tags : List String) (cull : Bool)
    (entries : Array Json) (segSchema secProps : Json)
    (hschema : c0.schema = c.schema)
    (hobj : ∀ key ∈ lineFeatureKeys, c0.val? key = c.val? key)
    (h0 : c0.val? "sections" = none)
    (hsec : c.val? "sections" = some (.arr entries))
    (hseg : schemaAt c.schema ["segments", "items", "properties"] = .ok segSchema)
    (hsss : schemaAt c.schema ["sections", "items", "properties", "segments", "items", "properties"] = .ok segSchema)
    (hsp : schemaAt c.schema ["sections", "items", "properties"] = .ok secProps)
    (hall : ∀ coords : List (P2 R), getCoordinates c ctx.coord.spherical = .ok coords →
      ∀ sj ∈ entries.toList, RepeatsDefault c coords.length secProps sj) :
    parseLine ctx isFault c tags cull = parseLine ctx isFault c0 tags cull := by
  rw [parseLine_eq, parseLine_eq]
  have hval : ∀ key ∈ lineFeatureKeys, (c0.obj.getObjVal? key).toOption = (c.obj.getObjVal? key).toOption := hobj
  dsimp only
  rw [Cur.getStr_congr c c0 "name" hschema (hobj _ (by decide)), Cur.getStr_congr c c0 "tag" hschema (hobj _ (by decide)),
    getCoordinates_congr c c0 _ (hobj _ (by decide)), Cur.getNum_congr c c0 "min depth" hschema (hobj _ (by decide)),
    Cur.getNum_congr c c0 "max depth" hschema (hobj _ (by decide)), hobj "dip point" (by decide), hschema, hseg]
  have hps : parseSegments ctx isFault c0.obj segSchema [c0.obj] = parseSegments ctx isFault c.obj segSchema [c.obj] :=
    parseSegments_congr ctx isFault c.obj c0.obj segSchema [c.obj] [c0.obj] (hval "segments" (by decide))
      (fun key hk => inheritedJson_congr_head c0.obj c.obj key (hval key (List.mem_append_right _ hk)))
  refine Except.bind_congr_ok _ _ _ (fun name _ => ?_)
  refine Except.bind_congr_ok _ _ _ (fun tag _ => ?_)
  refine Except.bind_congr_ok _ _ _ (fun coords hcoords => ?_)
  by_cases hlen : coords.length < 2
  · rw [if_pos hlen, if_pos hlen, Except.error_bind', Except.error_bind']
  rw [if_neg hlen, if_neg hlen]
  refine Except.bind_congr_ok _ _ _ (fun bz _ => ?_)
  refine Except.bind_congr_ok _ _ _ (fun minD _ => ?_)
  refine Except.bind_congr_ok _ _ _ (fun maxD _ => ?_)
  refine Except.bind_congr_ok _ _ _ (fun dip _ => ?_)
  refine Except.bind_congr_ok _ _ _ (fun ss hss => ?_)
  cases hss
  rw [hps]
  refine Except.bind_congr_ok _ _ _ (fun defaultSegs hdef => ?_)
  by_cases hemp : (defaultSegs.length == 0) = true
  · rw [if_pos hemp, if_pos hemp, Except.error_bind', Except.error_bind']
  rw [if_neg hemp, if_neg hemp]
  rw [parseLineSections_repeat ctx isFault c coords.length defaultSegs segSchema secProps entries hsec hsss hsp hdef
        (hall coords hcoords), parseLineSections_absent ctx isFault c0 coords.length defaultSegs h0]

end inherit

/-! ## 5. congruence of `parseSegments`, `parseLine`, `parseWorld`: from equal segments to an indistinguishable world -/

section world
variable {R : Type} [Scalar R]
open Lean

/-- the body of the feature fold of `parseWorld` -/
def featureStep (ctx : Ctx R) (cull : Bool) (acc : List (Feature R) × List String) (mc : String × Cur) :
    PM R (List (Feature R) × List String) := do
  let (m, cc) := mc
  match m with
  | "continental plate" => do
    let (f, tags) ← parseArea ctx 0 "continental plate" cc acc.2
    return (acc.1 ++ [Feature.area f], tags)
  | "oceanic plate" => do
    let (f, tags) ← parseArea ctx 1 "oceanic plate" cc acc.2
    return (acc.1 ++ [Feature.area f], tags)
  | "mantle layer" => do
    let (f, tags) ← parseArea ctx 2 "mantle layer" cc acc.2
    return (acc.1 ++ [Feature.area f], tags)
  | "plume" => do
    let (f, tags) ← parsePlume ctx cc acc.2
    return (acc.1 ++ [Feature.plume f], tags)
  | "subducting plate" => do
    let (f, tags) ← pmLift (parseLine ctx false cc acc.2 cull)
    return (acc.1 ++ [Feature.line f], tags)
  | "fault" => do
    let (f, tags) ← pmLift (parseLine ctx true cc acc.2 cull)
    return (acc.1 ++ [Feature.line f], tags)
  | _ => pmErr .unsupported

theorem parseWorld_eq (decl : Json) (version : String) (doc : Json) (cull : Bool) :
    (parseWorld decl version doc cull : PM R (Parsed R)) = (do
  let props ← pmLift (schemaAt decl ["properties"])
  let c : Cur := ⟨doc, props⟩
  let v ← pmLift (c.getStr "version")
  if v != version then pmErr .version
  let csAlts ← pmLift (schemaAt props ["coordinate system", "oneOf"])
  let coord : CoordSys R ← (match c.val? "coordinate system" with
    | none => pure ⟨false, .none, Scalar.inf⟩
    | some o => do
      let (m, cc) ← pmLift (pluginCursor csAlts o)
      if m == "spherical" then do
        let dm ← pmLift (cc.getStr "depth method")
        let method : DepthMethod :=
          if dm == "starting point" then .startingPoint
          else if dm == "begin segment" then .beginSegment
          else if dm == "begin at end segment" then .beginAtEndSegment
          else .continuous
        if method == .continuous then pmErr .option
        let r : R ← pmLift (cc.getNum "radius")
        pure ⟨true, method, r⟩
      else pure ⟨false, .none, Scalar.inf⟩)
  let gAlts ← pmLift (schemaAt props ["gravity model", "oneOf"])
  let gravity : R ← (match c.val? "gravity model" with
    | none => do
      let a ← pmLift (schemaAt gAlts ["0", "properties", "magnitude", "default value"])
      pmLift (jnum a)
    | some o => do
      let (_, cc) ← pmLift (pluginCursor gAlts o)
      pmLift (cc.getNum "magnitude"))
  let cross : Option (P2 R × P2 R) ← (match c.val? "cross section" with
    | none => pure none
    | some _ => do
      let pts ← pmLift (c.getPoint2Vec "cross section")
      match pts with
      | [a, b] =>
        let f : R := if coord.spherical then Scalar.pi / 180.0 else 1.0
        pure (some ((⟨a.x * f, a.y * f⟩ : P2 R), (⟨b.x * f, b.y * f⟩ : P2 R)))
      | _ => pmErr .other)
  let ctx : Ctx R :=
    { coord := coord
      potentialT := ← pmLift (c.getNum "potential mantle temperature")
      surfaceT := ← pmLift (c.getNum "surface temperature")
      forceSurfaceT := ← pmLift (c.getBool "force surface temperature")
      alpha := ← pmLift (c.getNum "thermal expansion coefficient")
      cp := ← pmLift (c.getNum "specific heat")
      kappa := ← pmLift (c.getNum "thermal diffusivity")
      gravity := gravity }
  let seed ← pmLift (c.getInt "random number seed")
  let feats ← pmLift (c.pluginList "features")
  let (features, tags) ← feats.foldlM (featureStep ctx cull) (([] : List (Feature R)), ([] : List String))
  return { world := { ctx := ctx, cross := cross, features := features }, tags := tags,
           seed := if seed ≥ 0 then some seed.toNat else none }) := by
  rfl

theorem mapM_congr_forall2 {α β : Type} (f g : α → Except Err β) (l l' : List α)
    (h : List.Forall₂ (fun a a' => f a = g a') l l') : l.mapM f = l'.mapM g := by
  induction h with
  | nil => rfl
  | cons hab _ ih => rw [List.mapM_cons, List.mapM_cons, hab, ih]

theorem foldlM_congr_forall2 {m : Type → Type} [Monad m] {α β : Type} (f g : β → α → m β) (l l' : List α)
    (h : List.Forall₂ (fun a a' => ∀ b, f b a = g b a') l l') (b : β) : l.foldlM f b = l'.foldlM g b := by
  induction h generalizing b with
  | nil => rfl
  | cons hab _ ih =>
    rw [List.foldlM_cons, List.foldlM_cons, hab b]
    congr 1
    funext b'
    exact ih b'

/-- `parseSegments` of two objects whose `segments` arrays parse alike element by element -/
theorem parseSegments_of_forall2 (ctx : Ctx R) (isFault : Bool) (obj obj' : Json) (segSchema : Json) (anc anc' : List Json)
    (a a' : Array Json)
    (h : (obj.getObjVal? "segments").toOption = some (.arr a)) (h' : (obj'.getObjVal? "segments").toOption = some (.arr a'))
    (hall : List.Forall₂ (fun sj sj' => parseSegment ctx isFault ⟨sj', segSchema⟩ anc' = parseSegment ctx isFault ⟨sj, segSchema⟩ anc)
      a.toList a'.toList) :
    parseSegments ctx isFault obj' segSchema anc' = parseSegments ctx isFault obj segSchema anc := by
  unfold parseSegments
  rw [h, h']
  simp only [jarr, bind, Except.bind]
  exact (mapM_congr_forall2 _ _ _ _ (List.Forall₂.imp (fun _ _ h => h.symm) hall)).symm

theorem sectionStep_congr (ctx : Ctx R) (isFault : Bool) (c c' : Cur) (n : Nat) (defaultSegs : List (Segment R))
    (secSegSchema secProps sj sj' : Json) (acc : List (List (Segment R)))
    (hk : sectionCoordinate secProps sj' = sectionCoordinate secProps sj)
    (hs : parseSegments ctx isFault sj' secSegSchema [sj', c'.obj] = parseSegments ctx isFault sj secSegSchema [sj, c.obj]) :
    sectionStep ctx isFault c' n defaultSegs secSegSchema secProps acc sj' =
    sectionStep ctx isFault c n defaultSegs secSegSchema secProps acc sj := by
  unfold sectionStep
  rw [hk, hs]

/-- two `sections` entries that `parseLine` cannot tell apart (under features `c`, `c'`) -/
def SectionEntryEquiv (ctx : Ctx R) (isFault : Bool) (c c' : Cur) (sj sj' : Json) : Prop :=
  (∀ secProps, sectionCoordinate secProps sj' = sectionCoordinate secProps sj) ∧
  (∀ segSchema, parseSegments ctx isFault sj' segSchema [sj', c'.obj] = parseSegments ctx isFault sj segSchema [sj, c.obj])

theorem parseLineSections_congr (ctx : Ctx R) (isFault : Bool) (c c' : Cur) (n : Nat) (defaultSegs : List (Segment R))
    (hschema : c'.schema = c.schema)
    (h : (c.val? "sections" = none ∧ c'.val? "sections" = none) ∨
         ∃ es es' : Array Json, c.val? "sections" = some (.arr es) ∧ c'.val? "sections" = some (.arr es') ∧
           List.Forall₂ (SectionEntryEquiv ctx isFault c c') es.toList es'.toList) :
    parseLineSections ctx isFault c' n defaultSegs = parseLineSections ctx isFault c n defaultSegs := by
  unfold parseLineSections
  rcases h with ⟨h1, h2⟩ | ⟨es, es', h1, h2, hall⟩
  · rw [h1, h2]
  · rw [h1, h2, hschema]
    simp only [jarr, bind, Except.bind]
    cases schemaAt c.schema ["sections", "items", "properties", "segments", "items", "properties"] with
    | error e => rfl
    | ok sss =>
      cases schemaAt c.schema ["sections", "items", "properties"] with
      | error e => rfl
      | ok sp =>
        dsimp only
        refine (foldlM_congr_forall2 _ _ _ _ ?_ _).symm
        refine List.Forall₂.imp ?_ hall
        intro sj sj' hsj acc
        exact (sectionStep_congr ctx isFault c c' n defaultSegs sss sp sj sj' acc (hsj.1 sp) (hsj.2 sss)).symm

/-- the scalar keys of a slab / fault object -/
def lineScalarKeys : List String := ["name", "tag", "coordinates", "min depth", "max depth", "dip point"]

/-- `parseLine` depends on the feature object only through its scalar entries, its parsed default segments and its parsed sections -/
theorem parseLine_congr (ctx : Ctx R) (isFault : Bool) (c c' : Cur) (tags : List String) (cull : Bool)
    (hschema : c'.schema = c.schema)
    (hkeys : ∀ key ∈ lineScalarKeys, c'.val? key = c.val? key)
    (hsegs : ∀ segSchema, parseSegments ctx isFault c'.obj segSchema [c'.obj] = parseSegments ctx isFault c.obj segSchema [c.obj])
    (hsecs : ∀ n ds, parseLineSections ctx isFault c' n ds = parseLineSections ctx isFault c n ds) :
    parseLine ctx isFault c' tags cull = parseLine ctx isFault c tags cull := by
  rw [parseLine_eq, parseLine_eq]
  dsimp only
  rw [Cur.getStr_congr c c' "name" hschema (hkeys _ (by decide)), Cur.getStr_congr c c' "tag" hschema (hkeys _ (by decide)),
    getCoordinates_congr c c' _ (hkeys _ (by decide)), Cur.getNum_congr c c' "min depth" hschema (hkeys _ (by decide)),
    Cur.getNum_congr c c' "max depth" hschema (hkeys _ (by decide)), hkeys "dip point" (by decide), hschema]
  simp only [hsegs, hsecs]

/-- two feature objects that `parseWorld` cannot tell apart (`alts`: the `oneOf` alternatives of the `features` schema): equal, or
both a slab / both a fault (same `model` entry) with equal `parseLine` under the schema `pluginCursor` selects, for every context,
tag table and culling flag -/
def FeatureJsonEquiv (R : Type) [Scalar R] (alts fj fj' : Json) : Prop :=
  fj' = fj ∨
  (((fj.getObjVal? "model").toOption = some (.str "subducting plate") ∨ (fj.getObjVal? "model").toOption = some (.str "fault")) ∧
   (fj'.getObjVal? "model").toOption = (fj.getObjVal? "model").toOption ∧
   ∀ (m : String) (schema : Json), pluginCursor alts fj = .ok (m, ⟨fj, schema⟩) →
     ∀ (ctx : Ctx R) (isFault : Bool) (tags : List String) (cull : Bool),
       parseLine ctx isFault ⟨fj', schema⟩ tags cull = parseLine ctx isFault ⟨fj, schema⟩ tags cull)

/-- `pluginCursor` on two objects with the same `model` entry: same model name, same schema, the respective object -/
theorem pluginCursor_congr (alts fj fj' : Json) (h : (fj'.getObjVal? "model").toOption = (fj.getObjVal? "model").toOption) :
    pluginCursor alts fj' = (pluginCursor alts fj).map (fun mc => (mc.1, ⟨fj', mc.2.schema⟩)) ∧
    ∀ mc, pluginCursor alts fj = .ok mc → mc.2.obj = fj ∧ (fj.getObjVal? "model").toOption = some (.str mc.1) := by
  unfold pluginCursor
  rw [h]
  simp only [bind, Except.bind, pure, Except.pure]
  constructor
  · cases Option.elim (fj.getObjVal? "model").toOption (Except.error Err.schema) Except.ok with
    | error e => rfl
    | ok mj =>
      dsimp only
      cases jstr mj with
      | error e => rfl
      | ok model =>
        dsimp only
        cases jarr alts with
        | error e => rfl
        | ok as =>
          dsimp only
          split
          · rename_i a _
            cases schemaAt a ["properties"] <;> rfl
          · rfl
  · intro mc hmc
    cases hm : Option.elim (fj.getObjVal? "model").toOption (Except.error Err.schema) Except.ok with
    | error e => rw [hm] at hmc; exact absurd hmc (by simp)
    | ok mj =>
      rw [hm] at hmc
      dsimp only at hmc
      have hmj : (fj.getObjVal? "model").toOption = some mj := by
        cases ho : (fj.getObjVal? "model").toOption with
        | none => rw [ho] at hm; exact absurd hm (by simp [Option.elim])
        | some x => rw [ho] at hm; simp only [Option.elim] at hm; rw [Except.ok.inj hm]
      cases hj : jstr mj with
      | error e => rw [hj] at hmc; exact absurd hmc (by simp)
      | ok model =>
        have hstr : mj = .str model := by
          unfold jstr at hj
          split at hj
          · rw [Except.ok.inj hj]
          · exact absurd hj (by simp)
        rw [hj] at hmc
        dsimp only at hmc
        cases ha : jarr alts with
        | error e => rw [ha] at hmc; exact absurd hmc (by simp)
        | ok as =>
          rw [ha] at hmc
          dsimp only at hmc
          split at hmc
          · rename_i a _
            cases hs : schemaAt a ["properties"] with
            | error e => rw [hs] at hmc; exact absurd hmc (by simp)
            | ok sch =>
              rw [hs] at hmc
              rw [← Except.ok.inj hmc]
              exact ⟨rfl, by rw [hmj, hstr]⟩
          · exact absurd hmc (by simp)

theorem featureStep_congr (ctx : Ctx R) (cull : Bool) (acc : List (Feature R) × List String) (m : String) (sch fj fj' : Json)
    (h : fj' = fj ∨ ((m = "subducting plate" ∨ m = "fault") ∧
      ∀ (isFault : Bool) (tags : List String), parseLine ctx isFault ⟨fj', sch⟩ tags cull = parseLine ctx isFault ⟨fj, sch⟩ tags cull)) :
    featureStep ctx cull acc (m, ⟨fj', sch⟩) = featureStep ctx cull acc (m, ⟨fj, sch⟩) := by
  rcases h with rfl | ⟨hm, hp⟩
  · rfl
  · rcases hm with rfl | rfl
    · simp only [featureStep, hp]
    · simp only [featureStep, hp]

/-- two `Except` results related: both fail alike, or both succeed with related values -/
def ExceptRel {β : Type} (Rel : β → β → Prop) : Except Err β → Except Err β → Prop
  | .ok b, .ok b' => Rel b b'
  | .error e, .error e' => e = e'
  | _, _ => False

theorem mapM_rel {α β : Type} (p : α → Except Err β) (Rel : β → β → Prop) (l l' : List α)
    (h : List.Forall₂ (fun a a' => ExceptRel Rel (p a) (p a')) l l') :
    ExceptRel (List.Forall₂ Rel) (l.mapM p) (l'.mapM p) := by
  induction h with
  | nil => exact List.Forall₂.nil
  | @cons a a' l l' hab _ ih =>
    rw [List.mapM_cons, List.mapM_cons]
    cases hpa : p a with
    | error e =>
      cases hpa' : p a' with
      | error e' => rw [hpa, hpa'] at hab; exact hab
      | ok b' => rw [hpa, hpa'] at hab; exact hab.elim
    | ok b =>
      cases hpa' : p a' with
      | error e' => rw [hpa, hpa'] at hab; exact hab.elim
      | ok b' =>
        rw [hpa, hpa'] at hab
        cases hl : l.mapM p with
        | error e =>
          cases hl' : l'.mapM p with
          | error e' => rw [hl, hl'] at ih; exact ih
          | ok bs' => rw [hl, hl'] at ih; exact ih.elim
        | ok bs =>
          cases hl' : l'.mapM p with
          | error e' => rw [hl, hl'] at ih; exact ih.elim
          | ok bs' =>
            rw [hl, hl'] at ih
            exact List.Forall₂.cons hab ih

/-- what `parseWorld` does with two related (model name, cursor) pairs is the same -/
def FeatureCursorEquiv (R : Type) [Scalar R] (mc mc' : String × Cur) : Prop :=
  ∀ (ctx : Ctx R) (cull : Bool) (acc : List (Feature R) × List String), featureStep ctx cull acc mc' = featureStep ctx cull acc mc

theorem pluginCursor_rel (alts fj fj' : Json) (h : FeatureJsonEquiv R alts fj fj') :
    ExceptRel (FeatureCursorEquiv R) (pluginCursor alts fj) (pluginCursor alts fj') := by
  rcases h with rfl | ⟨hm, hmodel, hp⟩
  · cases hpc : pluginCursor alts fj' with
    | error e => exact rfl
    | ok mc => exact fun _ _ _ => rfl
  · obtain ⟨h1, h2⟩ := pluginCursor_congr alts fj fj' hmodel
    rw [h1]
    cases hpc : pluginCursor alts fj with
    | error e => exact rfl
    | ok mc =>
      obtain ⟨hobj, hname⟩ := h2 mc hpc
      obtain ⟨m, ⟨obj, sch⟩⟩ := mc
      simp only at hobj hname
      subst hobj
      intro ctx cull acc
      apply featureStep_congr ctx cull acc m sch obj fj'
      right
      refine ⟨?_, fun isFault tags => hp m sch hpc ctx isFault tags cull⟩
      rcases hm with hm | hm
      · rw [hm] at hname; left; exact (Json.str.inj (Option.some.inj hname)).symm
      · rw [hm] at hname; right; exact (Json.str.inj (Option.some.inj hname)).symm

/-- the feature part of `parseWorld`: plugin list, then the fold -/
theorem features_congr (ctx : Ctx R) (cull : Bool) (c c' : Cur) (hschema : c'.schema = c.schema)
    (hfeat : (c.val? "features" = none ∧ c'.val? "features" = none) ∨
      ∃ fs fs' : Array Json, c.val? "features" = some (.arr fs) ∧ c'.val? "features" = some (.arr fs') ∧
        ∀ alts, schemaAt c.schema ["features", "items", "oneOf"] = .ok alts →
          List.Forall₂ (FeatureJsonEquiv R alts) fs.toList fs'.toList) :
    ((pmLift (c'.pluginList "features") : PM R _) >>= fun feats =>
        feats.foldlM (featureStep ctx cull) (([] : List (Feature R)), ([] : List String))) =
    ((pmLift (c.pluginList "features") : PM R _) >>= fun feats =>
        feats.foldlM (featureStep ctx cull) (([] : List (Feature R)), ([] : List String))) := by
  unfold Cur.pluginList
  rcases hfeat with ⟨h1, h2⟩ | ⟨fs, fs', h1, h2, hall⟩
  · rw [h1, h2]
  · rw [h1, h2, hschema]
    simp only [jarr, bind, Except.bind]
    cases halts : schemaAt c.schema ["features", "items", "oneOf"] with
    | error e => rfl
    | ok alts =>
      dsimp only
      have hrel := mapM_rel (pluginCursor alts) (FeatureCursorEquiv R) fs.toList fs'.toList
        (List.Forall₂.imp (fun fj fj' h => pluginCursor_rel alts fj fj' h) (hall alts halts))
      cases hl : fs.toList.mapM (pluginCursor alts) with
      | error e =>
        cases hl' : fs'.toList.mapM (pluginCursor alts) with
        | error e' => rw [hl, hl'] at hrel; rw [show e' = e from hrel.symm]
        | ok ms' => rw [hl, hl'] at hrel; exact hrel.elim
      | ok ms =>
        cases hl' : fs'.toList.mapM (pluginCursor alts) with
        | error e' => rw [hl, hl'] at hrel; exact hrel.elim
        | ok ms' =>
          rw [hl, hl'] at hrel
          funext st
          show (ms'.foldlM (featureStep ctx cull) (([] : List (Feature R)), ([] : List String))) st =
               (ms.foldlM (featureStep ctx cull) (([] : List (Feature R)), ([] : List String))) st
          rw [foldlM_congr_forall2 (featureStep ctx cull) (featureStep ctx cull) ms ms'
            (List.Forall₂.imp (fun mc mc' h acc => (h ctx cull acc).symm) hrel)]

theorem features_congr' {γ : Type} (ctx : Ctx R) (cull : Bool) (c c' : Cur) (hschema : c'.schema = c.schema)
    (hfeat : (c.val? "features" = none ∧ c'.val? "features" = none) ∨
      ∃ fs fs' : Array Json, c.val? "features" = some (.arr fs) ∧ c'.val? "features" = some (.arr fs') ∧
        ∀ alts, schemaAt c.schema ["features", "items", "oneOf"] = .ok alts →
          List.Forall₂ (FeatureJsonEquiv R alts) fs.toList fs'.toList)
    (K : List (Feature R) × List String → PM R γ) :
    ((pmLift (c'.pluginList "features") : PM R _) >>= fun feats =>
        feats.foldlM (featureStep ctx cull) (([] : List (Feature R)), ([] : List String)) >>= K) =
    ((pmLift (c.pluginList "features") : PM R _) >>= fun feats =>
        feats.foldlM (featureStep ctx cull) (([] : List (Feature R)), ([] : List String)) >>= K) := by
  rw [← bind_assoc, ← bind_assoc, features_congr ctx cull c c' hschema hfeat]

theorem pm_bind_congr_ok {α β : Type} (e : Except Err α) (f g : α → PM R β) (h : ∀ a, e = .ok a → f a = g a) :
    (pmLift e >>= f) = (pmLift e >>= g) := by
  cases e with
  | error err => rfl
  | ok a =>
    have := h a rfl
    funext st
    show f a st = g a st
    rw [this]

theorem Cur.getBool_congr (c c0 : Cur) (name : String) (hs : c0.schema = c.schema) (hv : c0.val? name = c.val? name) :
    c0.getBool name = c.getBool name := by
  unfold Cur.getBool; rw [hv, hs]

theorem Cur.getInt_congr (c c0 : Cur) (name : String) (hs : c0.schema = c.schema) (hv : c0.val? name = c.val? name) :
    c0.getInt name = c.getInt name := by
  unfold Cur.getInt; rw [hv, hs]

theorem Cur.getPoint2Vec_congr (c c0 : Cur) (name : String) (hv : c0.val? name = c.val? name) :
    (c0.getPoint2Vec name : Except Err (List (P2 R))) = c.getPoint2Vec name := by
  unfold Cur.getPoint2Vec; rw [hv]

/-- the top-level keys `parseWorld` reads, other than `features` -/
def worldScalarKeys : List String :=
  ["version", "coordinate system", "gravity model", "cross section", "potential mantle temperature", "surface temperature",
   "force surface temperature", "thermal expansion coefficient", "specific heat", "thermal diffusivity", "random number seed"]

/-- two documents that agree on the scalar top-level entries and whose `features` arrays are equivalent element by element build
the same world -/
theorem parseWorld_congr (decl : Json) (version : String) (doc doc' : Json) (cull : Bool)
    (hkeys : ∀ key ∈ worldScalarKeys, (doc'.getObjVal? key).toOption = (doc.getObjVal? key).toOption)
    (hfeat : ((doc.getObjVal? "features").toOption = none ∧ (doc'.getObjVal? "features").toOption = none) ∨
      ∃ fs fs' : Array Json, (doc.getObjVal? "features").toOption = some (.arr fs) ∧
        (doc'.getObjVal? "features").toOption = some (.arr fs') ∧
        ∀ props alts, schemaAt decl ["properties"] = .ok props → schemaAt props ["features", "items", "oneOf"] = .ok alts →
          List.Forall₂ (FeatureJsonEquiv R alts) fs.toList fs'.toList) :
    (parseWorld decl version doc' cull : PM R (Parsed R)) = parseWorld decl version doc cull := by
  rw [parseWorld_eq, parseWorld_eq]
  refine pm_bind_congr_ok _ _ _ (fun props hprops => ?_)
  have hfeat' : ((Cur.mk doc props).val? "features" = none ∧ (Cur.mk doc' props).val? "features" = none) ∨
      ∃ fs fs' : Array Json, (Cur.mk doc props).val? "features" = some (.arr fs) ∧ (Cur.mk doc' props).val? "features" = some (.arr fs') ∧
        ∀ alts, schemaAt (Cur.mk doc props).schema ["features", "items", "oneOf"] = .ok alts →
          List.Forall₂ (FeatureJsonEquiv R alts) fs.toList fs'.toList := by
    rcases hfeat with h | ⟨fs, fs', h1, h2, h3⟩
    · exact .inl h
    · exact .inr ⟨fs, fs', h1, h2, fun alts ha => h3 props alts hprops ha⟩
  have hv : ∀ key ∈ worldScalarKeys, (Cur.mk doc' props).val? key = (Cur.mk doc props).val? key := hkeys
  dsimp only
  rw [Cur.getStr_congr ⟨doc, props⟩ ⟨doc', props⟩ "version" rfl (hv _ (by decide)),
    hv "coordinate system" (by decide), hv "gravity model" (by decide), hv "cross section" (by decide),
    Cur.getPoint2Vec_congr ⟨doc, props⟩ ⟨doc', props⟩ "cross section" (hv _ (by decide)),
    Cur.getNum_congr ⟨doc, props⟩ ⟨doc', props⟩ "potential mantle temperature" rfl (hv _ (by decide)),
    Cur.getNum_congr ⟨doc, props⟩ ⟨doc', props⟩ "surface temperature" rfl (hv _ (by decide)),
    Cur.getBool_congr ⟨doc, props⟩ ⟨doc', props⟩ "force surface temperature" rfl (hv _ (by decide)),
    Cur.getNum_congr ⟨doc, props⟩ ⟨doc', props⟩ "thermal expansion coefficient" rfl (hv _ (by decide)),
    Cur.getNum_congr ⟨doc, props⟩ ⟨doc', props⟩ "specific heat" rfl (hv _ (by decide)),
    Cur.getNum_congr ⟨doc, props⟩ ⟨doc', props⟩ "thermal diffusivity" rfl (hv _ (by decide)),
    Cur.getInt_congr ⟨doc, props⟩ ⟨doc', props⟩ "random number seed" rfl (hv _ (by decide))]
  have key := fun (ctx : Ctx R) (K : List (Feature R) × List String → PM R (Parsed R)) =>
    features_congr' ctx cull ⟨doc, props⟩ ⟨doc', props⟩ rfl hfeat' K
  simp only [key]

/-- `sj'` is the segment `sj` with some of the model lists it inherits from the chain `anc` written out explicitly -/
structure SegmentExplicit (anc : List Json) (sj sj' : Json) : Prop where
  length : (sj'.getObjVal? "length").toOption = (sj.getObjVal? "length").toOption
  thickness : (sj'.getObjVal? "thickness").toOption = (sj.getObjVal? "thickness").toOption
  topTruncation : (sj'.getObjVal? "top truncation").toOption = (sj.getObjVal? "top truncation").toOption
  angle : (sj'.getObjVal? "angle").toOption = (sj.getObjVal? "angle").toOption
  models : ∀ k ∈ segmentModelKeys, (sj'.getObjVal? k).toOption = (sj.getObjVal? k).toOption ∨
    ((sj.getObjVal? k).toOption = none ∧ (sj'.getObjVal? k).toOption = inheritedJson anc k)

theorem parseSegment_explicit (ctx : Ctx R) (isFault : Bool) (S : Json) (anc anc' : List Json) (sj sj' : Json)
    (h : SegmentExplicit anc sj sj') (hanc : ∀ k ∈ segmentModelKeys, inheritedJson anc' k = inheritedJson anc k) :
    parseSegment ctx isFault ⟨sj', S⟩ anc' = parseSegment ctx isFault ⟨sj, S⟩ anc := by
  have key : ∀ k ∈ segmentModelKeys, resolveModels ⟨sj', S⟩ anc' k = resolveModels ⟨sj, S⟩ anc k := by
    intro k hk
    apply resolveModels_congr ⟨sj, S⟩ ⟨sj', S⟩ anc anc' k rfl
    show ((sj'.getObjVal? k).toOption).orElse (fun _ => inheritedJson anc' k) =
         ((sj.getObjVal? k).toOption).orElse (fun _ => inheritedJson anc k)
    rw [hanc k hk]
    rcases h.models k hk with h1 | ⟨h1, h2⟩
    · rw [h1]
    · rw [h1, h2]
      cases inheritedJson anc k <;> rfl
  exact parseSegment_congr ctx isFault _ _ anc anc' h.length h.thickness h.topTruncation h.angle
    (key _ (by simp [segmentModelKeys])) (key _ (by simp [segmentModelKeys]))
    (key _ (by simp [segmentModelKeys])) (key _ (by simp [segmentModelKeys]))

/-- the `segments` array of `obj'` is that of `obj` with inherited models written out, segment by segment -/
def SegmentsExplicit (anc : List Json) (obj obj' : Json) : Prop :=
  ∃ a a' : Array Json, (obj.getObjVal? "segments").toOption = some (.arr a) ∧ (obj'.getObjVal? "segments").toOption = some (.arr a') ∧
    List.Forall₂ (SegmentExplicit anc) a.toList a'.toList

theorem parseSegments_explicit (ctx : Ctx R) (isFault : Bool) (S : Json) (anc anc' : List Json) (obj obj' : Json)
    (h : SegmentsExplicit anc obj obj') (hanc : ∀ k ∈ segmentModelKeys, inheritedJson anc' k = inheritedJson anc k) :
    parseSegments ctx isFault obj' S anc' = parseSegments ctx isFault obj S anc := by
  obtain ⟨a, a', h1, h2, hall⟩ := h
  exact parseSegments_of_forall2 ctx isFault obj obj' S anc anc' a a' h1 h2
    (List.Forall₂.imp (fun sj sj' hs => parseSegment_explicit ctx isFault S anc anc' sj sj' hs hanc) hall)

theorem inheritedJson_congr_two (a b a' b' : Json) (k : String)
    (ha : (a'.getObjVal? k).toOption = (a.getObjVal? k).toOption) (hb : (b'.getObjVal? k).toOption = (b.getObjVal? k).toOption) :
    inheritedJson [a', b'] k = inheritedJson [a, b] k := by
  unfold inheritedJson
  simp only [List.findSome?, ha, hb]

/-- the slab / fault object `c'` is `c` with inherited segment models written out explicitly (in the default segments and in the
segments of its `sections` entries); everything else is untouched -/
structure FeatureExplicit (c c' : Cur) : Prop where
  schema : c'.schema = c.schema
  scalars : ∀ key ∈ lineScalarKeys, c'.val? key = c.val? key
  models : ∀ k ∈ segmentModelKeys, (c'.obj.getObjVal? k).toOption = (c.obj.getObjVal? k).toOption
  segments : SegmentsExplicit [c.obj] c.obj c'.obj
  sections : (c.val? "sections" = none ∧ c'.val? "sections" = none) ∨
    ∃ es es' : Array Json, c.val? "sections" = some (.arr es) ∧ c'.val? "sections" = some (.arr es') ∧
      List.Forall₂ (fun sj sj' =>
        (sj'.getObjVal? "coordinate").toOption = (sj.getObjVal? "coordinate").toOption ∧
        (∀ k ∈ segmentModelKeys, (sj'.getObjVal? k).toOption = (sj.getObjVal? k).toOption) ∧
        SegmentsExplicit [sj, c.obj] sj sj') es.toList es'.toList

/-- writing the inherited models explicitly into every segment builds the same feature -/
theorem parseLine_explicit (ctx : Ctx R) (isFault : Bool) (c c' : Cur) (tags : List String) (cull : Bool) (h : FeatureExplicit c c') :
    parseLine ctx isFault c' tags cull = parseLine ctx isFault c tags cull := by
  apply parseLine_congr ctx isFault c c' tags cull h.schema h.scalars
  · intro S
    exact parseSegments_explicit ctx isFault S [c.obj] [c'.obj] c.obj c'.obj h.segments
      (fun k hk => inheritedJson_congr_head c'.obj c.obj k (h.models k hk))
  · intro n ds
    apply parseLineSections_congr ctx isFault c c' n ds h.schema
    rcases h.sections with hn | ⟨es, es', h1, h2, hall⟩
    · exact .inl hn
    · refine .inr ⟨es, es', h1, h2, List.Forall₂.imp ?_ hall⟩
      intro sj sj' ⟨hc, hm, hs⟩
      constructor
      · intro secProps
        unfold sectionCoordinate
        show (match (sj'.getObjVal? "coordinate").toOption with
          | some kv => jnat kv
          | none => do jnat (← schemaAt secProps ["coordinate", "default value"])) = _
        rw [hc]
        rfl
      · intro S
        exact parseSegments_explicit ctx isFault S [sj, c.obj] [sj', c'.obj] sj sj' hs
          (fun k hk => inheritedJson_congr_two sj c.obj sj' c'.obj k (hm k hk) (h.models k hk))

end world

end Gwb
