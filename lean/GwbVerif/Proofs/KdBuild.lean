/-
`buildMedian` (the model's own `create_tree`, Model/Geometry/KdTree.lean) establishes `KdInv` for its output.
Insertion sort `kdSort` is a permutation and sorts by the axis key; the median split of a sorted list has everything before the
median `≤` and everything after `≥`; `buildMedian` permutes each half (so key bounds survive) and the index arithmetic
`(l + r)/2 = l + (r - l)/2` lines the list positions up with the `mid` of `kdSearch`.
Only the order on `F` is used (no libm member).
-/
import GwbVerif.Proofs.KdTree
namespace Gwb
open Scalar
section
variable {F : Type} [Field F] [LinearOrder F] [IsStrictOrderedRing F] (T : Transc F)

theorem kdInsert_perm (ax : Bool) (n : KdNode F) (l : List (KdNode F)) :
    (@kdInsert F (fieldScalar T) ax n l).Perm (n :: l) := by
  induction l with
  | nil => exact List.Perm.refl _
  | cons m ms ih =>
    unfold kdInsert
    split
    · exact List.Perm.refl _
    · exact ((List.Perm.cons m ih).trans (List.Perm.swap n m ms))

theorem kdSort_perm (ax : Bool) (l : List (KdNode F)) : (@kdSort F (fieldScalar T) ax l).Perm l := by
  induction l with
  | nil => exact List.Perm.refl _
  | cons m ms ih =>
    show (@kdInsert F (fieldScalar T) ax m (@kdSort F (fieldScalar T) ax ms)).Perm (m :: ms)
    exact (kdInsert_perm T ax m _).trans (List.Perm.cons m ih)

theorem kdInsert_sorted (ax : Bool) (n : KdNode F) (l : List (KdNode F))
    (h : l.Pairwise (fun a b => a.get ax ≤ b.get ax)) :
    (@kdInsert F (fieldScalar T) ax n l).Pairwise (fun a b => a.get ax ≤ b.get ax) := by
  induction l with
  | nil => simp [kdInsert]
  | cons m ms ih =>
    unfold kdInsert
    rw [List.pairwise_cons] at h
    split
    · rename_i hlt
      have hlt' : n.get ax < m.get ax := hlt
      refine List.pairwise_cons.2 ⟨?_, List.pairwise_cons.2 h⟩
      intro b hb
      rcases List.mem_cons.1 hb with rfl | hb
      · exact hlt'.le
      · exact le_trans hlt'.le (h.1 b hb)
    · rename_i hlt
      have hle : m.get ax ≤ n.get ax := not_lt.1 hlt
      refine List.pairwise_cons.2 ⟨?_, ih h.2⟩
      intro b hb
      rcases List.mem_cons.1 ((kdInsert_perm T ax n ms).mem_iff.1 hb) with rfl | hb
      · exact hle
      · exact h.1 b hb

theorem kdSort_sorted (ax : Bool) (l : List (KdNode F)) :
    (@kdSort F (fieldScalar T) ax l).Pairwise (fun a b => a.get ax ≤ b.get ax) := by
  induction l with
  | nil => simp [kdSort]
  | cons m ms ih => exact kdInsert_sorted T ax m _ ih

theorem buildMedian_zero (ns : List (KdNode F)) (ax : Bool) : @buildMedian F (fieldScalar T) 0 ns ax = ns := rfl
theorem buildMedian_nil (fuel : Nat) (ax : Bool) : @buildMedian F (fieldScalar T) fuel [] ax = [] := by
  cases fuel <;> rfl
theorem buildMedian_single (fuel : Nat) (n : KdNode F) (ax : Bool) : @buildMedian F (fieldScalar T) fuel [n] ax = [n] := by
  cases fuel <;> rfl

theorem buildMedian_succ (fuel : Nat) (a b : KdNode F) (rest : List (KdNode F)) (ax : Bool) :
    @buildMedian F (fieldScalar T) (fuel + 1) (a :: b :: rest) ax =
      match (@kdSort F (fieldScalar T) ax (a :: b :: rest))[(rest.length + 1) / 2]? with
      | none => @kdSort F (fieldScalar T) ax (a :: b :: rest)
      | some m =>
        @buildMedian F (fieldScalar T) fuel ((@kdSort F (fieldScalar T) ax (a :: b :: rest)).take ((rest.length + 1) / 2)) (!ax) ++
          m :: @buildMedian F (fieldScalar T) fuel ((@kdSort F (fieldScalar T) ax (a :: b :: rest)).drop ((rest.length + 1) / 2 + 1)) (!ax) := by
  rfl

theorem buildMedian_perm (fuel : Nat) (ns : List (KdNode F)) (ax : Bool) :
    (@buildMedian F (fieldScalar T) fuel ns ax).Perm ns := by
  induction fuel generalizing ns ax with
  | zero => exact List.Perm.refl _
  | succ fuel ih =>
    match ns with
    | [] => rw [buildMedian_nil]
    | [n] => rw [buildMedian_single]
    | a :: b :: rest =>
      rw [buildMedian_succ]
      have hp := kdSort_perm T ax (a :: b :: rest)
      split
      · exact hp
      · rename_i m hm
        refine List.Perm.trans ?_ hp
        obtain ⟨hlt, rfl⟩ := List.getElem?_eq_some_iff.1 hm
        refine (List.Perm.append (ih _ _) (List.Perm.cons _ (ih _ _))).trans ?_
        rw [List.getElem_cons_drop, List.take_append_drop]

theorem buildMedian_length (fuel : Nat) (ns : List (KdNode F)) (ax : Bool) :
    (@buildMedian F (fieldScalar T) fuel ns ax).length = ns.length := (buildMedian_perm T fuel ns ax).length_eq

theorem mem_of_getElem?_append3 {α : Type} (pre mid post : List α) (j : Nat) (x : α)
    (h : (pre ++ mid ++ post)[j]? = some x) (h1 : pre.length ≤ j) (h2 : j < pre.length + mid.length) : x ∈ mid := by
  rw [List.getElem?_append_left (by rw [List.length_append]; exact h2), List.getElem?_append_right h1] at h
  exact List.mem_of_getElem? h

omit [Field F] [IsStrictOrderedRing F] in
/-- the median split of a sorted list: everything before position `k` is `≤` the element at `k`, everything after is `≥` -/
theorem sorted_split (ax : Bool) (l : List (KdNode F)) (k : Nat) (hk : k < l.length)
    (h : l.Pairwise (fun a b => a.get ax ≤ b.get ax)) :
    (∀ a ∈ l.take k, a.get ax ≤ l[k].get ax) ∧ (∀ b ∈ l.drop (k + 1), l[k].get ax ≤ b.get ax) := by
  have e : l = l.take k ++ l[k] :: l.drop (k + 1) := by rw [List.getElem_cons_drop, List.take_append_drop]
  rw [e, List.pairwise_append] at h
  obtain ⟨_, h2, h3⟩ := h
  exact ⟨fun a ha => h3 a ha _ List.mem_cons_self, (List.pairwise_cons.1 h2).1⟩

theorem buildMedian_inv (fuel : Nat) : ∀ (ns : List (KdNode F)) (ax : Bool) (pre post : List (KdNode F)),
    ns ≠ [] → ns.length ≤ fuel + 1 →
    @KdInv F (fieldScalar T) (pre ++ @buildMedian F (fieldScalar T) fuel ns ax ++ post).toArray
      pre.length (pre.length + ns.length - 1) ax := by
  induction fuel with
  | zero =>
    intro ns ax pre post hne hlen
    match ns, hne, hlen with
    | [n], _, _ =>
      refine @KdInv.node F (fieldScalar T) _ _ _ _ ?_ ?_ ?_ ?_
      all_goals simp only [List.length_singleton]
      · intro j _ _ _ _ h1 h2; omega
      · intro j _ _ _ _ h1 h2; omega
      · intro h; omega
      · intro h; omega
    | _ :: _ :: _, _, h => simp at h
  | succ fuel ih =>
    intro ns ax pre post hne hlen
    match ns, hne, hlen with
    | [n], _, _ =>
      refine @KdInv.node F (fieldScalar T) _ _ _ _ ?_ ?_ ?_ ?_
      all_goals simp only [List.length_singleton]
      · intro j _ _ _ _ h1 h2; omega
      · intro j _ _ _ _ h1 h2; omega
      · intro h; omega
      · intro h; omega
    | a :: b :: rest, _, hlen =>
      rw [buildMedian_succ]
      have hp := kdSort_perm T ax (a :: b :: rest)
      have hslen : (@kdSort F (fieldScalar T) ax (a :: b :: rest)).length = rest.length + 2 := by
        rw [hp.length_eq]; rfl
      have hk : (rest.length + 1) / 2 < (@kdSort F (fieldScalar T) ax (a :: b :: rest)).length := by omega
      rw [List.getElem?_eq_getElem hk]
      simp only []
      obtain ⟨hL, hR⟩ := sorted_split ax _ _ hk (kdSort_sorted T ax (a :: b :: rest))
      generalize hsorted : @kdSort F (fieldScalar T) ax (a :: b :: rest) = sorted at *
      set k := (rest.length + 1) / 2 with hkdef
      set m := sorted[k] with hm
      set BL := @buildMedian F (fieldScalar T) fuel (sorted.take k) (!ax) with hBL
      set BR := @buildMedian F (fieldScalar T) fuel (sorted.drop (k + 1)) (!ax) with hBR
      have hBLlen : BL.length = k := by rw [hBL, buildMedian_length, List.length_take]; omega
      have hBRlen : BR.length = rest.length + 2 - (k + 1) := by rw [hBR, buildMedian_length, List.length_drop, hslen]
      have hmid : (pre.length + (pre.length + (a :: b :: rest).length - 1)) / 2 = pre.length + k := by
        simp only [List.length_cons]; omega
      have hget : (pre ++ (BL ++ m :: BR) ++ post).toArray[pre.length + k]? = some m := by
        rw [List.getElem?_toArray, List.append_assoc, List.getElem?_append_right (by omega),
          List.append_assoc, List.getElem?_append_right (by omega)]
        simp [hBLlen]
      refine @KdInv.node F (fieldScalar T) _ _ _ _ ?_ ?_ ?_ ?_
      · intro j nj nm hnm hnj h1 h2
        rw [hmid] at hnm h2
        rw [hget] at hnm; cases hnm
        rw [List.getElem?_toArray, show pre ++ (BL ++ m :: BR) ++ post = pre ++ BL ++ (m :: BR ++ post) by simp] at hnj
        have := mem_of_getElem?_append3 _ _ _ _ _ hnj h1 (by omega)
        exact hL nj ((buildMedian_perm T fuel _ _).mem_iff.1 this)
      · intro j nj nm hnm hnj h1 h2
        rw [hmid] at hnm h1
        rw [hget] at hnm; cases hnm
        rw [List.getElem?_toArray, show pre ++ (BL ++ m :: BR) ++ post = (pre ++ BL ++ [m]) ++ BR ++ post by simp] at hnj
        have := mem_of_getElem?_append3 _ _ _ _ _ hnj (by simp; omega) (by simp at h2 ⊢; omega)
        exact hR nj ((buildMedian_perm T fuel _ _).mem_iff.1 this)
      · intro h
        rw [hmid] at h ⊢
        have h0 : sorted.take k ≠ [] := by
          intro h0; have := congrArg List.length h0; rw [List.length_take, List.length_nil] at this; omega
        have := ih (sorted.take k) (!ax) pre (m :: BR ++ post) h0 (by rw [List.length_take]; simp at hlen; omega)
        rw [show pre ++ (BL ++ m :: BR) ++ post = pre ++ BL ++ (m :: BR ++ post) by simp]
        convert this using 2
        rw [List.length_take]; omega
      · intro h
        rw [hmid] at h ⊢
        simp only [List.length_cons] at h hlen ⊢
        have h0 : sorted.drop (k + 1) ≠ [] := by
          intro h0; have := congrArg List.length h0; rw [List.length_drop, List.length_nil] at this; omega
        have := ih (sorted.drop (k + 1)) (!ax) (pre ++ BL ++ [m]) post h0 (by rw [List.length_drop, hslen]; omega)
        rw [show pre ++ (BL ++ m :: BR) ++ post = (pre ++ BL ++ [m]) ++ BR ++ post by simp]
        convert this using 2
        · simp; omega
        · simp; omega

/-- the tree built from a non-empty list with enough fuel satisfies the invariant on its whole index range -/
theorem buildMedian_inv_whole (fuel : Nat) (ns : List (KdNode F)) (ax : Bool) (hne : ns ≠ []) (hf : ns.length ≤ fuel + 1) :
    @KdInv F (fieldScalar T) (@buildMedian F (fieldScalar T) fuel ns ax).toArray 0
      ((@buildMedian F (fieldScalar T) fuel ns ax).toArray.size - 1) ax := by
  have := buildMedian_inv T fuel ns ax [] [] hne hf
  simpa [buildMedian_length] using this
end
end Gwb
