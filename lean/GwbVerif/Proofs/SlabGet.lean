/-
`MassConserving.get` (`MassConserving::get_temperature`, mass_conserving.cc:288-637) unfolded into named intermediate quantities.

Part 1 (every `Scalar R`, no laws): with the explicit definitions of `Model/Models/SlabQuery.lean` (`mcBackground`, `mcSubfact`, `mcTcoup`, …,
`mcRegime`, `McQuery.minT`, `.offset`, `.bottomHeat`, `.topHeat`, `.adjustedDistance`, `.analyticT`) the unfolding theorem
`MassConserving.get_eq`: inside the distance range, with the ridge search and the age computation succeeding and without the spline,
`get = applyOp op old (if min_temperature < background then analytic … else old)`.

Part 2 (ordered field, `SlabLaws`): the values of the named quantities in the three regimes, the bounds of `min_temperature`, the sign of
the top heat content, and the envelope of `get` for `operation = replace`.
-/
import GwbVerif.Proofs.SlabEnvelope
import GwbVerif.Model.Models.SlabQuery
namespace Gwb
open Scalar
set_option linter.unusedSectionVars false
set_option linter.unusedVariables false
set_option linter.unusedSimpArgs false

/-! ## Part 1: every `Scalar R` -/
section generic
variable {R : Type} [Scalar R]

theorem except_bind_ite_ok {β : Type} (c : Prop) [Decidable c] (x y : R) (f : R → Except Err β) :
    ((if c then Except.ok x else pure y : Except Err R) >>= f) = f (if c then x else y) := by
  split <;> rfl

/-- **unfolding of `MassConserving.get`** (every scalar type, no laws): inside the distance range, when the ridge search returns
`rp` and `calculate_effective_trench_and_plate_ages` returns `(a, e)`, and without the spline, the result is the operation applied to
the analytic profile of the named quantities if `min_temperature < background`, and to the incoming temperature otherwise -/
theorem MassConserving.get_eq (m : MassConserving R) (ctx : Ctx R) (depth g : R) (pd : PlaneDist R) (ap : AdditionalParams R) (old : R)
    (rp : RidgeParams R) (a e : R)
    (hr : pd.distanceFromPlane ≤ m.mx ∧ pd.distanceFromPlane ≥ m.mn)
    (hridge : ridgeDistanceAndSpreading ctx.coord.spherical m.ridge.ridges m.ridge.vels (ctx.coord.toNatural pd.closestTrenchPoint)
      m.subVel m.migrationTimes = .ok rp)
    (hages : effectiveTrenchAndPlateAges rp pd.distanceAlongPlane = .ok (a, e))
    (hs : m.applySpline = false) :
    m.get ctx depth g pd ap old =
      .ok (applyOp m.op old
        (let q : McQuery R := ⟨m, pd, ap, depth, g, rp, a, e⟩
         if q.minT < q.background then q.analyticT old else old)) := by
  unfold MassConserving.get
  simp only [hr, and_self, if_true, hridge, hages, MassConserving.profile_no_spline m hs, except_bind_ite_ok]
  simp only [bind, Except.bind, hages, pure, Except.pure]
  rfl

end generic

/-! ## Part 2: ordered fields -/
section field
variable {F : Type} [Field F] [LinearOrder F] [IsStrictOrderedRing F]

theorem clamp_min_max (x lo hi : F) (h : lo ≤ hi) : lo ≤ min (max x lo) hi ∧ min (max x lo) hi ≤ hi :=
  ⟨le_min (le_max_right _ _) h, min_le_right _ _⟩
theorem clamp_max_min (x lo hi : F) (h : lo ≤ hi) : lo ≤ max (min x hi) lo ∧ max (min x hi) lo ≤ hi :=
  ⟨le_max_right _ _, max_le (min_le_right _ _) h⟩

theorem mcVsubfact_bounds (T : Transc F) (sv : F) :
    (1 / 10 : F) ≤ @mcVsubfact F (fieldScalar T) sv ∧ @mcVsubfact F (fieldScalar T) sv ≤ 35 / 100 := by
  have e1 : ((OfScientific.ofScientific 1 true 1 : ℚ) : F) = 1 / 10 := by norm_num
  have e2 : ((OfScientific.ofScientific 35 true 2 : ℚ) : F) = 35 / 100 := by norm_num
  unfold mcVsubfact
  simp only [smin_eq, smax_eq, lit_sci T, e1, e2]
  exact clamp_min_max _ _ _ (by norm_num)

theorem mcAgefact_bounds (T : Transc F) (age : F) :
    (1 / 10 : F) ≤ @mcAgefact F (fieldScalar T) age ∧ @mcAgefact F (fieldScalar T) age ≤ 1 := by
  have e1 : ((OfScientific.ofScientific 1 true 1 : ℚ) : F) = 1 / 10 := by norm_num
  have e2 : ((OfScientific.ofScientific 10 true 1 : ℚ) : F) = 1 := by norm_num
  unfold mcAgefact
  simp only [smin_eq, smax_eq, lit_sci T, e1, e2]
  exact clamp_min_max _ _ _ (by norm_num)

theorem mcAgefact2_bounds (T : Transc F) (age : F) :
    (1 / 10 : F) ≤ @mcAgefact2 F (fieldScalar T) age ∧ @mcAgefact2 F (fieldScalar T) age ≤ 35 / 100 := by
  have e1 : ((OfScientific.ofScientific 1 true 1 : ℚ) : F) = 1 / 10 := by norm_num
  have e2 : ((OfScientific.ofScientific 35 true 2 : ℚ) : F) = 35 / 100 := by norm_num
  unfold mcAgefact2
  simp only [smin_eq, smax_eq, lit_sci T, e1, e2]
  exact clamp_max_min _ _ _ (by norm_num)

/-- `subfact ∈ [0.5, 1.65]` for ANY subducting velocity and trench age (the clamps) -/
theorem mcSubfact_bounds (T : Transc F) (sv age : F) :
    (1 / 2 : F) ≤ @mcSubfact F (fieldScalar T) sv age ∧ @mcSubfact F (fieldScalar T) sv age ≤ 165 / 100 := by
  have e3 : ((OfScientific.ofScientific 3 true 1 : ℚ) : F) = 3 / 10 := by norm_num
  obtain ⟨a1, a2⟩ := mcVsubfact_bounds T sv
  obtain ⟨b1, b2⟩ := mcAgefact_bounds T age
  unfold mcSubfact
  simp only [s_add T, lit_sci T, e3]
  constructor <;> linarith

/-- `subfact2 ∈ [0.5, 1.0]` -/
theorem mcSubfact2_bounds (T : Transc F) (sv age : F) :
    (1 / 2 : F) ≤ @mcSubfact2 F (fieldScalar T) sv age ∧ @mcSubfact2 F (fieldScalar T) sv age ≤ 1 := by
  have e3 : ((OfScientific.ofScientific 3 true 1 : ℚ) : F) = 3 / 10 := by norm_num
  obtain ⟨a1, a2⟩ := mcVsubfact_bounds T sv
  obtain ⟨b1, b2⟩ := mcAgefact2_bounds T age
  unfold mcSubfact2
  simp only [s_add T, lit_sci T, e3]
  constructor <;> linarith

theorem mcTcoup_field (T : Transc F) (s : F) : @mcTcoup F (fieldScalar T) s = 10 + (s - 1 / 2) * (350 - 10) := by
  have e5 : ((OfScientific.ofScientific 5 true 1 : ℚ) : F) = 1 / 2 := by norm_num
  unfold mcTcoup
  simp only [s_add T, s_sub T, s_mul T, lit_sci T, e5]

theorem mcTmin660_field (T : Transc F) (s : F) : @mcTmin660 F (fieldScalar T) s = 300 + (s - 1 / 2) * (900 - 300) := by
  have e5 : ((OfScientific.ofScientific 5 true 1 : ℚ) : F) = 1 / 2 := by norm_num
  unfold mcTmin660
  simp only [s_add T, s_sub T, s_mul T, lit_sci T, e5]

/-- the hypothesis under which the taper starts from a sane minimum temperature: the point at which the taper starts
(`depth − Δ·sin(average dip)`) is not above the coupling depth -/
def McQuery.TaperStartsBelowCoupling (T : Transc F) (q : McQuery F) : Prop :=
  q.m.couplingDepth ≤ q.pd.depthReferenceSurface →
  @mcStartTaper F (fieldScalar T) q.m q.ap ≤ q.pd.distanceAlongPlane →
  q.m.couplingDepth ≤ q.pd.depthReferenceSurface -
    (q.pd.distanceAlongPlane - @mcStartTaper F (fieldScalar T) q.m q.ap) * T.sin (q.pd.averageAngle * T.pi / 180)

/-- `min_temperature − T_surface − adiabatic gradient ≥ 0` in all three regimes, for a coupling depth shallower than 660 km,
a positive taper distance, a non-negative potential temperature and a taper that starts below the coupling depth -/
theorem McQuery.minT0_nonneg (T : Transc F) (L : SlabLaws T) (q : McQuery F)
    (hcd : q.m.couplingDepth < 660000) (htd : 0 < q.m.taperDistance) (hTp : 0 ≤ q.m.potentialT)
    (htaper : q.TaperStartsBelowCoupling T) :
    0 ≤ @McQuery.minT0 F (fieldScalar T) q := by
  have e660 : ((OfScientific.ofScientific 660 false 3 : ℚ) : F) = 660000 := by norm_num
  have e8 : ((OfScientific.ofScientific 8 true 1 : ℚ) : F) = 8 / 10 := by norm_num
  have e180 : ((OfScientific.ofScientific 1800 true 1 : ℚ) : F) = 180 := by norm_num
  obtain ⟨hs1, hs2⟩ := mcSubfact_bounds T (@McQuery.subductingVelocity F (fieldScalar T) q) q.ageAtTrench
  obtain ⟨ht1, ht2⟩ := mc_tcoup_tmin660 _ hs1
  unfold McQuery.TaperStartsBelowCoupling at htaper
  unfold McQuery.minT0 McQuery.regime mcRegime
  simp only [s_lt T, s_ge T, mcTcoup_field, mcTmin660_field]
  generalize @mcSubfact F (fieldScalar T) (@McQuery.subductingVelocity F (fieldScalar T) q) q.ageAtTrench = s at *
  split_ifs with h1 h2
  · exact mul_nonneg (by linarith) (L.erfcLaws.erfc_nonneg _)
  · have hdeep : q.m.couplingDepth ≤ q.pd.depthReferenceSurface := not_lt.mp h1
    have hst := htaper hdeep h2
    simp only [s_add T, s_sub T, s_mul T, s_div T, s_erfc T, s_sin T, s_pi T, lit_sci T, lit_1 T, e660, e8, e180] at hst ⊢
    have hth : 0 ≤ 8 / 10 * ((q.pd.distanceAlongPlane - @mcStartTaper F (fieldScalar T) q.m q.ap) / q.m.taperDistance) :=
      mul_nonneg (by norm_num) (div_nonneg (by linarith) htd.le)
    have ha := mc_minT0_deep T L (10 + (s - 1 / 2) * (350 - 10)) (300 + (s - 1 / 2) * (900 - 300)) _ (by linarith)
      (mc_theta_deep_nonpos q.m.couplingDepth _ s (by linarith) hcd hst)
    refine le_trans ?_ (mc_minT0_taper T L _ q.m.potentialT _ hth).1
    exact le_min (by linarith) hTp
  · have hdeep : q.m.couplingDepth ≤ q.pd.depthReferenceSurface := not_lt.mp h1
    simp only [s_add T, s_sub T, s_mul T, s_div T, s_erfc T, lit_sci T, e660]
    have ha := mc_minT0_deep T L (10 + (s - 1 / 2) * (350 - 10)) (300 + (s - 1 / 2) * (900 - 300)) _ (by linarith)
      (mc_theta_deep_nonpos q.m.couplingDepth _ s (by linarith) hcd hdeep)
    linarith

/-- `min_temperature ≥ T_surface + adiabatic gradient` -/
theorem McQuery.minT_lower (T : Transc F) (L : SlabLaws T) (q : McQuery F)
    (hcd : q.m.couplingDepth < 660000) (htd : 0 < q.m.taperDistance) (hTp : 0 ≤ q.m.potentialT)
    (htaper : q.TaperStartsBelowCoupling T) :
    q.m.surfaceT + @mcAdiabaticGradient F (fieldScalar T) q.m q.gravityNorm q.depth ≤ @McQuery.minT F (fieldScalar T) q := by
  have h := McQuery.minT0_nonneg T L q hcd htd hTp htaper
  unfold McQuery.minT
  simp only [s_add T]
  linarith

/-- the background temperature is non-negative when the potential temperature is -/
theorem McQuery.background_nonneg (T : Transc F) (L : SlabLaws T) (q : McQuery F) (hTp : 0 ≤ q.m.potentialT) :
    0 ≤ @McQuery.background F (fieldScalar T) q := by
  unfold McQuery.background mcBackground
  split
  · exact mul_nonneg hTp (L.exp_pos _).le
  · exact hTp

/-- the adiabatic gradient `T_p·(exp(α g z / c_p) − 1)` is non-negative when the exponent is (needs `exp ≥ 1` right of the origin) -/
theorem mcAdiabaticGradient_nonneg (T : Transc F) (hexp : ∀ x, 0 ≤ x → 1 ≤ T.exp x) (m : MassConserving F) (g depth : F)
    (hTp : 0 ≤ m.potentialT) (harg : 0 ≤ m.alpha * g * depth / m.cp) :
    0 ≤ @mcAdiabaticGradient F (fieldScalar T) m g depth := by
  unfold mcAdiabaticGradient mcBackground
  split
  · simp only [s_sub T, s_mul T, s_div T, s_exp T, if_true]
    have := hexp _ harg
    nlinarith
  · rw [lit_0 T]

/-- the top heat content handed to the analytic profile is non-positive (forearc cooling factor and background non-negative) -/
theorem McQuery.topHeat_nonpos (T : Transc F) (L : SlabLaws T) (q : McQuery F) (hfc : 0 ≤ q.m.forearcCoolingFactor)
    (hTp : 0 ≤ q.m.potentialT) : @McQuery.topHeat F (fieldScalar T) q ≤ 0 := by
  have e9 : ((OfScientific.ofScientific 10 false 8 : ℚ) : F) = 1000000000 := by norm_num
  have hbg := McQuery.background_nonneg T L q hTp
  unfold McQuery.topHeat McQuery.topHeat0 McQuery.maxTopHeat
  simp only [smin_eq, s_mul T, s_neg T, s_sub T, s_gt T, s_erfc T, lit_sci T, e9]
  have h := mc_top_heat_content_nonpos q.m.forearcCoolingFactor (@McQuery.background F (fieldScalar T) q)
    (@McQuery.initialHeat F (fieldScalar T) q - @McQuery.bottomHeat F (fieldScalar T) q)
    (T.erfc (((OfScientific.ofScientific 8 true 1 : ℚ) : F) * @McQuery.theta F (fieldScalar T) q)) hfc hbg (L.erfcLaws.erfc_nonneg _)
  split_ifs
  · exact h.2
  · exact h.1

/-- the analytic profile of a query with `min_temperature < background` (half-space reference):
top side `min(T_old, T_min − 1e-16) ≤ T ≤ T_old`; bottom side `T_min ≤ T ≤ T_background` -/
theorem McQuery.analyticT_envelope (T : Transc F) (L : SlabLaws T) (q : McQuery F) (old : F) (hp : q.m.plateRef = false)
    (hk : 0 < q.m.kappa) (hrho : 0 < q.m.density) (hcp : 0 < q.m.cp) (hfc : 0 ≤ q.m.forearcCoolingFactor) (hTp : 0 ≤ q.m.potentialT)
    (hlt : @McQuery.minT F (fieldScalar T) q < @McQuery.background F (fieldScalar T) q) :
    (@McQuery.adjustedDistance F (fieldScalar T) q < 0 →
      @McQuery.minT F (fieldScalar T) q - old + ((OfScientific.ofScientific 1 true 16 : ℚ) : F) ≠ 0 →
      min old (@McQuery.minT F (fieldScalar T) q - ((OfScientific.ofScientific 1 true 16 : ℚ) : F)) ≤ @McQuery.analyticT F (fieldScalar T) q old ∧
      @McQuery.analyticT F (fieldScalar T) q old ≤ old) ∧
    (0 ≤ @McQuery.adjustedDistance F (fieldScalar T) q → 0 < @McQuery.effAgeSec F (fieldScalar T) q →
      @McQuery.minT F (fieldScalar T) q ≤ @McQuery.analyticT F (fieldScalar T) q old ∧
      @McQuery.analyticT F (fieldScalar T) q old ≤ @McQuery.background F (fieldScalar T) q ∧
      (@McQuery.adjustedDistance F (fieldScalar T) q = 0 → @McQuery.analyticT F (fieldScalar T) q old = @McQuery.minT F (fieldScalar T) q)) := by
  constructor
  · intro hadj hne
    by_cases hold : old < @McQuery.minT F (fieldScalar T) q
    · have h := @MassConserving.analytic_top_cold F (fieldScalar T) q.m (@McQuery.topHeat F (fieldScalar T) q) (@McQuery.minT F (fieldScalar T) q)
        (@McQuery.background F (fieldScalar T) q) old (@McQuery.spreadingVelocity F (fieldScalar T) q) (@McQuery.effAgeSec F (fieldScalar T) q)
        (@McQuery.adjustedDistance F (fieldScalar T) q) (by rw [s_lt T, lit_0 T]; exact hadj) hold
      unfold McQuery.analyticT
      rw [h]
      exact ⟨min_le_left _ _, le_rfl⟩
    · have h := MassConserving.analytic_top_bounds T L q.m (@McQuery.topHeat F (fieldScalar T) q) (@McQuery.minT F (fieldScalar T) q)
        (@McQuery.background F (fieldScalar T) q) old (@McQuery.spreadingVelocity F (fieldScalar T) q) (@McQuery.effAgeSec F (fieldScalar T) q)
        (@McQuery.adjustedDistance F (fieldScalar T) q) hk hrho hcp hadj hold (McQuery.topHeat_nonpos T L q hfc hTp) hne
      unfold McQuery.analyticT
      exact ⟨le_trans (min_le_right _ _) h.1, h.2⟩
  · intro hadj hepa
    unfold McQuery.analyticT
    exact MassConserving.analytic_halfspace_between T L.erfcLaws q.m hp _ _ _ old _ _ _ hk hepa hadj hlt.le

/-- the query of a `get` call -/
theorem MassConserving.get_eq_query (q : McQuery F) (T : Transc F) (ctx : Ctx F) (old : F)
    (hr : q.pd.distanceFromPlane ≤ q.m.mx ∧ q.m.mn ≤ q.pd.distanceFromPlane)
    (hridge : @ridgeDistanceAndSpreading F (fieldScalar T) ctx.coord.spherical q.m.ridge.ridges q.m.ridge.vels
      (@CoordSys.toNatural F (fieldScalar T) ctx.coord q.pd.closestTrenchPoint) q.m.subVel q.m.migrationTimes = .ok q.rp)
    (hages : @effectiveTrenchAndPlateAges F (fieldScalar T) q.rp q.pd.distanceAlongPlane = .ok (q.ageAtTrench, q.effAge))
    (hs : q.m.applySpline = false) :
    @MassConserving.get F (fieldScalar T) q.m ctx q.depth q.gravityNorm q.pd q.ap old =
      .ok (@applyOp F (fieldScalar T) q.m.op old
        (if @McQuery.minT F (fieldScalar T) q < @McQuery.background F (fieldScalar T) q then @McQuery.analyticT F (fieldScalar T) q old else old)) :=
  @MassConserving.get_eq F (fieldScalar T) q.m ctx q.depth q.gravityNorm q.pd q.ap old q.rp q.ageAtTrench q.effAge hr hridge hages hs

theorem secondsInYear_pos_field (T : Transc F) : 0 < @secondsInYear F (fieldScalar T) := by
  unfold secondsInYear
  rw [lit_sci T 600 true 1, lit_sci T 240 true 1, lit_sci T 36525 true 2]
  norm_num

/-- outside the taper the effective plate age handed to the profile is `effective_plate_age` in seconds, positive with it -/
theorem McQuery.effAgeSec_no_taper (T : Transc F) (q : McQuery F)
    (hno : q.pd.depthReferenceSurface < q.m.couplingDepth ∨ q.pd.distanceAlongPlane < @mcStartTaper F (fieldScalar T) q.m q.ap) :
    @McQuery.effAgeSec F (fieldScalar T) q = q.effAge * @secondsInYear F (fieldScalar T) ∧
    (0 < q.effAge → 0 < @McQuery.effAgeSec F (fieldScalar T) q) := by
  have hval : @McQuery.effAgeSec F (fieldScalar T) q = q.effAge * @secondsInYear F (fieldScalar T) := by
    unfold McQuery.effAgeSec McQuery.regime mcRegime
    simp only [s_lt T, s_ge T]
    split_ifs with h1 h2
    · rfl
    · rcases hno with h | h
      · exact absurd h h1
      · exact absurd h2 (not_le.mpr h)
    · rfl
  refine ⟨hval, fun he => ?_⟩
  rw [hval]
  exact mul_pos he (secondsInYear_pos_field T)

/-- **the envelope of `MassConserving.get`** for `operation = replace`, no spline, half-space reference.
The call succeeds with a temperature `t` such that
* `min_temperature ≥ background`: `t = T_old` (the model leaves the temperature alone);
* top side (`adjusted distance < 0`): `min(T_old, T_min − 1e-16) ≤ t ≤ T_old`;
* bottom side: `T_min ≤ t ≤ T_background`, `t = T_min` at adjusted distance 0;
and `T_min ≥ T_surface + adiabatic gradient`. -/
theorem MassConserving.get_envelope (T : Transc F) (L : SlabLaws T) (q : McQuery F) (ctx : Ctx F) (old : F)
    (hr : q.pd.distanceFromPlane ≤ q.m.mx ∧ q.m.mn ≤ q.pd.distanceFromPlane)
    (hridge : @ridgeDistanceAndSpreading F (fieldScalar T) ctx.coord.spherical q.m.ridge.ridges q.m.ridge.vels
      (@CoordSys.toNatural F (fieldScalar T) ctx.coord q.pd.closestTrenchPoint) q.m.subVel q.m.migrationTimes = .ok q.rp)
    (hages : @effectiveTrenchAndPlateAges F (fieldScalar T) q.rp q.pd.distanceAlongPlane = .ok (q.ageAtTrench, q.effAge))
    (hs : q.m.applySpline = false) (hp : q.m.plateRef = false) (hop : q.m.op = .replace)
    (hk : 0 < q.m.kappa) (hrho : 0 < q.m.density) (hcp : 0 < q.m.cp) (hfc : 0 ≤ q.m.forearcCoolingFactor)
    (hcd : q.m.couplingDepth < 660000) (htd : 0 < q.m.taperDistance) (hTp : 0 ≤ q.m.potentialT)
    (htaper : q.TaperStartsBelowCoupling T) :
    ∃ t, @MassConserving.get F (fieldScalar T) q.m ctx q.depth q.gravityNorm q.pd q.ap old = .ok t ∧
      q.m.surfaceT + @mcAdiabaticGradient F (fieldScalar T) q.m q.gravityNorm q.depth ≤ @McQuery.minT F (fieldScalar T) q ∧
      (¬ @McQuery.minT F (fieldScalar T) q < @McQuery.background F (fieldScalar T) q → t = old) ∧
      (@McQuery.minT F (fieldScalar T) q < @McQuery.background F (fieldScalar T) q →
        @McQuery.adjustedDistance F (fieldScalar T) q < 0 →
        @McQuery.minT F (fieldScalar T) q - old + ((OfScientific.ofScientific 1 true 16 : ℚ) : F) ≠ 0 →
        min old (@McQuery.minT F (fieldScalar T) q - ((OfScientific.ofScientific 1 true 16 : ℚ) : F)) ≤ t ∧ t ≤ old) ∧
      (@McQuery.minT F (fieldScalar T) q < @McQuery.background F (fieldScalar T) q →
        0 ≤ @McQuery.adjustedDistance F (fieldScalar T) q → 0 < @McQuery.effAgeSec F (fieldScalar T) q →
        @McQuery.minT F (fieldScalar T) q ≤ t ∧ t ≤ @McQuery.background F (fieldScalar T) q ∧
        (@McQuery.adjustedDistance F (fieldScalar T) q = 0 → t = @McQuery.minT F (fieldScalar T) q)) := by
  refine ⟨_, MassConserving.get_eq_query q T ctx old hr hridge hages hs, McQuery.minT_lower T L q hcd htd hTp htaper, ?_, ?_, ?_⟩
  · intro hlt
    rw [hop, if_neg hlt]; rfl
  · intro hlt hadj hne
    rw [hop, if_pos hlt]
    exact (McQuery.analyticT_envelope T L q old hp hk hrho hcp hfc hTp hlt).1 hadj hne
  · intro hlt hadj hepa
    rw [hop, if_pos hlt]
    exact (McQuery.analyticT_envelope T L q old hp hk hrho hcp hfc hTp hlt).2 hadj hepa

end field
end Gwb
