/-
Helpers for C07 (depth cut-off of slabs and faults): the unit-speed argument on the model's segment walk.

Plane frame of `distance_point_from_curved_planes`: x horizontal, y up; the walk starts at height `y0` (`= start radius` in the
code's frame) and every straight piece of length `len` and dip `θ` ends `len·sin θ ≤ len` lower.  Hence, by induction over
`segStates`, the end of the walk after `k` pieces is at most the accumulated length below `y0`, and a check point whose foot the
"closest so far" block recorded (`found`) lies at most `along + |distance|` below `y0`; the recorded reference depth is at most
`along` (plus `start radius − y0`).  Only straight pieces (`|θ_top − θ_bottom| < 1e-8`) are covered.

Also: `LineFeature.maxTotalLength` / `maxThickness` (folds of `std::max`) bound every section length / thickness entry, and the
code's interpolation `a + f·(b − a)` stays below the larger end for `0 ≤ f ≤ 1`.
-/
import GwbVerif.Proofs.LineGeometry
namespace Gwb
open Scalar
set_option linter.unusedSectionVars false

/-! ### members of the state a phase does not touch (every `Scalar R`) -/
section generic
variable {R : Type} [Scalar R]

theorem segPre_found (dm : DepthMethod) (i : Nat) (s : SegState R) : (segPre dm i s).found = s.found := by
  unfold segPre; dsimp only; split <;> rfl
theorem segPre_along (dm : DepthMethod) (i : Nat) (s : SegState R) : (segPre dm i s).along = s.along := by
  unfold segPre; dsimp only; split <;> rfl
theorem segPre_depthRef (dm : DepthMethod) (i : Nat) (s : SegState R) : (segPre dm i s).depthRef = s.depthRef := by
  unfold segPre; dsimp only; split <;> rfl

theorem segStraight_found (startRadius : R) (check2d : P2 R) (angTop len : R) (s : SegState R) :
    (segStraight startRadius check2d angTop len s).found = s.found := by
  unfold segStraight; dsimp only; split <;> rfl
theorem segStraight_along (startRadius : R) (check2d : P2 R) (angTop len : R) (s : SegState R) :
    (segStraight startRadius check2d angTop len s).along = s.along := by
  unfold segStraight; dsimp only; split <;> rfl
theorem segStraight_depthRef (startRadius : R) (check2d : P2 R) (angTop len : R) (s : SegState R) :
    (segStraight startRadius check2d angTop len s).depthRef = s.depthRef := by
  unfold segStraight; dsimp only; split <;> rfl
theorem segArc_found (startRadius : R) (check2d : P2 R) (angTop angBot len : R) (s : SegState R) :
    (segArc startRadius check2d angTop angBot len s).found = s.found := by
  unfold segArc; dsimp only; split <;> rfl
theorem segArc_along (startRadius : R) (check2d : P2 R) (angTop angBot len : R) (s : SegState R) :
    (segArc startRadius check2d angTop angBot len s).along = s.along := by
  unfold segArc; dsimp only; split <;> rfl
theorem segArc_depthRef (startRadius : R) (check2d : P2 R) (angTop angBot len : R) (s : SegState R) :
    (segArc startRadius check2d angTop angBot len s).depthRef = s.depthRef := by
  unfold segArc; dsimp only; split <;> rfl

theorem segGeom_found (startRadius : R) (check2d : P2 R) (angTop angBot len : R) (s : SegState R) :
    (segGeom startRadius check2d angTop angBot len s).found = s.found := by
  unfold segGeom
  split
  · split
    · exact segStraight_found _ _ _ _ _
    · rfl
  · exact segArc_found _ _ _ _ _ _
theorem segGeom_along (startRadius : R) (check2d : P2 R) (angTop angBot len : R) (s : SegState R) :
    (segGeom startRadius check2d angTop angBot len s).along = s.along := by
  unfold segGeom
  split
  · split
    · exact segStraight_along _ _ _ _ _
    · rfl
  · exact segArc_along _ _ _ _ _ _
theorem segGeom_depthRef (startRadius : R) (check2d : P2 R) (angTop angBot len : R) (s : SegState R) :
    (segGeom startRadius check2d angTop angBot len s).depthRef = s.depthRef := by
  unfold segGeom
  split
  · split
    · exact segStraight_depthRef _ _ _ _ _
    · rfl
  · exact segArc_depthRef _ _ _ _ _ _

/-- the test of the "closest segment so far?" block -/
def segClosestCond (len : R) (s : SegState R) : Prop :=
  s.newAlong ≥ (-1e-10 : R) ∧ s.newAlong ≤ fabs len ∧ fabs s.newDistance < fabs s.distance

theorem segClosest_of_not (onlyPositive : Bool) (i : Nat) (angTop angBot len : R) (s : SegState R) (h : ¬ segClosestCond len s) :
    segClosest onlyPositive i angTop angBot len s = s := by
  unfold segClosestCond at h
  unfold segClosest
  rw [if_neg h]

theorem segClosest_of_cond (onlyPositive : Bool) (i : Nat) (angTop angBot len : R) (s : SegState R) (h : segClosestCond len s) :
    (segClosest onlyPositive i angTop angBot len s).found = true ∧
    (segClosest onlyPositive i angTop angBot len s).along = s.newAlong + s.totalLength ∧
    (segClosest onlyPositive i angTop angBot len s).distance = (if onlyPositive then fabs s.newDistance else s.newDistance) ∧
    (segClosest onlyPositive i angTop angBot len s).depthRef = s.newDepthRef := by
  unfold segClosestCond at h
  unfold segClosest
  rw [if_pos h]
  exact ⟨rfl, rfl, rfl, rfl⟩

theorem segFinish_fields (angTop angBot len : R) (s : SegState R) :
    (segFinish angTop angBot len s).endSeg = s.endSeg ∧ (segFinish angTop angBot len s).found = s.found ∧
    (segFinish angTop angBot len s).along = s.along ∧ (segFinish angTop angBot len s).distance = s.distance ∧
    (segFinish angTop angBot len s).depthRef = s.depthRef ∧ (segFinish angTop angBot len s).totalLength = s.totalLength + len :=
  ⟨rfl, rfl, rfl, rfl, rfl, rfl⟩

end generic

/-! ## ordered fields -/
section field
variable {F : Type} [Field F] [LinearOrder F] [IsStrictOrderedRing F] (T : Transc F)

theorem planeLaws_sin_le_one (L : PlaneLaws T) (θ : F) : T.sin θ ≤ 1 := by
  nlinarith [L.sin_sq_add_cos_sq θ, mul_self_nonneg (T.cos θ), mul_self_nonneg (T.sin θ - 1)]

theorem planeLaws_abs_cos_le_one (L : PlaneLaws T) (θ : F) : |T.cos θ| ≤ 1 := by
  rw [abs_le]
  constructor
  · nlinarith [L.sin_sq_add_cos_sq θ, mul_self_nonneg (T.sin θ), mul_self_nonneg (T.cos θ + 1)]
  · nlinarith [L.sin_sq_add_cos_sq θ, mul_self_nonneg (T.sin θ), mul_self_nonneg (T.cos θ - 1)]

/-- a point with along-dip coordinate `a ≥ 0` and normal distance `d` from a piece starting at `b` lies at most `a + |d|` below `b` -/
theorem point_height_bound (L : PlaneLaws T) (b c : P2 F) (θ : F) (ha : 0 ≤ alongDip T b c θ) :
    b.y - c.y ≤ alongDip T b c θ + |belowDip T b c θ| := by
  have hs := L.sin_sq_add_cos_sq θ
  have e : b.y - c.y = alongDip T b c θ * T.sin θ + belowDip T b c θ * T.cos θ := by
    unfold alongDip belowDip
    linear_combination (c.y - b.y) * hs
  have h1 : alongDip T b c θ * T.sin θ ≤ alongDip T b c θ := by
    have := mul_le_mul_of_nonneg_left (planeLaws_sin_le_one T L θ) ha
    rwa [mul_one] at this
  have h2 : belowDip T b c θ * T.cos θ ≤ |belowDip T b c θ| := by
    calc belowDip T b c θ * T.cos θ ≤ |belowDip T b c θ * T.cos θ| := le_abs_self _
      _ = |belowDip T b c θ| * |T.cos θ| := abs_mul _ _
      _ ≤ |belowDip T b c θ| * 1 := mul_le_mul_of_nonneg_left (planeLaws_abs_cos_le_one T L θ) (abs_nonneg _)
      _ = |belowDip T b c θ| := mul_one _
  rw [e]; linarith

/-- the foot itself lies at most `a` below `b` -/
theorem foot_height_bound (L : PlaneLaws T) (b c : P2 F) (θ : F) (ha : 0 ≤ alongDip T b c θ) :
    b.y - (b.y - alongDip T b c θ * T.sin θ) ≤ alongDip T b c θ := by
  have := mul_le_mul_of_nonneg_left (planeLaws_sin_le_one T L θ) ha
  rw [mul_one] at this
  linarith

/-- **the invariant of the walk** for a check point `c`, a start height `y0` and the start radius `sr`:
the current end of the walk is at most the accumulated length below `y0`; if a foot has been recorded, the check point is at most
`along + |distance|` below `y0` and the recorded reference depth is at most `along` (`+ sr − y0`) -/
structure DepthInv (y0 sr : F) (c : P2 F) (s : SegState F) : Prop where
  endY : y0 - s.totalLength ≤ s.endSeg.y
  hit : s.found = true → y0 - c.y ≤ s.along + |s.distance| ∧ s.depthRef ≤ sr - y0 + s.along

/-- one straight, non-skipped piece preserves the invariant -/
theorem segmentStep_depthInv (L : PlaneLaws T) (dm : DepthMethod) (onlyPositive : Bool) (sr fraction : F) (c : P2 F)
    (angCur angNext : P2 F) (lenCur lenNext : F) (i : Nat) (s : SegState F) (y0 : F) (hinv : DepthInv y0 sr c s)
    (hstraight : |@segAngTop F (fieldScalar T) dm fraction angCur angNext i (@segPre F (fieldScalar T) dm i s) -
        @segAngBot F (fieldScalar T) fraction angCur angNext (@segPre F (fieldScalar T) dm i s)| < 1 / 10 ^ 8)
    (heps : T.eps < |lenCur + fraction * (lenNext - lenCur)|) (hlen : 1 / 10 ^ 14 ≤ lenCur + fraction * (lenNext - lenCur))
    (hinf : lenCur + fraction * (lenNext - lenCur) < T.inf) :
    DepthInv y0 sr c (@segmentStep F (fieldScalar T) dm onlyPositive sr fraction c angCur angNext lenCur lenNext i s) := by
  have hpos : 0 < lenCur + fraction * (lenNext - lenCur) := lt_of_lt_of_le (by positivity) hlen
  have hnot : ¬ @LT.lt F (fieldScalar T).toLT (@lerpC F (fieldScalar T) lenCur lenNext fraction)
      (@OfScientific.ofScientific F (@Scalar.instOfScientific F (fieldScalar T)) 1 true 14) := by
    rw [lit_1em14]; exact not_lt.mpr hlen
  rw [@segmentStep_eq F (fieldScalar T)]
  dsimp only
  rw [if_neg hnot]
  generalize hs1 : @segPre F (fieldScalar T) dm i s = s1 at hstraight ⊢
  generalize hθ : @segAngTop F (fieldScalar T) dm fraction angCur angNext i s1 = θ at hstraight ⊢
  generalize hβ : @segAngBot F (fieldScalar T) fraction angCur angNext s1 = β at hstraight ⊢
  have hlerp : @lerpC F (fieldScalar T) lenCur lenNext fraction = lenCur + fraction * (lenNext - lenCur) := rfl
  rw [hlerp]
  generalize hl : lenCur + fraction * (lenNext - lenCur) = len at heps hlen hinf hpos ⊢
  have hb : s1.beginSeg = s1.endSeg := by
    rw [← hs1, @segPre_beginSeg F (fieldScalar T), @segPre_endSeg F (fieldScalar T)]
  have he : s1.endSeg = s.endSeg := by rw [← hs1]; exact @segPre_endSeg F (fieldScalar T) dm i s
  have ht : s1.totalLength = s.totalLength := by rw [← hs1]; exact @segPre_totalLength F (fieldScalar T) dm i s
  have hf : s1.found = s.found := by rw [← hs1]; exact @segPre_found F (fieldScalar T) dm i s
  have hal : s1.along = s.along := by rw [← hs1]; exact @segPre_along F (fieldScalar T) dm i s
  have hdi : s1.distance = s.distance := by rw [← hs1]; exact @segPre_distance F (fieldScalar T) dm i s
  have hdr : s1.depthRef = s.depthRef := by rw [← hs1]; exact @segPre_depthRef F (fieldScalar T) dm i s
  obtain ⟨_, k2, k3, k4⟩ := segGeom_straight T L sr c θ β len s1 hb hstraight heps hpos
  rw [he] at k2 k3 k4
  generalize hg : @segGeom F (fieldScalar T) sr c θ β len s1 = g at k2 k3 k4 ⊢
  have gt : g.totalLength = s.totalLength := by rw [← hg, @segGeom_totalLength F (fieldScalar T), ht]
  have gf : g.found = s.found := by rw [← hg, @segGeom_found F (fieldScalar T), hf]
  have ga : g.along = s.along := by rw [← hg, @segGeom_along F (fieldScalar T), hal]
  have gd : g.distance = s.distance := by rw [← hg, @segGeom_distance F (fieldScalar T), hdi]
  have gr : g.depthRef = s.depthRef := by rw [← hg, @segGeom_depthRef F (fieldScalar T), hdr]
  obtain ⟨f1, f2, f3, f4, f5, f6⟩ := @segFinish_fields F (fieldScalar T) θ β len (@segClosest F (fieldScalar T) onlyPositive i θ β len g)
  have hsin : len * T.sin θ ≤ len := by
    have := mul_le_mul_of_nonneg_left (planeLaws_sin_le_one T L θ) hpos.le
    rwa [mul_one] at this
  constructor
  · -- the end of the walk
    rw [f1, f6, @segClosest_endSeg F (fieldScalar T), @segClosest_totalLength F (fieldScalar T), k2, gt]
    have := hinv.endY
    show y0 - (s.totalLength + len) ≤ s.endSeg.y - len * T.sin θ
    linarith
  · -- the recorded foot
    rw [f2, f3, f4, f5]
    by_cases hc : @segClosestCond F (fieldScalar T) len g
    · obtain ⟨c1, c2, c3, c4⟩ := @segClosest_of_cond F (fieldScalar T) onlyPositive i θ β len g hc
      intro _
      by_cases hin : 0 ≤ alongDip T s.endSeg c θ ∧ alongDip T s.endSeg c θ ≤ len
      · obtain ⟨a1, a2, a3⟩ := k3 hin
        have habs : |(@segClosest F (fieldScalar T) onlyPositive i θ β len g).distance| = |belowDip T s.endSeg c θ| := by
          rw [c3, a2]
          cases onlyPositive with
          | true => simp only [if_true]; rw [fabs_eq_abs, abs_abs]
          | false => simp only [Bool.false_eq_true, if_false]
        rw [c2, c4, habs, a1, a3, gt]
        have h1 := point_height_bound T L s.endSeg c θ hin.1
        have h2 := foot_height_bound T L s.endSeg c θ hin.1
        have h3 := hinv.endY
        constructor <;> linarith
      · obtain ⟨a1, _, _⟩ := k4 hin
        exfalso
        have h2 : @LE.le F (fieldScalar T).toLE g.newAlong (@fabs F (fieldScalar T) len) := hc.2.1
        rw [fabs_eq_abs, a1, abs_of_pos hpos] at h2
        exact absurd hinf (not_lt.mpr h2)
    · rw [@segClosest_of_not F (fieldScalar T) onlyPositive i θ β len g hc, gf, ga, gd, gr]
      exact hinv.hit

/-- the interpolated length of piece `k` as `segStates` reads it -/
noncomputable def walkLen (lensCur lensNext : List F) (fraction : F) (k : Nat) : F :=
  (lensCur[k]?.getD (@default F (@Scalar.instInhabited F (fieldScalar T)))) +
    fraction * ((lensNext[k]?.getD (@default F (@Scalar.instInhabited F (fieldScalar T)))) -
      (lensCur[k]?.getD (@default F (@Scalar.instInhabited F (fieldScalar T)))))

/-- the default point `segStates` reads beyond the end of a table -/
noncomputable def walkDefault : P2 F := @default (P2 F) (@instInhabitedP2 F (@Scalar.instInhabited F (fieldScalar T)))

/-- **all of the first `n` pieces are straight and not skipped**: dips at the top and the bottom agree to `1e-8`, the interpolated
length is at least `1e-14`, exceeds `ε` and is below the `+∞` sentinel -/
def StraightWalk (dm : DepthMethod) (onlyPositive : Bool) (sr fraction : F) (c : P2 F)
    (angsCur angsNext : List (P2 F)) (lensCur lensNext : List F) (s0 : SegState F) (n : Nat) : Prop :=
  ∀ k, k < n →
    |@segAngTop F (fieldScalar T) dm fraction (angsCur[k]?.getD (walkDefault T)) (angsNext[k]?.getD (walkDefault T)) k
        (@segPre F (fieldScalar T) dm k
          (@segStates F (fieldScalar T) dm onlyPositive sr fraction c angsCur angsNext lensCur lensNext s0 k)) -
      @segAngBot F (fieldScalar T) fraction (angsCur[k]?.getD (walkDefault T)) (angsNext[k]?.getD (walkDefault T))
        (@segPre F (fieldScalar T) dm k
          (@segStates F (fieldScalar T) dm onlyPositive sr fraction c angsCur angsNext lensCur lensNext s0 k))| < 1 / 10 ^ 8 ∧
    T.eps < |walkLen T lensCur lensNext fraction k| ∧ 1 / 10 ^ 14 ≤ walkLen T lensCur lensNext fraction k ∧
    walkLen T lensCur lensNext fraction k < T.inf

/-- the invariant holds along a straight walk -/
theorem segStates_depthInv (L : PlaneLaws T) (dm : DepthMethod) (onlyPositive : Bool) (sr fraction : F) (c : P2 F)
    (angsCur angsNext : List (P2 F)) (lensCur lensNext : List F) (s0 : SegState F) (y0 : F) (n : Nat)
    (h0 : DepthInv y0 sr c s0)
    (hw : StraightWalk T dm onlyPositive sr fraction c angsCur angsNext lensCur lensNext s0 n) (k : Nat) (hk : k ≤ n) :
    DepthInv y0 sr c (@segStates F (fieldScalar T) dm onlyPositive sr fraction c angsCur angsNext lensCur lensNext s0 k) := by
  induction k with
  | zero => exact h0
  | succ k ih =>
    obtain ⟨w1, w2, w3, w4⟩ := hw k (by omega)
    exact segmentStep_depthInv T L dm onlyPositive sr fraction c _ _ _ _ k _ y0 (ih (by omega)) w1 w2 w3 w4

/-- the state the walk starts from (utilities.cc: everything `+∞` / 0, begin = end = `begin0`) satisfies the invariant with
`y0 = begin0.y` -/
theorem depthInv_start (sr : F) (c : P2 F) (s0 : SegState F) (hf : s0.found = false) (ht : s0.totalLength = 0) :
    DepthInv s0.endSeg.y sr c s0 := by
  constructor
  · rw [ht]; simp
  · intro h; rw [hf] at h; cases h

/-- **the model's segment loop over straight pieces**: if the loop recorded a foot (`found`), the check point lies at most
`along + |distance|` below the height the walk started at, and the recorded reference depth is at most `along` (`+ sr − y0`) -/
theorem segmentLoop_depth_bound (L : PlaneLaws T) (dm : DepthMethod) (onlyPositive : Bool) (sr fraction : F) (c : P2 F)
    (angsCur angsNext : List (P2 F)) (lensCur lensNext : List F) (s0 s : SegState F)
    (h1 : lensCur.length ≤ angsCur.length) (h2 : lensCur.length ≤ angsNext.length) (h3 : lensCur.length ≤ lensNext.length)
    (hf : s0.found = false) (ht : s0.totalLength = 0)
    (hw : StraightWalk T dm onlyPositive sr fraction c angsCur angsNext lensCur lensNext s0 lensCur.length)
    (hs : @segmentLoop F (fieldScalar T) dm onlyPositive sr fraction c angsCur angsNext lensCur lensNext (lensCur.length + 1) 0 s0 = .ok s)
    (hfound : s.found = true) :
    s0.endSeg.y - c.y ≤ s.along + |s.distance| ∧ s.depthRef ≤ sr - s0.endSeg.y + s.along := by
  have hloop := @segmentLoop_states F (fieldScalar T) dm onlyPositive sr fraction c angsCur angsNext lensCur lensNext s0 h1 h2 h3
    (lensCur.length + 1) 0 (Nat.zero_le _) (by omega)
  have e0 : @segStates F (fieldScalar T) dm onlyPositive sr fraction c angsCur angsNext lensCur lensNext s0 0 = s0 := rfl
  rw [e0, hs] at hloop
  cases hloop
  exact (segStates_depthInv T L dm onlyPositive sr fraction c angsCur angsNext lensCur lensNext s0 s0.endSeg.y lensCur.length
    (depthInv_start sr c s0 hf ht) hw lensCur.length le_rfl).hit hfound

/-! ### the feature-wide maxima bound every local value -/

theorem cull_smax_ge_left (a b : F) : a ≤ @Scalar.max F (fieldScalar T) a b := by rw [smax_eq]; exact le_max_left _ _
theorem cull_smax_ge_right (a b : F) : b ≤ @Scalar.max F (fieldScalar T) a b := by rw [smax_eq]; exact le_max_right _ _

theorem foldl_maxLen_ge (secs : List (List (Segment F))) (m : F) :
    m ≤ secs.foldl (fun m sec => @Scalar.max F (fieldScalar T) m (@sectionLength F (fieldScalar T) sec)) m ∧
    ∀ sec ∈ secs, @sectionLength F (fieldScalar T) sec ≤
      secs.foldl (fun m sec => @Scalar.max F (fieldScalar T) m (@sectionLength F (fieldScalar T) sec)) m := by
  induction secs generalizing m with
  | nil => exact ⟨le_rfl, fun _ h => by cases h⟩
  | cons a t ih =>
    simp only [List.foldl_cons]
    obtain ⟨i1, i2⟩ := ih (@Scalar.max F (fieldScalar T) m (@sectionLength F (fieldScalar T) a))
    refine ⟨le_trans (cull_smax_ge_left T _ _) i1, fun sec hsec => ?_⟩
    rcases List.mem_cons.1 hsec with rfl | h
    · exact le_trans (cull_smax_ge_right T _ _) i1
    · exact i2 sec h

/-- every section's total length is at most `maximum_total_slab_length` -/
theorem sectionLength_le_max (f : LineFeature F) (sec : List (Segment F)) (h : sec ∈ f.sections) :
    @sectionLength F (fieldScalar T) sec ≤ @LineFeature.maxTotalLength F (fieldScalar T) f :=
  (foldl_maxLen_ge T f.sections _).2 sec h

/-- one step of the fold of `maximum_slab_thickness`: the two thickness entries, and — slabs only — the negated top truncations
(upstream 'fix: depth cut-off ignored material above the slab surface') -/
noncomputable def thStep (isFault : Bool) (m : F) (s : Segment F) : F :=
  let m := @Scalar.max F (fieldScalar T) (@Scalar.max F (fieldScalar T) m s.thickness.x) s.thickness.y
  if isFault then m
  else @Scalar.max F (fieldScalar T) (@Scalar.max F (fieldScalar T) m (@Neg.neg F (fieldScalar T).toNeg s.topTruncation.x))
    (@Neg.neg F (fieldScalar T).toNeg s.topTruncation.y)

theorem maxThickness_eq (f : LineFeature F) :
    @LineFeature.maxThickness F (fieldScalar T) f =
      f.sections.foldl (fun m sec => sec.foldl (thStep T f.isFault) m) (@OfNat.ofNat F 0 (@Scalar.instOfNat F (fieldScalar T) 0)) := rfl

theorem thStep_ge (isFault : Bool) (m : F) (s : Segment F) :
    m ≤ thStep T isFault m s ∧ s.thickness.x ≤ thStep T isFault m s ∧ s.thickness.y ≤ thStep T isFault m s ∧
    (isFault = false → -s.topTruncation.x ≤ thStep T isFault m s ∧ -s.topTruncation.y ≤ thStep T isFault m s) := by
  have b1 : m ≤ @Scalar.max F (fieldScalar T) (@Scalar.max F (fieldScalar T) m s.thickness.x) s.thickness.y :=
    le_trans (cull_smax_ge_left T _ _) (cull_smax_ge_left T _ _)
  have b2 : s.thickness.x ≤ @Scalar.max F (fieldScalar T) (@Scalar.max F (fieldScalar T) m s.thickness.x) s.thickness.y :=
    le_trans (cull_smax_ge_right T _ _) (cull_smax_ge_left T _ _)
  have b3 : s.thickness.y ≤ @Scalar.max F (fieldScalar T) (@Scalar.max F (fieldScalar T) m s.thickness.x) s.thickness.y :=
    cull_smax_ge_right T _ _
  unfold thStep
  cases isFault with
  | true =>
    simp only [if_true]
    exact ⟨b1, b2, b3, fun h => by cases h⟩
  | false =>
    simp only [Bool.false_eq_true, if_false]
    have c1 := cull_smax_ge_left T (@Scalar.max F (fieldScalar T)
      (@Scalar.max F (fieldScalar T) (@Scalar.max F (fieldScalar T) m s.thickness.x) s.thickness.y) (-s.topTruncation.x)) (-s.topTruncation.y)
    have c2 := cull_smax_ge_left T (@Scalar.max F (fieldScalar T) (@Scalar.max F (fieldScalar T) m s.thickness.x) s.thickness.y)
      (-s.topTruncation.x)
    have c3 := cull_smax_ge_right T (@Scalar.max F (fieldScalar T) (@Scalar.max F (fieldScalar T) m s.thickness.x) s.thickness.y)
      (-s.topTruncation.x)
    have c4 := cull_smax_ge_right T (@Scalar.max F (fieldScalar T)
      (@Scalar.max F (fieldScalar T) (@Scalar.max F (fieldScalar T) m s.thickness.x) s.thickness.y) (-s.topTruncation.x)) (-s.topTruncation.y)
    exact ⟨le_trans b1 (le_trans c2 c1), le_trans b2 (le_trans c2 c1), le_trans b3 (le_trans c2 c1),
      fun _ => ⟨le_trans c3 c1, c4⟩⟩

theorem foldl_maxTh_inner (isFault : Bool) (sec : List (Segment F)) (m : F) :
    m ≤ sec.foldl (thStep T isFault) m ∧
    ∀ s ∈ sec, s.thickness.x ≤ sec.foldl (thStep T isFault) m ∧ s.thickness.y ≤ sec.foldl (thStep T isFault) m ∧
      (isFault = false → -s.topTruncation.x ≤ sec.foldl (thStep T isFault) m ∧ -s.topTruncation.y ≤ sec.foldl (thStep T isFault) m) := by
  induction sec generalizing m with
  | nil => exact ⟨le_rfl, fun _ h => by cases h⟩
  | cons a t ih =>
    simp only [List.foldl_cons]
    obtain ⟨i1, i2⟩ := ih (thStep T isFault m a)
    obtain ⟨g1, g2, g3, g4⟩ := thStep_ge T isFault m a
    refine ⟨le_trans g1 i1, fun s hs => ?_⟩
    rcases List.mem_cons.1 hs with rfl | h
    · exact ⟨le_trans g2 i1, le_trans g3 i1, fun hf => ⟨le_trans (g4 hf).1 i1, le_trans (g4 hf).2 i1⟩⟩
    · exact i2 s h

theorem foldl_maxTh_outer (isFault : Bool) (secs : List (List (Segment F))) (m : F) :
    m ≤ secs.foldl (fun m sec => sec.foldl (thStep T isFault) m) m ∧
    ∀ sec ∈ secs, ∀ s ∈ sec,
      s.thickness.x ≤ secs.foldl (fun m sec => sec.foldl (thStep T isFault) m) m ∧
      s.thickness.y ≤ secs.foldl (fun m sec => sec.foldl (thStep T isFault) m) m ∧
      (isFault = false → -s.topTruncation.x ≤ secs.foldl (fun m sec => sec.foldl (thStep T isFault) m) m ∧
        -s.topTruncation.y ≤ secs.foldl (fun m sec => sec.foldl (thStep T isFault) m) m) := by
  induction secs generalizing m with
  | nil => exact ⟨le_rfl, fun _ h => by cases h⟩
  | cons a t ih =>
    simp only [List.foldl_cons]
    obtain ⟨j1, j2⟩ := foldl_maxTh_inner T isFault a m
    obtain ⟨i1, i2⟩ := ih (a.foldl (thStep T isFault) m)
    refine ⟨le_trans j1 i1, fun sec hsec s hs => ?_⟩
    rcases List.mem_cons.1 hsec with rfl | h
    · obtain ⟨k1, k2, k3⟩ := j2 s hs
      exact ⟨le_trans k1 i1, le_trans k2 i1, fun hf => ⟨le_trans (k3 hf).1 i1, le_trans (k3 hf).2 i1⟩⟩
    · exact i2 sec h s hs

/-- every thickness entry is at most `maximum_slab_thickness` -/
theorem thickness_le_max (f : LineFeature F) (sec : List (Segment F)) (h : sec ∈ f.sections) (s : Segment F) (hs : s ∈ sec) :
    s.thickness.x ≤ @LineFeature.maxThickness F (fieldScalar T) f ∧ s.thickness.y ≤ @LineFeature.maxThickness F (fieldScalar T) f := by
  rw [maxThickness_eq]
  obtain ⟨k1, k2, _⟩ := (foldl_maxTh_outer T f.isFault f.sections _).2 sec h s hs
  exact ⟨k1, k2⟩

/-- slabs: every negated top truncation is at most `maximum_slab_thickness` (after the upstream repair) -/
theorem neg_topTruncation_le_max (f : LineFeature F) (hf : f.isFault = false) (sec : List (Segment F)) (h : sec ∈ f.sections)
    (s : Segment F) (hs : s ∈ sec) :
    -s.topTruncation.x ≤ @LineFeature.maxThickness F (fieldScalar T) f ∧ -s.topTruncation.y ≤ @LineFeature.maxThickness F (fieldScalar T) f := by
  rw [maxThickness_eq]
  exact ((foldl_maxTh_outer T f.isFault f.sections _).2 sec h s hs).2.2 hf

theorem maxThickness_nonneg (f : LineFeature F) : 0 ≤ @LineFeature.maxThickness F (fieldScalar T) f := by
  rw [maxThickness_eq]
  have h := (foldl_maxTh_outer T f.isFault f.sections (@OfNat.ofNat F 0 (@Scalar.instOfNat F (fieldScalar T) 0))).1
  have h0 : (0 : F) ≤ @OfNat.ofNat F 0 (@Scalar.instOfNat F (fieldScalar T) 0) := by rw [lit_0]
  exact le_trans h0 h

/-- the code's interpolation stays below any common bound of its two ends for a fraction in `[0, 1]` -/
theorem lerpC_le (a b t m : F) (h0 : 0 ≤ t) (h1 : t ≤ 1) (ha : a ≤ m) (hb : b ≤ m) : @lerpC F (fieldScalar T) a b t ≤ m := by
  rw [lerpC_field]
  have e : a + t * (b - a) = (1 - t) * a + t * b := by ring
  rw [e]
  have h2 : (1 - t) * a ≤ (1 - t) * m := mul_le_mul_of_nonneg_left ha (by linarith)
  have h3 : t * b ≤ t * m := mul_le_mul_of_nonneg_left hb h0
  linarith

theorem maxLenLocal_le (f : LineFeature F) (secCur secNext : List (Segment F)) (sf : F)
    (h1 : secCur ∈ f.sections) (h2 : secNext ∈ f.sections) (hs0 : 0 ≤ sf) (hs1 : sf ≤ 1) :
    @maxLenLocal F (fieldScalar T) secCur secNext sf ≤ @LineFeature.maxTotalLength F (fieldScalar T) f := by
  unfold maxLenLocal
  exact lerpC_le T _ _ _ _ hs0 hs1 (sectionLength_le_max T f _ h1) (sectionLength_le_max T f _ h2)

theorem thLocal_le (f : LineFeature F) (secCur secNext : List (Segment F)) (cur next : Segment F) (sf gf : F)
    (h1 : secCur ∈ f.sections) (h2 : secNext ∈ f.sections) (hc : cur ∈ secCur) (hn : next ∈ secNext)
    (hs0 : 0 ≤ sf) (hs1 : sf ≤ 1) (hg0 : 0 ≤ gf) (hg1 : gf ≤ 1) :
    @Segment.thLocal F (fieldScalar T) cur next sf gf ≤ @LineFeature.maxThickness F (fieldScalar T) f := by
  unfold Segment.thLocal
  obtain ⟨c1, c2⟩ := thickness_le_max T f secCur h1 cur hc
  obtain ⟨n1, n2⟩ := thickness_le_max T f secNext h2 next hn
  exact lerpC_le T _ _ _ _ hg0 hg1 (lerpC_le T _ _ _ _ hs0 hs1 c1 n1) (lerpC_le T _ _ _ _ hs0 hs1 c2 n2)

/-- slabs: the interpolated top truncation is not below `−maximum_slab_thickness` -/
theorem neg_maxThickness_le_ttLocal (f : LineFeature F) (hf : f.isFault = false) (secCur secNext : List (Segment F))
    (cur next : Segment F) (sf gf : F)
    (h1 : secCur ∈ f.sections) (h2 : secNext ∈ f.sections) (hc : cur ∈ secCur) (hn : next ∈ secNext)
    (hs0 : 0 ≤ sf) (hs1 : sf ≤ 1) (hg0 : 0 ≤ gf) (hg1 : gf ≤ 1) :
    -@LineFeature.maxThickness F (fieldScalar T) f ≤ @Segment.ttLocal F (fieldScalar T) cur next sf gf := by
  obtain ⟨c1, c2⟩ := neg_topTruncation_le_max T f hf secCur h1 cur hc
  obtain ⟨n1, n2⟩ := neg_topTruncation_le_max T f hf secNext h2 next hn
  have h := lerpC_le T _ _ _ _ hg0 hg1 (lerpC_le T _ _ _ _ hs0 hs1 c1 n1) (lerpC_le T _ _ _ _ hs0 hs1 c2 n2)
  have e : @Segment.ttLocal F (fieldScalar T) cur next sf gf =
      -@lerpC F (fieldScalar T) (@lerpC F (fieldScalar T) (-cur.topTruncation.x) (-next.topTruncation.x) sf)
        (@lerpC F (fieldScalar T) (-cur.topTruncation.y) (-next.topTruncation.y) sf) gf := by
    unfold Segment.ttLocal
    simp only [lerpC_field]
    ring
  rw [e]
  linarith

end field
end Gwb
