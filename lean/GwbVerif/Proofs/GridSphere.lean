/-
Helper lemmas for the `sphere` grid of gwb-grid (`Model/Apps/GridSphere.lean`): sizes of the intermediate arrays, ranges of
`point_to` and `compact`, totality of the two data-dependent array lookups, indexing of the node and cell lists.
Everything here holds for an arbitrary scalar type (no laws): the duplicate test is an opaque Boolean.
-/
import GwbVerif.Model.Apps.GridSphere
import GwbVerif.Proofs.GridMesh
namespace Gwb

/-! ### `List.mapM` in `Except` -/

theorem mapM_except_ok {ε α β : Type} (f : α → Except ε β) (P : α → Prop) (Q : α → β → Prop)
    (h : ∀ a, P a → ∃ b, f a = .ok b ∧ Q a b) (l : List α) (hl : ∀ a ∈ l, P a) :
    ∃ bs, l.mapM f = .ok bs ∧ bs.length = l.length ∧ ∀ (k : Nat) (a : α), l[k]? = some a → ∃ b, bs[k]? = some b ∧ Q a b := by
  induction l with
  | nil => exact ⟨[], rfl, rfl, by simp⟩
  | cons x xs ih =>
    obtain ⟨b, hb, hq⟩ := h x (hl x (by simp))
    obtain ⟨bs, hbs, hlen, hget⟩ := ih (fun a ha => hl a (by simp [ha]))
    refine ⟨b :: bs, ?_, by simp [hlen], ?_⟩
    · rw [List.mapM_cons, hb, hbs]; rfl
    · intro k a hk
      cases k with
      | zero =>
        simp only [List.getElem?_cons_zero, Option.some.injEq] at hk
        subst hk
        exact ⟨b, by simp, hq⟩
      | succ k =>
        simp only [List.getElem?_cons_succ] at hk ⊢
        exact hget k a hk

theorem forall_mem_of_get {α β : Type} {l : List α} {bs : List β} {Q : β → Prop} (hlen : bs.length = l.length)
    (h : ∀ (k : Nat) (a : α), l[k]? = some a → ∃ b, bs[k]? = some b ∧ Q b) : ∀ b ∈ bs, Q b := by
  intro b hb
  obtain ⟨k, hk, rfl⟩ := List.getElem_of_mem hb
  have hk' : k < l.length := hlen ▸ hk
  obtain ⟨b', hb', hq⟩ := h k l[k] (List.getElem?_eq_getElem hk')
  rw [List.getElem?_eq_getElem hk] at hb'
  cases hb'
  exact hq

section
variable {R : Type} [Scalar R]

/-! ### sizes -/

theorem layPoints_length (p1 p2 p3 p4 : P3 R) (n : Nat) : (layPoints p1 p2 p3 p4 n).length = sphereBlockNP n := by
  unfold layPoints sphereBlockNP
  rw [length_flatMap_uniform_mesh _ _ (n + 1) (by intro x _; simp)]
  simp

theorem sphereBlock_length (n : Nat) (c : P3 R × P3 R × P3 R × P3 R) : (sphereBlock n c).length = sphereBlockNP n := by
  unfold sphereBlock
  rw [List.length_map, layPoints_length]

theorem sphereTemp_length (n : Nat) : (sphereTemp (R := R) n).length = sphereNBlock * sphereBlockNP n := by
  unfold sphereTemp
  rw [length_flatMap_uniform_mesh _ _ (sphereBlockNP n) (fun c _ => sphereBlock_length n c)]
  rfl

theorem sphereDoubles_length (distance : R) (temp : List (P3 R × Bool)) : (sphereDoubles distance temp).length = temp.length := by
  simp [sphereDoubles]

/-- `point_to[i] = j` is only ever written with `j < i - 1` -/
theorem sphereDoubles_lt (distance : R) (temp : List (P3 R × Bool)) (i j : Nat)
    (h : (sphereDoubles distance temp)[i]? = some (some j)) : j + 1 < i := by
  unfold sphereDoubles at h
  rw [List.getElem?_map, List.getElem?_zipIdx] at h
  cases hp : temp[i]? with
  | none => simp [hp] at h
  | some p =>
    simp only [hp, Option.map_some, Nat.zero_add, Option.some.injEq] at h
    unfold sphereFindDouble at h
    split at h
    · obtain ⟨hj, _⟩ := List.findIdx?_eq_some_iff_getElem.1 h
      rw [List.length_take] at hj
      omega
    · cases h

/-- a double point `i` with `point_to[i] = j`: both lie on block edges and pass the distance test -/
theorem sphereDoubles_some (distance : R) (temp : List (P3 R × Bool)) (i j : Nat)
    (h : (sphereDoubles distance temp)[i]? = some (some j)) :
    ∃ p q, temp[i]? = some p ∧ temp[j]? = some q ∧ p.2 = true ∧ q.2 = true ∧ sphereClose distance p.1 q.1 = true := by
  unfold sphereDoubles at h
  rw [List.getElem?_map, List.getElem?_zipIdx] at h
  cases hp : temp[i]? with
  | none => simp [hp] at h
  | some p =>
    simp only [hp, Option.map_some, Nat.zero_add, Option.some.injEq] at h
    unfold sphereFindDouble at h
    split at h
    · rename_i hside
      obtain ⟨hj, hpred, _⟩ := List.findIdx?_eq_some_iff_getElem.1 h
      have hj' : j < temp.length := by rw [List.length_take] at hj; omega
      rw [List.getElem_take] at hpred
      simp only [Bool.and_eq_true] at hpred
      exact ⟨p, temp[j], rfl, List.getElem?_eq_getElem hj', hside, hpred.1, hpred.2⟩
    · cases h

end

/-- the number of points that are not doubles -/
def sphereKeep (ds : List (Option Nat)) : Nat := ds.countP Option.isNone

theorem sphereAmount_add_keep (ds : List (Option Nat)) : sphereAmountDouble ds + sphereKeep ds = ds.length := by
  induction ds with
  | nil => rfl
  | cons d ds ih =>
    unfold sphereAmountDouble sphereKeep at *
    cases d <;> simp <;> omega

theorem sphereKeep_eq (ds : List (Option Nat)) : ds.length - sphereAmountDouble ds = sphereKeep ds := by
  have := sphereAmount_add_keep ds
  omega

theorem sphereKeep_le (ds : List (Option Nat)) : sphereKeep ds ≤ ds.length := by
  have := sphereAmount_add_keep ds
  omega

theorem sphereKeep_pos (ds : List (Option Nat)) (h0 : ds[0]? = some none) : 0 < sphereKeep ds := by
  cases ds with
  | nil => simp at h0
  | cons d ds =>
    simp only [List.getElem?_cons_zero, Option.some.injEq] at h0
    subst h0
    simp [sphereKeep]

section
variable {R : Type} [Scalar R]

theorem sphereShellPoints_length (temp : List (P3 R × Bool)) (ds : List (Option Nat)) (h : ds.length = temp.length) :
    (sphereShellPoints temp ds).length = sphereKeep ds := by
  induction temp generalizing ds with
  | nil =>
    cases ds with
    | nil => rfl
    | cons _ _ => simp at h
  | cons p ps ih =>
    cases ds with
    | nil => simp at h
    | cons d ds =>
      have h' : ds.length = ps.length := by simpa using h
      have := ih ds h'
      unfold sphereShellPoints sphereKeep at *
      cases d <;> simp [List.zip_cons_cons, this]

theorem sphereShellPoints_cons (p : P3 R × Bool) (ps : List (P3 R × Bool)) (d : Option Nat) (ds : List (Option Nat)) :
    sphereShellPoints (p :: ps) (d :: ds) =
      match d with
      | none => ⟨sphereSnap p.1.x, sphereSnap p.1.y, sphereSnap p.1.z⟩ :: sphereShellPoints ps ds
      | some _ => sphereShellPoints ps ds := by
  unfold sphereShellPoints
  cases d <;> simp [List.zip_cons_cons]

/-- the shell point stored for a point `i` that is not a double sits at position "number of non-doubles before `i`" -/
theorem sphereShellPoints_get (temp : List (P3 R × Bool)) (ds : List (Option Nat)) (i : Nat) (p : P3 R × Bool)
    (hp : temp[i]? = some p) (hd : ds[i]? = some none) :
    (sphereShellPoints temp ds)[sphereKeep (ds.take i)]? = some ⟨sphereSnap p.1.x, sphereSnap p.1.y, sphereSnap p.1.z⟩ := by
  induction temp generalizing ds i with
  | nil => simp at hp
  | cons p0 ps ih =>
    cases ds with
    | nil => simp at hd
    | cons d ds =>
      rw [sphereShellPoints_cons]
      cases i with
      | zero =>
        simp only [List.getElem?_cons_zero, Option.some.injEq] at hp hd
        subst hp; subst hd
        simp [sphereKeep]
      | succ i =>
        simp only [List.getElem?_cons_succ] at hp hd
        have := ih ds i hp hd
        cases d with
        | none =>
          have hk : sphereKeep ((none :: ds).take (i + 1)) = sphereKeep (ds.take i) + 1 := by simp [sphereKeep]
          rw [hk]
          simpa using this
        | some j =>
          have hk : sphereKeep ((some j :: ds).take (i + 1)) = sphereKeep (ds.take i) := by simp [sphereKeep]
          rw [hk]
          simpa using this

end

/-! ### `compact` and `point_to` -/

theorem sphereCompact_length (ds : List (Option Nat)) (c : Nat) : (sphereCompact ds c).length = ds.length := by
  induction ds generalizing c with
  | nil => rfl
  | cons d ds ih => cases d <;> simp [sphereCompact, ih]

theorem sphereCompact_mem (ds : List (Option Nat)) (c : Nat) : ∀ e ∈ sphereCompact ds c, e = 0 ∨ e < c + sphereKeep ds := by
  induction ds generalizing c with
  | nil => intro e he; simp [sphereCompact] at he
  | cons d ds ih =>
    intro e he
    cases d with
    | none =>
      simp only [sphereCompact, List.mem_cons] at he
      have hk : sphereKeep (none :: ds) = sphereKeep ds + 1 := by simp [sphereKeep]
      rcases he with rfl | he
      · right; omega
      · rcases ih (c + 1) e he with h | h
        · left; exact h
        · right; omega
    | some j =>
      simp only [sphereCompact, List.mem_cons] at he
      have hk : sphereKeep (some j :: ds) = sphereKeep ds := by simp [sphereKeep]
      rcases he with rfl | he
      · left; rfl
      · rw [hk]; exact ih c e he

/-- the entry of `compact` at a point that is not a double is the number of non-double points before it -/
theorem sphereCompact_get (ds : List (Option Nat)) (c i : Nat) (hi : ds[i]? = some none) :
    (sphereCompact ds c)[i]? = some (c + sphereKeep (ds.take i)) := by
  induction ds generalizing c i with
  | nil => simp at hi
  | cons d ds ih =>
    cases i with
    | zero =>
      simp only [List.getElem?_cons_zero, Option.some.injEq] at hi
      subst hi
      simp [sphereCompact, sphereKeep]
    | succ i =>
      simp only [List.getElem?_cons_succ] at hi
      cases d with
      | none =>
        simp only [sphereCompact, List.getElem?_cons_succ, List.take_succ_cons]
        rw [ih (c + 1) i hi]
        simp [sphereKeep]; omega
      | some j =>
        simp only [sphereCompact, List.getElem?_cons_succ, List.take_succ_cons]
        rw [ih c i hi]
        simp [sphereKeep]

theorem sphereCompact_lt (ds : List (Option Nat)) (h0 : ds[0]? = some none) : ∀ e ∈ sphereCompact ds 0, e < sphereKeep ds := by
  intro e he
  have hp := sphereKeep_pos ds h0
  rcases sphereCompact_mem ds 0 e he with h | h <;> omega

theorem spherePointTo_length (ds : List (Option Nat)) : (spherePointTo ds).length = ds.length := by
  simp [spherePointTo]

theorem spherePointTo_get (ds : List (Option Nat)) (i : Nat) (d : Option Nat) (hi : ds[i]? = some d) :
    (spherePointTo ds)[i]? = some (d.getD i) := by
  unfold spherePointTo
  rw [List.getElem?_map, List.getElem?_zipIdx, hi]
  cases d <;> simp

theorem spherePointTo_lt (ds : List (Option Nat)) (hlt : ∀ i j, ds[i]? = some (some j) → j + 1 < i) :
    ∀ e ∈ spherePointTo ds, e < ds.length := by
  intro e he
  obtain ⟨i, hi, rfl⟩ := List.getElem_of_mem he
  rw [spherePointTo_length] at hi
  have := spherePointTo_get ds i ds[i] (List.getElem?_eq_getElem hi)
  rw [List.getElem?_eq_getElem (by rw [spherePointTo_length]; exact hi)] at this
  simp only [Option.some.injEq] at this
  rw [this]
  cases hd : ds[i] with
  | none => simpa using hi
  | some j =>
    have := hlt i j (by rw [List.getElem?_eq_getElem hi, hd])
    simp only [Option.getD_some]
    omega

/-! ### connectivity of the shell -/

theorem sphereBlockCells_eq (n : Nat) : sphereBlockCells n = cartesianCells2 n n := rfl

theorem sphereBlockCells_length (n : Nat) : (sphereBlockCells n).length = sphereBlockNCell n := by
  rw [sphereBlockCells_eq, cartesianCells2_length]
  unfold cartesianNCell2 sphereBlockNCell
  omega

theorem sphereBlockCells_in_range (n : Nat) : ∀ cell ∈ sphereBlockCells n, cell.length = 4 ∧ ∀ e ∈ cell, e < sphereBlockNP n := by
  intro cell hc
  rw [sphereBlockCells_eq] at hc
  obtain ⟨h1, h2⟩ := cartesianCells2_in_range n n cell hc
  refine ⟨h1, fun e he => ?_⟩
  have := h2 e he
  unfold cartesianNP2 at this
  unfold sphereBlockNP
  omega

theorem sphereShellCellsRaw_length (n : Nat) : (sphereShellCellsRaw n).length = sphereNBlock * sphereBlockNCell n := by
  unfold sphereShellCellsRaw
  rw [length_flatMap_uniform_mesh _ _ (sphereBlockNCell n) (by intro b _; rw [List.length_map, sphereBlockCells_length])]
  simp

theorem sphereShellCellsRaw_in_range (n : Nat) :
    ∀ cell ∈ sphereShellCellsRaw n, cell.length = 4 ∧ ∀ e ∈ cell, e < sphereNBlock * sphereBlockNP n := by
  intro cell hc
  unfold sphereShellCellsRaw at hc
  obtain ⟨b, hb, hc⟩ := List.mem_flatMap.1 hc
  obtain ⟨bc, hbc, rfl⟩ := List.mem_map.1 hc
  obtain ⟨h1, h2⟩ := sphereBlockCells_in_range n bc hbc
  have hb' : b < sphereNBlock := List.mem_range.1 hb
  refine ⟨by simpa using h1, fun e he => ?_⟩
  obtain ⟨e0, he0, rfl⟩ := List.mem_map.1 he
  have := h2 e0 he0
  calc e0 + b * sphereBlockNP n < sphereBlockNP n + b * sphereBlockNP n := by omega
    _ = (b + 1) * sphereBlockNP n := by rw [Nat.add_mul]; omega
    _ ≤ sphereNBlock * sphereBlockNP n := Nat.mul_le_mul_right _ hb'

/-- the cell written for block `b`, block cell `(ci, cj)` (0-based), before renumbering -/
theorem sphereShellCellsRaw_get (n b ci cj : Nat) (hb : b < sphereNBlock) (hi : ci < n) (hj : cj < n) :
    (sphereShellCellsRaw n)[b * sphereBlockNCell n + (cj * n + ci)]? =
      some [ b * sphereBlockNP n + (cj * (n + 1) + ci), b * sphereBlockNP n + (cj * (n + 1) + (ci + 1)),
             b * sphereBlockNP n + ((cj + 1) * (n + 1) + (ci + 1)), b * sphereBlockNP n + ((cj + 1) * (n + 1) + ci) ] := by
  unfold sphereShellCellsRaw
  have hlt : cj * n + ci < sphereBlockNCell n := by unfold sphereBlockNCell; exact lattice_lt hi hj
  rw [getElem?_flatMap_uniform _ _ (sphereBlockNCell n) (by intro x _; rw [List.length_map, sphereBlockCells_length]) b _ hlt]
  rw [List.getElem?_range hb]
  simp only [Option.bind_some, List.getElem?_map]
  rw [sphereBlockCells_eq, cartesianCells2_get n n ci cj hi hj]
  simp [Nat.add_comm]

theorem sphereRenumber_eq (pointTo compact : List Nat) (c p e : Nat) (h1 : pointTo[c]? = some p) (h2 : compact[p]? = some e) :
    sphereRenumber pointTo compact c = .ok e := by
  have e1 : idx pointTo c = .ok p := by unfold idx; rw [h1]
  have e2 : idx compact p = .ok e := by unfold idx; rw [h2]
  unfold sphereRenumber
  rw [e1]
  exact e2

theorem sphereRenumber_ok (pointTo compact : List Nat) (N S : Nat) (hpl : pointTo.length = N) (hp : ∀ e ∈ pointTo, e < N)
    (hcl : compact.length = N) (hc : ∀ e ∈ compact, e < S) (c : Nat) (hcN : c < N) :
    ∃ e, sphereRenumber pointTo compact c = .ok e ∧ e < S ∧ ∃ p, pointTo[c]? = some p ∧ compact[p]? = some e := by
  have h1 : c < pointTo.length := by omega
  have h2 : pointTo[c] < compact.length := by rw [hcl]; exact hp _ (List.getElem_mem h1)
  refine ⟨compact[pointTo[c]], ?_, hc _ (List.getElem_mem h2), pointTo[c], List.getElem?_eq_getElem h1, List.getElem?_eq_getElem h2⟩
  have e1 : idx pointTo c = .ok pointTo[c] := by unfold idx; rw [List.getElem?_eq_getElem h1]
  have e2 : idx compact pointTo[c] = .ok compact[pointTo[c]] := by unfold idx; rw [List.getElem?_eq_getElem h2]
  unfold sphereRenumber
  rw [e1]
  exact e2

/-- the two lookups never leave their arrays; every renumbered entry is a valid shell point index -/
theorem sphereShellCells_ok (n : Nat) (pointTo compact : List Nat) (S : Nat)
    (hpl : pointTo.length = sphereNBlock * sphereBlockNP n) (hp : ∀ e ∈ pointTo, e < sphereNBlock * sphereBlockNP n)
    (hcl : compact.length = sphereNBlock * sphereBlockNP n) (hc : ∀ e ∈ compact, e < S) :
    ∃ cells, sphereShellCells n pointTo compact = .ok cells ∧ cells.length = sphereNBlock * sphereBlockNCell n ∧
      (∀ cell ∈ cells, cell.length = 4 ∧ ∀ e ∈ cell, e < S) ∧
      (∀ (k : Nat) (raw : List Nat), (sphereShellCellsRaw n)[k]? = some raw → ∃ cell, cells[k]? = some cell ∧ cell.length = raw.length ∧
        ∀ (a c : Nat), raw[a]? = some c → ∃ e, cell[a]? = some e ∧ ∃ p, pointTo[c]? = some p ∧ compact[p]? = some e) := by
  have inner : ∀ raw : List Nat, (raw.length = 4 ∧ ∀ c ∈ raw, c < sphereNBlock * sphereBlockNP n) →
      ∃ cell, raw.mapM (sphereRenumber pointTo compact) = .ok cell ∧
        (cell.length = 4 ∧ (∀ e ∈ cell, e < S) ∧ cell.length = raw.length ∧
          ∀ (a c : Nat), raw[a]? = some c → ∃ e, cell[a]? = some e ∧ ∃ p, pointTo[c]? = some p ∧ compact[p]? = some e) := by
    intro raw ⟨hlen, hr⟩
    obtain ⟨cell, h1, h2, h3⟩ := mapM_except_ok (sphereRenumber pointTo compact) (fun c => c < sphereNBlock * sphereBlockNP n)
      (fun c e => e < S ∧ ∃ p, pointTo[c]? = some p ∧ compact[p]? = some e)
      (fun c hcN => sphereRenumber_ok pointTo compact _ S hpl hp hcl hc c hcN) raw hr
    refine ⟨cell, h1, by omega, ?_, h2, ?_⟩
    · exact forall_mem_of_get (Q := fun e => e < S) h2 (fun k a hk => by
        obtain ⟨b, hb, hq, _⟩ := h3 k a hk
        exact ⟨b, hb, hq⟩)
    · intro a c hac
      obtain ⟨e, he, _, hq⟩ := h3 a c hac
      exact ⟨e, he, hq⟩
  obtain ⟨cells, h1, h2, h3⟩ := mapM_except_ok (fun cell => cell.mapM (sphereRenumber pointTo compact))
    (fun raw => raw.length = 4 ∧ ∀ c ∈ raw, c < sphereNBlock * sphereBlockNP n)
    (fun raw cell => cell.length = 4 ∧ (∀ e ∈ cell, e < S) ∧ cell.length = raw.length ∧
          ∀ (a c : Nat), raw[a]? = some c → ∃ e, cell[a]? = some e ∧ ∃ p, pointTo[c]? = some p ∧ compact[p]? = some e)
    inner (sphereShellCellsRaw n) (sphereShellCellsRaw_in_range n)
  refine ⟨cells, h1, by rw [h2, sphereShellCellsRaw_length], ?_, ?_⟩
  · exact forall_mem_of_get (Q := fun cell => cell.length = 4 ∧ ∀ e ∈ cell, e < S) h2 (fun k a hk => by
      obtain ⟨b, hb, hq1, hq2, _⟩ := h3 k a hk
      exact ⟨b, hb, hq1, hq2⟩)
  · intro k raw hk
    obtain ⟨cell, hcell, _, _, hq3, hq4⟩ := h3 k raw hk
    exact ⟨cell, hcell, hq3, hq4⟩

/-! ### the layers -/

section
variable {R : Type} [Scalar R]

theorem sphereNodes_length (inner outer : R) (nz : Nat) (shell : List (P3 R)) :
    (sphereNodes inner outer nz shell).length = (nz + 1) * shell.length := by
  unfold sphereNodes
  rw [length_flatMap_uniform_mesh _ _ shell.length (by intro i _; simp)]
  simp

theorem sphereNodes_get (inner outer : R) (nz : Nat) (shell : List (P3 R)) (k j : Nat) (hk : k ≤ nz) (hj : j < shell.length) :
    (sphereNodes inner outer nz shell)[k * shell.length + j]? =
      (shell[j]?).map (sphereLayerNode outer (sphereLayerRadius inner outer nz k)) := by
  unfold sphereNodes
  rw [getElem?_flatMap_uniform _ _ shell.length (by intro i _; simp) k j hj, List.getElem?_range (by omega)]
  simp

end

theorem sphereCells_length (nz S : Nat) (shellCells : List (List Nat)) :
    (sphereCells nz S shellCells).length = nz * shellCells.length := by
  unfold sphereCells
  rw [length_flatMap_uniform_mesh _ _ shellCells.length (by intro i _; simp)]
  simp

theorem sphereCells_get (nz S : Nat) (shellCells : List (List Nat)) (i c : Nat) (hi : i < nz) (hc : c < shellCells.length) :
    (sphereCells nz S shellCells)[i * shellCells.length + c]? =
      (shellCells[c]?).map fun cell => cell.map (· + i * S) ++ cell.map (· + (i + 1) * S) := by
  unfold sphereCells
  rw [getElem?_flatMap_uniform _ _ shellCells.length (by intro i _; simp) i c hc, List.getElem?_range hi]
  simp

theorem sphereCells_in_range (nz S : Nat) (shellCells : List (List Nat))
    (h : ∀ cell ∈ shellCells, cell.length = 4 ∧ ∀ e ∈ cell, e < S) :
    ∀ cell ∈ sphereCells nz S shellCells, cell.length = 8 ∧ ∀ e ∈ cell, e < (nz + 1) * S := by
  intro cell hc
  unfold sphereCells at hc
  obtain ⟨i, hi, hc⟩ := List.mem_flatMap.1 hc
  obtain ⟨sc, hsc, rfl⟩ := List.mem_map.1 hc
  obtain ⟨h1, h2⟩ := h sc hsc
  have hi' : i < nz := List.mem_range.1 hi
  refine ⟨by simp [h1], fun e he => ?_⟩
  rcases List.mem_append.1 he with he | he
  · obtain ⟨e0, he0, rfl⟩ := List.mem_map.1 he
    have := h2 e0 he0
    calc e0 + i * S < S + i * S := by omega
      _ = (i + 1) * S := by rw [Nat.add_mul]; omega
      _ ≤ (nz + 1) * S := Nat.mul_le_mul_right _ (by omega)
  · obtain ⟨e0, he0, rfl⟩ := List.mem_map.1 he
    have := h2 e0 he0
    calc e0 + (i + 1) * S < S + (i + 1) * S := by omega
      _ = (i + 1 + 1) * S := by rw [Nat.add_mul (i + 1) 1 S]; omega
      _ ≤ (nz + 1) * S := Nat.mul_le_mul_right _ (by omega)

/-! ### points in the interior of a block are never doubles -/

theorem countP_grid {α : Type} (rows cols : List Nat) (g : Nat → Nat → α) (q : α → Bool) (a b : Nat → Bool)
    (h : ∀ i j, q (g i j) = (a i && b j)) :
    ((rows.flatMap fun j => cols.map fun i => g i j).countP q) = rows.countP b * cols.countP a := by
  induction rows with
  | nil => simp
  | cons j js ih =>
    rw [List.flatMap_cons, List.countP_append, ih, List.countP_cons, List.countP_map]
    have : (cols.countP (q ∘ fun i => g i j)) = if b j then cols.countP a else 0 := by
      cases hb : b j <;> simp [Function.comp_def, h, hb]
    rw [this]
    cases b j <;> simp [Nat.add_mul]
    omega

/-- `i` is neither the first nor the last index of `0 … n` -/
def sphereInner (n i : Nat) : Bool := !(i == 0 || i == n)

theorem countP_sphereInner (n : Nat) : (List.range (n + 1)).countP (sphereInner n) = n - 1 := by
  cases n with
  | zero => decide
  | succ m =>
    rw [List.range_eq_range', List.range'_succ, List.range'_concat]
    rw [List.countP_cons, List.countP_append]
    have h1 : (List.range' (0 + 1) m).countP (sphereInner (m + 1)) = m := by
      have : (List.range' (0 + 1) m).countP (sphereInner (m + 1)) = (List.range' (0 + 1) m).length := by
        rw [List.countP_eq_length]
        intro i hi
        rw [List.mem_range'_1] at hi
        simp [sphereInner]; omega
      rw [this, List.length_range']
    rw [h1]
    simp [sphereInner]
    omega


section
variable {R : Type} [Scalar R]

/-- the points of a block that are not on its four edges: `(n-1)²` -/
theorem layPoints_interior (p1 p2 p3 p4 : P3 R) (n : Nat) :
    (layPoints p1 p2 p3 p4 n).countP (fun ph => !ph.2) = (n - 1) * (n - 1) := by
  unfold layPoints
  rw [countP_grid (List.range (n + 1)) (List.range (n + 1)) (fun i j => layPoint p1 p2 p3 p4 n i j) (fun ph => !ph.2)
    (sphereInner n) (sphereInner n), countP_sphereInner]
  intro i j
  simp only [layPoint, sphereInner]
  cases i == 0 <;> cases j == 0 <;> cases i == n <;> cases j == n <;> rfl

theorem sphereBlock_interior (n : Nat) (c : P3 R × P3 R × P3 R × P3 R) :
    (sphereBlock n c).countP (fun ph => !ph.2) = (n - 1) * (n - 1) := by
  unfold sphereBlock
  rw [List.countP_map]
  exact layPoints_interior c.1 c.2.1 c.2.2.1 c.2.2.2 n

theorem countP_flatMap_const {α β : Type} (l : List α) (f : α → List β) (q : β → Bool) (k : Nat)
    (h : ∀ a ∈ l, (f a).countP q = k) : (l.flatMap f).countP q = l.length * k := by
  induction l with
  | nil => simp
  | cons a as ih =>
    rw [List.flatMap_cons, List.countP_append, h a (by simp), ih (fun b hb => h b (by simp [hb])), List.length_cons, Nat.add_mul]
    omega

theorem sphereTemp_interior (n : Nat) :
    (sphereTemp (R := R) n).countP (fun ph => !ph.2) = sphereNBlock * ((n - 1) * (n - 1)) := by
  unfold sphereTemp
  rw [countP_flatMap_const _ _ _ _ (fun c _ => sphereBlock_interior n c)]
  rfl

/-- only block-edge points are ever marked as doubles -/
theorem sphereAmountDouble_le (distance : R) (temp : List (P3 R × Bool)) :
    sphereAmountDouble (sphereDoubles distance temp) + temp.countP (fun ph => !ph.2) ≤ temp.length := by
  have h : sphereAmountDouble (sphereDoubles distance temp) ≤ temp.countP (fun ph => ph.2) := by
    unfold sphereAmountDouble sphereDoubles
    rw [List.countP_map]
    have h2 : temp.countP (fun ph => ph.2) = temp.zipIdx.countP (fun pi => pi.1.2) := by
      conv_lhs => rw [← List.zipIdx_map_fst (l := temp) (i := 0), List.countP_map]
      rfl
    rw [h2]
    apply List.countP_mono_left
    intro pi _ hsome
    simp only [Function.comp] at hsome
    unfold sphereFindDouble at hsome
    split at hsome
    · assumption
    · simp at hsome
  have := List.length_eq_countP_add_countP (fun ph : P3 R × Bool => ph.2) (l := temp)
  have e : temp.countP (fun a => decide ¬(fun ph : P3 R × Bool => ph.2) a = true) = temp.countP (fun ph => !ph.2) := by
    congr 1; funext a; cases h : a.2 <;> simp [h]
  rw [e] at this
  omega

end

/-! ### the whole branch -/

section
variable {R : Type} [Scalar R]

/-- everything the property theorems need about the intermediate arrays of one run -/
theorem sphereGrid_spec (inner outer : R) (n nz : Nat) :
    let temp := sphereTemp (R := R) n
    let ds := sphereDoubles ((1e-12 : R) * outer) temp
    let S := sphereShellNP outer n
    let shell := sphereShellPoints temp ds
    ∃ shellCells,
      sphereShellCells n (spherePointTo ds) (sphereCompact ds 0) = .ok shellCells ∧
      sphereGrid inner outer n nz = .ok
        { nP := (nz + 1) * S, nCell := nz * (sphereNBlock * sphereBlockNCell n),
          nodes := sphereNodes inner outer nz shell, cells := sphereCells nz S shellCells } ∧
      ds.length = sphereNBlock * sphereBlockNP n ∧
      S = sphereKeep ds ∧ S + sphereAmountDouble ds = sphereNBlock * sphereBlockNP n ∧ 0 < S ∧
      shell.length = S ∧
      shellCells.length = sphereNBlock * sphereBlockNCell n ∧
      (∀ cell ∈ shellCells, cell.length = 4 ∧ ∀ e ∈ cell, e < S) ∧
      (∀ (k : Nat) (raw : List Nat), (sphereShellCellsRaw n)[k]? = some raw → ∃ cell, shellCells[k]? = some cell ∧ cell.length = raw.length ∧
        ∀ (a c : Nat), raw[a]? = some c → ∃ e, cell[a]? = some e ∧ ∃ p, (spherePointTo ds)[c]? = some p ∧ (sphereCompact ds 0)[p]? = some e) := by
  intro temp ds S shell
  have hds : ds.length = sphereNBlock * sphereBlockNP n := by
    rw [sphereDoubles_length, sphereTemp_length]
  have hlt : ∀ i j, ds[i]? = some (some j) → j + 1 < i := sphereDoubles_lt _ temp
  have hN : 0 < sphereNBlock * sphereBlockNP n := by unfold sphereNBlock sphereBlockNP; positivity
  have h0 : ds[0]? = some none := by
    rw [List.getElem?_eq_getElem (by omega)]
    cases hd : ds[0] with
    | none => rfl
    | some j =>
      have := hlt 0 j (by rw [List.getElem?_eq_getElem (by omega), hd])
      omega
  have hS : S = sphereKeep ds := by
    show sphereNBlock * sphereBlockNP n - sphereAmountDouble ds = _
    rw [← hds]; exact sphereKeep_eq ds
  have hpos : 0 < S := hS ▸ sphereKeep_pos ds h0
  obtain ⟨shellCells, hok, hlen, hrange, hget⟩ := sphereShellCells_ok n (spherePointTo ds) (sphereCompact ds 0) S
    (by rw [spherePointTo_length, hds]) (by rw [← hds]; exact spherePointTo_lt ds hlt)
    (by rw [sphereCompact_length, hds]) (by rw [hS]; exact sphereCompact_lt ds h0)
  refine ⟨shellCells, hok, ?_, hds, hS, ?_, hpos, ?_, hlen, hrange, hget⟩
  · unfold sphereGrid
    show (do let shellCells ← sphereShellCells n (spherePointTo ds) (sphereCompact ds 0); pure _) = _
    rw [hok]
    rfl
  · rw [hS, ← hds]
    have := sphereAmount_add_keep ds
    omega
  · rw [hS]; exact sphereShellPoints_length temp ds (sphereDoubles_length _ temp)

end

end Gwb
