/-
Envelope facts about the two slab-only temperature models (`Model/Models/SlabTemp.lean`) beyond `Proofs/SlabTemp.lean`:

* slab `plate model`: the truncated series keeps its start value when every sine factor vanishes, hence at the bottom of the slab
  (`distance = min(local thickness, max distance)`) the model returns exactly the adiabat of the potential temperature;
* `mass conserving`, top side (`adjusted distance < 0`): two-sided bound `T_min − 1e-16 ≤ T ≤ T_old`;
  plate-model reference at adjusted distance 0: exactly `T_min`, for any number of terms;
* the empirical `min_temperature`: bounds of `subfact`, `T_coup`, `T_min660`, and of the three branches, with the hypotheses they need;
* the monotone spline: a cubic Hermite piece whose end tangents lie between 0 and three times the secant stays between its end values,
  and the harmonic-mean tangent of `set_points` is such a tangent.
Everything is over an ordered field with the libm laws as hypotheses (`SlabLaws`), shown satisfiable by `realTransc`.
-/
import GwbVerif.Proofs.SlabTemp
import Mathlib.Analysis.SpecialFunctions.Sqrt
namespace Gwb
open Scalar
set_option linter.unusedSectionVars false
set_option linter.unusedVariables false
set_option linter.unusedSimpArgs false

section field
variable {F : Type} [Field F] [LinearOrder F] [IsStrictOrderedRing F]

/-- the laws of `exp`, `pow`, `sqrt`, `erfc`, `π` used for the slab envelopes (on top of `ErfcLaws`) -/
structure SlabLaws (T : Transc F) : Prop where
  erfcLaws : ErfcLaws T
  exp_pos : ∀ x, 0 < T.exp x
  exp_le_one : ∀ x, x ≤ 0 → T.exp x ≤ 1
  pow_two : ∀ x, T.pow x 2 = x * x
  sqrt_sq : ∀ x, 0 ≤ x → T.sqrt (x * x) = x
  pi_pos : 0 < T.pi
  /-- `erfc ≥ 1` left of the origin -/
  erfc_ge_one : ∀ x, x ≤ 0 → 1 ≤ T.erfc x

/-! ## slab `plate model` -/

theorem slabPlateSeries_step (T : Transc F) (bigR x z : F) (fuel i : ℕ) (sum : F) :
    @slabPlateSeries F (fieldScalar T) bigR x z (fuel + 1) i sum =
      @slabPlateSeries F (fieldScalar T) bigR x z fuel (i + 1)
        (sum + (T.pow (-(1 : F)) (i : F) / ((i : F) * T.pi)) *
          T.exp ((bigR - T.pow (bigR * bigR + ((i * i : ℕ) : F) * T.pi * T.pi) (1 / 2)) * x) * T.sin ((i : F) * T.pi * z)) := by
  have h05 : @OfScientific.ofScientific F (@Scalar.instOfScientific F (fieldScalar T)) 5 true 1 = (1 / 2 : F) := by
    rw [lit_sci]; norm_num
  conv_lhs => unfold slabPlateSeries
  simp only [s_add T, s_sub T, s_mul T, s_div T, s_neg T, s_exp T, s_sin T, s_pow T, s_pi T, lit_nat' T, lit_1_0 T, h05]

/-- if every sine factor vanishes the series keeps its start value (any number of terms) -/
theorem slabPlateSeries_of_sin_zero (T : Transc F) (bigR x z : F) (hs : ∀ i : ℕ, T.sin ((i : F) * T.pi * z) = 0)
    (fuel i : ℕ) (sum : F) : @slabPlateSeries F (fieldScalar T) bigR x z fuel i sum = sum := by
  induction fuel generalizing i sum with
  | zero => rfl
  | succ fuel ih =>
    rw [slabPlateSeries_step, ih, hs]; ring

/-! ## `mass conserving`: the top side -/

/-- the order core of the top side: an amplitude `a = q·δ/s ≤ 0` with `|q| ≤ s`, damped by `0 ≤ e ≤ 1`, cannot take `old ≥ T_min`
below `T_min − ε` where `δ = T_min − old + ε` -/
theorem top_amp_bound (a q δ s e old minT ε : F) (hs : |q| ≤ s) (hspos : 0 < s) (ha : a = q * δ / s) (ha0 : a ≤ 0)
    (he0 : 0 ≤ e) (he1 : e ≤ 1) (hδ : δ = minT - old + ε) (hε : 0 ≤ ε) (hold : minT ≤ old) :
    minT - ε ≤ old + a * e ∧ old + a * e ≤ old := by
  have habs : |a| ≤ |δ| := by
    rw [ha, abs_div, abs_mul, abs_of_pos hspos, div_le_iff₀ hspos]
    calc |q| * |δ| ≤ s * |δ| := mul_le_mul_of_nonneg_right hs (abs_nonneg _)
      _ = |δ| * s := mul_comm _ _
  have h1 : a ≤ a * e := by nlinarith
  have h2 : -|a| ≤ a := neg_abs_le a
  have h3 : |δ| ≤ old - minT + ε := by
    rw [abs_le, hδ]; constructor <;> linarith
  constructor
  · linarith
  · have : a * e ≤ 0 := mul_nonpos_of_nonpos_of_nonneg ha0 he0
    linarith

/-- the top-side formula in the field's own notation -/
theorem top_key (T : Transc F) (L : SlabLaws T) (ρ cp κ thc minT old adj ε : F) (hk : 0 < κ) (hrho : 0 < ρ) (hcp : 0 < cp)
    (hε : 0 < ε) (hne : minT - old + ε ≠ 0) (hold : minT ≤ old) (hthc : thc ≤ 0) :
    minT - ε ≤ old + (2 * thc / (2 * ρ * cp * T.sqrt (T.pi * κ * (1 / (T.pi * κ) * T.pow (2 * thc / (2 * ρ * cp * (minT - old + ε))) 2 + ε)))) *
        T.exp (-(adj * adj) / (4 * κ * (1 / (T.pi * κ) * T.pow (2 * thc / (2 * ρ * cp * (minT - old + ε))) 2 + ε))) ∧
    old + (2 * thc / (2 * ρ * cp * T.sqrt (T.pi * κ * (1 / (T.pi * κ) * T.pow (2 * thc / (2 * ρ * cp * (minT - old + ε))) 2 + ε)))) *
        T.exp (-(adj * adj) / (4 * κ * (1 / (T.pi * κ) * T.pow (2 * thc / (2 * ρ * cp * (minT - old + ε))) 2 + ε))) ≤ old := by
  have hpk : 0 < T.pi * κ := mul_pos L.pi_pos hk
  rw [L.pow_two]
  generalize hq : 2 * thc / (2 * ρ * cp * (minT - old + ε)) = q
  have htpos : 0 < 1 / (T.pi * κ) * (q * q) + ε :=
    add_pos_of_nonneg_of_pos (mul_nonneg (by positivity) (mul_self_nonneg q)) hε
  generalize ht : 1 / (T.pi * κ) * (q * q) + ε = t at htpos
  have hpt : T.pi * κ * t = q * q + T.pi * κ * ε := by
    rw [← ht, mul_add, ← mul_assoc, mul_one_div_cancel (ne_of_gt hpk), one_mul]
  have hspos : 0 < T.sqrt (T.pi * κ * t) := L.erfcLaws.sqrt_pos _ (mul_pos hpk htpos)
  have hs : |q| ≤ T.sqrt (T.pi * κ * t) := by
    rcases eq_or_ne q 0 with h0 | h0
    · rw [h0, abs_zero]; exact hspos.le
    · have hq0 : 0 < |q| := abs_pos.mpr h0
      have := L.erfcLaws.sqrt_mono (|q| * |q|) (T.pi * κ * t) (mul_pos hq0 hq0) (by
        rw [hpt, abs_mul_abs_self]; nlinarith [mul_pos hpk hε])
      rwa [L.sqrt_sq _ hq0.le] at this
  have hden : 0 < 2 * ρ * cp := by positivity
  have ha : 2 * thc / (2 * ρ * cp * T.sqrt (T.pi * κ * t)) = q * (minT - old + ε) / T.sqrt (T.pi * κ * t) := by
    rw [← hq]; field_simp
  have ha0 : 2 * thc / (2 * ρ * cp * T.sqrt (T.pi * κ * t)) ≤ 0 :=
    div_nonpos_of_nonpos_of_nonneg (by linarith) (mul_pos hden hspos).le
  have hexp_arg : -(adj * adj) / (4 * κ * t) ≤ 0 :=
    div_nonpos_of_nonpos_of_nonneg (by nlinarith [mul_self_nonneg adj]) (by positivity)
  exact top_amp_bound _ q (minT - old + ε) _ _ old minT ε hs hspos ha ha0 (L.exp_pos _).le (L.exp_le_one _ hexp_arg) rfl hε.le hold

/-- top side (`adjusted distance < 0`), incoming temperature not below the slab's minimum, non-positive top heat content:
`T_min − 1e-16 ≤ T ≤ T_old`.  `hne` excludes `old = T_min + 1e-16` exactly, where the C++ divides by zero (IEEE: the amplitude becomes 0 and `T = old`;
a field has no infinity) -/
theorem MassConserving.analytic_top_bounds (T : Transc F) (L : SlabLaws T) (m : MassConserving F) (thc minT bg old v epa adj : F)
    (hk : 0 < m.kappa) (hrho : 0 < m.density) (hcp : 0 < m.cp) (hadj : adj < 0) (hold : ¬ old < minT) (hthc : thc ≤ 0)
    (hne : minT - old + ((OfScientific.ofScientific 1 true 16 : ℚ) : F) ≠ 0) :
    minT - ((OfScientific.ofScientific 1 true 16 : ℚ) : F) ≤ @MassConserving.analytic F (fieldScalar T) m thc minT bg old v epa adj ∧
    @MassConserving.analytic F (fieldScalar T) m thc minT bg old v epa adj ≤ old := by
  have heps : (0 : F) < ((OfScientific.ofScientific 1 true 16 : ℚ) : F) := by
    have : (0 : ℚ) < OfScientific.ofScientific 1 true 16 := by norm_num
    exact_mod_cast this
  unfold MassConserving.analytic
  simp only [s_lt T, lit_0 T, hadj, hold, if_true, if_false]
  simp only [s_add T, s_sub T, s_mul T, s_div T, s_neg T, s_sqrt T, s_exp T, s_pow T, s_pi T, lit_1 T, lit_2 T, lit_4 T, lit_sci T]
  exact top_key T L m.density m.cp m.kappa thc minT old adj _ hk hrho hcp heps hne (not_lt.mp hold) hthc

/-! ## `mass conserving`: the plate-model reference below the minimum -/

theorem analyticPlateSeries_step (T : Transc F) (m : MassConserving F) (minT bg svUI epa adj : F) (fuel i : ℕ) (t : F) :
    @analyticPlateSeries F (fieldScalar T) m minT bg svUI epa adj (fuel + 1) i t =
      @analyticPlateSeries F (fieldScalar T) m minT bg svUI epa adj fuel (i + 1)
        (t - (minT - bg) * ((2 / ((i : F) * T.pi)) * T.sin (((i : F) * T.pi * adj) / m.mx) *
          T.exp ((((svUI * m.mx) / (2 * m.kappa)) -
              T.sqrt (((svUI * svUI * m.mx * m.mx) / (4 * m.kappa * m.kappa)) + (i : F) * (i : F) * T.pi * T.pi)) * ((svUI * epa) / m.mx)))) := by
  conv_lhs => unfold analyticPlateSeries
  simp only [s_add T, s_sub T, s_mul T, s_div T, s_exp T, s_sin T, s_sqrt T, s_pi T, lit_nat' T, lit_2 T, lit_4 T]

/-- if every sine factor vanishes the series keeps its start value (any number of terms) -/
theorem analyticPlateSeries_of_sin_zero (T : Transc F) (m : MassConserving F) (minT bg svUI epa adj : F)
    (hs : ∀ i : ℕ, T.sin (((i : F) * T.pi * adj) / m.mx) = 0) (fuel i : ℕ) (t : F) :
    @analyticPlateSeries F (fieldScalar T) m minT bg svUI epa adj fuel i t = t := by
  induction fuel generalizing i t with
  | zero => rfl
  | succ fuel ih =>
    rw [analyticPlateSeries_step, ih, hs]; ring

/-- plate-model reference: at adjusted distance 0 the minimum temperature is returned exactly (`sin 0 = 0`; any number of terms) -/
theorem MassConserving.analytic_plate_at_zero (T : Transc F) (hsin0 : T.sin 0 = 0) (m : MassConserving F) (hp : m.plateRef = true)
    (thc minT bg old v epa : F) (hmx : 0 < m.mx) :
    @MassConserving.analytic F (fieldScalar T) m thc minT bg old v epa 0 = minT := by
  unfold MassConserving.analytic
  simp only [s_lt T, lit_0 T, lt_irrefl, hp, hmx, if_true, if_false]
  rw [analyticPlateSeries_of_sin_zero T m minT bg _ epa 0 (fun i => by rw [mul_zero, zero_div]; exact hsin0)]
  simp only [s_add T, s_sub T, s_mul T, s_div T, lit_1 T, zero_div]
  ring

/-! ## slab `plate model`: the bottom boundary -/

theorem slab_fabs_eq_abs (T : Transc F) (x : F) : @Scalar.fabs F (fieldScalar T) x = |x| := by
  show (if x < ((0 : ℕ) : F) then -x else x) = |x|
  rw [Nat.cast_zero]
  split
  · rename_i h; rw [abs_of_neg h]
  · rename_i h; rw [abs_of_nonneg (not_lt.mp h)]

/-- at `distance = min(local thickness, max distance)` (the scaled coordinate `z = 0`) every sine factor is `sin 0`: the model returns
the adiabat of the potential temperature exactly -/
theorem SlabPlateModel.get_at_bottom (T : Transc F) (hsin0 : T.sin 0 = 0) (m : SlabPlateModel F) (depth g : F) (pd : PlaneDist F)
    (ap : AdditionalParams F) (old : F)
    (hr : pd.distanceFromPlane ≤ m.mx ∧ m.mn ≤ pd.distanceFromPlane)
    (hd : pd.distanceFromPlane = min ap.localThickness m.mx) (hnz : ¬ |pd.distanceFromPlane| < 2 * T.eps) (hne : pd.distanceFromPlane ≠ 0) :
    @SlabPlateModel.get F (fieldScalar T) m depth g pd ap old =
      @applyOp F (fieldScalar T) m.op old ((if m.adiabaticHeating then T.exp ((m.alpha * g * depth) / m.cp) else 1) * m.potentialT) := by
  unfold SlabPlateModel.get
  simp only [s_le T, s_ge T, s_lt T, hr, and_self, if_true, slab_fabs_eq_abs, lit_2_0 T, s_eps T, s_mul T, s_div T, s_sub T, s_add T, s_exp T, hnz, if_false,
    smin_eq, ← hd, div_self hne, lit_1 T, sub_self]
  rw [slabPlateSeries_of_sin_zero T _ _ 0 (fun i => by rw [mul_zero]; exact hsin0)]
  congr 1
  simp only [lit_0 T, mul_zero, add_zero]

/-! ## `mass conserving`: the empirical minimum temperature -/

/-- `subfact = 0.3 + vsubfact + agefact` with the two clamps lies in `[0.5, 1.65]` -/
theorem mc_subfact_bounds (x y : F) :
    (1 / 2 : F) ≤ 3 / 10 + min (max x (1 / 10)) (35 / 100) + min (max y (1 / 10)) 1 ∧
    3 / 10 + min (max x (1 / 10)) (35 / 100) + min (max y (1 / 10)) 1 ≤ (165 / 100 : F) := by
  have h1 : (1 / 10 : F) ≤ min (max x (1 / 10)) (35 / 100) := le_min (le_max_right _ _) (by norm_num)
  have h2 : min (max x (1 / 10)) (35 / 100) ≤ (35 / 100 : F) := min_le_right _ _
  have h3 : (1 / 10 : F) ≤ min (max y (1 / 10)) 1 := le_min (le_max_right _ _) (by norm_num)
  have h4 : min (max y (1 / 10)) 1 ≤ (1 : F) := min_le_right _ _
  constructor <;> linarith

/-- `T_coup = 10 + (subfact − 0.5)·340 ≥ 10` and `T_min660 = 300 + (subfact − 0.5)·600 ≥ 300` for `subfact ≥ 0.5` -/
theorem mc_tcoup_tmin660 (s : F) (hs : 1 / 2 ≤ s) :
    (10 : F) ≤ 10 + (s - 1 / 2) * (350 - 10) ∧ (300 : F) ≤ 300 + (s - 1 / 2) * (900 - 300) := by
  constructor <;> nlinarith

/-- above the coupling depth: `T_coup·erfc θ ≥ 0` whatever `θ` is -/
theorem mc_minT0_coupling (T : Transc F) (L : SlabLaws T) (tcoup θ : F) (ht : 0 ≤ tcoup) : 0 ≤ tcoup * T.erfc θ :=
  mul_nonneg ht (L.erfcLaws.erfc_nonneg θ)

/-- below the coupling depth, when the coupling depth is shallower than 660 km (`θ ≤ 0`): `T_coup + T_min660·erfc θ − T_min660 ≥ T_coup` -/
theorem mc_minT0_deep (T : Transc F) (L : SlabLaws T) (tcoup tmin660 θ : F) (ht : 0 ≤ tmin660) (hθ : θ ≤ 0) :
    tcoup ≤ tcoup + tmin660 * T.erfc θ - tmin660 := by
  have := L.erfc_ge_one θ hθ
  nlinarith

/-- the sign of `θ = (coupling depth − depth)/(subfact·(660 km − coupling depth))` below the coupling depth -/
theorem mc_theta_deep_nonpos (cd depthRef s : F) (hs : 0 < s) (hcd : cd < 660000) (hd : cd ≤ depthRef) :
    (cd - depthRef) / (s * (660000 - cd)) ≤ 0 :=
  div_nonpos_of_nonpos_of_nonneg (by linarith) (mul_pos hs (by linarith)).le

/-- … and when the coupling depth is DEEPER than 660 km the same `θ` is non-negative: the minimum temperature then DROPS with depth
(`mc_minT0_deep_wrong_side`), down to `T_coup − T_min660 < 0` -/
theorem mc_minT0_deep_wrong_side (T : Transc F) (L : SlabLaws T) (tcoup tmin660 θ : F) (ht : 0 ≤ tmin660) (hθ : 0 ≤ θ) :
    tcoup + tmin660 * T.erfc θ - tmin660 ≤ tcoup := by
  have := L.erfcLaws.erfc_le_one θ hθ
  nlinarith

/-- the taper: a blend `a + (Tp − a)·(1 − erfc(0.8 θ))` with `θ ≥ 0` lies between `a` and `Tp` -/
theorem mc_minT0_taper (T : Transc F) (L : SlabLaws T) (a tp x : F) (hx : 0 ≤ x) :
    min a tp ≤ a + (tp - a) * (1 - T.erfc x) ∧ a + (tp - a) * (1 - T.erfc x) ≤ max a tp := by
  have h0 := L.erfcLaws.erfc_nonneg x
  have h1 := L.erfcLaws.erfc_le_one x hx
  rcases le_total a tp with h | h
  · rw [min_eq_left h, max_eq_right h]; constructor <;> nlinarith
  · rw [min_eq_right h, max_eq_left h]; constructor <;> nlinarith

/-- the top heat content handed to the analytic profile is non-positive when the forearc cooling factor and the background
temperature are non-negative -/
theorem mc_top_heat_content_nonpos (fc bg x e : F) (hfc : 0 ≤ fc) (hbg : 0 ≤ bg) (he : 0 ≤ e) :
    min (-1000000000 * fc * bg) x ≤ 0 ∧ min (-1000000000 * fc * bg) x * e ≤ 0 := by
  have h : min (-1000000000 * fc * bg) x ≤ 0 := le_trans (min_le_left _ _) (by nlinarith [mul_nonneg hfc hbg])
  exact ⟨h, mul_nonpos_of_nonpos_of_nonneg h he⟩

/-! ## the monotone spline -/

/-- a cubic Hermite piece `((a·h + b)·h + c)·h + y` with the coefficients of `set_points`
(`a = c0 + c1 − 2m`, `b = m − c0 − a`, `c = c0`) whose end tangents `c0`, `c1` lie between `0` and `3m` stays between its end values
`y` and `y + m` on `0 ≤ h ≤ 1` (rising secant) -/
theorem spline_piece_between_up (y m c0 c1 h : F) (hm : 0 ≤ m) (h0 : 0 ≤ h) (h1 : h ≤ 1)
    (hc0 : 0 ≤ c0) (hc0' : c0 ≤ 3 * m) (hc1 : 0 ≤ c1) (hc1' : c1 ≤ 3 * m) :
    y ≤ (((c0 + c1 - m - m) * h + (m - c0 - (c0 + c1 - m - m))) * h + c0) * h + y ∧
    (((c0 + c1 - m - m) * h + (m - c0 - (c0 + c1 - m - m))) * h + c0) * h + y ≤ y + m := by
  have e1 : (((c0 + c1 - m - m) * h + (m - c0 - (c0 + c1 - m - m))) * h + c0) * h + y - y =
      m * (h * h * h) + c0 * (h * (1 - h) * (1 - h)) + (3 * m - c1) * (h * h * (1 - h)) := by ring
  have e2 : y + m - ((((c0 + c1 - m - m) * h + (m - c0 - (c0 + c1 - m - m))) * h + c0) * h + y) =
      m * ((1 - h) * (1 - h) * (1 - h)) + (3 * m - c0) * (h * (1 - h) * (1 - h)) + c1 * (h * h * (1 - h)) := by ring
  have k : 0 ≤ 1 - h := by linarith
  have p1 : 0 ≤ m * (h * h * h) + c0 * (h * (1 - h) * (1 - h)) + (3 * m - c1) * (h * h * (1 - h)) := by
    have : 0 ≤ 3 * m - c1 := by linarith
    positivity
  have p2 : 0 ≤ m * ((1 - h) * (1 - h) * (1 - h)) + (3 * m - c0) * (h * (1 - h) * (1 - h)) + c1 * (h * h * (1 - h)) := by
    have : 0 ≤ 3 * m - c0 := by linarith
    positivity
  constructor <;> linarith

/-- the same for a falling secant (mirror image) -/
theorem spline_piece_between_down (y m c0 c1 h : F) (hm : m ≤ 0) (h0 : 0 ≤ h) (h1 : h ≤ 1)
    (hc0 : c0 ≤ 0) (hc0' : 3 * m ≤ c0) (hc1 : c1 ≤ 0) (hc1' : 3 * m ≤ c1) :
    y + m ≤ (((c0 + c1 - m - m) * h + (m - c0 - (c0 + c1 - m - m))) * h + c0) * h + y ∧
    (((c0 + c1 - m - m) * h + (m - c0 - (c0 + c1 - m - m))) * h + c0) * h + y ≤ y := by
  have := spline_piece_between_up (-y) (-m) (-c0) (-c1) h (by linarith) h0 h1 (by linarith) (by linarith) (by linarith) (by linarith)
  obtain ⟨a, b⟩ := this
  constructor <;> nlinarith

/-- the interior tangent of `set_points` (`0` at a local extremum, else the harmonic mean `2·m0·m1/(m0+m1)`) lies between `0` and twice
either neighbouring secant when both rise -/
theorem spline_tangent_bounds_up (m0 m1 : F) (h0 : 0 ≤ m0) (h1 : 0 ≤ m1) :
    0 ≤ (if m0 * m1 ≤ 0 then 0 else 2 * m0 * m1 / (m0 + m1)) ∧
    (if m0 * m1 ≤ 0 then 0 else 2 * m0 * m1 / (m0 + m1)) ≤ 2 * m0 ∧
    (if m0 * m1 ≤ 0 then 0 else 2 * m0 * m1 / (m0 + m1)) ≤ 2 * m1 := by
  split_ifs with h
  · exact ⟨le_rfl, by linarith, by linarith⟩
  · have hp : 0 < m0 * m1 := not_le.mp h
    have hm0 : 0 < m0 := by
      rcases eq_or_lt_of_le h0 with e | e
      · rw [← e, zero_mul] at hp; exact absurd hp (lt_irrefl _)
      · exact e
    have hm1 : 0 < m1 := by
      rcases eq_or_lt_of_le h1 with e | e
      · rw [← e, mul_zero] at hp; exact absurd hp (lt_irrefl _)
      · exact e
    have hs : 0 < m0 + m1 := by linarith
    refine ⟨by positivity, ?_, ?_⟩
    · rw [div_le_iff₀ hs]; nlinarith
    · rw [div_le_iff₀ hs]; nlinarith

end field

/-! ## Non-vacuity: the laws hold of the real functions -/

/-- `SlabLaws` holds of `realTransc` (`Real.exp`, `Real.sqrt`, `Real.pi`; `pow x _ = x·x`; `exp (−x)` standing in for `erfc`) -/
theorem real_slabLaws : SlabLaws realTransc where
  erfcLaws := real_erfcLaws
  exp_pos x := Real.exp_pos x
  exp_le_one x hx := Real.exp_le_one_iff.mpr hx
  pow_two x := rfl
  sqrt_sq x hx := Real.sqrt_mul_self hx
  pi_pos := Real.pi_pos
  erfc_ge_one x hx := Real.one_le_exp (by linarith)

end Gwb
