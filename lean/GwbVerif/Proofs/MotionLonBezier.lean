/-
Helpers for C08, part 11: the closest point on the Bezier trench curve, SPHERICAL branch, under a common longitude offset in the
general case (curve offset by `d`, query longitude `L' = L + d + 2πj`).

The spherical branch sees the query longitude in three places:
* `initialEstimateSph`: the difference `cp.x − p1.x` is brought into `[−π, π]` by ONE step of `2π` (enough for a canonical query and a
  trench within `[−2π, 2π]`), so the start value of the Newton iteration is the same in both frames unless a description of the query
  is exactly `π` away from the piece's first point (tie);
* the Newton iteration and its line search: `sin` and `cos` of HALF the longitude difference between the running point and the query,
  always in the products `sin·sin`, `cos·cos`, `sin·cos`; under `sin (x + π) = −sin x`, `cos (x + π) = −cos x` (`HalfTurnLaws`) a change
  of the difference by `2πj` multiplies both by the same sign `σ = (−1)^j`, so every iterate is the same;
* the SIGN of the returned distance (`closestOf`): `(derivative_point − point_on_curve)·(check_point − point_on_curve)` with the raw
  longitude difference — not invariant (nor is it in the Cartesian case, `C08_bezier_closest_translation_full_false`).
-/
import GwbVerif.Proofs.MotionLonSurface
import Mathlib.Data.Rat.Floor
import Mathlib.Algebra.Group.Int.Even
namespace Gwb
open Scalar
set_option linter.unusedSectionVars false

section generic
variable {R : Type} [Scalar R]

/-- the Newton result `(est, found)` of one piece (spherical branch) and the squared distance at `est` -/
def pieceS (p1 p2 c0 c1 cp : P2 R) (cosCpLat : R) : (R × Bool) × R :=
  let k := cubicOf p1 p2 c0 c1
  let r := newtonS k cosCpLat cp 150 (initialEstimateSph p1 p2 cp)
  (r, sqDistS cosCpLat cp (cubicPoint k r.1))

/-- one iteration of the loop over the pieces -/
theorem closestSphericalLoop_succ (bz : Bezier R) (cp : P2 R) (cosCpLat : R) (fuel i : Nat) (minSq : R)
    (best : Option (ClosestPoint R)) :
    closestSphericalLoop bz cp cosCpLat (fuel + 1) i minSq best =
      if i < bz.control.length then do
        let p1 ← idx bz.points i
        let p2 ← idx bz.points (i + 1)
        let c ← idx bz.control i
        let r := pieceS p1 p2 c.1 c.2 cp cosCpLat
        if !r.1.2 then .error .newton
        if r.2 < minSq ∧ accept i r.1.1 then
          closestSphericalLoop bz cp cosCpLat fuel (i + 1) r.2
            (some (closestOf (cubicOf p1 p2 c.1 c.2) p1 p2 c.1 c.2 cp i r.1.1 r.2 (cubicPoint (cubicOf p1 p2 c.1 c.2) r.1.1)))
        else closestSphericalLoop bz cp cosCpLat fuel (i + 1) minSq best
      else .ok best := by
  rfl

end generic

section field
variable {F : Type} [Field F] [LinearOrder F] [IsStrictOrderedRing F] (T : Transc F)

/-- half-turn laws of `sin`, `cos` (they imply the `2π`-periodicity) -/
structure HalfTurnLaws (T : Transc F) : Prop where
  sin_pi : ∀ x, T.sin (x + T.pi) = -T.sin x
  cos_pi : ∀ x, T.cos (x + T.pi) = -T.cos x

theorem HalfTurnLaws.periodLaws {T : Transc F} (h : HalfTurnLaws T) : PeriodLaws T := by
  constructor
  · intro x
    rw [show x + 2 * T.pi = (x + T.pi) + T.pi by ring, h.sin_pi, h.sin_pi, neg_neg]
  · intro x
    rw [show x + 2 * T.pi = (x + T.pi) + T.pi by ring, h.cos_pi, h.cos_pi, neg_neg]

theorem HalfTurnLaws.sub_pi {T : Transc F} (h : HalfTurnLaws T) (x : F) :
    T.sin (x - T.pi) = -T.sin x ∧ T.cos (x - T.pi) = -T.cos x := by
  have h1 := h.sin_pi (x - T.pi)
  have h2 := h.cos_pi (x - T.pi)
  rw [sub_add_cancel] at h1 h2
  exact ⟨by rw [h1, neg_neg], by rw [h2, neg_neg]⟩

/-- a shift of the argument by `π·m` multiplies `sin` and `cos` by the same sign -/
theorem HalfTurnLaws.int {T : Transc F} (h : HalfTurnLaws T) (m : ℤ) :
    ∃ σ : F, (σ = 1 ∨ σ = -1) ∧ ∀ x, T.sin (x + T.pi * m) = σ * T.sin x ∧ T.cos (x + T.pi * m) = σ * T.cos x := by
  induction m using Int.induction_on with
  | zero => exact ⟨1, Or.inl rfl, fun x => by simp⟩
  | succ n ih =>
    obtain ⟨σ, hσ, hx⟩ := ih
    refine ⟨-σ, by rcases hσ with rfl | rfl <;> simp, fun x => ?_⟩
    rw [show x + T.pi * (((n : ℤ) + 1 : ℤ) : F) = (x + T.pi * ((n : ℤ) : F)) + T.pi by push_cast; ring, h.sin_pi, h.cos_pi,
      (hx x).1, (hx x).2]
    exact ⟨by ring, by ring⟩
  | pred n ih =>
    obtain ⟨σ, hσ, hx⟩ := ih
    refine ⟨-σ, by rcases hσ with rfl | rfl <;> simp, fun x => ?_⟩
    rw [show x + T.pi * ((-(n : ℤ) - 1 : ℤ) : F) = (x + T.pi * ((-(n : ℤ) : ℤ) : F)) - T.pi by push_cast; ring,
      (h.sub_pi _).1, (h.sub_pi _).2, (hx x).1, (hx x).2]
    exact ⟨by ring, by ring⟩

/-! ### the start value -/

/-- the longitude difference of `initialEstimateSph`, brought towards `[−π, π]` by one step of `2π` -/
def sphDx (cp p1 : P2 F) : F :=
  if cp.x - p1.x > T.pi then cp.x - p1.x - 2 * T.pi else if cp.x - p1.x < -T.pi then cp.x - p1.x + 2 * T.pi else cp.x - p1.x

theorem sphDx_spec (cp p1 : P2 F) (hr : |cp.x - p1.x| ≤ 3 * T.pi) :
    |sphDx T cp p1| ≤ T.pi ∧ ∃ k : ℤ, sphDx T cp p1 = cp.x + 2 * T.pi * k - p1.x := by
  unfold sphDx
  rw [abs_le] at hr
  split_ifs with h1 h2
  · refine ⟨?_, -1, by push_cast; ring⟩
    rw [abs_le]; constructor <;> linarith [hr.1, hr.2]
  · refine ⟨?_, 1, by push_cast; ring⟩
    rw [abs_le]; constructor <;> linarith [hr.1, hr.2]
  · refine ⟨?_, 0, by simp⟩
    rw [abs_le]; constructor <;> linarith

/-- the normalised difference is the same in both frames (no tie) -/
theorem sphDx_lon_offset (hπ : 0 < T.pi) (d : F) (cp cp' p1 : P2 F) (j : ℤ) (hrel : cp'.x = cp.x + d + 2 * T.pi * j)
    (hr : |cp.x - p1.x| ≤ 3 * T.pi) (hr' : |cp'.x - (p1.x + d)| ≤ 3 * T.pi) (hnt : ∀ k : ℤ, |cp.x + 2 * T.pi * k - p1.x| ≠ T.pi) :
    sphDx T cp' (P2.shift ⟨d, 0⟩ p1) = sphDx T cp p1 := by
  obtain ⟨a1, k, a2⟩ := sphDx_spec T cp p1 hr
  obtain ⟨b1, k', b2⟩ := sphDx_spec T cp' (P2.shift ⟨d, 0⟩ p1) (by simpa using hr')
  have e' : sphDx T cp' (P2.shift ⟨d, 0⟩ p1) = cp.x + 2 * T.pi * ((j + k' : ℤ) : F) - p1.x := by
    rw [b2, hrel, P2.shift_x]; push_cast; ring
  have a1' : |cp.x + 2 * T.pi * (k : F) - p1.x| < T.pi := by
    rw [a2] at a1; exact lt_of_le_of_ne a1 (hnt k)
  have b1' : |cp.x + 2 * T.pi * ((j + k' : ℤ) : F) - p1.x| < T.pi := by
    rw [e'] at b1; exact lt_of_le_of_ne b1 (hnt (j + k'))
  have hk : k = j + k' := alias_unique T hπ cp.x p1.x k (j + k') a1' b1'
  rw [e', a2, hk]

/-! ### the aligned query longitude of the on-trench test (`dpfcpLonShift`) -/

theorem dpfcpLonShift_field (cx clx : F) :
    @dpfcpLonShift F (fieldScalar T) cx clx =
      if cx - clx > T.pi then -2 * T.pi else if cx - clx < -T.pi then 2 * T.pi else 0 := by
  unfold dpfcpLonShift
  sfield

/-- the aligned longitude difference of the on-trench test is the normalised difference `sphDx` -/
theorem dpfcp_aligned_sub (cx clx y y' : F) :
    cx + @dpfcpLonShift F (fieldScalar T) cx clx - clx = sphDx T ⟨cx, y⟩ ⟨clx, y'⟩ := by
  rw [dpfcpLonShift_field]
  unfold sphDx
  simp only
  split_ifs <;> ring

/-- **the aligned query longitude follows a common longitude offset**: foot longitude `m + d`, query longitude `L' = L + d + 2πj`, both
query longitudes at most `3π` from the foot longitude, no description of the query exactly `π` away from it -/
theorem dpfcp_aligned_lon_offset (hπ : 0 < T.pi) (d L L' m : F) (j : ℤ) (hrel : L' = L + d + 2 * T.pi * j)
    (hr : |L - m| ≤ 3 * T.pi) (hr' : |L' - (m + d)| ≤ 3 * T.pi) (hnt : ∀ k : ℤ, |L + 2 * T.pi * k - m| ≠ T.pi) :
    L' + @dpfcpLonShift F (fieldScalar T) L' (m + d) = L + @dpfcpLonShift F (fieldScalar T) L m + d := by
  have h := sphDx_lon_offset T hπ d ⟨L, 0⟩ ⟨L', 0⟩ ⟨m, 0⟩ j hrel hr hr' hnt
  have e1 := dpfcp_aligned_sub T L' (m + d) 0 0
  have e2 := dpfcp_aligned_sub T L m 0 0
  have e3 : (P2.shift ⟨d, 0⟩ (⟨m, 0⟩ : P2 F)) = ⟨m + d, 0⟩ := by simp [P2.shift]
  rw [e3] at h
  linarith

/-- **the on-trench test with the aligned query longitude is invariant under a common longitude offset** (the model since upstream 'fix:
on-trench test compared longitudes that can be 2 pi apart'): query `(r, L, lat)`, foot point `(r0, m, lat0)` -/
theorem dpfcpOnTrench_aligned_lon_offset (hπ : 0 < T.pi) (d r L L' lat r0 m lat0 : F) (j : ℤ) (hrel : L' = L + d + 2 * T.pi * j)
    (hr : |L - m| ≤ 3 * T.pi) (hr' : |L' - (m + d)| ≤ 3 * T.pi) (hnt : ∀ k : ℤ, |L + 2 * T.pi * k - m| ≠ T.pi) :
    @DpfcpOnTrench F (fieldScalar T) ⟨r, L' + @dpfcpLonShift F (fieldScalar T) L' (m + d), lat⟩ ⟨r0, m + d, lat0⟩ ↔
      @DpfcpOnTrench F (fieldScalar T) ⟨r, L + @dpfcpLonShift F (fieldScalar T) L m, lat⟩ ⟨r0, m, lat0⟩ := by
  rw [dpfcpOnTrench_field, dpfcpOnTrench_field]
  simp only
  rw [dpfcp_aligned_lon_offset T hπ d L L' m j hrel hr hr' hnt, sub_shift_cancel]

/-- the aligned query coincides with the foot point's description whenever the two are the same point of the sphere: the test fires for
a query exactly above a foot point written `2π` away (`sqrt 0 = 0`) -/
theorem dpfcpOnTrench_aligned_alias (hπ : 0 < T.pi) (hs0 : T.sqrt 0 = 0) (r L lat : F) :
    @DpfcpOnTrench F (fieldScalar T) ⟨r, L + @dpfcpLonShift F (fieldScalar T) L (L + 2 * T.pi), lat⟩ ⟨r, L + 2 * T.pi, lat⟩ := by
  rw [dpfcpOnTrench_field, dpfcpLonShift_field]
  simp only
  have h1 : ¬ (L - (L + 2 * T.pi) > T.pi) := by
    rw [show L - (L + 2 * T.pi) = -(2 * T.pi) by ring]; intro h; linarith
  have h2 : L - (L + 2 * T.pi) < -T.pi := by
    rw [show L - (L + 2 * T.pi) = -(2 * T.pi) by ring]; linarith
  rw [if_neg h1, if_pos h2]
  have e : (r - r) * (r - r) + (L + 2 * T.pi - (L + 2 * T.pi)) * (L + 2 * T.pi - (L + 2 * T.pi)) + (lat - lat) * (lat - lat) = 0 := by
    ring
  rw [e, hs0, abs_zero]
  positivity

theorem initialEstimateSph_field (p1 p2 cp : P2 F) :
    @initialEstimateSph F (fieldScalar T) p1 p2 cp =
      if (p2.x - p1.x) * (p2.x - p1.x) + (p2.y - p1.y) * (p2.y - p1.y) > 0 then
        min 1 (max 0 ((sphDx T cp p1 * (p2.x - p1.x) + (cp.y - p1.y) * (p2.y - p1.y)) /
          ((p2.x - p1.x) * (p2.x - p1.x) + (p2.y - p1.y) * (p2.y - p1.y))))
      else 1 := by
  unfold initialEstimateSph sphDx P2.dot
  simp only [P2.sub_x', P2.sub_y']
  sfield

theorem initialEstimateSph_lon_offset (hπ : 0 < T.pi) (d : F) (cp cp' p1 p2 : P2 F) (j : ℤ)
    (hrel : cp'.x = cp.x + d + 2 * T.pi * j) (hy : cp'.y = cp.y)
    (hr : |cp.x - p1.x| ≤ 3 * T.pi) (hr' : |cp'.x - (p1.x + d)| ≤ 3 * T.pi) (hnt : ∀ k : ℤ, |cp.x + 2 * T.pi * k - p1.x| ≠ T.pi) :
    @initialEstimateSph F (fieldScalar T) (P2.shift ⟨d, 0⟩ p1) (P2.shift ⟨d, 0⟩ p2) cp' =
      @initialEstimateSph F (fieldScalar T) p1 p2 cp := by
  rw [initialEstimateSph_field, initialEstimateSph_field, sphDx_lon_offset T hπ d cp cp' p1 j hrel hr hr' hnt]
  simp only [P2.shift_x, P2.shift_y, sub_shift_cancel, hy, add_zero]

/-! ### the Newton iteration -/

theorem cubicPoint_shift (v : P2 F) (k : Cubic F) (t : F) :
    @cubicPoint F (fieldScalar T) { k with d := P2.shift v k.d } t = P2.shift v (@cubicPoint F (fieldScalar T) k t) := by
  unfold cubicPoint P2.shift
  simp only [P2.mk.injEq]
  exact ⟨by ring, by ring⟩

/-- how the two frames see half the longitude difference to a running point `X` (resp. `X + d`): the same up to a common sign -/
structure LonView (d : F) (cp cp' : P2 F) (σ : F) : Prop where
  sign : σ = 1 ∨ σ = -1
  sin_half : ∀ X, T.sin ((X + d - cp'.x) * (1 / 2)) = σ * T.sin ((X - cp.x) * (1 / 2))
  cos_half : ∀ X, T.cos (1 / 2 * (X + d - cp'.x)) = σ * T.cos (1 / 2 * (X - cp.x))
  lat : cp'.y = cp.y

theorem lonView_exists (hH : HalfTurnLaws T) (d : F) (cp cp' : P2 F) (j : ℤ) (hrel : cp'.x = cp.x + d + 2 * T.pi * j)
    (hy : cp'.y = cp.y) : ∃ σ, LonView T d cp cp' σ := by
  obtain ⟨σ, hσ, h⟩ := hH.int (-j)
  refine ⟨σ, hσ, fun X => ?_, fun X => ?_, hy⟩
  · rw [show (X + d - cp'.x) * (1 / 2) = (X - cp.x) * (1 / 2) + T.pi * ((-j : ℤ) : F) by rw [hrel]; push_cast; ring]
    exact (h _).1
  · rw [show 1 / 2 * (X + d - cp'.x) = 1 / 2 * (X - cp.x) + T.pi * ((-j : ℤ) : F) by rw [hrel]; push_cast; ring]
    exact (h _).2

theorem s_cos' (x : F) : @Scalar.cos F (fieldScalar T) x = T.cos x := rfl

theorem sqDistS_lon {d : F} {cp cp' : P2 F} {σ : F} (hv : LonView T d cp cp' σ) (c : F) (ep : P2 F) :
    @sqDistS F (fieldScalar T) c cp' (P2.shift ⟨d, 0⟩ ep) = @sqDistS F (fieldScalar T) c cp ep := by
  unfold sqDistS
  simp only [lit_half_dec, P2.shift_x, P2.shift_y, add_zero, hv.lat]
  sfield
  simp only [s_cos', hv.sin_half]
  rcases hv.sign with rfl | rfl
  · simp only [one_mul]
  · simp only [neg_mul, one_mul, mul_neg, neg_neg]

theorem lineSearchS_lon {d : F} {cp cp' : P2 F} {σ : F} (hv : LonView T d cp cp' σ) (k : Cubic F) (c est update sd : F)
    (fuel i : Nat) (ls prev step : F) :
    @lineSearchS F (fieldScalar T) { k with d := P2.shift ⟨d, 0⟩ k.d } c cp' est update sd fuel i ls prev step =
      @lineSearchS F (fieldScalar T) k c cp est update sd fuel i ls prev step := by
  induction fuel generalizing i ls prev step with
  | zero => rfl
  | succ n ih =>
    unfold lineSearchS
    simp only [cubicPoint_shift, sqDistS_lon T hv, ih]

theorem newtonS_lon {d : F} {cp cp' : P2 F} {σ : F} (hv : LonView T d cp cp' σ) (k : Cubic F) (c : F) (fuel : Nat) (est : F) :
    @newtonS F (fieldScalar T) { k with d := P2.shift ⟨d, 0⟩ k.d } c cp' fuel est = @newtonS F (fieldScalar T) k c cp fuel est := by
  induction fuel generalizing est with
  | zero => rfl
  | succ n ih =>
    unfold newtonS
    simp only [cubicPoint_shift, lineSearchS_lon T hv, ih, lit_half_dec, P2.shift_x, P2.shift_y, add_zero, hv.lat]
    sfield
    simp only [s_cos', hv.sin_half, hv.cos_half]
    rcases hv.sign with rfl | rfl
    · simp only [one_mul]
    · simp only [neg_mul, one_mul, mul_neg, neg_neg]

/-! ### one piece, the accepted candidate, the loop over the pieces -/

/-- the start value of a piece is the same in both frames: both query longitudes at most `3π` from the piece's first point, and no
description of the query longitude exactly `π` away from it -/
def EstReach (d : F) (cp cp' p1 : P2 F) : Prop :=
  |cp.x - p1.x| ≤ 3 * T.pi ∧ |cp'.x - (p1.x + d)| ≤ 3 * T.pi ∧ ∀ k : ℤ, |cp.x + 2 * T.pi * k - p1.x| ≠ T.pi

theorem pieceS_lon (hπ : 0 < T.pi) {d : F} {cp cp' : P2 F} {σ : F} (hv : LonView T d cp cp' σ) (j : ℤ)
    (hrel : cp'.x = cp.x + d + 2 * T.pi * j) (p1 p2 c0 c1 : P2 F) (c : F) (he : EstReach T d cp cp' p1) :
    @pieceS F (fieldScalar T) (P2.shift ⟨d, 0⟩ p1) (P2.shift ⟨d, 0⟩ p2) (P2.shift ⟨d, 0⟩ c0) (P2.shift ⟨d, 0⟩ c1) cp' c =
      @pieceS F (fieldScalar T) p1 p2 c0 c1 cp c := by
  have hk : @cubicOf F (fieldScalar T) (P2.shift ⟨d, 0⟩ p1) (P2.shift ⟨d, 0⟩ p2) (P2.shift ⟨d, 0⟩ c0) (P2.shift ⟨d, 0⟩ c1) =
      { @cubicOf F (fieldScalar T) p1 p2 c0 c1 with d := P2.shift ⟨d, 0⟩ (@cubicOf F (fieldScalar T) p1 p2 c0 c1).d } :=
    cubicOf_shift T _ p1 p2 c0 c1
  unfold pieceS
  simp only [hk, newtonS_lon T hv, cubicPoint_shift, sqDistS_lon T hv,
    initialEstimateSph_lon_offset T hπ d cp cp' p1 p2 j hrel hv.lat he.1 he.2.1 he.2.2]

/-- the accepted candidate: everything but the sign of the distance follows the offset (the query enters `closestOf` only through
that sign) -/
theorem closestOf_lon (v : P2 F) (k : Cubic F) (d' p0 p1 c0 c1 cp cp' : P2 F) (i : Nat) (est msd : F) (oc : P2 F) :
    (@closestOf F (fieldScalar T) { k with d := d' } (P2.shift v p0) (P2.shift v p1) (P2.shift v c0) (P2.shift v c1) cp'
        i est msd (P2.shift v oc)).unsign =
      ((@closestOf F (fieldScalar T) k p0 p1 c0 c1 cp i est msd oc).shift v).unsign := by
  unfold closestOf ClosestPoint.unsign ClosestPoint.shift
  simp only [ClosestPoint.mk.injEq, and_true]
  split <;> split <;> simp only [neg_mul, abs_neg]

theorem closestSphericalLoop_lon (hπ : 0 < T.pi) {d : F} {cp cp' : P2 F} {σ : F} (hv : LonView T d cp cp' σ) (j : ℤ)
    (hrel : cp'.x = cp.x + d + 2 * T.pi * j) (bz : Bezier F) (c : F)
    (hest : ∀ (i : Nat) (p1 : P2 F), bz.points[i]? = some p1 → EstReach T d cp cp' p1) (fuel i : Nat) (minSq : F)
    (best best' : Option (ClosestPoint F))
    (hb : best'.map ClosestPoint.unsign = best.map (fun c => (c.shift ⟨d, 0⟩).unsign)) :
    Except.map (Option.map ClosestPoint.unsign)
        (@closestSphericalLoop F (fieldScalar T) (bz.shift ⟨d, 0⟩) cp' c fuel i minSq best') =
      Except.map (Option.map (fun c => (c.shift ⟨d, 0⟩).unsign))
        (@closestSphericalLoop F (fieldScalar T) bz cp c fuel i minSq best) := by
  induction fuel generalizing i minSq best best' with
  | zero => unfold closestSphericalLoop; simp only [Except.map, hb]
  | succ m ih =>
    rw [@closestSphericalLoop_succ F (fieldScalar T), @closestSphericalLoop_succ F (fieldScalar T)]
    have hl : (bz.shift ⟨d, 0⟩).control.length = bz.control.length := by simp [Bezier.shift]
    have hp : (bz.shift ⟨d, 0⟩).points = bz.points.map (P2.shift ⟨d, 0⟩) := rfl
    have hc : (bz.shift ⟨d, 0⟩).control = bz.control.map (fun c => (P2.shift ⟨d, 0⟩ c.1, P2.shift ⟨d, 0⟩ c.2)) := rfl
    rw [hl, hp, hc]
    split
    · simp only [idx_map, Except.map_bind_eq]
      cases h0 : idx bz.points i with
      | error e => rfl
      | ok p1 =>
        rcases idx bz.points (i + 1) with e | p2
        · rfl
        rcases idx bz.control i with e | cc
        · rfl
        simp only [bind, Except.bind, pieceS_lon T hπ hv j hrel p1 p2 cc.1 cc.2 c (hest i p1 (idx_ok_getElem? h0))]
        rcases @pieceS F (fieldScalar T) p1 p2 cc.1 cc.2 cp c with ⟨⟨est, found⟩, msd⟩
        cases found with
        | false => rfl
        | true =>
          simp only [Bool.not_true, Bool.false_eq_true, if_false]
          split
          · apply ih
            simp only [Option.map_some, Option.some.injEq]
            have hk : @cubicOf F (fieldScalar T) (P2.shift ⟨d, 0⟩ p1) (P2.shift ⟨d, 0⟩ p2) (P2.shift ⟨d, 0⟩ cc.1)
                (P2.shift ⟨d, 0⟩ cc.2) =
                { @cubicOf F (fieldScalar T) p1 p2 cc.1 cc.2 with
                  d := P2.shift ⟨d, 0⟩ (@cubicOf F (fieldScalar T) p1 p2 cc.1 cc.2).d } :=
              cubicOf_shift T _ p1 p2 cc.1 cc.2
            rw [hk, cubicPoint_shift]
            exact closestOf_lon T ⟨d, 0⟩ _ _ p1 p2 cc.1 cc.2 cp cp' i est msd _
          · exact ih _ _ _ _ hb
    · simp only [Except.map, hb]

/-- **`closest_point_on_curve_segment`, spherical branch, under a common longitude offset (general case)**: the curve offset by `d`,
the query longitude replaced by `L' = L + d + 2πj`: same piece index, same parametric fraction, same normal, same ABSOLUTE distance,
the foot point offset by `d`; errors and the "nothing accepted" result agree -/
theorem Bezier.closestPoint_lon_offset (hπ : 0 < T.pi) (hH : HalfTurnLaws T) (d : F) (bz : Bezier F) (cp cp' : P2 F) (j : ℤ)
    (hrel : cp'.x = cp.x + d + 2 * T.pi * j) (hy : cp'.y = cp.y)
    (hest : ∀ (i : Nat) (p1 : P2 F), bz.points[i]? = some p1 → EstReach T d cp cp' p1) :
    Except.map (Option.map ClosestPoint.unsign) (@Bezier.closestPoint F (fieldScalar T) (bz.shift ⟨d, 0⟩) true cp') =
      Except.map (Option.map (fun c => (c.shift ⟨d, 0⟩).unsign)) (@Bezier.closestPoint F (fieldScalar T) bz true cp) := by
  obtain ⟨σ, hv⟩ := lonView_exists T hH d cp cp' j hrel hy
  unfold Bezier.closestPoint
  simp only [if_true]
  have hl : (bz.shift ⟨d, 0⟩).control.length = bz.control.length := by simp [Bezier.shift]
  rw [hl, hy]
  exact closestSphericalLoop_lon T hπ hv j hrel bz _ hest _ 0 _ none none rfl

/-- `EstReach` from ranges: canonical query longitudes, the point's longitude within `[−2π, 2π]` before and after the offset, no tie -/
theorem estReach_of_range (d : F) (cp cp' p1 : P2 F) (hlo : -T.pi < cp.x) (hhi : cp.x ≤ T.pi) (hlo' : -T.pi < cp'.x)
    (hhi' : cp'.x ≤ T.pi) (h1 : -(2 * T.pi) ≤ p1.x ∧ p1.x ≤ 2 * T.pi) (h2 : -(2 * T.pi) ≤ p1.x + d ∧ p1.x + d ≤ 2 * T.pi)
    (hnt : ∀ k : ℤ, |cp.x + 2 * T.pi * k - p1.x| ≠ T.pi) : EstReach T d cp cp' p1 := by
  refine ⟨?_, ?_, hnt⟩
  · rw [abs_le]; constructor <;> linarith [h1.1, h1.2]
  · rw [abs_le]; constructor <;> linarith [h2.1, h2.2]

end field

/-! ### witness: the SIGN of the distance does not follow the offset (`π := 3`, `sin := (−1)^⌊x/3⌋`, `cos := 0`, `sqrt := id`)

With this bundle (it satisfies `HalfTurnLaws`) every term of the Newton derivative carries a `cos`, so the iteration stops at its start
value and the squared distance is `1`: the closest point is computed by hand. -/

/-- `(−1)^⌊x/3⌋`: anti-periodic with anti-period `3` -/
noncomputable def c08ParitySin (x : ℚ) : ℚ := if Even ⌊x / 3⌋ then 1 else -1

theorem c08ParitySin_add (x : ℚ) : c08ParitySin (x + 3) = -c08ParitySin x := by
  unfold c08ParitySin
  have : ⌊(x + 3) / 3⌋ = ⌊x / 3⌋ + 1 := by
    rw [show (x + 3) / 3 = x / 3 + 1 by ring, Int.floor_add_one]
  simp only [this, Int.even_add_one]
  by_cases h : Even ⌊x / 3⌋ <;> simp [h]

theorem c08ParitySin_sq (x : ℚ) : c08ParitySin x * c08ParitySin x = 1 := by
  unfold c08ParitySin
  split <;> norm_num

/-- bundle over `ℚ` with `π := 3`, `sin := (−1)^⌊x/3⌋`, `cos := 0`, `sqrt := id`: it satisfies `HalfTurnLaws` -/
noncomputable def c08Half : Transc ℚ := { c08Transc with sin := c08ParitySin, cos := fun _ => 0 }

theorem c08Half_halfTurnLaws : HalfTurnLaws c08Half :=
  ⟨fun x => c08ParitySin_add x, fun _ => by show (0 : ℚ) = -0; norm_num⟩

theorem c08Half_newton (k : Cubic ℚ) (cp : P2 ℚ) (n : Nat) (est : ℚ) :
    @newtonS ℚ (fieldScalar c08Half) k 0 cp (n + 1) est = (est, true) := by
  unfold newtonS
  have hc : ∀ x : ℚ, @Scalar.cos ℚ (fieldScalar c08Half) x = 0 := fun _ => rfl
  simp only [hc, mul_zero, zero_mul, add_zero, Scalar.fabs, lit_sci_rat]
  norm_num

theorem c08Half_sqDist (c : ℚ) (cp ep : P2 ℚ) : @sqDistS ℚ (fieldScalar c08Half) c cp ep = 1 := by
  unfold sqDistS
  have hc : ∀ x : ℚ, @Scalar.cos ℚ (fieldScalar c08Half) x = 0 := fun _ => rfl
  have hs : ∀ x : ℚ, @Scalar.sin ℚ (fieldScalar c08Half) x = c08ParitySin x := fun _ => rfl
  simp only [hc, hs, mul_zero, add_zero, c08ParitySin_sq]

theorem c08Half_piece (p1 p2 c0 c1 cp : P2 ℚ) :
    @pieceS ℚ (fieldScalar c08Half) p1 p2 c0 c1 cp 0 = ((@initialEstimateSph ℚ (fieldScalar c08Half) p1 p2 cp, true), 1) := by
  unfold pieceS
  simp only [c08Half_newton, c08Half_sqDist]

/-- a straight curve along the latitude `1` from longitude `x0` to `x0 + 1`, uniformly parametrised -/
def c08HLine (x0 : ℚ) : Bezier ℚ := ⟨[⟨x0, 1⟩, ⟨x0 + 1, 1⟩], [(⟨x0 + 1 / 3, 1⟩, ⟨x0 + 2 / 3, 1⟩)], []⟩

theorem c08HLine_cubic (x0 : ℚ) :
    @cubicOf ℚ (fieldScalar c08Half) ⟨x0, 1⟩ ⟨x0 + 1, 1⟩ ⟨x0 + 1 / 3, 1⟩ ⟨x0 + 2 / 3, 1⟩ = ⟨⟨0, 0⟩, ⟨0, 0⟩, ⟨1, 0⟩, ⟨x0, 1⟩⟩ := by
  unfold cubicOf
  simp only [lit_three_dec, lit_six_dec]
  norm_num
  refine ⟨?_, ?_, ?_⟩ <;> ring

/-- with the toy bundle the iteration stops at its start value; if that is `1/2` the foot point is the middle of the curve and the
signed distance is `±1`, the sign being that of `(1/2 − x0)·(cx − x0 − 1/2) − 1` -/
theorem c08HLine_closest (x0 cx : ℚ)
    (hest : @initialEstimateSph ℚ (fieldScalar c08Half) ⟨x0, 1⟩ ⟨x0 + 1, 1⟩ ⟨cx, 2⟩ = 1 / 2) :
    ∃ c, @Bezier.closestPoint ℚ (fieldScalar c08Half) (c08HLine x0) true ⟨cx, 2⟩ = .ok (some c) ∧
      c.distance = if (1 / 2 - x0) * (cx - (x0 + 1 / 2)) - 1 < 0 then -1 else 1 := by
  unfold Bezier.closestPoint
  simp only [if_true]
  have hcos : @Scalar.cos ℚ (fieldScalar c08Half) (⟨cx, 2⟩ : P2 ℚ).y = 0 := rfl
  rw [hcos]
  show ∃ c, @closestSphericalLoop ℚ (fieldScalar c08Half) (c08HLine x0) ⟨cx, 2⟩ 0 (1 + 1) 0 _ none = _ ∧ _
  rw [@closestSphericalLoop_succ ℚ (fieldScalar c08Half)]
  simp only [c08HLine, idx, List.length_cons, List.length_nil, List.getElem?_cons_zero, List.getElem?_cons_succ, bind, Except.bind]
  rw [c08Half_piece, hest]
  have hacc : @accept ℚ (fieldScalar c08Half) 0 (1 / 2) = true := by
    unfold accept
    simp only [Scalar.nat, lit_sci_rat]
    show (decide _ && decide ((((0 : ℕ) : ℚ)) + 1 / 2 > 0) && decide _ && decide (_ < ((0 : ℕ) : ℚ))) = true
    norm_num
  have hinf : (1 : ℚ) < @Scalar.inf ℚ (fieldScalar c08Half) := by
    show (1 : ℚ) < 1000
    norm_num
  simp only [hacc, hinf, Bool.not_true, Bool.false_eq_true, if_false, and_self, if_true, Nat.zero_add, Nat.lt_add_one]
  rw [show (1 : ℕ) = 0 + 1 from rfl, @closestSphericalLoop_succ ℚ (fieldScalar c08Half)]
  simp only [List.length_cons, List.length_nil, Nat.reduceAdd, Nat.lt_irrefl, if_false]
  refine ⟨_, rfl, ?_⟩
  rw [c08HLine_cubic]
  unfold closestOf cubicPoint
  simp only [lit_sci_rat, lit_natCast]
  show (_ * id (1 : ℚ)) = _
  norm_num
  have e : (-(x0 * (3 / 4)) + -((x0 + 1 / 3) * (3 / 4)) + (x0 + 2 / 3) * (3 / 2) * (1 / 2) + (x0 + 1) * 3 * (1 / 2) * (1 / 2) -
      (1 / 2 + x0)) * (cx - (1 / 2 + x0)) = (1 / 2 - x0) * (cx - (x0 + 1 / 2)) := by ring
  rw [e]

theorem c08Half_est (p1 p2 cp : P2 ℚ) :
    @initialEstimateSph ℚ (fieldScalar c08Half) p1 p2 cp =
      if (p2.x - p1.x) * (p2.x - p1.x) + (p2.y - p1.y) * (p2.y - p1.y) > 0 then
        min 1 (max 0 ((sphDx c08Half cp p1 * (p2.x - p1.x) + (cp.y - p1.y) * (p2.y - p1.y)) /
          ((p2.x - p1.x) * (p2.x - p1.x) + (p2.y - p1.y) * (p2.y - p1.y))))
      else 1 := initialEstimateSph_field c08Half p1 p2 cp

/-- frame 1: curve at longitudes `[1, 2]`, query `(3/2, 2)`: signed distance `−1` -/
theorem c08HLine_frame1 :
    ∃ c, @Bezier.closestPoint ℚ (fieldScalar c08Half) (c08HLine 1) true ⟨3 / 2, 2⟩ = .ok (some c) ∧ c.distance = -1 := by
  obtain ⟨c, h1, h2⟩ := c08HLine_closest 1 (3 / 2) (by
    rw [c08Half_est]
    have e : c08Half.pi = 3 := rfl
    simp only [sphDx, e]
    norm_num)
  refine ⟨c, h1, ?_⟩
  rw [h2]
  norm_num

/-- frame 2: everything offset by `d = 4`, curve at `[5, 6]`, query longitude `3/2 + 4 − 2π = −1/2`: signed distance `+1` -/
theorem c08HLine_frame2 :
    ∃ c, @Bezier.closestPoint ℚ (fieldScalar c08Half) (c08HLine 5) true ⟨-1 / 2, 2⟩ = .ok (some c) ∧ c.distance = 1 := by
  obtain ⟨c, h1, h2⟩ := c08HLine_closest 5 (-1 / 2) (by
    rw [c08Half_est]
    have e : c08Half.pi = 3 := rfl
    simp only [sphDx, e]
    norm_num)
  refine ⟨c, h1, ?_⟩
  rw [h2]
  norm_num

theorem c08HLine_shift : (c08HLine 1).shift ⟨4, 0⟩ = c08HLine 5 := by
  simp only [c08HLine, Bezier.shift, P2.shift, List.map_cons, List.map_nil]
  norm_num

/-- the reach hypotheses of the start value hold for both points of the curve `[1, 2]`, query longitude `3/2`, offset `4`, re-normalised
query longitude `−1/2` -/
theorem c08HLine_estReach (i : Nat) (p1 : P2 ℚ) (h : (c08HLine 1).points[i]? = some p1) :
    EstReach c08Half 4 ⟨3 / 2, 2⟩ ⟨-1 / 2, 2⟩ p1 := by
  have hp : p1 = ⟨1, 1⟩ ∨ p1 = ⟨2, 1⟩ := by
    have := List.mem_of_getElem? h
    simp only [c08HLine, List.mem_cons, List.not_mem_nil, or_false] at this
    rcases this with rfl | rfl
    · exact Or.inl rfl
    · right; congr 1; norm_num
  have e : c08Half.pi = 3 := rfl
  unfold EstReach
  rw [e]
  rcases hp with rfl | rfl
  · refine ⟨by norm_num [abs_of_pos], by norm_num [abs_of_neg], ?_⟩
    intro k hk
    rcases (abs_eq (by norm_num : (0 : ℚ) ≤ 3)).mp hk with h | h
    · have : (12 * k : ℤ) = 5 := by
        have : (12 : ℚ) * k = 5 := by linarith
        exact_mod_cast this
      omega
    · have : (12 * k : ℤ) = -7 := by
        have : (12 : ℚ) * k = -7 := by linarith
        exact_mod_cast this
      omega
  · refine ⟨by norm_num [abs_of_neg], by norm_num [abs_of_neg], ?_⟩
    intro k hk
    rcases (abs_eq (by norm_num : (0 : ℚ) ≤ 3)).mp hk with h | h
    · have : (12 * k : ℤ) = 7 := by
        have : (12 : ℚ) * k = 7 := by linarith
        exact_mod_cast this
      omega
    · have : (12 * k : ℤ) = -5 := by
        have : (12 : ℚ) * k = -5 := by linarith
        exact_mod_cast this
      omega

end Gwb
