/-
The point-in-polygon loop.
Part 1 (every `Scalar R`, no laws): the loop with its early returns and its counter is
"some edge reports a boundary hit, or the sum of the per-edge crossing contributions is non-zero".
Part 2 (ordered field, `Proofs/PolygonField.lean`): under exact tests the hit condition is "on the closed edge"
and every boundary point of a closed polygon is reported.
-/
import GwbVerif.Model.Geometry.Polygon
namespace Gwb
open Scalar
set_option linter.unusedSectionVars false
variable {R : Type} [Scalar R]

def EdgeRes.isHit : EdgeRes → Bool
  | .hit => true
  | .delta _ => false

def EdgeRes.deltaOf : EdgeRes → Int
  | .hit => 0
  | .delta d => d

/-- the loop, declaratively -/
theorem polyLoop_eq (p : P2 R) (es : List (P2 R × P2 R)) (wn : Int) :
    polyLoop p es wn =
      (es.any (fun e => (edgeStep e.1 e.2 p).isHit) || decide (wn + (es.map (fun e => (edgeStep e.1 e.2 p).deltaOf)).sum ≠ 0)) := by
  induction es generalizing wn with
  | nil => simp [polyLoop, bne]; cases h : decide (wn = 0) <;> simp_all
  | cons e es ih =>
    obtain ⟨pj, pi⟩ := e
    unfold polyLoop
    cases h : edgeStep pj pi p with
    | hit => simp [h, EdgeRes.isHit]
    | delta d =>
      simp only [h, ih, List.any_cons, EdgeRes.isHit, Bool.false_or, List.map_cons, List.sum_cons, EdgeRes.deltaOf]
      simp only [Int.add_assoc]

/-- `polygon_contains_point_implementation`, declaratively (every scalar type) -/
theorem polygonContainsImpl_eq (pts : List (P2 R)) (p : P2 R) :
    polygonContainsImpl pts p =
      ((polygonEdges pts).any (fun e => (edgeStep e.1 e.2 p).isHit)
        || decide (((polygonEdges pts).map (fun e => (edgeStep e.1 e.2 p).deltaOf)).sum ≠ 0)) := by
  unfold polygonContainsImpl
  rw [polyLoop_eq]
  simp

/-- the edges of the loop form a closed cycle: every edge's start vertex is the end vertex of some edge -/
theorem polygonEdges_cyclic (pts : List (P2 R)) (e : P2 R × P2 R) (he : e ∈ polygonEdges pts) :
    ∃ e' ∈ polygonEdges pts, e'.2 = e.1 := by
  unfold polygonEdges at he ⊢
  cases hl : pts.getLast? with
  | none => simp [hl] at he
  | some l =>
    simp only [hl] at he ⊢
    have hne : pts ≠ [] := by intro h; simp [h] at hl
    have hlen : (l :: pts.dropLast).length = pts.length := by
      simp [List.length_dropLast]; have := List.length_pos_iff.mpr hne; omega
    -- e.1 is an element of (l :: dropLast), hence of pts
    have h1 : e.1 ∈ l :: pts.dropLast := (List.of_mem_zip he).1
    have hmem : e.1 ∈ pts := by
      rcases List.mem_cons.mp h1 with h | h
      · rw [h]; exact List.mem_of_getLast? hl
      · exact List.dropLast_subset pts h
    -- every element of pts is the second component of some zipped pair
    obtain ⟨i, hi, hget⟩ := List.getElem_of_mem hmem
    have hi' : i < (l :: pts.dropLast).length := by rw [hlen]; exact hi
    refine ⟨((l :: pts.dropLast)[i], pts[i]), ?_, hget⟩
    have : ((l :: pts.dropLast).zip pts)[i]'(by simp [List.length_zip, hlen]; exact hi) = ((l :: pts.dropLast)[i], pts[i]) := by
      simp [List.getElem_zip]
    rw [← this]
    exact List.getElem_mem _

end Gwb
