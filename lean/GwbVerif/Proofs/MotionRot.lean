/-
Helpers for C08, part 3: rotation about the vertical by `[[c, −s], [s, c]]` with `c² + s² = 1`.
The kernels built from dot products, cross products and norms are invariant term by term; `fraction_from_ellipse_center` is
invariant when the ellipse's rotation angle is shifted by the rotation angle.  The polygon test is NOT covered: its crossing count
compares `y`-coordinates of vertices with the point's, which a rotation changes edge by edge (only the total is invariant, which is a
topological fact — the winding number — not a term-wise one).
-/
import GwbVerif.Proofs.Motion
import GwbVerif.Model.Geometry.Dpfcp
import GwbVerif.Model.Geometry.Ridge
namespace Gwb
open Scalar
set_option linter.unusedSectionVars false

section field
variable {F : Type} [Field F] [LinearOrder F] [IsStrictOrderedRing F] (T : Transc F)

/-- `P2.sub` of the model is the field's component-wise difference -/
theorem P2.sub_field (a b : P2 F) : @HSub.hSub (P2 F) (P2 F) (P2 F) (@instHSub (P2 F) (@P2.instSub F (fieldScalar T))) a b = ⟨a.x - b.x, a.y - b.y⟩ := rfl

theorem P2.rot_sub (c s : F) (a b : P2 F) :
    (⟨(P2.rot c s a).x - (P2.rot c s b).x, (P2.rot c s a).y - (P2.rot c s b).y⟩ : P2 F) = P2.rot c s ⟨a.x - b.x, a.y - b.y⟩ := by
  simp only [P2.rot, P2.mk.injEq]
  exact ⟨by ring, by ring⟩

/-- dot product -/
theorem P2.dot_rot (c s : F) (h : c * c + s * s = 1) (a b : P2 F) :
    @P2.dot F (fieldScalar T) (P2.rot c s a) (P2.rot c s b) = @P2.dot F (fieldScalar T) a b := by
  show (c * a.x - s * a.y) * (c * b.x - s * b.y) + (s * a.x + c * a.y) * (s * b.x + c * b.y) = a.x * b.x + a.y * b.y
  linear_combination (a.x * b.x + a.y * b.y) * h

/-- squared norm -/
theorem P2.normSq_rot (c s : F) (h : c * c + s * s = 1) (a : P2 F) :
    @P2.normSq F (fieldScalar T) (P2.rot c s a) = @P2.normSq F (fieldScalar T) a := by
  show (c * a.x - s * a.y) * (c * a.x - s * a.y) + (s * a.x + c * a.y) * (s * a.x + c * a.y) = a.x * a.x + a.y * a.y
  linear_combination (a.x * a.x + a.y * a.y) * h

/-- norm (`sqrt` of the same number) -/
theorem P2.norm_rot (c s : F) (h : c * c + s * s = 1) (a : P2 F) :
    @P2.norm F (fieldScalar T) (P2.rot c s a) = @P2.norm F (fieldScalar T) a := by
  show T.sqrt ((c * a.x - s * a.y) * (c * a.x - s * a.y) + (s * a.x + c * a.y) * (s * a.x + c * a.y)) = T.sqrt (a.x * a.x + a.y * a.y)
  congr 1
  linear_combination (a.x * a.x + a.y * a.y) * h

/-- the cross product `(b − a) × (p − a)` (`is_left` of the polygon test, `s`/`t` of the triangle test) -/
theorem crossP_rot (c s : F) (h : c * c + s * s = 1) (a b p : P2 F) :
    crossP (P2.rot c s a) (P2.rot c s b) (P2.rot c s p) = crossP a b p := by
  unfold crossP
  simp only [P2.rot_x, P2.rot_y]
  linear_combination ((b.x - a.x) * (p.y - a.y) - (p.x - a.x) * (b.y - a.y)) * h

theorem dotP_rot (c s : F) (h : c * c + s * s = 1) (a b p : P2 F) :
    dotP (P2.rot c s a) (P2.rot c s b) (P2.rot c s p) = dotP a b p := by
  unfold dotP
  simp only [P2.rot_x, P2.rot_y]
  linear_combination ((p.x - a.x) * (b.x - a.x) + (p.y - a.y) * (b.y - a.y)) * h

theorem sqlP_rot (c s : F) (h : c * c + s * s = 1) (a b : P2 F) :
    sqlP (P2.rot c s a) (P2.rot c s b) = sqlP a b := by
  unfold sqlP
  simp only [P2.rot_x, P2.rot_y]
  linear_combination ((b.x - a.x) * (b.x - a.x) + (b.y - a.y) * (b.y - a.y)) * h

/-- "on the closed edge" is rotation invariant -/
theorem onSegment_rot (c s : F) (h : c * c + s * s = 1) (a b p : P2 F) :
    OnSegment (P2.rot c s a) (P2.rot c s b) (P2.rot c s p) ↔ OnSegment a b p := by
  unfold OnSegment
  rw [crossP_rot c s h, dotP_rot c s h, sqlP_rot c s h]

/-- the side test of the Bezier construction and of the ridge selection (sign of a cross product) -/
theorem sideOfLine_rot (c s : F) (h : c * c + s * s = 1) (p1 p2 q : P2 F) :
    @sideOfLine F (fieldScalar T) (P2.rot c s p1) (P2.rot c s p2) (P2.rot c s q) = @sideOfLine F (fieldScalar T) p1 p2 q := by
  unfold sideOfLine
  have e : ((P2.rot c s p1).x - (P2.rot c s p2).x) * ((P2.rot c s q).y - (P2.rot c s p1).y)
      - ((P2.rot c s p1).y - (P2.rot c s p2).y) * ((P2.rot c s q).x - (P2.rot c s p1).x)
      = (p1.x - p2.x) * (q.y - p1.y) - (p1.y - p2.y) * (q.x - p1.x) := by
    simp only [P2.rot_x, P2.rot_y]
    linear_combination ((p1.x - p2.x) * (q.y - p1.y) - (p1.y - p2.y) * (q.x - p1.x)) * h
  rw [e]

/-- Cartesian `Point<2>::distance` -/
theorem P2.distanceTo_rot (c s : F) (h : c * c + s * s = 1) (a b : P2 F) :
    @P2.distanceTo F (fieldScalar T) false (P2.rot c s a) (P2.rot c s b) = @P2.distanceTo F (fieldScalar T) false a b := by
  unfold P2.distanceTo
  simp only [Bool.false_eq_true, if_false]
  show T.sqrt _ = T.sqrt _
  congr 1
  simp only [P2.rot_x, P2.rot_y]
  linear_combination ((a.x - b.x) * (a.x - b.x) + (a.y - b.y) * (a.y - b.y)) * h

/-- Cartesian `Point<2>::distance` under translation -/
theorem P2.distanceTo_shift (v a b : P2 F) :
    @P2.distanceTo F (fieldScalar T) false (P2.shift v a) (P2.shift v b) = @P2.distanceTo F (fieldScalar T) false a b := by
  unfold P2.distanceTo
  simp only [Bool.false_eq_true, if_false]
  show T.sqrt _ = T.sqrt _
  congr 1
  simp only [P2.shift_x, P2.shift_y]
  ring

/-- **`fraction_from_ellipse_center` under rotation**: rotate centre and point by `[[c,−s],[s,c]]` and replace the ellipse angle `θ`
by a `θ'` with `cos θ' = cos θ·c − sin θ·s`, `sin θ' = sin θ·c + cos θ·s` (i.e. `θ' = θ + φ`, `c = cos φ`, `s = sin φ`) -/
theorem fractionFromEllipseCenter_rot (c s : F) (h : c * c + s * s = 1) (center : P2 F) (sma ecc theta theta' : F) (p : P2 F)
    (hcos : T.cos theta' = T.cos theta * c - T.sin theta * s) (hsin : T.sin theta' = T.sin theta * c + T.cos theta * s) :
    @fractionFromEllipseCenter F (fieldScalar T) (P2.rot c s center) sma ecc theta' (P2.rot c s p) =
      @fractionFromEllipseCenter F (fieldScalar T) center sma ecc theta p := by
  unfold fractionFromEllipseCenter
  have ex : ((P2.rot c s p).x - (P2.rot c s center).x) * T.cos theta' + ((P2.rot c s p).y - (P2.rot c s center).y) * T.sin theta'
      = (p.x - center.x) * T.cos theta + (p.y - center.y) * T.sin theta := by
    rw [hcos, hsin]; simp only [P2.rot_x, P2.rot_y]
    linear_combination ((p.x - center.x) * T.cos theta + (p.y - center.y) * T.sin theta) * h
  have ey : -((P2.rot c s p).x - (P2.rot c s center).x) * T.sin theta' + ((P2.rot c s p).y - (P2.rot c s center).y) * T.cos theta'
      = -(p.x - center.x) * T.sin theta + (p.y - center.y) * T.cos theta := by
    rw [hcos, hsin]; simp only [P2.rot_x, P2.rot_y]
    linear_combination (-(p.x - center.x) * T.sin theta + (p.y - center.y) * T.cos theta) * h
  show (if _ then _ else T.pow (((P2.rot c s p).x - (P2.rot c s center).x) * T.cos theta' + ((P2.rot c s p).y - (P2.rot c s center).y) * T.sin theta') _ / _
        + T.pow (-((P2.rot c s p).x - (P2.rot c s center).x) * T.sin theta' + ((P2.rot c s p).y - (P2.rot c s center).y) * T.cos theta') _ / _) = _
  rw [ex, ey]
  rfl

/-- angle-addition laws of `sin`, `cos` -/
structure AngleAddLaws (T : Transc F) : Prop where
  sin_add : ∀ x y, T.sin (x + y) = T.sin x * T.cos y + T.cos x * T.sin y
  cos_add : ∀ x y, T.cos (x + y) = T.cos x * T.cos y - T.sin x * T.sin y
  sin_sq_add_cos_sq : ∀ x, T.sin x * T.sin x + T.cos x * T.cos x = 1

/-- rotation of the world by the angle `φ`, plume angle `θ + φ` -/
theorem fractionFromEllipseCenter_rot_angle (hT : AngleAddLaws T) (phi : F) (center : P2 F) (sma ecc theta : F) (p : P2 F) :
    @fractionFromEllipseCenter F (fieldScalar T) (P2.rot (T.cos phi) (T.sin phi) center) sma ecc (theta + phi)
        (P2.rot (T.cos phi) (T.sin phi) p) =
      @fractionFromEllipseCenter F (fieldScalar T) center sma ecc theta p :=
  fractionFromEllipseCenter_rot T _ _ (by linarith [hT.sin_sq_add_cos_sq phi]) center sma ecc theta _ p
    (hT.cos_add theta phi) (hT.sin_add theta phi)

end field
end Gwb
