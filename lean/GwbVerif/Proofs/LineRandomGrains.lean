/-
Random grains models of slabs and faults: what `LineGrains.prepare` leaves in the place of a random model is either the model
itself (it does not apply: out of range, or the composition is not listed — nothing was drawn) or `drawn g` with one size and one
matrix per grain of the request (`g0`), so that the length test in `LineGrains.get (.drawn g)` passes on every grains value of
that request, and `get` returns exactly the drawn grains.  Holds for every `Scalar R`.
-/
import GwbVerif.Proofs.Batch
namespace Gwb
open Scalar
set_option linter.unusedSectionVars false
variable {R G : Type} [Scalar R] [RandGen G R]

/-- what `prepare` may return for model `m` and the request's grains `g0` -/
def LineGrains.PreparedFrom (m : LineGrains R) (g0 : Grains R) (m' : LineGrains R) : Prop :=
  m' = m ∨ ∃ g, m' = .drawn g ∧ g.sizes.length = g0.sizes.length ∧ g.mats.length = g0.mats.length

theorem LineGrains.prepare_fits (m : LineGrains R) (isFault : Bool) (pd : PlaneDist R) (n : Nat) (g0 : Grains R) :
    Post (G := G) (m.prepare isFault pd n g0) (m.PreparedFrom g0) := by
  cases m with
  | uniform mn mx comps mats sizes => exact Post.pure (Or.inl rfl)
  | drawn g => exact Post.pure (Or.inl rfl)
  | randomUniform mn mx comps sizes normalize =>
    simp only [LineGrains.prepare]
    split
    · split
      · exact Post.pure (Or.inl rfl)
      · refine Post.bind (drawMatrices_length _ _ _) fun mats hm => ?_
        refine Post.bind (Post.triv _) fun gs _ => ?_
        refine Post.bind (drawSizes_length _ _ _) fun r hr => ?_
        obtain ⟨ss, total⟩ := r
        refine Post.bind (Post.triv _) fun norm _ => Post.pure (Or.inr ⟨_, rfl, ?_, hm⟩)
        dsimp only at hr ⊢
        split <;> simp [hr]
    · exact Post.pure (Or.inl rfl)
  | randomUniformDeflected mn mx comps basis sizes normalize deflections =>
    simp only [LineGrains.prepare]
    split
    · split
      · exact Post.pure (Or.inl rfl)
      · refine Post.bind (Post.triv _) fun dfl _ => ?_
        refine Post.bind (Post.triv _) fun b _ => ?_
        refine Post.bind (drawMatrices_length _ _ _) fun mats hm => ?_
        refine Post.bind (Post.triv _) fun gs _ => ?_
        refine Post.bind (drawSizes_length _ _ _) fun r hr => ?_
        obtain ⟨ss, total⟩ := r
        refine Post.bind (Post.triv _) fun norm _ => Post.pure (Or.inr ⟨_, rfl, ?_, hm⟩)
        dsimp only at hr ⊢
        split <;> simp [hr]
    · exact Post.pure (Or.inl rfl)

/-- the drawn grains are what the model returns, for every grains value with the request's number of grains -/
theorem LineGrains.get_drawn (g old : Grains R) (isFault : Bool) (pd : PlaneDist R) (n : Nat)
    (hs : g.sizes.length = old.sizes.length) (hm : g.mats.length = old.mats.length) :
    (LineGrains.drawn g).get isFault pd n old = .ok g := by
  simp only [LineGrains.get, hs, hm, and_self, if_true]

/-! ### features without water-content and random grains models: the classic, pure painting code

For such a slab / fault the preparation changes nothing and draws nothing: one request of the per-property loop is
`linePaintAt` itself, so every statement about `linePaintAt` is a statement about what `LineFeature.apply` does. -/

def LineComp.isWater : LineComp R → Bool
  | .tianWater .. => true
  | _ => false

/-- no water-content model and no random grains model in the segment -/
def Segment.Plain (s : Segment R) : Prop := (∀ m ∈ s.comps, m.isWater = false) ∧ (∀ m ∈ s.grains, m.isRandom = false)

theorem mapM_eq_pure_of_mem {m : Type → Type} [Monad m] [LawfulMonad m] {α : Type} (f : α → m α) (xs : List α)
    (h : ∀ a ∈ xs, f a = pure a) : xs.mapM f = pure xs := by
  induction xs with
  | nil => simp
  | cons x xs ih =>
    rw [List.mapM_cons, h x (List.mem_cons_self ..), ih (fun a ha => h a (List.mem_cons_of_mem _ ha))]
    simp

theorem LineComp.prepare_plain (m : LineComp R) (h : m.isWater = false) (isFault : Bool) (q : Query R) (pd : PlaneDist R) :
    m.prepare isFault q pd = pure m := by
  cases m with
  | tianWater => simp [LineComp.isWater] at h
  | uniform => rfl
  | smooth => rfl

theorem LineGrains.prepare_plain (m : LineGrains R) (h : m.isRandom = false) (isFault : Bool) (pd : PlaneDist R) (n : Nat)
    (g0 : Grains R) : (m.prepare isFault pd n g0 : QM G (LineGrains R)) = pure m := by
  cases m with
  | randomUniform => simp [LineGrains.isRandom] at h
  | randomUniformDeflected => simp [LineGrains.isRandom] at h
  | uniform => rfl
  | drawn => rfl

theorem Segment.prepare_plain (s : Segment R) (hp : s.Plain) (isFault : Bool) (q : Query R) (pd : PlaneDist R) (p : Req) (g0 : Grains R) :
    (s.prepare isFault q pd p g0 : QM G (Segment R)) = pure s := by
  unfold Segment.prepare
  split
  · rw [mapM_eq_pure_of_mem _ _ (fun m hm => LineComp.prepare_plain m (hp.1 m hm) isFault q pd)]
    rfl
  · rw [mapM_eq_pure_of_mem _ _ (fun m hm => LineGrains.prepare_plain (G := G) m (hp.2 m hm) isFault pd p.n g0)]
    rfl
  · rfl

/-- **one request on a plain hit is the pure painting code** -/
theorem linePaintAtM_plain (f : LineFeature R) (ctx : Ctx R) (q : Query R) (h : LineHit R) (hc : h.cur.Plain) (hn : h.next.Plain)
    (p : Req) (e : Nat) (out : List R) :
    (linePaintAtM f ctx q h p e out : QM G (List R)) = liftE (linePaintAt f ctx q h p e out) := by
  unfold linePaintAtM LineHit.prepare
  rw [Segment.prepare_plain h.cur hc, Segment.prepare_plain h.next hn]
  rfl

end Gwb
