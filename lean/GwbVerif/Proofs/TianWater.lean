/-
`tian water content` over an ordered field: the two clamps of the model — the lithostatic pressure handed to the polynomial fits
lies in `[0.5, max(0.5, cutoff pressure)]` GPa whatever the depth, and the painted value never exceeds `initial water content / 100`
whatever the temperature (the libm members `pow`, `exp`, `log10` stay uninterpreted: no law about them is needed).
-/
import GwbVerif.Proofs.Models
namespace Gwb
open Scalar
set_option linter.unusedSectionVars false
variable {F : Type} [Field F] [LinearOrder F] [IsStrictOrderedRing F]

theorem smin_le_left (T : Transc F) (a b : F) : @Scalar.min F (fieldScalar T) a b ≤ a := by
  unfold Scalar.min
  split
  · rename_i h; exact le_of_lt h
  · exact le_refl a

theorem smin_le_right (T : Transc F) (a b : F) : @Scalar.min F (fieldScalar T) a b ≤ b := by
  unfold Scalar.min
  split
  · exact le_refl b
  · rename_i h; exact not_lt.1 h

theorem le_smax_left (T : Transc F) (a b : F) : a ≤ @Scalar.max F (fieldScalar T) a b := by
  unfold Scalar.max
  split
  · rename_i h; exact le_of_lt h
  · exact le_refl a

theorem smax_le (T : Transc F) (a b c : F) (ha : a ≤ c) (hb : b ≤ c) : @Scalar.max F (fieldScalar T) a b ≤ c := by
  unfold Scalar.max
  split <;> assumption

/-- the pressure floor: at least 0.5 GPa -/
theorem TianSpec.pressure_ge (T : Transc F) (s : TianSpec F) (depth : F) :
    (1 : F) / 2 ≤ @TianSpec.pressure F (fieldScalar T) s depth := by
  unfold TianSpec.pressure
  have h : @OfScientific.ofScientific F (@Scalar.instOfScientific F (fieldScalar T)) 5 true 1 = (1 : F) / 2 := by
    rw [lit_sci]; norm_num
  rw [h]
  exact le_smax_left T _ _

/-- the pressure ceiling: the cut-off pressure, unless that lies below the floor -/
theorem TianSpec.pressure_le (T : Transc F) (s : TianSpec F) (depth : F) :
    @TianSpec.pressure F (fieldScalar T) s depth ≤ max ((1 : F) / 2) s.cutoffPressure := by
  unfold TianSpec.pressure
  have h : @OfScientific.ofScientific F (@Scalar.instOfScientific F (fieldScalar T)) 5 true 1 = (1 : F) / 2 := by
    rw [lit_sci]; norm_num
  rw [h]
  exact smax_le T _ _ _ (le_max_left _ _) (le_trans (smin_le_right T _ _) (le_max_right _ _))

/-- **the max-water cut-off**: whatever the temperature, the depth and the lithology, the painted value is at most
`initial water content / 100` -/
theorem TianSpec.value_le (T : Transc F) (s : TianSpec F) (depth temperature : F) :
    @TianSpec.value F (fieldScalar T) s depth temperature ≤ s.maxWater / 100 := by
  unfold TianSpec.value
  have h100 : @OfNat.ofNat F 100 (@Scalar.instOfNat F (fieldScalar T) 100) = (100 : F) := by
    rw [lit_nat]
  simp only [h100]
  exact div_le_div_of_nonneg_right (smin_le_left T _ _) (by norm_num)

/-- … and it is that bound exactly where the fit exceeds it, the fit itself (as a fraction) where it does not -/
theorem TianSpec.value_eq (T : Transc F) (s : TianSpec F) (depth temperature : F) :
    @TianSpec.value F (fieldScalar T) s depth temperature =
      min s.maxWater (@tianWaterContent F (fieldScalar T) s.lithology (@TianSpec.pressure F (fieldScalar T) s depth) temperature) / 100 := by
  unfold TianSpec.value
  have h100 : @OfNat.ofNat F 100 (@Scalar.instOfNat F (fieldScalar T) 100) = (100 : F) := by
    rw [lit_nat]
  simp only [h100]
  congr 1
  unfold Scalar.min
  split
  · rename_i h; exact (min_eq_right (le_of_lt h)).symm
  · rename_i h; exact (min_eq_left (not_lt.1 h)).symm

end Gwb
