/-
Helper definitions and lemmas for C19 (coordinate conversions and great-circle distance) over `ℝ`.

What is assumed about libm: the theorems are stated for any `T : Transc ℝ` with `IsRealLibm T`, i.e. the members
`sqrt, sin, cos, acos, atan2, pi` of `T` *are* `Real.sqrt, Real.sin, Real.cos, Real.arccos, (y,x) ↦ Complex.arg ⟨x,y⟩, Real.pi`
and `dblMin > 0`.  Nothing is assumed about the other members.  `realLibmTransc` is one such bundle (its members that no C19
theorem mentions are filled with the corresponding real functions where Mathlib's imported modules have them and with
the constant `0` otherwise — they are placeholders, not models of libm).
Floating-point rounding is out of scope: these are statements about the exact real-number semantics of the transliterated formulas.
-/
import GwbVerif.Model.Geometry.Coords
import GwbVerif.Proofs.FieldScalar
import Mathlib.Analysis.SpecialFunctions.Trigonometric.Inverse
import Mathlib.Analysis.SpecialFunctions.Complex.Arg
import Mathlib.Tactic.NormNum
namespace Gwb
open Scalar

/-- `T` interprets the libm members used by the coordinate kernels as the real functions -/
structure IsRealLibm (T : Transc ℝ) : Prop where
  sqrt_eq : T.sqrt = Real.sqrt
  sin_eq : T.sin = Real.sin
  cos_eq : T.cos = Real.cos
  acos_eq : T.acos = Real.arccos
  atan2_eq : T.atan2 = fun y x => Complex.arg ⟨x, y⟩
  pi_eq : T.pi = Real.pi
  dblMin_pos : 0 < T.dblMin

/-- a concrete bundle over `ℝ`; only `sqrt, sin, cos, acos, atan2, pi, dblMin` matter for C19 -/
noncomputable def realLibmTransc (dblMin dblMax : ℝ) : Transc ℝ where
  sqrt := Real.sqrt
  exp := Real.exp
  log := fun _ => 0
  sin := Real.sin
  cos := Real.cos
  tan := Real.tan
  asin := Real.arcsin
  acos := Real.arccos
  atan := fun _ => 0
  tanh := Real.tanh
  erfc := fun _ => 0
  floor := fun x => (⌊x⌋ : ℝ)
  ceil := fun x => (⌈x⌉ : ℝ)
  round := fun x => (_root_.round x : ℝ)
  atan2 := fun y x => Complex.arg ⟨x, y⟩
  pow := fun _ _ => 0
  fmod := fun _ _ => 0
  pi := Real.pi
  eps := 0
  dblMin := dblMin
  dblMax := dblMax
  inf := 0

theorem realLibmTransc_isRealLibm {dblMin dblMax : ℝ} (h : 0 < dblMin) : IsRealLibm (realLibmTransc dblMin dblMax) :=
  ⟨rfl, rfl, rfl, rfl, rfl, rfl, h⟩

/-! ### literals of the model over `fieldScalar T` -/

theorem half_lit (T : Transc ℝ) :
    @OfScientific.ofScientific ℝ (@Scalar.instOfScientific ℝ (fieldScalar T)) 5 true 1 = 1 / 2 := by norm_num
theorem one_lit (T : Transc ℝ) :
    @OfScientific.ofScientific ℝ (@Scalar.instOfScientific ℝ (fieldScalar T)) 10 true 1 = 1 := by norm_num
theorem zero_lit (T : Transc ℝ) :
    @OfScientific.ofScientific ℝ (@Scalar.instOfScientific ℝ (fieldScalar T)) 0 true 1 = 0 := by norm_num

variable {T : Transc ℝ}

/-! ### the model's conversions in terms of real functions -/

theorem cartesianToSpherical_eq (hT : IsRealLibm T) (p : P3 ℝ) :
    @cartesianToSpherical ℝ (fieldScalar T) p =
      ⟨Real.sqrt (p.x * p.x + p.y * p.y + p.z * p.z), Complex.arg ⟨p.x, p.y⟩,
        if T.dblMin < Real.sqrt (p.x * p.x + p.y * p.y + p.z * p.z) then
          Real.pi / 2 - Real.arccos (p.z / Real.sqrt (p.x * p.x + p.y * p.y + p.z * p.z)) else 0⟩ := by
  simp only [cartesianToSpherical, P3.norm]
  show (⟨T.sqrt _, T.atan2 _ _, if T.sqrt _ > T.dblMin then _ * T.pi - T.acos (_ / T.sqrt _) else _⟩ : P3 ℝ) = _
  rw [hT.sqrt_eq, hT.atan2_eq, hT.acos_eq, hT.pi_eq, half_lit, zero_lit,
    show (1 : ℝ) / 2 * Real.pi = Real.pi / 2 by ring]

theorem sphericalToCartesian_eq (hT : IsRealLibm T) (s : P3 ℝ) :
    @sphericalToCartesian ℝ (fieldScalar T) s =
      ⟨s.x * Real.cos s.z * Real.cos s.y, s.x * Real.cos s.z * Real.sin s.y, s.x * Real.sin s.z⟩ := by
  simp only [sphericalToCartesian]
  show (⟨_ * T.sin (_ * T.pi - _) * T.cos _, _ * T.sin (_ * T.pi - _) * T.sin _, _ * T.cos (_ * T.pi - _)⟩ : P3 ℝ) = _
  rw [hT.sin_eq, hT.cos_eq, hT.pi_eq, half_lit,
    show (1 : ℝ) / 2 * Real.pi - s.z = Real.pi / 2 - s.z by ring, Real.sin_pi_div_two_sub, Real.cos_pi_div_two_sub]

/-! ### cartesian → spherical → cartesian -/

theorem roundtrip_cart (hT : IsRealLibm T) (p : P3 ℝ)
    (hr : T.dblMin < Real.sqrt (p.x * p.x + p.y * p.y + p.z * p.z)) :
    @sphericalToCartesian ℝ (fieldScalar T) (@cartesianToSpherical ℝ (fieldScalar T) p) = p := by
  obtain ⟨x, y, z⟩ := p
  rw [cartesianToSpherical_eq hT, sphericalToCartesian_eq hT]
  simp only [] at hr ⊢
  rw [if_pos hr]
  set r := Real.sqrt (x * x + y * y + z * z) with hrdef
  have hr0 : 0 < r := lt_trans hT.dblMin_pos hr
  have hnn : 0 ≤ x * x + y * y + z * z :=
    add_nonneg (add_nonneg (mul_self_nonneg x) (mul_self_nonneg y)) (mul_self_nonneg z)
  have hr2 : r * r = x * x + y * y + z * z := Real.mul_self_sqrt hnn
  have hzr : |z| ≤ r := by
    rw [hrdef]; apply Real.abs_le_sqrt; nlinarith [mul_self_nonneg x, mul_self_nonneg y]
  have hz1 : -1 ≤ z / r := by
    rw [le_div_iff₀ hr0]; have := neg_abs_le z; linarith
  have hz2 : z / r ≤ 1 := by
    rw [div_le_iff₀ hr0]; have := le_abs_self z; linarith
  rw [Real.cos_pi_div_two_sub, Real.sin_pi_div_two_sub, Real.cos_arccos hz1 hz2, Real.sin_arccos]
  -- `r * sqrt (1 - (z/r)^2) = sqrt (x^2 + y^2)`
  have hrho : r * Real.sqrt (1 - (z / r) ^ 2) = Real.sqrt (x * x + y * y) := by
    have h1 : r = Real.sqrt (r * r) := (Real.sqrt_mul_self hr0.le).symm
    rw [h1, ← Real.sqrt_mul (mul_self_nonneg r), ← h1]
    congr 1
    field_simp
    nlinarith [hr2]
  rw [hrho, Complex.sin_arg]
  have hnorm : ‖(⟨x, y⟩ : ℂ)‖ = Real.sqrt (x * x + y * y) := by
    rw [Complex.norm_def, Complex.normSq_apply]
  refine P3.mk.injEq .. ▸ ⟨?_, ?_, ?_⟩
  · by_cases h0 : (⟨x, y⟩ : ℂ) = 0
    · have hx : x = 0 := congrArg Complex.re h0
      have hy : y = 0 := congrArg Complex.im h0
      simp [hx, hy]
    · rw [Complex.cos_arg h0, hnorm]
      have : Real.sqrt (x * x + y * y) ≠ 0 := by rw [← hnorm]; exact norm_ne_zero_iff.2 h0
      rw [mul_comm, div_mul_cancel₀ _ this]
  · rw [hnorm]
    by_cases h0 : Real.sqrt (x * x + y * y) = 0
    · rw [h0]; simp
      have : x * x + y * y = 0 := by
        have := Real.sqrt_eq_zero'.1 h0
        nlinarith [mul_self_nonneg x, mul_self_nonneg y]
      nlinarith [mul_self_nonneg x, mul_self_nonneg y]
    · rw [mul_comm, div_mul_cancel₀ _ h0]
  · field_simp

/-! ### spherical → cartesian → spherical on the principal domain -/

theorem roundtrip_sph (hT : IsRealLibm T) (r lon lat : ℝ) (hr : T.dblMin < r)
    (hlon : lon ∈ Set.Ioc (-Real.pi) Real.pi) (hlat1 : -(Real.pi / 2) ≤ lat) (hlat2 : lat ≤ Real.pi / 2)
    (hpole : Real.cos lat = 0 → lon = 0) :
    @cartesianToSpherical ℝ (fieldScalar T) (@sphericalToCartesian ℝ (fieldScalar T) ⟨r, lon, lat⟩) = ⟨r, lon, lat⟩ := by
  rw [sphericalToCartesian_eq hT, cartesianToSpherical_eq hT]
  simp only []
  have hr0 : 0 < r := lt_trans hT.dblMin_pos hr
  have hnorm : Real.sqrt (r * Real.cos lat * Real.cos lon * (r * Real.cos lat * Real.cos lon)
      + r * Real.cos lat * Real.sin lon * (r * Real.cos lat * Real.sin lon)
      + r * Real.sin lat * (r * Real.sin lat)) = r := by
    have : r * Real.cos lat * Real.cos lon * (r * Real.cos lat * Real.cos lon)
      + r * Real.cos lat * Real.sin lon * (r * Real.cos lat * Real.sin lon)
      + r * Real.sin lat * (r * Real.sin lat) = r * r := by
      have h1 := Real.sin_sq_add_cos_sq lon
      have h2 := Real.sin_sq_add_cos_sq lat
      linear_combination (r * r * Real.cos lat ^ 2) * h1 + (r * r) * h2
    rw [this, Real.sqrt_mul_self hr0.le]
  rw [hnorm, if_pos hr]
  have hcos : 0 ≤ Real.cos lat := Real.cos_nonneg_of_neg_pi_div_two_le_of_le hlat1 hlat2
  refine P3.mk.injEq .. ▸ ⟨rfl, ?_, ?_⟩
  · rcases hcos.eq_or_lt with h0 | hpos
    · rw [hpole h0.symm, ← h0]
      have e : (⟨r * 0 * Real.cos 0, r * 0 * Real.sin 0⟩ : ℂ) = 0 := by apply Complex.ext <;> simp
      rw [e, Complex.arg_zero]
    · have hρ : 0 < r * Real.cos lat := mul_pos hr0 hpos
      have e : (⟨r * Real.cos lat * Real.cos lon, r * Real.cos lat * Real.sin lon⟩ : ℂ) =
          ((r * Real.cos lat : ℝ) : ℂ) * (Complex.cos lon + Complex.sin lon * Complex.I) := by
        apply Complex.ext <;> simp [Complex.cos_ofReal_re, Complex.sin_ofReal_re, Complex.cos_ofReal_im, Complex.sin_ofReal_im]
      rw [e, Complex.arg_mul_cos_add_sin_mul_I hρ hlon]
  · rw [mul_div_cancel_left₀ _ hr0.ne', Real.arccos_eq_pi_div_two_sub_arcsin, Real.arcsin_sin hlat1 hlat2]
    ring

/-! ### great-circle distance -/

/-- unit vector of the direction (lon, lat) -/
noncomputable def unitVec (lon lat : ℝ) : P3 ℝ :=
  ⟨Real.cos lat * Real.cos lon, Real.cos lat * Real.sin lon, Real.sin lat⟩

/-- euclidean inner product on `P3 ℝ` -/
def rdot (a b : P3 ℝ) : ℝ := a.x * b.x + a.y * b.y + a.z * b.z

theorem unitVec_norm (lon lat : ℝ) : rdot (unitVec lon lat) (unitVec lon lat) = 1 := by
  simp only [rdot, unitVec]
  have h1 := Real.sin_sq_add_cos_sq lon
  have h2 := Real.sin_sq_add_cos_sq lat
  linear_combination (Real.cos lat ^ 2) * h1 + h2

/-- the true great-circle distance on the sphere of radius `R` between the directions `(lon₁,lat₁)`, `(lon₂,lat₂)`:
radius times the angle between the unit vectors -/
noncomputable def greatCircle (R lon1 lat1 lon2 lat2 : ℝ) : ℝ :=
  R * Real.arccos (rdot (unitVec lon1 lat1) (unitVec lon2 lat2))

theorem scalar_min_eq (T : Transc ℝ) (a b : ℝ) : @Scalar.min ℝ (fieldScalar T) a b = min a b := by
  show (if b < a then b else a) = min a b
  rcases lt_or_ge b a with h | h
  · rw [if_pos h, min_eq_right h.le]
  · rw [if_neg (not_lt.2 h), min_eq_left h]

theorem scalar_max_eq (T : Transc ℝ) (a b : ℝ) : @Scalar.max ℝ (fieldScalar T) a b = max a b := by
  show (if a < b then b else a) = max a b
  rcases lt_or_ge a b with h | h
  · rw [if_pos h, max_eq_right h.le]
  · rw [if_neg (not_lt.2 h), max_eq_left h]

/-- Cauchy–Schwarz for unit vectors: the cosine of the angle lies in `[-1, 1]` -/
theorem rdot_unit_bounds (a b : P3 ℝ) (ha : rdot a a = 1) (hb : rdot b b = 1) : -1 ≤ rdot a b ∧ rdot a b ≤ 1 := by
  simp only [rdot] at *
  constructor
  · nlinarith [mul_self_nonneg (a.x + b.x), mul_self_nonneg (a.y + b.y), mul_self_nonneg (a.z + b.z)]
  · nlinarith [mul_self_nonneg (a.x - b.x), mul_self_nonneg (a.y - b.y), mul_self_nonneg (a.z - b.z)]

theorem unitVec_dot_bounds (lon1 lat1 lon2 lat2 : ℝ) :
    -1 ≤ rdot (unitVec lon1 lat1) (unitVec lon2 lat2) ∧ rdot (unitVec lon1 lat1) (unitVec lon2 lat2) ≤ 1 :=
  rdot_unit_bounds _ _ (unitVec_norm lon1 lat1) (unitVec_norm lon2 lat2)

/-- the model's spherical `distance_between_points_at_same_depth` for two points of radius `R > 0`, clamp as written:
`R · arccos (min 1 (max (-1) ⟨u₁,u₂⟩))` -/
theorem distanceSameDepth_eq (hT : IsRealLibm T) (R lon1 lat1 lon2 lat2 : ℝ) (hR : 0 < R) :
    @distanceSameDepth ℝ (fieldScalar T) true ⟨R, lon1, lat1⟩ ⟨R, lon2, lat2⟩ =
      R * Real.arccos (min 1 (max (-1) (rdot (unitVec lon1 lat1) (unitVec lon2 lat2)))) := by
  simp only [distanceSameDepth, if_true]
  rw [sphericalToCartesian_eq hT, sphericalToCartesian_eq hT, scalar_max_eq, scalar_min_eq]
  show R * T.acos (min (@OfScientific.ofScientific ℝ (@Scalar.instOfScientific ℝ (fieldScalar T)) 10 true 1)
    (max (-(@OfScientific.ofScientific ℝ (@Scalar.instOfScientific ℝ (fieldScalar T)) 10 true 1)) _)) = _
  rw [hT.acos_eq, one_lit]
  congr 4
  simp only [P3.dot, rdot, unitVec]
  field_simp

/-- the clamp is the identity (the cosine of unit vectors lies in `[-1,1]`): the model returns the great-circle distance -/
theorem distanceSameDepth_greatCircle (hT : IsRealLibm T) (R lon1 lat1 lon2 lat2 : ℝ) (hR : 0 < R) :
    @distanceSameDepth ℝ (fieldScalar T) true ⟨R, lon1, lat1⟩ ⟨R, lon2, lat2⟩ = greatCircle R lon1 lat1 lon2 lat2 := by
  obtain ⟨h1, h2⟩ := unitVec_dot_bounds lon1 lat1 lon2 lat2
  rw [distanceSameDepth_eq hT _ _ _ _ _ hR, greatCircle, max_eq_right h1, min_eq_right h2]

/-- two equatorial points `lon` apart, `lon ∈ [0, π]`: the great-circle distance is `R·lon` -/
theorem greatCircle_equator (R lon : ℝ) (h0 : 0 ≤ lon) (h1 : lon ≤ Real.pi) :
    greatCircle R 0 0 lon 0 = R * lon ∧ rdot (unitVec 0 0) (unitVec lon 0) = Real.cos lon := by
  have : rdot (unitVec 0 0) (unitVec lon 0) = Real.cos lon := by simp [rdot, unitVec]
  rw [greatCircle, this, Real.arccos_cos h0 h1]
  exact ⟨rfl, rfl⟩

end Gwb
