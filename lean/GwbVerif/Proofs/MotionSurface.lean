/-
Helpers for C08, part 7: bounding box, kd-tree search and depth surfaces when nodes and query move together; the spherical
wrappers (`polygonContains true`, `BBox.inside true`) under a common longitude offset.
-/
import GwbVerif.Proofs.MotionBezier
import GwbVerif.Proofs.KdTree
import GwbVerif.Model.Features.Line
namespace Gwb
open Scalar
set_option linter.unusedSectionVars false

section field
variable {F : Type} [Field F] [LinearOrder F] [IsStrictOrderedRing F] (T : Transc F)

/-! ### bounding box -/

def BBox.shift (v : P2 F) (b : BBox F) : BBox F := ⟨P2.shift v b.lo, P2.shift v b.hi⟩

theorem sub_lt_shift (a b c t : F) : (a + c < b + c - t) ↔ (a < b - t) := by
  constructor <;> intro h <;> linarith
theorem gt_shift (a b c t : F) : (a + c > b + c + t) ↔ (a > b + t) := by
  constructor <;> intro h <;> linarith

/-- `point_inside` is translation invariant exactly: the tolerance is relative to the box EXTENT -/
theorem BBox.insideImpl_shift (v : P2 F) (b : BBox F) (p : P2 F) (tol : F) :
    @BBox.insideImpl F (fieldScalar T) (b.shift v) (P2.shift v p) tol = @BBox.insideImpl F (fieldScalar T) b p tol := by
  unfold BBox.insideImpl BBox.shift
  simp only [P2.shift_x, P2.shift_y, sub_shift_cancel, sub_lt_shift, gt_shift]

theorem BBox.inside_shift (v : P2 F) (b : BBox F) (p : P2 F) :
    @BBox.inside F (fieldScalar T) (b.shift v) false (P2.shift v p) = @BBox.inside F (fieldScalar T) b false p := by
  unfold BBox.inside
  simp only [Bool.false_eq_true, if_false, BBox.insideImpl_shift]

/-! ### spherical wrappers under a common longitude offset -/

/-- `otherPoint` commutes with a longitude offset that does not change the sign test `lon < 0` -/
theorem otherPoint_shift (d : F) (p : P2 F) (hs : p.x + d < 0 ↔ p.x < 0) :
    @otherPoint F (fieldScalar T) (P2.shift ⟨d, 0⟩ p) = P2.shift ⟨d, 0⟩ (@otherPoint F (fieldScalar T) p) := by
  have h0 : @OfNat.ofNat F 0 (@Scalar.instOfNat F (fieldScalar T) 0) = (0 : F) := lit_zero_nat T
  unfold otherPoint
  simp only [P2.shift, h0, hs, P2.mk.injEq, and_true]
  ring

/-- since upstream 'fix: bounding box tried only one longitude alias' both aliases are tried whatever the sign of the longitude, so
no hypothesis on the offset is needed -/
theorem BBox.inside_lon_offset (d : F) (b : BBox F) (p : P2 F) :
    @BBox.inside F (fieldScalar T) (b.shift ⟨d, 0⟩) true (P2.shift ⟨d, 0⟩ p) = @BBox.inside F (fieldScalar T) b true p := by
  have e1 : ∀ c : F, (⟨(P2.shift ⟨d, 0⟩ p).x + c, (P2.shift ⟨d, 0⟩ p).y⟩ : P2 F) = P2.shift ⟨d, 0⟩ ⟨p.x + c, p.y⟩ := by
    intro c; simp only [P2.shift, P2.mk.injEq, and_true]; ring
  have e2 : ∀ c : F, (⟨(P2.shift ⟨d, 0⟩ p).x - c, (P2.shift ⟨d, 0⟩ p).y⟩ : P2 F) = P2.shift ⟨d, 0⟩ ⟨p.x - c, p.y⟩ := by
    intro c; simp only [P2.shift, P2.mk.injEq, and_true]; ring
  unfold BBox.inside
  simp only [if_true]
  erw [e1, e2]
  simp only [BBox.insideImpl_shift]

/-- the spherical polygon test under a common longitude offset of footprint and point representation (the offset keeps the sign of
the longitude, so `otherPoint` follows), vertex tolerance exact in all four tests -/
theorem polygonContains_lon_offset (heps : 0 < T.eps) (d : F) (pts : List (P2 F)) (p : P2 F) (hs : p.x + d < 0 ↔ p.x < 0)
    (h1 : VertexExact T pts p) (h1' : VertexExact T (pts.map (P2.shift ⟨d, 0⟩)) (P2.shift ⟨d, 0⟩ p))
    (h2 : VertexExact T pts (@otherPoint F (fieldScalar T) p))
    (h2' : VertexExact T (pts.map (P2.shift ⟨d, 0⟩)) (P2.shift ⟨d, 0⟩ (@otherPoint F (fieldScalar T) p))) :
    @polygonContains F (fieldScalar T) true (pts.map (P2.shift ⟨d, 0⟩)) (P2.shift ⟨d, 0⟩ p) =
      @polygonContains F (fieldScalar T) true pts p := by
  unfold polygonContains
  simp only [if_true, otherPoint_shift T d p hs]
  rw [polygonContainsImpl_shift T heps _ pts p h1 h1', polygonContainsImpl_shift T heps _ pts _ h2 h2']

/-! ### kd-tree search -/

def KdNode.shift (v : P2 F) (n : KdNode F) : KdNode F := ⟨n.index, n.x + v.x, n.y + v.y⟩

theorem kdDistance_shift (v : P2 F) (n : KdNode F) (p : P2 F) :
    @kdDistance F (fieldScalar T) (n.shift v) (P2.shift v p) = @kdDistance F (fieldScalar T) n p := by
  unfold kdDistance KdNode.shift
  simp only [P2.shift_x, P2.shift_y, sub_shift_cancel]

theorem kdVisit_shift (v : P2 F) (mid : Nat) (n : KdNode F) (p : P2 F) (s : KdState F) :
    @kdVisit F (fieldScalar T) mid (n.shift v) (P2.shift v p) s = @kdVisit F (fieldScalar T) mid n p s := by
  unfold kdVisit
  simp only [kdDistance_shift]

theorem get_shift (v : P2 F) (n : KdNode F) (p : P2 F) (ax : Bool) :
    ((P2.shift v p).get ax < (n.shift v).get ax ↔ p.get ax < n.get ax) ∧
    ((n.shift v).get ax - (P2.shift v p).get ax = n.get ax - p.get ax) := by
  cases ax
  · simp only [P2.get, KdNode.get, KdNode.shift, P2.shift_x, Bool.false_eq_true, if_false, add_lt_add_iff_right, sub_shift_cancel,
      and_self]
  · simp only [P2.get, KdNode.get, KdNode.shift, P2.shift_y, if_true, add_lt_add_iff_right, sub_shift_cancel, and_self]

theorem kdSearch_shift (v : P2 F) (nodes : Array (KdNode F)) (p : P2 F) (left right : Nat) (ax : Bool) (s : KdState F) :
    @kdSearch F (fieldScalar T) (nodes.map (KdNode.shift v)) (P2.shift v p) left right ax s =
      @kdSearch F (fieldScalar T) nodes p left right ax s := by
  induction h : right + 1 - left using Nat.strong_induction_on generalizing left right ax s with
  | _ n ih =>
    rw [@kdSearch.eq_def F (fieldScalar T) (nodes.map (KdNode.shift v)), @kdSearch.eq_def F (fieldScalar T) nodes]
    simp only [Array.getElem?_map]
    cases hn : nodes[(left + right) / 2]? with
    | none => rfl
    | some node =>
      simp only [Option.map_some, (get_shift v node p ax).1, (get_shift v node p ax).2, kdVisit_shift]
      have ihL : left < (left + right) / 2 → ∀ s', @kdSearch F (fieldScalar T) (nodes.map (KdNode.shift v)) (P2.shift v p) left
          ((left + right) / 2 - 1) (!ax) s' = @kdSearch F (fieldScalar T) nodes p left ((left + right) / 2 - 1) (!ax) s' :=
        fun hlt s' => ih _ (by omega) left _ (!ax) s' rfl
      have ihR : right > (left + right) / 2 → ∀ s', @kdSearch F (fieldScalar T) (nodes.map (KdNode.shift v)) (P2.shift v p)
          ((left + right) / 2 + 1) right (!ax) s' = @kdSearch F (fieldScalar T) nodes p ((left + right) / 2 + 1) right (!ax) s' :=
        fun hgt s' => ih _ (by omega) _ right (!ax) s' rfl
      by_cases hl : left < (left + right) / 2 <;> by_cases hr : right > (left + right) / 2 <;>
        simp only [hl, hr, if_true, if_false, ihL, ihR]

theorem kdFindClosestPoints_shift (v : P2 F) (nodes : Array (KdNode F)) (p : P2 F) :
    @kdFindClosestPoints F (fieldScalar T) (nodes.map (KdNode.shift v)) (P2.shift v p) =
      @kdFindClosestPoints F (fieldScalar T) nodes p := by
  unfold kdFindClosestPoints
  simp only [Array.size_map, kdSearch_shift]

/-! ### triangles and depth surfaces -/

def P3.shiftXY' (v : P2 F) (n : P3 F) : P3 F := ⟨n.x + v.x, n.y + v.y, n.z⟩
def Tri.shift (v : P2 F) (t : Tri F) : Tri F := ⟨P3.shiftXY' v t.p0, P3.shiftXY' v t.p1, P3.shiftXY' v t.p2⟩

theorem P3.xy_shift (v : P2 F) (n : P3 F) : (P3.shiftXY' v n).xy = P2.shift v n.xy := rfl

theorem Tri.c6_shift (v : P2 F) (t : Tri F) : @Tri.c6 F (fieldScalar T) (t.shift v) = @Tri.c6 F (fieldScalar T) t := by
  rw [Tri.c6_field, Tri.c6_field]
  simp only [Tri.shift, P3.xy_shift, crossP_shift]
theorem Tri.sNum_shift (v : P2 F) (t : Tri F) (p : P2 F) :
    @Tri.sNum F (fieldScalar T) (t.shift v) (P2.shift v p) = @Tri.sNum F (fieldScalar T) t p := by
  rw [Tri.sNum_field, Tri.sNum_field]
  simp only [Tri.shift, P3.xy_shift, crossP_shift]
theorem Tri.tNum_shift (v : P2 F) (t : Tri F) (p : P2 F) :
    @Tri.tNum F (fieldScalar T) (t.shift v) (P2.shift v p) = @Tri.tNum F (fieldScalar T) t p := by
  rw [Tri.tNum_field, Tri.tNum_field]
  simp only [Tri.shift, P3.xy_shift, crossP_shift]

theorem Tri.c7_eq (t : Tri F) :
    (@Tri.precompute F (fieldScalar T) t).c7 = @OfScientific.ofScientific F (@Scalar.instOfScientific F (fieldScalar T)) 10 true 1
      / @Tri.c6 F (fieldScalar T) t := rfl

theorem Tri.interp_shift (v : P2 F) (t : Tri F) (p : P2 F) :
    @Tri.interp F (fieldScalar T) (t.shift v) (P2.shift v p) = @Tri.interp F (fieldScalar T) t p := by
  unfold Tri.interp
  simp only [Tri.c7_eq, Tri.c6_shift, Tri.sNum_shift, Tri.tNum_shift]
  rfl

theorem Tri.accepts_shift (v : P2 F) (t : Tri F) (p : P2 F) :
    @Tri.Accepts F (fieldScalar T) (t.shift v) (P2.shift v p) ↔ @Tri.Accepts F (fieldScalar T) t p := by
  unfold Tri.Accepts
  simp only [Tri.c6_shift, Tri.sNum_shift, Tri.tNum_shift]

/-- **the triangle test and its interpolated value are translation invariant** (exact field arithmetic; the tolerance of the test is
absolute on cross products of differences) -/
theorem inTriangle_shift (v : P2 F) (t : Tri F) (p : P2 F) :
    @inTriangle F (fieldScalar T) (t.shift v) (@Tri.precompute F (fieldScalar T) (t.shift v)) (P2.shift v p) =
      @inTriangle F (fieldScalar T) t (@Tri.precompute F (fieldScalar T) t) p := by
  rw [@inTriangle_precompute F (fieldScalar T), @inTriangle_precompute F (fieldScalar T), Tri.interp_shift]
  by_cases h : @Tri.Accepts F (fieldScalar T) t p
  · rw [if_pos h, if_pos ((Tri.accepts_shift T v t p).mpr h)]
  · rw [if_neg h, if_neg (fun h' => h ((Tri.accepts_shift T v t p).mp h'))]

/-- the surface with all nodes (triangle vertices, kd-tree centroids) translated; values, minimum, maximum unchanged -/
noncomputable def Surface.shift (v : P2 F) (s : Surface F) : Surface F :=
  { s with triangles := s.triangles.map (Tri.shift v),
           pre := (s.triangles.map (Tri.shift v)).map (@Tri.precompute F (fieldScalar T)),
           nodes := s.nodes.map (KdNode.shift v) }

theorem Surface.shift_preOk (v : P2 F) (s : Surface F) : @Surface.PreOk F (fieldScalar T) (s.shift T v) := rfl

theorem Surface.tryNode_shift (v : P2 F) (s : Surface F) (hs : @Surface.PreOk F (fieldScalar T) s) (ni : Nat) (p : P2 F) :
    @Surface.tryNode F (fieldScalar T) (s.shift T v) ni (P2.shift v p) = @Surface.tryNode F (fieldScalar T) s ni p := by
  unfold Surface.tryNode
  unfold Surface.PreOk at hs
  simp only [Surface.shift, Array.getElem?_map, hs]
  cases s.nodes[ni]? with
  | none => rfl
  | some nd =>
    simp only [Option.map_some, KdNode.shift]
    cases s.triangles[nd.index]? with
    | none => rfl
    | some t => simp only [Option.map_some, inTriangle_shift]

theorem Surface.tryList_shift (v : P2 F) (s : Surface F) (hs : @Surface.PreOk F (fieldScalar T) s) (p : P2 F)
    (ids : List (IndexDistance F)) :
    @Surface.tryList F (fieldScalar T) (s.shift T v) (P2.shift v p) ids = @Surface.tryList F (fieldScalar T) s p ids := by
  induction ids with
  | nil => rfl
  | cons id ids ih =>
    unfold Surface.tryList
    simp only [Surface.tryNode_shift T v s hs, ih]

theorem Surface.scanAll_shift (v : P2 F) (s : Surface F) (hs : @Surface.PreOk F (fieldScalar T) s) (p other other' : P2 F)
    (nds : List (KdNode F)) :
    @Surface.scanAll F (fieldScalar T) (s.shift T v) false (P2.shift v p) other' (nds.map (KdNode.shift v)) =
      @Surface.scanAll F (fieldScalar T) s false p other nds := by
  induction nds with
  | nil => rfl
  | cons nd nds ih =>
    simp only [List.map_cons]
    unfold Surface.scanAll
    unfold Surface.PreOk at hs
    have h1 : (s.shift T v).triangles[(KdNode.shift v nd).index]? = (s.triangles[nd.index]?).map (Tri.shift v) := by
      simp only [Surface.shift, Array.getElem?_map, KdNode.shift]
    have h2 : (s.shift T v).pre[(KdNode.shift v nd).index]? =
        (s.triangles[nd.index]?).map (fun t => @Tri.precompute F (fieldScalar T) (t.shift v)) := by
      simp only [Surface.shift, Array.getElem?_map, KdNode.shift, Option.map_map]
      rfl
    have h3 : s.pre[nd.index]? = (s.triangles[nd.index]?).map (@Tri.precompute F (fieldScalar T)) := by
      rw [hs, Array.getElem?_map]
    rw [h1, h2, h3]
    cases s.triangles[nd.index]? with
    | none => rfl
    | some t =>
      simp only [Option.map_some, inTriangle_shift, Bool.false_eq_true, if_false, ih]

/-- **`Surface::local_value` (Cartesian) when nodes and query move together** -/
theorem Surface.localValue_shift (v : P2 F) (s : Surface F) (hs : @Surface.PreOk F (fieldScalar T) s) (p : P2 F) :
    @Surface.localValue F (fieldScalar T) (s.shift T v) false (P2.shift v p) = @Surface.localValue F (fieldScalar T) s false p := by
  unfold Surface.localValue
  have hc : (s.shift T v).constant = s.constant := rfl
  have hm : (s.shift T v).minimum = s.minimum := rfl
  have hn : (s.shift T v).nodes = s.nodes.map (KdNode.shift v) := rfl
  simp only [hc, hm, hn, kdFindClosestPoints_shift, Surface.tryNode_shift T v s hs, Surface.tryList_shift T v s hs,
    Bool.false_eq_true, if_false, Array.toList_map, Surface.scanAll_shift T v s hs p (@otherPoint F (fieldScalar T) p)]

theorem Surface.localOr_shift (v : P2 F) (s : Surface F) (hs : @Surface.PreOk F (fieldScalar T) s) (bound : F) (p : P2 F) :
    @Surface.localOr F (fieldScalar T) (s.shift T v) bound false (P2.shift v p) = @Surface.localOr F (fieldScalar T) s bound false p := by
  unfold Surface.localOr
  have hc : (s.shift T v).constant = s.constant := rfl
  rw [hc, Surface.localValue_shift T v s hs]

/-! ### area features (continental plate, oceanic plate, mantle layer): the footprint-and-depth guard -/

noncomputable def DepthRange.shift (v : P2 F) (r : DepthRange F) : DepthRange F := ⟨r.minS.shift T v, r.maxS.shift T v⟩

/-- the feature with polygon and depth-surface nodes translated -/
noncomputable def AreaFeature.shift (v : P2 F) (f : AreaFeature F) : AreaFeature F :=
  { f with coords := f.coords.map (P2.shift v), rng := f.rng.shift T v }

/-- **the guard of an area feature (Cartesian) is translation invariant**: polygon, depth-surface nodes and the query's surface point
moved by the same vector; vertex tolerance of the polygon test exact in both configurations -/
theorem AreaFeature.covers_shift (heps : 0 < T.eps) (v : P2 F) (f : AreaFeature F) (ctx : Ctx F) (q q' : Query F)
    (hcart : ctx.coord.spherical = false) (hdepth : q'.depth = q.depth)
    (hsp : surfacePoint false q'.nat = P2.shift v (surfacePoint false q.nat))
    (hmin : @Surface.PreOk F (fieldScalar T) f.rng.minS) (hmax : @Surface.PreOk F (fieldScalar T) f.rng.maxS)
    (h1 : VertexExact T f.coords (surfacePoint false q.nat))
    (h2 : VertexExact T (f.coords.map (P2.shift v)) (P2.shift v (surfacePoint false q.nat))) :
    @AreaFeature.covers F (fieldScalar T) (f.shift T v) ctx q' = @AreaFeature.covers F (fieldScalar T) f ctx q := by
  unfold AreaFeature.covers
  have e1 : (f.shift T v).rng.maxDepth = f.rng.maxDepth := rfl
  have e2 : (f.shift T v).rng.minDepth = f.rng.minDepth := rfl
  have e3 : (f.shift T v).coords = f.coords.map (P2.shift v) := rfl
  have e4 : (f.shift T v).rng.minS = f.rng.minS.shift T v := rfl
  have e5 : (f.shift T v).rng.maxS = f.rng.maxS.shift T v := rfl
  simp only [hcart, hdepth, hsp, e1, e2, e3, e4, e5, polygonContains, Bool.false_eq_true, if_false,
    polygonContainsImpl_shift T heps v f.coords _ h1 h2, Surface.localOr_shift T v _ hmin, Surface.localOr_shift T v _ hmax]

end field
end Gwb
