/-
The point-in-polygon test over an ordered field: with exact tests (`Separated`) the transliterated loop decides
`InPolygon` — "on some closed edge, or non-zero crossing sum" — boundary included.
-/
import GwbVerif.Proofs.Polygon
import GwbVerif.Proofs.FieldScalar
namespace Gwb
open Scalar
variable {F : Type} [Field F] [LinearOrder F] [IsStrictOrderedRing F]

/-- `is_left` of the code: the cross product `(b−a) × (p−a)` -/
def crossP (a b p : P2 F) : F := (b.x - a.x) * (p.y - a.y) - (p.x - a.x) * (b.y - a.y)
def dotP (a b p : P2 F) : F := (p.x - a.x) * (b.x - a.x) + (p.y - a.y) * (b.y - a.y)
def sqlP (a b : P2 F) : F := (b.x - a.x) * (b.x - a.x) + (b.y - a.y) * (b.y - a.y)

/-- `p` lies on the closed segment from `a` to `b` -/
def OnSegment (a b p : P2 F) : Prop := crossP a b p = 0 ∧ 0 ≤ dotP a b p ∧ dotP a b p ≤ sqlP a b

/-- signed crossing of the horizontal line through `p` by the edge `a → b` (half-open in `y`, sign by side) -/
def crossing (a b p : P2 F) : Int :=
  if a.y ≤ p.y ∧ p.y < b.y ∧ 0 < crossP a b p then 1
  else if p.y < a.y ∧ b.y ≤ p.y ∧ crossP a b p < 0 then -1
  else 0

/-- the specification: boundary, or non-zero winding (crossing-sum) number -/
def InPolygon (pts : List (P2 F)) (p : P2 F) : Prop :=
  (∃ e ∈ polygonEdges pts, OnSegment e.1 e.2 p) ∨ ((polygonEdges pts).map (fun e => crossing e.1 e.2 p)).sum ≠ 0

/-- the tolerances of the floating-point code do not fire spuriously: the vertex test `approx` only accepts the vertex itself,
and `|is_left| < ε` only accepts exact collinearity -/
structure Separated (T : Transc F) (pts : List (P2 F)) (p : P2 F) : Prop where
  epsPos : 0 < T.eps
  vertex : ∀ e ∈ polygonEdges pts,
    (@approx F (fieldScalar T) e.2.x p.x && @approx F (fieldScalar T) e.2.y p.y) = true → e.2 = p
  collinear : ∀ e ∈ polygonEdges pts, |crossP e.1 e.2 p| < T.eps → crossP e.1 e.2 p = 0
  nondegenerate : ∀ e ∈ polygonEdges pts, e.1 ≠ e.2

theorem fabs_eq_abs (T : Transc F) (x : F) : @Scalar.fabs F (fieldScalar T) x = |x| := by
  show (if x < ((0 : ℕ) : F) then -x else x) = |x|
  rw [Nat.cast_zero]
  split
  · rename_i h; rw [abs_of_neg h]
  · rename_i h; rw [abs_of_nonneg (not_lt.mp h)]

/-- the loop body over a field, in the vocabulary of the specification -/
theorem edgeStep_field (T : Transc F) (a b p : P2 F) :
    @edgeStep F (fieldScalar T) a b p =
      (if a.y ≤ p.y then
        if (@approx F (fieldScalar T) b.x p.x && @approx F (fieldScalar T) b.y p.y) = true then .hit
        else if p.y ≤ b.y then
          if 0 < crossP a b p ∧ p.y < b.y then .delta 1
          else if |crossP a b p| < T.eps then
            if 0 ≤ dotP a b p then (if dotP a b p ≤ sqlP a b then .hit else .delta 0) else .delta 0
          else .delta 0
        else .delta 0
      else
        if b.y ≤ p.y then
          if crossP a b p < 0 then .delta (-1)
          else if |crossP a b p| < T.eps then
            if 0 ≤ dotP a b p then (if dotP a b p ≤ sqlP a b then .hit else .delta 0) else .delta 0
          else .delta 0
        else .delta 0) := by
  unfold edgeStep
  simp only [fabs_eq_abs]
  have h0 : @OfNat.ofNat F 0 (@Scalar.instOfNat F (fieldScalar T) 0) = (0 : F) := by
    show ((0 : ℕ) : F) = 0
    exact Nat.cast_zero
  simp only [h0, ge_iff_le, gt_iff_lt]
  rfl

theorem onSegment_vertex (a b : P2 F) : OnSegment a b b := by
  refine ⟨by unfold crossP; ring, ?_, ?_⟩
  · unfold dotP; nlinarith [mul_self_nonneg (b.x - a.x), mul_self_nonneg (b.y - a.y)]
  · unfold dotP sqlP; exact le_refl _

/-- a boundary hit reported by the loop is a point of the closed edge -/
theorem hit_onSegment (T : Transc F) (pts : List (P2 F)) (p : P2 F) (hs : Separated T pts p) (e : P2 F × P2 F)
    (he : e ∈ polygonEdges pts) (hh : (@edgeStep F (fieldScalar T) e.1 e.2 p).isHit = true) : OnSegment e.1 e.2 p := by
  obtain ⟨a, b⟩ := e
  rw [edgeStep_field] at hh
  simp only at hh he ⊢
  have hv := hs.vertex (a, b) he
  have hc := hs.collinear (a, b) he
  simp only at hv hc
  split at hh
  · split at hh
    · rename_i h; rw [← hv h]; exact onSegment_vertex a b
    · split at hh
      · split at hh
        · simp [EdgeRes.isHit] at hh
        · split at hh
          · rename_i hcol
            split at hh
            · split at hh
              · exact ⟨hc hcol, by assumption, by assumption⟩
              · simp [EdgeRes.isHit] at hh
            · simp [EdgeRes.isHit] at hh
          · simp [EdgeRes.isHit] at hh
      · simp [EdgeRes.isHit] at hh
  · split at hh
    · split at hh
      · simp [EdgeRes.isHit] at hh
      · split at hh
        · rename_i hcol
          split at hh
          · split at hh
            · exact ⟨hc hcol, by assumption, by assumption⟩
            · simp [EdgeRes.isHit] at hh
          · simp [EdgeRes.isHit] at hh
        · simp [EdgeRes.isHit] at hh
    · simp [EdgeRes.isHit] at hh

/-- an edge that reports no hit contributes exactly its signed crossing -/
theorem delta_eq_crossing (T : Transc F) (pts : List (P2 F)) (p : P2 F) (hs : Separated T pts p) (e : P2 F × P2 F)
    (he : e ∈ polygonEdges pts) (hh : (@edgeStep F (fieldScalar T) e.1 e.2 p).isHit = false) :
    (@edgeStep F (fieldScalar T) e.1 e.2 p).deltaOf = crossing e.1 e.2 p := by
  obtain ⟨a, b⟩ := e
  rw [edgeStep_field] at hh ⊢
  simp only at hh he ⊢
  have hc := hs.collinear (a, b) he
  simp only at hc
  unfold crossing
  by_cases h1 : a.y ≤ p.y
  · simp only [h1, if_true, true_and] at hh ⊢
    have h1' : ¬ p.y < a.y := not_lt.mpr h1
    split
    · rename_i hv
      simp only [Bool.and_eq_true] at hv
      simp [hv, EdgeRes.isHit] at hh
    · by_cases h2 : p.y ≤ b.y
      · simp only [h2, if_true] at hh ⊢
        by_cases h3 : 0 < crossP a b p ∧ p.y < b.y
        · simp [h3, EdgeRes.deltaOf]
        · simp only [h3, if_false] at hh ⊢
          have h3' : ¬ (p.y < b.y ∧ 0 < crossP a b p) := fun h => h3 ⟨h.2, h.1⟩
          simp only [h3', if_false, h1', false_and]
          split <;> (try split) <;> (try split) <;> simp_all [EdgeRes.deltaOf, EdgeRes.isHit]
      · have : ¬ p.y < b.y := fun h => h2 (le_of_lt h)
        simp [h2, this, h1', EdgeRes.deltaOf]
  · have h1' : p.y < a.y := not_le.mp h1
    simp only [h1, if_false, false_and, h1', true_and] at hh ⊢
    by_cases h2 : b.y ≤ p.y
    · simp only [h2, if_true, true_and] at hh ⊢
      by_cases h3 : crossP a b p < 0
      · simp [h3, EdgeRes.deltaOf]
      · simp only [h3, if_false] at hh ⊢
        split <;> (try split) <;> (try split) <;> simp_all [EdgeRes.deltaOf, EdgeRes.isHit]
    · simp [h2, EdgeRes.deltaOf]

theorem sqlP_pos (a b : P2 F) (h : a ≠ b) : 0 < sqlP a b := by
  unfold sqlP
  by_contra hn
  have h1 : (b.x - a.x) * (b.x - a.x) + (b.y - a.y) * (b.y - a.y) = 0 :=
    le_antisymm (not_lt.mp hn) (by nlinarith [mul_self_nonneg (b.x - a.x), mul_self_nonneg (b.y - a.y)])
  have hx : b.x - a.x = 0 := by nlinarith [mul_self_nonneg (b.x - a.x), mul_self_nonneg (b.y - a.y), mul_self_eq_zero.mp (by nlinarith [mul_self_nonneg (b.x - a.x), mul_self_nonneg (b.y - a.y)] : (b.x - a.x) * (b.x - a.x) = 0)]
  have hy : b.y - a.y = 0 := by
    have : (b.y - a.y) * (b.y - a.y) = 0 := by nlinarith [mul_self_nonneg (b.x - a.x), mul_self_nonneg (b.y - a.y)]
    exact mul_self_eq_zero.mp this
  apply h
  cases a; cases b
  simp only [P2.mk.injEq]
  exact ⟨by linarith, by linarith⟩

/-- the edge ending at the query point itself reports a hit -/
theorem hit_of_endpoint (T : Transc F) (heps : 0 < T.eps) (c a : P2 F) :
    (@edgeStep F (fieldScalar T) c a a).isHit = true := by
  rw [edgeStep_field]
  have hcross : crossP c a a = 0 := by unfold crossP; ring
  have hdot : dotP c a a = sqlP c a := by unfold dotP sqlP; ring
  have hsq : 0 ≤ sqlP c a := by unfold sqlP; nlinarith [mul_self_nonneg (a.x - c.x), mul_self_nonneg (a.y - c.y)]
  simp only [hcross, abs_zero, heps, lt_irrefl, false_and, if_false, if_true, hdot, hsq, le_refl]
  split <;> (try split) <;> simp [EdgeRes.isHit]

/-- **every point of every closed edge is reported** (closed polygon, exact tests) -/
theorem onSegment_detected (T : Transc F) (pts : List (P2 F)) (p : P2 F) (hs : Separated T pts p) (e : P2 F × P2 F)
    (he : e ∈ polygonEdges pts) (hon : OnSegment e.1 e.2 p) :
    ∃ e' ∈ polygonEdges pts, (@edgeStep F (fieldScalar T) e'.1 e'.2 p).isHit = true := by
  obtain ⟨a, b⟩ := e
  obtain ⟨hcross, hd0, hd1⟩ := hon
  simp only at hcross hd0 hd1 he
  have hne : a ≠ b := hs.nondegenerate (a, b) he
  have hsql := sqlP_pos a b hne
  have heps := hs.epsPos
  have idy : (p.y - a.y) * sqlP a b = (b.y - a.y) * dotP a b p := by
    unfold sqlP dotP; unfold crossP at hcross; linear_combination (b.x - a.x) * hcross
  have idx : (p.x - a.x) * sqlP a b = (b.x - a.x) * dotP a b p := by
    unfold sqlP dotP; unfold crossP at hcross; linear_combination (-(b.y - a.y)) * hcross
  by_cases h1 : a.y ≤ p.y
  · by_cases h2 : p.y ≤ b.y
    · -- detected on this very edge
      refine ⟨(a, b), he, ?_⟩
      rw [edgeStep_field]
      simp only [h1, h2, if_true, hcross, lt_irrefl, false_and, if_false, abs_zero, heps, hd0, hd1]
      split <;> simp [EdgeRes.isHit]
    · -- b.y < p.y and a.y ≤ p.y: then p = a, detected on the edge that ends at a
      have h2' : b.y < p.y := not_le.mp h2
      have hba : b.y - a.y < 0 := by
        by_contra hnn
        have hnn' : 0 ≤ b.y - a.y := not_lt.mp hnn
        have : (p.y - a.y) * sqlP a b ≤ (b.y - a.y) * sqlP a b := by rw [idy]; exact mul_le_mul_of_nonneg_left hd1 hnn'
        have := le_of_mul_le_mul_right this hsql
        linarith
      have hpy : p.y = a.y := by
        have h3 : (p.y - a.y) * sqlP a b ≤ 0 := by rw [idy]; exact mul_nonpos_of_nonpos_of_nonneg (le_of_lt hba) hd0
        have h4 : p.y - a.y ≤ 0 := by
          by_contra hh
          have := mul_pos (not_le.mp hh) hsql
          linarith
        linarith
      have hdot0 : dotP a b p = 0 := by
        have : (b.y - a.y) * dotP a b p = 0 := by rw [← idy, hpy]; ring
        rcases mul_eq_zero.mp this with h | h
        · linarith
        · exact h
      have hpx : p.x = a.x := by
        have : (p.x - a.x) * sqlP a b = 0 := by rw [idx, hdot0]; ring
        rcases mul_eq_zero.mp this with h | h
        · linarith
        · linarith
      have hpa : p = a := by cases p; cases a; simp only [P2.mk.injEq]; exact ⟨hpx, hpy⟩
      obtain ⟨e', he', hend⟩ := @polygonEdges_cyclic F (fieldScalar T) pts (a, b) he
      refine ⟨e', he', ?_⟩
      obtain ⟨c, a'⟩ := e'
      simp only at hend
      subst hend
      rw [hpa]
      exact hit_of_endpoint T heps c a'
  · have h1' : p.y < a.y := not_le.mp h1
    by_cases h2 : b.y ≤ p.y
    · refine ⟨(a, b), he, ?_⟩
      rw [edgeStep_field]
      simp only [h1, h2, if_true, if_false, hcross, lt_irrefl, abs_zero, heps, hd0, hd1]
      simp [EdgeRes.isHit]
    · -- both end points strictly above p: impossible for a point of the segment
      exfalso
      have h2' : p.y < b.y := not_le.mp h2
      have hneg : (p.y - a.y) * sqlP a b < 0 := mul_neg_of_neg_of_pos (by linarith) hsql
      by_cases hba : 0 ≤ b.y - a.y
      · have : 0 ≤ (b.y - a.y) * dotP a b p := mul_nonneg hba hd0
        linarith
      · have hba' : b.y - a.y < 0 := not_le.mp hba
        have : (b.y - a.y) * sqlP a b ≤ (b.y - a.y) * dotP a b p := mul_le_mul_of_nonpos_left hd1 (le_of_lt hba')
        have h5 : (b.y - a.y) * sqlP a b ≤ (p.y - a.y) * sqlP a b := by rw [idy]; exact this
        have := le_of_mul_le_mul_right h5 hsql
        linarith

/-- **the transliterated loop decides `InPolygon`** when its tolerances do not fire spuriously -/
theorem polygonContainsImpl_iff (T : Transc F) (pts : List (P2 F)) (p : P2 F) (hs : Separated T pts p) :
    @polygonContainsImpl F (fieldScalar T) pts p = true ↔ InPolygon pts p := by
  rw [@polygonContainsImpl_eq F (fieldScalar T)]
  unfold InPolygon
  by_cases hany : (polygonEdges pts).any (fun e => (@edgeStep F (fieldScalar T) e.1 e.2 p).isHit) = true
  · simp only [hany, Bool.true_or, true_iff]
    left
    obtain ⟨e, he, hh⟩ := List.any_eq_true.mp hany
    exact ⟨e, he, hit_onSegment T pts p hs e he hh⟩
  · have hnone : ∀ e ∈ polygonEdges pts, (@edgeStep F (fieldScalar T) e.1 e.2 p).isHit = false := by
      intro e he
      by_contra hc
      exact hany (List.any_eq_true.mpr ⟨e, he, by simpa using hc⟩)
    have hsum : ((polygonEdges pts).map (fun e => (@edgeStep F (fieldScalar T) e.1 e.2 p).deltaOf))
              = ((polygonEdges pts).map (fun e => crossing e.1 e.2 p)) :=
      List.map_congr_left (fun e he => delta_eq_crossing T pts p hs e he (hnone e he))
    have hany' : (polygonEdges pts).any (fun e => (@edgeStep F (fieldScalar T) e.1 e.2 p).isHit) = false := by simpa using hany
    rw [hany', hsum]
    simp only [Bool.false_or, decide_eq_true_eq]
    constructor
    · intro h; exact Or.inr h
    · rintro (⟨e, he, hon⟩ | h)
      · obtain ⟨e', he', hh⟩ := onSegment_detected T pts p hs e he hon
        rw [hnone e' he'] at hh; exact absurd hh (by simp)
      · exact h

end Gwb
