/-
Helpers for C06 (the walk along straight pieces): which piece the "closest so far" test of the segment loop keeps.

Part 1: `selFirstMin acc key n` — among the indices `k < n` with `acc k` the one with the smallest `key k`, the FIRST one on ties
(`none` when no index is accepted), with its characterisation.
Part 2: shape lemmas of the phases of `segmentStep` (which members of the state a phase can change).
Part 3 (ordered field, `PlaneLaws`): one iteration on a straight piece, in plane-geometry vocabulary, including the
"closest so far" update.
Part 4: the induction over the loop: the state after `k` straight pieces is the one described by `selFirstMin`.
Part 5: geometry of a joint between two straight pieces (same dip: continuity; different dips: the region no piece accepts and
the region both accept).
-/
import GwbVerif.Proofs.LineGeometry
namespace Gwb
open Scalar
set_option linter.unusedSectionVars false
set_option linter.unusedVariables false
set_option linter.unusedSimpArgs false

/-! ## Part 1: first index of minimal key among the accepted ones -/
section sel
variable {F : Type} [LinearOrder F]

/-- among the indices `k < n` with `acc k`, the one with the smallest `key k`; on ties the smallest index; `none` if there is none.
Written as the left-to-right scan the code performs: a later index replaces the current one only when its key is STRICTLY smaller -/
def selFirstMin (acc : Nat → Prop) [DecidablePred acc] (key : Nat → F) : Nat → Option Nat
  | 0 => none
  | n + 1 =>
    match selFirstMin acc key n with
    | none => if acc n then some n else none
    | some k => if acc n ∧ key n < key k then some n else some k

/-- `k` is the lexicographic minimum of `(key, index)` among the accepted indices below `n` -/
def IsFirstMin (acc : Nat → Prop) (key : Nat → F) (n k : Nat) : Prop :=
  k < n ∧ acc k ∧ ∀ j, j < n → acc j → key k < key j ∨ (key k = key j ∧ k ≤ j)

theorem selFirstMin_none (acc : Nat → Prop) [DecidablePred acc] (key : Nat → F) (n : Nat) :
    selFirstMin acc key n = none ↔ ∀ j, j < n → ¬ acc j := by
  induction n with
  | zero => simp [selFirstMin]
  | succ n ih =>
    unfold selFirstMin
    cases h : selFirstMin acc key n with
    | none =>
      have h0 := ih.1 h
      by_cases ha : acc n
      · simp only [ha, if_true]
        constructor
        · intro hh; cases hh
        · intro hh; exact absurd ha (hh n (Nat.lt_succ_self n))
      · simp only [ha, if_false, true_iff]
        intro j hj
        rcases Nat.lt_succ_iff_lt_or_eq.mp hj with hj | rfl
        · exact h0 j hj
        · exact ha
    | some k =>
      have hne : ¬ ∀ j, j < n → ¬ acc j := fun hh => by rw [ih.2 hh] at h; cases h
      dsimp only
      constructor
      · intro hh; split at hh <;> cases hh
      · intro hh; exact absurd (fun j hj => hh j (Nat.lt_succ_of_lt hj)) hne

theorem selFirstMin_some (acc : Nat → Prop) [DecidablePred acc] (key : Nat → F) (n k : Nat)
    (h : selFirstMin acc key n = some k) : IsFirstMin acc key n k := by
  induction n generalizing k with
  | zero => simp [selFirstMin] at h
  | succ n ih =>
    unfold selFirstMin at h
    cases h' : selFirstMin acc key n with
    | none =>
      rw [h'] at h
      dsimp only at h
      have h0 := (selFirstMin_none acc key n).1 h'
      by_cases ha : acc n
      · rw [if_pos ha] at h
        cases h
        refine ⟨Nat.lt_succ_self _, ha, fun j hj haj => ?_⟩
        rcases Nat.lt_succ_iff_lt_or_eq.mp hj with hj | rfl
        · exact absurd haj (h0 j hj)
        · exact Or.inr ⟨rfl, le_rfl⟩
      · rw [if_neg ha] at h; cases h
    | some k0 =>
      rw [h'] at h
      dsimp only at h
      obtain ⟨hk0, hak0, hmin⟩ := ih k0 h'
      by_cases hc : acc n ∧ key n < key k0
      · rw [if_pos hc] at h
        cases h
        refine ⟨Nat.lt_succ_self _, hc.1, fun j hj haj => ?_⟩
        rcases Nat.lt_succ_iff_lt_or_eq.mp hj with hj | rfl
        · rcases hmin j hj haj with h1 | ⟨h1, _⟩
          · exact Or.inl (lt_trans hc.2 h1)
          · exact Or.inl (h1 ▸ hc.2)
        · exact Or.inr ⟨rfl, le_rfl⟩
      · rw [if_neg hc] at h
        cases h
        refine ⟨Nat.lt_succ_of_lt hk0, hak0, fun j hj haj => ?_⟩
        rcases Nat.lt_succ_iff_lt_or_eq.mp hj with hj | rfl
        · exact hmin j hj haj
        · have : ¬ key j < key k := fun hlt => hc ⟨haj, hlt⟩
          rcases lt_or_eq_of_le (not_lt.mp this) with h1 | h1
          · exact Or.inl h1
          · exact Or.inr ⟨h1, Nat.le_of_lt hk0⟩

/-- the lexicographic minimum is unique -/
theorem IsFirstMin.unique {acc : Nat → Prop} {key : Nat → F} {n k k' : Nat} (h : IsFirstMin acc key n k) (h' : IsFirstMin acc key n k') :
    k = k' := by
  rcases h.2.2 k' h'.1 h'.2.1 with h1 | ⟨h1, h2⟩
  · rcases h'.2.2 k h.1 h.2.1 with h3 | ⟨h3, _⟩
    · exact absurd h1 (not_lt.mpr h3.le)
    · exact absurd h1 (not_lt.mpr h3.le)
  · rcases h'.2.2 k h.1 h.2.1 with h3 | ⟨_, h4⟩
    · exact absurd h3 (not_lt.mpr h1.le)
    · exact Nat.le_antisymm h2 h4

/-- `selFirstMin` is exactly the lexicographic minimum -/
theorem selFirstMin_eq_some_iff (acc : Nat → Prop) [DecidablePred acc] (key : Nat → F) (n k : Nat) :
    selFirstMin acc key n = some k ↔ IsFirstMin acc key n k := by
  refine ⟨selFirstMin_some acc key n k, fun h => ?_⟩
  cases h' : selFirstMin acc key n with
  | none => exact absurd h.2.1 ((selFirstMin_none acc key n).1 h' k h.1)
  | some k' => rw [(selFirstMin_some acc key n k' h').unique h]

end sel

/-! ## Part 2: which members of the state a phase can change -/
section shape
variable {R : Type} [Scalar R]

theorem segPre_shape (dm : DepthMethod) (i : Nat) (s : SegState R) :
    ∃ c a, segPre dm i s = { s with addAngleCorrection := c, addAngle := a, beginSeg := s.endSeg } := by
  unfold segPre
  dsimp only
  split
  · exact ⟨_, _, rfl⟩
  · exact ⟨_, _, rfl⟩

theorem segGeom_shape (startRadius : R) (check2d : P2 R) (angTop angBot len : R) (s : SegState R) :
    ∃ e nd na ndr, segGeom startRadius check2d angTop angBot len s = { s with endSeg := e, newDistance := nd, newAlong := na, newDepthRef := ndr } := by
  unfold segGeom
  split
  · split
    · unfold segStraight
      dsimp only
      split
      · exact ⟨_, _, _, _, rfl⟩
      · exact ⟨_, _, _, _, rfl⟩
    · exact ⟨_, _, _, _, rfl⟩
  · unfold segArc
    dsimp only
    split
    · exact ⟨_, _, _, _, rfl⟩
    · exact ⟨_, _, _, _, rfl⟩

/-- with the depth method `none` (Cartesian systems) the start of a step only moves the begin point -/
theorem segPre_none (i : Nat) (s : SegState R) : segPre .none i s = { s with beginSeg := s.endSeg } := by
  unfold segPre
  have h : ¬ ((i != 0) = true ∧ ((DepthMethod.none == DepthMethod.beginSegment) = true ∨ (DepthMethod.none == DepthMethod.beginAtEndSegment) = true)) := by
    rintro ⟨_, h | h⟩ <;> exact absurd h (by decide)
  simp only [h, if_false]

end shape

section frame
variable {R : Type} [Scalar R]

/-- a step that is not skipped: `segFinish ∘ segClosest ∘ segGeom ∘ segPre`, and what `segGeom ∘ segPre` leaves untouched -/
theorem segmentStep_frame (dm : DepthMethod) (onlyPositive : Bool) (startRadius fraction : R) (check2d : P2 R)
    (angCur angNext : P2 R) (lenCur lenNext : R) (i : Nat) (s : SegState R)
    (hlen : ¬ lerpC lenCur lenNext fraction < (1e-14 : R)) :
    let s1 := segPre dm i s
    let θ := segAngTop dm fraction angCur angNext i s1
    let β := segAngBot fraction angCur angNext s1
    let g := segGeom startRadius check2d θ β (lerpC lenCur lenNext fraction) s1
    segmentStep dm onlyPositive startRadius fraction check2d angCur angNext lenCur lenNext i s =
      segFinish θ β (lerpC lenCur lenNext fraction) (segClosest onlyPositive i θ β (lerpC lenCur lenNext fraction) g) ∧
    g.distance = s.distance ∧ g.along = s.along ∧ g.segment = s.segment ∧ g.segmentFraction = s.segmentFraction ∧
    g.depthRef = s.depthRef ∧ g.found = s.found ∧ g.totalLength = s.totalLength ∧ g.totalAverageAngle = s.totalAverageAngle ∧
    g.averageAngle = s.averageAngle := by
  intro s1 θ β g
  refine ⟨?_, ?_⟩
  · rw [segmentStep_eq]
    dsimp only
    rw [if_neg hlen]
  · obtain ⟨c, a, hs1⟩ := segPre_shape dm i s
    obtain ⟨e, nd, na, ndr, hg⟩ := segGeom_shape startRadius check2d θ β (lerpC lenCur lenNext fraction) s1
    have hs1' : s1 = { s with addAngleCorrection := c, addAngle := a, beginSeg := s.endSeg } := hs1
    have hg' : g = { s1 with endSeg := e, newDistance := nd, newAlong := na, newDepthRef := ndr } := hg
    rw [hg', hs1']
    exact ⟨rfl, rfl, rfl, rfl, rfl, rfl, rfl, rfl, rfl⟩

end frame

/-! ## Part 3: one iteration on a straight piece -/
section stepField
variable {F : Type} [Field F] [LinearOrder F] [IsStrictOrderedRing F] (T : Transc F)

theorem lit_1em10 : @OfScientific.ofScientific F (@Scalar.instOfScientific F (fieldScalar T)) 1 true 10 = (1 : F) / 10 ^ 10 := by
  rw [lit_sci]; norm_num

/-- the "closest so far" block ran -/
theorem segClosest_accept (op : Bool) (i : Nat) (θ β len : F) (g : SegState F)
    (h : -(1 / 10 ^ 10) ≤ g.newAlong ∧ g.newAlong ≤ |len| ∧ |g.newDistance| < |g.distance|) :
    ∃ taa, @segClosest F (fieldScalar T) op i θ β len g =
      { g with distance := if op then |g.newDistance| else g.newDistance, along := g.newAlong + g.totalLength, segment := i,
               segmentFraction := g.newAlong / len, totalAverageAngle := taa, depthRef := g.newDepthRef, found := true } := by
  unfold segClosest
  split
  · refine ⟨?w, ?h⟩
    case h =>
      rw [fabs_eq_abs]
  · rename_i hn
    exfalso; apply hn
    simp only [fabs_eq_abs, lit_1em10]
    exact h

/-- the "closest so far" block did not run -/
theorem segClosest_reject (op : Bool) (i : Nat) (θ β len : F) (g : SegState F)
    (h : ¬ (-(1 / 10 ^ 10) ≤ g.newAlong ∧ g.newAlong ≤ |len| ∧ |g.newDistance| < |g.distance|)) :
    @segClosest F (fieldScalar T) op i θ β len g = g := by
  unfold segClosest
  split
  · rename_i hn
    exfalso; apply h
    simp only [fabs_eq_abs, lit_1em10] at hn
    exact hn
  · rfl

end stepField

/-- the members of the loop state that make up the answer of the "closest so far" bookkeeping -/
structure WalkOut (F : Type) where
  distance : F
  along : F
  fraction : F
  depthRef : F
  segment : Nat
  found : Bool

def SegState.out {F : Type} (s : SegState F) : WalkOut F := ⟨s.distance, s.along, s.segmentFraction, s.depthRef, s.segment, s.found⟩

section stepField2
variable {F : Type} [Field F] [LinearOrder F] [IsStrictOrderedRing F] (T : Transc F)

/-- one iteration on a straight piece (`θ` dip at the top, `len` interpolated length, `b` the end of the previous piece, `q` the check
point; `a = ⟨q − b, t⟩`, `d = ⟨q − b, n⟩`): the piece ends at `b + len•t`, the running length grows by `len`, and the answer is
replaced by this piece's exactly when the foot is on the piece (`0 ≤ a ≤ len`) and `|d|` is STRICTLY below the running `|distance|`.
`|distance| ≤ |∞|` is the loop invariant that makes the `+∞` written by a rejecting piece lose the comparison. -/
theorem segmentStep_straight_sel (L : PlaneLaws T) (dm : DepthMethod) (op : Bool) (sr fr : F) (q : P2 F)
    (angCur angNext : P2 F) (lenCur lenNext : F) (i : Nat) (s : SegState F) :
    let s1 := @segPre F (fieldScalar T) dm i s
    let θ := @segAngTop F (fieldScalar T) dm fr angCur angNext i s1
    let β := @segAngBot F (fieldScalar T) fr angCur angNext s1
    let len := lenCur + fr * (lenNext - lenCur)
    let b := s.endSeg
    let a := alongDip T b q θ
    let d := belowDip T b q θ
    let r := @segmentStep F (fieldScalar T) dm op sr fr q angCur angNext lenCur lenNext i s
    |θ - β| < 1 / 10 ^ 8 → T.eps < |len| → 1 / 10 ^ 14 ≤ len → |s.distance| ≤ |T.inf| →
      r.endSeg = ⟨b.x + len * T.cos θ, b.y - len * T.sin θ⟩ ∧ r.totalLength = s.totalLength + len ∧
      r.out = (if 0 ≤ a ∧ a ≤ len ∧ |d| < |s.distance| then
                ⟨if op then |d| else d, a + s.totalLength, a / len, sr - (b.y - a * T.sin θ), i, true⟩
              else s.out) := by
  intro s1 θ β len b a d r hstraight heps hlen hinv
  have hpos : 0 < len := lt_of_lt_of_le (by positivity) hlen
  have hnot : ¬ @LT.lt F (fieldScalar T).toLT (@lerpC F (fieldScalar T) lenCur lenNext fr)
      (@OfScientific.ofScientific F (@Scalar.instOfScientific F (fieldScalar T)) 1 true 14) := by
    rw [lit_1em14]; exact not_lt.mpr hlen
  obtain ⟨hr, fd, fa, fs, ff, fdr, ffo, ftl, _, _⟩ :=
    @segmentStep_frame F (fieldScalar T) dm op sr fr q angCur angNext lenCur lenNext i s hnot
  have hb : s1.beginSeg = s1.endSeg := by
    show (@segPre F (fieldScalar T) dm i s).beginSeg = (@segPre F (fieldScalar T) dm i s).endSeg
    rw [@segPre_beginSeg F (fieldScalar T), @segPre_endSeg F (fieldScalar T)]
  have he : s1.endSeg = b := @segPre_endSeg F (fieldScalar T) dm i s
  obtain ⟨k1, k2, k3, k4⟩ := segGeom_straight T L sr q θ β len s1 hb hstraight heps hpos
  rw [he] at k1 k2 k3 k4
  -- name the state after the geometry
  generalize hgdef : @segGeom F (fieldScalar T) sr q θ β len s1 = g at k1 k2 k3 k4
  have hr' : r = @segFinish F (fieldScalar T) θ β len (@segClosest F (fieldScalar T) op i θ β len g) := by
    rw [← hgdef]; exact hr
  have fd' : g.distance = s.distance := by rw [← hgdef]; exact fd
  have fa' : g.along = s.along := by rw [← hgdef]; exact fa
  have fs' : g.segment = s.segment := by rw [← hgdef]; exact fs
  have ff' : g.segmentFraction = s.segmentFraction := by rw [← hgdef]; exact ff
  have fdr' : g.depthRef = s.depthRef := by rw [← hgdef]; exact fdr
  have ffo' : g.found = s.found := by rw [← hgdef]; exact ffo
  have ftl' : g.totalLength = s.totalLength := by rw [← hgdef]; exact ftl
  refine ⟨?_, ?_, ?_⟩
  · rw [hr']
    show (@segClosest F (fieldScalar T) op i θ β len g).endSeg = _
    rw [@segClosest_endSeg F (fieldScalar T), k2]
  · have := @segmentStep_totalLength F (fieldScalar T) dm op sr fr q angCur angNext lenCur lenNext i s
    rw [if_neg hnot] at this
    exact this
  · by_cases hin : 0 ≤ a ∧ a ≤ len ∧ |d| < |s.distance|
    · rw [if_pos hin]
      obtain ⟨a1, a2, a3⟩ := k3 ⟨hin.1, hin.2.1⟩
      have hc : -(1 / 10 ^ 10) ≤ g.newAlong ∧ g.newAlong ≤ |len| ∧ |g.newDistance| < |g.distance| := by
        rw [a1, a2, fd', abs_of_pos hpos]
        refine ⟨le_trans ?_ hin.1, hin.2.1, hin.2.2⟩
        rw [neg_nonpos]; positivity
      obtain ⟨taa, hcl⟩ := segClosest_accept T op i θ β len g hc
      rw [hr', hcl]
      show (⟨if op then |g.newDistance| else g.newDistance, g.newAlong + g.totalLength, g.newAlong / len, g.newDepthRef, i, true⟩ : WalkOut F) = _
      rw [a1, a2, a3, ftl']
    · rw [if_neg hin]
      have hc : ¬ (-(1 / 10 ^ 10) ≤ g.newAlong ∧ g.newAlong ≤ |len| ∧ |g.newDistance| < |g.distance|) := by
        rintro ⟨_, _, h3⟩
        rw [fd'] at h3
        by_cases hacc : 0 ≤ a ∧ a ≤ len
        · obtain ⟨_, a2, _⟩ := k3 hacc
          rw [a2] at h3
          exact hin ⟨hacc.1, hacc.2, h3⟩
        · obtain ⟨_, a2, _⟩ := k4 hacc
          rw [a2] at h3
          exact absurd h3 (not_lt.mpr hinv)
      rw [hr', segClosest_reject T op i θ β len g hc]
      show (⟨g.distance, g.along, g.segmentFraction, g.depthRef, g.segment, g.found⟩ : WalkOut F) = _
      rw [fd', fa', fs', ff', fdr', ffo']
      rfl

end stepField2

/-! ## Part 4: the induction over the loop -/
section walkSpec
variable {F : Type} [Field F] [LinearOrder F] [IsStrictOrderedRing F] (T : Transc F)

/-- vertex `k` of the polyline: `b_0`, then `b_{k+1} = b_k + len_k • t_k`, `t_k = (cos θ_k, −sin θ_k)` -/
def walkVertex (b0 : P2 F) (len θ : Nat → F) : Nat → P2 F
  | 0 => b0
  | k + 1 => ⟨(walkVertex b0 len θ k).x + len k * T.cos (θ k), (walkVertex b0 len θ k).y - len k * T.sin (θ k)⟩
/-- `Σ_{j<k} len_j` -/
def walkCum (len : Nat → F) : Nat → F
  | 0 => 0
  | k + 1 => walkCum len k + len k
/-- `⟨q − b_k, t_k⟩`: coordinate of the foot of `q` along piece `k` -/
def walkA (b0 : P2 F) (len θ : Nat → F) (q : P2 F) (k : Nat) : F := alongDip T (walkVertex T b0 len θ k) q (θ k)
/-- `⟨q − b_k, n_k⟩`: signed distance of `q` from the line of piece `k`, positive below -/
def walkD (b0 : P2 F) (len θ : Nat → F) (q : P2 F) (k : Nat) : F := belowDip T (walkVertex T b0 len θ k) q (θ k)
/-- piece `k` accepts `q`: the foot lies on the piece (both ends included); the last clause says `|distance| < |∞|`, true of every
number when `∞` is infinite (an artefact of `∞` being an element of the field here) -/
def walkAcc (b0 : P2 F) (len θ : Nat → F) (q : P2 F) (k : Nat) : Prop :=
  0 ≤ walkA T b0 len θ q k ∧ walkA T b0 len θ q k ≤ len k ∧ |walkD T b0 len θ q k| < |T.inf|
instance (b0 : P2 F) (len θ : Nat → F) (q : P2 F) : DecidablePred (walkAcc T b0 len θ q) := fun k => by unfold walkAcc; infer_instance
/-- what the comparison orders by: `|⟨q − b_k, n_k⟩|` -/
def walkKey (b0 : P2 F) (len θ : Nat → F) (q : P2 F) (k : Nat) : F := |walkD T b0 len θ q k|

/-- the piece kept after `n` pieces: the accepting piece of smallest `|distance|`, the first one on ties -/
def walkSel (b0 : P2 F) (len θ : Nat → F) (q : P2 F) (n : Nat) : Option Nat :=
  selFirstMin (walkAcc T b0 len θ q) (walkKey T b0 len θ q) n

/-- the answer for a selected piece (`t0` the running length the walk started with: 0 in the code; `o0` the initial answer) -/
def walkOutOf (op : Bool) (sr : F) (b0 : P2 F) (len θ : Nat → F) (q : P2 F) (t0 : F) (o0 : WalkOut F) : Option Nat → WalkOut F
  | none => o0
  | some k => ⟨if op then |walkD T b0 len θ q k| else walkD T b0 len θ q k,
               walkA T b0 len θ q k + (t0 + walkCum len k),
               walkA T b0 len θ q k / len k,
               sr - ((walkVertex T b0 len θ k).y - walkA T b0 len θ q k * T.sin (θ k)), k, true⟩

/-- **specification of the walk**: the answer after `n` straight pieces -/
def walkSpec (op : Bool) (sr : F) (b0 : P2 F) (len θ : Nat → F) (q : P2 F) (t0 : F) (o0 : WalkOut F) (n : Nat) : WalkOut F :=
  walkOutOf T op sr b0 len θ q t0 o0 (walkSel T b0 len θ q n)

/-- what `segmentStep_straight_sel` says of a pair of consecutive states -/
def StraightStep (op : Bool) (sr : F) (q : P2 F) (θ len : F) (i : Nat) (s r : SegState F) : Prop :=
  r.endSeg = ⟨s.endSeg.x + len * T.cos θ, s.endSeg.y - len * T.sin θ⟩ ∧ r.totalLength = s.totalLength + len ∧
  r.out = (if 0 ≤ alongDip T s.endSeg q θ ∧ alongDip T s.endSeg q θ ≤ len ∧ |belowDip T s.endSeg q θ| < |s.distance| then
            ⟨if op then |belowDip T s.endSeg q θ| else belowDip T s.endSeg q θ, alongDip T s.endSeg q θ + s.totalLength,
             alongDip T s.endSeg q θ / len, sr - (s.endSeg.y - alongDip T s.endSeg q θ * T.sin θ), i, true⟩
          else s.out)

theorem abs_ite_abs (op : Bool) (d : F) : |if op then |d| else d| = |d| := by
  cases op
  · rfl
  · simp

/-- the loop invariant: a chain of states linked by `StraightStep` carries the answer `walkSpec` -/
theorem straight_chain (op : Bool) (sr : F) (q : P2 F) (len θ : Nat → F) (st : Nat → SegState F) (n : Nat)
    (h0 : (st 0).distance = T.inf)
    (hstep : ∀ k, k < n → |(st k).distance| ≤ |T.inf| → StraightStep T op sr q (θ k) (len k) k (st k) (st (k + 1))) :
    ∀ k, k ≤ n →
      (st k).endSeg = walkVertex T (st 0).endSeg len θ k ∧ (st k).totalLength = (st 0).totalLength + walkCum len k ∧
      (st k).out = walkSpec T op sr (st 0).endSeg len θ q (st 0).totalLength (st 0).out k ∧
      |(st k).distance| ≤ |T.inf| ∧
      (∀ j, walkSel T (st 0).endSeg len θ q k = some j → |(st k).distance| = walkKey T (st 0).endSeg len θ q j) ∧
      (walkSel T (st 0).endSeg len θ q k = none → (st k).distance = T.inf) := by
  intro k hk
  induction k with
  | zero =>
    refine ⟨rfl, by simp [walkCum], rfl, by rw [h0], ?_, fun _ => h0⟩
    intro j hj
    simp [walkSel, selFirstMin] at hj
  | succ k ih =>
    obtain ⟨i1, i2, i3, i4, i5, i6⟩ := ih (Nat.le_of_succ_le hk)
    obtain ⟨e1, e2, e3⟩ := hstep k (Nat.lt_of_succ_le hk) i4
    rw [i1] at e1 e3
    rw [i2] at e2 e3
    have hA : alongDip T (walkVertex T (st 0).endSeg len θ k) q (θ k) = walkA T (st 0).endSeg len θ q k := rfl
    have hD : belowDip T (walkVertex T (st 0).endSeg len θ k) q (θ k) = walkD T (st 0).endSeg len θ q k := rfl
    rw [hA, hD] at e3
    have hsel : walkSel T (st 0).endSeg len θ q (k + 1) =
        (match walkSel T (st 0).endSeg len θ q k with
         | none => if walkAcc T (st 0).endSeg len θ q k then some k else none
         | some j => if walkAcc T (st 0).endSeg len θ q k ∧ walkKey T (st 0).endSeg len θ q k < walkKey T (st 0).endSeg len θ q j
                     then some k else some j) := rfl
    have hdist : (st (k + 1)).distance = (st (k + 1)).out.distance := rfl
    refine ⟨e1, ?_, ?_, ?_, ?_, ?_⟩
    · rw [e2]; show _ = _ + (walkCum len k + len k); ring
    all_goals
      cases hw : walkSel T (st 0).endSeg len θ q k with
      | none =>
        have hd := i6 hw
        rw [hw] at hsel
        dsimp only at hsel
        have hcond : (0 ≤ walkA T (st 0).endSeg len θ q k ∧ walkA T (st 0).endSeg len θ q k ≤ len k ∧
            |walkD T (st 0).endSeg len θ q k| < |(st k).distance|) ↔ walkAcc T (st 0).endSeg len θ q k := by
          rw [hd]; rfl
        by_cases hacc : walkAcc T (st 0).endSeg len θ q k
        · rw [if_pos hacc] at hsel
          rw [if_pos (hcond.2 hacc)] at e3
          first
          | (unfold walkSpec; rw [hsel, e3]; rfl)
          | (rw [hdist, e3]; show |if op then _ else _| ≤ _; rw [abs_ite_abs]; exact hacc.2.2.le)
          | (intro j hj; rw [hsel] at hj; cases hj; rw [hdist, e3]; show |if op then _ else _| = _; rw [abs_ite_abs]; rfl)
          | (intro hn; rw [hsel] at hn; cases hn)
        · rw [if_neg hacc] at hsel
          rw [if_neg (fun h => hacc (hcond.1 h))] at e3
          first
          | (unfold walkSpec; rw [hsel, e3, i3]; unfold walkSpec; rw [hw])
          | (rw [hdist, e3]; exact i4)
          | (intro j hj; rw [hsel] at hj; cases hj)
          | (intro _; rw [hdist, e3]; exact hd)
      | some j0 =>
        have hd := i5 j0 hw
        rw [hw] at hsel
        dsimp only at hsel
        have hj0 : walkAcc T (st 0).endSeg len θ q j0 := (selFirstMin_some _ _ _ _ hw).2.1
        have hcond : (0 ≤ walkA T (st 0).endSeg len θ q k ∧ walkA T (st 0).endSeg len θ q k ≤ len k ∧
            |walkD T (st 0).endSeg len θ q k| < |(st k).distance|) ↔
            (walkAcc T (st 0).endSeg len θ q k ∧ walkKey T (st 0).endSeg len θ q k < walkKey T (st 0).endSeg len θ q j0) := by
          rw [hd]
          constructor
          · rintro ⟨a1, a2, a3⟩
            exact ⟨⟨a1, a2, lt_trans a3 hj0.2.2⟩, a3⟩
          · rintro ⟨⟨a1, a2, _⟩, a3⟩
            exact ⟨a1, a2, a3⟩
        by_cases hacc : walkAcc T (st 0).endSeg len θ q k ∧ walkKey T (st 0).endSeg len θ q k < walkKey T (st 0).endSeg len θ q j0
        · rw [if_pos hacc] at hsel
          rw [if_pos (hcond.2 hacc)] at e3
          first
          | (unfold walkSpec; rw [hsel, e3]; rfl)
          | (rw [hdist, e3]; show |if op then _ else _| ≤ _; rw [abs_ite_abs]; exact hacc.1.2.2.le)
          | (intro j hj; rw [hsel] at hj; cases hj; rw [hdist, e3]; show |if op then _ else _| = _; rw [abs_ite_abs]; rfl)
          | (intro hn; rw [hsel] at hn; cases hn)
        · rw [if_neg hacc] at hsel
          rw [if_neg (fun h => hacc (hcond.1 h))] at e3
          first
          | (unfold walkSpec; rw [hsel, e3, i3]; unfold walkSpec; rw [hw])
          | (rw [hdist, e3]; exact i4)
          | (intro j hj; rw [hsel] at hj; cases hj; rw [hdist, e3]; exact hd)
          | (intro hn; rw [hsel] at hn; cases hn)

end walkSpec

section tables
variable {R : Type} [Scalar R]

/-- dip at the top of piece `k` as the loop computes it from the tables and the incoming state -/
def tabAngTop (dm : DepthMethod) (fraction : R) (angsCur angsNext : List (P2 R)) (k : Nat) (s : SegState R) : R :=
  segAngTop dm fraction (angsCur[k]?.getD default) (angsNext[k]?.getD default) k (segPre dm k s)
/-- dip at the bottom of piece `k` -/
def tabAngBot (dm : DepthMethod) (fraction : R) (angsCur angsNext : List (P2 R)) (k : Nat) (s : SegState R) : R :=
  segAngBot fraction (angsCur[k]?.getD default) (angsNext[k]?.getD default) (segPre dm k s)
/-- interpolated length of piece `k` -/
def tabLen (fraction : R) (lensCur lensNext : List R) (k : Nat) : R :=
  lerpC (lensCur[k]?.getD default) (lensNext[k]?.getD default) fraction

theorem segClosest_addAngle (onlyPositive : Bool) (i : Nat) (angTop angBot len : R) (s : SegState R) :
    (segClosest onlyPositive i angTop angBot len s).addAngle = s.addAngle := by
  unfold segClosest; split <;> rfl

/-- with the depth method `none` no angle is ever added -/
theorem segmentStep_addAngle_none (onlyPositive : Bool) (startRadius fraction : R) (check2d : P2 R)
    (angCur angNext : P2 R) (lenCur lenNext : R) (i : Nat) (s : SegState R) :
    (segmentStep .none onlyPositive startRadius fraction check2d angCur angNext lenCur lenNext i s).addAngle = s.addAngle := by
  rw [segmentStep_eq]
  dsimp only
  split
  · rw [segPre_none]
  · show (segClosest _ _ _ _ _ _).addAngle = _
    rw [segClosest_addAngle]
    obtain ⟨e, nd, na, ndr, hg⟩ := segGeom_shape startRadius check2d (segAngTop .none fraction angCur angNext i (segPre .none i s))
      (segAngBot fraction angCur angNext (segPre .none i s)) (lerpC lenCur lenNext fraction) (segPre .none i s)
    rw [hg, segPre_none]

theorem segStates_addAngle_none (onlyPositive : Bool) (startRadius fraction : R) (check2d : P2 R)
    (angsCur angsNext : List (P2 R)) (lensCur lensNext : List R) (s0 : SegState R) (k : Nat) :
    (segStates .none onlyPositive startRadius fraction check2d angsCur angsNext lensCur lensNext s0 k).addAngle = s0.addAngle := by
  induction k with
  | zero => rfl
  | succ k ih =>
    show (segmentStep _ _ _ _ _ _ _ _ _ _ _).addAngle = _
    rw [segmentStep_addAngle_none, ih]

end tables

section walkLoop
variable {F : Type} [Field F] [LinearOrder F] [IsStrictOrderedRing F] (T : Transc F)

/-- piece `k` of the loop is straight with dip `θ` and length `len` (the hypotheses of `C06_line_piece`) -/
def StraightPiece (dm : DepthMethod) (fr : F) (angsCur angsNext : List (P2 F)) (lensCur lensNext : List F) (k : Nat) (s : SegState F)
    (θ len : F) : Prop :=
  @tabAngTop F (fieldScalar T) dm fr angsCur angsNext k s = θ ∧
  |θ - @tabAngBot F (fieldScalar T) dm fr angsCur angsNext k s| < 1 / 10 ^ 8 ∧
  @tabLen F (fieldScalar T) fr lensCur lensNext k = len ∧ T.eps < |len| ∧ 1 / 10 ^ 14 ≤ len

/-- the states of the segment loop over straight pieces carry `walkSpec` -/
theorem segStates_straight_walk (L : PlaneLaws T) (dm : DepthMethod) (op : Bool) (sr fr : F) (q : P2 F)
    (angsCur angsNext : List (P2 F)) (lensCur lensNext : List F) (s0 : SegState F) (len θ : Nat → F) (n : Nat)
    (h0 : s0.distance = T.inf)
    (hp : ∀ k, k < n → StraightPiece T dm fr angsCur angsNext lensCur lensNext k
      (@segStates F (fieldScalar T) dm op sr fr q angsCur angsNext lensCur lensNext s0 k) (θ k) (len k)) :
    ∀ k, k ≤ n →
      let s := @segStates F (fieldScalar T) dm op sr fr q angsCur angsNext lensCur lensNext s0 k
      s.endSeg = walkVertex T s0.endSeg len θ k ∧ s.totalLength = s0.totalLength + walkCum len k ∧
      s.out = walkSpec T op sr s0.endSeg len θ q s0.totalLength s0.out k := by
  intro k hk
  have := straight_chain T op sr q len θ
    (@segStates F (fieldScalar T) dm op sr fr q angsCur angsNext lensCur lensNext s0) n h0 ?_ k hk
  · exact ⟨this.1, this.2.1, this.2.2.1⟩
  · intro j hj hinv
    obtain ⟨p1, p2, p3, p4, p5⟩ := hp j hj
    have := segmentStep_straight_sel T L dm op sr fr q
      (@Option.getD (P2 F) angsCur[j]? (@default (P2 F) (@instInhabitedP2 F (@Scalar.instInhabited F (fieldScalar T))))) (@Option.getD (P2 F) angsNext[j]? (@default (P2 F) (@instInhabitedP2 F (@Scalar.instInhabited F (fieldScalar T)))))
      (@Option.getD F lensCur[j]? (@default F (@Scalar.instInhabited F (fieldScalar T))))
      (@Option.getD F lensNext[j]? (@default F (@Scalar.instInhabited F (fieldScalar T)))) j
      (@segStates F (fieldScalar T) dm op sr fr q angsCur angsNext lensCur lensNext s0 j)
    dsimp only at this
    have p1' := p1
    have p3' := p3
    unfold tabAngTop at p1'
    unfold tabAngBot at p2
    unfold tabLen at p3'
    rw [lerpC_field] at p3'
    rw [p1', p3'] at this
    exact this p2 p4 p5 hinv

end walkLoop

section walkNone
variable {F : Type} [Field F] [LinearOrder F] [IsStrictOrderedRing F] (T : Transc F)

theorem segAngTop_none (fr : F) (ac an : P2 F) (k : Nat) (s : SegState F) (ha : s.addAngle = 0) :
    @segAngTop F (fieldScalar T) .none fr ac an k s = ac.x + fr * (an.x - ac.x) := by
  unfold segAngTop
  have h : ¬ ((DepthMethod.none == DepthMethod.beginAtEndSegment) = true ∧ (k != 0) = true) := by
    rintro ⟨h, _⟩; exact absurd h (by decide)
  rw [if_neg h, ha]
  show ac.x + fr * (an.x - ac.x) + 0 + ((0 : ℕ) : F) = _
  rw [Nat.cast_zero, add_zero, add_zero]

theorem segAngBot_none (fr : F) (ac an : P2 F) (s : SegState F) (ha : s.addAngle = 0) :
    @segAngBot F (fieldScalar T) fr ac an s = ac.y + fr * (an.y - ac.y) := by
  unfold segAngBot
  rw [ha]
  show ac.y + fr * (an.y - ac.y) + 0 = _
  rw [add_zero]

/-- depth method `none`, no added angle: piece `k` is straight as soon as its two interpolated dips agree and its interpolated
length is a length -/
theorem straightPiece_none (op : Bool) (sr fr : F) (q : P2 F) (angsCur angsNext : List (P2 F)) (lensCur lensNext : List F)
    (s0 : SegState F) (ha0 : s0.addAngle = 0) (k : Nat) (ac an : P2 F) (lc ln : F)
    (e1 : angsCur[k]? = some ac) (e2 : angsNext[k]? = some an) (e3 : lensCur[k]? = some lc) (e4 : lensNext[k]? = some ln)
    (hst : |(ac.x + fr * (an.x - ac.x)) - (ac.y + fr * (an.y - ac.y))| < 1 / 10 ^ 8)
    (heps : T.eps < |lc + fr * (ln - lc)|) (hlen : 1 / 10 ^ 14 ≤ lc + fr * (ln - lc)) :
    StraightPiece T .none fr angsCur angsNext lensCur lensNext k
      (@segStates F (fieldScalar T) .none op sr fr q angsCur angsNext lensCur lensNext s0 k)
      (ac.x + fr * (an.x - ac.x)) (lc + fr * (ln - lc)) := by
  have ha : (@segPre F (fieldScalar T) .none k
      (@segStates F (fieldScalar T) .none op sr fr q angsCur angsNext lensCur lensNext s0 k)).addAngle = 0 := by
    rw [@segPre_none F (fieldScalar T)]
    show (@segStates F (fieldScalar T) .none op sr fr q angsCur angsNext lensCur lensNext s0 k).addAngle = 0
    rw [@segStates_addAngle_none F (fieldScalar T), ha0]
  unfold StraightPiece tabAngTop tabAngBot tabLen
  rw [e1, e2, e3, e4]
  simp only [Option.getD_some]
  rw [segAngTop_none T fr ac an k _ ha, segAngBot_none T fr ac an _ ha, lerpC_field]
  exact ⟨rfl, hst, rfl, heps, hlen⟩

end walkNone

/-! ## Part 5: the joint between two straight pieces -/
section joint
variable {F : Type} [Field F] [LinearOrder F] [IsStrictOrderedRing F] (T : Transc F)

/-- end point of a straight piece -/
def pieceEnd (b : P2 F) (θ len : F) : P2 F := ⟨b.x + len * T.cos θ, b.y - len * T.sin θ⟩
/-- `⟨t_1, t_2⟩` = cosine of the change of dip -/
def cosTurn (θ1 θ2 : F) : F := T.cos θ1 * T.cos θ2 + T.sin θ1 * T.sin θ2
/-- `⟨n_1, t_2⟩` = sine of the change of dip `θ2 − θ1` (positive: the surface steepens) -/
def sinTurn (θ1 θ2 : F) : F := T.sin θ2 * T.cos θ1 - T.cos θ2 * T.sin θ1

theorem walkVertex_succ (b0 : P2 F) (len θ : Nat → F) (k : Nat) :
    walkVertex T b0 len θ (k + 1) = pieceEnd T (walkVertex T b0 len θ k) (θ k) (len k) := rfl

/-- same dip: seen from the joint the along-coordinate is shifted by the length of the first piece … -/
theorem alongDip_joint_same (L : PlaneLaws T) (b q : P2 F) (θ len : F) :
    alongDip T (pieceEnd T b θ len) q θ = alongDip T b q θ - len := by
  unfold alongDip pieceEnd
  have h := L.sin_sq_add_cos_sq θ
  linear_combination (-len) * h
/-- … and the distance from the line is the same -/
theorem belowDip_joint_same (b q : P2 F) (θ len : F) : belowDip T (pieceEnd T b θ len) q θ = belowDip T b q θ := by
  unfold belowDip pieceEnd
  ring

/-- different dips: the coordinates of `q` seen from the second piece are those seen from the joint in the frame of the first
piece, `(u, v) = (a₁ − len₁, d₁)`, turned by the change of dip -/
theorem alongDip_joint (L : PlaneLaws T) (b q : P2 F) (θ1 θ2 len1 : F) :
    alongDip T (pieceEnd T b θ1 len1) q θ2 =
      (alongDip T b q θ1 - len1) * cosTurn T θ1 θ2 + belowDip T b q θ1 * sinTurn T θ1 θ2 := by
  unfold alongDip belowDip pieceEnd cosTurn sinTurn
  have h := L.sin_sq_add_cos_sq θ1
  linear_combination (-(T.cos θ2 * (q.x - b.x) - T.sin θ2 * (q.y - b.y))) * h
theorem belowDip_joint (L : PlaneLaws T) (b q : P2 F) (θ1 θ2 len1 : F) :
    belowDip T (pieceEnd T b θ1 len1) q θ2 =
      -(alongDip T b q θ1 - len1) * sinTurn T θ1 θ2 + belowDip T b q θ1 * cosTurn T θ1 θ2 := by
  unfold alongDip belowDip pieceEnd cosTurn sinTurn
  have h := L.sin_sq_add_cos_sq θ1
  linear_combination (T.sin θ2 * (q.x - b.x) + T.cos θ2 * (q.y - b.y)) * h

theorem cosTurn_self (L : PlaneLaws T) (θ : F) : cosTurn T θ θ = 1 := by
  unfold cosTurn; have h := L.sin_sq_add_cos_sq θ; linear_combination h
theorem sinTurn_self (θ : F) : sinTurn T θ θ = 0 := by
  unfold sinTurn; ring

/-- the code's test for the first of two consecutive pieces -/
theorem lineOutside_piece (L : PlaneLaws T) (b q : P2 F) (θ len : F) (hlen : 0 < len) :
    @lineOutside F (fieldScalar T) b (pieceEnd T b θ len) q ↔ ¬ (0 ≤ alongDip T b q θ ∧ alongDip T b q θ ≤ len) :=
  lineOutside_field T L b q θ len hlen

/-- the code's test for the second piece, in the coordinates of the first -/
theorem lineOutside_second (L : PlaneLaws T) (b q : P2 F) (θ1 θ2 len1 len2 : F) (h2 : 0 < len2) :
    @lineOutside F (fieldScalar T) (pieceEnd T b θ1 len1) (pieceEnd T (pieceEnd T b θ1 len1) θ2 len2) q ↔
      ¬ (0 ≤ (alongDip T b q θ1 - len1) * cosTurn T θ1 θ2 + belowDip T b q θ1 * sinTurn T θ1 θ2 ∧
         (alongDip T b q θ1 - len1) * cosTurn T θ1 θ2 + belowDip T b q θ1 * sinTurn T θ1 θ2 ≤ len2) := by
  rw [lineOutside_piece T L _ _ _ _ h2, alongDip_joint T L]

end joint

end Gwb
