/-
No-out-of-range-access lemmas (C13) — core Lean only, every `Scalar R`, no laws.

`NoInt x` / `QNoInt m`: the computation does not end in `Err.internal` (the model-level meaning of an out-of-bounds access);
`Safe P x`: additionally a postcondition on success.  The proofs follow the structure of the model's do-blocks
(`NoInt.bind`, `noint_step`), the only facts used being relations between list lengths.
Contents: `upperBound` (range, and what it has tested: `upperBound_bracket`), kd-tree and triangle look-up of depth surfaces, ridge
search, temperature / composition / grains / velocity models, the per-request switch on a block (`paintAt_noInt`, `linePaintAt_noInt`),
Bezier closest-point search (`Bezier.closestPoint_safe`: the reported index is a piece of the curve), `segmentStep_segment`,
`distancePointFromCurvedPlanes_safe`, slab/fault guards and membership, features block-wise, `World.props3_noInt`, the 2-D re-walk and
`distance_to_plane`.
-/
import GwbVerif.Spec.WellFormed
import GwbVerif.Proofs.World
namespace Gwb
open Scalar
set_option linter.unusedSectionVars false
variable {R G : Type} [Scalar R] [RandGen G R]

/-- the computation does not end in the model's "indexed out of range" error -/
def NoInt {α : Type} (x : Except Err α) : Prop := x ≠ .error .internal

/-- same for query computations, for every state of the random-number engine -/
def QNoInt {α : Type} (m : QM G α) : Prop := ∀ g, m g ≠ .error .internal

theorem NoInt.ok {α : Type} (a : α) : NoInt (.ok a : Except Err α) := by simp [NoInt]
theorem NoInt.pure {α : Type} (a : α) : NoInt (pure a : Except Err α) := by simp [NoInt, Pure.pure, Except.pure]
theorem NoInt.error {α : Type} {e : Err} (h : e ≠ .internal) : NoInt (.error e : Except Err α) := by
  simp [NoInt, h]

theorem NoInt.bind {α β : Type} {x : Except Err α} {f : α → Except Err β}
    (hx : NoInt x) (hf : ∀ a, x = .ok a → NoInt (f a)) : NoInt (x >>= f) := by
  cases x with
  | error e => simpa [NoInt, Bind.bind, Except.bind] using hx
  | ok a => simpa [Bind.bind, Except.bind] using hf a rfl

theorem idx_eq_ok_of_lt {α : Type} (xs : List α) (i : Nat) (h : i < xs.length) : idx xs i = .ok xs[i] := by
  simp [idx, List.getElem?_eq_getElem h]

theorem idx_ok_iff {α : Type} (xs : List α) (i : Nat) (v : α) : idx xs i = .ok v ↔ xs[i]? = some v := by
  unfold idx
  cases h : xs[i]? <;> simp

theorem upperBound_ok (xs : List R) (v : R) (fuel first len : Nat) (h : first + len ≤ xs.length) :
    ∃ k, upperBound xs v fuel first len = .ok k ∧ first ≤ k ∧ k ≤ first + len := by
  induction fuel generalizing first len with
  | zero => exact ⟨first, rfl, Nat.le_refl _, Nat.le_add_right _ _⟩
  | succ fuel ih =>
    unfold upperBound
    by_cases hl : len > 0
    · simp only [hl, if_true]
      have hm : first + len / 2 < xs.length := by omega
      simp only [idx_eq_ok_of_lt xs _ hm, bind, Except.bind]
      split
      · obtain ⟨k, hk, h1, h2⟩ := ih first (len / 2) (by omega)
        exact ⟨k, hk, h1, by omega⟩
      · obtain ⟨k, hk, h1, h2⟩ := ih (first + len / 2 + 1) (len - len / 2 - 1) (by omega)
        exact ⟨k, hk, by omega, by omega⟩
    · simp only [hl, if_false]
      exact ⟨first, rfl, Nat.le_refl _, Nat.le_add_right _ _⟩

/-- **what the binary search has tested when it returns**: the entry left of the result was found `≤ val` (not `val <` it) and the
entry at the result was found `> val` — whether or not the list is sorted. -/
theorem upperBound_bracket_gen (xs : List R) (v : R) (fuel first len : Nat) (hfuel : len < fuel) (h : first + len ≤ xs.length)
    (hL : ∀ a, 0 < first → xs[first - 1]? = some a → ¬ v < a) (hR : ∀ b, xs[first + len]? = some b → v < b) (k : Nat)
    (hk : upperBound xs v fuel first len = .ok k) :
    (∀ a, 0 < k → xs[k - 1]? = some a → ¬ v < a) ∧ (∀ b, xs[k]? = some b → v < b) := by
  induction fuel generalizing first len with
  | zero => omega
  | succ fuel ih =>
    unfold upperBound at hk
    by_cases hl : len > 0
    · simp only [hl, if_true] at hk
      have hm : first + len / 2 < xs.length := by omega
      simp only [idx_eq_ok_of_lt xs _ hm, bind, Except.bind] at hk
      split at hk
      · rename_i hlt
        refine ih first (len / 2) (by omega) (by omega) hL ?_ hk
        intro b hb
        rw [List.getElem?_eq_getElem hm] at hb
        cases hb; exact hlt
      · rename_i hnlt
        refine ih (first + len / 2 + 1) (len - len / 2 - 1) (by omega) (by omega) ?_ ?_ hk
        · intro a _ ha
          have : first + len / 2 + 1 - 1 = first + len / 2 := by omega
          rw [this, List.getElem?_eq_getElem hm] at ha
          cases ha; exact hnlt
        · intro b hb
          have : first + len / 2 + 1 + (len - len / 2 - 1) = first + len := by omega
          rw [this] at hb
          exact hR b hb
    · simp only [hl, if_false] at hk
      cases hk
      have : len = 0 := by omega
      subst this
      exact ⟨hL, fun b hb => hR b (by simpa using hb)⟩

theorem upperBound_bracket (xs : List R) (v : R) (k : Nat) (hk : upperBound xs v (xs.length + 1) 0 xs.length = .ok k) :
    (∀ a, 0 < k → xs[k - 1]? = some a → ¬ v < a) ∧ (∀ b, xs[k]? = some b → v < b) := by
  refine upperBound_bracket_gen xs v (xs.length + 1) 0 xs.length (by omega) (by omega) (fun _ h => by omega) ?_ k hk
  intro b hb
  simp at hb

theorem idx_noInt {α : Type} (xs : List α) (i : Nat) (h : i < xs.length) : NoInt (idx xs i) := by
  rw [idx_eq_ok_of_lt xs i h]; exact NoInt.ok _

theorem front_noInt (xs : List R) (h : 0 < xs.length) : NoInt (front xs) := idx_noInt xs 0 h
theorem back_noInt (xs : List R) (h : 0 < xs.length) : NoInt (back xs) := idx_noInt xs _ (by omega)

theorem findComposition_lt (comps : List Nat) (n i : Nat) (h : findComposition comps n = some i) : i < comps.length := by
  unfold findComposition at h
  exact (List.findIdx?_eq_some_iff_getElem.1 h).1

/-- one step of the structural "no internal error" proof search -/
macro "noint_step" : tactic => `(tactic| first
  | exact NoInt.pure _
  | exact NoInt.ok _
  | exact NoInt.error (by decide)
  | (apply idx_noInt; first | omega | (have := findComposition_lt _ _ _ (by assumption); omega))
  | (apply front_noInt; omega)
  | (apply back_noInt; omega)
  | refine NoInt.bind ?_ (fun _ _ => ?_)
  | split)

theorem upperBound_noInt (xs : List R) (v : R) : NoInt (upperBound xs v (xs.length + 1) 0 xs.length) := by
  obtain ⟨k, hk, -, -⟩ := upperBound_ok xs v (xs.length + 1) 0 xs.length (by omega)
  rw [hk]; exact NoInt.ok _

theorem upperBound_le (xs : List R) (v : R) (k : Nat) (h : upperBound xs v (xs.length + 1) 0 xs.length = .ok k) : k ≤ xs.length := by
  obtain ⟨k', hk, -, h2⟩ := upperBound_ok xs v (xs.length + 1) 0 xs.length (by omega)
  rw [hk] at h; cases h; omega

/-! ### depth surfaces -/

/-- every index the kd search reports is a node position -/
def KdIdxOk (n : Nat) (s : KdState R) : Prop := s.minIndex < n ∧ ∀ id ∈ s.visited, id.index < n

theorem kdVisit_idxOk (n mid : Nat) (nd : KdNode R) (p : P2 R) (s : KdState R) (hm : mid < n) (h : KdIdxOk n s) :
    KdIdxOk n (kdVisit mid nd p s) := by
  obtain ⟨h1, h2⟩ := h
  unfold kdVisit
  constructor
  · simp only; split <;> simp [*]
  · intro id hid
    simp only [List.mem_cons] at hid
    rcases hid with rfl | hid
    · exact hm
    · split at hid <;> exact h2 _ hid

theorem kdIdxOk_ite {n : Nat} {s sA : KdState R} (c : Prop) [Decidable c] (hs : KdIdxOk n s) (h : c → KdIdxOk n sA) :
    KdIdxOk n (if c then sA else s) := by
  by_cases hc : c
  · simp only [if_pos hc]; exact h hc
  · simp only [if_neg hc]; exact hs

theorem kdSearch_idxOk (nodes : Array (KdNode R)) (p : P2 R) (left right : Nat) (yAxis : Bool) (s : KdState R) :
    KdIdxOk nodes.size s → KdIdxOk nodes.size (kdSearch nodes p left right yAxis s) := by
  fun_induction kdSearch nodes p left right yAxis s with
  | case1 => exact id
  | case2 l r ax s mid node hn hlt s1 s2 hrm hnp ih1 _ ih2 =>
    intro h
    have hmid : mid < nodes.size := by
      rcases Nat.lt_or_ge mid nodes.size with h' | h'
      · exact h'
      · simp [Array.getElem?_eq_none h'] at hn
    exact ih2 (kdVisit_idxOk _ _ _ _ _ hmid (kdIdxOk_ite _ h (fun hc => ih1 hc h)))
  | case3 l r ax s mid node hn hlt s1 s2 hrm hnp ih1 =>
    intro h
    have hmid : mid < nodes.size := by
      rcases Nat.lt_or_ge mid nodes.size with h' | h'
      · exact h'
      · simp [Array.getElem?_eq_none h'] at hn
    exact kdVisit_idxOk _ _ _ _ _ hmid (kdIdxOk_ite _ h (fun hc => ih1 hc h))
  | case4 l r ax s mid node hn hlt s1 s2 hrm ih1 =>
    intro h
    have hmid : mid < nodes.size := by
      rcases Nat.lt_or_ge mid nodes.size with h' | h'
      · exact h'
      · simp [Array.getElem?_eq_none h'] at hn
    exact kdVisit_idxOk _ _ _ _ _ hmid (kdIdxOk_ite _ h (fun hc => ih1 hc h))
  | case5 l r ax s mid node hn hlt s1 s2 hlm hnp ih1 _ ih2 =>
    intro h
    have hmid : mid < nodes.size := by
      rcases Nat.lt_or_ge mid nodes.size with h' | h'
      · exact h'
      · simp [Array.getElem?_eq_none h'] at hn
    exact ih2 (kdVisit_idxOk _ _ _ _ _ hmid (kdIdxOk_ite _ h (fun hc => ih1 hc h)))
  | case6 l r ax s mid node hn hlt s1 s2 hlm hnp ih1 =>
    intro h
    have hmid : mid < nodes.size := by
      rcases Nat.lt_or_ge mid nodes.size with h' | h'
      · exact h'
      · simp [Array.getElem?_eq_none h'] at hn
    exact kdVisit_idxOk _ _ _ _ _ hmid (kdIdxOk_ite _ h (fun hc => ih1 hc h))
  | case7 l r ax s mid node hn hlt s1 s2 hlm ih1 =>
    intro h
    have hmid : mid < nodes.size := by
      rcases Nat.lt_or_ge mid nodes.size with h' | h'
      · exact h'
      · simp [Array.getElem?_eq_none h'] at hn
    exact kdVisit_idxOk _ _ _ _ _ hmid (kdIdxOk_ite _ h (fun hc => ih1 hc h))

/-- the non-constant alternative of `Surface.WellFormed` -/
def Surface.Tables (s : Surface R) : Prop :=
  0 < s.nodes.size ∧ s.pre.size = s.triangles.size ∧ ∀ i, (h : i < s.nodes.size) → (s.nodes[i]).index < s.triangles.size

theorem Surface.tryNode_noInt (s : Surface R) (hw : s.Tables) (ni : Nat) (hni : ni < s.nodes.size) (p : P2 R) :
    NoInt (s.tryNode ni p) := by
  obtain ⟨_, hp, hn⟩ := hw
  have h1 := hn ni hni
  have h2 : (s.nodes[ni]).index < s.pre.size := by omega
  unfold Surface.tryNode
  simp only [Array.getElem?_eq_getElem hni, Array.getElem?_eq_getElem h1, Array.getElem?_eq_getElem h2]
  exact NoInt.ok _

theorem Surface.tryList_noInt (s : Surface R) (hw : s.Tables) (p : P2 R) (ids : List (IndexDistance R))
    (h : ∀ id ∈ ids, id.index < s.nodes.size) : NoInt (s.tryList p ids) := by
  induction ids with
  | nil => exact NoInt.ok _
  | cons id ids ih =>
    unfold Surface.tryList
    refine NoInt.bind (s.tryNode_noInt hw _ (h id (List.mem_cons_self ..)) p) (fun a _ => ?_)
    cases a with
    | some v => exact NoInt.ok _
    | none => exact ih (fun id' h' => h id' (List.mem_cons_of_mem _ h'))

theorem Surface.scanAll_noInt (s : Surface R) (hw : s.Tables) (sph : Bool) (p o : P2 R) (nds : List (KdNode R))
    (h : ∀ nd ∈ nds, nd.index < s.triangles.size) : NoInt (s.scanAll sph p o nds) := by
  induction nds with
  | nil => exact NoInt.ok _
  | cons nd nds ih =>
    have h1 := h nd (List.mem_cons_self ..)
    have h2 : nd.index < s.pre.size := by have := hw.2.1; omega
    unfold Surface.scanAll
    simp only [Array.getElem?_eq_getElem h1, Array.getElem?_eq_getElem h2]
    split
    · exact NoInt.ok _
    · split
      · exact NoInt.ok _
      · exact ih (fun nd' h' => h nd' (List.mem_cons_of_mem _ h'))

theorem kdFind_idxOk (nodes : Array (KdNode R)) (p : P2 R) (hpos : 0 < nodes.size) :
    ∃ st, kdFindClosestPoints nodes p = .ok st ∧ KdIdxOk nodes.size st := by
  unfold kdFindClosestPoints
  have : ¬ nodes.size = 0 := by omega
  simp only [this, if_false]
  exact ⟨_, rfl, kdSearch_idxOk _ _ _ _ _ _ ⟨hpos, fun _ h => absurd h List.not_mem_nil⟩⟩

theorem kdFind_post (nodes : Array (KdNode R)) (p : P2 R) (hpos : 0 < nodes.size) (st : KdState R)
    (h : kdFindClosestPoints nodes p = .ok st) : KdIdxOk nodes.size st := by
  obtain ⟨st', h1, h2⟩ := kdFind_idxOk nodes p hpos
  rw [h1] at h; cases h; exact h2

theorem kdFind_noInt (nodes : Array (KdNode R)) (p : P2 R) (hpos : 0 < nodes.size) : NoInt (kdFindClosestPoints nodes p) := by
  obtain ⟨st', h1, _⟩ := kdFind_idxOk nodes p hpos
  rw [h1]; exact NoInt.ok _

theorem Surface.localValue_noInt (s : Surface R) (hw : s.WellFormed) (sph : Bool) (p : P2 R) : NoInt (s.localValue sph p) := by
  unfold Surface.localValue
  rcases hw with hc | hw
  · simp only [hc, if_true]; exact NoInt.pure _
  have hw' : s.Tables := hw
  have hnodes : ∀ nd ∈ s.nodes.toList, nd.index < s.triangles.size := by
    intro nd hnd
    obtain ⟨i, hi, rfl⟩ := List.getElem_of_mem hnd
    simpa using hw.2.2 i (by simpa using hi)
  have hvec : ∀ st : KdState R, KdIdxOk s.nodes.size st → ∀ id ∈ st.vector, id.index < s.nodes.size :=
    fun st h id hid => h.2 id (by simpa [KdState.vector] using hid)
  split
  · exact NoInt.pure _
  refine NoInt.bind (kdFind_noInt _ _ hw.1) (fun ids hids => ?_)
  have hids := kdFind_post _ _ hw.1 _ hids
  refine NoInt.bind (s.tryNode_noInt hw' _ hids.1 p) (fun r0 _ => ?_)
  split
  · exact NoInt.pure _
  refine NoInt.bind (x := (if sph = true then kdFindClosestPoints s.nodes (otherPoint p) else .ok ⟨0, Scalar.dblMax, []⟩)) ?_
    (fun ido hido => ?_)
  · split
    · exact kdFind_noInt _ _ hw.1
    · exact NoInt.ok _
  have hido : KdIdxOk s.nodes.size ido := by
    split at hido
    · exact kdFind_post _ _ hw.1 _ hido
    · cases hido; exact ⟨hw.1, fun _ h => absurd h List.not_mem_nil⟩
  refine NoInt.bind ?_ (fun r1 _ => ?_)
  · split
    · exact s.tryNode_noInt hw' _ hido.1 _
    · exact NoInt.ok _
  split
  · exact NoInt.pure _
  refine NoInt.bind (s.tryList_noInt hw' p _ (hvec _ hids)) (fun r2 _ => ?_)
  split
  · exact NoInt.pure _
  refine NoInt.bind ?_ (fun r3 _ => ?_)
  · split
    · exact s.tryList_noInt hw' _ _ (hvec _ hido)
    · exact NoInt.ok _
  split
  · exact NoInt.pure _
  refine NoInt.bind (s.scanAll_noInt hw' sph p _ _ hnodes) (fun r4 _ => ?_)
  split
  · exact NoInt.pure _
  · exact NoInt.error (by decide)

theorem Surface.localOr_noInt (s : Surface R) (hw : s.WellFormed) (b : R) (sph : Bool) (p : P2 R) : NoInt (s.localOr b sph p) := by
  unfold Surface.localOr
  split
  · exact NoInt.ok _
  · exact s.localValue_noInt hw sph p

theorem DepthRange.locals_noInt (r : DepthRange R) (hw : r.WellFormed) (ctx : Ctx R) (q : Query R) (lf : Bool) :
    NoInt (r.locals ctx q lf) := by
  have h1 := fun b sph p => r.minS.localOr_noInt hw.1 b sph p
  have h2 := fun b sph p => r.maxS.localOr_noInt hw.2 b sph p
  unfold DepthRange.locals
  repeat (first | exact h1 _ _ _ | exact h2 _ _ _ | noint_step)

/-! ### ridges -/

theorem relevantRidge_ok (ridges : List (List (P2 R))) (hne : ∀ rd ∈ ridges, 0 < rd.length) (check other : P2 R)
    (fuel i : Nat) (hi : i < ridges.length) :
    ∃ k, relevantRidge ridges check other fuel i = .ok k ∧ k < ridges.length := by
  induction fuel generalizing i with
  | zero => exact ⟨i, rfl, hi⟩
  | succ fuel ih =>
    unfold relevantRidge
    by_cases h : i + 1 < ridges.length
    · simp only [h, if_true]
      have h0 : 0 < (ridges[i + 1]).length := hne _ (List.getElem_mem h)
      have h1 : 0 < (ridges[i]).length := hne _ (List.getElem_mem hi)
      have h2 : (ridges[i]).length - 1 < (ridges[i]).length := by omega
      simp only [idx_eq_ok_of_lt ridges _ h, idx_eq_ok_of_lt ridges _ hi, idx_eq_ok_of_lt _ _ h0, idx_eq_ok_of_lt _ _ h1,
        idx_eq_ok_of_lt (ridges[i]) ((ridges[i]).length - 1) h2, bind, Except.bind]
      split <;> split <;> first | exact ⟨i, rfl, hi⟩ | exact ih (i + 1) h
    · simp only [h, if_false]; exact ⟨i, rfl, hi⟩

theorem ridgeSegments_noInt (sph : Bool) (nat0 : P3 R) (check other : P2 R) (ridge : List (P2 R)) (vels : List R)
    (sub00 : R) (hv : vels.length = ridge.length) (fuel i : Nat) (acc : RidgeAcc R) :
    NoInt (ridgeSegments sph nat0 check other ridge vels none sub00 fuel i acc) := by
  induction fuel generalizing i acc with
  | zero => exact NoInt.ok _
  | succ fuel ih =>
    unfold ridgeSegments
    split
    · repeat (first | exact ih _ _ | noint_step)
    · exact NoInt.ok _

theorem ridgeDistanceAndSpreading_noInt (sph : Bool) (r : RidgeSpec R) (hw : r.WellFormed) (nat0 : P3 R) :
    NoInt (ridgeDistanceAndSpreading sph r.ridges r.vels nat0 [[0]] [0.0]) := by
  obtain ⟨hpos, hne, hlen, hvs⟩ := hw
  unfold ridgeDistanceAndSpreading
  refine NoInt.bind (idx_noInt _ _ hpos) (fun r0 _ => ?_)
  refine NoInt.bind (x := (if r0.length > 1 then relevantRidge r.ridges _ _ r.ridges.length 0 else .ok 0)) ?_ (fun rel hrel => ?_)
  · split
    · obtain ⟨k, hk, _⟩ := relevantRidge_ok r.ridges hne (surfacePoint sph nat0) _ r.ridges.length 0 hpos
      rw [hk]; exact NoInt.ok _
    · exact NoInt.ok _
  have hrel : rel < r.ridges.length := by
    split at hrel
    · obtain ⟨k, hk, hk2⟩ := relevantRidge_ok r.ridges hne (surfacePoint sph nat0) _ r.ridges.length 0 hpos
      rw [hk] at hrel; cases hrel; exact hk2
    · cases hrel; exact hpos
  refine NoInt.bind (idx_noInt _ _ hrel) (fun ridge hridge => ?_)
  refine NoInt.bind (idx_noInt _ _ (by omega)) (fun vs hvs' => ?_)
  have hvl : vs.length = ridge.length := hvs rel ridge vs ((idx_ok_iff _ _ _).1 hridge) ((idx_ok_iff _ _ _).1 hvs')
  refine NoInt.bind (idx_noInt _ _ (by simp)) (fun sv0 hsv0 => ?_)
  have hsv : sv0 = [0] := by
    have := (idx_ok_iff _ _ _).1 hsv0
    simpa using this.symm
  subst hsv
  refine NoInt.bind (idx_noInt _ _ (by simp)) (fun sub00 _ => ?_)
  simp only [List.length_singleton, gt_iff_lt, Nat.lt_irrefl, if_false, false_and]
  refine NoInt.bind (NoInt.ok _) (fun sv hsv => ?_)
  cases hsv
  refine NoInt.bind (NoInt.ok _) (fun mig _ => ?_)
  refine NoInt.bind (ridgeSegments_noInt sph nat0 _ _ ridge vs sub00 hvl _ _ _) (fun acc _ => ?_)
  exact NoInt.pure _

/-- the segment loop with per-point subducting velocities: one value per ridge point -/
theorem ridgeSegments_noInt_some (sph : Bool) (nat0 : P3 R) (check other : P2 R) (ridge : List (P2 R)) (vels sv : List R)
    (sub00 : R) (hv : vels.length = ridge.length) (hs : sv.length = ridge.length) (fuel i : Nat) (acc : RidgeAcc R) :
    NoInt (ridgeSegments sph nat0 check other ridge vels (some sv) sub00 fuel i acc) := by
  induction fuel generalizing i acc with
  | zero => exact NoInt.ok _
  | succ fuel ih =>
    unfold ridgeSegments
    split
    · repeat (first | exact ih _ _ | noint_step)
    · exact NoInt.ok _

/-- the ridge search with arbitrary subducting-velocity rows and migration times (slab `mass conserving`): a first subducting velocity
exists, and per-point rows (first row longer than 1) come one per ridge, one value per ridge point, with a migration time per ridge -/
theorem ridgeDistanceAndSpreading_noInt_general (sph : Bool) (r : RidgeSpec R) (hw : r.WellFormed) (nat0 : P3 R)
    (subVel : List (List R)) (migr : List R)
    (h0 : ∃ sv0 v, subVel[0]? = some sv0 ∧ sv0[0]? = some v)
    (hpp : (∃ sv0, subVel[0]? = some sv0 ∧ 1 < sv0.length) →
      subVel.length = r.ridges.length ∧ r.ridges.length ≤ migr.length ∧
      ∀ (i : Nat) (rd : List (P2 R)) (sv : List R), r.ridges[i]? = some rd → subVel[i]? = some sv → sv.length = rd.length) :
    NoInt (ridgeDistanceAndSpreading sph r.ridges r.vels nat0 subVel migr) := by
  obtain ⟨hpos, hne, hlen, hvs⟩ := hw
  obtain ⟨sv0', v0, hs0, hv0⟩ := h0
  have hsl : 0 < subVel.length := (List.getElem?_eq_some_iff.1 hs0).1
  have hvl0 : 0 < sv0'.length := (List.getElem?_eq_some_iff.1 hv0).1
  unfold ridgeDistanceAndSpreading
  refine NoInt.bind (idx_noInt _ _ hpos) (fun r0 _ => ?_)
  refine NoInt.bind (x := (if r0.length > 1 then relevantRidge r.ridges _ _ r.ridges.length 0 else .ok 0)) ?_ (fun rel hrel => ?_)
  · split
    · obtain ⟨k, hk, _⟩ := relevantRidge_ok r.ridges hne (surfacePoint sph nat0) _ r.ridges.length 0 hpos
      rw [hk]; exact NoInt.ok _
    · exact NoInt.ok _
  have hrel : rel < r.ridges.length := by
    split at hrel
    · obtain ⟨k, hk, hk2⟩ := relevantRidge_ok r.ridges hne (surfacePoint sph nat0) _ r.ridges.length 0 hpos
      rw [hk] at hrel; cases hrel; exact hk2
    · cases hrel; exact hpos
  refine NoInt.bind (idx_noInt _ _ hrel) (fun ridge hridge => ?_)
  refine NoInt.bind (idx_noInt _ _ (by omega)) (fun vs hvs' => ?_)
  have hvl : vs.length = ridge.length := hvs rel ridge vs ((idx_ok_iff _ _ _).1 hridge) ((idx_ok_iff _ _ _).1 hvs')
  refine NoInt.bind (idx_noInt _ _ hsl) (fun sv0 hsv0 => ?_)
  have hsv : sv0 = sv0' := Option.some.inj (((idx_ok_iff _ _ _).1 hsv0).symm.trans hs0)
  subst hsv
  refine NoInt.bind (idx_noInt _ _ hvl0) (fun sub00 _ => ?_)
  by_cases hp : sv0.length > 1
  · obtain ⟨hsn, hmg, hall⟩ := hpp ⟨sv0, hs0, hp⟩
    have hrel' : rel < subVel.length := by omega
    simp only [hp, if_true, true_and, idx_eq_ok_of_lt subVel rel hrel', Except.map]
    refine NoInt.bind (NoInt.ok _) (fun svs hsvs => ?_)
    cases hsvs
    refine NoInt.bind (x := if ridge.length > 1 then idx migr rel else .ok 0) ?_ (fun mig _ => ?_)
    · split
      · exact idx_noInt _ _ (by omega)
      · exact NoInt.ok _
    have hsl' : (subVel[rel]).length = ridge.length :=
      hall rel ridge _ ((idx_ok_iff _ _ _).1 hridge) (List.getElem?_eq_getElem hrel')
    refine NoInt.bind (ridgeSegments_noInt_some sph nat0 _ _ ridge vs _ sub00 hvl hsl' _ _ _) (fun acc _ => ?_)
    exact NoInt.pure _
  · simp only [hp, if_false, false_and]
    refine NoInt.bind (NoInt.ok _) (fun svs hsvs => ?_)
    cases hsvs
    refine NoInt.bind (NoInt.ok _) (fun mig _ => ?_)
    refine NoInt.bind (ridgeSegments_noInt sph nat0 _ _ ridge vs sub00 hvl _ _ _) (fun acc _ => ?_)
    exact NoInt.pure _

/-! ### the query monad -/

theorem QNoInt.pure {α : Type} (a : α) : QNoInt (G := G) (Pure.pure a : QM G α) := by
  intro g; simp [QM.pure_apply]

theorem QNoInt.liftE {α : Type} {x : Except Err α} (h : NoInt x) : QNoInt (G := G) (liftE x : QM G α) := by
  intro g
  cases x with
  | ok a => simp [liftE_ok]
  | error e => simpa [liftE_error, NoInt] using h

theorem QNoInt.throw {α : Type} {e : Err} (h : e ≠ .internal) : QNoInt (G := G) (QM.throw e : QM G α) := by
  intro g; simpa [QM.throw_apply] using h

theorem QNoInt.bindPost {α β : Type} {m : QM G α} {f : α → QM G β} {P : α → Prop}
    (hm : QNoInt m) (hp : Post m P) (hf : ∀ a, P a → QNoInt (f a)) : QNoInt (m >>= f) := by
  intro g
  rw [QM.bind_apply]
  cases h : m g with
  | error e => simpa [h] using hm g
  | ok r =>
    obtain ⟨a, g'⟩ := r
    exact hf a (hp _ _ _ h) g'

theorem QNoInt.bind {α β : Type} {m : QM G α} {f : α → QM G β}
    (hm : QNoInt m) (hf : ∀ a, QNoInt (f a)) : QNoInt (m >>= f) :=
  QNoInt.bindPost hm (Post.triv m) (fun a _ => hf a)

theorem QNoInt.foldlM {α β : Type} (f : β → α → QM G β) (xs : List α) (hf : ∀ b a, a ∈ xs → QNoInt (f b a)) (b : β) :
    QNoInt (xs.foldlM f b) := by
  induction xs generalizing b with
  | nil => simpa [List.foldlM] using QNoInt.pure (G := G) b
  | cons x xs ih =>
    rw [List.foldlM_cons]
    exact QNoInt.bind (hf b x (List.mem_cons_self ..)) (fun b' => ih (fun b a ha => hf b a (List.mem_cons_of_mem _ ha)) b')

theorem NoInt.foldlM {α β : Type} (f : β → α → Except Err β) (xs : List α) (hf : ∀ b a, a ∈ xs → NoInt (f b a)) (b : β) :
    NoInt (xs.foldlM f b) := by
  induction xs generalizing b with
  | nil => exact NoInt.pure _
  | cons x xs ih =>
    rw [List.foldlM_cons]
    exact NoInt.bind (hf b x (List.mem_cons_self ..)) (fun b' _ => ih (fun b a ha => hf b a (List.mem_cons_of_mem _ ha)) b')

/-! ### models of the area features and the plume -/

theorem TempModel.get_noInt (m : TempModel R) (hw : m.WellFormed) (ctx : Ctx R) (q : Query R) (old fMin fMax rel : R) :
    NoInt (m.get ctx q old fMin fMax rel) := by
  obtain ⟨hl, hne⟩ := hw
  cases m with
  | gaussian op depths centerT sigmas =>
    obtain ⟨h1, h2⟩ := hl
    have h3 : 0 < depths.length := hne
    simp only [TempModel.get]
    split
    · refine NoInt.bind (upperBound_noInt _ _) (fun up hup => ?_)
      have hup := upperBound_le _ _ _ hup
      repeat noint_step
    · exact NoInt.pure _
  | uniform rng op t lf =>
    simp only [TempModel.get]
    repeat (first | exact rng.locals_noInt hl _ _ _ | noint_step)
  | linear rng op t b =>
    simp only [TempModel.get]
    repeat (first | exact rng.locals_noInt hl _ _ _ | noint_step)
  | adiabatic rng op a b c =>
    simp only [TempModel.get]
    repeat (first | exact rng.locals_noInt hl _ _ _ | noint_step)
  | chapman rng op a b c d =>
    simp only [TempModel.get]
    repeat (first | exact rng.locals_noInt hl _ _ _ | noint_step)
  | halfSpace rng op a b ridge =>
    simp only [TempModel.get]
    repeat (first | exact rng.locals_noInt hl.1 _ _ _ | exact ridgeDistanceAndSpreading_noInt _ _ hl.2 _ | noint_step)
  | plateModel rng op a b ridge =>
    simp only [TempModel.get]
    repeat (first | exact rng.locals_noInt hl.1 _ _ _ | exact ridgeDistanceAndSpreading_noInt _ _ hl.2 _ | noint_step)
  | plateModelConstantAge rng op a b c =>
    simp only [TempModel.get]
    repeat (first | exact rng.locals_noInt hl _ _ _ | noint_step)

theorem VelModel.get_noInt (m : VelModel R) (hw : m.WellFormed) (ctx : Ctx R) (q : Query R) (old : P3 R) :
    NoInt (m.get ctx q old) := by
  cases m with
  | uniformRaw rng op v lf =>
    simp only [VelModel.get]
    repeat (first | exact rng.locals_noInt hw _ _ _ | noint_step)

macro "qnoint_step" : tactic => `(tactic| first
  | exact QNoInt.pure _
  | exact QNoInt.throw (by decide)
  | (apply QNoInt.liftE; apply idx_noInt; first | omega | (have := findComposition_lt _ _ _ (by assumption); omega))
  | refine QNoInt.bind ?_ (fun _ => ?_)
  | split)

theorem drawCanonical_noInt : QNoInt (G := G) (drawCanonical : QM G R) := by
  intro g; simp [drawCanonical]

theorem drawUniform_noInt (a b : R) : QNoInt (G := G) (drawUniform a b : QM G R) := by
  unfold drawUniform
  exact QNoInt.bind drawCanonical_noInt (fun _ => QNoInt.pure _)

theorem drawMatrices_noInt (d : Option R) (b : Option (M3 R)) (n : Nat) : QNoInt (G := G) (drawMatrices d b n : QM G (List (M3 R))) := by
  induction n with
  | zero => exact QNoInt.pure _
  | succ n ih =>
    unfold drawMatrices
    repeat (first | exact drawCanonical_noInt | exact ih | qnoint_step)

theorem drawSizes_noInt (size : R) (n : Nat) (tot : R) : QNoInt (G := G) (drawSizes size n tot : QM G (List R × R)) := by
  induction n generalizing tot with
  | zero => exact QNoInt.pure _
  | succ n ih =>
    unfold drawSizes
    repeat (first | exact drawUniform_noInt _ _ | exact ih _ | qnoint_step)

theorem CompModel.get_noInt (m : CompModel R) (hw : m.WellFormed) (ctx : Ctx R) (q : Query R) (hq : NoInt (q.worldT ()))
    (n : Nat) (old : R) : QNoInt (G := G) (m.get ctx q n old) := by
  cases m with
  | tianWater rng op comps spec =>
    have hr : rng.WellFormed := hw
    simp only [CompModel.get]
    repeat (first | exact QNoInt.liftE (rng.locals_noInt hr _ _ _) | exact QNoInt.liftE hq | qnoint_step)
  | uniform rng op comps fractions =>
    obtain ⟨hr, h1⟩ := hw
    simp only [CompModel.get]
    repeat (first | exact QNoInt.liftE (rng.locals_noInt hr _ _ _) | qnoint_step)
  | random rng op comps mn mx =>
    obtain ⟨hr, h1, h2⟩ := hw
    simp only [CompModel.get]
    repeat (first | exact QNoInt.liftE (rng.locals_noInt hr _ _ _) | exact drawUniform_noInt _ _ | qnoint_step)

theorem GrainsModel.get_noInt (m : GrainsModel R) (hw : m.WellFormed) (ctx : Ctx R) (q : Query R) (n : Nat) (old : Grains R) :
    QNoInt (G := G) (m.get ctx q n old) := by
  cases m with
  | uniform rng comps mats sizes =>
    obtain ⟨hr, h1, h2⟩ := hw
    simp only [GrainsModel.get]
    repeat (first | exact QNoInt.liftE (rng.locals_noInt hr _ _ _) | qnoint_step)
  | randomUniform rng comps sizes normalize =>
    obtain ⟨hr, h1, h2⟩ := hw
    simp only [GrainsModel.get]
    repeat (first | exact QNoInt.liftE (rng.locals_noInt hr _ _ _) | exact drawMatrices_noInt _ _ _ | exact drawSizes_noInt _ _ _ | qnoint_step)
  | randomUniformDeflected rng comps basis sizes normalize deflections =>
    obtain ⟨hr, h1, h2, h3, h4⟩ := hw
    simp only [GrainsModel.get]
    repeat (first | exact QNoInt.liftE (rng.locals_noInt hr _ _ _) | exact drawMatrices_noInt _ _ _ | exact drawSizes_noInt _ _ _ | qnoint_step)

/-- what a covering area feature / plume does for one request, on the request's own block -/
theorem paintAt_noInt (tag : Nat) (ms : Models R) (hw : ms.WellFormed) (ctx : Ctx R) (q : Query R) (hq : NoInt (q.worldT ()))
    (fMin fMax rel : R) (p : Req) (blk : List R) (hsz : p.size? = some blk.length) :
    QNoInt (G := G) (paintAt tag ms ctx q fMin fMax rel p 0 blk) := by
  obtain ⟨ht, hv, hc, hg⟩ := hw
  obtain ⟨code, n, k⟩ := p
  simp only [Req.size?] at hsz
  match code, hsz with
  | 1, hsz =>
    simp only [Option.some.injEq] at hsz
    unfold paintAt
    refine QNoInt.bind (QNoInt.liftE (idx_noInt _ _ (by omega))) (fun old => ?_)
    refine QNoInt.bind (QNoInt.liftE (NoInt.foldlM _ _ (fun b m hm => (ht m hm).elim (fun h1 h2 => TempModel.get_noInt m ⟨h1, h2⟩ ctx q b fMin fMax rel)) _)) (fun t => ?_)
    exact QNoInt.pure _
  | 2, hsz =>
    simp only [Option.some.injEq] at hsz
    unfold paintAt
    refine QNoInt.bind (QNoInt.liftE (idx_noInt _ _ (by omega))) (fun old => ?_)
    refine QNoInt.bind (QNoInt.foldlM _ _ (fun b m hm => CompModel.get_noInt m (hc m hm) ctx q hq n b) _) (fun t => ?_)
    exact QNoInt.pure _
  | 3, hsz =>
    unfold paintAt
    refine QNoInt.bind (QNoInt.foldlM _ _ (fun b m hm => GrainsModel.get_noInt m (hg m hm) ctx q n b) _) (fun t => ?_)
    exact QNoInt.pure _
  | 4, hsz =>
    unfold paintAt
    exact QNoInt.pure _
  | 5, hsz =>
    unfold paintAt
    refine QNoInt.bind (QNoInt.liftE (NoInt.foldlM _ _ (fun b m hm => VelModel.get_noInt m (hv m hm) ctx q b) _)) (fun t => ?_)
    exact QNoInt.pure _
  | 0, hsz => simp at hsz
  | c + 6, hsz => simp at hsz

/-! ### slabs and faults: the per-request switch -/

theorem LineComp.get_noInt (m : LineComp R) (hw : m.WellFormed) (isFault : Bool) (pd : PlaneDist R) (n : Nat) (old : R) :
    NoInt (m.get isFault pd n old) := by
  cases m with
  | uniform mn mx op comps fr =>
    have h1 : fr.length = comps.length := hw
    simp only [LineComp.get]
    repeat noint_step
  | smooth mn mx side op comps topF bottomF =>
    obtain ⟨h1, h2⟩ := hw
    simp only [LineComp.get]
    repeat noint_step
  | tianWater mn mx op comps spec =>
    simp only [LineComp.get]
    exact NoInt.ok _

theorem LineGrains.get_noInt (m : LineGrains R) (hw : m.WellFormed) (isFault : Bool) (pd : PlaneDist R) (n : Nat) (old : Grains R) :
    NoInt (m.get isFault pd n old) := by
  cases m with
  | uniform mn mx comps mats sizes =>
    obtain ⟨h1, h2⟩ := hw
    simp only [LineGrains.get]
    repeat noint_step
  | randomUniform mn mx comps sizes normalize =>
    simp only [LineGrains.get]
    exact NoInt.ok _
  | randomUniformDeflected mn mx comps basis sizes normalize deflections =>
    simp only [LineGrains.get]
    exact NoInt.ok _
  | drawn g =>
    simp only [LineGrains.get]
    split <;> exact NoInt.ok _

/-! ### the slab-only temperature models -/

theorem effectiveTrenchAndPlateAges_noInt (rp : RidgeParams R) (along : R) : NoInt (effectiveTrenchAndPlateAges rp along) := by
  unfold effectiveTrenchAndPlateAges
  extract_lets
  split
  · split
    · exact NoInt.ok _
    · exact NoInt.error (by decide)
  · exact NoInt.error (by decide)

theorem NoInt.ite {α : Type} {c : Prop} [Decidable c] {x y : Except Err α} (hx : NoInt x) (hy : NoInt y) :
    NoInt (if c then x else y) := by
  split <;> assumption

/-! #### the monotone spline (`Utilities::interpolation`): its table is indexed in range -/

theorem splineSamples_length (m : MassConserving R) (a b c d e f g : R) (fuel i : Nat) :
    (splineSamples m a b c d e f g fuel i).length = fuel := by
  induction fuel generalizing i with
  | zero => rfl
  | succ fuel ih => simp only [splineSamples, List.length_cons, ih]

/-- the first loop of `set_points`: one tangent for each interior point -/
theorem splineTangents_ok (y : List R) (fuel i : Nat) (hf : y.length ≤ i + 2 + fuel) :
    ∃ cs, splineTangents y fuel i = .ok cs ∧ cs.length = y.length - 2 - i := by
  induction fuel generalizing i with
  | zero => exact ⟨[], rfl, by simp only [List.length_nil]; omega⟩
  | succ fuel ih =>
    unfold splineTangents
    by_cases h : i + 2 < y.length
    · obtain ⟨cs, hcs, hl⟩ := ih (i + 1) (by omega)
      simp only [h, if_true, idx_eq_ok_of_lt y i (by omega), idx_eq_ok_of_lt y (i + 1) (by omega), idx_eq_ok_of_lt y (i + 2) h,
        hcs, bind, Except.bind, pure, Except.pure]
      exact ⟨_, rfl, by simp only [List.length_cons, hl]; omega⟩
    · simp only [h, if_false]
      exact ⟨[], rfl, by simp only [List.length_nil]; omega⟩

/-- the second loop of `set_points`: one row for each point but the last -/
theorem splineRows_ok (y cs : List R) (hc : cs.length = y.length) (fuel i : Nat) (hf : y.length ≤ i + 1 + fuel) :
    ∃ rows, splineRows y cs fuel i = .ok rows ∧ rows.length = y.length - 1 - i := by
  induction fuel generalizing i with
  | zero => exact ⟨[], rfl, by simp only [List.length_nil]; omega⟩
  | succ fuel ih =>
    unfold splineRows
    by_cases h : i + 1 < y.length
    · obtain ⟨rows, hrows, hl⟩ := ih (i + 1) (by omega)
      simp only [h, if_true, idx_eq_ok_of_lt cs i (by omega), idx_eq_ok_of_lt cs (i + 1) (by omega), idx_eq_ok_of_lt y i (by omega),
        idx_eq_ok_of_lt y (i + 1) h, hrows, bind, Except.bind, pure, Except.pure]
      exact ⟨_, rfl, by simp only [List.length_cons, hl]; omega⟩
    · simp only [h, if_false]
      exact ⟨[], rfl, by simp only [List.length_nil]; omega⟩

/-- `interpolation::set_points` on at least two values builds one coefficient row per value -/
theorem splineSetPoints_ok (y : List R) (hn : 2 ≤ y.length) :
    ∃ rows, splineSetPoints y = .ok rows ∧ rows.length = y.length := by
  obtain ⟨inner, hinner, hil⟩ := splineTangents_ok y (y.length + 1) 0 (by omega)
  have hcl : ((0 : R) :: inner ++ [y[y.length - 1]'(by omega) - y[y.length - 2]'(by omega)]).length = y.length := by
    simp only [List.cons_append, List.length_cons, List.length_append, List.length_nil, hil]; omega
  obtain ⟨rows, hrows, hrl⟩ := splineRows_ok y _ hcl (y.length + 1) 0 (by omega)
  unfold splineSetPoints
  have hlt : ¬ y.length < 2 := by omega
  simp only [hlt, if_false, hinner, idx_eq_ok_of_lt y (y.length - 1) (by omega), idx_eq_ok_of_lt y (y.length - 2) (by omega),
    hrows, idx_eq_ok_of_lt _ (y.length - 1) (by rw [hcl]; omega), bind, Except.bind, pure, Except.pure]
  exact ⟨_, rfl, by simp only [List.length_append, List.length_cons, List.length_nil, hrl]; omega⟩

theorem natTrunc_le (x : R) (fuel k : Nat) : natTrunc x fuel k ≤ k + fuel := by
  induction fuel generalizing k with
  | zero => simp [natTrunc]
  | succ fuel ih =>
    unfold natTrunc
    split
    · have := ih (k + 1); omega
    · omega

/-- `interpolation::operator()`: on a non-empty table every branch indexes in range; the remaining case — the argument compares neither
way with `0` / `n−1`, a NaN — does not exist over a scalar type whose comparisons are total -/
theorem splineEval_noInt (hcmp : CmpTotal R) (rows : List (SplineRow R)) (hn : 0 < rows.length) (x : R) : NoInt (splineEval rows x) := by
  unfold splineEval
  extract_lets n
  split
  · refine NoInt.bind (idx_noInt _ _ ?_) (fun r _ => NoInt.pure _)
    have := natTrunc_le x (n - 1) 0
    omega
  · rename_i hin
    split
    · exact NoInt.bind (idx_noInt _ _ hn) (fun r _ => NoInt.pure _)
    · rename_i hneg
      split
      · exact NoInt.bind (idx_noInt _ _ (by omega)) (fun r _ => NoInt.pure _)
      · rename_i hgt
        exfalso
        rcases (hcmp x 0).1 with h0 | h0
        · exact hneg h0
        · rcases (hcmp x (Scalar.nat (n - 1))).2 with h1 | h1
          · exact hin ⟨h0, h1⟩
          · exact hgt h1

/-- the profile never indexes out of range: without the spline nothing is indexed; with it the table has `2·(spline_n_points+1) ≥ 2`
rows and is evaluated by `splineEval_noInt` (no NaN) -/
theorem MassConserving.profile_noInt (m : MassConserving R) (hs : m.applySpline = true → CmpTotal R) (a b c d e f g : R) :
    NoInt (m.profile a b c d e f g) := by
  unfold MassConserving.profile
  extract_lets nd iv samples idxd
  split
  · rename_i hon
    have hsl : 2 ≤ (samples ++ [(0.0 : R)]).length := by
      simp only [samples, List.length_append, splineSamples_length, List.length_cons, List.length_nil]; omega
    obtain ⟨rows, hrows, hrl⟩ := splineSetPoints_ok _ hsl
    rw [hrows]
    exact splineEval_noInt (hs hon) rows (by omega) _
  · exact NoInt.pure _

theorem MassConserving.get_noInt (m : MassConserving R) (hw : m.WellFormed) (ctx : Ctx R) (depth g : R) (pd : PlaneDist R)
    (ap : AdditionalParams R) (old : R) : NoInt (m.get ctx depth g pd ap old) := by
  obtain ⟨hr, h0, hpp, hs⟩ := hw
  unfold MassConserving.get
  extract_lets
  split
  · refine NoInt.bind (ridgeDistanceAndSpreading_noInt_general _ _ hr _ _ _ h0 hpp) (fun rp _ => ?_)
    refine NoInt.bind (effectiveTrenchAndPlateAges_noInt _ _) (fun ages _ => ?_)
    obtain ⟨ageAtTrench, effAge⟩ := ages
    refine NoInt.bind (NoInt.ite ?_ (NoInt.pure _)) (fun t _ => NoInt.pure _)
    exact m.profile_noInt hs _ _ _ _ _ _ _
  · exact NoInt.ok _

theorem SegTemp.get_noInt (m : SegTemp R) (hw : m.WellFormed) (isFault : Bool) (ctx : Ctx R) (depth g : R) (pd : PlaneDist R)
    (ap : AdditionalParams R) (old : R) : NoInt (m.get isFault ctx depth g pd ap old) := by
  cases m with
  | basic b => exact NoInt.ok _
  | slab s =>
    cases s with
    | plateModel p => exact NoInt.ok _
    | massConserving mc => exact mc.get_noInt hw ctx depth g pd ap old

theorem linePaintAt_noInt (f : LineFeature R) (ctx : Ctx R) (q : Query R) (h : LineHit R)
    (hc : h.cur.WellFormed) (hn : h.next.WellFormed) (p : Req) (blk : List R) (hsz : p.size? = some blk.length) :
    NoInt (linePaintAt f ctx q h p 0 blk) := by
  obtain ⟨code, n, k⟩ := p
  simp only [Req.size?] at hsz
  match code, hsz with
  | 1, hsz =>
    simp only [Option.some.injEq] at hsz
    unfold linePaintAt
    refine NoInt.bind (idx_noInt _ _ (by omega)) (fun old _ => ?_)
    refine NoInt.bind (NoInt.foldlM _ _ (fun b m hm => SegTemp.get_noInt m (hc.2.2 m hm) _ _ _ _ _ _ b) _) (fun tc _ => ?_)
    refine NoInt.bind (NoInt.foldlM _ _ (fun b m hm => SegTemp.get_noInt m (hn.2.2 m hm) _ _ _ _ _ _ b) _) (fun tn _ => ?_)
    exact NoInt.pure _
  | 2, hsz =>
    simp only [Option.some.injEq] at hsz
    unfold linePaintAt
    refine NoInt.bind (idx_noInt _ _ (by omega)) (fun old _ => ?_)
    refine NoInt.bind (NoInt.foldlM _ _ (fun b m hm => LineComp.get_noInt m (hc.1 m hm) _ _ _ b) _) (fun cc _ => ?_)
    refine NoInt.bind (NoInt.foldlM _ _ (fun b m hm => LineComp.get_noInt m (hn.1 m hm) _ _ _ b) _) (fun cn _ => ?_)
    exact NoInt.pure _
  | 3, hsz =>
    unfold linePaintAt
    refine NoInt.bind (NoInt.foldlM _ _ (fun b m hm => LineGrains.get_noInt m (hc.2.1 m hm) _ _ _ b) _) (fun cc _ => ?_)
    refine NoInt.bind (NoInt.foldlM _ _ (fun b m hm => LineGrains.get_noInt m (hn.2.1 m hm) _ _ _ b) _) (fun cn _ => ?_)
    exact NoInt.pure _
  | 4, hsz =>
    unfold linePaintAt
    exact NoInt.pure _
  | 5, hsz =>
    simp only [Option.some.injEq] at hsz
    unfold linePaintAt
    repeat noint_step
  | 0, hsz => simp at hsz
  | c + 6, hsz => simp at hsz

/-! ### a covering feature, block-wise -/

/-- the models a covering feature will evaluate are well-formed -/
def Hit.WellFormed : Hit R → Prop
  | .areaLike _ ms _ _ _ => ms.WellFormed
  | .line _ h => h.cur.WellFormed ∧ h.next.WellFormed

/-! #### the preparation of a slab's / fault's models for one request (`LineHit.prepare`) -/

theorem NoInt.mapM' {α β : Type} (f : α → Except Err β) (xs : List α) (hf : ∀ a ∈ xs, NoInt (f a)) : NoInt (xs.mapM f) := by
  induction xs with
  | nil => exact NoInt.pure _
  | cons x xs ih =>
    rw [List.mapM_cons]
    refine NoInt.bind (hf x (List.mem_cons_self ..)) (fun b _ => ?_)
    refine NoInt.bind (ih (fun a ha => hf a (List.mem_cons_of_mem _ ha))) (fun bs _ => NoInt.pure _)

/-- every element of a successful `mapM` (exception monad) satisfies the postcondition of its producer -/
theorem mapM_ok_forall {α β : Type} (f : α → Except Err β) (P : β → Prop) (xs : List α) (hf : ∀ a ∈ xs, ∀ b, f a = .ok b → P b)
    (bs : List β) (h : xs.mapM f = .ok bs) : ∀ b ∈ bs, P b := by
  induction xs generalizing bs with
  | nil =>
    simp only [List.mapM_nil, pure, Except.pure, Except.ok.injEq] at h
    subst h; intro b hb; cases hb
  | cons x xs ih =>
    rw [List.mapM_cons] at h
    cases hx : f x with
    | error e => simp [hx, bind, Except.bind] at h
    | ok b0 =>
      cases hxs : xs.mapM f with
      | error e => simp [hx, hxs, bind, Except.bind] at h
      | ok bs0 =>
        simp [hx, hxs, bind, Except.bind, pure, Except.pure] at h
        subst h
        intro b hb
        rcases List.mem_cons.1 hb with rfl | hb
        · exact hf x (List.mem_cons_self ..) _ hx
        · exact ih (fun a ha => hf a (List.mem_cons_of_mem _ ha)) bs0 hxs b hb

theorem QNoInt.mapM {α β : Type} (f : α → QM G β) (xs : List α) (hf : ∀ a ∈ xs, QNoInt (f a)) : QNoInt (xs.mapM f) := by
  induction xs with
  | nil => simpa using QNoInt.pure (G := G) ([] : List β)
  | cons x xs ih =>
    rw [List.mapM_cons]
    refine QNoInt.bind (hf x (List.mem_cons_self ..)) (fun b => ?_)
    exact QNoInt.bind (ih (fun a ha => hf a (List.mem_cons_of_mem _ ha))) (fun bs => QNoInt.pure _)

theorem Post.mapM_mem {α β : Type} (f : α → QM G β) (P : β → Prop) (xs : List α) (hf : ∀ a ∈ xs, Post (f a) P) :
    Post (xs.mapM f) (fun bs => ∀ b ∈ bs, P b) := by
  induction xs with
  | nil => simpa using Post.pure (G := G) (a := ([] : List β)) (P := fun bs => ∀ b ∈ bs, P b) (fun b hb => by cases hb)
  | cons x xs ih =>
    rw [List.mapM_cons]
    refine Post.bind (hf x (List.mem_cons_self ..)) (fun b hb => ?_)
    refine Post.bind (ih (fun a ha => hf a (List.mem_cons_of_mem _ ha))) (fun bs hbs => Post.pure ?_)
    intro b' hb'
    rcases List.mem_cons.1 hb' with rfl | hb'
    · exact hb
    · exact hbs b' hb'

/-- a water-content model evaluates the world's temperature only; what it is replaced by is well-formed -/
theorem LineComp.prepare_noInt (m : LineComp R) (isFault : Bool) (q : Query R) (hq : NoInt (q.worldT ())) (pd : PlaneDist R) :
    NoInt (m.prepare isFault q pd) := by
  cases m with
  | tianWater mn mx op comps spec =>
    simp only [LineComp.prepare]
    split
    · exact NoInt.bind hq (fun _ _ => NoInt.pure _)
    · exact NoInt.pure _
  | uniform mn mx op comps fr => exact NoInt.pure _
  | smooth mn mx side op comps topF bottomF => exact NoInt.pure _

theorem LineComp.prepare_wf (m : LineComp R) (hw : m.WellFormed) (isFault : Bool) (q : Query R) (pd : PlaneDist R)
    (m' : LineComp R) (h : m.prepare isFault q pd = .ok m') : m'.WellFormed := by
  cases m with
  | tianWater mn mx op comps spec =>
    simp only [LineComp.prepare] at h
    split at h
    · cases ht : q.worldT () with
      | error e => simp [ht, bind, Except.bind] at h
      | ok t =>
        simp [ht, bind, Except.bind, pure, Except.pure] at h
        subst h
        simp [LineComp.WellFormed]
    · simp only [pure, Except.pure, Except.ok.injEq] at h; subst h; exact hw
  | uniform mn mx op comps fr =>
    simp only [LineComp.prepare, pure, Except.pure, Except.ok.injEq] at h; subst h; exact hw
  | smooth mn mx side op comps topF bottomF =>
    simp only [LineComp.prepare, pure, Except.pure, Except.ok.injEq] at h; subst h; exact hw

theorem LineGrains.prepare_noInt (m : LineGrains R) (hw : m.WellFormed) (isFault : Bool) (pd : PlaneDist R) (n : Nat) (g0 : Grains R) :
    QNoInt (G := G) (m.prepare isFault pd n g0) := by
  cases m with
  | uniform mn mx comps mats sizes => exact QNoInt.pure _
  | drawn g => exact QNoInt.pure _
  | randomUniform mn mx comps sizes normalize =>
    obtain ⟨h1, h2⟩ := hw
    simp only [LineGrains.prepare]
    repeat (first | exact drawMatrices_noInt _ _ _ | exact drawSizes_noInt _ _ _ | qnoint_step)
  | randomUniformDeflected mn mx comps basis sizes normalize deflections =>
    obtain ⟨h1, h2, h3, h4⟩ := hw
    simp only [LineGrains.prepare]
    repeat (first | exact drawMatrices_noInt _ _ _ | exact drawSizes_noInt _ _ _ | qnoint_step)

theorem LineGrains.prepare_wf (m : LineGrains R) (hw : m.WellFormed) (isFault : Bool) (pd : PlaneDist R) (n : Nat) (g0 : Grains R) :
    Post (G := G) (m.prepare isFault pd n g0) LineGrains.WellFormed := by
  cases m with
  | uniform mn mx comps mats sizes => exact Post.pure hw
  | drawn g => exact Post.pure hw
  | randomUniform mn mx comps sizes normalize =>
    simp only [LineGrains.prepare]
    repeat (first | exact Post.pure hw | exact Post.pure (by simp [LineGrains.WellFormed]) | refine Post.bind (Post.triv _) (fun _ _ => ?_) | split)
  | randomUniformDeflected mn mx comps basis sizes normalize deflections =>
    simp only [LineGrains.prepare]
    repeat (first | exact Post.pure hw | exact Post.pure (by simp [LineGrains.WellFormed]) | refine Post.bind (Post.triv _) (fun _ _ => ?_) | split)

theorem Segment.prepare_noInt (s : Segment R) (hw : s.WellFormed) (isFault : Bool) (q : Query R) (hq : NoInt (q.worldT ()))
    (pd : PlaneDist R) (p : Req) (g0 : Grains R) : QNoInt (G := G) (s.prepare isFault q pd p g0) := by
  unfold Segment.prepare
  split
  · exact QNoInt.bind (QNoInt.liftE (NoInt.mapM' _ _ (fun m _ => m.prepare_noInt isFault q hq pd))) (fun _ => QNoInt.pure _)
  · exact QNoInt.bind (QNoInt.mapM _ _ (fun m hm => m.prepare_noInt (hw.2.1 m hm) isFault pd p.n g0)) (fun _ => QNoInt.pure _)
  · exact QNoInt.pure _

theorem Segment.prepare_wf (s : Segment R) (hw : s.WellFormed) (isFault : Bool) (q : Query R) (pd : PlaneDist R) (p : Req)
    (g0 : Grains R) : Post (G := G) (s.prepare isFault q pd p g0) Segment.WellFormed := by
  unfold Segment.prepare
  split
  · refine Post.bind (P := fun comps => ∀ m ∈ comps, LineComp.WellFormed m) (Post.liftE (fun comps hc => ?_)) (fun comps hc => Post.pure ⟨hc, hw.2⟩)
    exact mapM_ok_forall _ _ _ (fun m hm m' hm' => m.prepare_wf (hw.1 m hm) isFault q pd m' hm') comps hc
  · refine Post.bind (Post.mapM_mem _ LineGrains.WellFormed _ (fun m hm => m.prepare_wf (hw.2.1 m hm) isFault pd p.n g0))
      (fun grains hg => Post.pure ⟨hw.1, hg, hw.2.2⟩)
  · exact Post.pure hw

theorem linePaintAtM_noInt (f : LineFeature R) (ctx : Ctx R) (q : Query R) (hq : NoInt (q.worldT ())) (h : LineHit R)
    (hc : h.cur.WellFormed) (hn : h.next.WellFormed) (p : Req) (blk : List R) (hsz : p.size? = some blk.length) :
    QNoInt (G := G) (linePaintAtM f ctx q h p 0 blk) := by
  unfold linePaintAtM LineHit.prepare
  refine QNoInt.bindPost (P := fun h' => h'.cur.WellFormed ∧ h'.next.WellFormed) ?_ ?_
    (fun h' hw' => QNoInt.liftE (linePaintAt_noInt f ctx q h' hw'.1 hw'.2 p blk hsz))
  · exact QNoInt.bind (h.cur.prepare_noInt hc f.isFault q hq h.pd p _) fun _ =>
      QNoInt.bind (h.next.prepare_noInt hn f.isFault q hq h.pd p _) fun _ => QNoInt.pure _
  · exact Post.bind (h.cur.prepare_wf hc f.isFault q h.pd p _) fun cur hcur =>
      Post.bind (h.next.prepare_wf hn f.isFault q h.pd p _) fun next hnext => Post.pure ⟨hcur, hnext⟩

theorem Hit.paintAt_noInt (hit : Hit R) (hw : hit.WellFormed) (ctx : Ctx R) (q : Query R) (hq : NoInt (q.worldT ())) (p : Req)
    (blk : List R) (hsz : p.size? = some blk.length) : QNoInt (G := G) (hit.paintAt ctx q p 0 blk) := by
  cases hit with
  | areaLike tag ms a b r => exact Gwb.paintAt_noInt tag ms hw ctx q hq a b r p blk hsz
  | line f h => exact linePaintAtM_noInt f ctx q hq h hw.1 hw.2 p blk hsz

theorem paintBlocks_noInt (hit : Hit R) (hw : hit.WellFormed) (ctx : Ctx R) (q : Query R) (hq : NoInt (q.worldT ()))
    (ps : List Req) (bs : List (List R)) (hf : Fits ps bs) : QNoInt (G := G) (paintBlocks hit ctx q ps bs) := by
  induction ps generalizing bs with
  | nil => cases bs <;> exact QNoInt.pure _
  | cons p ps ih =>
    cases bs with
    | nil => exact QNoInt.pure _
    | cons b bs =>
      obtain ⟨h1, h2⟩ := hf
      unfold paintBlocks
      refine QNoInt.bind (hit.paintAt_noInt hw ctx q hq p b h1) (fun b' => ?_)
      refine QNoInt.bind (ih bs h2) (fun bs' => QNoInt.pure _)

/-- a feature whose guards do not index out of range and whose hit is well-formed never reports `internal` -/
theorem Feature.applyBlocks_noInt (f : Feature R) (ctx : Ctx R) (q : Query R) (hq : NoInt (q.worldT ())) (ps : List Req)
    (bs : List (List R)) (hf : Fits ps bs) (hcov : NoInt (f.cover ctx q)) (hhit : ∀ hit, f.cover ctx q = .ok (some hit) → hit.WellFormed) :
    QNoInt (G := G) (f.applyBlocks ctx q ps bs) := by
  intro g
  unfold Feature.applyBlocks
  cases hc : f.cover ctx q with
  | error e => rw [hc] at hcov; simpa [NoInt] using hcov
  | ok o =>
    cases o with
    | none => simp
    | some hit => exact paintBlocks_noInt hit (hhit hit hc) ctx q hq ps bs hf g

theorem embedBlocks_ne_internal (pre : List R) (x : Except Err (List (List R) × G)) (h : x ≠ .error .internal) :
    embedBlocks pre x ≠ .error .internal := by
  cases x with
  | error e => simpa [embedBlocks] using h
  | ok r => obtain ⟨a, b⟩ := r; simp [embedBlocks]

/-! ### no internal error *and* a postcondition -/

/-- `x` does not end in `internal`, and if it succeeds its value satisfies `P` -/
def Safe {α : Type} (P : α → Prop) (x : Except Err α) : Prop :=
  match x with
  | .ok a => P a
  | .error e => e ≠ .internal

theorem Safe.ok {α : Type} {P : α → Prop} {a : α} (h : P a) : Safe P (.ok a : Except Err α) := h
theorem Safe.pure {α : Type} {P : α → Prop} {a : α} (h : P a) : Safe P (Pure.pure a : Except Err α) := h
theorem Safe.error {α : Type} {P : α → Prop} {e : Err} (h : e ≠ .internal) : Safe P (.error e : Except Err α) := h
theorem Safe.noInt {α : Type} {P : α → Prop} {x : Except Err α} (h : Safe P x) : NoInt x := by
  cases x with
  | ok a => exact NoInt.ok a
  | error e => exact NoInt.error h
theorem Safe.post {α : Type} {P : α → Prop} {x : Except Err α} (h : Safe P x) {a : α} (hx : x = .ok a) : P a := by
  subst hx; exact h
theorem Safe.mono {α : Type} {P Q : α → Prop} {x : Except Err α} (h : Safe P x) (hpq : ∀ a, P a → Q a) : Safe Q x := by
  cases x with
  | ok a => exact hpq a h
  | error e => exact h
theorem Safe.of_noInt {α : Type} {x : Except Err α} (h : NoInt x) : Safe (fun _ => True) x := by
  cases x with
  | ok a => trivial
  | error e => simpa [NoInt, Safe] using h
theorem Safe.bind {α β : Type} {P : α → Prop} {Q : β → Prop} {x : Except Err α} {f : α → Except Err β}
    (hx : Safe P x) (hf : ∀ a, P a → Safe Q (f a)) : Safe Q (x >>= f) := by
  cases x with
  | error e => exact hx
  | ok a => exact hf a hx
theorem Safe.idx {α : Type} (xs : List α) (i : Nat) (h : i < xs.length) : Safe (fun v => xs[i]? = some v) (idx xs i) := by
  rw [idx_eq_ok_of_lt xs i h]; exact List.getElem?_eq_getElem h

/-! ### the closest point on the Bezier curve -/

theorem closestOf_index (k : Cubic R) (p0 p1 c0 c1 cp : P2 R) (i : Nat) (est msd : R) (oc : P2 R) :
    (closestOf k p0 p1 c0 c1 cp i est msd oc).index = i := rfl

theorem closestCartesianLoop_safe (bz : Bezier R) (cp : P2 R) (hpts : bz.control.length + 1 ≤ bz.points.length)
    (fuel i : Nat) (minSq : R) (best : Option (ClosestPoint R)) (hb : ∀ c, best = some c → c.index < bz.control.length) :
    Safe (fun r => ∀ c, r = some c → c.index < bz.control.length) (closestCartesianLoop bz cp fuel i minSq best) := by
  induction fuel generalizing i minSq best with
  | zero => exact Safe.ok hb
  | succ fuel ih =>
    unfold closestCartesianLoop
    split
    · rename_i hi
      refine Safe.bind (Safe.of_noInt (idx_noInt _ _ (by omega))) (fun p1 _ => ?_)
      refine Safe.bind (Safe.of_noInt (idx_noInt _ _ (by omega))) (fun p2 _ => ?_)
      refine Safe.bind (Safe.of_noInt (idx_noInt _ _ hi)) (fun cc _ => ?_)
      obtain ⟨c0, c1⟩ := cc
      dsimp only
      split
      · exact Safe.error (by decide)
      · split
        · exact ih _ _ _ (fun c hc => by cases hc; rw [closestOf_index]; exact hi)
        · exact ih _ _ _ hb
    · exact Safe.ok hb

theorem closestSphericalLoop_safe (bz : Bezier R) (cp : P2 R) (cl : R) (hpts : bz.control.length + 1 ≤ bz.points.length)
    (fuel i : Nat) (minSq : R) (best : Option (ClosestPoint R)) (hb : ∀ c, best = some c → c.index < bz.control.length) :
    Safe (fun r => ∀ c, r = some c → c.index < bz.control.length) (closestSphericalLoop bz cp cl fuel i minSq best) := by
  induction fuel generalizing i minSq best with
  | zero => exact Safe.ok hb
  | succ fuel ih =>
    unfold closestSphericalLoop
    split
    · rename_i hi
      refine Safe.bind (Safe.of_noInt (idx_noInt _ _ (by omega))) (fun p1 _ => ?_)
      refine Safe.bind (Safe.of_noInt (idx_noInt _ _ (by omega))) (fun p2 _ => ?_)
      refine Safe.bind (Safe.of_noInt (idx_noInt _ _ hi)) (fun cc _ => ?_)
      obtain ⟨c0, c1⟩ := cc
      dsimp only
      split
      · exact Safe.error (by decide)
      · split
        · exact ih _ _ _ (fun c hc => by cases hc; rw [closestOf_index]; exact hi)
        · exact ih _ _ _ hb
    · exact Safe.ok hb

/-- **the Bezier search reports a piece of the curve**: the index of the closest point is the index of a cubic -/
theorem Bezier.closestPoint_safe (bz : Bezier R) (hpts : bz.control.length + 1 ≤ bz.points.length) (sph : Bool) (cp : P2 R) :
    Safe (fun r => ∀ c, r = some c → c.index < bz.control.length) (bz.closestPoint sph cp) := by
  unfold Bezier.closestPoint
  split
  · exact closestSphericalLoop_safe bz cp _ hpts _ _ _ _ (fun _ h => by cases h)
  · exact closestCartesianLoop_safe bz cp hpts _ _ _ _ (fun _ h => by cases h)

/-! ### the segment loop -/

theorem segmentStep_segment (dm : DepthMethod) (op : Bool) (sr fr : R) (c2 : P2 R) (ac an : P2 R) (lc ln : R) (i : Nat)
    (s : SegState R) :
    (segmentStep dm op sr fr c2 ac an lc ln i s).segment = s.segment ∨ (segmentStep dm op sr fr c2 ac an lc ln i s).segment = i := by
  unfold segmentStep
  extract_lets inner0 inner1 inner2 corr s5 s4 deg90 angTop angBot len diff endSeg1 s3 bsEs bsCp c1 c2' pb side radius cosTop
    tanTop cy ccybs center bspc sinD cosD endSeg s2 cpcr cpcrNorm dotp cpa2 cpa1 cpa sgn s1 taa1 taa s0 aa1 aa
  have h5 : s5.segment = s.segment := by simp only [s5]; split <;> rfl
  have h4 : s4.segment = s.segment := h5
  have h1 : s1.segment = s.segment := by
    simp only [s1]
    repeat' split
    all_goals exact h4
  have h0 : s0.segment = s.segment ∨ s0.segment = i := by
    simp only [s0]
    split
    · right; rfl
    · left; exact h1
  split
  · left; exact h4
  · exact h0

theorem segmentLoop_safe (dm : DepthMethod) (op : Bool) (sr fr : R) (c2 : P2 R) (angsCur angsNext : List (P2 R))
    (lensCur lensNext : List R) (k : Nat) (h1 : angsCur.length = k) (h2 : angsNext.length = k) (h3 : lensCur.length = k)
    (h4 : lensNext.length = k) (fuel i : Nat) (s : SegState R) (hs : s.segment < k) :
    Safe (fun s' => s'.segment < k) (segmentLoop dm op sr fr c2 angsCur angsNext lensCur lensNext fuel i s) := by
  induction fuel generalizing i s with
  | zero => exact Safe.ok hs
  | succ fuel ih =>
    unfold segmentLoop
    split
    · rename_i hi
      refine Safe.bind (Safe.of_noInt (idx_noInt _ _ (by omega))) (fun ac _ => ?_)
      refine Safe.bind (Safe.of_noInt (idx_noInt _ _ (by omega))) (fun an _ => ?_)
      refine Safe.bind (Safe.of_noInt (idx_noInt _ _ (by omega))) (fun lc _ => ?_)
      refine Safe.bind (Safe.of_noInt (idx_noInt _ _ (by omega))) (fun ln _ => ?_)
      refine ih _ _ ?_
      rcases segmentStep_segment dm op sr fr c2 ac an lc ln i s with h | h <;> rw [h] <;> omega
    · exact Safe.ok hs

theorem mem_of_getElem? {α : Type} {xs : List α} {i : Nat} {a : α} (h : xs[i]? = some a) : a ∈ xs :=
  List.mem_of_getElem? h

/-- **`distance_point_from_curved_planes` indexes in range and reports an existing section and segment** -/
theorem distancePointFromCurvedPlanes_safe (coord : CoordSys R) (checkPoint nat : P3 R) (reference : P2 R)
    (pointList : List (P2 R)) (lengths : List (List R)) (angles : List (List (P2 R))) (sr : R) (op : Bool) (bz : Bezier R)
    (hn : 2 ≤ pointList.length) (hbp : bz.points.length = pointList.length) (hbc : bz.control.length + 1 = pointList.length)
    (hl : lengths.length = pointList.length) (ha : angles.length = pointList.length)
    (k : Nat) (hk : 0 < k) (hlk : ∀ l ∈ lengths, l.length = k) (hak : ∀ a ∈ angles, a.length = k) :
    Safe (fun pd => pd.sectionIdx + 1 < pointList.length ∧ pd.segment < k)
      (distancePointFromCurvedPlanes coord checkPoint nat reference pointList lengths angles sr op bz) := by
  unfold distancePointFromCurvedPlanes
  extract_lets sph cart cs cs2d
  refine Safe.bind (bz.closestPoint_safe (by omega) sph cs2d) (fun cpo hcpo => ?_)
  split
  · exact Safe.pure ⟨by show 0 + 1 < _; omega, hk⟩
  · rename_i cp
    have hcp : cp.index + 1 < pointList.length := by have := hcpo cp rfl; omega
    extract_lets cl2d clS clC iSec fraction clB clBC yAxis0 xAxis0 dl lonShift csAl cs2dAl nrm f y vx vy vz refp side kk dref abn localRef frame
    have hi : iSec + 1 < pointList.length := hcp
    refine Safe.bind (Safe.idx _ _ (by omega)) (fun angsCur hac => ?_)
    refine Safe.bind (Safe.idx _ _ (by omega)) (fun angsNext han => ?_)
    refine Safe.bind (Safe.idx _ _ (by omega)) (fun lensCur hlc => ?_)
    refine Safe.bind (Safe.idx _ _ (by omega)) (fun lensNext hln => ?_)
    have e1 := hak _ (mem_of_getElem? hac)
    have e2 := hak _ (mem_of_getElem? han)
    have e3 := hlk _ (mem_of_getElem? hlc)
    have e4 := hlk _ (mem_of_getElem? hln)
    refine Safe.bind (x := frame) (P := fun _ => True) ?_ (fun fr _ => ?_)
    · refine Safe.of_noInt ?_
      have hkk : kk < pointList.length := by simp only [kk]; split <;> omega
      simp only [frame]
      repeat noint_step
    · split
      · refine Safe.bind (Safe.of_noInt (idx_noInt _ _ (by omega))) (fun a0 _ => ?_)
        refine Safe.bind (Safe.of_noInt (idx_noInt _ _ (by omega))) (fun a1 _ => ?_)
        exact Safe.pure ⟨hi, hk⟩
      · extract_lets check2d begin0 s0
        refine Safe.bind (segmentLoop_safe _ _ _ _ _ _ _ _ _ k e1 e2 e3 e4 _ _ s0 hk) (fun s hs => ?_)
        refine Safe.pure ⟨?_, hs⟩
        show (if s.found = true then iSec else 0) + 1 < _
        split <;> omega

/-! ### slabs and faults: guards and geometry -/

theorem minBy_noInt (xs : List R) (h : 0 < xs.length) : NoInt (minBy xs) := by
  cases xs with
  | nil => simp at h
  | cons x xs => exact NoInt.ok _

theorem maxBy_noInt (xs : List R) (h : 0 < xs.length) : NoInt (maxBy xs) := by
  cases xs with
  | nil => simp at h
  | cons x xs => exact NoInt.ok _

theorem LineFeature.bbox_noInt (f : LineFeature R) (h : 0 < f.coords.length) (coord : CoordSys R) : NoInt (f.bbox coord) := by
  unfold LineFeature.bbox
  repeat (first | exact minBy_noInt _ (by simpa using h) | exact maxBy_noInt _ (by simpa using h) | noint_step)

theorem LineFeature.preTest_noInt (f : LineFeature R) (h : 0 < f.coords.length) (ctx : Ctx R) (q : Query R) :
    NoInt (f.preTest ctx q) := by
  unfold LineFeature.preTest
  repeat (first | exact f.bbox_noInt h _ | noint_step)

/-- what a hit must satisfy for the per-request switch -/
def LineHit.WellFormed (h : LineHit R) : Prop := h.cur.WellFormed ∧ h.next.WellFormed

theorem LineFeature.coversBody_safe (f : LineFeature R) (hw : f.WellFormed) (ctx : Ctx R) (q : Query R) :
    Safe (fun o => ∀ h, o = some h → h.WellFormed) (f.coversBody ctx q) := by
  obtain ⟨hn, hsec, ⟨k, hk, hsk⟩, ⟨hbp, hbc, hba⟩, hseg⟩ := hw
  unfold LineFeature.coversBody
  extract_lets sph depth sr
  have hl : ∀ l ∈ f.lengths, l.length = k := by
    intro l hl
    simp only [LineFeature.lengths, List.mem_map] at hl
    obtain ⟨sec, hsec', rfl⟩ := hl
    simpa using hsk sec hsec'
  have ha : ∀ a ∈ f.anglesRad, a.length = k := by
    intro a ha
    simp only [LineFeature.anglesRad, List.mem_map] at ha
    obtain ⟨sec, hsec', rfl⟩ := ha
    simpa using hsk sec hsec'
  refine Safe.bind (distancePointFromCurvedPlanes_safe ctx.coord q.pt q.nat f.reference f.coords f.lengths f.anglesRad sr
    f.isFault f.bezier hn (by rw [hbp]) (by omega) (by simp [LineFeature.lengths, hsec]) (by simp [LineFeature.anglesRad, hsec])
    k hk hl ha) (fun pd hpd => ?_)
  obtain ⟨hpd1, hpd2⟩ := hpd
  split
  · exact Safe.pure (fun _ h => by cases h)
  refine Safe.bind (Safe.idx _ _ (by omega)) (fun secCur hsc => ?_)
  refine Safe.bind (Safe.idx _ _ (by omega)) (fun secNext hsn => ?_)
  have m1 := mem_of_getElem? hsc
  have m2 := mem_of_getElem? hsn
  have l1 := hsk _ m1
  have l2 := hsk _ m2
  refine Safe.bind (Safe.idx _ _ (by omega)) (fun cur hcur => ?_)
  refine Safe.bind (Safe.idx _ _ (by omega)) (fun next hnext => ?_)
  have w1 := hseg _ m1 _ (mem_of_getElem? hcur)
  have w2 := hseg _ m2 _ (mem_of_getElem? hnext)
  extract_lets sf gf thUp thDown thLocal
  split
  · exact Safe.pure (fun _ h => by cases h)
  split
  · exact Safe.pure (fun _ h => by cases h)
  split
  · exact Safe.pure (fun h hh => by cases hh; exact ⟨w1, w2⟩)
  · exact Safe.pure (fun _ h => by cases h)

theorem LineFeature.covers_safe (f : LineFeature R) (hw : f.WellFormed) (ctx : Ctx R) (q : Query R) :
    Safe (fun o => ∀ h, o = some h → h.WellFormed) (f.covers ctx q) := by
  unfold LineFeature.covers
  refine Safe.bind (Safe.of_noInt (f.preTest_noInt (by have := hw.1; omega) ctx q)) (fun b _ => ?_)
  split
  · exact Safe.pure (fun _ h => by cases h)
  · exact f.coversBody_safe hw ctx q

theorem AreaFeature.covers_noInt (f : AreaFeature R) (hw : f.rng.WellFormed) (ctx : Ctx R) (q : Query R) : NoInt (f.covers ctx q) := by
  have h1 := fun b sph p => f.rng.minS.localOr_noInt hw.1 b sph p
  have h2 := fun b sph p => f.rng.maxS.localOr_noInt hw.2 b sph p
  unfold AreaFeature.covers
  extract_lets sph sp
  repeat (first | exact h1 _ _ _ | exact h2 _ _ _ | noint_step)

theorem PlumeFeature.covers_noInt (f : PlumeFeature R) (ctx : Ctx R) (q : Query R) (h : f.ListsOk) : NoInt (f.covers ctx q) := by
  obtain ⟨hc, hd, hs, he, hr⟩ := h
  unfold PlumeFeature.covers
  refine NoInt.bind (upperBound_noInt _ _) (fun up hup => ?_)
  have hup := upperBound_le _ _ _ hup
  repeat noint_step

/-! ### features and the world -/

theorem Feature.cover_noInt (f : Feature R) (hw : f.WellFormed) (ctx : Ctx R) (q : Query R) : NoInt (f.cover ctx q) := by
  cases f with
  | area a =>
    have := a.covers_noInt hw.1 ctx q
    simp only [Feature.cover]
    cases h : a.covers ctx q with
    | error e => rw [h] at this; simpa [Except.map, NoInt] using this
    | ok o => simp [Except.map, NoInt]
  | plume p =>
    have := p.covers_noInt ctx q hw.1
    simp only [Feature.cover]
    cases h : p.covers ctx q with
    | error e => rw [h] at this; simpa [Except.map, NoInt] using this
    | ok o => simp [Except.map, NoInt]
  | line l =>
    have := (l.covers_safe hw ctx q).noInt
    simp only [Feature.cover]
    cases h : l.covers ctx q with
    | error e => rw [h] at this; simpa [Except.map, NoInt] using this
    | ok o => simp [Except.map, NoInt]

theorem Feature.cover_hit_wf (f : Feature R) (hw : f.WellFormed) (ctx : Ctx R) (q : Query R) (hit : Hit R)
    (h : f.cover ctx q = .ok (some hit)) : hit.WellFormed := by
  cases f with
  | area a =>
    simp only [Feature.cover] at h
    cases hc : a.covers ctx q with
    | error e => simp [hc, Except.map] at h
    | ok o => cases o <;> simp [hc, Except.map] at h; subst h; exact hw.2
  | plume p =>
    simp only [Feature.cover] at h
    cases hc : p.covers ctx q with
    | error e => simp [hc, Except.map] at h
    | ok o => cases o <;> simp [hc, Except.map] at h; subst h; exact hw.2
  | line l =>
    simp only [Feature.cover] at h
    cases hc : l.covers ctx q with
    | error e => simp [hc, Except.map] at h
    | ok o =>
      cases o with
      | none => simp [hc, Except.map] at h
      | some lh =>
        simp [hc, Except.map] at h; subst h
        exact (l.covers_safe hw ctx q).post hc lh rfl

theorem Feature.applyBlocks_noInt_of_wf (f : Feature R) (hw : f.WellFormed) (ctx : Ctx R) (q : Query R) (hq : NoInt (q.worldT ()))
    (ps : List Req) (bs : List (List R)) (hf : Fits ps bs) : QNoInt (G := G) (f.applyBlocks ctx q ps bs) :=
  f.applyBlocks_noInt ctx q hq ps bs hf (f.cover_noInt hw ctx q) (f.cover_hit_wf hw ctx q)

/-- a well-formed feature applied to a fitting output vector never reports `internal` (`hq`: nor does the world's temperature,
which the water-content models ask for; `World.props3` supplies a query for which this holds, `World.temperaturePure_noInt`) -/
theorem Feature.apply_noInt (f : Feature R) (hw : f.WellFormed) (ctx : Ctx R) (q : Query R) (hq : NoInt (q.worldT ()))
    (ps : List Req) (bs : List (List R)) (hf : Fits ps bs) (g : G) :
    f.apply ctx q (ps.zip (entries ps)) bs.flatten g ≠ .error .internal := by
  rw [Feature.apply_blocks f ctx q ps bs hf g]
  exact embedBlocks_ne_internal _ _ (f.applyBlocks_noInt_of_wf hw ctx q hq ps bs hf g)

theorem QNoInt.foldlM_inv {α β : Type} (f : β → α → QM G β) (P : β → Prop) (xs : List α)
    (hP : ∀ b a, a ∈ xs → P b → Post (f b a) P) (hf : ∀ b a, a ∈ xs → P b → QNoInt (f b a)) (b : β) (hb : P b) :
    QNoInt (xs.foldlM f b) := by
  induction xs generalizing b with
  | nil => simpa [List.foldlM] using QNoInt.pure (G := G) b
  | cons x xs ih =>
    rw [List.foldlM_cons]
    refine QNoInt.bindPost (hf b x (List.mem_cons_self ..) hb) (hP b x (List.mem_cons_self ..) hb) (fun b' hb' => ?_)
    exact ih (fun b a ha => hP b a (List.mem_cons_of_mem _ ha)) (fun b a ha => hf b a (List.mem_cons_of_mem _ ha)) b' hb'

theorem featuresBlocks_noInt (fs : List (Feature R)) (hw : ∀ f ∈ fs, f.WellFormed) (ctx : Ctx R) (q : Query R)
    (hq : NoInt (q.worldT ())) (ps : List Req)
    (bs : List (List R)) (hf : Fits ps bs) : QNoInt (G := G) (featuresBlocks fs ctx q ps bs) := by
  unfold featuresBlocks
  exact QNoInt.foldlM_inv _ (fun bs => Fits ps bs) fs
    (fun b f _ hb => Feature.applyBlocks_fits f ctx q ps b hb)
    (fun b f hf' hb => f.applyBlocks_noInt_of_wf (hw f hf') ctx q hq ps b hb) bs hf

theorem NoInt.mapM {α β : Type} (f : α → Except Err β) (xs : List α) (hf : ∀ a ∈ xs, NoInt (f a)) : NoInt (xs.mapM f) := by
  induction xs with
  | nil => exact NoInt.pure _
  | cons x xs ih =>
    rw [List.mapM_cons]
    refine NoInt.bind (hf x (List.mem_cons_self ..)) (fun b _ => ?_)
    refine NoInt.bind (ih (fun a ha => hf a (List.mem_cons_of_mem _ ha))) (fun bs _ => NoInt.pure _)

theorem initBlock_noInt (ctx : Ctx R) (gn depth : R) (p : Req) : NoInt (initBlock ctx gn depth p) := by
  unfold initBlock
  repeat noint_step

/-! #### the world's temperature as the water-content models ask for it -/

theorem Feature.applyTemp_noInt (f : Feature R) (hw : f.WellFormed) (ctx : Ctx R) (q : Query R) (old : R) :
    NoInt (f.applyTemp ctx q old) := by
  cases f with
  | area a =>
    simp only [Feature.applyTemp, AreaFeature.applyTemp]
    refine NoInt.bind (a.covers_noInt hw.1 ctx q) (fun o _ => ?_)
    split
    · exact NoInt.pure _
    · exact NoInt.foldlM _ _ (fun b m hm => m.get_noInt (hw.2.1 m hm) ctx q b _ _ _) _
  | plume p =>
    simp only [Feature.applyTemp, PlumeFeature.applyTemp]
    refine NoInt.bind (p.covers_noInt ctx q hw.1) (fun o _ => ?_)
    split
    · exact NoInt.pure _
    · exact NoInt.foldlM _ _ (fun b m hm => m.get_noInt (hw.2.1 m hm) ctx q b _ _ _) _
  | line l =>
    simp only [Feature.applyTemp, LineFeature.applyTemp]
    refine NoInt.bind (l.covers_safe hw ctx q).noInt (fun o ho => ?_)
    split
    · exact NoInt.pure _
    · rename_i h
      have hwf := (l.covers_safe hw ctx q).post ho h rfl
      refine NoInt.bind (NoInt.foldlM _ _ (fun b m hm => SegTemp.get_noInt m (hwf.1.2.2 m hm) _ _ _ _ _ _ b) _) (fun _ _ => ?_)
      refine NoInt.bind (NoInt.foldlM _ _ (fun b m hm => SegTemp.get_noInt m (hwf.2.2.2 m hm) _ _ _ _ _ _ b) _) (fun _ _ => ?_)
      exact NoInt.pure _

/-- the world temperature a query hands to the water-content models never indexes out of range either -/
theorem World.temperaturePure_noInt (w : World R) (hw : w.WellFormed) (pt : P3 R) (depth : R) :
    NoInt (w.temperaturePure pt depth) := by
  unfold World.temperaturePure
  simp only
  split
  · exact NoInt.ok _
  · exact NoInt.foldlM _ _ (fun b f hf => f.applyTemp_noInt (hw f hf) w.ctx _ b) _

theorem World.query_noInt (w : World R) (hw : w.WellFormed) (pt : P3 R) (depth : R) : NoInt ((w.query pt depth).worldT ()) :=
  w.temperaturePure_noInt hw pt depth

/-- **a query on a well-formed world never indexes out of range** (3-D interface) -/
theorem World.props3_noInt (w : World R) (hw : w.WellFormed) (pt : P3 R) (depth : R) (ps : List Req) (g : G) :
    w.props3 pt depth ps g ≠ .error .internal := by
  rw [World.props3_blocks]
  refine embedBlocks_ne_internal _ _ ?_
  unfold World.props3Blocks
  have hinit := NoInt.mapM (initBlock w.ctx w.ctx.gravity depth) ps (fun p _ => initBlock_noInt _ _ _ p)
  cases hm : ps.mapM (initBlock w.ctx w.ctx.gravity depth) with
  | error e => rw [hm] at hinit; simpa [NoInt] using hinit
  | ok bs =>
    have hf := initBlocks_fits w.ctx w.ctx.gravity depth ps bs hm
    simp only
    split
    · simp
    · have := featuresBlocks_noInt (G := G) w.features hw w.ctx (w.query pt depth) (w.query_noInt hw pt depth) ps bs hf g
      cases hfb : featuresBlocks w.features w.ctx (w.query pt depth) ps bs g with
      | error e => rw [hfb] at this; simpa using this
      | ok r => simp

/-! ### the 2-D wrapper and `distance_to_plane` -/

theorem wrapper2dAdvance_eq_size_any (p : Req) : wrapper2dAdvance p = p.size := by
  obtain ⟨code, n, k⟩ := p
  unfold wrapper2dAdvance Req.size Req.size?
  split <;> simp

theorem writeBlock_length' (e : Nat) (blk out : List R) (h : e + blk.length ≤ out.length) : (writeBlock e blk out).length = out.length := by
  unfold writeBlock
  simp only [List.length_append, List.length_take, List.length_drop]
  omega

/-- the re-walk of the 2-D wrapper stays inside a result vector of the announced size -/
theorem rewalk2_noInt (conv : P2 R) (ps : List Req) (counter : Nat) (res : List R)
    (h : counter + outputSize ps ≤ res.length) : NoInt (rewalk2 conv ps counter res) := by
  induction ps generalizing counter res with
  | nil => exact NoInt.ok _
  | cons p ps ih =>
    have hsz : outputSize (p :: ps) = p.size + outputSize ps := by simp [outputSize]
    unfold rewalk2
    split
    · rename_i h5
      have hp : p.size = 3 := by
        obtain ⟨code, n, k⟩ := p
        simp only [beq_iff_eq] at h5
        subst h5
        rfl
      refine NoInt.bind (idx_noInt _ _ (by omega)) (fun r0 _ => ?_)
      refine NoInt.bind (idx_noInt _ _ (by omega)) (fun r1 _ => ?_)
      refine NoInt.bind (idx_noInt _ _ (by omega)) (fun r2 _ => ?_)
      refine ih _ _ ?_
      rw [writeBlock_length' _ _ _ (by simp; omega)]
      omega
    · refine ih _ _ ?_
      rw [wrapper2dAdvance_eq_size_any]
      omega

theorem LineFeature.distanceToPlane_noInt (f : LineFeature R) (hw : f.WellFormed) (ctx : Ctx R) (q : Query R) :
    NoInt (f.distanceToPlane ctx q) := by
  obtain ⟨hn, hsec, ⟨k, hk, hsk⟩, ⟨hbp, hbc, hba⟩, hseg⟩ := hw
  unfold LineFeature.distanceToPlane
  extract_lets sph sr
  have hl : ∀ l ∈ f.lengths, l.length = k := by
    intro l hl
    simp only [LineFeature.lengths, List.mem_map] at hl
    obtain ⟨sec, hsec', rfl⟩ := hl
    simpa using hsk sec hsec'
  have ha : ∀ a ∈ f.anglesRad, a.length = k := by
    intro a ha
    simp only [LineFeature.anglesRad, List.mem_map] at ha
    obtain ⟨sec, hsec', rfl⟩ := ha
    simpa using hsk sec hsec'
  refine NoInt.bind (distancePointFromCurvedPlanes_safe ctx.coord q.pt q.nat f.reference f.coords f.lengths f.anglesRad sr
    false f.bezier hn (by rw [hbp]) (by omega) (by simp [LineFeature.lengths, hsec]) (by simp [LineFeature.anglesRad, hsec])
    k hk hl ha).noInt (fun pd _ => NoInt.pure _)

theorem World.distanceToPlane_noInt (w : World R) (hw : w.WellFormed) (pt : P3 R) (depth : R) (name : String) :
    NoInt (w.distanceToPlane pt depth name) := by
  unfold World.distanceToPlane
  extract_lets q
  split
  · exact NoInt.ok _
  · rename_i l hfind
    have hmem : Feature.line l ∈ w.features := List.mem_of_find?_eq_some hfind
    exact l.distanceToPlane_noInt (hw _ hmem) w.ctx q
  · exact NoInt.error (by decide)

end Gwb
