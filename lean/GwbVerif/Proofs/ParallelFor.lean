/-
`ThreadPool::parallel_for` hands out consecutive, non-overlapping index ranges that cover `[start, end)` exactly;
concurrent steps that write disjoint cells and read nothing that is written commute, so every interleaving of the
threads' steps ends in the store of the sequential order.
-/
import GwbVerif.Model.Apps.Grid
namespace Gwb

/-- all indices of a list of ranges, in order -/
def rangesIndices (rs : List (Nat × Nat)) : List Nat := rs.flatMap (fun r => List.range' r.1 (r.2 - r.1))

theorem range'_append_range' (a b c : Nat) (hab : a ≤ b) (hbc : b ≤ c) :
    List.range' a (b - a) ++ List.range' b (c - b) = List.range' a (c - a) := by
  obtain ⟨k, rfl⟩ : ∃ k, b = a + k := ⟨b - a, by omega⟩
  obtain ⟨l, rfl⟩ : ∃ l, c = a + k + l := ⟨c - (a + k), by omega⟩
  have e1 : a + k - a = k := by omega
  have e2 : a + k + l - (a + k) = l := by omega
  have e3 : a + k + l - a = k + l := by omega
  rw [e1, e2, e3, List.range'_append_1]

theorem launchLoop_spec (slice stop pool : Nat) (fuel i i1 i2 : Nat) (h12 : i1 ≤ i2) (h2 : i2 ≤ stop) :
    let r := launchLoop slice stop pool fuel i i1 i2
    i1 ≤ r.2 ∧ r.2 ≤ stop ∧ rangesIndices r.1 = List.range' i1 (r.2 - i1) ∧ r.1.length + i ≤ max pool i ∧ r.1.length ≤ fuel := by
  induction fuel generalizing i i1 i2 with
  | zero => simp [launchLoop, rangesIndices]; omega
  | succ fuel ih =>
    unfold launchLoop
    by_cases hc : i + 1 < pool ∧ i1 < stop
    · simp only [hc, and_self, if_true]
      have := ih (i + 1) i2 (min (i2 + slice) stop) (by omega) (by omega)
      obtain ⟨ha, hb, hcov, hlen, hf⟩ := this
      refine ⟨by omega, hb, ?_, ?_, ?_⟩
      · simp only [rangesIndices, List.flatMap_cons] at hcov ⊢
        rw [hcov]
        exact range'_append_range' i1 i2 _ h12 ha
      · simp only [List.length_cons]; omega
      · simp only [List.length_cons]; omega
    · simp only [hc, if_false]
      simp [rangesIndices]; omega

/-- **C14** for every `start ≤ end` and every pool size ≥ 1 the ranges of `parallel_for` enumerate `start, …, end-1`
exactly once and in order (hence they are pairwise disjoint, inside `[start, end)` and cover it), with at most `pool` ranges -/
theorem parallelFor_partition (start stop pool : Nat) (h : start ≤ stop) (hp : 0 < pool) :
    rangesIndices (parallelForSlices start stop pool) = List.range' start (stop - start) ∧
    (parallelForSlices start stop pool).length ≤ pool := by
  unfold parallelForSlices
  simp only
  have hs := launchLoop_spec (max ((stop - start + 1) / pool) 1) stop pool pool 0 start
    (min (start + max ((stop - start + 1) / pool) 1) stop) (by omega) (by omega)
  revert hs
  cases hl : launchLoop (max ((stop - start + 1) / pool) 1) stop pool pool 0 start (min (start + max ((stop - start + 1) / pool) 1) stop) with
  | mk jobs i1 =>
    intro hs
    simp only at hs
    obtain ⟨ha, hb, hcov, hlen, _⟩ := hs
    -- the launch loop stops at the latest after `pool - 1` jobs
    have hjobs : jobs.length + 1 ≤ pool ∨ i1 = stop ∨ jobs.length + 1 ≤ pool := by
      left
      -- from `hlen`: jobs.length + 0 ≤ max pool 0 = pool; the loop condition `i + 1 < pool` bounds it by pool - 1
      have := launchLoop_count (max ((stop - start + 1) / pool) 1) stop pool pool 0 start (min (start + max ((stop - start + 1) / pool) 1) stop)
      rw [hl] at this
      simp only at this
      omega
    by_cases hlast : i1 < stop
    · simp only [hlast, if_true]
      constructor
      · simp only [rangesIndices, List.flatMap_append, List.flatMap_cons, List.flatMap_nil, List.append_nil] at hcov ⊢
        rw [hcov]
        exact range'_append_range' start i1 stop ha hb
      · simp only [List.length_append, List.length_cons, List.length_nil]
        rcases hjobs with h1 | h1 | h1 <;> omega
    · simp only [hlast, if_false]
      have : i1 = stop := by omega
      subst this
      exact ⟨hcov, by rcases hjobs with h1 | h1 | h1 <;> omega⟩
where
  launchLoop_count (slice stop pool fuel i i1 i2 : Nat) : (launchLoop slice stop pool fuel i i1 i2).1.length + i + 1 ≤ max pool (i + 1) := by
    induction fuel generalizing i i1 i2 with
    | zero => simp [launchLoop]; omega
    | succ fuel ih =>
      unfold launchLoop
      by_cases hc : i + 1 < pool ∧ i1 < stop
      · simp only [hc, and_self, if_true, List.length_cons]
        have := ih (i + 1) i2 (min (i2 + slice) stop)
        omega
      · simp only [hc, if_false, List.length_nil]; omega

/-! ### interleavings -/

/-- one step of a thread: it writes value `val` into cell `cell` (the value comes from the immutable world and the node index only) -/
structure Step where
  cell : Nat × Nat
  val : Int
  deriving DecidableEq

abbrev Store := (Nat × Nat) → Int

def Step.run (s : Step) (m : Store) : Store := fun c => if c = s.cell then s.val else m c

def exec (steps : List Step) (m : Store) : Store := steps.foldl (fun m s => s.run m) m

/-- `sched` is an interleaving (a merge preserving each thread's own order) of the per-thread step lists -/
inductive IsInterleaving : List Step → List (List Step) → Prop
  | nil : IsInterleaving [] []
  | dropEmpty {sched rest} : IsInterleaving sched rest → IsInterleaving sched ([] :: rest)
  | take {s sched pre t post} : IsInterleaving sched (pre ++ t :: post) → IsInterleaving (s :: sched) (pre ++ (s :: t) :: post)

/-- no two steps of the whole computation write the same cell -/
def DisjointWrites (steps : List Step) : Prop := (steps.map (·.cell)).Nodup

theorem Step.run_comm (s t : Step) (h : s.cell ≠ t.cell) (m : Store) : t.run (s.run m) = s.run (t.run m) := by
  funext c
  unfold Step.run
  by_cases h1 : c = s.cell <;> by_cases h2 : c = t.cell <;> simp_all

/-- the final store only depends on the *set* of steps when writes are disjoint: value at a cell = the unique step writing it -/
theorem exec_apply (steps : List Step) (hd : DisjointWrites steps) (m : Store) (c : Nat × Nat) :
    exec steps m c = match steps.find? (fun s => s.cell = c) with
      | some s => s.val
      | none => m c := by
  induction steps generalizing m with
  | nil => simp [exec]
  | cons s steps ih =>
    unfold DisjointWrites at hd
    simp only [List.map_cons, List.nodup_cons] at hd
    obtain ⟨hnot, hrest⟩ := hd
    simp only [exec, List.foldl_cons]
    have := ih hrest (s.run m)
    simp only [exec] at this
    rw [this]
    by_cases hc : s.cell = c
    · subst hc
      have hnone : steps.find? (fun t => t.cell = s.cell) = none := by
        rw [List.find?_eq_none]
        intro t ht hh
        exact hnot (by simpa using ⟨t, ht, of_decide_eq_true hh⟩)
      simp [hnone, Step.run]
    · have : (s :: steps).find? (fun t => decide (t.cell = c)) = steps.find? (fun t => decide (t.cell = c)) := by
        simp [hc]
      rw [this]
      cases steps.find? (fun t => decide (t.cell = c)) with
      | some t => rfl
      | none => simp [Step.run, Ne.symm hc]

theorem interleaving_perm (sched : List Step) (progs : List (List Step)) (h : IsInterleaving sched progs) :
    sched.Perm progs.flatten := by
  induction h with
  | nil => simp
  | dropEmpty _ ih => simpa using ih
  | @take s sched pre t post _ ih =>
    have h1 : (pre ++ (s :: t) :: post).flatten = pre.flatten ++ s :: (t ++ post.flatten) := by simp
    have h2 : (pre ++ t :: post).flatten = pre.flatten ++ (t ++ post.flatten) := by simp
    rw [h1]
    rw [h2] at ih
    exact (List.Perm.cons s ih).trans (List.perm_middle.symm)

theorem nodup_map_inj (l : List Step) (h : (l.map (·.cell)).Nodup) (s t : Step) (hs : s ∈ l) (ht : t ∈ l) (hc : s.cell = t.cell) : s = t := by
  induction l with
  | nil => simp at hs
  | cons x l ih =>
    simp only [List.map_cons, List.nodup_cons, List.mem_map, not_exists, not_and] at h
    obtain ⟨hx, hl⟩ := h
    rcases List.mem_cons.mp hs with rfl | hs' <;> rcases List.mem_cons.mp ht with rfl | ht'
    · rfl
    · exact absurd hc.symm (hx t ht')
    · exact absurd hc (hx s hs')
    · exact ih hl hs' ht'

theorem find_perm (l1 l2 : List Step) (hp : l1.Perm l2) (hd : DisjointWrites l1) (c : Nat × Nat) :
    (l1.find? (fun s => s.cell = c)).map (·.val) = (l2.find? (fun s => s.cell = c)).map (·.val) := by
  have hd2 : DisjointWrites l2 := by
    unfold DisjointWrites at hd ⊢
    exact (hp.map _).nodup_iff.mp hd
  -- both finds return the unique step with that cell, if any
  cases h1 : l1.find? (fun s => decide (s.cell = c)) with
  | none =>
    have : ∀ s ∈ l2, ¬ s.cell = c := by
      intro s hs
      have := List.find?_eq_none.mp h1 s (hp.mem_iff.mpr hs)
      simpa using this
    have h2 : l2.find? (fun s => decide (s.cell = c)) = none := by
      rw [List.find?_eq_none]; intro s hs; simpa using this s hs
    simp [h2]
  | some s =>
    have hs1 := List.mem_of_find?_eq_some h1
    have hsc : s.cell = c := by simpa using List.find?_some h1
    have hs2 : s ∈ l2 := hp.mem_iff.mp hs1
    cases h2 : l2.find? (fun s => decide (s.cell = c)) with
    | none => exact absurd hsc (by simpa using List.find?_eq_none.mp h2 s hs2)
    | some t =>
      have ht2 := List.mem_of_find?_eq_some h2
      have htc : t.cell = c := by simpa using List.find?_some h2
      -- s and t are both in l2 with the same cell → equal
      have : s = t := by
        unfold DisjointWrites at hd2
        exact nodup_map_inj l2 hd2 s t hs2 ht2 (hsc.trans htc.symm)
      simp [this]

/-- **C14** with pairwise disjoint write sets, every interleaving of the threads' steps produces the store of the sequential order -/
theorem interleaving_irrelevant (sched : List Step) (progs : List (List Step)) (h : IsInterleaving sched progs)
    (hd : DisjointWrites progs.flatten) (m : Store) : exec sched m = exec progs.flatten m := by
  have hp := interleaving_perm sched progs h
  have hds : DisjointWrites sched := by
    unfold DisjointWrites at hd ⊢
    exact (hp.map _).nodup_iff.mpr hd
  funext c
  rw [exec_apply sched hds m c, exec_apply progs.flatten hd m c]
  have := find_perm sched progs.flatten hp hds c
  cases h1 : sched.find? (fun s => decide (s.cell = c)) <;> cases h2 : progs.flatten.find? (fun s => decide (s.cell = c)) <;>
    simp_all

/-- **C14** distinct nodes write disjoint cells -/
theorem nodeWrites_disjoint (compositions i j : Nat) (hij : i ≠ j) :
    ∀ c ∈ nodeWrites compositions i, c ∉ nodeWrites compositions j := by
  intro c hc hc'
  simp only [nodeWrites, List.mem_append, List.mem_cons, List.mem_map, List.mem_range, List.not_mem_nil, or_false] at hc hc'
  rcases hc with (rfl | rfl | rfl | rfl | rfl) | ⟨a, _, rfl⟩ <;>
    rcases hc' with (h | h | h | h | h) | ⟨b, _, h⟩ <;>
    simp only [Prod.mk.injEq] at h <;> omega

end Gwb
