/-
Helpers for C07 (depth cut-off and bounding box of slabs and faults) when the walk contains CIRCULAR pieces.

The unit-speed argument of `Proofs/CullDepth.lean` / `Proofs/CullBox.lean`, with the chord of an arc in the place of the straight
piece: a circular piece of length `len` whose dip goes from `θ` to `β` is an arc of radius `r = len/|β − θ|`; its end point is
`r·(cos θ − cos β)` lower and `r·(sin β − sin θ)` further than its begin point, and `|cos θ − cos β|, |sin θ − sin β| ≤ |θ − β|`
(`ChordLaws`: the laws of `ArcLaws` and `|sin x| ≤ |x|`), so both are at most `len`.  A point `center ± ρ(sin ψ, cos ψ)` attributed
to the arc with along-value `a = r·|ψ − θ|` and distance `d = ±(r − ρ)` lies at most `a + |d|` below and at most `a + |d|`
horizontally from the begin point (`arc_coord_bound`).

`WalkInv` is the invariant of the walk (depth and horizontal halves at once).  It has one clause more than `DepthInv`/`HorizInv`,
`fresh`: whatever the members `newAlong / newDistance / newDepthRef` hold is a sound attribution with respect to the accumulated
length.  Since the upstream repair 'a rejected circular piece stores +∞' both geometry branches overwrite these members (by an
attribution or by `+∞`); the ONLY iteration that still leaves them as the previous one left them is a straight piece with
`1e-14 ≤ len` and `|len| ≤ ε` (the code does nothing then; impossible for the library's `ε = 2.2e-16`, possible for an abstract
`T.eps`), and the "closest so far" block then tests the stale numbers against the length of that piece.  `fresh` covers it.
The bounds are conditional on `0 ≤ newAlong` (`0 ≤ segmentFraction` for the recorded foot): the sector test has a tolerance of
`1e-12 rad` and the closest block accepts `newAlong ≥ −1e-10`, so a foot can be recorded up to `1e-10 m` BEFORE the begin point of a
circular piece, and then the point is up to `2e-10 m` further than `along + |distance|`.

`PieceOK`: what one iteration needs — the piece is skipped (`len < 1e-14`), or straight (`|θ − β| < 1e-8`; also with `|len| ≤ ε`,
where the code does nothing), or circular with `DipOK` (`Proofs/ArcPiece.lean`) and the check point at a polar position about the
centre in the range where `Proofs/ArcPiece.lean` computes the code's angle (`ρ ≥ ε`; `0 ≤ ψ ≤ 2π − 1e-14` resp. `−π < ψ ≤ π`).
No restriction on the dips themselves (overturned slabs, `|β − θ| ≥ π`, radius smaller than the thickness are all covered).
-/
import GwbVerif.Proofs.CullBox
import GwbVerif.Proofs.ArcPiece
import Mathlib.Analysis.SpecialFunctions.Trigonometric.Bounds
namespace Gwb
open Scalar
set_option linter.unusedSectionVars false
set_option linter.unusedVariables false

/-! ### members of the state a phase does not touch (every `Scalar R`) -/
section generic
variable {R : Type} [Scalar R]

theorem segPre_newAlong (dm : DepthMethod) (i : Nat) (s : SegState R) : (segPre dm i s).newAlong = s.newAlong := by
  unfold segPre; dsimp only; split <;> rfl
theorem segPre_newDistance (dm : DepthMethod) (i : Nat) (s : SegState R) : (segPre dm i s).newDistance = s.newDistance := by
  unfold segPre; dsimp only; split <;> rfl
theorem segPre_newDepthRef (dm : DepthMethod) (i : Nat) (s : SegState R) : (segPre dm i s).newDepthRef = s.newDepthRef := by
  unfold segPre; dsimp only; split <;> rfl
theorem segPre_segmentFraction (dm : DepthMethod) (i : Nat) (s : SegState R) : (segPre dm i s).segmentFraction = s.segmentFraction := by
  unfold segPre; dsimp only; split <;> rfl

theorem segStraight_segmentFraction (startRadius : R) (check2d : P2 R) (angTop len : R) (s : SegState R) :
    (segStraight startRadius check2d angTop len s).segmentFraction = s.segmentFraction := by
  unfold segStraight; dsimp only; split <;> rfl
theorem segArc_segmentFraction (startRadius : R) (check2d : P2 R) (angTop angBot len : R) (s : SegState R) :
    (segArc startRadius check2d angTop angBot len s).segmentFraction = s.segmentFraction := by
  unfold segArc; dsimp only; split <;> rfl
theorem segGeom_segmentFraction (startRadius : R) (check2d : P2 R) (angTop angBot len : R) (s : SegState R) :
    (segGeom startRadius check2d angTop angBot len s).segmentFraction = s.segmentFraction := by
  unfold segGeom
  split
  · split
    · exact segStraight_segmentFraction _ _ _ _ _
    · rfl
  · exact segArc_segmentFraction _ _ _ _ _ _

theorem segClosest_cond_fraction (onlyPositive : Bool) (i : Nat) (angTop angBot len : R) (s : SegState R) (h : segClosestCond len s) :
    (segClosest onlyPositive i angTop angBot len s).segmentFraction = s.newAlong / len := by
  unfold segClosestCond at h
  unfold segClosest
  rw [if_pos h]

theorem segFinish_fields2 (angTop angBot len : R) (s : SegState R) :
    (segFinish angTop angBot len s).newAlong = s.newAlong ∧ (segFinish angTop angBot len s).newDistance = s.newDistance ∧
    (segFinish angTop angBot len s).newDepthRef = s.newDepthRef ∧ (segFinish angTop angBot len s).segmentFraction = s.segmentFraction :=
  ⟨rfl, rfl, rfl, rfl⟩

end generic

section field
variable {F : Type} [Field F] [LinearOrder F] [IsStrictOrderedRing F] (T : Transc F)

/-! ### chord ≤ arc -/

/-- the laws of `ArcLaws` and `|sin x| ≤ |x|` -/
structure ChordLaws (T : Transc F) : Prop where
  arc : ArcLaws T
  abs_sin_le : ∀ x, |T.sin x| ≤ |x|

variable {T}

theorem ChordLaws.cos_sub_cos (L : ChordLaws T) (x y : F) :
    T.cos x - T.cos y = -2 * T.sin ((x + y) / 2) * T.sin ((x - y) / 2) := by
  have h1 := L.arc.cos_add ((x + y) / 2) ((x - y) / 2)
  have h2 := L.arc.cos_sub ((x + y) / 2) ((x - y) / 2)
  have e1 : (x + y) / 2 + (x - y) / 2 = x := by ring
  have e2 : (x + y) / 2 - (x - y) / 2 = y := by ring
  rw [e1] at h1
  rw [e2] at h2
  linear_combination h1 - h2

theorem ChordLaws.sin_sub_sin (L : ChordLaws T) (x y : F) :
    T.sin x - T.sin y = 2 * T.cos ((x + y) / 2) * T.sin ((x - y) / 2) := by
  have h1 := L.arc.sin_add ((x + y) / 2) ((x - y) / 2)
  have h2 := L.arc.sin_sub ((x + y) / 2) ((x - y) / 2)
  have e1 : (x + y) / 2 + (x - y) / 2 = x := by ring
  have e2 : (x + y) / 2 - (x - y) / 2 = y := by ring
  rw [e1] at h1
  rw [e2] at h2
  linear_combination h1 - h2

theorem abs_two_mul_mul_le (u v w : F) (hu : |u| ≤ 1) (hv : |v| ≤ |w / 2|) : |2 * u * v| ≤ |w| := by
  have h2 : |w / 2| = |w| / 2 := by rw [abs_div, abs_two]
  rw [abs_mul, abs_mul, abs_two]
  have := mul_le_mul hu hv (abs_nonneg v) zero_le_one
  rw [h2] at this
  linarith

/-- `cos` is 1-Lipschitz -/
theorem ChordLaws.abs_cos_sub_cos_le (L : ChordLaws T) (x y : F) : |T.cos x - T.cos y| ≤ |x - y| := by
  rw [L.cos_sub_cos]
  have e : -2 * T.sin ((x + y) / 2) * T.sin ((x - y) / 2) = -(2 * T.sin ((x + y) / 2) * T.sin ((x - y) / 2)) := by ring
  rw [e, abs_neg]
  exact abs_two_mul_mul_le _ _ _ (planeLaws_abs_sin_le_one T L.arc.plane _) (L.abs_sin_le _)

/-- `sin` is 1-Lipschitz -/
theorem ChordLaws.abs_sin_sub_sin_le (L : ChordLaws T) (x y : F) : |T.sin x - T.sin y| ≤ |x - y| := by
  rw [L.sin_sub_sin]
  exact abs_two_mul_mul_le _ _ _ (planeLaws_abs_cos_le_one T L.arc.plane _) (L.abs_sin_le _)

/-- the coordinates of the point at radius `ρ`, angle `y` and those of the point of the circle of radius `r` at angle `x` differ by
at most the arc `r·|x − y|` plus the radial offset `|r − ρ|` -/
theorem arc_coord_bound (L : ChordLaws T) (r ρ x y : F) (hr : 0 ≤ r) :
    |r * T.cos x - ρ * T.cos y| ≤ r * |x - y| + |r - ρ| ∧ |r * T.sin x - ρ * T.sin y| ≤ r * |x - y| + |r - ρ| := by
  constructor
  · have e : r * T.cos x - ρ * T.cos y = r * (T.cos x - T.cos y) + (r - ρ) * T.cos y := by ring
    rw [e]
    refine le_trans (abs_add_le _ _) (add_le_add ?_ ?_)
    · rw [abs_mul, abs_of_nonneg hr]
      exact mul_le_mul_of_nonneg_left (L.abs_cos_sub_cos_le x y) hr
    · rw [abs_mul]
      have := mul_le_mul_of_nonneg_left (planeLaws_abs_cos_le_one T L.arc.plane y) (abs_nonneg (r - ρ))
      rwa [mul_one] at this
  · have e : r * T.sin x - ρ * T.sin y = r * (T.sin x - T.sin y) + (r - ρ) * T.sin y := by ring
    rw [e]
    refine le_trans (abs_add_le _ _) (add_le_add ?_ ?_)
    · rw [abs_mul, abs_of_nonneg hr]
      exact mul_le_mul_of_nonneg_left (L.abs_sin_sub_sin_le x y) hr
    · rw [abs_mul]
      have := mul_le_mul_of_nonneg_left (planeLaws_abs_sin_le_one T L.arc.plane y) (abs_nonneg (r - ρ))
      rwa [mul_one] at this

variable (T)

/-! ### the invariant -/

/-- **the invariant of the walk with circular pieces** for a check point `c`, the point `(x0, y0)` the walk started at and the start
radius `sr`:
* `endY`, `endX`: the current end of the walk is at most the accumulated length below `y0` and at most that far from `x0`;
* `fresh`: if the members `newAlong / newDistance / newDepthRef` hold an attribution (`newAlong < +∞`) with `newAlong ≥ 0`, the check
  point is at most `totalLength + newAlong + |newDistance|` below `y0` and from `x0`, and `newDepthRef ≤ sr − y0 + totalLength + newAlong`;
* `hit`: if a foot has been recorded (`found`) with `segmentFraction ≥ 0`, the check point is at most `along + |distance|` below `y0`
  and from `x0`, and the recorded reference depth is at most `along` (`+ sr − y0`). -/
structure WalkInv (x0 y0 sr : F) (c : P2 F) (s : SegState F) : Prop where
  endY : y0 - s.totalLength ≤ s.endSeg.y
  endX : |s.endSeg.x - x0| ≤ s.totalLength
  fresh : s.newAlong < T.inf → 0 ≤ s.newAlong →
    y0 - c.y ≤ s.totalLength + s.newAlong + |s.newDistance| ∧ |c.x - x0| ≤ s.totalLength + s.newAlong + |s.newDistance| ∧
    s.newDepthRef ≤ sr - y0 + s.totalLength + s.newAlong
  hit : s.found = true → 0 ≤ s.segmentFraction →
    y0 - c.y ≤ s.along + |s.distance| ∧ |c.x - x0| ≤ s.along + |s.distance| ∧ s.depthRef ≤ sr - y0 + s.along

/-- what the geometry phase of one iteration (`g`, from the state `s` whose walk ends at `b = s.endSeg`) has to deliver: the new end
point is at most `len` lower / further; and the three `new…` members are either left alone (straight piece with `|len| ≤ ε` only),
or `+∞`, or a sound attribution with respect to `b` -/
def GeomOK (sr : F) (c : P2 F) (len : F) (s g : SegState F) : Prop :=
  s.endSeg.y - len ≤ g.endSeg.y ∧ |g.endSeg.x - s.endSeg.x| ≤ len ∧
  ((g.newAlong = s.newAlong ∧ g.newDistance = s.newDistance ∧ g.newDepthRef = s.newDepthRef) ∨
   ¬ g.newAlong < T.inf ∨
   (0 ≤ g.newAlong → s.endSeg.y - c.y ≤ g.newAlong + |g.newDistance| ∧ |c.x - s.endSeg.x| ≤ g.newAlong + |g.newDistance| ∧
      g.newDepthRef ≤ sr - s.endSeg.y + g.newAlong))

/-- the closest block and the end of the iteration preserve the invariant when the geometry phase is `GeomOK` -/
theorem walkInv_step (onlyPositive : Bool) (i : Nat) (θ β len sr x0 y0 : F) (c : P2 F) (s g : SegState F)
    (hinv : WalkInv T x0 y0 sr c s) (hpos : 0 < len) (hinf : len < T.inf)
    (gt : g.totalLength = s.totalLength) (gf : g.found = s.found) (ga : g.along = s.along) (gd : g.distance = s.distance)
    (gr : g.depthRef = s.depthRef) (gs : g.segmentFraction = s.segmentFraction) (hg : GeomOK T sr c len s g) :
    WalkInv T x0 y0 sr c
      (@segFinish F (fieldScalar T) θ β len (@segClosest F (fieldScalar T) onlyPositive i θ β len g)) := by
  obtain ⟨g1, g2, g3⟩ := hg
  have hy := hinv.endY
  have hx := hinv.endX
  -- the attribution in `g` is sound with respect to the start of the walk
  have hG : g.newAlong < T.inf → 0 ≤ g.newAlong →
      y0 - c.y ≤ s.totalLength + g.newAlong + |g.newDistance| ∧ |c.x - x0| ≤ s.totalLength + g.newAlong + |g.newDistance| ∧
      g.newDepthRef ≤ sr - y0 + s.totalLength + g.newAlong := by
    intro h1 h2
    rcases g3 with ⟨e1, e2, e3⟩ | hno | hb
    · rw [e1, e2, e3]
      rw [e1] at h1 h2
      exact hinv.fresh h1 h2
    · exact absurd h1 hno
    · obtain ⟨b1, b2, b3⟩ := hb h2
      refine ⟨by linarith, ?_, by linarith⟩
      have e : c.x - x0 = (c.x - s.endSeg.x) + (s.endSeg.x - x0) := by ring
      rw [e]
      have := abs_add_le (c.x - s.endSeg.x) (s.endSeg.x - x0)
      linarith
  obtain ⟨f1, f2, f3, f4, f5, f6⟩ := @segFinish_fields F (fieldScalar T) θ β len (@segClosest F (fieldScalar T) onlyPositive i θ β len g)
  obtain ⟨f7, f8, f9, f10⟩ := @segFinish_fields2 F (fieldScalar T) θ β len (@segClosest F (fieldScalar T) onlyPositive i θ β len g)
  constructor
  · rw [f1, f6, @segClosest_endSeg F (fieldScalar T), @segClosest_totalLength F (fieldScalar T), gt]
    show y0 - (s.totalLength + len) ≤ g.endSeg.y
    linarith
  · rw [f1, f6, @segClosest_endSeg F (fieldScalar T), @segClosest_totalLength F (fieldScalar T), gt]
    show |g.endSeg.x - x0| ≤ s.totalLength + len
    have e : g.endSeg.x - x0 = (g.endSeg.x - s.endSeg.x) + (s.endSeg.x - x0) := by ring
    rw [e]
    have := abs_add_le (g.endSeg.x - s.endSeg.x) (s.endSeg.x - x0)
    linarith
  · rw [f7, f8, f9, f6, @segClosest_newAlong F (fieldScalar T), @segClosest_newDistance F (fieldScalar T),
      @segClosest_newDepthRef F (fieldScalar T), @segClosest_totalLength F (fieldScalar T), gt]
    intro h1 h2
    obtain ⟨b1, b2, b3⟩ := hG h1 h2
    have e : @HAdd.hAdd F F F (@instHAdd F (fieldScalar T).toAdd) s.totalLength len = s.totalLength + len := rfl
    rw [e]
    exact ⟨by linarith, by linarith, by linarith⟩
  · rw [f2, f3, f4, f5, f10]
    by_cases hc : @segClosestCond F (fieldScalar T) len g
    · obtain ⟨c1, c2, c3, c4⟩ := @segClosest_of_cond F (fieldScalar T) onlyPositive i θ β len g hc
      have c5 := @segClosest_cond_fraction F (fieldScalar T) onlyPositive i θ β len g hc
      intro _ hfr
      rw [c5] at hfr
      have hna : 0 ≤ g.newAlong := by
        by_contra hneg
        rw [not_le] at hneg
        have : g.newAlong / len < 0 := div_neg_of_neg_of_pos hneg hpos
        exact absurd hfr (not_le.mpr this)
      have hle : g.newAlong ≤ len := by
        have h2 : @LE.le F (fieldScalar T).toLE g.newAlong (@fabs F (fieldScalar T) len) := hc.2.1
        rw [fabs_eq_abs, abs_of_pos hpos] at h2
        exact h2
      obtain ⟨b1, b2, b3⟩ := hG (lt_of_le_of_lt hle hinf) hna
      have habs : |(@segClosest F (fieldScalar T) onlyPositive i θ β len g).distance| = |g.newDistance| := by
        rw [c3]
        cases onlyPositive with
        | true => simp only [if_true]; rw [fabs_eq_abs, abs_abs]
        | false => simp only [Bool.false_eq_true, if_false]
      rw [c2, c4, habs, gt]
      have e : @HAdd.hAdd F F F (@instHAdd F (fieldScalar T).toAdd) g.newAlong s.totalLength = g.newAlong + s.totalLength := rfl
      rw [e]
      exact ⟨by linarith, by linarith, by linarith⟩
    · rw [@segClosest_of_not F (fieldScalar T) onlyPositive i θ β len g hc, gf, ga, gd, gr, gs]
      exact hinv.hit


/-! ### the geometry phase is `GeomOK` in each of its branches -/

theorem prop_cases {p A B X : Prop} (h6 : p → A) (h7 : ¬ p → B) (f : A → X) (g : ¬ p → B → X) : X := by
  by_cases h : p
  · exact f (h6 h)
  · exact g h (h7 h)

/-- straight piece, `|len| > ε` -/
theorem geomOK_straight (L : PlaneLaws T) (sr : F) (c : P2 F) (θ β len : F) (s s1 : SegState F)
    (hb : s1.beginSeg = s1.endSeg) (he : s1.endSeg = s.endSeg)
    (hstraight : |θ - β| < 1 / 10 ^ 8) (heps : T.eps < |len|) (hpos : 0 < len) :
    GeomOK T sr c len s (@segGeom F (fieldScalar T) sr c θ β len s1) := by
  obtain ⟨_, k2, k3, k4⟩ := segGeom_straight T L sr c θ β len s1 hb hstraight heps hpos
  rw [he] at k2 k3 k4
  generalize @segGeom F (fieldScalar T) sr c θ β len s1 = g at k2 k3 k4 ⊢
  have hsin : len * T.sin θ ≤ len := by
    have := mul_le_mul_of_nonneg_left (planeLaws_sin_le_one T L θ) hpos.le
    rwa [mul_one] at this
  have hcos : |len * T.cos θ| ≤ len := by
    rw [abs_mul, abs_of_pos hpos]
    have := mul_le_mul_of_nonneg_left (planeLaws_abs_cos_le_one T L θ) hpos.le
    rwa [mul_one] at this
  refine ⟨?_, ?_, ?_⟩
  · rw [k2]
    show s.endSeg.y - len ≤ s.endSeg.y - len * T.sin θ
    linarith
  · rw [k2]
    show |s.endSeg.x + len * T.cos θ - s.endSeg.x| ≤ len
    have e : s.endSeg.x + len * T.cos θ - s.endSeg.x = len * T.cos θ := by ring
    rw [e]; exact hcos
  · by_cases hin : 0 ≤ alongDip T s.endSeg c θ ∧ alongDip T s.endSeg c θ ≤ len
    · obtain ⟨a1, a2, a3⟩ := k3 hin
      right; right
      intro _
      rw [a1, a2, a3]
      have h1 := point_height_bound T L s.endSeg c θ hin.1
      have h2 := foot_height_bound T L s.endSeg c θ hin.1
      have h3 := point_horiz_bound T L s.endSeg c θ hin.1
      exact ⟨h1, h3, by linarith⟩
    · obtain ⟨a1, _, _⟩ := k4 hin
      right; left
      rw [a1]
      exact lt_irrefl _

/-- straight piece, `|len| ≤ ε`: the code does nothing -/
theorem geomOK_noeps (sr : F) (c : P2 F) (θ β len : F) (s s1 : SegState F) (he : s1.endSeg = s.endSeg)
    (n1 : s1.newAlong = s.newAlong) (n2 : s1.newDistance = s.newDistance) (n3 : s1.newDepthRef = s.newDepthRef)
    (hstraight : |θ - β| < 1 / 10 ^ 8) (heps : ¬ T.eps < |len|) (hpos : 0 < len) :
    GeomOK T sr c len s (@segGeom F (fieldScalar T) sr c θ β len s1) := by
  have h1 : @LT.lt F (fieldScalar T).toLT (@fabs F (fieldScalar T) (@HSub.hSub F F F (@instHSub F (fieldScalar T).toSub) θ β))
      (@OfScientific.ofScientific F (@Scalar.instOfScientific F (fieldScalar T)) 1 true 8) := by
    rw [fabs_eq_abs, lit_1em8]; exact hstraight
  have h2 : ¬ @GT.gt F (fieldScalar T).toLT (@fabs F (fieldScalar T) len) (@Scalar.eps F (fieldScalar T)) := by
    rw [fabs_eq_abs]; exact heps
  have hg : @segGeom F (fieldScalar T) sr c θ β len s1 = s1 := by
    unfold segGeom
    rw [if_pos h1, if_neg h2]
  rw [hg]
  refine ⟨?_, ?_, Or.inl ⟨n1, n2, n3⟩⟩
  · rw [he]; linarith
  · rw [he, sub_self, abs_zero]; exact hpos.le

/-- circular piece, dip increasing downwards -/
theorem geomOK_arc_incr (L : ChordLaws T) (sr θ β len : F) (s s1 : SegState F) (hbs : s1.beginSeg = s.endSeg)
    (hθ : DipOK T θ) (hlt : θ < β) (harc : ¬ |θ - β| < 1 / 10 ^ 8) (hpos : 0 < len) (ρ ψ : F) (hρ : 0 < ρ) (hε : ¬ ρ < T.eps)
    (h0 : 0 ≤ ψ) (h1 : ψ ≤ 2 * T.pi - 1 / 10 ^ 14) (c : P2 F)
    (hc : c = ⟨s.endSeg.x - len / (β - θ) * T.sin θ + ρ * T.sin ψ, s.endSeg.y - len / (β - θ) * T.cos θ + ρ * T.cos ψ⟩) :
    GeomOK T sr c len s (@segGeom F (fieldScalar T) sr c θ β len s1) := by
  rw [segGeom_arc T sr c θ β len s1 harc]
  rw [← hbs] at hc
  subst hc
  have key := segArc_incr L.arc sr θ β len s1 hθ (by linarith) hpos ρ ψ hρ hε h0 h1
  dsimp only at key
  obtain ⟨_, k2, _, k4, _, k6, k7⟩ := key
  have hne : β - θ ≠ 0 := by intro h; linarith
  have hr : len / (β - θ) * (β - θ) = len := div_mul_cancel₀ _ hne
  generalize len / (β - θ) = r at *
  have hβθ : 0 < β - θ := by linarith
  have hend := arc_coord_bound L r r θ β k2.le
  rw [sub_self, abs_zero, add_zero, abs_sub_comm θ β, abs_of_pos hβθ, hr] at hend
  unfold GeomOK
  rw [← hbs]
  refine ⟨?_, ?_, ?_⟩
  · rw [k4]
    show s1.beginSeg.y - len ≤ s1.beginSeg.y - r * T.cos θ + r * T.cos β
    have := le_abs_self (r * T.cos θ - r * T.cos β)
    linarith [hend.1]
  · rw [k4]
    show |s1.beginSeg.x - r * T.sin θ + r * T.sin β - s1.beginSeg.x| ≤ len
    have e : s1.beginSeg.x - r * T.sin θ + r * T.sin β - s1.beginSeg.x = -(r * T.sin θ - r * T.sin β) := by ring
    rw [e, abs_neg]; exact hend.2
  · refine prop_cases k6 k7 (fun a => ?_) (fun hacc u => ?_)
    · obtain ⟨a1, a2, a3⟩ := a
      right; right
      intro hna
      rw [a1] at hna
      rw [a1, a2, a3]
      have hψθ : 0 ≤ ψ - θ := by
        by_contra h
        rw [not_le] at h
        have := mul_neg_of_pos_of_neg k2 h
        linarith
      have hb := arc_coord_bound L r ρ θ ψ k2.le
      rw [abs_sub_comm θ ψ, abs_of_nonneg hψθ] at hb
      have hb' := arc_coord_bound L r r θ ψ k2.le
      rw [sub_self, abs_zero, add_zero, abs_sub_comm θ ψ, abs_of_nonneg hψθ] at hb'
      refine ⟨?_, ?_, ?_⟩
      · show s1.beginSeg.y - (s1.beginSeg.y - r * T.cos θ + ρ * T.cos ψ) ≤ r * (ψ - θ) + |r - ρ|
        have := le_abs_self (r * T.cos θ - ρ * T.cos ψ)
        linarith [hb.1]
      · show |s1.beginSeg.x - r * T.sin θ + ρ * T.sin ψ - s1.beginSeg.x| ≤ r * (ψ - θ) + |r - ρ|
        have e : s1.beginSeg.x - r * T.sin θ + ρ * T.sin ψ - s1.beginSeg.x = -(r * T.sin θ - ρ * T.sin ψ) := by ring
        rw [e, abs_neg]; exact hb.2
      · show sr - (s1.beginSeg.y - r * T.cos θ + r * T.cos ψ) ≤ sr - s1.beginSeg.y + r * (ψ - θ)
        have := le_abs_self (r * T.cos θ - r * T.cos ψ)
        linarith [hb'.1]
    · right; left
      rw [u.1]
      exact lt_irrefl _

/-- circular piece, dip decreasing downwards -/
theorem geomOK_arc_decr (L : ChordLaws T) (sr θ β len : F) (s s1 : SegState F) (hbs : s1.beginSeg = s.endSeg)
    (hθ : DipOK T θ) (hlt : β < θ) (harc : ¬ |θ - β| < 1 / 10 ^ 8) (hpos : 0 < len) (ρ ψ : F) (hρ : 0 < ρ) (hε : ¬ ρ < T.eps)
    (h0 : -T.pi < ψ) (h1 : ψ ≤ T.pi) (c : P2 F)
    (hc : c = ⟨s.endSeg.x + len / (θ - β) * T.sin θ - ρ * T.sin ψ, s.endSeg.y + len / (θ - β) * T.cos θ - ρ * T.cos ψ⟩) :
    GeomOK T sr c len s (@segGeom F (fieldScalar T) sr c θ β len s1) := by
  rw [segGeom_arc T sr c θ β len s1 harc]
  rw [← hbs] at hc
  subst hc
  have key := segArc_decr L.arc sr θ β len s1 hθ (by linarith) hpos ρ ψ hρ hε h0 h1
  dsimp only at key
  obtain ⟨_, k2, _, k4, _, k6, k7⟩ := key
  have hne : θ - β ≠ 0 := by intro h; linarith
  have hr : len / (θ - β) * (θ - β) = len := div_mul_cancel₀ _ hne
  generalize len / (θ - β) = r at *
  have hθβ : 0 < θ - β := by linarith
  have hend := arc_coord_bound L r r θ β k2.le
  rw [sub_self, abs_zero, add_zero, abs_of_pos hθβ, hr] at hend
  unfold GeomOK
  rw [← hbs]
  refine ⟨?_, ?_, ?_⟩
  · rw [k4]
    show s1.beginSeg.y - len ≤ s1.beginSeg.y + r * T.cos θ - r * T.cos β
    have := neg_abs_le (r * T.cos θ - r * T.cos β)
    linarith [hend.1]
  · rw [k4]
    show |s1.beginSeg.x + r * T.sin θ - r * T.sin β - s1.beginSeg.x| ≤ len
    have e : s1.beginSeg.x + r * T.sin θ - r * T.sin β - s1.beginSeg.x = r * T.sin θ - r * T.sin β := by ring
    rw [e]; exact hend.2
  · refine prop_cases k6 k7 (fun a => ?_) (fun hacc u => ?_)
    · obtain ⟨a1, a2, a3⟩ := a
      right; right
      intro hna
      rw [a1] at hna
      rw [a1, a2, a3]
      have hθψ : 0 ≤ θ - ψ := by
        by_contra h
        rw [not_le] at h
        have := mul_neg_of_pos_of_neg k2 h
        linarith
      have hb := arc_coord_bound L r ρ θ ψ k2.le
      rw [abs_of_nonneg hθψ, abs_sub_comm r ρ] at hb
      have hb' := arc_coord_bound L r r θ ψ k2.le
      rw [sub_self, abs_zero, add_zero, abs_of_nonneg hθψ] at hb'
      refine ⟨?_, ?_, ?_⟩
      · show s1.beginSeg.y - (s1.beginSeg.y + r * T.cos θ - ρ * T.cos ψ) ≤ r * (θ - ψ) + |ρ - r|
        have := neg_abs_le (r * T.cos θ - ρ * T.cos ψ)
        linarith [hb.1]
      · show |s1.beginSeg.x + r * T.sin θ - ρ * T.sin ψ - s1.beginSeg.x| ≤ r * (θ - ψ) + |ρ - r|
        have e : s1.beginSeg.x + r * T.sin θ - ρ * T.sin ψ - s1.beginSeg.x = r * T.sin θ - ρ * T.sin ψ := by ring
        rw [e]; exact hb.2
      · show sr - (s1.beginSeg.y + r * T.cos θ - r * T.cos ψ) ≤ sr - s1.beginSeg.y + r * (θ - ψ)
        have := neg_abs_le (r * T.cos θ - r * T.cos ψ)
        linarith [hb'.1]
    · right; left
      rw [u.1]
      exact lt_irrefl _

/-! ### one iteration -/

/-- **what one iteration needs**: the piece (begin point `b`, dips `θ → β`, length `len`) is skipped, or straight, or circular with
the check point `c` at a polar position about the centre in the range where the code's angle is computed exactly -/
def PieceOK (b c : P2 F) (θ β len : F) : Prop :=
  len < 1 / 10 ^ 14 ∨
  (1 / 10 ^ 14 ≤ len ∧ len < T.inf ∧
    (|θ - β| < 1 / 10 ^ 8 ∨
     (¬ |θ - β| < 1 / 10 ^ 8 ∧ DipOK T θ ∧
       ((θ < β ∧ ∃ ρ ψ, 0 < ρ ∧ ¬ ρ < T.eps ∧ 0 ≤ ψ ∧ ψ ≤ 2 * T.pi - 1 / 10 ^ 14 ∧
          c = ⟨b.x - len / (β - θ) * T.sin θ + ρ * T.sin ψ, b.y - len / (β - θ) * T.cos θ + ρ * T.cos ψ⟩) ∨
        (β < θ ∧ ∃ ρ ψ, 0 < ρ ∧ ¬ ρ < T.eps ∧ -T.pi < ψ ∧ ψ ≤ T.pi ∧
          c = ⟨b.x + len / (θ - β) * T.sin θ - ρ * T.sin ψ, b.y + len / (θ - β) * T.cos θ - ρ * T.cos ψ⟩)))))

/-- one iteration of the segment loop — skipped, straight or circular — preserves the invariant -/
theorem segmentStep_walkInv (L : ChordLaws T) (dm : DepthMethod) (onlyPositive : Bool) (sr fraction : F) (c : P2 F)
    (angCur angNext : P2 F) (lenCur lenNext : F) (i : Nat) (s : SegState F) (x0 y0 : F) (hinv : WalkInv T x0 y0 sr c s)
    (hok : PieceOK T s.endSeg c
      (@segAngTop F (fieldScalar T) dm fraction angCur angNext i (@segPre F (fieldScalar T) dm i s))
      (@segAngBot F (fieldScalar T) fraction angCur angNext (@segPre F (fieldScalar T) dm i s))
      (lenCur + fraction * (lenNext - lenCur))) :
    WalkInv T x0 y0 sr c (@segmentStep F (fieldScalar T) dm onlyPositive sr fraction c angCur angNext lenCur lenNext i s) := by
  rw [@segmentStep_eq F (fieldScalar T)]
  dsimp only
  have hlerp : @lerpC F (fieldScalar T) lenCur lenNext fraction = lenCur + fraction * (lenNext - lenCur) := rfl
  have hb : (@segPre F (fieldScalar T) dm i s).beginSeg = (@segPre F (fieldScalar T) dm i s).endSeg := by
    rw [@segPre_beginSeg F (fieldScalar T), @segPre_endSeg F (fieldScalar T)]
  have hbs := @segPre_beginSeg F (fieldScalar T) dm i s
  have he := @segPre_endSeg F (fieldScalar T) dm i s
  have ht := @segPre_totalLength F (fieldScalar T) dm i s
  have hf := @segPre_found F (fieldScalar T) dm i s
  have hal := @segPre_along F (fieldScalar T) dm i s
  have hdi := @segPre_distance F (fieldScalar T) dm i s
  have hdr := @segPre_depthRef F (fieldScalar T) dm i s
  have n1 := @segPre_newAlong F (fieldScalar T) dm i s
  have n2 := @segPre_newDistance F (fieldScalar T) dm i s
  have n3 := @segPre_newDepthRef F (fieldScalar T) dm i s
  have n4 := @segPre_segmentFraction F (fieldScalar T) dm i s
  rcases hok with hskip | ⟨hlen, hinf, hcase⟩
  · have hyes : @LT.lt F (fieldScalar T).toLT (@lerpC F (fieldScalar T) lenCur lenNext fraction)
        (@OfScientific.ofScientific F (@Scalar.instOfScientific F (fieldScalar T)) 1 true 14) := by
      rw [lit_1em14]; exact hskip
    rw [if_pos hyes]
    generalize @segPre F (fieldScalar T) dm i s = s1 at *
    constructor
    · rw [ht, he]; exact hinv.endY
    · rw [ht, he]; exact hinv.endX
    · rw [ht, n1, n2, n3]; exact hinv.fresh
    · rw [hf, n4, hal, hdi, hdr]; exact hinv.hit
  · have hpos : 0 < lenCur + fraction * (lenNext - lenCur) := lt_of_lt_of_le (by positivity) hlen
    have hnot : ¬ @LT.lt F (fieldScalar T).toLT (@lerpC F (fieldScalar T) lenCur lenNext fraction)
        (@OfScientific.ofScientific F (@Scalar.instOfScientific F (fieldScalar T)) 1 true 14) := by
      rw [lit_1em14]; exact not_lt.mpr hlen
    rw [if_neg hnot, hlerp]
    generalize @segPre F (fieldScalar T) dm i s = s1 at *
    generalize @segAngTop F (fieldScalar T) dm fraction angCur angNext i s1 = θ at *
    generalize @segAngBot F (fieldScalar T) fraction angCur angNext s1 = β at *
    generalize lenCur + fraction * (lenNext - lenCur) = len at *
    have hgeom : GeomOK T sr c len s (@segGeom F (fieldScalar T) sr c θ β len s1) := by
      rcases hcase with hstraight | ⟨harc, hθ, hdir⟩
      · by_cases heps : T.eps < |len|
        · exact geomOK_straight T L.arc.plane sr c θ β len s s1 hb he hstraight heps hpos
        · exact geomOK_noeps T sr c θ β len s s1 he n1 n2 n3 hstraight heps hpos
      · rcases hdir with ⟨hlt, ρ, ψ, hρ, hε, h0, h1, hc⟩ | ⟨hlt, ρ, ψ, hρ, hε, h0, h1, hc⟩
        · exact geomOK_arc_incr T L sr θ β len s s1 hbs hθ hlt harc hpos ρ ψ hρ hε h0 h1 c hc
        · exact geomOK_arc_decr T L sr θ β len s s1 hbs hθ hlt harc hpos ρ ψ hρ hε h0 h1 c hc
    exact walkInv_step T onlyPositive i θ β len sr x0 y0 c s _ hinv hpos hinf
      (by rw [@segGeom_totalLength F (fieldScalar T), ht]) (by rw [@segGeom_found F (fieldScalar T), hf])
      (by rw [@segGeom_along F (fieldScalar T), hal]) (by rw [@segGeom_distance F (fieldScalar T), hdi])
      (by rw [@segGeom_depthRef F (fieldScalar T), hdr]) (by rw [@segGeom_segmentFraction F (fieldScalar T), n4]) hgeom


/-- what a non-skipped iteration leaves in the end point and the three `new…` members is `GeomOK`: the piece ends at most `len`
lower / further than it began, and the attribution it stores (if it stores one) is sound with respect to its begin point -/
theorem segmentStep_geomOK (L : ChordLaws T) (dm : DepthMethod) (onlyPositive : Bool) (sr fraction : F) (c : P2 F)
    (angCur angNext : P2 F) (lenCur lenNext : F) (i : Nat) (s : SegState F)
    (hlen : 1 / 10 ^ 14 ≤ lenCur + fraction * (lenNext - lenCur))
    (hok : PieceOK T s.endSeg c
      (@segAngTop F (fieldScalar T) dm fraction angCur angNext i (@segPre F (fieldScalar T) dm i s))
      (@segAngBot F (fieldScalar T) fraction angCur angNext (@segPre F (fieldScalar T) dm i s))
      (lenCur + fraction * (lenNext - lenCur))) :
    GeomOK T sr c (lenCur + fraction * (lenNext - lenCur)) s
      (@segmentStep F (fieldScalar T) dm onlyPositive sr fraction c angCur angNext lenCur lenNext i s) := by
  have hpos : 0 < lenCur + fraction * (lenNext - lenCur) := lt_of_lt_of_le (by positivity) hlen
  have hnot : ¬ @LT.lt F (fieldScalar T).toLT (@lerpC F (fieldScalar T) lenCur lenNext fraction)
      (@OfScientific.ofScientific F (@Scalar.instOfScientific F (fieldScalar T)) 1 true 14) := by
    rw [lit_1em14]; exact not_lt.mpr hlen
  obtain ⟨_, g2, g3, g4, g5⟩ := @segmentStep_geom F (fieldScalar T) dm onlyPositive sr fraction c angCur angNext lenCur lenNext i s hnot
  have hlerp : @lerpC F (fieldScalar T) lenCur lenNext fraction = lenCur + fraction * (lenNext - lenCur) := rfl
  rw [hlerp] at g2 g3 g4 g5
  unfold GeomOK
  rw [g2, g3, g4, g5]
  have hb : (@segPre F (fieldScalar T) dm i s).beginSeg = (@segPre F (fieldScalar T) dm i s).endSeg := by
    rw [@segPre_beginSeg F (fieldScalar T), @segPre_endSeg F (fieldScalar T)]
  have hbs := @segPre_beginSeg F (fieldScalar T) dm i s
  have he := @segPre_endSeg F (fieldScalar T) dm i s
  have n1 := @segPre_newAlong F (fieldScalar T) dm i s
  have n2 := @segPre_newDistance F (fieldScalar T) dm i s
  have n3 := @segPre_newDepthRef F (fieldScalar T) dm i s
  rcases hok with hskip | ⟨_, hinf, hcase⟩
  · exact absurd hskip (not_lt.mpr hlen)
  generalize @segPre F (fieldScalar T) dm i s = s1 at *
  generalize @segAngTop F (fieldScalar T) dm fraction angCur angNext i s1 = θ at *
  generalize @segAngBot F (fieldScalar T) fraction angCur angNext s1 = β at *
  generalize lenCur + fraction * (lenNext - lenCur) = len at *
  show GeomOK T sr c len s (@segGeom F (fieldScalar T) sr c θ β len s1)
  rcases hcase with hstraight | ⟨harc, hθ, hdir⟩
  · by_cases heps : T.eps < |len|
    · exact geomOK_straight T L.arc.plane sr c θ β len s s1 hb he hstraight heps hpos
    · exact geomOK_noeps T sr c θ β len s s1 he n1 n2 n3 hstraight heps hpos
  · rcases hdir with ⟨hlt, ρ, ψ, hρ, hε, h0, h1, hc⟩ | ⟨hlt, ρ, ψ, hρ, hε, h0, h1, hc⟩
    · exact geomOK_arc_incr T L sr θ β len s s1 hbs hθ hlt harc hpos ρ ψ hρ hε h0 h1 c hc
    · exact geomOK_arc_decr T L sr θ β len s s1 hbs hθ hlt harc hpos ρ ψ hρ hε h0 h1 c hc

/-! ### the walk -/

/-- **every one of the first `n` iterations is `PieceOK`** for the check point `c`: skipped, straight, or circular with `c` at a polar
position about the centre of the piece (`walkLen`, `walkDefault`: `Proofs/CullDepth.lean`) -/
def ArcWalk (dm : DepthMethod) (onlyPositive : Bool) (sr fraction : F) (c : P2 F)
    (angsCur angsNext : List (P2 F)) (lensCur lensNext : List F) (s0 : SegState F) (n : Nat) : Prop :=
  ∀ k, k < n →
    PieceOK T (@segStates F (fieldScalar T) dm onlyPositive sr fraction c angsCur angsNext lensCur lensNext s0 k).endSeg c
      (@segAngTop F (fieldScalar T) dm fraction (angsCur[k]?.getD (walkDefault T)) (angsNext[k]?.getD (walkDefault T)) k
        (@segPre F (fieldScalar T) dm k
          (@segStates F (fieldScalar T) dm onlyPositive sr fraction c angsCur angsNext lensCur lensNext s0 k)))
      (@segAngBot F (fieldScalar T) fraction (angsCur[k]?.getD (walkDefault T)) (angsNext[k]?.getD (walkDefault T))
        (@segPre F (fieldScalar T) dm k
          (@segStates F (fieldScalar T) dm onlyPositive sr fraction c angsCur angsNext lensCur lensNext s0 k)))
      (walkLen T lensCur lensNext fraction k)

/-- a straight walk is an `ArcWalk` -/
theorem StraightWalk.arcWalk (dm : DepthMethod) (onlyPositive : Bool) (sr fraction : F) (c : P2 F)
    (angsCur angsNext : List (P2 F)) (lensCur lensNext : List F) (s0 : SegState F) (n : Nat)
    (hw : StraightWalk T dm onlyPositive sr fraction c angsCur angsNext lensCur lensNext s0 n) :
    ArcWalk T dm onlyPositive sr fraction c angsCur angsNext lensCur lensNext s0 n := by
  intro k hk
  obtain ⟨w1, _, w3, w4⟩ := hw k hk
  exact Or.inr ⟨w3, w4, Or.inl w1⟩

/-- the invariant holds along a walk of straight and circular pieces -/
theorem segStates_walkInv (L : ChordLaws T) (dm : DepthMethod) (onlyPositive : Bool) (sr fraction : F) (c : P2 F)
    (angsCur angsNext : List (P2 F)) (lensCur lensNext : List F) (s0 : SegState F) (x0 y0 : F) (n : Nat)
    (h0 : WalkInv T x0 y0 sr c s0)
    (hw : ArcWalk T dm onlyPositive sr fraction c angsCur angsNext lensCur lensNext s0 n) (k : Nat) (hk : k ≤ n) :
    WalkInv T x0 y0 sr c (@segStates F (fieldScalar T) dm onlyPositive sr fraction c angsCur angsNext lensCur lensNext s0 k) := by
  induction k with
  | zero => exact h0
  | succ k ih =>
    exact segmentStep_walkInv T L dm onlyPositive sr fraction c _ _ _ _ k _ x0 y0 (ih (by omega)) (hw k (by omega))

/-- the state the walk starts from (utilities.cc: `found = false`, `totalLength = 0`, `newAlong = +∞`) satisfies the invariant with
`(x0, y0) = begin0` -/
theorem walkInv_start (sr : F) (c : P2 F) (s0 : SegState F) (hf : s0.found = false) (ht : s0.totalLength = 0)
    (hn : ¬ s0.newAlong < T.inf) : WalkInv T s0.endSeg.x s0.endSeg.y sr c s0 := by
  constructor
  · rw [ht]; simp
  · rw [ht]; simp
  · intro h; exact absurd h hn
  · intro h; rw [hf] at h; cases h

/-- **the model's segment loop over straight and circular pieces**: if the loop recorded a foot (`found`) with
`segmentFraction ≥ 0`, the check point lies at most `along + |distance|` below the height and at most that far from the abscissa the
walk started at, and the recorded reference depth is at most `along` (`+ sr − y0`) -/
theorem segmentLoop_arc_bound (L : ChordLaws T) (dm : DepthMethod) (onlyPositive : Bool) (sr fraction : F) (c : P2 F)
    (angsCur angsNext : List (P2 F)) (lensCur lensNext : List F) (s0 s : SegState F)
    (h1 : lensCur.length ≤ angsCur.length) (h2 : lensCur.length ≤ angsNext.length) (h3 : lensCur.length ≤ lensNext.length)
    (hf : s0.found = false) (ht : s0.totalLength = 0) (hn : ¬ s0.newAlong < T.inf)
    (hw : ArcWalk T dm onlyPositive sr fraction c angsCur angsNext lensCur lensNext s0 lensCur.length)
    (hs : @segmentLoop F (fieldScalar T) dm onlyPositive sr fraction c angsCur angsNext lensCur lensNext (lensCur.length + 1) 0 s0 = .ok s)
    (hfound : s.found = true) (hfr : 0 ≤ s.segmentFraction) :
    s0.endSeg.y - c.y ≤ s.along + |s.distance| ∧ |c.x - s0.endSeg.x| ≤ s.along + |s.distance| ∧
    s.depthRef ≤ sr - s0.endSeg.y + s.along := by
  have hloop := @segmentLoop_states F (fieldScalar T) dm onlyPositive sr fraction c angsCur angsNext lensCur lensNext s0 h1 h2 h3
    (lensCur.length + 1) 0 (Nat.zero_le _) (by omega)
  have e0 : @segStates F (fieldScalar T) dm onlyPositive sr fraction c angsCur angsNext lensCur lensNext s0 0 = s0 := rfl
  rw [e0, hs] at hloop
  cases hloop
  exact (segStates_walkInv T L dm onlyPositive sr fraction c angsCur angsNext lensCur lensNext s0 s0.endSeg.x s0.endSeg.y lensCur.length
    (walkInv_start T sr c s0 hf ht hn) hw lensCur.length le_rfl).hit hfound hfr

end field

/-! ### the laws are those of the real functions -/

theorem real_chordLaws : ChordLaws realArcTransc where
  arc := real_arcLaws
  abs_sin_le _ := Real.abs_sin_le_abs

end Gwb
