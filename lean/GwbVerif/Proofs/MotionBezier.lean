/-
Helpers for C08, part 4: the Bezier trench curve under a translation (Cartesian branch).
`Bezier.build` on translated points gives translated control points and the same angles; the damped Newton iteration of
`closest_point_on_curve_segment` only sees the power-basis coefficients `a, b, c` (functions of coordinate differences) and
`d − check_point`, so every iterate is the same.  The SIGN of the returned distance is computed from
`derivative_point − point_on_curve` (a vector minus a position) and is not translation invariant.
-/
import GwbVerif.Proofs.MotionPlume
import GwbVerif.Model.Geometry.Bezier
namespace Gwb
open Scalar
set_option linter.unusedSectionVars false

theorem Except.map_bind_eq {ε α β γ : Type} (g : α → β) (x : Except ε α) (k : β → Except ε γ) :
    (Except.map g x >>= k) = x >>= fun a => k (g a) := by
  cases x <;> rfl

/-! ### every `Scalar R`: the Newton iteration does not look at `k.d` -/
section generic
variable {R : Type} [Scalar R]

theorem evalC_d (k : Cubic R) (d' : P2 R) (dm0 dm1 t : R) : evalC { k with d := d' } dm0 dm1 t = evalC k dm0 dm1 t := rfl

theorem lineSearchC_d (k : Cubic R) (d' : P2 R) (dm0 dm1 est update sd : R) (fuel i : Nat) (ls prev : R) :
    lineSearchC { k with d := d' } dm0 dm1 est update sd fuel i ls prev = lineSearchC k dm0 dm1 est update sd fuel i ls prev := by
  induction fuel generalizing i ls prev with
  | zero => rfl
  | succ n ih =>
    unfold lineSearchC
    simp only [evalC_d, ih]

theorem newtonC_d (k : Cubic R) (d' : P2 R) (dm0 dm1 : R) (fuel : Nat) (est : R) :
    newtonC { k with d := d' } dm0 dm1 fuel est = newtonC k dm0 dm1 fuel est := by
  induction fuel generalizing est with
  | zero => rfl
  | succ n ih =>
    unfold newtonC
    simp only [lineSearchC_d, ih]

/-- the Newton result `(est, found)` of one piece and the squared distance at `est` -/
def pieceC (p1 p2 c0 c1 cp : P2 R) : (R × Bool) × R :=
  let k := cubicOf p1 p2 c0 c1
  let dm0 := k.d.x - cp.x
  let dm1 := k.d.y - cp.y
  let r := newtonC k dm0 dm1 150 (initialEstimate p1 p2 cp)
  let est := r.1
  let e0 := k.a.x * est * est * est + k.b.x * est * est + k.c.x * est + dm0
  let e1 := k.a.y * est * est * est + k.b.y * est * est + k.c.y * est + dm1
  (r, e0 * e0 + e1 * e1)

/-- `point_on_curve` -/
def onCurveC (k : Cubic R) (est : R) : P2 R :=
  ⟨k.a.x * est * est * est + k.b.x * est * est + k.c.x * est + k.d.x,
   k.a.y * est * est * est + k.b.y * est * est + k.c.y * est + k.d.y⟩

/-- one iteration of the loop over the pieces -/
theorem closestCartesianLoop_succ (bz : Bezier R) (cp : P2 R) (fuel i : Nat) (minSq : R) (best : Option (ClosestPoint R)) :
    closestCartesianLoop bz cp (fuel + 1) i minSq best =
      if i < bz.control.length then do
        let p1 ← idx bz.points i
        let p2 ← idx bz.points (i + 1)
        let c ← idx bz.control i
        let r := pieceC p1 p2 c.1 c.2 cp
        if !r.1.2 then .error .newton
        if r.2 < minSq ∧ accept i r.1.1 then
          closestCartesianLoop bz cp fuel (i + 1) r.2
            (some (closestOf (cubicOf p1 p2 c.1 c.2) p1 p2 c.1 c.2 cp i r.1.1 r.2 (onCurveC (cubicOf p1 p2 c.1 c.2) r.1.1)))
        else closestCartesianLoop bz cp fuel (i + 1) minSq best
      else .ok best := by
  rfl

end generic

section field
variable {F : Type} [Field F] [LinearOrder F] [IsStrictOrderedRing F] (T : Transc F)

theorem lit_three_dec : @OfScientific.ofScientific F (@Scalar.instOfScientific F (fieldScalar T)) 30 true 1 = (3 : F) := by
  show ((OfScientific.ofScientific 30 true 1 : ℚ) : F) = 3
  norm_num
theorem lit_six_dec : @OfScientific.ofScientific F (@Scalar.instOfScientific F (fieldScalar T)) 60 true 1 = (6 : F) := by
  show ((OfScientific.ofScientific 60 true 1 : ℚ) : F) = 6
  norm_num
theorem lit_nine_dec : @OfScientific.ofScientific F (@Scalar.instOfScientific F (fieldScalar T)) 90 true 1 = (9 : F) := by
  show ((OfScientific.ofScientific 90 true 1 : ℚ) : F) = 9
  norm_num
theorem lit_natCast (n : ℕ) : @OfNat.ofNat F n (@Scalar.instOfNat F (fieldScalar T) n) = ((n : ℕ) : F) := rfl

/-! ### small kernels -/

theorem ctrlAt_shift (v : P2 F) (angle len : F) (p : P2 F) :
    @ctrlAt F (fieldScalar T) angle len (P2.shift v p) = P2.shift v (@ctrlAt F (fieldScalar T) angle len p) := by
  unfold ctrlAt
  simp only [P2.shift, P2.mk.injEq]
  exact ⟨by ring, by ring⟩

theorem sideOfLine_shift (v p1 p2 q : P2 F) :
    @sideOfLine F (fieldScalar T) (P2.shift v p1) (P2.shift v p2) (P2.shift v q) = @sideOfLine F (fieldScalar T) p1 p2 q := by
  unfold sideOfLine
  simp only [P2.shift_x, P2.shift_y, sub_shift_cancel]

theorem P2.sub_shift (v a b : P2 F) :
    @HSub.hSub (P2 F) (P2 F) (P2 F) (@instHSub (P2 F) (@P2.instSub F (fieldScalar T))) (P2.shift v a) (P2.shift v b) =
    @HSub.hSub (P2 F) (P2 F) (P2 F) (@instHSub (P2 F) (@P2.instSub F (fieldScalar T))) a b := by
  show (⟨_, _⟩ : P2 F) = ⟨_, _⟩
  simp only [P2.shift_x, P2.shift_y, sub_shift_cancel]

/-- the feature with translated points, translated control points, same angles -/
def Bezier.shift (v : P2 F) (bz : Bezier F) : Bezier F :=
  ⟨bz.points.map (P2.shift v), bz.control.map (fun c => (P2.shift v c.1, P2.shift v c.2)), bz.angles⟩

/-! ### the constructor -/

theorem bezierAngles_shift (v : P2 F) (pts : List (P2 F)) :
    @bezierAngles F (fieldScalar T) (pts.map (P2.shift v)) = @bezierAngles F (fieldScalar T) pts := by
  unfold bezierAngles
  simp only [List.length_map, idx_map, Except.map_bind_eq, P2.shift_x, P2.shift_y, sub_shift_cancel]

theorem bezierControlRest_shift (v : P2 F) (pts : List (P2 F)) (angles : List F) (n fuel i : Nat) (prev : P2 F) :
    @bezierControlRest F (fieldScalar T) (pts.map (P2.shift v)) angles n fuel i (P2.shift v prev) =
      Except.map (List.map (fun c => (P2.shift v c.1, P2.shift v c.2))) (@bezierControlRest F (fieldScalar T) pts angles n fuel i prev) := by
  induction fuel generalizing i prev with
  | zero => rfl
  | succ m ih =>
    unfold bezierControlRest
    split
    · simp only [idx_map, Except.map_bind_eq, P2.sub_shift, ctrlAt_shift, sideOfLine_shift]
      rcases idx pts i with e | p1
      · rfl
      rcases idx pts (i + 1) with e | p2
      · rfl
      rcases idx angles i with e | ai
      · rfl
      rcases idx angles (i + 1) with e | an
      · rfl
      simp only [bind, Except.bind, ← apply_ite (P2.shift v)]
      by_cases h2 : i + 1 < n - 1
      · simp only [h2, if_true]
        rcases idx pts (i + 2) with e | p3
        · rfl
        simp only [pure, Except.pure, ih]
        rcases @bezierControlRest F (fieldScalar T) pts angles n m (i + 1) _ with e | rest
        · rfl
        rfl
      · simp only [h2, if_false]
        simp only [pure, Except.pure, ih]
        rcases @bezierControlRest F (fieldScalar T) pts angles n m (i + 1) _ with e | rest
        · rfl
        rfl
    · rfl

/-- **`BezierCurve::BezierCurve` on translated points**: translated points, translated control points, the same angles -/
theorem Bezier.build_shift (v : P2 F) (pts : List (P2 F)) :
    @Bezier.build F (fieldScalar T) (pts.map (P2.shift v)) = Except.map (Bezier.shift v) (@Bezier.build F (fieldScalar T) pts) := by
  unfold Bezier.build
  simp only [bezierAngles_shift, List.length_map, idx_map, Except.map_bind_eq, P2.sub_shift, ctrlAt_shift, sideOfLine_shift]
  rcases @bezierAngles F (fieldScalar T) pts with e | angles
  · rfl
  rcases idx pts 0 with e | p0
  · rfl
  simp only [bind, Except.bind]
  split
  · simp only [pure, Except.pure, Except.map, Bezier.shift, List.map_replicate]
  · rcases idx pts 1 with e | p2
    · rfl
    rcases idx pts 2 with e | p3
    · rfl
    rcases idx angles 0 with e | a0
    · rfl
    rcases idx angles 1 with e | a1
    · rfl
    simp only [← apply_ite (P2.shift v), bezierControlRest_shift]
    rcases @bezierControlRest F (fieldScalar T) pts angles pts.length pts.length 1 _ with e | rest
    · rfl
    rfl

/-! ### the closest point (Cartesian branch) -/

theorem initialEstimate_shift (v p1 p2 cp : P2 F) :
    @initialEstimate F (fieldScalar T) (P2.shift v p1) (P2.shift v p2) (P2.shift v cp) = @initialEstimate F (fieldScalar T) p1 p2 cp := by
  unfold initialEstimate
  simp only [P2.sub_shift]

/-- the power-basis coefficients `a, b, c` are functions of coordinate differences; `d` is the first point -/
theorem cubicOf_shift (v p0 p1 c0 c1 : P2 F) :
    @cubicOf F (fieldScalar T) (P2.shift v p0) (P2.shift v p1) (P2.shift v c0) (P2.shift v c1) =
      { @cubicOf F (fieldScalar T) p0 p1 c0 c1 with d := P2.shift v p0 } := by
  unfold cubicOf
  simp only [Cubic.mk.injEq, P2.mk.injEq, P2.shift_x, P2.shift_y, lit_three_dec, lit_six_dec, and_true]
  refine ⟨⟨?_, ?_⟩, ⟨?_, ?_⟩, ?_, ?_⟩ <;> ring

theorem P2.mk_add_eq_shift (v : P2 F) (X Y : F) : (⟨X + v.x, Y + v.y⟩ : P2 F) = P2.shift v ⟨X, Y⟩ := rfl

/-- the result with its point translated -/
def ClosestPoint.shift (v : P2 F) (c : ClosestPoint F) : ClosestPoint F := { c with point := P2.shift v c.point }
/-- the result with the sign of the distance forgotten -/
def ClosestPoint.unsign (c : ClosestPoint F) : ClosestPoint F := { c with distance := |c.distance| }

/-- the accepted candidate: everything but the sign of the distance follows the translation -/
theorem closestOf_shift (v : P2 F) (k : Cubic F) (d' p0 p1 c0 c1 cp : P2 F) (i : Nat) (est msd : F) (oc : P2 F) :
    (@closestOf F (fieldScalar T) { k with d := d' } (P2.shift v p0) (P2.shift v p1) (P2.shift v c0) (P2.shift v c1) (P2.shift v cp)
        i est msd (P2.shift v oc)).unsign =
      ((@closestOf F (fieldScalar T) k p0 p1 c0 c1 cp i est msd oc).shift v).unsign := by
  unfold closestOf ClosestPoint.unsign ClosestPoint.shift
  simp only [ClosestPoint.mk.injEq, and_true]
  split <;> split <;> simp only [neg_mul, abs_neg]


theorem pieceC_shift (v p1 p2 c0 c1 cp : P2 F) :
    @pieceC F (fieldScalar T) (P2.shift v p1) (P2.shift v p2) (P2.shift v c0) (P2.shift v c1) (P2.shift v cp) =
      @pieceC F (fieldScalar T) p1 p2 c0 c1 cp := by
  unfold pieceC
  simp only [cubicOf_shift, initialEstimate_shift, newtonC_d, P2.shift_x, P2.shift_y]
  have hd : (@cubicOf F (fieldScalar T) p1 p2 c0 c1).d = p1 := rfl
  simp only [hd, sub_shift_cancel]

theorem onCurveC_shift (v p1 p2 c0 c1 : P2 F) (est : F) :
    @onCurveC F (fieldScalar T) (@cubicOf F (fieldScalar T) (P2.shift v p1) (P2.shift v p2) (P2.shift v c0) (P2.shift v c1)) est =
      P2.shift v (@onCurveC F (fieldScalar T) (@cubicOf F (fieldScalar T) p1 p2 c0 c1) est) := by
  rw [cubicOf_shift]
  unfold onCurveC
  have hd : (@cubicOf F (fieldScalar T) p1 p2 c0 c1).d = p1 := rfl
  simp only [hd, P2.shift, P2.mk.injEq]
  exact ⟨by ring, by ring⟩

/-- the loop over the pieces: the same piece wins with the same estimate -/
theorem closestCartesianLoop_shift (v : P2 F) (bz : Bezier F) (cp : P2 F) (fuel i : Nat) (minSq : F)
    (best best' : Option (ClosestPoint F))
    (hb : best'.map ClosestPoint.unsign = best.map (fun c => (c.shift v).unsign)) :
    Except.map (Option.map ClosestPoint.unsign)
        (@closestCartesianLoop F (fieldScalar T) (bz.shift v) (P2.shift v cp) fuel i minSq best') =
      Except.map (Option.map (fun c => (c.shift v).unsign)) (@closestCartesianLoop F (fieldScalar T) bz cp fuel i minSq best) := by
  induction fuel generalizing i minSq best best' with
  | zero => unfold closestCartesianLoop; simp only [Except.map, hb]
  | succ m ih =>
    rw [@closestCartesianLoop_succ F (fieldScalar T), @closestCartesianLoop_succ F (fieldScalar T)]
    have hl : (bz.shift v).control.length = bz.control.length := by simp [Bezier.shift]
    have hp : (bz.shift v).points = bz.points.map (P2.shift v) := rfl
    have hc : (bz.shift v).control = bz.control.map (fun c => (P2.shift v c.1, P2.shift v c.2)) := rfl
    rw [hl, hp, hc]
    split
    · simp only [idx_map, Except.map_bind_eq, pieceC_shift, onCurveC_shift]
      rcases idx bz.points i with e | p1
      · rfl
      rcases idx bz.points (i + 1) with e | p2
      · rfl
      rcases idx bz.control i with e | c
      · rfl
      simp only [bind, Except.bind]
      rcases @pieceC F (fieldScalar T) p1 p2 c.1 c.2 cp with ⟨⟨est, found⟩, msd⟩
      cases found with
      | false => rfl
      | true =>
        simp only [Bool.not_true, Bool.false_eq_true, if_false]
        split
        · apply ih
          simp only [Option.map_some, Option.some.injEq]
          rw [cubicOf_shift]
          exact closestOf_shift T v _ _ p1 p2 c.1 c.2 cp i est msd _
        · exact ih _ _ _ _ hb
    · simp only [Except.map, hb]

/-- **`closest_point_on_curve_segment`, Cartesian branch, under translation**: the translated curve at the translated point returns
the translated point with the same parametric fraction, piece index, normal and ABSOLUTE distance -/
theorem Bezier.closestPoint_shift (v : P2 F) (bz : Bezier F) (cp : P2 F) :
    Except.map (Option.map ClosestPoint.unsign) (@Bezier.closestPoint F (fieldScalar T) (bz.shift v) false (P2.shift v cp)) =
      Except.map (Option.map (fun c => (c.shift v).unsign)) (@Bezier.closestPoint F (fieldScalar T) bz false cp) := by
  unfold Bezier.closestPoint
  simp only [Bool.false_eq_true, if_false]
  have hl : (bz.shift v).control.length = bz.control.length := by simp [Bezier.shift]
  rw [hl]
  exact closestCartesianLoop_shift T v bz cp _ 0 _ none none rfl

end field
end Gwb
