/-
Helper lemmas for C17 (`gwb-dat`): the library's slot names versus the layout of Model/Layout.lean, indexing into
concatenations of equally long blocks, the alignment of header / row / layout, and the option-line scan.
Core Lean only.
-/
import GwbVerif.Model.Apps.Dat
import GwbVerif.Proofs.Layout
namespace Gwb

/-! ### generic list lemmas -/

theorem flatMap_congr' {α β : Type} (l : List α) (f g : α → List β) (h : ∀ a ∈ l, f a = g a) :
    l.flatMap f = l.flatMap g := by
  induction l with
  | nil => rfl
  | cons a l ih =>
    simp only [List.flatMap_cons]
    rw [h a (by simp), ih (fun b hb => h b (by simp [hb]))]

theorem flatMap_eq_nil' {α β : Type} (l : List α) (f : α → List β) (h : ∀ a ∈ l, f a = []) : l.flatMap f = [] := by
  induction l with
  | nil => rfl
  | cons a l ih =>
    simp only [List.flatMap_cons]
    rw [h a (by simp), ih (fun b hb => h b (by simp [hb]))]; rfl

/-- a concatenation of blocks that all have length `L` -/
theorem length_flatMap_uniform {α β : Type} (f : α → List β) (L : Nat) (hf : ∀ a, (f a).length = L) (l : List α) :
    (l.flatMap f).length = l.length * L := by
  induction l with
  | nil => simp
  | cons a l ih =>
    simp only [List.flatMap_cons, List.length_append, List.length_cons, hf, ih, Nat.add_mul, Nat.one_mul]
    omega

/-- entry `j` of block `i` of a concatenation of blocks of length `L` sits at index `i * L + j` -/
theorem flatMap_range_getElem? {β : Type} (f : Nat → List β) (L : Nat) (hf : ∀ a, (f a).length = L)
    (m i j : Nat) (hi : i < m) (hj : j < L) : ((List.range m).flatMap f)[i * L + j]? = (f i)[j]? := by
  induction m with
  | zero => omega
  | succ m ih =>
    rw [List.range_succ, List.flatMap_append]
    have hlen : ((List.range m).flatMap f).length = m * L := by
      rw [length_flatMap_uniform f L hf]; simp
    by_cases him : i < m
    · have hlt : i * L + j < m * L := by
        have : (i + 1) * L ≤ m * L := Nat.mul_le_mul_right L him
        rw [Nat.add_mul, Nat.one_mul] at this
        omega
      rw [List.getElem?_append_left (by rw [hlen]; exact hlt)]
      exact ih him
    · have : i = m := by omega
      subst this
      rw [List.getElem?_append_right (by rw [hlen]; omega), hlen]
      have : i * L + j - i * L = j := by omega
      rw [this]
      simp [hf, hj]

theorem flatMap_map_singleton {α β γ : Type} (l : List α) (f : α → β) (g : β → List γ) (h : α → γ)
    (hg : ∀ a, g (f a) = [h a]) : (l.map f).flatMap g = l.map h := by
  induction l with
  | nil => rfl
  | cons a l ih => simp [List.flatMap_cons, hg, ih]

/-! ### the library's slot names and the layout of Model/Layout.lean -/

/-- the nine matrix names of grain `g`, row-major (as `M3.toList`) -/
def matNames (gc g : Nat) : List ColName :=
  [.gm gc g 0 0, .gm gc g 0 1, .gm gc g 0 2, .gm gc g 1 0, .gm gc g 1 1, .gm gc g 1 2,
   .gm gc g 2 0, .gm gc g 2 1, .gm gc g 2 2]

/-- the block of a grains request -/
def grainBlockNames (gc k : Nat) : List ColName :=
  (List.range k).map (.gs gc) ++ (List.range k).flatMap (matNames gc)

theorem reqNames_grains (gc k : Nat) : reqNames (Req.grains gc k) = grainBlockNames gc k := rfl

theorem grainBlockNames_length (gc k : Nat) : (grainBlockNames gc k).length = k * 10 := by
  unfold grainBlockNames
  rw [List.length_append, length_flatMap_uniform (matNames gc) 9 (fun _ => rfl)]
  simp only [List.length_map, List.length_range]
  omega

/-- every request's block of names is as long as the block the library writes -/
theorem reqNames_length (p : Req) : (reqNames p).length = p.size := by
  obtain ⟨code, n, k⟩ := p
  unfold reqNames Req.size Req.size?
  simp only
  split
  · rfl
  · rfl
  · exact grainBlockNames_length n k
  · rfl
  · rfl
  · split <;> simp_all

theorem propNames_length (ps : List Req) : (propNames ps).length = outputSize ps := by
  induction ps with
  | nil => rfl
  | cons p ps ih =>
    unfold propNames outputSize at *
    simp only [List.flatMap_cons, List.length_append, List.map_cons, List.sum_cons, reqNames_length, ih]

theorem propNames_append (ps qs : List Req) : propNames (ps ++ qs) = propNames ps ++ propNames qs := by
  unfold propNames; exact List.flatMap_append

/-- the names of request `i` occupy exactly the block that starts at `entry_in_output[i]` -/
theorem propNames_block (ps : List Req) (i : Nat) (h : i < ps.length) :
    ((propNames ps).drop ((entries ps)[i]'(by unfold entries; rw [entriesFrom_length]; exact h))).take (ps[i]'h).size
      = reqNames (ps[i]'h) := by
  have hsplit : ps = ps.take i ++ (ps[i]'h :: ps.drop (i + 1)) := by
    rw [List.getElem_cons_drop, List.take_append_drop]
  have hentry : (entries ps)[i]'(by unfold entries; rw [entriesFrom_length]; exact h)
      = (propNames (ps.take i)).length := by
    unfold entries
    rw [entriesFrom_getElem 0 ps i h, propNames_length]
    simp [outputSize]
  rw [hentry]
  have hnames : propNames ps = propNames (ps.take i) ++ (reqNames (ps[i]'h) ++ propNames (ps.drop (i + 1))) := by
    conv => lhs; rw [hsplit]
    rw [propNames_append]
    rfl
  rw [hnames, List.drop_left, ← reqNames_length, List.take_left]

/-- the slot names of the `gwb-dat` property list, block by block -/
theorem slotNames_eq (cfg : DatCfg) :
    slotNames cfg =
      [.T, .v 0, .v 1, .v 2] ++ (List.range cfg.compositions).map .c
        ++ (List.range cfg.grainCompositions).flatMap (fun gc => grainBlockNames gc cfg.nGrains) ++ [.tag] := by
  unfold slotNames datProps
  rw [propNames_append, propNames_append, propNames_append]
  have h1 : propNames [Req.temperature, Req.velocity] = [.T, .v 0, .v 1, .v 2] := rfl
  have h2 : propNames ((List.range cfg.compositions).map Req.composition) = (List.range cfg.compositions).map .c :=
    flatMap_map_singleton _ _ _ _ (fun _ => rfl)
  have h3 : propNames ((List.range cfg.grainCompositions).map (fun gc => Req.grains gc cfg.nGrains))
      = (List.range cfg.grainCompositions).flatMap (fun gc => grainBlockNames gc cfg.nGrains) := by
    unfold propNames
    rw [List.flatMap_map]
    rfl
  have h4 : propNames [Req.tag] = [.tag] := rfl
  rw [h1, h2, h3, h4]

theorem outputSize_datProps (cfg : DatCfg) :
    outputSize (datProps cfg) = 4 + cfg.compositions + cfg.grainCompositions * (cfg.nGrains * 10) + 1 := by
  rw [← propNames_length]
  show (slotNames cfg).length = _
  rw [slotNames_eq]
  simp only [List.length_append, List.length_map, List.length_range, List.length_cons, List.length_nil]
  rw [length_flatMap_uniform _ (cfg.nGrains * 10) (fun gc => grainBlockNames_length gc cfg.nGrains)]
  simp

/-! ### indexing into the slot names -/

theorem slotNames_head (cfg : DatCfg) :
    (slotNames cfg)[0]? = some .T ∧ (slotNames cfg)[1]? = some (.v 0) ∧ (slotNames cfg)[2]? = some (.v 1)
      ∧ (slotNames cfg)[3]? = some (.v 2) := by
  rw [slotNames_eq]
  simp [List.append_assoc]

theorem slotNames_comp (cfg : DatCfg) (c : Nat) (h : c < cfg.compositions) :
    (slotNames cfg)[4 + c]? = some (.c c) := by
  rw [slotNames_eq, List.append_assoc, List.append_assoc]
  rw [List.getElem?_append_right (by simp)]
  simp only [List.length_cons, List.length_nil]
  have : 4 + c - (0 + 1 + 1 + 1 + 1) = c := by omega
  rw [this, List.getElem?_append_left (by simpa using h)]
  simp [List.getElem?_range h]

/-- entry `j` of the grains block of grain composition `gc` -/
theorem slotNames_grainBlock (cfg : DatCfg) (gc j : Nat) (hgc : gc < cfg.grainCompositions) (hj : j < cfg.nGrains * 10) :
    (slotNames cfg)[4 + cfg.compositions + (gc * (cfg.nGrains * 10) + j)]? = (grainBlockNames gc cfg.nGrains)[j]? := by
  rw [slotNames_eq]
  have hpre : ([ColName.T, .v 0, .v 1, .v 2] ++ (List.range cfg.compositions).map ColName.c).length
      = 4 + cfg.compositions := by simp; omega
  have hlen := length_flatMap_uniform (fun gc => grainBlockNames gc cfg.nGrains) (cfg.nGrains * 10)
    (fun gc => grainBlockNames_length gc cfg.nGrains) (List.range cfg.grainCompositions)
  rw [List.length_range] at hlen
  have hlt : gc * (cfg.nGrains * 10) + j < cfg.grainCompositions * (cfg.nGrains * 10) := by
    have : (gc + 1) * (cfg.nGrains * 10) ≤ cfg.grainCompositions * (cfg.nGrains * 10) :=
      Nat.mul_le_mul_right _ hgc
    rw [Nat.add_mul, Nat.one_mul] at this
    omega
  rw [List.append_assoc _ _ [ColName.tag], List.getElem?_append_right (by rw [hpre]; omega), hpre]
  have : 4 + cfg.compositions + (gc * (cfg.nGrains * 10) + j) - (4 + cfg.compositions)
      = gc * (cfg.nGrains * 10) + j := by omega
  rw [this, List.getElem?_append_left (by rw [hlen]; exact hlt)]
  exact flatMap_range_getElem? _ _ (fun gc => grainBlockNames_length gc cfg.nGrains) _ _ _ hgc hj

theorem grainBlockNames_size (gc k g : Nat) (hg : g < k) : (grainBlockNames gc k)[g]? = some (.gs gc g) := by
  unfold grainBlockNames
  rw [List.getElem?_append_left (by simpa using hg)]
  simp [List.getElem?_range hg]

theorem grainBlockNames_mat (gc k g j : Nat) (hg : g < k) (hj : j < 9) :
    (grainBlockNames gc k)[k + (g * 9 + j)]? = (matNames gc g)[j]? := by
  unfold grainBlockNames
  rw [List.getElem?_append_right (by simp)]
  simp only [List.length_map, List.length_range]
  have : k + (g * 9 + j) - k = g * 9 + j := by omega
  rw [this]
  exact flatMap_range_getElem? _ 9 (fun _ => rfl) _ _ _ hg hj

/-- the slot of the size of grain `g` of grain composition `gc`, written as in main.cc with `start = off + compositions + gc*n*10` -/
theorem slotNames_gs (cfg : DatCfg) (gc g : Nat) (hgc : gc < cfg.grainCompositions) (hg : g < cfg.nGrains) :
    (slotNames cfg)[4 + cfg.compositions + gc * cfg.nGrains * 10 + g]? = some (.gs gc g) := by
  have e : 4 + cfg.compositions + gc * cfg.nGrains * 10 + g
      = 4 + cfg.compositions + (gc * (cfg.nGrains * 10) + g) := by rw [Nat.mul_assoc]; omega
  rw [e, slotNames_grainBlock cfg gc g hgc (by omega)]
  exact grainBlockNames_size gc cfg.nGrains g hg

theorem slotNames_gm (cfg : DatCfg) (gc g j : Nat) (hgc : gc < cfg.grainCompositions) (hg : g < cfg.nGrains)
    (hj : j < 9) :
    (slotNames cfg)[4 + cfg.compositions + gc * cfg.nGrains * 10 + cfg.nGrains + g * 9 + j]? = (matNames gc g)[j]? := by
  have e : 4 + cfg.compositions + gc * cfg.nGrains * 10 + cfg.nGrains + g * 9 + j
      = 4 + cfg.compositions + (gc * (cfg.nGrains * 10) + (cfg.nGrains + (g * 9 + j))) := by
    rw [Nat.mul_assoc]; omega
  rw [e, slotNames_grainBlock cfg gc _ hgc (by omega)]
  exact grainBlockNames_mat gc cfg.nGrains g j hg hj

theorem slotNames_last (cfg : DatCfg) : (slotNames cfg)[outputSize (datProps cfg) - 1]? = some .tag := by
  have hl : (slotNames cfg).length = outputSize (datProps cfg) := propNames_length _
  have key : ∀ (l : List ColName) (a : ColName), (l ++ [a])[(l ++ [a]).length - 1]? = some a := by
    intro l a; simp
  rw [← hl, slotNames_eq]
  exact key _ _

/-! ### the name shown in each column of a row -/

/-- the library's name of the value printed in a column (`none` for an echoed input token or a slot outside `output`) -/
def nameOf (names : List ColName) (o : Option Nat) : Option ColName := o.bind (names[·]?)

theorem grainSlots_named (cfg : DatCfg) (gc g : Nat) (hgc : gc < cfg.grainCompositions) (hg : g < cfg.nGrains) :
    (grainSlots (4 + cfg.compositions + gc * cfg.nGrains * 10) cfg.nGrains g).map (nameOf (slotNames cfg))
      = (grainHeader gc g).map some := by
  unfold grainSlots grainHeader
  simp only [List.map_cons, List.map_nil, nameOf, Option.bind_some]
  rw [slotNames_gs cfg gc g hgc hg]
  have h0 := slotNames_gm cfg gc g 0 hgc hg (by omega)
  have h1 := slotNames_gm cfg gc g 1 hgc hg (by omega)
  have h2 := slotNames_gm cfg gc g 2 hgc hg (by omega)
  have h3 := slotNames_gm cfg gc g 3 hgc hg (by omega)
  have h4 := slotNames_gm cfg gc g 4 hgc hg (by omega)
  have h5 := slotNames_gm cfg gc g 5 hgc hg (by omega)
  have h6 := slotNames_gm cfg gc g 6 hgc hg (by omega)
  have h7 := slotNames_gm cfg gc g 7 hgc hg (by omega)
  have h8 := slotNames_gm cfg gc g 8 hgc hg (by omega)
  rw [Nat.add_zero] at h0
  rw [h0, h1, h2, h3, h4, h5, h6, h7, h8]
  rfl

/-- the composition and grain names of the header (the header tail without `tag`) -/
def datHeaderMiddle (cfg : DatCfg) : List ColName :=
  (List.range cfg.compositions).map .c
    ++ (List.range cfg.grainCompositions).flatMap (fun gc => (List.range cfg.nGrains).flatMap (grainHeader gc))

theorem datHeaderTail_eq (cfg : DatCfg) : datHeaderTail cfg = datHeaderMiddle cfg ++ [.tag] := rfl

/-- reading from offset 4, every composition / grain column shows the slot that the library names like the header does -/
theorem datRowMiddle4_named (cfg : DatCfg) :
    (datRowMiddle 4 cfg).map (nameOf (slotNames cfg)) = (datHeaderMiddle cfg).map some := by
  unfold datRowMiddle datHeaderMiddle
  rw [List.map_append, List.map_append, List.map_map, List.map_map, List.map_flatMap, List.map_flatMap]
  congr 1
  · apply List.map_congr_left
    intro c hc
    simp only [Function.comp, nameOf, Option.bind_some]
    exact slotNames_comp cfg c (by simpa using hc)
  · apply flatMap_congr'
    intro gc hgc
    simp only
    rw [List.map_flatMap, List.map_flatMap]
    apply flatMap_congr'
    intro g hg
    exact grainSlots_named cfg gc g (by simpa using hgc) (by simpa using hg)

/-! ### from "names agree as lists" to `Aligned` -/

theorem aligned_of_named (nIn : Nat) (hs : List ColName) (ss : List (Option Nat)) (names : List ColName)
    (h : ss.map (nameOf names) = hs.map some) :
    Aligned nIn ((List.range nIn).map .input ++ hs) (List.replicate nIn none ++ ss) names := by
  have hlen : ss.length = hs.length := by simpa using congrArg List.length h
  refine ⟨by simp [hlen], ?_, ?_⟩
  · intro j hj
    constructor
    · rw [List.getElem?_append_left (by simpa using hj)]
      simp [hj]
    · rw [List.getElem?_append_left (by simpa using hj)]
      simp [List.getElem?_range hj]
  · intro j s hjs
    by_cases hj : j < nIn
    · rw [List.getElem?_append_left (by simpa using hj)] at hjs
      simp [hj] at hjs
    · rw [List.getElem?_append_right (by simp; omega)] at hjs
      rw [List.getElem?_append_right (by simp; omega)]
      simp only [List.length_replicate, List.length_map, List.length_range] at hjs ⊢
      have hj' := congrArg (fun l => l[j - nIn]?) h
      simp only [List.getElem?_map, hjs, Option.map_some, nameOf, Option.bind_some] at hj'
      cases hh : hs[j - nIn]? with
      | none => rw [hh] at hj'; simp at hj'
      | some n =>
        rw [hh] at hj'
        simp only [Option.map_some, Option.some.injEq] at hj'
        exact ⟨n, rfl, hj'⟩

/-! ### the executable check -/

theorem alignedB_iff (nIn : Nat) (header : List ColName) (slots : List (Option Nat)) (names : List ColName) :
    alignedB nIn header slots names = true ↔ Aligned nIn header slots names := by
  unfold alignedB Aligned
  simp only [Bool.and_eq_true, beq_iff_eq, List.all_eq_true, List.mem_range]
  constructor
  · rintro ⟨⟨h1, h2⟩, h3⟩
    refine ⟨h1, h2, ?_⟩
    intro j s hjs
    have hj : j < slots.length := by
      rcases Nat.lt_or_ge j slots.length with h | h
      · exact h
      · rw [List.getElem?_eq_none h] at hjs; cases hjs
    have := h3 j hj
    rw [hjs] at this
    simp only at this
    cases hh : header[j]? with
    | none => rw [hh] at this; cases this
    | some n =>
      rw [hh] at this
      simp only [beq_iff_eq] at this
      exact ⟨n, rfl, this⟩
  · rintro ⟨h1, h2, h3⟩
    refine ⟨⟨h1, h2⟩, ?_⟩
    intro j _
    split
    · rename_i s hjs
      obtain ⟨n, hn, hs⟩ := h3 j s hjs
      rw [hn]
      simp [hs]
    · rfl

/-! ### the 3-D case -/

theorem datHeaderWithoutG_eq (cfg : DatCfg) (h : cfg.dim = 3) :
    datHeaderWithoutG cfg
      = (List.range 4).map .input ++ ([.T, .v 0, .v 1, .v 2] ++ datHeaderMiddle cfg ++ [.tag]) := by
  unfold datHeaderWithoutG datHeader
  rw [if_neg (by omega), if_pos h, datHeaderTail_eq]
  rfl

theorem datRowSlots_3d (cfg : DatCfg) (h : cfg.dim = 3) :
    datRowSlots cfg
      = List.replicate 4 none
          ++ ([some 0, some 1, some 2, some 3] ++ datRowMiddle 4 cfg ++ [some (outputSize (datProps cfg) - 1)]) := by
  unfold datRowSlots
  rw [if_neg (by omega), if_pos h]
  simp [List.replicate]

/-- 3-D, every configuration: the row is aligned with the header from which the name `g` has been removed -/
theorem aligned_3d_without_g (cfg : DatCfg) (h : cfg.dim = 3) :
    Aligned 4 (datHeaderWithoutG cfg) (datRowSlots cfg) (slotNames cfg) := by
  rw [datHeaderWithoutG_eq cfg h, datRowSlots_3d cfg h]
  apply aligned_of_named
  rw [List.map_append, List.map_append, List.map_append, List.map_append, datRowMiddle4_named]
  obtain ⟨h0, h1, h2, h3⟩ := slotNames_head cfg
  simp only [List.map_cons, List.map_nil, nameOf, Option.bind_some, h0, h1, h2, h3, slotNames_last]

theorem datHeaderMiddle_length (cfg : DatCfg) :
    (datHeaderMiddle cfg).length = cfg.compositions + cfg.grainCompositions * (cfg.nGrains * 10) := by
  unfold datHeaderMiddle
  rw [List.length_append, List.length_map, List.length_range,
    length_flatMap_uniform _ (cfg.nGrains * 10) (fun gc => by
      rw [length_flatMap_uniform (grainHeader gc) 10 (fun _ => rfl)]; simp), List.length_range]

theorem datRowMiddle_length (off : Nat) (cfg : DatCfg) :
    (datRowMiddle off cfg).length = cfg.compositions + cfg.grainCompositions * (cfg.nGrains * 10) := by
  unfold datRowMiddle
  rw [List.length_append, List.length_map, List.length_range,
    length_flatMap_uniform _ (cfg.nGrains * 10) (fun gc => by
      simp only
      rw [length_flatMap_uniform (grainSlots _ _) 10 (fun _ => rfl)]; simp), List.length_range]

theorem datHeader_length_3d (cfg : DatCfg) (h : cfg.dim = 3) :
    (datHeader cfg).length = 9 + cfg.compositions + cfg.grainCompositions * (cfg.nGrains * 10) + 1 := by
  unfold datHeader
  rw [if_neg (by omega), if_pos h, datHeaderTail_eq]
  simp only [List.length_append, List.length_cons, List.length_nil, datHeaderMiddle_length]
  omega

theorem datRowSlots_length_3d (cfg : DatCfg) (h : cfg.dim = 3) :
    (datRowSlots cfg).length = 8 + cfg.compositions + cfg.grainCompositions * (cfg.nGrains * 10) + 1 := by
  unfold datRowSlots
  rw [if_neg (by omega), if_pos h]
  simp only [List.length_append, List.length_cons, List.length_nil, datRowMiddle_length]
  omega

/-- 3-D, as written: one more name than columns -/
theorem datHeader_extra_3d (cfg : DatCfg) (h : cfg.dim = 3) :
    (datHeader cfg).length = (datRowSlots cfg).length + 1 := by
  rw [datHeader_length_3d cfg h, datRowSlots_length_3d cfg h]
  omega

/-! ### the 2-D case -/

theorem datHeader_2d (cfg : DatCfg) (h : cfg.dim = 2) :
    datHeader cfg = (List.range 3).map .input ++ ([.T, .v 0, .v 1] ++ datHeaderMiddle cfg ++ [.tag]) := by
  unfold datHeader
  rw [if_pos h, datHeaderTail_eq]
  rfl

theorem datRowSlots_2d (cfg : DatCfg) (h : cfg.dim = 2) :
    datRowSlots cfg
      = List.replicate 3 none
          ++ ([some 0, some 1, some 2] ++ datRowMiddle 3 cfg ++ [some (outputSize (datProps cfg) - 1)]) := by
  unfold datRowSlots
  rw [if_pos h]
  simp [List.replicate]

theorem middle_nil_of (off : Nat) (cfg : DatCfg) (hc : cfg.compositions = 0)
    (hg : cfg.grainCompositions = 0 ∨ cfg.nGrains = 0) : datRowMiddle off cfg = [] ∧ datHeaderMiddle cfg = [] := by
  unfold datRowMiddle datHeaderMiddle
  rw [hc]
  rcases hg with hg | hg
  · rw [hg]; exact ⟨rfl, rfl⟩
  · rw [hg]
    constructor
    · simp only [List.range_zero, List.map_nil, List.nil_append]
      exact flatMap_eq_nil' _ _ (fun _ _ => rfl)
    · simp only [List.range_zero, List.map_nil, List.nil_append]
      exact flatMap_eq_nil' _ _ (fun _ _ => rfl)

/-- 2-D without composition and grain columns: aligned -/
theorem aligned_2d_of (cfg : DatCfg) (h : cfg.dim = 2) (hc : cfg.compositions = 0)
    (hg : cfg.grainCompositions = 0 ∨ cfg.nGrains = 0) :
    Aligned 3 (datHeader cfg) (datRowSlots cfg) (slotNames cfg) := by
  rw [datHeader_2d cfg h, datRowSlots_2d cfg h]
  obtain ⟨e1, e2⟩ := middle_nil_of 3 cfg hc hg
  rw [e1, e2]
  apply aligned_of_named
  obtain ⟨h0, h1, h2, _⟩ := slotNames_head cfg
  simp only [List.append_nil, List.map_append, List.map_cons, List.map_nil, nameOf, Option.bind_some, h0, h1, h2,
    slotNames_last]

/-- 2-D with at least one composition: the column named `c 0` prints slot 3, which the library names `v 2` -/
theorem misaligned_2d_comp (cfg : DatCfg) (h : cfg.dim = 2) (hc : 0 < cfg.compositions) :
    (datHeader cfg)[6]? = some (.c 0) ∧ (datRowSlots cfg)[6]? = some (some 3) ∧ (slotNames cfg)[3]? = some (.v 2) := by
  refine ⟨?_, ?_, (slotNames_head cfg).2.2.2⟩
  · rw [datHeader_2d cfg h]
    unfold datHeaderMiddle
    obtain ⟨n, hn⟩ : ∃ n, cfg.compositions = n + 1 := ⟨cfg.compositions - 1, by omega⟩
    rw [hn, List.range_succ_eq_map (n := n)]
    have e : (List.range 3).map ColName.input = [.input 0, .input 1, .input 2] := rfl
    rw [e]
    simp
  · rw [datRowSlots_2d cfg h]
    unfold datRowMiddle
    obtain ⟨n, hn⟩ : ∃ n, cfg.compositions = n + 1 := ⟨cfg.compositions - 1, by omega⟩
    rw [hn, List.range_succ_eq_map (n := n)]
    simp

/-- 2-D with no composition but at least one grain column: the column named `gs 0 0` prints slot 3 (`v 2`) -/
theorem misaligned_2d_grain (cfg : DatCfg) (h : cfg.dim = 2) (hc : cfg.compositions = 0)
    (hg : 0 < cfg.grainCompositions) (hn : 0 < cfg.nGrains) :
    (datHeader cfg)[6]? = some (.gs 0 0) ∧ (datRowSlots cfg)[6]? = some (some 3)
      ∧ (slotNames cfg)[3]? = some (.v 2) := by
  obtain ⟨m, hm⟩ : ∃ m, cfg.grainCompositions = m + 1 := ⟨cfg.grainCompositions - 1, by omega⟩
  obtain ⟨k, hk⟩ : ∃ k, cfg.nGrains = k + 1 := ⟨cfg.nGrains - 1, by omega⟩
  refine ⟨?_, ?_, (slotNames_head cfg).2.2.2⟩
  · rw [datHeader_2d cfg h]
    unfold datHeaderMiddle
    rw [hc, hm, hk, List.range_succ_eq_map (n := m), List.range_succ_eq_map (n := k)]
    have e : (List.range 3).map ColName.input = [.input 0, .input 1, .input 2] := rfl
    rw [e]
    simp [grainHeader]
  · rw [datRowSlots_2d cfg h]
    unfold datRowMiddle
    rw [hc, hm, hk, List.range_succ_eq_map (n := m), List.range_succ_eq_map (n := k)]
    simp [grainSlots]

theorem not_aligned_of_witness (nIn : Nat) (header : List ColName) (slots : List (Option Nat)) (names : List ColName)
    (j s : Nat) (a b : ColName) (hh : header[j]? = some a) (hs : slots[j]? = some (some s)) (hn : names[s]? = some b)
    (hab : a ≠ b) : ¬ Aligned nIn header slots names := by
  rintro ⟨_, _, h3⟩
  obtain ⟨n, h1, h2⟩ := h3 j s hs
  rw [hh] at h1; rw [hn] at h2
  cases h1; cases h2
  exact hab rfl

/-- 2-D: aligned exactly when there is no composition column and no grain column -/
theorem aligned_2d_iff (cfg : DatCfg) (h : cfg.dim = 2) :
    Aligned 3 (datHeader cfg) (datRowSlots cfg) (slotNames cfg)
      ↔ cfg.compositions = 0 ∧ (cfg.grainCompositions = 0 ∨ cfg.nGrains = 0) := by
  constructor
  · intro hal
    by_cases hc : cfg.compositions = 0
    · refine ⟨hc, ?_⟩
      by_cases hg : cfg.grainCompositions = 0
      · exact Or.inl hg
      · by_cases hn : cfg.nGrains = 0
        · exact Or.inr hn
        · exfalso
          obtain ⟨a, b, c⟩ := misaligned_2d_grain cfg h hc (by omega) (by omega)
          exact not_aligned_of_witness _ _ _ _ 6 3 _ _ a b c (by intro e; cases e) hal
    · exfalso
      obtain ⟨a, b, c⟩ := misaligned_2d_comp cfg h (by omega)
      exact not_aligned_of_witness _ _ _ _ 6 3 _ _ a b c (by intro e; cases e) hal
  · rintro ⟨hc, hg⟩
    exact aligned_2d_of cfg h hc hg

/-! ### the 2-D defect is a shift by one slot -/

theorem grainSlots_succ (start n g : Nat) :
    (grainSlots start n g).map (Option.map (· + 1)) = grainSlots (start + 1) n g := by
  unfold grainSlots
  simp only [List.map_cons, List.map_nil, Option.map_some, List.cons.injEq, Option.some.injEq, and_true]
  omega

theorem datRowMiddle_succ (off : Nat) (cfg : DatCfg) :
    (datRowMiddle off cfg).map (Option.map (· + 1)) = datRowMiddle (off + 1) cfg := by
  unfold datRowMiddle
  rw [List.map_append, List.map_map, List.map_flatMap]
  congr 1
  · apply List.map_congr_left
    intro c _
    simp only [Function.comp, Option.map_some]
    congr 1; omega
  · apply flatMap_congr'
    intro gc _
    simp only
    rw [List.map_flatMap]
    apply flatMap_congr'
    intro g _
    rw [grainSlots_succ]
    congr 1; omega

/-- reading from offset 3 (the 2-D rows), every composition / grain column shows the slot BEFORE the one named in the header -/
theorem datRowMiddle3_named_shift (cfg : DatCfg) :
    (datRowMiddle 3 cfg).map (fun o => o.bind (fun s => (slotNames cfg)[s + 1]?)) = (datHeaderMiddle cfg).map some := by
  rw [← datRowMiddle4_named, ← datRowMiddle_succ 3 cfg, List.map_map]
  apply List.map_congr_left
  intro o _
  cases o <;> rfl

theorem getElem?_of_map_eq {α β : Type} (F : α → Option β) (ss : List α) (hs : List β) (h : ss.map F = hs.map some)
    (j : Nat) (o : α) (hj : ss[j]? = some o) : ∃ n, hs[j]? = some n ∧ F o = some n := by
  have hj' := congrArg (fun l => l[j]?) h
  simp only [List.getElem?_map, hj, Option.map_some] at hj'
  cases hh : hs[j]? with
  | none => rw [hh] at hj'; simp at hj'
  | some n =>
    rw [hh] at hj'
    simp only [Option.map_some, Option.some.injEq] at hj'
    exact ⟨n, rfl, hj'⟩

/-- 2-D, pointwise: a composition / grain column (columns 6 … length-2) that prints `output[s]` stands under the library's
name of slot `s + 1` -/
theorem shift_2d (cfg : DatCfg) (h : cfg.dim = 2) (j s : Nat) (h6 : 6 ≤ j) (hj : j + 1 < (datRowSlots cfg).length)
    (hs : (datRowSlots cfg)[j]? = some (some s)) :
    ∃ n, (datHeader cfg)[j]? = some n ∧ (slotNames cfg)[s + 1]? = some n := by
  have hlen : (datRowMiddle 3 cfg).length = (datHeaderMiddle cfg).length := by
    rw [datRowMiddle_length, datHeaderMiddle_length]
  rw [datRowSlots_2d cfg h] at hs hj
  rw [datHeader_2d cfg h]
  simp only [List.length_append, List.length_replicate, List.length_cons, List.length_nil] at hj
  have hjm : j - 6 < (datRowMiddle 3 cfg).length := by omega
  have e1 : (List.replicate 3 none ++ ([some 0, some 1, some 2] ++ datRowMiddle 3 cfg
      ++ [some (outputSize (datProps cfg) - 1)]))[j]? = (datRowMiddle 3 cfg)[j - 6]? := by
    rw [List.getElem?_append_right (by simp; omega), List.append_assoc, List.getElem?_append_right (by simp; omega),
      List.getElem?_append_left (by simp; omega)]
    simp only [List.length_replicate, List.length_cons, List.length_nil]
    congr 1 <;> omega
  have e2 : ((List.range 3).map ColName.input ++ ([ColName.T, .v 0, .v 1] ++ datHeaderMiddle cfg ++ [.tag]))[j]?
      = (datHeaderMiddle cfg)[j - 6]? := by
    rw [List.getElem?_append_right (by simp; omega), List.append_assoc, List.getElem?_append_right (by simp; omega),
      List.getElem?_append_left (by simp; omega)]
    simp only [List.length_map, List.length_range, List.length_cons, List.length_nil]
    congr 1 <;> omega
  rw [e1] at hs
  rw [e2]
  exact getElem?_of_map_eq _ _ _ (datRowMiddle3_named_shift cfg) (j - 6) (some s) hs

/-! ### option lines -/

theorem beq_comm_str (a b : String) : (a == b) = (b == a) := BEq.comm

theorem optCond_dim (line : List String) :
    (!line.isEmpty && line[0]? == some "#" && line[1]? == some "dim" && line[2]? == some "=")
      = ["#", "dim", "="].isPrefixOf line := by
  rcases line with _ | ⟨a, _ | ⟨b, _ | ⟨c, rest⟩⟩⟩ <;>
    simp [List.isPrefixOf, beq_comm_str "#", beq_comm_str "dim", beq_comm_str "=", Bool.and_assoc]

theorem optCond_comp (line : List String) :
    (!line.isEmpty && line[0]? == some "#" && line[1]? == some "compositions" && line[2]? == some "=")
      = ["#", "compositions", "="].isPrefixOf line := by
  rcases line with _ | ⟨a, _ | ⟨b, _ | ⟨c, rest⟩⟩⟩ <;>
    simp [List.isPrefixOf, beq_comm_str "#", beq_comm_str "compositions", beq_comm_str "=", Bool.and_assoc]

theorem optCond_gcomp (line : List String) :
    (!line.isEmpty && line[0]? == some "#" && line[1]? == some "grain" && line[2]? == some "compositions"
        && line[3]? == some "=")
      = ["#", "grain", "compositions", "="].isPrefixOf line := by
  rcases line with _ | ⟨a, _ | ⟨b, _ | ⟨c, _ | ⟨d, rest⟩⟩⟩⟩ <;>
    simp [List.isPrefixOf, beq_comm_str "#", beq_comm_str "grain", beq_comm_str "compositions", beq_comm_str "=",
      Bool.and_assoc]

theorem optCond_ngrains (line : List String) :
    (!line.isEmpty && line[0]? == some "#" && line[1]? == some "number" && line[2]? == some "of"
        && line[3]? == some "grains" && line[4]? == some "=")
      = ["#", "number", "of", "grains", "="].isPrefixOf line := by
  rcases line with _ | ⟨a, _ | ⟨b, _ | ⟨c, _ | ⟨d, _ | ⟨e, rest⟩⟩⟩⟩⟩ <;>
    simp [List.isPrefixOf, beq_comm_str "#", beq_comm_str "number", beq_comm_str "=", beq_comm_str "of",
      beq_comm_str "grains", Bool.and_assoc]

theorem optCond_sph (line : List String) :
    (!line.isEmpty && line[0]? == some "#" && line[1]? == some "convert" && line[2]? == some "spherical"
        && line[3]? == some "=" && line[4]? == some "true")
      = ["#", "convert", "spherical", "=", "true"].isPrefixOf line := by
  rcases line with _ | ⟨a, _ | ⟨b, _ | ⟨c, _ | ⟨d, _ | ⟨e, rest⟩⟩⟩⟩⟩ <;>
    simp [List.isPrefixOf, beq_comm_str "#", beq_comm_str "convert", beq_comm_str "=", beq_comm_str "spherical",
      beq_comm_str "true", Bool.and_assoc]

/-- what one line does to the configuration -/
inductive DatEdit
  | dim (n : Nat) | comps (n : Nat) | gcomps (n : Nat) | ngrains (n : Nat) | spherical | nothing
  deriving DecidableEq, Repr

def DatEdit.apply : DatEdit → DatCfg → DatCfg
  | .dim n, cfg => { cfg with dim := n }
  | .comps n, cfg => { cfg with compositions := n }
  | .gcomps n, cfg => { cfg with grainCompositions := n }
  | .ngrains n, cfg => { cfg with nGrains := n }
  | .spherical, cfg => { cfg with convertSpherical := true }
  | .nothing, cfg => cfg

/-- the variable an edit writes (5: none) -/
def DatEdit.field : DatEdit → Nat
  | .dim _ => 0 | .comps _ => 1 | .gcomps _ => 2 | .ngrains _ => 3 | .spherical => 4 | .nothing => 5

def numEdit (line : List String) (i : Nat) (mk : Nat → DatEdit) : DatEdit :=
  match (line[i]?).bind parseUInt? with
  | some n => mk n
  | none => .nothing

/-- the edit a line performs: decided by its keyword prefix -/
def lineEdit (line : List String) : DatEdit :=
  if ["#", "dim", "="].isPrefixOf line then numEdit line 3 .dim
  else if ["#", "compositions", "="].isPrefixOf line then numEdit line 3 .comps
  else if ["#", "grain", "compositions", "="].isPrefixOf line then numEdit line 4 .gcomps
  else if ["#", "number", "of", "grains", "="].isPrefixOf line then numEdit line 5 .ngrains
  else if ["#", "convert", "spherical", "=", "true"].isPrefixOf line then .spherical
  else .nothing

theorem setFrom_eq (line : List String) (i : Nat) (set : Nat → DatCfg) (mk : Nat → DatEdit) (cfg : DatCfg)
    (h : ∀ n, set n = (mk n).apply cfg) : setFrom line i set cfg = (numEdit line i mk).apply cfg := by
  unfold setFrom numEdit
  cases (line[i]?).bind parseUInt? with
  | none => rfl
  | some n => exact h n

/-- the five keyword prefixes exclude one another (their second tokens differ) -/
theorem prefixes_exclusive (line : List String) :
    (["#", "dim", "="].isPrefixOf line = true →
      ["#", "compositions", "="].isPrefixOf line = false ∧ ["#", "grain", "compositions", "="].isPrefixOf line = false ∧
      ["#", "number", "of", "grains", "="].isPrefixOf line = false ∧
      ["#", "convert", "spherical", "=", "true"].isPrefixOf line = false) ∧
    (["#", "compositions", "="].isPrefixOf line = true →
      ["#", "grain", "compositions", "="].isPrefixOf line = false ∧
      ["#", "number", "of", "grains", "="].isPrefixOf line = false ∧
      ["#", "convert", "spherical", "=", "true"].isPrefixOf line = false) ∧
    (["#", "grain", "compositions", "="].isPrefixOf line = true →
      ["#", "number", "of", "grains", "="].isPrefixOf line = false ∧
      ["#", "convert", "spherical", "=", "true"].isPrefixOf line = false) ∧
    (["#", "number", "of", "grains", "="].isPrefixOf line = true →
      ["#", "convert", "spherical", "=", "true"].isPrefixOf line = false) := by
  rcases line with _ | ⟨a, _ | ⟨b, rest⟩⟩
  · simp [List.isPrefixOf]
  · simp [List.isPrefixOf]
  · simp only [List.isPrefixOf, Bool.and_eq_true, beq_iff_eq, Bool.and_eq_false_iff]
    refine ⟨?_, ?_, ?_, ?_⟩ <;> rintro ⟨_, rfl, _⟩ <;> simp

theorem datOptStep_eq (cfg : DatCfg) (line : List String) : datOptStep cfg line = (lineEdit line).apply cfg := by
  unfold datOptStep lineEdit
  simp only [optCond_dim, optCond_comp, optCond_gcomp, optCond_ngrains, optCond_sph]
  obtain ⟨e1, e2, e3, e4⟩ := prefixes_exclusive line
  by_cases h1 : ["#", "dim", "="].isPrefixOf line = true
  · obtain ⟨a, b, c, d⟩ := e1 h1
    simp only [h1, a, b, c, d, if_true, Bool.false_eq_true, if_false]
    exact setFrom_eq _ _ _ _ _ (fun _ => rfl)
  · by_cases h2 : ["#", "compositions", "="].isPrefixOf line = true
    · obtain ⟨b, c, d⟩ := e2 h2
      simp only [h1, h2, b, c, d, if_true, Bool.false_eq_true, if_false]
      exact setFrom_eq _ _ _ _ _ (fun _ => rfl)
    · by_cases h3 : ["#", "grain", "compositions", "="].isPrefixOf line = true
      · obtain ⟨c, d⟩ := e3 h3
        simp only [h1, h2, h3, c, d, if_true, Bool.false_eq_true, if_false]
        exact setFrom_eq _ _ _ _ _ (fun _ => rfl)
      · by_cases h4 : ["#", "number", "of", "grains", "="].isPrefixOf line = true
        · have d := e4 h4
          simp only [h1, h2, h3, h4, d, if_true, Bool.false_eq_true, if_false]
          exact setFrom_eq _ _ _ _ _ (fun _ => rfl)
        · by_cases h5 : ["#", "convert", "spherical", "=", "true"].isPrefixOf line = true
          · simp only [h1, h2, h3, h4, h5, if_true]
            rfl
          · simp only [h1, h2, h3, h4, h5]
            rfl

theorem lineEdit_of_not_opt (line : List String) (h : isOptLine line = false) : lineEdit line = .nothing := by
  unfold isOptLine datOptPatterns at h
  simp only [List.any_cons, List.any_nil, Bool.or_false, Bool.or_eq_false_iff] at h
  obtain ⟨h1, h2, h3, h4, h5⟩ := h
  unfold lineEdit
  simp only [h1, h2, h3, h4, h5, Bool.false_eq_true, if_false]

/-- a line that is not one of the five option lines leaves the configuration unchanged -/
theorem datOptStep_of_not_opt (cfg : DatCfg) (line : List String) (h : isOptLine line = false) :
    datOptStep cfg line = cfg := by
  rw [datOptStep_eq, lineEdit_of_not_opt line h]; rfl

theorem foldl_datOptStep_not_opt (cfg : DatCfg) (ns : List (List String)) (h : ∀ l ∈ ns, isOptLine l = false) :
    ns.foldl datOptStep cfg = cfg := by
  induction ns generalizing cfg with
  | nil => rfl
  | cons l ns ih =>
    rw [List.foldl_cons, datOptStep_of_not_opt cfg l (h l (by simp))]
    exact ih cfg (fun l' hl' => h l' (by simp [hl']))

theorem foldl_datOptStep_filter (cfg : DatCfg) (lines : List (List String)) :
    (lines.filter isOptLine).foldl datOptStep cfg = lines.foldl datOptStep cfg := by
  induction lines generalizing cfg with
  | nil => rfl
  | cons l ls ih =>
    cases h : isOptLine l with
    | true => rw [List.filter_cons_of_pos h, List.foldl_cons, List.foldl_cons, ih]
    | false =>
      rw [List.filter_cons_of_neg (by simp [h]), List.foldl_cons, datOptStep_of_not_opt cfg l h, ih]

/-- only the option lines matter -/
theorem datOptions_filter (lines : List (List String)) : datOptions (lines.filter isOptLine) = datOptions lines :=
  foldl_datOptStep_filter {} lines

/-- an option line may be moved across any block of non-option lines -/
theorem datOptions_move (xs ns ys : List (List String)) (opt : List String) (h : ∀ l ∈ ns, isOptLine l = false) :
    datOptions (xs ++ [opt] ++ ns ++ ys) = datOptions (xs ++ ns ++ [opt] ++ ys) := by
  unfold datOptions
  simp only [List.foldl_append, List.foldl_cons, List.foldl_nil]
  rw [foldl_datOptStep_not_opt _ ns h, foldl_datOptStep_not_opt _ ns h]

/-- inserting non-option lines anywhere changes nothing -/
theorem datOptions_insert (xs ns ys : List (List String)) (h : ∀ l ∈ ns, isOptLine l = false) :
    datOptions (xs ++ ns ++ ys) = datOptions (xs ++ ys) := by
  unfold datOptions
  simp only [List.foldl_append]
  rw [foldl_datOptStep_not_opt _ ns h]

theorem DatEdit.apply_comm (e1 e2 : DatEdit) (cfg : DatCfg) (h : e1.field ≠ e2.field) :
    e1.apply (e2.apply cfg) = e2.apply (e1.apply cfg) := by
  cases e1 <;> cases e2 <;> first | rfl | (exfalso; exact h rfl)

/-- a later edit of the same variable overrides the earlier one -/
theorem DatEdit.apply_override (e1 e2 : DatEdit) (cfg : DatCfg) (h : e1.field = e2.field) :
    e2.apply (e1.apply cfg) = e2.apply cfg := by
  cases e1 <;> cases e2 <;> first | rfl | (exfalso; simp [DatEdit.field] at h)

/-- two adjacent option lines that set different variables may be exchanged -/
theorem datOptions_swap (xs ys : List (List String)) (a b : List String)
    (h : (lineEdit a).field ≠ (lineEdit b).field) :
    datOptions (xs ++ [a, b] ++ ys) = datOptions (xs ++ [b, a] ++ ys) := by
  unfold datOptions
  simp only [List.foldl_append, List.foldl_cons, List.foldl_nil, datOptStep_eq]
  rw [DatEdit.apply_comm _ _ _ h]

/-- the value an edit gives to numeric variable `f` (0 dim, 1 compositions, 2 grain compositions, 3 number of grains) -/
def DatEdit.val? (f : Nat) : DatEdit → Option Nat
  | .dim n => if f = 0 then some n else none
  | .comps n => if f = 1 then some n else none
  | .gcomps n => if f = 2 then some n else none
  | .ngrains n => if f = 3 then some n else none
  | _ => none

def DatCfg.fieldVal (f : Nat) (cfg : DatCfg) : Nat :=
  match f with
  | 0 => cfg.dim | 1 => cfg.compositions | 2 => cfg.grainCompositions | 3 => cfg.nGrains | _ => 0

theorem DatEdit.apply_fieldVal (e : DatEdit) (cfg : DatCfg) (f : Nat) :
    (e.apply cfg).fieldVal f = (e.val? f).getD (cfg.fieldVal f) := by
  rcases f with _ | _ | _ | _ | f <;> cases e <;> simp [DatEdit.apply, DatEdit.val?, DatCfg.fieldVal]

/-- every numeric variable ends up with the value of the LAST line that sets it (else it keeps its initial value) -/
theorem foldl_datOptStep_fieldVal (f : Nat) (cfg : DatCfg) (lines : List (List String)) :
    (lines.foldl datOptStep cfg).fieldVal f
      = ((lines.filterMap (fun l => (lineEdit l).val? f)).getLast?).getD (cfg.fieldVal f) := by
  induction lines generalizing cfg with
  | nil => rfl
  | cons l ls ih =>
    rw [List.foldl_cons, ih, datOptStep_eq, DatEdit.apply_fieldVal, List.filterMap_cons]
    cases (lineEdit l).val? f with
    | none => rfl
    | some n =>
      simp only [Option.getD_some, List.getLast?_cons]

theorem DatEdit.apply_spherical (e : DatEdit) (cfg : DatCfg) :
    (e.apply cfg).convertSpherical = (cfg.convertSpherical || decide (e = .spherical)) := by
  cases e <;> simp [DatEdit.apply]

/-- `convert_spherical` is true iff some line says so (it is never reset) -/
theorem foldl_datOptStep_spherical (cfg : DatCfg) (lines : List (List String)) :
    (lines.foldl datOptStep cfg).convertSpherical
      = (cfg.convertSpherical || lines.any (fun l => decide (lineEdit l = .spherical))) := by
  induction lines generalizing cfg with
  | nil => simp
  | cons l ls ih =>
    rw [List.foldl_cons, ih, datOptStep_eq, DatEdit.apply_spherical, List.any_cons, Bool.or_assoc]

/-- data rows and empty lines are not option lines -/
theorem isOptLine_of_isDataRow (line : List String) (h : isDataRow line = true) : isOptLine line = false := by
  rcases line with _ | ⟨a, rest⟩
  · simp [isDataRow] at h
  · have ha : ("#" == a) = false := by
      simp only [isDataRow, List.isEmpty_cons, Bool.not_false, List.getElem?_cons_zero, Bool.true_and, bne_iff_ne, ne_eq,
        Option.some.injEq] at h
      simp only [beq_eq_false_iff_ne, ne_eq]
      exact fun e => h e.symm
    simp [isOptLine, datOptPatterns, List.isPrefixOf, ha]

theorem isOptLine_nil : isOptLine [] = false := by decide

theorem datOptions_datRows (lines : List (List String)) : datOptions (datRows lines) = {} := by
  unfold datOptions datRows
  exact foldl_datOptStep_not_opt _ _ (fun l hl => isOptLine_of_isDataRow l (List.mem_filter.mp hl).2)

/-- on a data row the C++ never reads past the end of the token vector while looking for options -/
theorem datLineDefined_of_isDataRow (line : List String) (h : isDataRow line = true) : datLineDefined line = true := by
  rcases line with _ | ⟨a, rest⟩
  · rfl
  · have ha : ¬ a = "#" := by
      simpa only [isDataRow, List.isEmpty_cons, Bool.not_false, List.getElem?_cons_zero, Bool.true_and, bne_iff_ne,
        ne_eq, Option.some.injEq] using h
    simp [datLineDefined, datOptPatterns, chainEval, ha]

end Gwb
