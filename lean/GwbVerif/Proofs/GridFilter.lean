/-
`filter_vtu_mesh` (model: `filterMesh` in Model/Apps/GridMesh.lean): loop invariants.

`H` is the history of the second inner loop: the list of all `src_vid` processed so far (the concatenated connectivity of the kept cells).
-/
import GwbVerif.Model.Apps.GridMesh
import Mathlib.Tactic.Ring
import Mathlib.Data.List.Basic
import GwbVerif.Proofs.GridMesh
namespace Gwb

/-- the distinct elements of a list in order of first appearance -/
def firstSeen (H : List Nat) : List Nat := H.foldl (fun acc s => if s ∈ acc then acc else acc ++ [s]) []

theorem firstSeen_append_singleton (H : List Nat) (s : Nat) :
    firstSeen (H ++ [s]) = if s ∈ firstSeen H then firstSeen H else firstSeen H ++ [s] := by
  unfold firstSeen
  rw [List.foldl_append]
  rfl

/-- invariant of the vertex loop (lines 111-141) -/
structure FilterInv (nP : Nat) (st : FilterState) (H : List Nat) : Prop where
  size : st.vmap.size = nP
  /-- `vertex_index_map[s] = d ≠ invalid` only if output node `d` is a copy of input node `s` -/
  fwd : ∀ (s d : Nat), st.vmap[s]? = some (some d) → st.outNodes[d]? = some s
  /-- output node `d` is a copy of input node `s` only if `vertex_index_map[s] = d` -/
  bwd : ∀ (d s : Nat), st.outNodes[d]? = some s → st.vmap[s]? = some (some d)
  /-- the output connectivity, read through the output → source table, is the history -/
  conn : st.outConn.toList.map (fun d => st.outNodes[d]?) = H.map some
  order : st.outNodes.toList = firstSeen H

theorem FilterInv.mem_iff {nP : Nat} {st : FilterState} {H : List Nat} (inv : FilterInv nP st H) (s : Nat) :
    s ∈ st.outNodes.toList ↔ ∃ d, st.vmap[s]? = some (some d) := by
  rw [List.mem_iff_getElem?]
  constructor
  · rintro ⟨d, hd⟩; rw [Array.getElem?_toList] at hd; exact ⟨d, inv.bwd d s hd⟩
  · rintro ⟨d, hd⟩; exact ⟨d, by rw [Array.getElem?_toList]; exact inv.fwd s d hd⟩

theorem filterInit_inv (nP : Nat) : FilterInv nP (filterInit nP) [] := by
  refine ⟨by simp [filterInit], ?_, ?_, by simp [filterInit], by simp [filterInit, firstSeen]⟩
  · intro s d h
    simp only [filterInit, Array.getElem?_replicate] at h
    split at h <;> simp at h
  · intro d s h
    simp [filterInit] at h

theorem filterVertex_inv {nP : Nat} {st : FilterState} {H : List Nat} (inv : FilterInv nP st H) (s : Nat) (hs : s < nP) :
    FilterInv nP (filterVertex st s) (H ++ [s]) := by
  have hsz := inv.size
  have hget : st.vmap[s]? = some (st.vmap.getD s none) := by
    rw [Array.getD_eq_getD_getElem?, Array.getElem?_eq_getElem (by omega)]; rfl
  unfold filterVertex
  cases hv : st.vmap.getD s none with
  | some dstVid =>
    rw [hv] at hget
    have hnode := inv.fwd s dstVid hget
    have hmem : s ∈ firstSeen H := by
      rw [← inv.order, List.mem_iff_getElem?]; exact ⟨dstVid, by rw [Array.getElem?_toList]; exact hnode⟩
    refine ⟨hsz, inv.fwd, inv.bwd, ?_, ?_⟩
    · simp only [Array.toList_push, List.map_append, List.map_cons, List.map_nil, inv.conn, hnode]
    · rw [firstSeen_append_singleton, if_pos hmem]; exact inv.order
  | none =>
    rw [hv] at hget
    have hnot : s ∉ firstSeen H := by
      rw [← inv.order, inv.mem_iff]
      rintro ⟨d, hd⟩
      rw [hget] at hd
      simp at hd
    refine ⟨by simp [hsz], ?_, ?_, ?_, ?_⟩
    · intro s' d h
      simp only [Array.getElem?_setIfInBounds] at h
      simp only [Array.getElem?_push]
      by_cases hss : s = s'
      · subst hss
        rw [if_pos rfl, if_pos (by omega)] at h
        have : d = st.outNodes.size := by simpa using h.symm
        simp [this]
      · rw [if_neg hss] at h
        have h2 := inv.fwd s' d h
        have hd : d < st.outNodes.size := by
          by_contra hc
          rw [Array.getElem?_eq_none (by omega)] at h2
          simp at h2
        rw [if_neg (by omega)]
        exact h2
    · intro d s' h
      simp only [Array.getElem?_push] at h
      simp only [Array.getElem?_setIfInBounds]
      by_cases hd : d = st.outNodes.size
      · rw [if_pos hd] at h
        have : s = s' := by simpa using h
        subst this
        rw [if_pos rfl, if_pos (by omega), hd]
      · rw [if_neg hd] at h
        have h2 := inv.bwd d s' h
        have hss : s ≠ s' := by
          rintro rfl
          rw [hget] at h2
          simp at h2
        rw [if_neg hss]
        exact h2
    · simp only [Array.toList_push, List.map_append, List.map_cons, List.map_nil]
      congr 1
      · rw [← inv.conn]
        apply List.map_congr_left
        intro d hd
        have : st.outNodes[d]? ∈ H.map some := by
          rw [← inv.conn]; exact List.mem_map_of_mem hd
        obtain ⟨s', _, hs'⟩ := List.mem_map.1 this
        have hdlt : d < st.outNodes.size := by
          by_contra hc
          rw [Array.getElem?_eq_none (by omega)] at hs'
          simp at hs'
        simp only [Array.getElem?_push]
        rw [if_neg (by omega)]
      · simp
    · rw [firstSeen_append_singleton, if_neg hnot, Array.toList_push, inv.order]

theorem foldl_filterVertex_inv {nP : Nat} (cell : List Nat) (hcell : ∀ s ∈ cell, s < nP) :
    ∀ {st : FilterState} {H : List Nat}, FilterInv nP st H → FilterInv nP (cell.foldl filterVertex st) (H ++ cell) := by
  induction cell with
  | nil => intro st H inv; simpa using inv
  | cons s rest ih =>
    intro st H inv
    have := ih (fun x hx => hcell x (by simp [hx])) (filterVertex_inv inv s (hcell s (by simp)))
    simpa using this

theorem filterVertex_frame (st : FilterState) (s : Nat) :
    (filterVertex st s).outOffsets = st.outOffsets ∧ (filterVertex st s).outCells = st.outCells ∧
    (filterVertex st s).dstCellId = st.dstCellId := by
  unfold filterVertex
  split <;> simp

theorem foldl_filterVertex_frame (cell : List Nat) (st : FilterState) :
    (cell.foldl filterVertex st).outOffsets = st.outOffsets ∧ (cell.foldl filterVertex st).outCells = st.outCells ∧
    (cell.foldl filterVertex st).dstCellId = st.dstCellId := by
  induction cell generalizing st with
  | nil => simp
  | cons s rest ih =>
    obtain ⟨a, b, c⟩ := ih (filterVertex st s)
    obtain ⟨a', b', c'⟩ := filterVertex_frame st s
    simp only [List.foldl_cons]
    exact ⟨a.trans a', b.trans b', c.trans c'⟩

theorem mem_firstSeen (H : List Nat) (s : Nat) : s ∈ firstSeen H ↔ s ∈ H := by
  induction H using List.reverseRecOn with
  | nil => simp [firstSeen]
  | append_singleton H x ih =>
    rw [firstSeen_append_singleton]
    by_cases hx : x ∈ firstSeen H
    · rw [if_pos hx, List.mem_append, List.mem_singleton, ih]
      constructor
      · exact Or.inl
      · rintro (h | rfl)
        · exact h
        · exact ih.1 hx
    · rw [if_neg hx, List.mem_append, List.mem_append, ih]

theorem firstSeen_nodup (H : List Nat) : (firstSeen H).Nodup := by
  induction H using List.reverseRecOn with
  | nil => simp [firstSeen]
  | append_singleton H x ih =>
    rw [firstSeen_append_singleton]
    by_cases hx : x ∈ firstSeen H
    · rw [if_pos hx]; exact ih
    · rw [if_neg hx]
      exact List.Nodup.append ih (List.nodup_singleton x) (by
        intro a ha hb
        rw [List.mem_singleton] at hb
        subst hb
        exact hx ha)

/-- invariant of the cell loop (lines 98-145) after the cells `0 … c-1` -/
structure CellInv (nP nv : Nat) (cellOf : Nat → List Nat) (keep : Nat → Bool) (st : FilterState) (c : Nat) : Prop where
  inv : FilterInv nP st (((List.range c).filter keep).flatMap cellOf)
  cells : st.outCells.toList = (List.range c).filter keep
  dst : st.dstCellId = ((List.range c).filter keep).length
  offsets : st.outOffsets.toList = (List.range ((List.range c).filter keep).length).map (fun k => (k + 1) * nv)

theorem filterCell_inv {nP nv : Nat} {cellOf : Nat → List Nat} (tag : Nat → Int) (includeTag : Nat → Bool)
    {st : FilterState} {c : Nat}
    (h : CellInv nP nv cellOf (fun c => cellKept tag includeTag (cellOf c)) st c) (hc : ∀ s ∈ cellOf c, s < nP) :
    CellInv nP nv cellOf (fun c => cellKept tag includeTag (cellOf c)) (filterCell tag includeTag nv st c (cellOf c)) (c + 1) := by
  unfold filterCell
  by_cases hk : cellKept tag includeTag (cellOf c) = true
  · rw [if_pos hk]
    have hf : (List.range (c + 1)).filter (fun c => cellKept tag includeTag (cellOf c))
        = (List.range c).filter (fun c => cellKept tag includeTag (cellOf c)) ++ [c] := by
      rw [List.range_succ, List.filter_append]; simp [hk]
    have inv1 : FilterInv nP { st with dstCellId := st.dstCellId + 1 }
        (((List.range c).filter (fun c => cellKept tag includeTag (cellOf c))).flatMap cellOf) :=
      ⟨h.inv.size, h.inv.fwd, h.inv.bwd, h.inv.conn, h.inv.order⟩
    have inv2 := foldl_filterVertex_inv (cellOf c) hc inv1
    obtain ⟨f1, f2, f3⟩ := foldl_filterVertex_frame (cellOf c) { st with dstCellId := st.dstCellId + 1 }
    have f1' : (List.foldl filterVertex { st with dstCellId := st.dstCellId + 1 } (cellOf c)).outOffsets = st.outOffsets := f1
    have f2' : (List.foldl filterVertex { st with dstCellId := st.dstCellId + 1 } (cellOf c)).outCells = st.outCells := f2
    have f3' : (List.foldl filterVertex { st with dstCellId := st.dstCellId + 1 } (cellOf c)).dstCellId = st.dstCellId + 1 := f3
    refine ⟨?_, ?_, ?_, ?_⟩
    · rw [hf, List.flatMap_append]
      simpa using ⟨inv2.size, inv2.fwd, inv2.bwd, inv2.conn, inv2.order⟩
    · show (Array.push _ c).toList = _
      rw [Array.toList_push, f2', h.cells, hf]
    · show (List.foldl filterVertex { st with dstCellId := st.dstCellId + 1 } (cellOf c)).dstCellId = _
      rw [f3', h.dst, hf, List.length_append, List.length_singleton]
    · show (Array.push _ _).toList = _
      rw [Array.toList_push, f1', f3', h.offsets, h.dst, hf, List.length_append, List.length_singleton,
        List.range_succ, List.map_append, List.map_cons, List.map_nil]
  · rw [if_neg hk]
    have hf : (List.range (c + 1)).filter (fun c => cellKept tag includeTag (cellOf c))
        = (List.range c).filter (fun c => cellKept tag includeTag (cellOf c)) := by
      rw [List.range_succ, List.filter_append]; simp [hk]
    exact ⟨by rw [hf]; exact h.inv, by rw [hf]; exact h.cells, by rw [hf]; exact h.dst, by rw [hf]; exact h.offsets⟩

theorem filterInit_cellInv (nP nv : Nat) (cellOf : Nat → List Nat) (keep : Nat → Bool) :
    CellInv nP nv cellOf keep (filterInit nP) 0 := by
  refine ⟨by simpa using filterInit_inv nP, by simp [filterInit], by simp [filterInit], by simp [filterInit]⟩

theorem foldl_filterCell_inv {nP nv : Nat} {cellOf : Nat → List Nat} (tag : Nat → Int) (includeTag : Nat → Bool) (n : Nat)
    (hc : ∀ c < n, ∀ s ∈ cellOf c, s < nP) :
    CellInv nP nv cellOf (fun c => cellKept tag includeTag (cellOf c))
      ((List.range n).foldl (fun st c => filterCell tag includeTag nv st c (cellOf c)) (filterInit nP)) n := by
  induction n with
  | zero => simpa using filterInit_cellInv nP nv cellOf _
  | succ n ih =>
    rw [List.range_succ, List.foldl_append]
    simp only [List.foldl_cons, List.foldl_nil]
    exact filterCell_inv tag includeTag (ih (fun c h => hc c (by omega))) (hc n (by omega))

theorem cellNodesOf_length (conn : Array Nat) (nv c : Nat) : (cellNodesOf conn nv c).length = nv := by
  simp [cellNodesOf]

theorem cellNodesOf_getElem? (conn : Array Nat) (nv c a : Nat) (ha : a < nv) :
    (cellNodesOf conn nv c)[a]? = some (conn.getD (c * nv + a) 0) := by
  simp [cellNodesOf, List.getElem?_range' ha]

/-- the model's cell extraction is the `c`-th block of `nv` entries of the flat connectivity -/
theorem cellNodesOf_eq_take_drop (conn : List Nat) (nv nCells c : Nat) (hlen : conn.length = nCells * nv) (hc : c < nCells) :
    cellNodesOf conn.toArray nv c = (conn.drop (c * nv)).take nv := by
  apply List.ext_getElem?
  intro a
  by_cases ha : a < nv
  · have hlt : c * nv + a < conn.length := by rw [hlen]; exact lattice_lt ha hc
    rw [cellNodesOf_getElem? _ _ _ _ ha, List.getElem?_take, if_pos ha, List.getElem?_drop,
      Array.getD_eq_getD_getElem?, List.getElem?_toArray, List.getElem?_eq_getElem hlt]
    rfl
  · rw [List.getElem?_eq_none (by rw [cellNodesOf_length]; omega), List.getElem?_take, if_neg ha]

/-- `highest_tag` is the maximum of `-1` and the tags of the cell's nodes -/
theorem highestTag_spec (tag : Nat → Int) (cell : List Nat) :
    -1 ≤ highestTag tag cell ∧ (∀ v ∈ cell, tag v ≤ highestTag tag cell) ∧
    (highestTag tag cell = -1 ∨ ∃ v ∈ cell, tag v = highestTag tag cell) := by
  unfold highestTag
  suffices h : ∀ (init : Int), init ≤ cell.foldl (fun h v => max h (tag v)) init ∧
      (∀ v ∈ cell, tag v ≤ cell.foldl (fun h v => max h (tag v)) init) ∧
      (cell.foldl (fun h v => max h (tag v)) init = init ∨ ∃ v ∈ cell, tag v = cell.foldl (fun h v => max h (tag v)) init) from h (-1)
  induction cell with
  | nil => intro init; simp
  | cons x xs ih =>
    intro init
    obtain ⟨a, b, c⟩ := ih (max init (tag x))
    simp only [List.foldl_cons, List.mem_cons, forall_eq_or_imp, exists_eq_or_imp]
    refine ⟨by omega, ⟨by omega, b⟩, ?_⟩
    rcases c with c | ⟨v, hv, hv2⟩
    · rcases max_cases init (tag x) with ⟨hm, _⟩ | ⟨hm, _⟩
      · left; rw [c, hm]
      · right; left; rw [c, hm]
    · right; right; exact ⟨v, hv, hv2⟩

/-- the `c`-th cell of a flat VTK connectivity array with `nv` vertices per cell: entries `c·nv, …, (c+1)·nv - 1` -/
def inputCell (connectivity : List Nat) (nv c : Nat) : List Nat := (connectivity.drop (c * nv)).take nv

theorem cellKept_iff (tag : Nat → Int) (includeTag : Nat → Bool) (cell : List Nat) :
    cellKept tag includeTag cell = true ↔ 0 ≤ highestTag tag cell ∧ includeTag (highestTag tag cell).toNat = true := by
  unfold cellKept
  simp only [Bool.not_eq_true', Bool.or_eq_false_iff, decide_eq_false_iff_not, not_lt, beq_eq_false_iff_ne, ne_eq,
    Bool.not_eq_false]

/-- everything the filter loop establishes, in terms of the input -/
theorem filterMesh_spec {α : Type} [Inhabited α] (dim : Nat) (includeTag : Nat → Bool) (points : List α)
    (connectivity : List Nat) (nCells : Nat) (tag : Nat → Int)
    (hlen : connectivity.length = nCells * (if dim = 3 then 8 else 4))
    (hrange : ∀ e ∈ connectivity, e < points.length) :
    let nv := if dim = 3 then 8 else 4
    let out := filterMesh dim includeTag points connectivity nCells tag
    let cell := inputCell connectivity nv
    out.cells = (List.range nCells).filter (fun c => cellKept tag includeTag (cell c)) ∧
    out.nodes = firstSeen (out.cells.flatMap cell) ∧
    out.points = out.nodes.map (fun s => points.toArray.getD s default) ∧
    out.connectivity.map (fun d => out.nodes[d]?) = (out.cells.flatMap cell).map some ∧
    out.offsets = (List.range out.cells.length).map (fun k => (k + 1) * nv) := by
  intro nv out cell
  have hc : ∀ c < nCells, ∀ s ∈ cellNodesOf connectivity.toArray nv c, s < points.length := by
    intro c hc s hs
    rw [cellNodesOf_eq_take_drop connectivity nv nCells c hlen hc] at hs
    exact hrange s (List.mem_of_mem_drop (List.mem_of_mem_take hs))
  have CI := foldl_filterCell_inv (nv := nv) tag includeTag nCells hc
  have hkeep : (List.range nCells).filter (fun c => cellKept tag includeTag (cellNodesOf connectivity.toArray nv c))
      = (List.range nCells).filter (fun c => cellKept tag includeTag (cell c)) := by
    apply List.filter_congr
    intro c hcm
    rw [cellNodesOf_eq_take_drop connectivity nv nCells c hlen (List.mem_range.1 hcm)]
    rfl
  have hflat : ((List.range nCells).filter (fun c => cellKept tag includeTag (cell c))).flatMap (cellNodesOf connectivity.toArray nv)
      = ((List.range nCells).filter (fun c => cellKept tag includeTag (cell c))).flatMap cell := by
    apply List.flatMap_congr
    intro c hcm
    rw [cellNodesOf_eq_take_drop connectivity nv nCells c hlen (List.mem_range.1 (List.mem_filter.1 hcm).1)]
    rfl
  have hcells : out.cells = (List.range nCells).filter (fun c => cellKept tag includeTag (cell c)) := by
    have := CI.cells
    rw [hkeep] at this
    simpa [out, filterMesh, filterRun, List.size_toArray] using this
  have hinv := CI.inv
  rw [hkeep, hflat, ← hcells] at hinv
  refine ⟨hcells, ?_, rfl, ?_, ?_⟩
  · have := hinv.order
    simpa [out, filterMesh, filterRun, List.size_toArray] using this
  · have := hinv.conn
    simpa [out, filterMesh, filterRun, List.size_toArray] using this
  · have := CI.offsets
    rw [hkeep, ← hcells] at this
    simpa [out, filterMesh, filterRun, List.size_toArray] using this

theorem inputCell_length (connectivity : List Nat) (nv nCells c : Nat) (hlen : connectivity.length = nCells * nv) (hc : c < nCells) :
    (inputCell connectivity nv c).length = nv := by
  have : c * nv + nv ≤ nCells * nv := by
    calc c * nv + nv = (c + 1) * nv := by ring
      _ ≤ nCells * nv := Nat.mul_le_mul_right nv hc
  simp only [inputCell, List.length_take, List.length_drop]
  omega

theorem inputCell_getElem? (connectivity : List Nat) (nv c a : Nat) (ha : a < nv) :
    (inputCell connectivity nv c)[a]? = connectivity[c * nv + a]? := by
  simp [inputCell, ha]

theorem mem_inputCell (connectivity : List Nat) (nv c s : Nat) (h : s ∈ inputCell connectivity nv c) : s ∈ connectivity :=
  List.mem_of_mem_drop (List.mem_of_mem_take h)

theorem map_getElem?_eq_some {nodes conn H : List Nat} (h : conn.map (fun d => nodes[d]?) = H.map some) (i d : Nat)
    (hd : conn[i]? = some d) : ∃ s, nodes[d]? = some s ∧ H[i]? = some s := by
  have h1 := congrArg (fun l => l[i]?) h
  simp only [List.getElem?_map, hd, Option.map_some] at h1
  cases hH : H[i]? with
  | none => rw [hH] at h1; simp at h1
  | some s =>
    rw [hH] at h1
    simp only [Option.map_some, Option.some.injEq] at h1
    exact ⟨s, h1, rfl⟩

/-- consequences of `filterMesh_spec` in index form -/
theorem filterMesh_consequences {α : Type} [Inhabited α] (dim : Nat) (includeTag : Nat → Bool) (points : List α)
    (connectivity : List Nat) (nCells : Nat) (tag : Nat → Int)
    (hlen : connectivity.length = nCells * (if dim = 3 then 8 else 4))
    (hrange : ∀ e ∈ connectivity, e < points.length) :
    let nv := if dim = 3 then 8 else 4
    let out := filterMesh dim includeTag points connectivity nCells tag
    let cell := inputCell connectivity nv
    (∀ c ∈ out.cells, c < nCells) ∧
    out.nodes.Nodup ∧
    (∀ s, s ∈ out.nodes ↔ ∃ c ∈ out.cells, s ∈ cell c) ∧
    (∀ s ∈ out.nodes, s < points.length) ∧
    out.points.length = out.nodes.length ∧
    (∀ (k s : Nat), out.nodes[k]? = some s → out.points[k]? = points[s]?) ∧
    out.connectivity.length = out.cells.length * nv ∧
    (∀ e ∈ out.connectivity, e < out.nodes.length) ∧
    (∀ (k a : Nat), k < out.cells.length → a < nv → ∃ (c d : Nat), out.cells[k]? = some c ∧ out.connectivity[k * nv + a]? = some d ∧
        d < out.nodes.length ∧ out.nodes[d]? = connectivity[c * nv + a]?) := by
  intro nv out cell
  obtain ⟨hcells, hnodes, hpoints, hconn, _⟩ := filterMesh_spec dim includeTag points connectivity nCells tag hlen hrange
  have hclt : ∀ c ∈ out.cells, c < nCells := by
    intro c hc
    rw [hcells] at hc
    exact List.mem_range.1 (List.mem_filter.1 hc).1
  have hmem : ∀ s, s ∈ out.nodes ↔ ∃ c ∈ out.cells, s ∈ cell c := by
    intro s
    rw [hnodes, mem_firstSeen, List.mem_flatMap]
  have hlt : ∀ s ∈ out.nodes, s < points.length := by
    intro s hs
    obtain ⟨c, _, hsc⟩ := (hmem s).1 hs
    exact hrange s (mem_inputCell connectivity nv c s hsc)
  have hHlen : (out.cells.flatMap cell).length = out.cells.length * nv :=
    length_flatMap_uniform_mesh _ _ nv (fun c hc => inputCell_length connectivity nv nCells c hlen (hclt c hc))
  have hclen : out.connectivity.length = out.cells.length * nv := by
    have := congrArg List.length hconn
    rw [List.length_map, List.length_map, hHlen] at this
    exact this
  have hsome : ∀ (i d : Nat), out.connectivity[i]? = some d → ∃ (s : Nat), out.nodes[d]? = some s ∧ (out.cells.flatMap cell)[i]? = some s :=
    fun i d hd => map_getElem?_eq_some hconn i d hd
  refine ⟨hclt, by rw [hnodes]; exact firstSeen_nodup _, hmem, hlt, by rw [hpoints, List.length_map], ?_, hclen, ?_, ?_⟩
  · intro k s hk
    rw [hpoints, List.getElem?_map, hk, Option.map_some, Array.getD_eq_getD_getElem?, List.getElem?_toArray]
    have hs : s < points.length := hlt s (List.mem_of_getElem? hk)
    rw [List.getElem?_eq_getElem hs]
    rfl
  · intro e he
    obtain ⟨i, hi⟩ := List.mem_iff_getElem?.1 he
    obtain ⟨s, hs, _⟩ := hsome i e hi
    by_contra hc
    rw [List.getElem?_eq_none (by omega)] at hs
    simp at hs
  · intro k a hk ha
    have hidx : k * nv + a < out.connectivity.length := by rw [hclen]; exact lattice_lt ha hk
    obtain ⟨s, hs, hH⟩ := hsome (k * nv + a) _ (List.getElem?_eq_getElem hidx)
    refine ⟨out.cells[k], out.connectivity[k * nv + a], List.getElem?_eq_getElem hk, List.getElem?_eq_getElem hidx, ?_, ?_⟩
    · by_contra hc
      rw [List.getElem?_eq_none (by omega)] at hs
      simp at hs
    · rw [hs, ← hH, getElem?_flatMap_uniform _ _ nv
        (fun c hc => inputCell_length connectivity nv nCells c hlen (hclt c hc)) k a ha,
        List.getElem?_eq_getElem hk, Option.bind_some, inputCell_getElem? _ _ _ _ ha]

end Gwb
