/-
The world temperature the `tian water content` models ask for (`World.temperaturePure`, handed to the features as `Query.worldT`)
is the library's own answer to the one-entry temperature request: `World.props3 … [Req.temperature]`.  Also: what
`LineComp.prepare` puts in the place of a slab's water-content model paints exactly what `get_composition` of that model paints.
Holds for every `Scalar R` (no laws, no Mathlib).
-/
import GwbVerif.Proofs.WellFormed
namespace Gwb
open Scalar
set_option linter.unusedSectionVars false
variable {R G : Type} [Scalar R] [RandGen G R]

/-- the temperature models do not look at the world-temperature call-back of the query -/
theorem TempModel.get_worldT (m : TempModel R) (ctx : Ctx R) (q : Query R) (t : Unit → Except Err R) (old fMin fMax rel : R) :
    m.get ctx { q with worldT := t } old fMin fMax rel = m.get ctx q old fMin fMax rel := by
  cases m <;> rfl

theorem Feature.applyTemp_worldT (f : Feature R) (ctx : Ctx R) (q : Query R) (t : Unit → Except Err R) (old : R) :
    f.applyTemp ctx { q with worldT := t } old = f.applyTemp ctx q old := by
  cases f with
  | area a =>
    simp only [Feature.applyTemp, AreaFeature.applyTemp, TempModel.get_worldT]
    rfl
  | plume p =>
    simp only [Feature.applyTemp, PlumeFeature.applyTemp, TempModel.get_worldT]
    rfl
  | line l => rfl

theorem writeBlock_single (x t : R) : writeBlock 0 [x] [t] = [x] := rfl

theorem QM.foldlM_single {α β : Type} (f : β → α → QM G β) (x : α) (b : β) : [x].foldlM f b = f b x := by
  funext g
  simp only [List.foldlM_cons, List.foldlM_nil, QM.bind_apply]
  cases f b x g with
  | error e => rfl
  | ok r => rfl

theorem paintAt_temperature (tag : Nat) (ms : Models R) (ctx : Ctx R) (q : Query R) (a b r t : R) (g : G) :
    paintAt tag ms ctx q a b r Req.temperature 0 [t] g =
      (ms.temps.foldlM (fun (t : R) (m : TempModel R) => m.get ctx q t a b r) t).map (fun t' => ([t'], g)) := by
  have h0 : idx [t] 0 = .ok t := rfl
  simp only [paintAt, Req.temperature, QM.bind_apply, h0, liftE_ok]
  cases hf : ms.temps.foldlM (fun t m => m.get ctx q t a b r) t with
  | error e => simp only [liftE_error, Except.map]
  | ok t' => simp only [liftE_ok, QM.pure_apply, Except.map, writeBlock_single]

theorem linePaintAtM_temperature (f : LineFeature R) (ctx : Ctx R) (q : Query R) (h : LineHit R) (t : R) (g : G) :
    linePaintAtM f ctx q h Req.temperature 0 [t] g =
      (h.cur.temps.foldlM (fun (t : R) (m : SegTemp R) => m.get f.isFault ctx q.depth q.gravityNorm h.pd h.ap t) t >>= fun tc =>
       h.next.temps.foldlM (fun (t : R) (m : SegTemp R) => m.get f.isFault ctx q.depth q.gravityNorm h.pd h.ap t) t >>= fun tn =>
       (pure (tc + h.pd.fractionOfSection * (tn - tc)) : Except Err R)).map (fun t' => ([t'], g)) := by
  have h0 : idx [t] 0 = .ok t := rfl
  simp only [linePaintAtM, LineHit.prepare, Segment.prepare, Req.temperature, linePaintAt, h0,
    bind, Except.bind, pure, Except.pure, writeBlock_single]
  show liftE _ g = _
  cases hc : h.cur.temps.foldlM (fun (t : R) (m : SegTemp R) => m.get f.isFault ctx q.depth q.gravityNorm h.pd h.ap t) t with
  | error e => simp only [hc, liftE_error, Except.map]
  | ok tc =>
    cases hn : h.next.temps.foldlM (fun (t : R) (m : SegTemp R) => m.get f.isFault ctx q.depth q.gravityNorm h.pd h.ap t) t with
    | error e => simp only [hc, hn, liftE_error, Except.map]
    | ok tn => simp only [hc, hn, liftE_ok, Except.map]

/-- a feature asked for the temperature alone: `applyTemp` -/
theorem Feature.apply_temperature (f : Feature R) (ctx : Ctx R) (q : Query R) (t : R) (g : G) :
    f.apply ctx q [(Req.temperature, 0)] [t] g = (f.applyTemp ctx q t).map (fun t' => ([t'], g)) := by
  cases f with
  | area a =>
    simp only [Feature.apply, AreaFeature.apply, Feature.applyTemp, AreaFeature.applyTemp, QM.bind_apply]
    cases hc : a.covers ctx q with
    | error e => simp only [liftE_error]; rfl
    | ok o =>
      cases o with
      | none => simp only [liftE_ok, QM.pure_apply]; rfl
      | some m =>
        obtain ⟨mn, mx⟩ := m
        simp only [liftE_ok, paintAll, QM.foldlM_single, paintAt_temperature]
        rfl
  | plume p =>
    simp only [Feature.apply, PlumeFeature.apply, Feature.applyTemp, PlumeFeature.applyTemp, QM.bind_apply]
    cases hc : p.covers ctx q with
    | error e => simp only [liftE_error]; rfl
    | ok o =>
      cases o with
      | none => simp only [liftE_ok, QM.pure_apply]; rfl
      | some rel =>
        simp only [liftE_ok, paintAll, QM.foldlM_single, paintAt_temperature]
        rfl
  | line l =>
    simp only [Feature.apply, LineFeature.apply, Feature.applyTemp, LineFeature.applyTemp, QM.bind_apply]
    cases hc : l.covers ctx q with
    | error e => simp only [liftE_error]; rfl
    | ok o =>
      cases o with
      | none => simp only [liftE_ok, QM.pure_apply]; rfl
      | some h =>
        simp only [liftE_ok, QM.foldlM_single, linePaintAtM_temperature]
        rfl

theorem foldlM_apply_temperature (fs : List (Feature R)) (ctx : Ctx R) (q : Query R) (t : R) (g : G) :
    fs.foldlM (fun out f => f.apply ctx q [(Req.temperature, 0)] out) [t] g =
      (fs.foldlM (fun (t : R) (f : Feature R) => f.applyTemp ctx q t) t).map (fun t' => ([t'], g)) := by
  induction fs generalizing t with
  | nil => rfl
  | cons f fs ih =>
    simp only [List.foldlM_cons, QM.bind_apply, Feature.apply_temperature]
    cases hf : f.applyTemp ctx q t with
    | error e => rfl
    | ok t' =>
      simp only [Except.map]
      rw [ih t']
      rfl

/-- **the world temperature handed to the water-content models is the library's own answer to the one-entry temperature request**:
`World.temperaturePure` is `World.props3 … [Req.temperature]` (which leaves the random-number engine alone) -/
theorem World.props3_temperature_eq_pure (w : World R) (pt : P3 R) (depth : R) (g : G) :
    w.props3 pt depth [Req.temperature] g = (w.temperaturePure pt depth).map (fun t => ([t], g)) := by
  have hq : ∀ (f : Feature R) (t : R), f.applyTemp w.ctx (w.query pt depth) t =
      f.applyTemp w.ctx { pt := pt, nat := w.ctx.coord.toNatural pt, depth := depth, gravityNorm := w.ctx.gravity } t :=
    fun f t => Feature.applyTemp_worldT f w.ctx
      { pt := pt, nat := w.ctx.coord.toNatural pt, depth := depth, gravityNorm := w.ctx.gravity } (w.query pt depth).worldT t
  unfold World.props3 World.temperaturePure
  simp only [QM.bind_apply]
  by_cases hforced : forcedSurface w.ctx depth = true
  · have hinit : [Req.temperature].mapM (initBlock w.ctx w.ctx.gravity depth) = .ok [[w.ctx.surfaceT]] := by
      simp [List.mapM_cons, initBlock, Req.temperature, hforced, bind, Except.bind, pure, Except.pure]
    have hearly : earlyReturn w.ctx depth [Req.temperature] = true := by simp [earlyReturn, Req.temperature, hforced]
    simp only [hinit, liftE_ok, hearly, if_true, QM.pure_apply, hforced]
    rfl
  · have hf : forcedSurface w.ctx depth = false := by simpa using hforced
    have hinit : [Req.temperature].mapM (initBlock w.ctx w.ctx.gravity depth) =
        .ok [[adiabat w.ctx.potentialT w.ctx.alpha w.ctx.gravity w.ctx.cp depth]] := by
      simp [List.mapM_cons, initBlock, Req.temperature, hf, bind, Except.bind, pure, Except.pure]
    have hearly : earlyReturn w.ctx depth [Req.temperature] = false := by simp [earlyReturn, Req.temperature, hf]
    have hpes : [Req.temperature].zip (entries [Req.temperature]) = [(Req.temperature, 0)] := rfl
    simp only [hinit, liftE_ok, hearly, Bool.false_eq_true, if_false, QM.bind_apply, hpes, List.flatten_cons, List.flatten_nil,
      List.append_nil, foldlM_apply_temperature, hf, hq]
    cases List.foldlM (fun (t : R) (f : Feature R) => f.applyTemp w.ctx
        { pt := pt, nat := w.ctx.coord.toNatural pt, depth := depth, gravityNorm := w.ctx.gravity } t)
        (adiabat w.ctx.potentialT w.ctx.alpha w.ctx.gravity w.ctx.cp depth) w.features with
    | error e => rfl
    | ok t => simp [Except.map, QM.pure_apply, reimposeForced, hf]


/-! ### the slab's water-content model: `prepare` followed by `get` is `get_composition` -/

theorem idx_map_const {α β : Type} (xs : List α) (b : β) (i : Nat) (h : i < xs.length) : idx (xs.map (fun _ => b)) i = .ok b := by
  unfold idx
  simp [List.getElem?_map, List.getElem?_eq_getElem h]

/-- inside the range, with the world temperature `t`: the model is replaced by one whose `get` is the rest of
`TianWaterContent::get_composition` — `apply_operation(operation, composition, value)` for a listed composition, `0` under
`replace` and the old value otherwise for an unlisted one -/
theorem LineComp.tianWater_in_range (mn mx : R) (op : Op) (comps : List Nat) (spec : TianSpec R) (isFault : Bool) (q : Query R)
    (pd : PlaneDist R) (t : R) (hin : lineDist isFault pd.distanceFromPlane ≤ mx ∧ lineDist isFault pd.distanceFromPlane ≥ mn)
    (ht : q.worldT () = .ok t) :
    ∃ m', (LineComp.tianWater mn mx op comps spec).prepare isFault q pd = .ok m' ∧
      ∀ (n : Nat) (old : R), m'.get isFault pd n old =
        .ok (match findComposition comps n with
             | some _ => applyOp op old (spec.value q.depth t)
             | none => if op == .replace then 0.0 else old) := by
  refine ⟨.uniform mn mx op comps (comps.map (fun _ => spec.value q.depth t)), ?_, fun n old => ?_⟩
  · simp only [LineComp.prepare, hin, and_self, if_true, ht, bind, Except.bind, pure, Except.pure]
  · simp only [LineComp.get, hin, and_self, if_true]
    cases hf : findComposition comps n with
    | none => dsimp only; split <;> rfl
    | some i =>
      dsimp only
      simp only [idx_map_const comps _ i (findComposition_lt comps n i hf), bind, Except.bind, pure, Except.pure]

/-- inside the range the world temperature is asked for first: its failure is the model's failure -/
theorem LineComp.tianWater_in_range_error (mn mx : R) (op : Op) (comps : List Nat) (spec : TianSpec R) (isFault : Bool) (q : Query R)
    (pd : PlaneDist R) (e : Err) (hin : lineDist isFault pd.distanceFromPlane ≤ mx ∧ lineDist isFault pd.distanceFromPlane ≥ mn)
    (ht : q.worldT () = .error e) :
    (LineComp.tianWater mn mx op comps spec).prepare isFault q pd = .error e := by
  simp only [LineComp.prepare, hin, and_self, if_true, ht, bind, Except.bind]

/-- outside the range nothing is evaluated and the model paints nothing -/
theorem LineComp.tianWater_out_of_range (mn mx : R) (op : Op) (comps : List Nat) (spec : TianSpec R) (isFault : Bool) (q : Query R)
    (pd : PlaneDist R) (hout : ¬ (lineDist isFault pd.distanceFromPlane ≤ mx ∧ lineDist isFault pd.distanceFromPlane ≥ mn)) :
    ∃ m', (LineComp.tianWater mn mx op comps spec).prepare isFault q pd = .ok m' ∧ ∀ (n : Nat) (old : R), m'.get isFault pd n old = .ok old := by
  refine ⟨.tianWater mn mx op comps spec, ?_, fun n old => rfl⟩
  simp only [LineComp.prepare, hout, if_false, pure, Except.pure]

/-- the oceanic plate's copy, for comparison: the same three lines after the (two-stage) depth-range test -/
theorem CompModel.tianWater_in_range (rng : DepthRange R) (op : Op) (comps : List Nat) (spec : TianSpec R) (ctx : Ctx R) (q : Query R)
    (loc : R × R) (t : R) (hin : rng.locals ctx q false = .ok (some loc)) (ht : q.worldT () = .ok t) (n : Nat) (old : R) (g : G) :
    (CompModel.tianWater rng op comps spec).get ctx q n old g =
      .ok (match findComposition comps n with
           | some _ => applyOp op old (spec.value q.depth t)
           | none => if op == .replace then 0.0 else old, g) := by
  simp only [CompModel.get, QM.bind_apply, hin, liftE_ok, ht]
  cases hf : findComposition comps n with
  | none => dsimp only; split <;> rfl
  | some i => rfl

end Gwb
