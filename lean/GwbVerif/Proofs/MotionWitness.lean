/-
Helpers for C08, part 5: concrete witnesses over `ℚ` (bundle `c08Transc`: `ε = 2⁻⁵²`, `π := 3`, `sqrt := id`, `inf := 1000`;
none of the libm members is the real function — the witnesses only exercise field arithmetic and comparisons).

* `approx` (relative tolerance) is not translation invariant, and the polygon test inherits this: a point just outside a corner is
  reported inside, and outside after the whole configuration is moved so that the corner sits at the origin.
* the sign of `ClosestPointOnCurve::distance` flips under a translation.
* a footprint that reaches longitude `2π` is missed at the query longitude `0`.
-/
import GwbVerif.Proofs.MotionBezier
namespace Gwb
open Scalar
set_option linter.unusedSectionVars false

/-- bundle for the witnesses -/
def c08Transc : Transc ℚ :=
  { sqrt := id, exp := id, log := id, sin := id, cos := id, tan := id, asin := id, acos := id, atan := id, tanh := id,
    erfc := id, floor := id, ceil := id, round := id, atan2 := fun a _ => a, pow := fun a _ => a, fmod := fun a _ => a,
    pi := 3, eps := 1 / 2 ^ 52, dblMin := 0, dblMax := 1000, inf := 1000 }

theorem lit_sci_rat (T : Transc ℚ) (m : ℕ) (s : Bool) (e : ℕ) :
    @OfScientific.ofScientific ℚ (@Scalar.instOfScientific ℚ (fieldScalar T)) m s e = (OfScientific.ofScientific m s e : ℚ) := by
  show ((OfScientific.ofScientific m s e : ℚ) : ℚ) = _
  simp

theorem c08_eps : @Scalar.eps ℚ (fieldScalar c08Transc) = 1 / 2 ^ 52 := rfl
theorem c08_pi : @Scalar.pi ℚ (fieldScalar c08Transc) = 3 := rfl

theorem P2.sub_x' {F : Type} [Field F] [LinearOrder F] [IsStrictOrderedRing F] (T : Transc F) (a b : P2 F) :
  (@HSub.hSub (P2 F) (P2 F) (P2 F) (@instHSub (P2 F) (@P2.instSub F (fieldScalar T))) a b).x = a.x - b.x := rfl
theorem P2.sub_y' {F : Type} [Field F] [LinearOrder F] [IsStrictOrderedRing F] (T : Transc F) (a b : P2 F) :
  (@HSub.hSub (P2 F) (P2 F) (P2 F) (@instHSub (P2 F) (@P2.instSub F (fieldScalar T))) a b).y = a.y - b.y := rfl

/-! ### `approx` and the polygon test -/

/-- `approx(1, 1 + 10⁻¹²)` holds, `approx(0, 10⁻¹²)` (both arguments moved by `−1`) does not -/
theorem approx_not_translation_invariant :
    @approx ℚ (fieldScalar c08Transc) 1 (1 + 1 / 10 ^ 12) = true ∧
    @approx ℚ (fieldScalar c08Transc) (1 + -1) (1 + 1 / 10 ^ 12 + -1) = false := by
  constructor
  · simp only [approx, Scalar.fabs, Scalar.min, lit_sci_rat, lit_natCast, c08_eps]
    norm_num
  · simp only [approx, Scalar.fabs, Scalar.min, lit_sci_rat, lit_natCast, c08_eps]
    norm_num

/-- the square `[1,2]²` -/
def c08Square : List (P2 ℚ) := [⟨1, 1⟩, ⟨2, 1⟩, ⟨2, 2⟩, ⟨1, 2⟩]

/-- the point `(2 + 2⁻⁴⁰, 2 + 2⁻⁴⁰)` lies outside the square `[1,2]²` but is reported inside (vertex tolerance) -/
theorem polygon_corner_inside :
    @polygonContainsImpl ℚ (fieldScalar c08Transc) c08Square ⟨2 + 1 / 2 ^ 40, 2 + 1 / 2 ^ 40⟩ = true := by
  unfold polygonContainsImpl
  rw [show polygonEdges c08Square = [(⟨1, 2⟩, ⟨1, 1⟩), (⟨1, 1⟩, ⟨2, 1⟩), (⟨2, 1⟩, ⟨2, 2⟩), (⟨2, 2⟩, ⟨1, 2⟩)] from rfl]
  simp only [polyLoop, edgeStep, approx, Scalar.fabs, Scalar.min, lit_sci_rat, lit_natCast, c08_eps, P2.dot, P2.normSq]
  norm_num

/-- the same configuration translated by `(−2, −2)`: reported outside -/
theorem polygon_corner_outside :
    @polygonContainsImpl ℚ (fieldScalar c08Transc) (c08Square.map (P2.shift ⟨-2, -2⟩))
      (P2.shift ⟨-2, -2⟩ ⟨2 + 1 / 2 ^ 40, 2 + 1 / 2 ^ 40⟩) = false := by
  unfold polygonContainsImpl
  rw [show polygonEdges (c08Square.map (P2.shift ⟨-2, -2⟩)) =
    [(P2.shift ⟨-2, -2⟩ ⟨1, 2⟩, P2.shift ⟨-2, -2⟩ ⟨1, 1⟩), (P2.shift ⟨-2, -2⟩ ⟨1, 1⟩, P2.shift ⟨-2, -2⟩ ⟨2, 1⟩),
     (P2.shift ⟨-2, -2⟩ ⟨2, 1⟩, P2.shift ⟨-2, -2⟩ ⟨2, 2⟩), (P2.shift ⟨-2, -2⟩ ⟨2, 2⟩, P2.shift ⟨-2, -2⟩ ⟨1, 2⟩)] from rfl]
  simp only [polyLoop, edgeStep, approx, Scalar.fabs, Scalar.min, lit_sci_rat, lit_natCast, c08_eps, P2.dot, P2.normSq, P2.shift]
  norm_num

/-! ### longitude `0` and a footprint reaching `2π` -/

/-- a footprint between the longitudes `5` and `6 = 2π` (with `π := 3`) -/
def c08Footprint : List (P2 ℚ) := [⟨5, -1⟩, ⟨6, -1⟩, ⟨6, 1⟩, ⟨5, 1⟩]

/-- the alias `(2π, 0)` of the point `(0, 0)` lies on the footprint's boundary … -/
theorem footprint_contains_alias : @polygonContainsImpl ℚ (fieldScalar c08Transc) c08Footprint ⟨6, 0⟩ = true := by
  unfold polygonContainsImpl
  rw [show polygonEdges c08Footprint = [(⟨5, 1⟩, ⟨5, -1⟩), (⟨5, -1⟩, ⟨6, -1⟩), (⟨6, -1⟩, ⟨6, 1⟩), (⟨6, 1⟩, ⟨5, 1⟩)] from rfl]
  simp only [polyLoop, edgeStep, approx, Scalar.fabs, Scalar.min, lit_sci_rat, lit_natCast, c08_eps, P2.dot, P2.normSq, P2.sub_x', P2.sub_y']
  norm_num

/-- … but the spherical test at `(0, 0)` (the point and `otherPoint = (−2π, 0)`) says "outside" -/
theorem footprint_misses_zero : @polygonContains ℚ (fieldScalar c08Transc) true c08Footprint ⟨0, 0⟩ = false := by
  unfold polygonContains otherPoint polygonContainsImpl
  rw [show polygonEdges c08Footprint = [(⟨5, 1⟩, ⟨5, -1⟩), (⟨5, -1⟩, ⟨6, -1⟩), (⟨6, -1⟩, ⟨6, 1⟩), (⟨6, 1⟩, ⟨5, 1⟩)] from rfl]
  simp only [polyLoop, edgeStep, approx, Scalar.fabs, Scalar.min, lit_sci_rat, lit_natCast, c08_eps, c08_pi, P2.dot, P2.normSq, P2.sub_x', P2.sub_y']
  norm_num

/-! ### the sign of the Bezier distance -/

theorem c08_piece0 (y : ℚ) : @pieceC ℚ (fieldScalar c08Transc) ⟨-1, y⟩ ⟨0, y⟩ ⟨-1, y⟩ ⟨-1, y⟩ ⟨0, y + 1⟩ = ((1, true), 1) := by
  unfold pieceC
  have hk : @cubicOf ℚ (fieldScalar c08Transc) ⟨-1, y⟩ ⟨0, y⟩ ⟨-1, y⟩ ⟨-1, y⟩ = ⟨⟨1, 0⟩, ⟨0, 0⟩, ⟨0, 0⟩, ⟨-1, y⟩⟩ := by
    unfold cubicOf
    simp only [lit_three_dec, lit_six_dec]
    norm_num
    ring
  have he : @initialEstimate ℚ (fieldScalar c08Transc) ⟨-1, y⟩ ⟨0, y⟩ ⟨0, y + 1⟩ = 1 := by
    unfold initialEstimate
    simp only [P2.dot, Scalar.min, Scalar.max, P2.sub_x', P2.sub_y', lit_sci_rat]
    norm_num
  simp only [hk, he]
  rw [show (150 : ℕ) = 149 + 1 from rfl]
  unfold newtonC
  simp only [Scalar.min, Scalar.max, Scalar.fabs, lit_sci_rat, lit_natCast]
  norm_num

theorem c08_piece1 (y : ℚ) : @pieceC ℚ (fieldScalar c08Transc) ⟨0, y⟩ ⟨1, y⟩ ⟨0, y⟩ ⟨0, y⟩ ⟨0, y + 1⟩ = ((0, true), 1) := by
  unfold pieceC
  have hk : @cubicOf ℚ (fieldScalar c08Transc) ⟨0, y⟩ ⟨1, y⟩ ⟨0, y⟩ ⟨0, y⟩ = ⟨⟨1, 0⟩, ⟨0, 0⟩, ⟨0, 0⟩, ⟨0, y⟩⟩ := by
    unfold cubicOf
    simp only [lit_three_dec, lit_six_dec]
    norm_num
    ring
  have he : @initialEstimate ℚ (fieldScalar c08Transc) ⟨0, y⟩ ⟨1, y⟩ ⟨0, y + 1⟩ = 0 := by
    unfold initialEstimate
    simp only [P2.dot, Scalar.min, Scalar.max, P2.sub_x', P2.sub_y', lit_sci_rat]
    norm_num
  simp only [hk, he]
  rw [show (150 : ℕ) = 149 + 1 from rfl]
  unfold newtonC
  simp only [Scalar.min, Scalar.max, Scalar.fabs, lit_sci_rat, lit_natCast]
  norm_num

/-- a straight curve through `(−1,y), (0,y), (1,y)` with (degenerate) control points at the piece starts -/
def c08Line (y : ℚ) : Bezier ℚ := ⟨[⟨-1, y⟩, ⟨0, y⟩, ⟨1, y⟩], [(⟨-1, y⟩, ⟨-1, y⟩), (⟨0, y⟩, ⟨0, y⟩)], []⟩

/-- the closest point for the check point one unit above the middle vertex: the sign of the distance is the sign of `−y`, i.e. it
depends on where the ORIGIN is -/
theorem c08Line_closest (y : ℚ) :
    @Bezier.closestPoint ℚ (fieldScalar c08Transc) (c08Line y) false ⟨0, y + 1⟩ =
      .ok (some ⟨if -y < 0 then -1 else 1, 0, 1, ⟨0, y⟩, ⟨0, 0⟩⟩) := by
  unfold Bezier.closestPoint
  simp only [Bool.false_eq_true, if_false]
  show @closestCartesianLoop ℚ (fieldScalar c08Transc) (c08Line y) ⟨0, y + 1⟩ (2 + 1) 0 _ none = _
  rw [@closestCartesianLoop_succ ℚ (fieldScalar c08Transc)]
  simp only [c08Line, idx, List.length_cons, List.length_nil, List.getElem?_cons_zero, List.getElem?_cons_succ, bind, Except.bind]
  rw [c08_piece0]
  have hacc0 : @accept ℚ (fieldScalar c08Transc) 0 1 = false := by
    unfold accept
    simp only [Scalar.nat, lit_sci_rat]
    show (decide _ && decide ((((0 : ℕ) : ℚ)) + 1 > 0) && decide _ && decide (_ < ((0 : ℕ) : ℚ))) = false
    norm_num
  have hacc1 : @accept ℚ (fieldScalar c08Transc) 1 0 = true := by
    unfold accept
    simp only [Scalar.nat, lit_sci_rat]
    show (decide _ && decide ((((1 : ℕ) : ℚ)) + 0 > 0) && decide _ && decide (_ < ((1 : ℕ) : ℚ))) = true
    norm_num
  simp only [hacc0, Bool.not_true, Bool.false_eq_true, if_false, and_false, Nat.zero_add, Nat.zero_lt_succ, if_true]
  rw [@closestCartesianLoop_succ ℚ (fieldScalar c08Transc)]
  simp only [idx, List.length_cons, List.length_nil, List.getElem?_cons_zero, List.getElem?_cons_succ, bind, Except.bind]
  rw [c08_piece1]
  have hinf : (1 : ℚ) < @Scalar.inf ℚ (fieldScalar c08Transc) := by
    show (1 : ℚ) < 1000
    norm_num
  simp only [hacc1, hinf, Bool.not_true, Bool.false_eq_true, if_false, and_self, if_true, Nat.lt_add_one, Nat.reduceAdd]
  rw [show (1 : ℕ) = 0 + 1 from rfl, @closestCartesianLoop_succ ℚ (fieldScalar c08Transc)]
  simp only [List.length_cons, List.length_nil, Nat.reduceAdd, Nat.lt_irrefl, if_false]
  have hk : @cubicOf ℚ (fieldScalar c08Transc) ⟨0, y⟩ ⟨1, y⟩ ⟨0, y⟩ ⟨0, y⟩ = ⟨⟨1, 0⟩, ⟨0, 0⟩, ⟨0, 0⟩, ⟨0, y⟩⟩ := by
    unfold cubicOf
    simp only [lit_three_dec, lit_six_dec]
    norm_num
    ring
  rw [hk]
  unfold closestOf onCurveC
  simp only [lit_sci_rat, lit_natCast]
  show Except.ok (some (ClosestPoint.mk (_ * id (1 : ℚ)) _ _ _ (if id _ > _ then _ else _))) = _
  norm_num

/-! ### an instance of the general longitude-offset theorem -/

/-- `Separated` for the rectangle `[x0,x1] × [1,2]` and a query at height `3/2` at least `1/2` away (in `x`) from both vertical sides -/
theorem c08_separated_rect (x0 x1 : ℚ) (x : ℚ) (hx0 : 1 / 2 ≤ |x - x0|) (hx1 : 1 / 2 ≤ |x - x1|) (h01 : 1 ≤ |x1 - x0|) :
    Separated c08Transc [⟨x0, 1⟩, ⟨x1, 1⟩, ⟨x1, 2⟩, ⟨x0, 2⟩] ⟨x, 3 / 2⟩ := by
  have hE : polygonEdges ([⟨x0, 1⟩, ⟨x1, 1⟩, ⟨x1, 2⟩, ⟨x0, 2⟩] : List (P2 ℚ)) =
      [(⟨x0, 2⟩, ⟨x0, 1⟩), (⟨x0, 1⟩, ⟨x1, 1⟩), (⟨x1, 1⟩, ⟨x1, 2⟩), (⟨x1, 2⟩, ⟨x0, 2⟩)] := rfl
  have heps : (0 : ℚ) < 1 / 2 ^ 52 := by norm_num
  have hsmall : (1 : ℚ) / 2 ^ 52 < 1 / 2 := by norm_num
  have hy : ∀ b : ℚ, (b = 1 ∨ b = 2) → @approx ℚ (fieldScalar c08Transc) b (3 / 2) = false := by
    intro b hb
    rw [Bool.eq_false_iff, ne_eq, approx_field]
    show ¬ (|b - 3 / 2| < |min b (3 / 2)| * (1 / 2 ^ 52) * 10000)
    rcases hb with rfl | rfl <;> norm_num [abs_of_neg, abs_of_pos]
  have hne : x0 ≠ x1 := by
    intro h; rw [h, sub_self, abs_zero] at h01; linarith
  refine ⟨heps, ?_, ?_, ?_⟩
  · intro e he hv
    rw [hE] at he
    simp only [List.mem_cons, List.not_mem_nil, or_false] at he
    exfalso
    simp only [Bool.and_eq_true] at hv
    rcases he with rfl | rfl | rfl | rfl
    · rw [hy 1 (Or.inl rfl)] at hv; exact absurd hv.2 (by simp)
    · rw [hy 1 (Or.inl rfl)] at hv; exact absurd hv.2 (by simp)
    · rw [hy 2 (Or.inr rfl)] at hv; exact absurd hv.2 (by simp)
    · rw [hy 2 (Or.inr rfl)] at hv; exact absurd hv.2 (by simp)
  · intro e he hc
    rw [hE] at he
    simp only [List.mem_cons, List.not_mem_nil, or_false] at he
    exfalso
    have hc' : |crossP e.1 e.2 (⟨x, 3 / 2⟩ : P2 ℚ)| < 1 / 2 ^ 52 := hc
    rcases he with rfl | rfl | rfl | rfl
    · have : crossP (⟨x0, 2⟩ : P2 ℚ) ⟨x0, 1⟩ ⟨x, 3 / 2⟩ = x - x0 := by unfold crossP; ring
      rw [this] at hc'; linarith
    · have : crossP (⟨x0, 1⟩ : P2 ℚ) ⟨x1, 1⟩ ⟨x, 3 / 2⟩ = (x1 - x0) * (1 / 2) := by unfold crossP; ring
      rw [this, abs_mul, abs_of_pos (by norm_num : (0 : ℚ) < 1 / 2)] at hc'; linarith
    · have : crossP (⟨x1, 1⟩ : P2 ℚ) ⟨x1, 2⟩ ⟨x, 3 / 2⟩ = -(x - x1) := by unfold crossP; ring
      rw [this, abs_neg] at hc'; linarith
    · have : crossP (⟨x1, 2⟩ : P2 ℚ) ⟨x0, 2⟩ ⟨x, 3 / 2⟩ = (x1 - x0) * (1 / 2) := by unfold crossP; ring
      rw [this, abs_mul, abs_of_pos (by norm_num : (0 : ℚ) < 1 / 2)] at hc'; linarith
  · intro e he
    rw [hE] at he
    simp only [List.mem_cons, List.not_mem_nil, or_false] at he
    rcases he with rfl | rfl | rfl | rfl <;> simp only [ne_eq, P2.mk.injEq, not_and] <;> intro h
    · norm_num
    · exact absurd h hne
    · norm_num
    · exact absurd h.symm hne

theorem c08_half_away (m : ℤ) (hm : m % 2 = 1) : (1 : ℚ) / 2 ≤ |(m : ℚ) / 2| := by
  have hne : m ≠ 0 := by intro h; rw [h] at hm; omega
  have h1 : (1 : ℤ) ≤ |m| := Int.one_le_abs hne
  have h2 : (1 : ℚ) ≤ |(m : ℚ)| := by exact_mod_cast h1
  rw [abs_div, abs_of_pos (by norm_num : (0 : ℚ) < 2)]
  linarith

/-- all hypotheses of `polygonContains_lon_offset_general` hold for the square `[1,2]²` (with `π := 3`), the query `(3/2, 3/2)`, the offset
`d = 4` — which carries the footprint to longitudes `[5, 6]`, across the meridian `π = 3` — and the re-normalised query longitude
`−1/2 = 3/2 + 4 − 2π` -/
theorem c08_lon_offset_example :
    (0 : ℚ) < c08Transc.pi ∧
    (∀ v ∈ c08Square, -(2 * c08Transc.pi) ≤ v.x ∧ v.x ≤ 2 * c08Transc.pi) ∧
    (∀ v ∈ c08Square, -(2 * c08Transc.pi) ≤ v.x + 4 ∧ v.x + 4 ≤ 2 * c08Transc.pi) ∧
    ((-1 / 2 : ℚ) = 3 / 2 + 4 + 2 * c08Transc.pi * ((-1 : ℤ) : ℚ)) ∧
    (∀ k : ℤ, Separated c08Transc c08Square ⟨3 / 2 + 2 * c08Transc.pi * k, 3 / 2⟩) ∧
    (∀ k : ℤ, Separated c08Transc (c08Square.map (P2.shift ⟨4, 0⟩)) ⟨-1 / 2 + 2 * c08Transc.pi * k, 3 / 2⟩) := by
  have hpi : c08Transc.pi = 3 := rfl
  rw [hpi]
  refine ⟨by norm_num, ?_, ?_, by norm_num, ?_, ?_⟩
  · intro v hv
    simp only [c08Square, List.mem_cons, List.not_mem_nil, or_false] at hv
    rcases hv with rfl | rfl | rfl | rfl <;> norm_num
  · intro v hv
    simp only [c08Square, List.mem_cons, List.not_mem_nil, or_false] at hv
    rcases hv with rfl | rfl | rfl | rfl <;> norm_num
  · intro k
    apply c08_separated_rect 1 2
    · have := c08_half_away (12 * k + 1) (by omega)
      have e : (3 : ℚ) / 2 + 2 * 3 * k - 1 = ((12 * k + 1 : ℤ) : ℚ) / 2 := by push_cast; ring
      rw [e]; exact this
    · have := c08_half_away (12 * k - 1) (by omega)
      have e : (3 : ℚ) / 2 + 2 * 3 * k - 2 = ((12 * k - 1 : ℤ) : ℚ) / 2 := by push_cast; ring
      rw [e]; exact this
    · norm_num
  · intro k
    have hs : c08Square.map (P2.shift ⟨4, 0⟩) = [⟨5, 1⟩, ⟨6, 1⟩, ⟨6, 2⟩, ⟨5, 2⟩] := by
      simp only [c08Square, P2.shift, List.map_cons, List.map_nil]
      norm_num
    rw [hs]
    apply c08_separated_rect 5 6
    · have := c08_half_away (12 * k - 11) (by omega)
      have e : (-1 : ℚ) / 2 + 2 * 3 * k - 5 = ((12 * k - 11 : ℤ) : ℚ) / 2 := by push_cast; ring
      rw [e]; exact this
    · have := c08_half_away (12 * k - 13) (by omega)
      have e : (-1 : ℚ) / 2 + 2 * 3 * k - 6 = ((12 * k - 13 : ℤ) : ℚ) / 2 := by push_cast; ring
      rw [e]; exact this
    · norm_num

end Gwb
