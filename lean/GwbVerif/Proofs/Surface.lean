/-
Helpers for C11 (depth surfaces given as values at points).

Part 1 (every `Scalar R`): the interpolation formula of `inTriangle` as a function (`Tri.interp`), the acceptance test as a
proposition (`Tri.Accepts`), provenance of the value returned by `Surface.localValue` (it is always the value `inTriangle`
produced for some stored triangle at the query point, or at its `otherPoint` alias in the spherical branches), what
`Surface.build` guarantees, and a closed form of the nodal merge `mergePoint`.

Part 2 (ordered field through `fieldScalar T`): the formula in field vocabulary, `minMax`, `approx`.
-/
import GwbVerif.Model.Geometry.Surface
import GwbVerif.Model.Parse.Json
import GwbVerif.Proofs.PolygonField
import Mathlib.Tactic.NormNum
namespace Gwb
open Scalar
set_option linter.unusedSectionVars false

/-! ## Part 1: every `Scalar R` -/
section generic
variable {R : Type} [Scalar R]

/-- `in_triangle_precomputed[iii][6]`: minus twice the usual signed area, i.e. positive for clockwise `p0 p1 p2` -/
def Tri.c6 (t : Tri R) : R := t.precompute.c6
/-- `s_no_area` of `in_triangle` -/
def Tri.sNum (t : Tri R) (p : P2 R) : R := -(t.precompute.c0 + t.precompute.c1 * p.x + t.precompute.c2 * p.y)
/-- `t_no_area` of `in_triangle` -/
def Tri.tNum (t : Tri R) (p : P2 R) : R := -(t.precompute.c3 + t.precompute.c4 * p.x + t.precompute.c5 * p.y)

/-- the value `inTriangle` returns when its test accepts the point (with the constants `Tri.precompute` stores) -/
def Tri.interp (t : Tri R) (p : P2 R) : R :=
  let is := t.precompute.c7 * t.sNum p
  let it := t.precompute.c7 * t.tNum p
  t.p0.z * ((1 : R) - is - it) + t.p1.z * is + t.p2.z * it

/-- the (tolerant) acceptance test of `inTriangle` -/
def Tri.Accepts (t : Tri R) (p : P2 R) : Prop :=
  t.sNum p ≥ -(1e4 : R) * Scalar.eps ∧ t.tNum p ≥ -(1e4 : R) * Scalar.eps ∧
    t.sNum p + t.tNum p - t.c6 ≤ t.c6 * (1e4 : R) * Scalar.eps

instance (t : Tri R) (p : P2 R) : Decidable (t.Accepts p) := by unfold Tri.Accepts; exact inferInstance

theorem inTriangle_precompute (t : Tri R) (p : P2 R) :
    inTriangle t t.precompute p = if t.Accepts p then some (t.interp p) else none := by
  by_cases h : t.Accepts p
  · rw [if_pos h]
    unfold Tri.Accepts Tri.sNum Tri.tNum Tri.c6 at h
    unfold inTriangle
    simp only
    rw [if_pos h]
    rfl
  · rw [if_neg h]
    unfold Tri.Accepts Tri.sNum Tri.tNum Tri.c6 at h
    unfold inTriangle
    simp only
    rw [if_neg h]

theorem inTriangle_some {t : Tri R} {p : P2 R} {v : R} (h : inTriangle t t.precompute p = some v) :
    t.Accepts p ∧ v = t.interp p := by
  rw [inTriangle_precompute] at h
  split at h
  · rename_i ha; exact ⟨ha, (Option.some.inj h).symm⟩
  · cases h

/-- "`inTriangle` on a stored triangle of `s`, at the point `q`, returned `v`" -/
def Surface.Produces (s : Surface R) (q : P2 R) (v : R) : Prop :=
  ∃ (i : Nat) (t : Tri R) (pre : TriPre R), s.triangles[i]? = some t ∧ s.pre[i]? = some pre ∧ inTriangle t pre q = some v

theorem Surface.tryNode_produces (s : Surface R) (ni : Nat) (q : P2 R) (v : R)
    (h : s.tryNode ni q = .ok (some v)) : s.Produces q v := by
  unfold Surface.tryNode at h
  cases hn : s.nodes[ni]? with
  | none => simp [hn] at h
  | some nd =>
    cases ht : s.triangles[nd.index]? with
    | none => simp [hn, ht] at h
    | some t =>
      cases hp : s.pre[nd.index]? with
      | none => simp [hn, ht, hp] at h
      | some pre =>
        simp only [hn, ht, hp, Except.ok.injEq] at h
        exact ⟨nd.index, t, pre, ht, hp, h⟩

theorem Surface.tryList_produces (s : Surface R) (q : P2 R) (v : R) (ids : List (IndexDistance R))
    (h : s.tryList q ids = .ok (some v)) : s.Produces q v := by
  induction ids with
  | nil => simp [Surface.tryList] at h
  | cons id ids ih =>
    unfold Surface.tryList at h
    cases hn : s.tryNode id.index q with
    | error e => simp [hn, bind, Except.bind] at h
    | ok r =>
      cases r with
      | none => simp only [hn, bind, Except.bind] at h; exact ih h
      | some w =>
        simp only [hn, bind, Except.bind, Except.ok.injEq, Option.some.injEq] at h
        subst h
        exact Surface.tryNode_produces s _ q w hn

theorem Surface.scanAll_produces (s : Surface R) (spherical : Bool) (p other : P2 R) (v : R) (nds : List (KdNode R))
    (h : s.scanAll spherical p other nds = .ok (some v)) :
    s.Produces p v ∨ (spherical = true ∧ s.Produces other v) := by
  induction nds with
  | nil => simp [Surface.scanAll] at h
  | cons nd nds ih =>
    unfold Surface.scanAll at h
    cases ht : s.triangles[nd.index]? with
    | none => simp [ht] at h
    | some t =>
      cases hp : s.pre[nd.index]? with
      | none => simp [ht, hp] at h
      | some pre =>
        simp only [ht, hp] at h
        cases h1 : inTriangle t pre p with
        | some w =>
          simp only [h1, Except.ok.injEq, Option.some.injEq] at h
          subst h
          exact Or.inl ⟨nd.index, t, pre, ht, hp, h1⟩
        | none =>
          simp only [h1] at h
          cases spherical with
          | false => simp only [Bool.false_eq_true, if_false] at h; exact ih h
          | true =>
            simp only [if_true] at h
            cases h2 : inTriangle t pre other with
            | some w =>
              simp only [h2, Except.ok.injEq, Option.some.injEq] at h
              subst h
              exact Or.inr ⟨rfl, nd.index, t, pre, ht, hp, h2⟩
            | none => simp only [h2] at h; exact ih h

/-- the value returned for a non-constant surface was produced by `inTriangle` on a stored triangle,
at the query point or (spherical only) at `otherPoint` of the query point -/
theorem Surface.localValue_produces (s : Surface R) (spherical : Bool) (p : P2 R) (v : R)
    (hc : s.constant = false) (h : s.localValue spherical p = .ok v) :
    s.Produces p v ∨ (spherical = true ∧ s.Produces (otherPoint p) v) := by
  unfold Surface.localValue at h
  simp only [hc, Bool.false_eq_true, if_false, bind, Except.bind, pure, Except.pure] at h
  cases hk : kdFindClosestPoints s.nodes p with
  | error e => simp [hk] at h
  | ok ids =>
    simp only [hk] at h
    cases h1 : s.tryNode ids.minIndex p with
    | error e => simp [h1] at h
    | ok r1 =>
      cases r1 with
      | some w =>
        simp only [h1, Except.ok.injEq] at h; subst h
        exact Or.inl (Surface.tryNode_produces s _ p w h1)
      | none =>
        simp only [h1] at h
        cases spherical with
        | false =>
          simp only [Bool.false_eq_true, if_false] at h
          cases h3 : s.tryList p ids.vector with
          | error e => simp [h3] at h
          | ok r3 =>
            cases r3 with
            | some w =>
              simp only [h3, Except.ok.injEq] at h; subst h
              exact Or.inl (Surface.tryList_produces s p w _ h3)
            | none =>
              simp only [h3] at h
              cases h5 : s.scanAll false p (otherPoint p) s.nodes.toList with
              | error e => simp [h5] at h
              | ok r5 =>
                cases r5 with
                | some w =>
                  simp only [h5, Except.ok.injEq] at h; subst h
                  exact Surface.scanAll_produces s false p _ w _ h5
                | none => simp [h5] at h
        | true =>
          simp only [if_true] at h
          cases hk2 : kdFindClosestPoints s.nodes (otherPoint p) with
          | error e => simp [hk2] at h
          | ok ids2 =>
            simp only [hk2] at h
            cases h2 : s.tryNode ids2.minIndex (otherPoint p) with
            | error e => simp [h2] at h
            | ok r2 =>
              cases r2 with
              | some w =>
                simp only [h2, Except.ok.injEq] at h; subst h
                exact Or.inr ⟨rfl, Surface.tryNode_produces s _ _ w h2⟩
              | none =>
                simp only [h2] at h
                cases h3 : s.tryList p ids.vector with
                | error e => simp [h3] at h
                | ok r3 =>
                  cases r3 with
                  | some w =>
                    simp only [h3, Except.ok.injEq] at h; subst h
                    exact Or.inl (Surface.tryList_produces s p w _ h3)
                  | none =>
                    simp only [h3] at h
                    cases h4 : s.tryList (otherPoint p) ids2.vector with
                    | error e => simp [h4] at h
                    | ok r4 =>
                      cases r4 with
                      | some w =>
                        simp only [h4, Except.ok.injEq] at h; subst h
                        exact Or.inr ⟨rfl, Surface.tryList_produces s _ w _ h4⟩
                      | none =>
                        simp only [h4] at h
                        cases h5 : s.scanAll true p (otherPoint p) s.nodes.toList with
                        | error e => simp [h5] at h
                        | ok r5 =>
                          cases r5 with
                          | some w =>
                            simp only [h5, Except.ok.injEq] at h; subst h
                            exact Surface.scanAll_produces s true p _ w _ h5
                          | none => simp [h5] at h

/-- the stored constants are those of `Tri.precompute` (what `Surface.build` establishes) -/
def Surface.PreOk (s : Surface R) : Prop := s.pre = s.triangles.map Tri.precompute

theorem Surface.produces_preOk {s : Surface R} (hs : s.PreOk) {q : P2 R} {v : R} (h : s.Produces q v) :
    ∃ t ∈ s.triangles, t.Accepts q ∧ v = t.interp q := by
  obtain ⟨i, t, pre, ht, hp, hv⟩ := h
  rw [hs, Array.getElem?_map, ht] at hp
  simp only [Option.map_some, Option.some.injEq] at hp
  subst hp
  exact ⟨t, Array.mem_of_getElem? ht, inTriangle_some hv⟩

/-- what `Surface.build` establishes: the flags, `minimum`/`maximum` from `minMax`, the stored constants are `Tri.precompute`
of the stored triangles, and every triangle vertex passed the `vertexKnown` check -/
theorem Surface.build_ok (values : List R) (pts : List (P2 R)) (aux : Option (SurfaceAux R)) (s : Surface R)
    (h : Surface.build values pts aux = .ok s) :
    ∃ v0 rest, values = v0 :: rest ∧ s.minimum = (minMax v0 values).1 ∧ s.maximum = (minMax v0 values).2 ∧
      s.constant = pts.isEmpty ∧ s.PreOk ∧
      ∀ t ∈ s.triangles, vertexKnown values pts t.p0 = true ∧ vertexKnown values pts t.p1 = true ∧
        vertexKnown values pts t.p2 = true := by
  unfold Surface.build at h
  cases values with
  | nil => simp at h
  | cons v0 rest =>
    refine ⟨v0, rest, rfl, ?_⟩
    simp only at h
    cases hp : pts.isEmpty with
    | true =>
      simp only [hp, if_true, Except.ok.injEq] at h
      subst h
      refine ⟨rfl, rfl, rfl, ?_, ?_⟩
      · show (#[] : Array (TriPre R)) = (#[] : Array (Tri R)).map Tri.precompute
        simp
      · intro t ht; simp at ht
    | false =>
      simp only [hp, Bool.false_eq_true, if_false] at h
      cases aux with
      | none => simp at h
      | some a =>
        simp only at h
        split at h
        · rename_i hall
          simp only [Except.ok.injEq] at h
          subst h
          refine ⟨rfl, rfl, rfl, rfl, ?_⟩
          intro t ht
          rw [Array.all_eq_true'] at hall
          have := hall t ht
          simp only [Bool.and_eq_true] at this
          exact ⟨this.1.1, this.1.2, this.2⟩
        · simp at h

/-! ### the nodal merge -/

/-- the test of parameters.cc:650: both coordinates `approx`-equal -/
def nodeMatches (c0 c1 : R) (p : P2 R) : Bool := approx p.x c0 && approx p.y c1

/-- closed form of `mergePoint` (lists of equal length): the FIRST node matching the listed point gets the listed value and no
node is added; with no matching node the point is appended with its value -/
theorem mergePoint_eq (value c0 c1 : R) (vs : List R) (ps : List (P2 R)) (hlen : vs.length = ps.length) :
    mergePoint value c0 c1 vs ps =
      match ps.findIdx? (nodeMatches c0 c1) with
      | some i => (vs.set i value, ps)
      | none => (vs ++ [value], ps ++ [⟨c0, c1⟩]) := by
  induction ps generalizing vs with
  | nil =>
    cases vs with
    | nil => simp [mergePoint]
    | cons v vs => simp at hlen
  | cons p ps ih =>
    cases vs with
    | nil => simp at hlen
    | cons v vs =>
      have hlen' : vs.length = ps.length := by simpa using hlen
      unfold mergePoint
      rw [List.findIdx?_cons]
      cases hm : nodeMatches c0 c1 p with
      | true =>
        have hm' : (approx p.x c0 && approx p.y c1) = true := hm
        simp only [hm', if_true, List.set_cons_zero]
      | false =>
        have hm' : (approx p.x c0 && approx p.y c1) = false := hm
        simp only [hm', Bool.false_eq_true, if_false]
        rw [ih vs hlen']
        cases hf : List.findIdx? (nodeMatches c0 c1) ps with
        | none => simp
        | some i => simp

/-- a listed point matching node `i` (and no earlier node) replaces that node's value; no node is added -/
theorem mergePoint_replace (value c0 c1 : R) (vs : List R) (ps : List (P2 R)) (hlen : vs.length = ps.length)
    (i : Nat) (hi : i < ps.length) (hm : nodeMatches c0 c1 ps[i] = true)
    (hfirst : ∀ j (hj : j < i), nodeMatches c0 c1 (ps[j]'(Nat.lt_trans hj hi)) = false) :
    mergePoint value c0 c1 vs ps = (vs.set i value, ps) := by
  rw [mergePoint_eq value c0 c1 vs ps hlen]
  have : ps.findIdx? (nodeMatches c0 c1) = some i :=
    List.findIdx?_eq_some_iff_getElem.mpr ⟨hi, hm, fun j hj => by rw [hfirst j hj]; simp⟩
  rw [this]

/-- a listed point matching no node is appended with its value -/
theorem mergePoint_append (value c0 c1 : R) (vs : List R) (ps : List (P2 R)) (hlen : vs.length = ps.length)
    (hno : ∀ q ∈ ps, nodeMatches c0 c1 q = false) :
    mergePoint value c0 c1 vs ps = (vs ++ [value], ps ++ [⟨c0, c1⟩]) := by
  rw [mergePoint_eq value c0 c1 vs ps hlen, List.findIdx?_eq_none_iff.mpr hno]

/-- the merge keeps the two lists equally long -/
theorem mergePoint_length (value c0 c1 : R) (vs : List R) (ps : List (P2 R)) (hlen : vs.length = ps.length) :
    (mergePoint value c0 c1 vs ps).1.length = (mergePoint value c0 c1 vs ps).2.length := by
  rw [mergePoint_eq value c0 c1 vs ps hlen]
  cases List.findIdx? (nodeMatches c0 c1) ps with
  | none => simp [hlen]
  | some i => simp [hlen]

/-- existing nodes stay where they are (the node list only ever grows at the end) -/
theorem mergePoint_nodes (value c0 c1 : R) (vs : List R) (ps : List (P2 R)) (hlen : vs.length = ps.length) :
    (mergePoint value c0 c1 vs ps).2 = ps ∨ (mergePoint value c0 c1 vs ps).2 = ps ++ [⟨c0, c1⟩] := by
  rw [mergePoint_eq value c0 c1 vs ps hlen]
  cases List.findIdx? (nodeMatches c0 c1) ps with
  | none => exact Or.inr rfl
  | some i => exact Or.inl rfl

/-- a node that does not match the listed point keeps its value -/
theorem mergePoint_keep (value c0 c1 : R) (vs : List R) (ps : List (P2 R)) (hlen : vs.length = ps.length)
    (j : Nat) (hj : j < ps.length) (hnm : nodeMatches c0 c1 ps[j] = false) :
    (mergePoint value c0 c1 vs ps).1[j]? = vs[j]? ∧ (mergePoint value c0 c1 vs ps).2[j]? = ps[j]? := by
  rw [mergePoint_eq value c0 c1 vs ps hlen]
  cases hf : List.findIdx? (nodeMatches c0 c1) ps with
  | none =>
    simp only
    exact ⟨List.getElem?_append_left (by omega), List.getElem?_append_left hj⟩
  | some i =>
    simp only
    obtain ⟨hi, hmi, _⟩ := List.findIdx?_eq_some_iff_getElem.mp hf
    have hij : i ≠ j := by
      intro h; subst h; rw [hmi] at hnm; cases hnm
    exact ⟨by rw [List.getElem?_set, if_neg hij], trivial⟩

/-- after the merge some node carries the listed value, and that node is the listed point itself or a node `approx`-equal to it -/
theorem mergePoint_listed (value c0 c1 : R) (vs : List R) (ps : List (P2 R)) (hlen : vs.length = ps.length) :
    ∃ (k : Nat) (q : P2 R), (mergePoint value c0 c1 vs ps).1[k]? = some value ∧ (mergePoint value c0 c1 vs ps).2[k]? = some q ∧
      (q = ⟨c0, c1⟩ ∨ nodeMatches c0 c1 q = true) := by
  rw [mergePoint_eq value c0 c1 vs ps hlen]
  cases hf : List.findIdx? (nodeMatches c0 c1) ps with
  | none =>
    refine ⟨ps.length, ⟨c0, c1⟩, ?_, ?_, Or.inl rfl⟩
    · simp only; rw [← hlen]; simp
    · simp
  | some i =>
    obtain ⟨hi, hmi, _⟩ := List.findIdx?_eq_some_iff_getElem.mp hf
    refine ⟨i, ps[i], ?_, ?_, Or.inr hmi⟩
    · simp only; rw [List.getElem?_set]; simp [hlen, hi]
    · simp [hi]

/-- several listed points merged one after the other (the two nested `foldlM`s of `Cur.getValueAtPoints`, for items that parse) -/
def mergeList (items : List (R × R × R)) (acc : List R × List (P2 R)) : List R × List (P2 R) :=
  items.foldl (fun acc it => mergePoint it.1 it.2.1 it.2.2 acc.1 acc.2) acc

theorem mergeList_length (items : List (R × R × R)) (acc : List R × List (P2 R)) (hlen : acc.1.length = acc.2.length) :
    (mergeList items acc).1.length = (mergeList items acc).2.length := by
  induction items generalizing acc with
  | nil => exact hlen
  | cons it items ih =>
    exact ih _ (mergePoint_length it.1 it.2.1 it.2.2 acc.1 acc.2 hlen)

/-- a node matched by none of the listed points keeps its value through the whole merge (a corner that is not listed keeps the
default) -/
theorem mergeList_keep (items : List (R × R × R)) (acc : List R × List (P2 R)) (hlen : acc.1.length = acc.2.length)
    (j : Nat) (hj : j < acc.2.length) (hnm : ∀ it ∈ items, nodeMatches it.2.1 it.2.2 acc.2[j] = false) :
    (mergeList items acc).1[j]? = acc.1[j]? ∧ (mergeList items acc).2[j]? = acc.2[j]? := by
  induction items generalizing acc with
  | nil => exact ⟨rfl, rfl⟩
  | cons it items ih =>
    have h1 := mergePoint_keep it.1 it.2.1 it.2.2 acc.1 acc.2 hlen j hj (hnm it (List.mem_cons_self))
    have hl := mergePoint_length it.1 it.2.1 it.2.2 acc.1 acc.2 hlen
    have hj' : j < (mergePoint it.1 it.2.1 it.2.2 acc.1 acc.2).2.length := by
      rcases mergePoint_nodes it.1 it.2.1 it.2.2 acc.1 acc.2 hlen with h | h
      · rw [h]; exact hj
      · rw [h, List.length_append]; omega
    have hget : (mergePoint it.1 it.2.1 it.2.2 acc.1 acc.2).2[j] = acc.2[j] := by
      have := h1.2
      rw [List.getElem?_eq_getElem hj', List.getElem?_eq_getElem hj] at this
      exact Option.some.inj this
    have := ih (mergePoint it.1 it.2.1 it.2.2 acc.1 acc.2) hl hj' (by
      intro it' hit'
      rw [hget]
      exact hnm it' (List.mem_cons_of_mem _ hit'))
    show (mergeList items (mergePoint it.1 it.2.1 it.2.2 acc.1 acc.2)).1[j]? = _ ∧ (mergeList items (mergePoint it.1 it.2.1 it.2.2 acc.1 acc.2)).2[j]? = _
    rw [this.1, this.2]
    exact h1

end generic

/-! ## Part 2: ordered fields -/
section field
variable {F : Type} [Field F] [LinearOrder F] [IsStrictOrderedRing F] (T : Transc F)

theorem lit_one_nat : @OfNat.ofNat F 1 (@Scalar.instOfNat F (fieldScalar T) 1) = (1 : F) := by
  show ((1 : ℕ) : F) = 1
  exact Nat.cast_one
theorem lit_zero_nat : @OfNat.ofNat F 0 (@Scalar.instOfNat F (fieldScalar T) 0) = (0 : F) := by
  show ((0 : ℕ) : F) = 0
  exact Nat.cast_zero
theorem lit_one_dec : @OfScientific.ofScientific F (@Scalar.instOfScientific F (fieldScalar T)) 10 true 1 = (1 : F) := by
  show ((OfScientific.ofScientific 10 true 1 : ℚ) : F) = 1
  norm_num
theorem lit_1e4 : @OfScientific.ofScientific F (@Scalar.instOfScientific F (fieldScalar T)) 1 false 4 = (10000 : F) := by
  show ((OfScientific.ofScientific 1 false 4 : ℚ) : F) = 10000
  norm_num

/-- the `(x, y)` part of a `[x, y, value]` row -/
def P3.xy (q : P3 F) : P2 F := ⟨q.x, q.y⟩

theorem Tri.c6_field (t : Tri F) : @Tri.c6 F (fieldScalar T) t = crossP t.p0.xy t.p2.xy t.p1.xy := by
  unfold Tri.c6 Tri.precompute crossP P3.xy
  simp only
  ring
theorem Tri.sNum_field (t : Tri F) (p : P2 F) : @Tri.sNum F (fieldScalar T) t p = crossP t.p0.xy t.p2.xy p := by
  unfold Tri.sNum Tri.precompute crossP P3.xy
  simp only
  ring
theorem Tri.tNum_field (t : Tri F) (p : P2 F) : @Tri.tNum F (fieldScalar T) t p = crossP t.p1.xy t.p0.xy p := by
  unfold Tri.tNum Tri.precompute crossP P3.xy
  simp only
  ring
theorem Tri.rest_field (t : Tri F) (p : P2 F) :
    @Tri.c6 F (fieldScalar T) t - @Tri.sNum F (fieldScalar T) t p - @Tri.tNum F (fieldScalar T) t p = crossP t.p2.xy t.p1.xy p := by
  rw [Tri.c6_field, Tri.sNum_field, Tri.tNum_field]
  unfold crossP P3.xy
  simp only
  ring

theorem Tri.interp_field (t : Tri F) (p : P2 F) (h6 : @Tri.c6 F (fieldScalar T) t ≠ 0) :
    @Tri.interp F (fieldScalar T) t p =
      (t.p0.z * (@Tri.c6 F (fieldScalar T) t - @Tri.sNum F (fieldScalar T) t p - @Tri.tNum F (fieldScalar T) t p)
        + t.p1.z * @Tri.sNum F (fieldScalar T) t p + t.p2.z * @Tri.tNum F (fieldScalar T) t p) / @Tri.c6 F (fieldScalar T) t := by
  have h7 : (@Tri.precompute F (fieldScalar T) t).c7 = 1 / @Tri.c6 F (fieldScalar T) t := by
    show _ / _ = _
    rw [lit_one_dec]; rfl
  unfold Tri.interp
  simp only [h7, lit_one_nat]
  field_simp

theorem Tri.accepts_field (t : Tri F) (p : P2 F) :
    @Tri.Accepts F (fieldScalar T) t p ↔
      (-(10000 * T.eps) ≤ @Tri.sNum F (fieldScalar T) t p ∧ -(10000 * T.eps) ≤ @Tri.tNum F (fieldScalar T) t p ∧
        @Tri.sNum F (fieldScalar T) t p + @Tri.tNum F (fieldScalar T) t p - @Tri.c6 F (fieldScalar T) t
          ≤ @Tri.c6 F (fieldScalar T) t * 10000 * T.eps) := by
  unfold Tri.Accepts
  simp only [lit_1e4, ge_iff_le, neg_mul]
  rfl

/-- weighted averages with weights that may be slightly negative -/
theorem wavg_lower (z0 z1 z2 w0 w1 w2 lo hi b0 b1 b2 : F)
    (l0 : lo ≤ z0) (l1 : lo ≤ z1) (l2 : lo ≤ z2) (u0 : z0 ≤ hi) (u1 : z1 ≤ hi) (u2 : z2 ≤ hi)
    (hw0 : -b0 ≤ w0) (hw1 : -b1 ≤ w1) (hw2 : -b2 ≤ w2) (hb0 : 0 ≤ b0) (hb1 : 0 ≤ b1) (hb2 : 0 ≤ b2) :
    lo * (w0 + w1 + w2) - (hi - lo) * (b0 + b1 + b2) ≤ z0 * w0 + z1 * w1 + z2 * w2 := by
  have a0 := mul_nonneg (sub_nonneg.mpr l0) (by linarith : (0 : F) ≤ w0 + b0)
  have a1 := mul_nonneg (sub_nonneg.mpr l1) (by linarith : (0 : F) ≤ w1 + b1)
  have a2 := mul_nonneg (sub_nonneg.mpr l2) (by linarith : (0 : F) ≤ w2 + b2)
  have c0 := mul_nonneg (sub_nonneg.mpr u0) hb0
  have c1 := mul_nonneg (sub_nonneg.mpr u1) hb1
  have c2 := mul_nonneg (sub_nonneg.mpr u2) hb2
  linarith

theorem wavg_upper (z0 z1 z2 w0 w1 w2 lo hi b0 b1 b2 : F)
    (l0 : lo ≤ z0) (l1 : lo ≤ z1) (l2 : lo ≤ z2) (u0 : z0 ≤ hi) (u1 : z1 ≤ hi) (u2 : z2 ≤ hi)
    (hw0 : -b0 ≤ w0) (hw1 : -b1 ≤ w1) (hw2 : -b2 ≤ w2) (hb0 : 0 ≤ b0) (hb1 : 0 ≤ b1) (hb2 : 0 ≤ b2) :
    z0 * w0 + z1 * w1 + z2 * w2 ≤ hi * (w0 + w1 + w2) + (hi - lo) * (b0 + b1 + b2) := by
  have a0 := mul_nonneg (sub_nonneg.mpr u0) (by linarith : (0 : F) ≤ w0 + b0)
  have a1 := mul_nonneg (sub_nonneg.mpr u1) (by linarith : (0 : F) ≤ w1 + b1)
  have a2 := mul_nonneg (sub_nonneg.mpr u2) (by linarith : (0 : F) ≤ w2 + b2)
  have c0 := mul_nonneg (sub_nonneg.mpr l0) hb0
  have c1 := mul_nonneg (sub_nonneg.mpr l1) hb1
  have c2 := mul_nonneg (sub_nonneg.mpr l2) hb2
  linarith

/-- bounds on the interpolated value from bounds on the three un-normalised weights (`c6 > 0`) -/
theorem Tri.interp_bounds (t : Tri F) (p : P2 F) (lo hi b0 b1 b2 : F)
    (h6 : 0 < @Tri.c6 F (fieldScalar T) t)
    (l0 : lo ≤ t.p0.z) (l1 : lo ≤ t.p1.z) (l2 : lo ≤ t.p2.z) (u0 : t.p0.z ≤ hi) (u1 : t.p1.z ≤ hi) (u2 : t.p2.z ≤ hi)
    (hw0 : -b0 ≤ @Tri.c6 F (fieldScalar T) t - @Tri.sNum F (fieldScalar T) t p - @Tri.tNum F (fieldScalar T) t p)
    (hw1 : -b1 ≤ @Tri.sNum F (fieldScalar T) t p) (hw2 : -b2 ≤ @Tri.tNum F (fieldScalar T) t p)
    (hb0 : 0 ≤ b0) (hb1 : 0 ≤ b1) (hb2 : 0 ≤ b2) :
    lo - (hi - lo) * ((b0 + b1 + b2) / @Tri.c6 F (fieldScalar T) t) ≤ @Tri.interp F (fieldScalar T) t p ∧
    @Tri.interp F (fieldScalar T) t p ≤ hi + (hi - lo) * ((b0 + b1 + b2) / @Tri.c6 F (fieldScalar T) t) := by
  rw [Tri.interp_field T t p (ne_of_gt h6)]
  have hl := wavg_lower t.p0.z t.p1.z t.p2.z _ _ _ lo hi b0 b1 b2 l0 l1 l2 u0 u1 u2 hw0 hw1 hw2 hb0 hb1 hb2
  have hu := wavg_upper t.p0.z t.p1.z t.p2.z _ _ _ lo hi b0 b1 b2 l0 l1 l2 u0 u1 u2 hw0 hw1 hw2 hb0 hb1 hb2
  constructor
  · rw [le_div_iff₀ h6]
    have : (lo - (hi - lo) * ((b0 + b1 + b2) / @Tri.c6 F (fieldScalar T) t)) * @Tri.c6 F (fieldScalar T) t
        = lo * @Tri.c6 F (fieldScalar T) t - (hi - lo) * (b0 + b1 + b2) := by
      field_simp
    rw [this]; linarith
  · rw [div_le_iff₀ h6]
    have : (hi + (hi - lo) * ((b0 + b1 + b2) / @Tri.c6 F (fieldScalar T) t)) * @Tri.c6 F (fieldScalar T) t
        = hi * @Tri.c6 F (fieldScalar T) t + (hi - lo) * (b0 + b1 + b2) := by
      field_simp
    rw [this]; linarith

/-! ### `minMax` -/

theorem minMax_fold (vs : List F) (mn mx : F) :
    let r := @List.foldl (F × F) F (fun (x : F × F) v =>
      match x with
      | (mn, mx) =>
        let mn := if @LT.lt F (fieldScalar T).toLT v mn then v else mn
        let mx := if @GT.gt F (fieldScalar T).toLT v mx then v else mx
        (mn, mx)) (mn, mx) vs
    (r.1 ∈ mn :: vs ∧ r.1 ≤ mn ∧ ∀ x ∈ vs, r.1 ≤ x) ∧ (r.2 ∈ mx :: vs ∧ mx ≤ r.2 ∧ ∀ x ∈ vs, x ≤ r.2) := by
  induction vs generalizing mn mx with
  | nil => simp
  | cons v vs ih =>
    intro r
    have := ih (if v < mn then v else mn) (if v > mx then v else mx)
    simp only at this
    obtain ⟨⟨m1, m2, m3⟩, ⟨x1, x2, x3⟩⟩ := this
    have hr : r = List.foldl _ ((if v < mn then v else mn), (if v > mx then v else mx)) vs := rfl
    rw [← hr] at m1 m2 m3 x1 x2 x3
    refine ⟨⟨?_, ?_, ?_⟩, ⟨?_, ?_, ?_⟩⟩
    · rcases List.mem_cons.mp m1 with h | h
      · rw [h]; split
        · exact List.mem_cons_of_mem _ List.mem_cons_self
        · exact List.mem_cons_self
      · exact List.mem_cons_of_mem _ (List.mem_cons_of_mem _ h)
    · split at m2
      · rename_i h; exact le_of_lt (lt_of_le_of_lt m2 h)
      · exact m2
    · intro x hx
      rcases List.mem_cons.mp hx with h | h
      · rw [h]; split at m2
        · exact m2
        · rename_i hh; exact le_trans m2 (not_lt.mp hh)
      · exact m3 x h
    · rcases List.mem_cons.mp x1 with h | h
      · rw [h]; split
        · exact List.mem_cons_of_mem _ List.mem_cons_self
        · exact List.mem_cons_self
      · exact List.mem_cons_of_mem _ (List.mem_cons_of_mem _ h)
    · split at x2
      · rename_i h; exact le_of_lt (lt_of_lt_of_le h x2)
      · exact x2
    · intro x hx
      rcases List.mem_cons.mp hx with h | h
      · rw [h]; split at x2
        · exact x2
        · rename_i hh; exact le_trans (not_lt.mp hh) x2
      · exact x3 x h

theorem minMax_spec (v0 : F) (vs : List F) :
    ((@minMax F (fieldScalar T) v0 vs).1 ∈ v0 :: vs ∧ ∀ x ∈ v0 :: vs, (@minMax F (fieldScalar T) v0 vs).1 ≤ x) ∧
    ((@minMax F (fieldScalar T) v0 vs).2 ∈ v0 :: vs ∧ ∀ x ∈ v0 :: vs, x ≤ (@minMax F (fieldScalar T) v0 vs).2) := by
  obtain ⟨⟨m1, m2, m3⟩, ⟨x1, x2, x3⟩⟩ := minMax_fold T vs v0 v0
  refine ⟨⟨m1, ?_⟩, ⟨x1, ?_⟩⟩
  · intro x hx
    rcases List.mem_cons.mp hx with h | h
    · rw [h]; exact m2
    · exact m3 x h
  · intro x hx
    rcases List.mem_cons.mp hx with h | h
    · rw [h]; exact x2
    · exact x3 x h

/-! ### `approx` -/

theorem scalarMin_field (a b : F) : @Scalar.min F (fieldScalar T) a b = min a b := by
  show (if b < a then b else a) = min a b
  split
  · rename_i h; exact (min_eq_right (le_of_lt h)).symm
  · rename_i h; exact (min_eq_left (not_lt.mp h)).symm

theorem approx_field (a b : F) :
    @approx F (fieldScalar T) a b = true ↔ |a - b| < |min a b| * T.eps * 10000 := by
  unfold approx
  rw [decide_eq_true_iff, fabs_eq_abs, fabs_eq_abs, scalarMin_field, lit_1e4]
  rfl

theorem approx_self_iff (heps : 0 < T.eps) (a : F) : @approx F (fieldScalar T) a a = true ↔ a ≠ 0 := by
  rw [approx_field, sub_self, abs_zero, min_self]
  constructor
  · intro h ha; rw [ha, abs_zero, zero_mul, zero_mul] at h; exact lt_irrefl _ h
  · intro ha
    have : 0 < |a| := abs_pos.mpr ha
    positivity

theorem approx_zero_zero : @approx F (fieldScalar T) 0 0 = false := by
  rw [Bool.eq_false_iff]
  intro h
  rw [approx_field] at h
  simp at h

/-- with `1e4·ε ≤ 1` nothing is `approx`-equal to zero -/
theorem approx_zero (hsmall : T.eps * 10000 ≤ 1) (c : F) :
    @approx F (fieldScalar T) 0 c = false ∧ @approx F (fieldScalar T) c 0 = false := by
  have key : ¬ (|c| < |min 0 c| * T.eps * 10000) := by
    intro h
    have h1 : |min 0 c| ≤ |c| := by
      rcases le_total 0 c with hc | hc
      · rw [min_eq_left hc, abs_zero]; exact abs_nonneg _
      · rw [min_eq_right hc]
    have h2 : |min 0 c| * T.eps * 10000 ≤ |c| := by
      calc |min 0 c| * T.eps * 10000 = |min 0 c| * (T.eps * 10000) := by ring
        _ ≤ |min 0 c| * 1 := mul_le_mul_of_nonneg_left hsmall (abs_nonneg _)
        _ = |min 0 c| := mul_one _
        _ ≤ |c| := h1
    exact absurd h (not_lt.mpr h2)
  constructor
  · rw [Bool.eq_false_iff]; intro h
    rw [approx_field, zero_sub, abs_neg] at h
    exact key h
  · rw [Bool.eq_false_iff]; intro h
    rw [approx_field, sub_zero, min_comm] at h
    exact key h
end field

/-- a `Transc` with a chosen `ε` and dummy libm members (identity / zero); only for `example`s -/
def c11Transc {F : Type} [Zero F] (e : F) : Transc F :=
  { sqrt := id, exp := id, log := id, sin := id, cos := id, tan := id, asin := id, acos := id, atan := id, tanh := id,
    erfc := id, floor := id, ceil := id, round := id, atan2 := fun a _ => a, pow := fun a _ => a, fmod := fun a _ => a,
    pi := 0, eps := e, dblMin := 0, dblMax := 0, inf := 0 }

end Gwb
