/-
Division / domain audit (C13) of the two slab-only temperature models, `MassConserving.get` and `SlabPlateModel.get`
(`Model/Models/SlabTemp.lean`), over a linearly ordered field `F` (`fieldScalar T`).

Every divisor and every `sqrt` argument of the two functions (and of what they call: `effectiveTrenchAndPlateAges`,
`heatContentSeries`, `analyticPlateSeries`, `MassConserving.analytic`, `MassConserving.profile`, `splineTangents`,
`slabPlateSeries`) is listed below as an expression of the model's members and of the query, and shown non-zero / in the
domain under `MassConserving.SafeParams`, `MassConserving.SafeQuery`, `SlabPlateModel.SafeParams`.
Laws of libm members are the explicit bundle `SlabDivLaws`.
-/
import GwbVerif.Proofs.ModelInstances
namespace Gwb
open Scalar
set_option linter.unusedSectionVars false
variable {F : Type} [Field F] [LinearOrder F] [IsStrictOrderedRing F]

/-- what the audit assumes of libm: `π > 0`, `sqrt` positive on positives, `erfc > 0`, `pow(x, 2) ≥ 0` -/
structure SlabDivLaws (T : Transc F) : Prop where
  pi_pos : 0 < T.pi
  sqrt_pos : ∀ x, 0 < x → 0 < T.sqrt x
  erfc_pos : ∀ x, 0 < T.erfc x
  pow_two_nonneg : ∀ x, 0 ≤ T.pow x 2

/-- The parameter ranges under which `mass conserving` never divides by zero.  None of them is imposed by the schema
(`Types::Double` has no range) except `npoints_pos` (`WBAssertThrow(spline_n_points >= 1)`).
* `kappa_pos`     excludes `"thermal diffusivity": 0` (or the `-1` sentinel with a world value `0`): `k/κ`, `1/(πκ)`, `age/(κπ)`;
                  a negative value makes `sqrt (age/(κπ))` leave its domain;
* `cp_ne`         excludes `"specific heat": 0` (or sentinel + world value 0): `αgz/cp`, `2ρcp(…)`;
* `density_ne`    excludes `"density": 0`: `2ρcp(…)`;
* `mx_pos`        excludes `"max distance slab top": 0`: `adjusted_distance / max_depth`, `… / max_depth` inside the plate-model sums;
* `coupling_ne_zero`, `coupling_ne_660`  exclude `"coupling depth": 0` and `660e3`: `subfact·coupling`, `subfact·(660e3 − coupling)`;
* `taper_ne`      excludes `"taper distance": 0`: `(along − start)/taper`;
* `npoints_pos`   `1.0 / spline_n_points` (parser guard). -/
structure MassConserving.SafeParams (m : MassConserving F) : Prop where
  kappa_pos : 0 < m.kappa
  cp_ne : m.cp ≠ 0
  density_ne : m.density ≠ 0
  mx_pos : 0 < m.mx
  coupling_ne_zero : m.couplingDepth ≠ 0
  coupling_ne_660 : m.couplingDepth ≠ 660000
  taper_ne : m.taperDistance ≠ 0
  npoints_pos : 0 < m.splineNPoints

/-- What is assumed of the ridge search result and of the hit (`sv`, `sub` in m/yr; `dr` = distance to the ridge).
* `sv_ne`      excludes `"spreading velocity": 0` (`(dr + along)/sv`);
* `sub_pos`    excludes `"subducting velocity": 0` (`along/sub`; the code tests `sub ≥ 0` only);
* `along_nonneg` holds for every hit of a slab (`coversBody`: `a ≥ 0`);
* `age_guard`  is the `WBAssertThrow(age_at_trench >= 0)` of `calculate_effective_trench_and_plate_ages`;
* `off_ridge`  excludes a trench on the ridge queried at `along = 0` (effective plate age 0: `x / (2·sqrt(κ·0))`). -/
structure MassConserving.SafeQuery (sv sub dr along : F) : Prop where
  sv_ne : sv ≠ 0
  sub_pos : 0 < sub
  along_nonneg : 0 ≤ along
  age_guard : 0 ≤ (dr + along) / sv - along / sub
  off_ridge : dr + along ≠ 0

/-- slab `plate model`:
* `conductivity_ne`  excludes `"thermal conductivity": 0` (`R = … / (2k)`);
* `cp_ne`            excludes `"specific heat": 0` with adiabatic heating (`αgz/cp`);
* `mx_pos`, `thickness_pos`  exclude `"max distance slab top" ≤ 0` and a non-positive local thickness: `d/thickness_local`,
                     `a/thickness_local` with `thickness_local = min(local_thickness, max_depth)`. -/
structure SlabPlateModel.SafeParams (m : SlabPlateModel F) (localThickness : F) : Prop where
  conductivity_ne : m.conductivity ≠ 0
  cp_ne : m.cp ≠ 0
  mx_pos : 0 < m.mx
  thickness_pos : 0 < localThickness

/-! ### constants -/

theorem secondsInYear_field (T : Transc F) : @secondsInYear F (fieldScalar T) = 31557600 := by
  unfold secondsInYear
  rw [lit_sci T 600 true 1, lit_sci T 240 true 1, lit_sci T 36525 true 2]
  norm_num

theorem plateSecondsInYear_field (T : Transc F) :
    (@OfScientific.ofScientific F (@Scalar.instOfScientific F (fieldScalar T)) 36525 true 2) *
      (@OfScientific.ofScientific F (@Scalar.instOfScientific F (fieldScalar T)) 240 true 1) *
      (@OfScientific.ofScientific F (@Scalar.instOfScientific F (fieldScalar T)) 600 true 1) *
      (@OfScientific.ofScientific F (@Scalar.instOfScientific F (fieldScalar T)) 600 true 1) = 31557600 := by
  rw [lit_sci T 600 true 1, lit_sci T 240 true 1, lit_sci T 36525 true 2]
  norm_num

/-! ### ages -/

/-- the effective plate age is positive once the code's guard has passed -/
theorem mc_effAge_pos {sv sub dr along : F} (q : MassConserving.SafeQuery sv sub dr along) : 0 < (dr + along) / sv := by
  have h1 : 0 ≤ along / sub := div_nonneg q.along_nonneg q.sub_pos.le
  have h2 : 0 ≤ (dr + along) / sv := by linarith [q.age_guard]
  exact lt_of_le_of_ne h2 (Ne.symm (div_ne_zero q.off_ridge q.sv_ne))

/-- the clamps `min (max x a) b` stay above `a` -/
theorem clamp_ge (x a b : F) (hab : a ≤ b) : a ≤ min (max x a) b := le_min (le_max_right _ _) hab

/-- `subfact = 0.3 + vsubfact + agefact ≥ 0.5` -/
theorem mc_subfact_pos (vs af : F) : (1 : F) / 2 ≤ 3 / 10 + min (max vs (1 / 10)) (35 / 100) + min (max af (1 / 10)) 1 := by
  have h1 := clamp_ge vs (1 / 10 : F) (35 / 100) (by norm_num)
  have h2 := clamp_ge af (1 / 10 : F) 1 (by norm_num)
  linarith

/-! ### heat content -/

/-- argument of the `sqrt` inside the plate-model sums: `sv²·mx²/4/κ/κ + n²π²` with `n ≥ 1` -/
theorem mc_series_sqrt_arg_pos (T : Transc F) (L : SlabDivLaws T) (sv mx κ : F) (hκ : 0 < κ) (n : ℕ) (hn : 1 ≤ n) :
    0 < sv * sv * mx * mx / 4 / κ / κ + (n : F) * (n : F) * T.pi * T.pi := by
  have hπ := L.pi_pos
  have hn' : (0 : F) < (n : F) := by exact_mod_cast hn
  have h1 : 0 ≤ sv * sv * mx * mx / 4 / κ / κ := by
    have : sv * sv * mx * mx / 4 / κ / κ = (sv * mx / (2 * κ)) * (sv * mx / (2 * κ)) := by
      field_simp; ring
    rw [this]; exact mul_self_nonneg _
  have h2 : 0 < (n : F) * (n : F) * T.pi * T.pi := by positivity
  linarith

/-- argument of the half-space `sqrt (age / (κπ))` -/
theorem mc_halfspace_sqrt_arg_nonneg (T : Transc F) (L : SlabDivLaws T) (age κ : F) (hκ : 0 < κ) (hage : 0 ≤ age) :
    κ * T.pi ≠ 0 ∧ 0 ≤ age / (κ * T.pi) := by
  have h : 0 < κ * T.pi := mul_pos hκ L.pi_pos
  exact ⟨ne_of_gt h, div_nonneg hage h.le⟩

/-! ### analytic profile, top side -/

theorem mc_timeTop_pos (T : Transc F) (L : SlabDivLaws T) (κ x : F) (hκ : 0 < κ) :
    0 < (1 / (T.pi * κ)) * T.pow x 2 + 1 / 10 ^ 16 := by
  have h1 := L.pow_two_nonneg x
  have h2 : 0 < T.pi * κ := mul_pos L.pi_pos hκ
  have h3 : 0 ≤ (1 / (T.pi * κ)) * T.pow x 2 := mul_nonneg (one_div_pos.2 h2).le h1
  have h4 : (0 : F) < 1 / 10 ^ 16 := by positivity
  linarith

/-- every divisor and the `sqrt` argument of the branch `adjusted_distance < 0` of `get_temperature_analytic` -/
theorem mc_analytic_top (T : Transc F) (L : SlabDivLaws T) (ρ cp κ minT old t : F) (hρ : ρ ≠ 0) (hcp : cp ≠ 0) (hκ : 0 < κ)
    (hold : minT - old + 1 / 10 ^ 16 ≠ 0) (ht : 0 < t) :
    T.pi * κ ≠ 0 ∧ 2 * ρ * cp * (minT - old + 1 / 10 ^ 16) ≠ 0 ∧
      0 < T.pi * κ * t ∧ 2 * ρ * cp * T.sqrt (T.pi * κ * t) ≠ 0 ∧ 4 * κ * t ≠ 0 := by
  have h2 : 0 < T.pi * κ := mul_pos L.pi_pos hκ
  have h3 : 0 < T.pi * κ * t := mul_pos h2 ht
  have h4 := L.sqrt_pos _ h3
  refine ⟨ne_of_gt h2, ?_, h3, ?_, ?_⟩
  · exact mul_ne_zero (mul_ne_zero (mul_ne_zero two_ne_zero hρ) hcp) hold
  · exact mul_ne_zero (mul_ne_zero (mul_ne_zero two_ne_zero hρ) hcp) (ne_of_gt h4)
  · have : 0 < 4 * κ * t := by positivity
    exact ne_of_gt this

/-! ### analytic profile, bottom side -/

/-- plate-model reference, inside `0 ≤ adj < max_depth` -/
theorem mc_analytic_plate (T : Transc F) (L : SlabDivLaws T) (sv mx κ adj : F) (hκ : 0 < κ) (h0 : 0 ≤ adj) (h1 : adj < mx) (i : ℕ) (hi : 1 ≤ i) :
    mx ≠ 0 ∧ (i : F) * T.pi ≠ 0 ∧ 2 * κ ≠ 0 ∧ 4 * κ * κ ≠ 0 ∧
      0 < (sv * sv * mx * mx) / (4 * κ * κ) + (i : F) * (i : F) * T.pi * T.pi := by
  have hπ := L.pi_pos
  have hi' : (0 : F) < (i : F) := by exact_mod_cast hi
  have hmx : 0 < mx := lt_of_le_of_lt h0 h1
  refine ⟨ne_of_gt hmx, ne_of_gt (mul_pos hi' hπ), ne_of_gt (by positivity), ne_of_gt (by positivity), ?_⟩
  have h1 : 0 ≤ (sv * sv * mx * mx) / (4 * κ * κ) := by
    have : (sv * sv * mx * mx) / (4 * κ * κ) = (sv * mx / (2 * κ)) * (sv * mx / (2 * κ)) := by
      field_simp; ring
    rw [this]; exact mul_self_nonneg _
  have h2 : 0 < (i : F) * (i : F) * T.pi * T.pi := by positivity
  linarith

/-- half-space reference: `adj / (2·sqrt(κ·age))` -/
theorem mc_analytic_halfspace (T : Transc F) (L : SlabDivLaws T) (κ age : F) (hκ : 0 < κ) (hage : 0 < age) :
    0 < κ * age ∧ 2 * T.sqrt (κ * age) ≠ 0 := by
  have h := mul_pos hκ hage
  have := L.sqrt_pos _ h
  exact ⟨h, ne_of_gt (by positivity)⟩

/-! ### the monotone spline -/

/-- `splineTangents`: `2·m0·m1/(m0 + m1)` is evaluated only past `m0·m1 ≤ 0` -/
theorem spline_tangent_den_ne (m0 m1 : F) (h : ¬ m0 * m1 ≤ 0) : m0 + m1 ≠ 0 := by
  intro h0
  have : m1 = -m0 := by linarith
  subst this
  apply h
  have := mul_self_nonneg m0
  nlinarith

/-! ### slab `plate model` -/

theorem pm_thickness_pos (T : Transc F) (lt mx : F) (h1 : 0 < lt) (h2 : 0 < mx) : 0 < @Scalar.min F (fieldScalar T) lt mx := by
  rw [smin_eq]; exact lt_min h1 h2

/-- base of `pow(R² + i²π², 0.5)` -/
theorem pm_pow_base_pos (T : Transc F) (L : SlabDivLaws T) (r : F) (i : ℕ) (hi : 1 ≤ i) :
    0 < r * r + ((i * i : ℕ) : F) * T.pi * T.pi := by
  have hπ := L.pi_pos
  have hi' : (0 : F) < ((i * i : ℕ) : F) := by exact_mod_cast Nat.mul_pos hi hi
  have := mul_self_nonneg r
  have : 0 < ((i * i : ℕ) : F) * T.pi * T.pi := by positivity
  linarith

/-! ### satisfiability of the law bundle -/

theorem toy_slabDivLaws : SlabDivLaws toyTransc where
  pi_pos := by norm_num [toyTransc]
  sqrt_pos _ hx := hx
  erfc_pos x := by
    simp only [toyTransc]
    split_ifs with h
    · norm_num
    · have : 0 < x := not_le.mp h
      positivity
  pow_two_nonneg x := mul_self_nonneg x

theorem real_slabDivLaws : SlabDivLaws realTransc where
  pi_pos := Real.pi_pos
  sqrt_pos x hx := Real.sqrt_pos.mpr hx
  erfc_pos _ := Real.exp_pos _
  pow_two_nonneg x := mul_self_nonneg x

end Gwb
