/-
Helpers for C07 (surface bounding box of slabs and faults): the horizontal twin of the unit-speed argument of `Proofs/CullDepth.lean`.

Plane frame of `distance_point_from_curved_planes`: x horizontal, y up; the walk starts at `x0` (`= begin0.x = 0` in the code's
frame) and every straight piece of length `len` and dip `θ` ends `len·cos θ` further, `|len·cos θ| ≤ len`.  Hence, by induction over
`segStates`, the end of the walk after `k` pieces is horizontally at most the accumulated length away from `x0`, and a check point
whose foot the "closest so far" block recorded (`found`) lies horizontally at most `along + |distance|` away from `x0`
(`HorizInv`).  Only straight pieces (`|θ_top − θ_bottom| < 1e-8`) are covered.

Also: `minBy` / `maxBy` (folds of `std::min_element` / `std::max_element`) and the `std::min` / `std::max` folds over the control
points bound every coordinate, the Cartesian form of `LineFeature.bbox` (`bbox_cartesian`: a box containing `f.boxPoints`, the trench
coordinates and the control points, plus the buffer), `BBox.inside` for a point between the corners, the convex-hull property of the
cubic Bezier pieces (`bernstein_between`; `bernstein_coord_bulge`: a piece whose control points are within `r` of its end points
leaves the box of its end points by at most `3/4·r`; with the library's `r = 0.2·chord` that is `0.15·chord`), and the box as it was
before the upstream repair (`LineFeature.bboxOld`: trench coordinates only — its buffer did not contain the bulge).
-/
import GwbVerif.Proofs.CullDepth
import GwbVerif.Proofs.BezierCurve
namespace Gwb
open Scalar
set_option linter.unusedSectionVars false
set_option linter.unusedVariables false

section field
variable {F : Type} [Field F] [LinearOrder F] [IsStrictOrderedRing F] (T : Transc F)

/-! ### the horizontal invariant of the walk -/

theorem planeLaws_abs_sin_le_one (L : PlaneLaws T) (θ : F) : |T.sin θ| ≤ 1 := by
  rw [abs_le]
  constructor
  · nlinarith [L.sin_sq_add_cos_sq θ, mul_self_nonneg (T.cos θ), mul_self_nonneg (T.sin θ + 1)]
  · nlinarith [L.sin_sq_add_cos_sq θ, mul_self_nonneg (T.cos θ), mul_self_nonneg (T.sin θ - 1)]

/-- a point with along-dip coordinate `a ≥ 0` and normal distance `d` from a piece starting at `b` lies horizontally at most
`a + |d|` away from `b` -/
theorem point_horiz_bound (L : PlaneLaws T) (b c : P2 F) (θ : F) (ha : 0 ≤ alongDip T b c θ) :
    |c.x - b.x| ≤ alongDip T b c θ + |belowDip T b c θ| := by
  have hs := L.sin_sq_add_cos_sq θ
  have e : c.x - b.x = alongDip T b c θ * T.cos θ - belowDip T b c θ * T.sin θ := by
    unfold alongDip belowDip
    linear_combination (b.x - c.x) * hs
  have h1 : |alongDip T b c θ * T.cos θ| ≤ alongDip T b c θ := by
    rw [abs_mul, abs_of_nonneg ha]
    have := mul_le_mul_of_nonneg_left (planeLaws_abs_cos_le_one T L θ) ha
    rwa [mul_one] at this
  have h2 : |belowDip T b c θ * T.sin θ| ≤ |belowDip T b c θ| := by
    rw [abs_mul]
    have := mul_le_mul_of_nonneg_left (planeLaws_abs_sin_le_one T L θ) (abs_nonneg (belowDip T b c θ))
    rwa [mul_one] at this
  rw [e]
  exact le_trans (abs_sub _ _) (add_le_add h1 h2)

/-- **the horizontal invariant of the walk** for a check point `c` and the abscissa `x0` the walk started at: the current end of
the walk is at most the accumulated length away from `x0`; if a foot has been recorded, the check point is at most
`along + |distance|` away from `x0` -/
structure HorizInv (x0 : F) (c : P2 F) (s : SegState F) : Prop where
  endX : |s.endSeg.x - x0| ≤ s.totalLength
  hit : s.found = true → |c.x - x0| ≤ s.along + |s.distance|

/-- one straight, non-skipped piece preserves the horizontal invariant -/
theorem segmentStep_horizInv (L : PlaneLaws T) (dm : DepthMethod) (onlyPositive : Bool) (sr fraction : F) (c : P2 F)
    (angCur angNext : P2 F) (lenCur lenNext : F) (i : Nat) (s : SegState F) (x0 : F) (hinv : HorizInv x0 c s)
    (hstraight : |@segAngTop F (fieldScalar T) dm fraction angCur angNext i (@segPre F (fieldScalar T) dm i s) -
        @segAngBot F (fieldScalar T) fraction angCur angNext (@segPre F (fieldScalar T) dm i s)| < 1 / 10 ^ 8)
    (heps : T.eps < |lenCur + fraction * (lenNext - lenCur)|) (hlen : 1 / 10 ^ 14 ≤ lenCur + fraction * (lenNext - lenCur))
    (hinf : lenCur + fraction * (lenNext - lenCur) < T.inf) :
    HorizInv x0 c (@segmentStep F (fieldScalar T) dm onlyPositive sr fraction c angCur angNext lenCur lenNext i s) := by
  have hpos : 0 < lenCur + fraction * (lenNext - lenCur) := lt_of_lt_of_le (by positivity) hlen
  have hnot : ¬ @LT.lt F (fieldScalar T).toLT (@lerpC F (fieldScalar T) lenCur lenNext fraction)
      (@OfScientific.ofScientific F (@Scalar.instOfScientific F (fieldScalar T)) 1 true 14) := by
    rw [lit_1em14]; exact not_lt.mpr hlen
  rw [@segmentStep_eq F (fieldScalar T)]
  dsimp only
  rw [if_neg hnot]
  generalize hs1 : @segPre F (fieldScalar T) dm i s = s1 at hstraight ⊢
  generalize hθ : @segAngTop F (fieldScalar T) dm fraction angCur angNext i s1 = θ at hstraight ⊢
  generalize hβ : @segAngBot F (fieldScalar T) fraction angCur angNext s1 = β at hstraight ⊢
  have hlerp : @lerpC F (fieldScalar T) lenCur lenNext fraction = lenCur + fraction * (lenNext - lenCur) := rfl
  rw [hlerp]
  generalize hl : lenCur + fraction * (lenNext - lenCur) = len at heps hlen hinf hpos ⊢
  have hb : s1.beginSeg = s1.endSeg := by
    rw [← hs1, @segPre_beginSeg F (fieldScalar T), @segPre_endSeg F (fieldScalar T)]
  have he : s1.endSeg = s.endSeg := by rw [← hs1]; exact @segPre_endSeg F (fieldScalar T) dm i s
  have ht : s1.totalLength = s.totalLength := by rw [← hs1]; exact @segPre_totalLength F (fieldScalar T) dm i s
  have hf : s1.found = s.found := by rw [← hs1]; exact @segPre_found F (fieldScalar T) dm i s
  have hal : s1.along = s.along := by rw [← hs1]; exact @segPre_along F (fieldScalar T) dm i s
  have hdi : s1.distance = s.distance := by rw [← hs1]; exact @segPre_distance F (fieldScalar T) dm i s
  obtain ⟨_, k2, k3, k4⟩ := segGeom_straight T L sr c θ β len s1 hb hstraight heps hpos
  rw [he] at k2 k3 k4
  generalize hg : @segGeom F (fieldScalar T) sr c θ β len s1 = g at k2 k3 k4 ⊢
  have gt : g.totalLength = s.totalLength := by rw [← hg, @segGeom_totalLength F (fieldScalar T), ht]
  have gf : g.found = s.found := by rw [← hg, @segGeom_found F (fieldScalar T), hf]
  have ga : g.along = s.along := by rw [← hg, @segGeom_along F (fieldScalar T), hal]
  have gd : g.distance = s.distance := by rw [← hg, @segGeom_distance F (fieldScalar T), hdi]
  obtain ⟨f1, f2, f3, f4, f5, f6⟩ := @segFinish_fields F (fieldScalar T) θ β len (@segClosest F (fieldScalar T) onlyPositive i θ β len g)
  have hcos : |len * T.cos θ| ≤ len := by
    rw [abs_mul, abs_of_pos hpos]
    have := mul_le_mul_of_nonneg_left (planeLaws_abs_cos_le_one T L θ) hpos.le
    rwa [mul_one] at this
  constructor
  · -- the end of the walk
    rw [f1, f6, @segClosest_endSeg F (fieldScalar T), @segClosest_totalLength F (fieldScalar T), k2, gt]
    have h0 := hinv.endX
    show |s.endSeg.x + len * T.cos θ - x0| ≤ s.totalLength + len
    have e : s.endSeg.x + len * T.cos θ - x0 = (s.endSeg.x - x0) + len * T.cos θ := by ring
    rw [e]
    exact le_trans (abs_add_le _ _) (add_le_add h0 hcos)
  · -- the recorded foot
    rw [f2, f3, f4]
    by_cases hc : @segClosestCond F (fieldScalar T) len g
    · obtain ⟨c1, c2, c3, c4⟩ := @segClosest_of_cond F (fieldScalar T) onlyPositive i θ β len g hc
      intro _
      by_cases hin : 0 ≤ alongDip T s.endSeg c θ ∧ alongDip T s.endSeg c θ ≤ len
      · obtain ⟨a1, a2, a3⟩ := k3 hin
        have habs : |(@segClosest F (fieldScalar T) onlyPositive i θ β len g).distance| = |belowDip T s.endSeg c θ| := by
          rw [c3, a2]
          cases onlyPositive with
          | true => simp only [if_true]; rw [fabs_eq_abs, abs_abs]
          | false => simp only [Bool.false_eq_true, if_false]
        rw [c2, habs, a1, gt]
        have h1 := point_horiz_bound T L s.endSeg c θ hin.1
        have h3 := hinv.endX
        have e : c.x - x0 = (c.x - s.endSeg.x) + (s.endSeg.x - x0) := by ring
        rw [e]
        have := abs_add_le (c.x - s.endSeg.x) (s.endSeg.x - x0)
        linarith
      · obtain ⟨a1, _, _⟩ := k4 hin
        exfalso
        have h2 : @LE.le F (fieldScalar T).toLE g.newAlong (@fabs F (fieldScalar T) len) := hc.2.1
        rw [fabs_eq_abs, a1, abs_of_pos hpos] at h2
        exact absurd hinf (not_lt.mpr h2)
    · rw [@segClosest_of_not F (fieldScalar T) onlyPositive i θ β len g hc, gf, ga, gd]
      exact hinv.hit

/-- the horizontal invariant holds along a straight walk -/
theorem segStates_horizInv (L : PlaneLaws T) (dm : DepthMethod) (onlyPositive : Bool) (sr fraction : F) (c : P2 F)
    (angsCur angsNext : List (P2 F)) (lensCur lensNext : List F) (s0 : SegState F) (x0 : F) (n : Nat)
    (h0 : HorizInv x0 c s0)
    (hw : StraightWalk T dm onlyPositive sr fraction c angsCur angsNext lensCur lensNext s0 n) (k : Nat) (hk : k ≤ n) :
    HorizInv x0 c (@segStates F (fieldScalar T) dm onlyPositive sr fraction c angsCur angsNext lensCur lensNext s0 k) := by
  induction k with
  | zero => exact h0
  | succ k ih =>
    obtain ⟨w1, w2, w3, w4⟩ := hw k (by omega)
    exact segmentStep_horizInv T L dm onlyPositive sr fraction c _ _ _ _ k _ x0 (ih (by omega)) w1 w2 w3 w4

/-- the state the walk starts from satisfies the horizontal invariant with `x0 = begin0.x` -/
theorem horizInv_start (c : P2 F) (s0 : SegState F) (hf : s0.found = false) (ht : s0.totalLength = 0) :
    HorizInv s0.endSeg.x c s0 := by
  constructor
  · rw [ht]; simp
  · intro h; rw [hf] at h; cases h

/-- **the model's segment loop over straight pieces**: if the loop recorded a foot (`found`), the check point lies horizontally at
most `along + |distance|` away from the abscissa the walk started at -/
theorem segmentLoop_horiz_bound (L : PlaneLaws T) (dm : DepthMethod) (onlyPositive : Bool) (sr fraction : F) (c : P2 F)
    (angsCur angsNext : List (P2 F)) (lensCur lensNext : List F) (s0 s : SegState F)
    (h1 : lensCur.length ≤ angsCur.length) (h2 : lensCur.length ≤ angsNext.length) (h3 : lensCur.length ≤ lensNext.length)
    (hf : s0.found = false) (ht : s0.totalLength = 0)
    (hw : StraightWalk T dm onlyPositive sr fraction c angsCur angsNext lensCur lensNext s0 lensCur.length)
    (hs : @segmentLoop F (fieldScalar T) dm onlyPositive sr fraction c angsCur angsNext lensCur lensNext (lensCur.length + 1) 0 s0 = .ok s)
    (hfound : s.found = true) :
    |c.x - s0.endSeg.x| ≤ s.along + |s.distance| := by
  have hloop := @segmentLoop_states F (fieldScalar T) dm onlyPositive sr fraction c angsCur angsNext lensCur lensNext s0 h1 h2 h3
    (lensCur.length + 1) 0 (Nat.zero_le _) (by omega)
  have e0 : @segStates F (fieldScalar T) dm onlyPositive sr fraction c angsCur angsNext lensCur lensNext s0 0 = s0 := rfl
  rw [e0, hs] at hloop
  cases hloop
  exact (segStates_horizInv T L dm onlyPositive sr fraction c angsCur angsNext lensCur lensNext s0 s0.endSeg.x lensCur.length
    (horizInv_start c s0 hf ht) hw lensCur.length le_rfl).hit hfound

/-! ### `std::min_element` / `std::max_element` -/

theorem foldl_minBy_le (rest : List F) (m0 : F) :
    rest.foldl (fun m v => if @LT.lt F (fieldScalar T).toLT v m then v else m) m0 ≤ m0 ∧
    ∀ v ∈ rest, rest.foldl (fun m v => if @LT.lt F (fieldScalar T).toLT v m then v else m) m0 ≤ v := by
  induction rest generalizing m0 with
  | nil => exact ⟨le_rfl, fun _ h => by cases h⟩
  | cons a t ih =>
    simp only [List.foldl_cons]
    obtain ⟨i1, i2⟩ := ih (if @LT.lt F (fieldScalar T).toLT a m0 then a else m0)
    have hstep : (if @LT.lt F (fieldScalar T).toLT a m0 then a else m0) ≤ m0 ∧
        (if @LT.lt F (fieldScalar T).toLT a m0 then a else m0) ≤ a := by
      split
      · rename_i h; exact ⟨le_of_lt h, le_rfl⟩
      · rename_i h; exact ⟨le_rfl, not_lt.mp h⟩
    refine ⟨le_trans i1 hstep.1, fun v hv => ?_⟩
    rcases List.mem_cons.1 hv with rfl | h
    · exact le_trans i1 hstep.2
    · exact i2 v h

theorem foldl_maxBy_ge (rest : List F) (m0 : F) :
    m0 ≤ rest.foldl (fun m v => if @LT.lt F (fieldScalar T).toLT m v then v else m) m0 ∧
    ∀ v ∈ rest, v ≤ rest.foldl (fun m v => if @LT.lt F (fieldScalar T).toLT m v then v else m) m0 := by
  induction rest generalizing m0 with
  | nil => exact ⟨le_rfl, fun _ h => by cases h⟩
  | cons a t ih =>
    simp only [List.foldl_cons]
    obtain ⟨i1, i2⟩ := ih (if @LT.lt F (fieldScalar T).toLT m0 a then a else m0)
    have hstep : m0 ≤ (if @LT.lt F (fieldScalar T).toLT m0 a then a else m0) ∧
        a ≤ (if @LT.lt F (fieldScalar T).toLT m0 a then a else m0) := by
      split
      · rename_i h; exact ⟨le_of_lt h, le_rfl⟩
      · rename_i h; exact ⟨le_rfl, not_lt.mp h⟩
    refine ⟨le_trans hstep.1 i1, fun v hv => ?_⟩
    rcases List.mem_cons.1 hv with rfl | h
    · exact le_trans hstep.2 i1
    · exact i2 v h

/-- `*std::min_element` is a lower bound of the list -/
theorem minBy_le (xs : List F) (m : F) (h : @minBy F (fieldScalar T) xs = .ok m) : ∀ v ∈ xs, m ≤ v := by
  cases xs with
  | nil => cases h
  | cons x rest =>
    unfold minBy at h
    cases h
    intro v hv
    obtain ⟨i1, i2⟩ := foldl_minBy_le T rest x
    rcases List.mem_cons.1 hv with rfl | hr
    · exact i1
    · exact i2 v hr

/-- `*std::max_element` is an upper bound of the list -/
theorem le_maxBy (xs : List F) (m : F) (h : @maxBy F (fieldScalar T) xs = .ok m) : ∀ v ∈ xs, v ≤ m := by
  cases xs with
  | nil => cases h
  | cons x rest =>
    unfold maxBy at h
    cases h
    intro v hv
    obtain ⟨i1, i2⟩ := foldl_maxBy_ge T rest x
    rcases List.mem_cons.1 hv with rfl | hr
    · exact i1
    · exact i2 v hr

/-! ### the Cartesian surface box -/

/-- the folds `std::min(m, v.x)` / `std::max(m, v.x)` over the control points, for any projection `g` -/
theorem foldl_minProj_le {α : Type} (g : α → F) (rest : List α) (m0 : F) :
    rest.foldl (fun m v => if @LT.lt F (fieldScalar T).toLT (g v) m then g v else m) m0 ≤ m0 ∧
    ∀ v ∈ rest, rest.foldl (fun m v => if @LT.lt F (fieldScalar T).toLT (g v) m then g v else m) m0 ≤ g v := by
  induction rest generalizing m0 with
  | nil => exact ⟨le_rfl, fun _ h => by cases h⟩
  | cons a t ih =>
    simp only [List.foldl_cons]
    obtain ⟨i1, i2⟩ := ih (if @LT.lt F (fieldScalar T).toLT (g a) m0 then g a else m0)
    have hstep : (if @LT.lt F (fieldScalar T).toLT (g a) m0 then g a else m0) ≤ m0 ∧
        (if @LT.lt F (fieldScalar T).toLT (g a) m0 then g a else m0) ≤ g a := by
      split
      · rename_i h; exact ⟨le_of_lt h, le_rfl⟩
      · rename_i h; exact ⟨le_rfl, not_lt.mp h⟩
    refine ⟨le_trans i1 hstep.1, fun v hv => ?_⟩
    rcases List.mem_cons.1 hv with rfl | h
    · exact le_trans i1 hstep.2
    · exact i2 v h

theorem foldl_maxProj_ge {α : Type} (g : α → F) (rest : List α) (m0 : F) :
    m0 ≤ rest.foldl (fun m v => if @LT.lt F (fieldScalar T).toLT m (g v) then g v else m) m0 ∧
    ∀ v ∈ rest, g v ≤ rest.foldl (fun m v => if @LT.lt F (fieldScalar T).toLT m (g v) then g v else m) m0 := by
  induction rest generalizing m0 with
  | nil => exact ⟨le_rfl, fun _ h => by cases h⟩
  | cons a t ih =>
    simp only [List.foldl_cons]
    obtain ⟨i1, i2⟩ := ih (if @LT.lt F (fieldScalar T).toLT m0 (g a) then g a else m0)
    have hstep : m0 ≤ (if @LT.lt F (fieldScalar T).toLT m0 (g a) then g a else m0) ∧
        g a ≤ (if @LT.lt F (fieldScalar T).toLT m0 (g a) then g a else m0) := by
      split
      · rename_i h; exact ⟨le_of_lt h, le_rfl⟩
      · rename_i h; exact ⟨le_rfl, not_lt.mp h⟩
    refine ⟨le_trans hstep.1 i1, fun v hv => ?_⟩
    rcases List.mem_cons.1 hv with rfl | h
    · exact le_trans hstep.2 i1
    · exact i2 v h

/-- the points the box is built from: the trench coordinates and the inner control points of every Bezier piece -/
def LineFeature.boxPoints {R : Type} (f : LineFeature R) : List (P2 R) := f.coords ++ f.bezier.control.flatMap (fun c => [c.1, c.2])

theorem mem_boxPoints_coord {R : Type} (f : LineFeature R) (p : P2 R) (h : p ∈ f.coords) : p ∈ f.boxPoints :=
  List.mem_append_left _ h
theorem mem_boxPoints_ctrl {R : Type} (f : LineFeature R) (c : P2 R × P2 R) (h : c ∈ f.bezier.control) :
    c.1 ∈ f.boxPoints ∧ c.2 ∈ f.boxPoints := by
  constructor
  · exact List.mem_append_right _ (List.mem_flatMap.2 ⟨c, h, by simp⟩)
  · exact List.mem_append_right _ (List.mem_flatMap.2 ⟨c, h, by simp⟩)

/-- the Cartesian bounding box: a box that contains the trench coordinates AND the control points of the trench curve (upstream
'fix: bounding box of slabs and faults ignored the bulge of the trench curve'), extended on every side by
`maximum_slab_thickness + maximum_total_slab_length` -/
theorem bbox_cartesian (f : LineFeature F) (coord : CoordSys F) (hs : coord.spherical = false) (box : BBox F)
    (h : @LineFeature.bbox F (fieldScalar T) f coord = .ok box) :
    ∃ minX maxX minY maxY, (∀ p ∈ f.boxPoints, minX ≤ p.x ∧ p.x ≤ maxX ∧ minY ≤ p.y ∧ p.y ≤ maxY) ∧
      box = ⟨⟨minX - (@LineFeature.maxThickness F (fieldScalar T) f + @LineFeature.maxTotalLength F (fieldScalar T) f),
              minY - (@LineFeature.maxThickness F (fieldScalar T) f + @LineFeature.maxTotalLength F (fieldScalar T) f)⟩,
             ⟨maxX + (@LineFeature.maxThickness F (fieldScalar T) f + @LineFeature.maxTotalLength F (fieldScalar T) f),
              maxY + (@LineFeature.maxThickness F (fieldScalar T) f + @LineFeature.maxTotalLength F (fieldScalar T) f)⟩⟩ := by
  unfold LineFeature.bbox at h
  cases h1 : @minBy F (fieldScalar T) (f.coords.map (·.x)) with
  | error e => rw [h1] at h; cases h
  | ok minX =>
    cases h2 : @maxBy F (fieldScalar T) (f.coords.map (·.x)) with
    | error e => rw [h1, h2] at h; cases h
    | ok maxX =>
      cases h3 : @minBy F (fieldScalar T) (f.coords.map (·.y)) with
      | error e => rw [h1, h2, h3] at h; cases h
      | ok minY =>
        cases h4 : @maxBy F (fieldScalar T) (f.coords.map (·.y)) with
        | error e => rw [h1, h2, h3, h4] at h; cases h
        | ok maxY =>
          rw [h1, h2, h3, h4] at h
          simp only [bind, Except.bind, hs, Bool.false_eq_true, if_false, pure, Except.pure, Except.ok.injEq] at h
          obtain ⟨a1, a2⟩ := foldl_minProj_le T (fun v : P2 F => v.x) (f.bezier.control.flatMap (fun c => [c.1, c.2])) minX
          obtain ⟨b1, b2⟩ := foldl_maxProj_ge T (fun v : P2 F => v.x) (f.bezier.control.flatMap (fun c => [c.1, c.2])) maxX
          obtain ⟨c1, c2⟩ := foldl_minProj_le T (fun v : P2 F => v.y) (f.bezier.control.flatMap (fun c => [c.1, c.2])) minY
          obtain ⟨d1, d2⟩ := foldl_maxProj_ge T (fun v : P2 F => v.y) (f.bezier.control.flatMap (fun c => [c.1, c.2])) maxY
          refine ⟨_, _, _, _, fun p hp => ?_, h.symm⟩
          rcases List.mem_append.1 hp with hp | hp
          · exact ⟨le_trans a1 (minBy_le T _ _ h1 p.x (List.mem_map.2 ⟨p, hp, rfl⟩)),
              le_trans (le_maxBy T _ _ h2 p.x (List.mem_map.2 ⟨p, hp, rfl⟩)) b1,
              le_trans c1 (minBy_le T _ _ h3 p.y (List.mem_map.2 ⟨p, hp, rfl⟩)),
              le_trans (le_maxBy T _ _ h4 p.y (List.mem_map.2 ⟨p, hp, rfl⟩)) d1⟩
          · exact ⟨a2 p hp, b2 p hp, c2 p hp, d2 p hp⟩

/-- **the box before the repair** (subducting_plate.cc / fault.cc up to /repo 2db42b53): the box of the trench coordinates alone,
with the same buffer -/
def LineFeature.bboxOld {R : Type} [Scalar R] (f : LineFeature R) (coord : CoordSys R) : Except Err (BBox R) := do
  let minX ← minBy (f.coords.map (·.x))
  let maxX ← maxBy (f.coords.map (·.x))
  let minY ← minBy (f.coords.map (·.y))
  let maxY ← maxBy (f.coords.map (·.y))
  let buffer := f.maxThickness + f.maxTotalLength
  if coord.spherical then
    let minCosInv := (1.0 : R) / cos minY
    let maxCosInv := (1.0 : R) / cos maxY
    let rInv := (1 : R) / coord.radius
    let bs := (2 : R) * Scalar.pi * buffer * rInv
    return ⟨⟨minX - bs * minCosInv, minY - bs⟩, ⟨maxX + bs * maxCosInv, maxY + bs⟩⟩
  else
    return ⟨⟨minX - buffer, minY - buffer⟩, ⟨maxX + buffer, maxY + buffer⟩⟩

/-- `point_inside` in closed form (Cartesian: one try, tolerance `ε·|width|`) -/
theorem bbox_inside_cartesian (b : BBox F) (p : P2 F) :
    @BBox.inside F (fieldScalar T) b false p = true ↔
      (b.lo.x - T.eps * |b.hi.x - b.lo.x| ≤ p.x ∧ p.x ≤ b.hi.x + T.eps * |b.hi.x - b.lo.x|) ∧
      (b.lo.y - T.eps * |b.hi.y - b.lo.y| ≤ p.y ∧ p.y ≤ b.hi.y + T.eps * |b.hi.y - b.lo.y|) := by
  unfold BBox.inside BBox.insideImpl
  simp only [Bool.false_eq_true, if_false, Bool.and_eq_true, Bool.not_eq_true', Bool.or_eq_false_iff, decide_eq_false_iff_not]
  sfield
  simp only [fabs_eq_abs, not_lt]

/-- a point between the corners passes `point_inside` (`ε ≥ 0`) -/
theorem bbox_inside_of_between (heps : 0 ≤ T.eps) (b : BBox F) (p : P2 F)
    (h1 : b.lo.x ≤ p.x) (h2 : p.x ≤ b.hi.x) (h3 : b.lo.y ≤ p.y) (h4 : p.y ≤ b.hi.y) :
    @BBox.inside F (fieldScalar T) b false p = true := by
  rw [bbox_inside_cartesian]
  have e1 := mul_nonneg heps (abs_nonneg (b.hi.x - b.lo.x))
  have e2 := mul_nonneg heps (abs_nonneg (b.hi.y - b.lo.y))
  exact ⟨⟨by linarith, by linarith⟩, ⟨by linarith, by linarith⟩⟩

/-! ### the convex-hull property of the cubic pieces -/

/-- a coordinate of a point of a piece (`0 ≤ t ≤ 1`) lies between any common bounds of that coordinate of the four control points -/
theorem bernstein_coord_between (a0 a1 a2 a3 lo hi t : F) (h0 : 0 ≤ t) (h1 : t ≤ 1)
    (l0 : lo ≤ a0) (l1 : lo ≤ a1) (l2 : lo ≤ a2) (l3 : lo ≤ a3) (u0 : a0 ≤ hi) (u1 : a1 ≤ hi) (u2 : a2 ≤ hi) (u3 : a3 ≤ hi) :
    lo ≤ (1 - t) ^ 3 * a0 + 3 * (1 - t) ^ 2 * t * a1 + 3 * (1 - t) * t ^ 2 * a2 + t ^ 3 * a3 ∧
    (1 - t) ^ 3 * a0 + 3 * (1 - t) ^ 2 * t * a1 + 3 * (1 - t) * t ^ 2 * a2 + t ^ 3 * a3 ≤ hi := by
  have hs : 0 ≤ 1 - t := by linarith
  have b0 : 0 ≤ (1 - t) ^ 3 := by positivity
  have b1 : 0 ≤ 3 * (1 - t) ^ 2 * t := by positivity
  have b2 : 0 ≤ 3 * (1 - t) * t ^ 2 := by positivity
  have b3 : 0 ≤ t ^ 3 := by positivity
  have hsum : (1 - t) ^ 3 + 3 * (1 - t) ^ 2 * t + 3 * (1 - t) * t ^ 2 + t ^ 3 = 1 := by ring
  constructor
  · have := mul_le_mul_of_nonneg_left l0 b0
    have := mul_le_mul_of_nonneg_left l1 b1
    have := mul_le_mul_of_nonneg_left l2 b2
    have := mul_le_mul_of_nonneg_left l3 b3
    have e : lo = ((1 - t) ^ 3 + 3 * (1 - t) ^ 2 * t + 3 * (1 - t) * t ^ 2 + t ^ 3) * lo := by rw [hsum, one_mul]
    rw [e]; linarith
  · have := mul_le_mul_of_nonneg_left u0 b0
    have := mul_le_mul_of_nonneg_left u1 b1
    have := mul_le_mul_of_nonneg_left u2 b2
    have := mul_le_mul_of_nonneg_left u3 b3
    have e : hi = ((1 - t) ^ 3 + 3 * (1 - t) ^ 2 * t + 3 * (1 - t) * t ^ 2 + t ^ 3) * hi := by rw [hsum, one_mul]
    rw [e]; linarith

/-- **convex hull**: a point of a piece (`0 ≤ t ≤ 1`) lies in every axis-parallel box that contains the four control points -/
theorem bernstein_between (p0 p1 c0 c1 lo hi : P2 F) (t : F) (h0 : 0 ≤ t) (h1 : t ≤ 1)
    (hp0 : lo.x ≤ p0.x ∧ p0.x ≤ hi.x ∧ lo.y ≤ p0.y ∧ p0.y ≤ hi.y) (hc0 : lo.x ≤ c0.x ∧ c0.x ≤ hi.x ∧ lo.y ≤ c0.y ∧ c0.y ≤ hi.y)
    (hc1 : lo.x ≤ c1.x ∧ c1.x ≤ hi.x ∧ lo.y ≤ c1.y ∧ c1.y ≤ hi.y) (hp1 : lo.x ≤ p1.x ∧ p1.x ≤ hi.x ∧ lo.y ≤ p1.y ∧ p1.y ≤ hi.y) :
    lo.x ≤ (bernstein p0 p1 c0 c1 t).x ∧ (bernstein p0 p1 c0 c1 t).x ≤ hi.x ∧
    lo.y ≤ (bernstein p0 p1 c0 c1 t).y ∧ (bernstein p0 p1 c0 c1 t).y ≤ hi.y := by
  obtain ⟨x1, x2⟩ := bernstein_coord_between p0.x c0.x c1.x p1.x lo.x hi.x t h0 h1 hp0.1 hc0.1 hc1.1 hp1.1 hp0.2.1 hc0.2.1 hc1.2.1 hp1.2.1
  obtain ⟨y1, y2⟩ := bernstein_coord_between p0.y c0.y c1.y p1.y lo.y hi.y t h0 h1 hp0.2.2.1 hc0.2.2.1 hc1.2.2.1 hp1.2.2.1
    hp0.2.2.2 hc0.2.2.2 hc1.2.2.2 hp1.2.2.2
  exact ⟨x1, x2, y1, y2⟩

/-- **the bulge**: if the two inner control values are within `r` of the two end values, the piece leaves the interval spanned by
its end values by at most `3/4·r` (`3t(1−t) ≤ 3/4`) -/
theorem bernstein_coord_bulge (a0 a1 a2 a3 lo hi r t : F) (h0 : 0 ≤ t) (h1 : t ≤ 1)
    (l0 : lo ≤ a0) (l3 : lo ≤ a3) (u0 : a0 ≤ hi) (u3 : a3 ≤ hi) (hr1 : |a1 - a0| ≤ r) (hr2 : |a2 - a3| ≤ r) :
    lo - 3 / 4 * r ≤ (1 - t) ^ 3 * a0 + 3 * (1 - t) ^ 2 * t * a1 + 3 * (1 - t) * t ^ 2 * a2 + t ^ 3 * a3 ∧
    (1 - t) ^ 3 * a0 + 3 * (1 - t) ^ 2 * t * a1 + 3 * (1 - t) * t ^ 2 * a2 + t ^ 3 * a3 ≤ hi + 3 / 4 * r := by
  have hs : 0 ≤ 1 - t := by linarith
  have hr0 : 0 ≤ r := le_trans (abs_nonneg _) hr1
  have b0 : 0 ≤ (1 - t) ^ 3 := by positivity
  have b1 : 0 ≤ 3 * (1 - t) ^ 2 * t := by positivity
  have b2 : 0 ≤ 3 * (1 - t) * t ^ 2 := by positivity
  have b3 : 0 ≤ t ^ 3 := by positivity
  have hsum : (1 - t) ^ 3 + 3 * (1 - t) ^ 2 * t + 3 * (1 - t) * t ^ 2 + t ^ 3 = 1 := by ring
  have hmid : 3 * (1 - t) ^ 2 * t + 3 * (1 - t) * t ^ 2 ≤ 3 / 4 := by nlinarith [mul_self_nonneg (t - 1 / 2)]
  obtain ⟨r1a, r1b⟩ := abs_le.1 hr1
  obtain ⟨r2a, r2b⟩ := abs_le.1 hr2
  have m1 : (3 * (1 - t) ^ 2 * t + 3 * (1 - t) * t ^ 2) * r ≤ 3 / 4 * r := mul_le_mul_of_nonneg_right hmid hr0
  constructor
  · have := mul_le_mul_of_nonneg_left l0 b0
    have := mul_le_mul_of_nonneg_left (show lo - r ≤ a1 by linarith) b1
    have := mul_le_mul_of_nonneg_left (show lo - r ≤ a2 by linarith) b2
    have := mul_le_mul_of_nonneg_left l3 b3
    have e : lo = ((1 - t) ^ 3 + 3 * (1 - t) ^ 2 * t + 3 * (1 - t) * t ^ 2 + t ^ 3) * lo := by rw [hsum, one_mul]
    have e2 : ((1 - t) ^ 3 + 3 * (1 - t) ^ 2 * t + 3 * (1 - t) * t ^ 2 + t ^ 3) * lo - (3 * (1 - t) ^ 2 * t + 3 * (1 - t) * t ^ 2) * r
        ≤ (1 - t) ^ 3 * a0 + 3 * (1 - t) ^ 2 * t * a1 + 3 * (1 - t) * t ^ 2 * a2 + t ^ 3 * a3 := by linarith
    rw [hsum, one_mul] at e2
    linarith
  · have := mul_le_mul_of_nonneg_left u0 b0
    have := mul_le_mul_of_nonneg_left (show a1 ≤ hi + r by linarith) b1
    have := mul_le_mul_of_nonneg_left (show a2 ≤ hi + r by linarith) b2
    have := mul_le_mul_of_nonneg_left u3 b3
    have e2 : (1 - t) ^ 3 * a0 + 3 * (1 - t) ^ 2 * t * a1 + 3 * (1 - t) * t ^ 2 * a2 + t ^ 3 * a3 ≤
        ((1 - t) ^ 3 + 3 * (1 - t) ^ 2 * t + 3 * (1 - t) * t ^ 2 + t ^ 3) * hi + (3 * (1 - t) ^ 2 * t + 3 * (1 - t) * t ^ 2) * r := by linarith
    rw [hsum, one_mul] at e2
    linarith

/-! ### membership ranges against the feature-wide maxima -/

/-- the membership ranges bound the two distances by the two maxima the buffer is made of -/
theorem lineInside_le_maxima (f : LineFeature F) (d a : F)
    (secCur secNext : List (Segment F)) (cur next : Segment F) (sf gf : F)
    (hm1 : secCur ∈ f.sections) (hm2 : secNext ∈ f.sections) (hc : cur ∈ secCur) (hn : next ∈ secNext)
    (hs0 : 0 ≤ sf) (hs1 : sf ≤ 1) (hg0 : 0 ≤ gf) (hg1 : gf ≤ 1)
    (hin : @lineInside F (fieldScalar T) f.isFault d a (@Segment.thLocal F (fieldScalar T) cur next sf gf)
      (@Segment.ttLocal F (fieldScalar T) cur next sf gf) (@maxLenLocal F (fieldScalar T) secCur secNext sf)) :
    0 ≤ a ∧ a ≤ @LineFeature.maxTotalLength F (fieldScalar T) f ∧ |d| ≤ @LineFeature.maxThickness F (fieldScalar T) f := by
  have m1 := maxLenLocal_le T f secCur secNext sf hm1 hm2 hs0 hs1
  have m2 := thLocal_le T f secCur secNext cur next sf gf hm1 hm2 hc hn hs0 hs1 hg0 hg1
  have m3 := maxThickness_nonneg T f
  unfold lineInside at hin
  cases hfault : f.isFault with
  | true =>
    rw [hfault] at hin
    simp only [if_true] at hin
    obtain ⟨i1, i2, i3⟩ := hin
    have i2' : 0 < a := by
      have := i2
      rw [s_gt, lit_0] at this
      exact this
    have i1' : |d| ≤ @Segment.thLocal F (fieldScalar T) cur next sf gf * (1 / 2) := by
      have := i1
      rw [fabs_eq_abs] at this
      have e : @HMul.hMul F F F (@instHMul F (fieldScalar T).toMul) (@Segment.thLocal F (fieldScalar T) cur next sf gf)
          (@OfScientific.ofScientific F (@Scalar.instOfScientific F (fieldScalar T)) 5 true 1) =
          @Segment.thLocal F (fieldScalar T) cur next sf gf * (1 / 2) := by
        rw [lit_0_5]
      rw [e] at this
      exact this
    refine ⟨i2'.le, le_trans i3 m1, ?_⟩
    have : @Segment.thLocal F (fieldScalar T) cur next sf gf * (1 / 2) ≤ @LineFeature.maxThickness F (fieldScalar T) f := by
      rcases le_total 0 (@Segment.thLocal F (fieldScalar T) cur next sf gf) with hp | hn'
      · linarith
      · linarith
    exact le_trans i1' this
  | false =>
    have htt := neg_maxThickness_le_ttLocal T f hfault secCur secNext cur next sf gf hm1 hm2 hc hn hs0 hs1 hg0 hg1
    rw [hfault] at hin
    simp only [Bool.false_eq_true, if_false] at hin
    obtain ⟨i1, i2, i3, i4⟩ := hin
    have i1' : @Segment.ttLocal F (fieldScalar T) cur next sf gf ≤ d := i1
    have i2' : d ≤ @Segment.thLocal F (fieldScalar T) cur next sf gf := i2
    have i3' : 0 ≤ a := by
      have := i3
      rw [s_ge, lit_0] at this
      exact this
    refine ⟨i3', le_trans i4 m1, ?_⟩
    rw [abs_le]
    exact ⟨le_trans htt i1', le_trans i2' m2⟩

/-- `|dx| ≤ sqrt(dx² + dy²)` and `|dy| ≤ sqrt(dx² + dy²)` from the two laws of `sqrt` -/
theorem abs_le_sqrt_sumsq (L : SqrtLaws T) (dx dy : F) :
    |dx| ≤ T.sqrt (dx * dx + dy * dy) ∧ |dy| ≤ T.sqrt (dx * dx + dy * dy) := by
  have h0 : 0 ≤ dx * dx + dy * dy := add_nonneg (mul_self_nonneg dx) (mul_self_nonneg dy)
  have h1 := L.sqrt_nonneg _ h0
  have h2 := L.sqrt_mul_sqrt _ h0
  generalize T.sqrt (dx * dx + dy * dy) = r at h1 h2
  constructor
  · by_contra hc
    rw [not_le] at hc
    have : r * r < |dx| * |dx| := mul_self_lt_mul_self h1 hc
    rw [abs_mul_abs_self] at this
    nlinarith [mul_self_nonneg dy]
  · by_contra hc
    rw [not_le] at hc
    have : r * r < |dy| * |dy| := mul_self_lt_mul_self h1 hc
    rw [abs_mul_abs_self] at this
    nlinarith [mul_self_nonneg dx]

end field
end Gwb
