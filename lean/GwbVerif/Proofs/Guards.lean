/-
Division guards (C13) over a linearly ordered field `F` (`fieldScalar T`): the denominator of each listed division of the
query code is non-zero under the test the code places in front of it.  Laws of libm members are explicit hypotheses.
-/
import GwbVerif.Proofs.WellFormed
import GwbVerif.Proofs.Models
import GwbVerif.Proofs.PolygonField
namespace Gwb
open Scalar
set_option linter.unusedSectionVars false
variable {F : Type} [Field F] [LinearOrder F] [IsStrictOrderedRing F]

/-! ### literals -/

theorem lit_1em14_pos (T : Transc F) :
    (0 : F) < @OfScientific.ofScientific F (@Scalar.instOfScientific F (fieldScalar T)) 1 true 14 := by
  rw [lit_sci]; norm_num

theorem lit_1em8_pos (T : Transc F) :
    (0 : F) < @OfScientific.ofScientific F (@Scalar.instOfScientific F (fieldScalar T)) 1 true 8 := by
  rw [lit_sci]; norm_num

/-! ### `upper_bound` tables: plume cross sections and the gaussian temperature -/

/-- interior branch (`0 < upper < size`): `fraction = (depth - xs[k-1]) / (xs[k] - xs[k-1])` divides by a positive number, and
`0 ≤ fraction < 1` — from what the binary search itself has tested, sorted list or not -/
theorem table_fraction_den_pos (T : Transc F) (xs : List F) (v : F) (k : Nat)
    (hk : @upperBound F (fieldScalar T) xs v (xs.length + 1) 0 xs.length = .ok k) (hpos : 0 < k)
    (dl dh : F) (hl : xs[k - 1]? = some dl) (hh : xs[k]? = some dh) :
    dl ≤ v ∧ v < dh ∧ 0 < dh - dl := by
  obtain ⟨h1, h2⟩ := @upperBound_bracket F (fieldScalar T) xs v k hk
  have a := not_lt.1 (h1 dl hpos hl)
  have b := h2 dh hh
  exact ⟨a, b, by linarith⟩

/-- plume tip (`upper == begin`, `depth ≥ min depth`): `depths.front() - min_depth` (the `a`, `c` and the divisor of `fraction`) is positive -/
theorem plume_tip_den_pos (T : Transc F) (xs : List F) (v minDepth d0 : F)
    (hk : @upperBound F (fieldScalar T) xs v (xs.length + 1) 0 xs.length = .ok 0)
    (hd0 : xs[0]? = some d0) (hmin : ¬ v < minDepth) : 0 < d0 - minDepth := by
  obtain ⟨_, h2⟩ := @upperBound_bracket F (fieldScalar T) xs v 0 hk
  have := h2 d0 hd0
  have := not_lt.1 hmin
  linarith

/-! ### `BezierCurve::closest_point_on_curve_segment`: the initial estimate -/

/-- `initialEstimate` divides by `d = P1P2·P1P2` only inside `if d > 0.0` -/
theorem initialEstimate_den_ne (T : Transc F) (d : F)
    (h : @GT.gt F (fieldScalar T).toLT d (@OfScientific.ofScientific F (@Scalar.instOfScientific F (fieldScalar T)) 0 true 1)) : d ≠ 0 := by
  have h' : (@OfScientific.ofScientific F (@Scalar.instOfScientific F (fieldScalar T)) 0 true 1) < d := h
  rw [lit_0_0] at h'
  exact ne_of_gt h'

/-- the model's `initialEstimate` is exactly: clamp of the projection when the two points differ (`0 < d`), `1` otherwise -/
theorem initialEstimate_field (T : Transc F) (p1 p2 cp : P2 F) :
    @initialEstimate F (fieldScalar T) p1 p2 cp =
      (if 0 < (p2.x - p1.x) * (p2.x - p1.x) + (p2.y - p1.y) * (p2.y - p1.y) then
        min 1 (max 0 (((cp.x - p1.x) * (p2.x - p1.x) + (cp.y - p1.y) * (p2.y - p1.y)) /
          ((p2.x - p1.x) * (p2.x - p1.x) + (p2.y - p1.y) * (p2.y - p1.y))))
       else 1) := by
  unfold initialEstimate
  simp only [P2.dot, HSub.hSub, Sub.sub, P2.sub, lit_0_0, lit_1_0, smin_eq, smax_eq]

/-! ### `distance_point_from_curved_planes`: the segment loop -/

/-- the loop body is skipped for `len < 1e-14`; past that test the segment length is positive
(divisor of `segment_fraction = new_along / len`, and of `len / diff`) -/
theorem segmentStep_len_pos (T : Transc F) (len : F)
    (h : ¬ @LT.lt F (fieldScalar T).toLT len (@OfScientific.ofScientific F (@Scalar.instOfScientific F (fieldScalar T)) 1 true 14)) :
    0 < len :=
  lt_of_lt_of_le (lit_1em14_pos T) (not_lt.1 h)

/-- straight branch: `c1 / c2` with `c2 = BSES·BSES`, `BSES = end − begin = len·(sin(90°−top), −cos(90°−top))`: `c2 = len² > 0` -/
theorem segmentStep_straight_den_pos (T : Transc F) (hsc : ∀ x, T.sin x * T.sin x + T.cos x * T.cos x = 1)
    (b : P2 F) (len ang : F) (hlen : 0 < len) :
    0 < @P2.dot F (fieldScalar T)
      (@P2.sub F (fieldScalar T) ⟨b.x + len * T.sin ang, b.y - len * T.cos ang⟩ b)
      (@P2.sub F (fieldScalar T) ⟨b.x + len * T.sin ang, b.y - len * T.cos ang⟩ b) := by
  show 0 < (b.x + len * T.sin ang - b.x) * (b.x + len * T.sin ang - b.x) + (b.y - len * T.cos ang - b.y) * (b.y - len * T.cos ang - b.y)
  have : (b.x + len * T.sin ang - b.x) * (b.x + len * T.sin ang - b.x) + (b.y - len * T.cos ang - b.y) * (b.y - len * T.cos ang - b.y)
      = len * len * (T.sin ang * T.sin ang + T.cos ang * T.cos ang) := by ring
  rw [this, hsc, mul_one]
  positivity

/-- arc branch: entered only when `¬ |diff| < 1e-8`, so `len / diff` divides by a non-zero number -/
theorem segmentStep_arc_diff_ne (T : Transc F) (diff : F)
    (h : ¬ @LT.lt F (fieldScalar T).toLT (@Scalar.fabs F (fieldScalar T) diff)
          (@OfScientific.ofScientific F (@Scalar.instOfScientific F (fieldScalar T)) 1 true 8)) : diff ≠ 0 := by
  intro h0
  apply h
  rw [fabs_eq_abs, h0, abs_zero]
  exact lit_1em8_pos T

/-- … and the arc radius `|len / diff|` is positive -/
theorem segmentStep_arc_radius_pos (T : Transc F) (len diff : F) (hlen : 0 < len) (hd : diff ≠ 0) :
    0 < @Scalar.fabs F (fieldScalar T) (len / diff) := by
  rw [fabs_eq_abs]
  exact abs_pos.2 (div_ne_zero (ne_of_gt hlen) hd)

/-- arc branch: `acos(dot / (CPCR_norm * radius))` is evaluated only when `¬ |CPCR_norm| < ε`; with `ε > 0` the divisor is non-zero -/
theorem segmentStep_arc_acos_den_ne (T : Transc F) (heps : 0 < T.eps) (n radius : F) (hr : 0 < radius)
    (h : ¬ @LT.lt F (fieldScalar T).toLT (@Scalar.fabs F (fieldScalar T) n) (@Scalar.eps F (fieldScalar T))) : n * radius ≠ 0 := by
  have hn : n ≠ 0 := by
    intro h0
    apply h
    rw [fabs_eq_abs, h0, abs_zero]
    exact heps
  exact mul_ne_zero hn (ne_of_gt hr)

/-- the running average angle `aa / (total_length + len)`: the divisor is positive as long as the accumulated length is non-negative -/
theorem segmentStep_average_den_pos (total len : F) (ht : 0 ≤ total) (hlen : 0 < len) : 0 < total + len := by linarith

end Gwb
