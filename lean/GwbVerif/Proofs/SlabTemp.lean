/-
Closed-form and envelope facts about the two slab-only temperature models (`Model/Models/SlabTemp.lean`).

Part 1 holds for every `Scalar R` (so also for the Float instance that is diffed against the C++): where the models do nothing.
Part 2 is over a linearly ordered field with the libm members as uninterpreted functions (`fieldScalar T`) and the laws it needs as
explicit hypotheses (`ErfcLaws`, positivity of `exp`, `pow x 2 ≥ 0`), in the style of `Proofs/Models.lean` / `Properties/C20.lean`:
the analytic profile of `mass conserving` (`MassConserving.analytic`, what `get_temperature_analytic` computes) stays between the minimum
temperature and the background temperature on the bottom side, equals the minimum temperature at adjusted distance zero, and never
heats the top side.
-/
import GwbVerif.Proofs.Models
import GwbVerif.Spec.WellFormed
import GwbVerif.Proofs.ModelInstances
namespace Gwb
open Scalar
set_option linter.unusedSectionVars false

/-! ## Part 1: every `Scalar R` -/
section generic
variable {R : Type} [Scalar R]

/-- slab `plate model`: outside `[min distance slab top, max distance slab top]` the temperature is left alone -/
theorem SlabPlateModel.get_outside (m : SlabPlateModel R) (depth g : R) (pd : PlaneDist R) (ap : AdditionalParams R) (old : R)
    (h : ¬ (pd.distanceFromPlane ≤ m.mx ∧ pd.distanceFromPlane ≥ m.mn)) : m.get depth g pd ap old = old := by
  unfold SlabPlateModel.get
  simp only [h, if_false]

/-- `mass conserving`: outside its distance range nothing is computed (in particular the ridge tables are not read) -/
theorem MassConserving.get_outside (m : MassConserving R) (ctx : Ctx R) (depth g : R) (pd : PlaneDist R) (ap : AdditionalParams R) (old : R)
    (h : ¬ (pd.distanceFromPlane ≤ m.mx ∧ pd.distanceFromPlane ≥ m.mn)) : m.get ctx depth g pd ap old = .ok old := by
  unfold MassConserving.get
  simp only [h, if_false]

/-- without the spline the profile is the analytic solution and cannot fail -/
theorem MassConserving.profile_no_spline (m : MassConserving R) (hs : m.applySpline = false) (thc minT bg old v epa adj : R) :
    m.profile thc minT bg old v epa adj = .ok (m.analytic thc minT bg old v epa adj) := by
  unfold MassConserving.profile
  simp only [hs, Bool.false_eq_true, if_false]
  rfl

/-- top side (`adjusted_distance < 0`), incoming temperature already colder than the slab's minimum: it is kept
("for overriding plate region where plate temperature is less the minimum slab temperature") -/
theorem MassConserving.analytic_top_cold (m : MassConserving R) (thc minT bg old v epa adj : R) (hadj : adj < 0) (hold : old < minT) :
    m.analytic thc minT bg old v epa adj = old := by
  unfold MassConserving.analytic
  simp only [hadj, hold, if_true]

/-- bottom side with the `plate model` reference: at and beyond `max distance slab top` the background temperature -/
theorem MassConserving.analytic_plate_beyond (m : MassConserving R) (hp : m.plateRef = true) (thc minT bg old v epa adj : R)
    (hadj : ¬ adj < 0) (hmx : ¬ adj < m.mx) : m.analytic thc minT bg old v epa adj = bg := by
  unfold MassConserving.analytic
  simp only [hadj, hp, hmx, if_false, if_true]

/-- the slab-only models sit behind `SegTemp.slab`; the models shared with the fault behind `SegTemp.basic` never throw -/
theorem SegTemp.get_basic (b : LineTemp R) (isFault : Bool) (ctx : Ctx R) (depth g : R) (pd : PlaneDist R) (ap : AdditionalParams R) (old : R) :
    (SegTemp.basic b).get isFault ctx depth g pd ap old = .ok (b.get isFault ctx depth g pd old) := rfl

/-- `calculate_effective_trench_and_plate_ages` succeeds exactly when both release assertions hold, and then returns the two ages -/
theorem effectiveTrenchAndPlateAges_ok (rp : RidgeParams R) (along a e : R)
    (h : effectiveTrenchAndPlateAges rp along = .ok (a, e)) :
    rp.subducting * secondsInYear ≥ 0 ∧ a ≥ 0 ∧
      e = (rp.distance + along) / (rp.spreading * secondsInYear) ∧ a = e - along / (rp.subducting * secondsInYear) := by
  unfold effectiveTrenchAndPlateAges at h
  simp only at h
  split at h
  · rename_i hsv
    split at h
    · rename_i hage
      injection h with h
      injection h with h1 h2
      subst h1; subst h2
      exact ⟨hsv, hage, rfl, rfl⟩
    · cases h
  · cases h

end generic

/-! ## Part 2: ordered fields, libm laws as hypotheses -/
section field
variable {F : Type} [Field F] [LinearOrder F] [IsStrictOrderedRing F]

/-- bottom side, half-space reference: `T_bg + (T_min − T_bg)·erfc(adj / (2√(κ t)))` lies between the minimum temperature and the
background temperature, and is the minimum temperature at adjusted distance zero -/
theorem MassConserving.analytic_halfspace_between (T : Transc F) (L : ErfcLaws T) (m : MassConserving F) (hp : m.plateRef = false)
    (thc minT bg old v epa adj : F) (hk : 0 < m.kappa) (ht : 0 < epa) (hadj : 0 ≤ adj) (hT : minT ≤ bg) :
    minT ≤ @MassConserving.analytic F (fieldScalar T) m thc minT bg old v epa adj ∧
    @MassConserving.analytic F (fieldScalar T) m thc minT bg old v epa adj ≤ bg ∧
    (adj = 0 → @MassConserving.analytic F (fieldScalar T) m thc minT bg old v epa adj = minT) := by
  have hna : ¬ adj < 0 := not_lt.mpr hadj
  have hval : @MassConserving.analytic F (fieldScalar T) m thc minT bg old v epa adj =
      bg + (minT - bg) * T.erfc (adj / (2 * T.sqrt (m.kappa * epa))) := by
    unfold MassConserving.analytic
    simp only [s_lt T, lit_0 T, hna, hp, if_false, Bool.false_eq_true]
    rfl
  have harg := L.arg_nonneg m.kappa epa adj hk ht hadj
  have h0 := L.erfc_nonneg (adj / (2 * T.sqrt (m.kappa * epa)))
  have h1 := L.erfc_le_one _ harg
  obtain ⟨hlo, hhi⟩ := halfspace_between minT bg _ hT h0 h1
  rw [hval]
  refine ⟨hlo, hhi, ?_⟩
  intro hz
  rw [hz, zero_div, L.erfc_zero]
  ring

/-- … and it warms monotonically away from the coldest point: a larger adjusted distance gives a temperature at least as high -/
theorem MassConserving.analytic_halfspace_mono (T : Transc F) (L : ErfcLaws T) (m : MassConserving F) (hp : m.plateRef = false)
    (thc minT bg old v epa a1 a2 : F) (hk : 0 < m.kappa) (ht : 0 < epa) (h0 : 0 ≤ a1) (h12 : a1 ≤ a2) (hT : minT ≤ bg) :
    @MassConserving.analytic F (fieldScalar T) m thc minT bg old v epa a1 ≤
      @MassConserving.analytic F (fieldScalar T) m thc minT bg old v epa a2 := by
  have hval : ∀ a, 0 ≤ a → @MassConserving.analytic F (fieldScalar T) m thc minT bg old v epa a =
      bg + (minT - bg) * T.erfc (a / (2 * T.sqrt (m.kappa * epa))) := by
    intro a ha
    have hna : ¬ a < 0 := not_lt.mpr ha
    unfold MassConserving.analytic
    simp only [s_lt T, lit_0 T, hna, hp, if_false, Bool.false_eq_true]
    rfl
  rw [hval a1 h0, hval a2 (le_trans h0 h12)]
  have hmono := L.arg_mono_depth m.kappa epa a1 a2 hk ht h12
  have hanti := L.erfc_anti _ _ (L.arg_nonneg m.kappa epa a1 hk ht h0) hmono
  exact halfspace_mono minT bg _ _ hT hanti

/-- top side, incoming temperature not below the slab's minimum: a non-positive top heat content can only cool
(`exp > 0`, `sqrt` positive on positives, `pow x 2 ≥ 0`, `π > 0` as hypotheses) -/
theorem MassConserving.analytic_top_no_heating (T : Transc F) (L : ErfcLaws T) (hexp : ∀ x, 0 < T.exp x) (hpow : ∀ x, 0 ≤ T.pow x 2)
    (hpi : 0 < T.pi) (m : MassConserving F) (thc minT bg old v epa adj : F)
    (hk : 0 < m.kappa) (hrho : 0 < m.density) (hcp : 0 < m.cp) (hadj : adj < 0) (hold : ¬ old < minT) (hthc : thc ≤ 0) :
    @MassConserving.analytic F (fieldScalar T) m thc minT bg old v epa adj ≤ old := by
  have key : ∀ t : F, 0 < t →
      old + (2 * thc / (2 * m.density * m.cp * T.sqrt (T.pi * m.kappa * t))) * T.exp (-(adj * adj) / (4 * m.kappa * t)) ≤ old := by
    intro t htpos
    have hpk : 0 < T.pi * m.kappa := mul_pos hpi hk
    have hsq : 0 < T.sqrt (T.pi * m.kappa * t) := L.sqrt_pos _ (mul_pos hpk htpos)
    have hden : 0 < 2 * m.density * m.cp * T.sqrt (T.pi * m.kappa * t) := by positivity
    have hamp : 2 * thc / (2 * m.density * m.cp * T.sqrt (T.pi * m.kappa * t)) ≤ 0 :=
      div_nonpos_of_nonpos_of_nonneg (by linarith) hden.le
    have := mul_nonpos_of_nonpos_of_nonneg hamp (hexp (-(adj * adj) / (4 * m.kappa * t))).le
    linarith
  unfold MassConserving.analytic
  simp only [s_lt T, lit_0 T, hadj, hold, if_true, if_false]
  simp only [s_add T, s_sub T, s_mul T, s_div T, s_neg T, s_sqrt T, s_exp T, s_pow T, s_pi T, lit_1 T, lit_2 T, lit_4 T, lit_sci T]
  apply key
  have heps : (0 : F) < ((OfScientific.ofScientific 1 true 16 : ℚ) : F) := by
    have : (0 : ℚ) < OfScientific.ofScientific 1 true 16 := by norm_num
    exact_mod_cast this
  have hpk : 0 < T.pi * m.kappa := mul_pos hpi hk
  exact add_pos_of_nonneg_of_pos (mul_nonneg (by positivity) (hpow _)) heps

end field

/-- a linearly ordered field has no NaN: every comparison decides (the hypothesis `CmpTotal` of the spline's index safety,
`splineEval_noInt`, `C12_parse_line_wellformed`) -/
theorem cmpTotal_field {F : Type} [Field F] [LinearOrder F] [IsStrictOrderedRing F] (T : Transc F) : @CmpTotal F (fieldScalar T) :=
  fun a b => ⟨lt_or_ge a b, le_or_gt a b⟩

/-! ## Non-vacuity: the hypotheses of Part 2 hold together for the real functions -/

/-- `ErfcLaws`, `exp > 0`, `pow x 2 ≥ 0` and `π > 0` hold of `realTransc` (`Real.exp`, `Real.sqrt`, `Real.pi`; `pow x _ = x·x`) -/
example : ErfcLaws realTransc ∧ (∀ x, 0 < realTransc.exp x) ∧ (∀ x, 0 ≤ realTransc.pow x 2) ∧ 0 < realTransc.pi :=
  ⟨real_erfcLaws, fun x => Real.exp_pos x, fun x => mul_self_nonneg x, Real.pi_pos⟩

/-- a `mass conserving` parameter set with the half-space reference, positive diffusivity, density and specific heat -/
def exMassConserving : MassConserving ℝ :=
  { mn := -100000, mx := 200000, op := .replace, density := 3300, conductivity := 3.3, couplingDepth := 100000,
    forearcCoolingFactor := 1, taperDistance := 100000, alpha := 0, cp := 1250, kappa := 1, adiabaticHeating := false,
    potentialT := 1600, surfaceT := 293, ridge := ⟨[[⟨0, 0⟩, ⟨0, 1⟩]], [[1, 1]]⟩, subVel := [[1]], migrationTimes := [0],
    plateRef := false, applySpline := false, splineNPoints := 5 }

/-- the bottom-side envelope instantiated: at adjusted distance 0 the profile is the minimum temperature (600), and 10 km further
down it lies between 600 and the background 1600 -/
example :
    @MassConserving.analytic ℝ (fieldScalar realTransc) exMassConserving 0 600 1600 1600 1 1000000 0 = 600 ∧
    600 ≤ @MassConserving.analytic ℝ (fieldScalar realTransc) exMassConserving 0 600 1600 1600 1 1000000 10000 ∧
    @MassConserving.analytic ℝ (fieldScalar realTransc) exMassConserving 0 600 1600 1600 1 1000000 10000 ≤ 1600 := by
  have h0 := MassConserving.analytic_halfspace_between realTransc real_erfcLaws exMassConserving rfl 0 600 1600 1600 1 1000000 0
    (by norm_num [exMassConserving]) (by norm_num) le_rfl (by norm_num)
  have h1 := MassConserving.analytic_halfspace_between realTransc real_erfcLaws exMassConserving rfl 0 600 1600 1600 1 1000000 10000
    (by norm_num [exMassConserving]) (by norm_num) (by norm_num) (by norm_num)
  exact ⟨h0.2.2 rfl, h1.1, h1.2.1⟩

end Gwb
