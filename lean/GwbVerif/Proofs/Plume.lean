/-
Helpers for C04 (plume extent): `PlumeFeature.covers` (plume.cc:262-345) against a declarative description.

* every `Scalar R`, no laws: `plumeSelect_ok_iff` (the cross-section chosen for the look-up result `up`), `plumeTail_ok_iff`
  (relative distance and final test), `PlumeFeature.covers_ok_iff` (`PlumeContainsAt`: the three regimes, selected by the
  position `up` that `std::upper_bound` reports).
* ordered field: for strictly ascending depths `up` is characterised by the depth itself (`upperBound_eq_iff`), hence
  `PlumeFeature.covers_iff_contains` (`PlumeContains`: head / between two cross-sections / below the deepest), and the facts
  about the three regimes (fraction 0 at a listed depth, convex combinations in between, ellipsoid equation of the head and its
  closure at `min depth`).
-/
import GwbVerif.Proofs.MotionPlume
import GwbVerif.Proofs.Guards
namespace Gwb
open Scalar
set_option linter.unusedSectionVars false

/-! ### `Except` plumbing -/

theorem bind_idx_ok_iff {α β : Type} (xs : List α) (i : Nat) (g : α → Except Err β) (b : β) :
    (idx xs i >>= g) = .ok b ↔ ∃ v, xs[i]? = some v ∧ g v = .ok b := by
  unfold idx
  cases h : xs[i]? with
  | none => simp [bind, Except.bind]
  | some v => simp [bind, Except.bind]

theorem pure_ok_iff {β : Type} (a b : β) : (pure a : Except Err β) = .ok b ↔ a = b := by
  simp [pure, Except.pure]

theorem getElem?_zero_of_some {α : Type} (xs : List α) (i : Nat) (v : α) (h : xs[i]? = some v) : ∃ c, xs[0]? = some c := by
  cases xs with
  | nil => simp at h
  | cons a t => exact ⟨a, rfl⟩

section generic
variable {R : Type} [Scalar R]

/-- the semi-major axis the code assigns to the head cross-section at `depth` (plume.cc:283-291).  It only enters the ellipse
distance that the tip branch (plume.cc:329-341) then overwrites. -/
def plumeHeadRadius (minDepth d0 b depth : R) : R :=
  let fraction := (depth - minDepth) / (d0 - minDepth)
  let a := d0 - minDepth
  let y := ((1.0 : R) - fraction) * a
  sqrt (((1 : R) - pow (y / a) 2) * b * b)

/-- the linear interpolation of two neighbouring cross-sections as the code writes it (`fraction` given) -/
def plumeLerpSection (fraction : R) (cl ch : P2 R) (sl sh el eh rl rh : R) : P2 R × R × R × R :=
  (⟨((1 : R) - fraction) * cl.x + fraction * ch.x, ((1 : R) - fraction) * cl.y + fraction * ch.y⟩,
    ((1 : R) - fraction) * sl + fraction * sh, ((1 : R) - fraction) * el + fraction * eh,
    interpolateAngleAcrossZero rl rh fraction)

/-- **the cross-section used at `depth`** when `std::upper_bound(depths, depth)` is at offset `up`:
`up = 0` (above the shallowest listed depth): the first centre, eccentricity, angle;
`up = size` (at or below the deepest): the last entries unchanged;
otherwise the interpolation between entries `up − 1` and `up`. -/
def PlumeSection (f : PlumeFeature R) (depth d0 : R) (up : Nat) (E : P2 R × R × R × R) : Prop :=
  (up = 0 ∧ ∃ c e r b, f.coords[0]? = some c ∧ f.ecc[0]? = some e ∧ f.rot[0]? = some r ∧ f.semiMajor[0]? = some b ∧
      E = (c, plumeHeadRadius f.minDepth d0 b depth, e, r)) ∨
  (up ≠ 0 ∧ up = f.depths.length ∧ ∃ c s e r, f.coords[f.coords.length - 1]? = some c ∧
      f.semiMajor[f.semiMajor.length - 1]? = some s ∧ f.ecc[f.ecc.length - 1]? = some e ∧ f.rot[f.rot.length - 1]? = some r ∧
      E = (c, s, e, r)) ∨
  (up ≠ 0 ∧ up ≠ f.depths.length ∧ ∃ dl dh cl ch sl sh el eh rl rh,
      f.depths[up - 1]? = some dl ∧ f.depths[up]? = some dh ∧ f.coords[up - 1]? = some cl ∧ f.coords[up]? = some ch ∧
      f.semiMajor[up - 1]? = some sl ∧ f.semiMajor[up]? = some sh ∧ f.ecc[up - 1]? = some el ∧ f.ecc[up]? = some eh ∧
      f.rot[up - 1]? = some rl ∧ f.rot[up]? = some rh ∧
      E = plumeLerpSection ((depth - dl) / (dh - dl)) cl ch sl sh el eh rl rh)

theorem plumeSelect_ok_iff (f : PlumeFeature R) (depth d0 : R) (up : Nat) (E : P2 R × R × R × R) :
    plumeSelect f depth d0 up = .ok E ↔ PlumeSection f depth d0 up E := by
  unfold plumeSelect PlumeSection
  by_cases h0 : up = 0
  · rw [if_pos h0]
    simp only [front, bind_idx_ok_iff, pure_ok_iff]
    constructor
    · rintro ⟨c, hc, e, he, r, hr, b, hb, hE⟩
      exact Or.inl ⟨h0, c, e, r, b, hc, he, hr, hb, hE.symm⟩
    · rintro (⟨_, c, e, r, b, hc, he, hr, hb, hE⟩ | ⟨h, _⟩ | ⟨h, _⟩)
      · exact ⟨c, hc, e, he, r, hr, b, hb, hE.symm⟩
      · exact absurd h0 h
      · exact absurd h0 h
  · rw [if_neg h0]
    by_cases hn : up = f.depths.length
    · rw [if_pos hn]
      simp only [back, bind_idx_ok_iff, pure_ok_iff]
      constructor
      · rintro ⟨c, hc, s, hs, e, he, r, hr, hE⟩
        exact Or.inr (Or.inl ⟨h0, hn, c, s, e, r, hc, hs, he, hr, hE.symm⟩)
      · rintro (⟨h, _⟩ | ⟨_, _, c, s, e, r, hc, hs, he, hr, hE⟩ | ⟨_, h, _⟩)
        · exact absurd h h0
        · exact ⟨c, hc, s, hs, e, he, r, hr, hE.symm⟩
        · exact absurd hn h
    · rw [if_neg hn]
      simp only [bind_idx_ok_iff, pure_ok_iff]
      constructor
      · rintro ⟨dl, hdl, dh, hdh, cl, hcl, ch, hch, sl, hsl, sh, hsh, el, hel, eh, heh, rl, hrl, rh, hrh, hE⟩
        exact Or.inr (Or.inr ⟨h0, hn, dl, dh, cl, ch, sl, sh, el, eh, rl, rh, hdl, hdh, hcl, hch, hsl, hsh, hel, heh, hrl, hrh, hE.symm⟩)
      · rintro (⟨h, _⟩ | ⟨_, h, _⟩ | ⟨_, _, dl, dh, cl, ch, sl, sh, el, eh, rl, rh, hdl, hdh, hcl, hch, hsl, hsh, hel, heh, hrl, hrh, hE⟩)
        · exact absurd h h0
        · exact absurd h hn
        · exact ⟨dl, hdl, dh, hdh, cl, hcl, ch, hch, sl, hsl, sh, hsh, el, hel, eh, heh, rl, hrl, rh, hrh, hE.symm⟩

/-- the ellipsoid level of the head (plume.cc:331-340): `x²/a² + y²/b² + z²/c²` in the frame of the first ellipse
(`a` first semi-major axis, `b = a·√(1−e²)`, `c = depths.front() − min depth`, `z = depths.front() − depth`) -/
def plumeHeadLevel (center : P2 R) (a ecc rot c z : R) (sp : P2 R) : R :=
  let b := a * sqrt ((1 : R) - pow ecc 2)
  let x := (sp.x - center.x) * cos rot + (sp.y - center.y) * sin rot
  let y := -(sp.x - center.x) * sin rot + (sp.y - center.y) * cos rot
  (x * x) / (a * a) + (y * y) / (b * b) + (z * z) / (c * c)

/-- the relative distance the code ends up with for the cross-section `E` -/
def PlumeRel (f : PlumeFeature R) (spherical : Bool) (depth d0 : R) (sp0 : P2 R) (E : P2 R × R × R × R) (rel : R) : Prop :=
  if depth < d0 then
    ∃ a, f.semiMajor[0]? = some a ∧
      rel = plumeHeadLevel E.1 a E.2.2.1 E.2.2.2 (d0 - f.minDepth) (d0 - depth) (plumeSurfacePoint spherical E.1 sp0)
  else rel = fractionFromEllipseCenter E.1 E.2.1 E.2.2.1 E.2.2.2 (plumeSurfacePoint spherical E.1 sp0)

theorem plumeTail_ok_iff (f : PlumeFeature R) (spherical : Bool) (depth d0 : R) (sp0 : P2 R) (E : P2 R × R × R × R) (rel : R) :
    plumeTail f spherical depth d0 sp0 E = .ok (some rel) ↔
      (depth ≤ f.maxDepth ∧ depth ≥ f.minDepth ∧ rel ≤ 1.0) ∧ PlumeRel f spherical depth d0 sp0 E rel := by
  obtain ⟨center, sma, ecc, rot⟩ := E
  unfold plumeTail PlumeRel
  simp only
  by_cases hmin : depth ≥ f.minDepth
  · by_cases hd : depth < d0
    · rw [if_pos ⟨hmin, hd⟩, if_pos hd]
      simp only [front]
      unfold idx
      cases ha : f.semiMajor[0]? with
      | none => simp [bind, Except.bind]
      | some a =>
        simp only [bind, Except.bind, pure, Except.pure]
        split
        · rename_i hin
          constructor
          · intro h
            simp only [Except.ok.injEq, Option.some.injEq] at h
            subst h
            exact ⟨hin, a, rfl, rfl⟩
          · rintro ⟨_, a', ha', hrel⟩
            cases ha'
            rw [hrel]; rfl
        · rename_i hout
          constructor
          · intro h; simp at h
          · rintro ⟨hin, a', ha', hrel⟩
            cases ha'
            subst hrel
            exact absurd hin hout
    · rw [if_neg (fun h => hd h.2), if_neg hd]
      simp only [bind, Except.bind, pure, Except.pure]
      split
      · rename_i hin
        constructor
        · intro h
          simp only [Except.ok.injEq, Option.some.injEq] at h
          subst h
          exact ⟨hin, rfl⟩
        · rintro ⟨_, hrel⟩
          rw [hrel]
      · rename_i hout
        constructor
        · intro h; simp at h
        · rintro ⟨hin, hrel⟩
          subst hrel
          exact absurd hin hout
  · rw [if_neg (fun h => hmin h.1)]
    simp only [bind, Except.bind, pure, Except.pure]
    rw [if_neg (fun h => hmin h.2.1)]
    constructor
    · intro h; simp at h
    · rintro ⟨⟨_, h, _⟩, _⟩; exact absurd h hmin

/-- **C04, every scalar type**: what `PlumeFeature.covers` decides, with the regime named by the offset `up` that
`std::upper_bound(depths.begin(), depths.end(), depth)` returns. -/
def PlumeContainsAt (f : PlumeFeature R) (spherical : Bool) (depth : R) (sp0 : P2 R) (up : Nat) (rel : R) : Prop :=
  ¬ depth < f.minDepth ∧ depth ≥ f.minDepth ∧ depth ≤ f.maxDepth ∧ rel ≤ 1.0 ∧
    ∃ d0 E, f.depths[0]? = some d0 ∧ PlumeSection f depth d0 up E ∧ PlumeRel f spherical depth d0 sp0 E rel

theorem PlumeSection.coords_nonempty {f : PlumeFeature R} {depth d0 : R} {up : Nat} {E : P2 R × R × R × R}
    (h : PlumeSection f depth d0 up E) : ∃ c, f.coords[0]? = some c := by
  rcases h with ⟨_, c, _, _, _, hc, _⟩ | ⟨_, _, c, _, _, _, hc, _⟩ | ⟨_, _, _, _, cl, _, _, _, _, _, _, _, _, _, hc, _⟩
  · exact ⟨c, hc⟩
  · exact getElem?_zero_of_some _ _ _ hc
  · exact getElem?_zero_of_some _ _ _ hc

theorem PlumeFeature.covers_ok_iff (f : PlumeFeature R) (ctx : Ctx R) (q : Query R) (rel : R) :
    f.covers ctx q = .ok (some rel) ↔
      ∃ up, upperBound f.depths q.depth (f.depths.length + 1) 0 f.depths.length = .ok up ∧
        PlumeContainsAt f ctx.coord.spherical q.depth (surfacePoint ctx.coord.spherical q.nat) up rel := by
  rw [PlumeFeature.covers_stages]
  cases hu : upperBound f.depths q.depth (f.depths.length + 1) 0 f.depths.length with
  | error e => simp [bind, Except.bind]
  | ok up =>
    simp only [bind, Except.bind, Except.ok.injEq, exists_eq_left']
    unfold PlumeContainsAt
    cases hc0 : idx f.coords 0 with
    | error e =>
      simp only
      constructor
      · intro h; simp at h
      · rintro ⟨_, _, _, _, d0, E, _, hS, _⟩
        obtain ⟨c, hc⟩ := hS.coords_nonempty
        simp [idx, hc] at hc0
    | ok c0 =>
      simp only
      by_cases hlt : q.depth < f.minDepth
      · rw [if_pos hlt]
        constructor
        · intro h; simp [pure, Except.pure] at h
        · rintro ⟨h, _⟩; exact absurd hlt h
      · rw [if_neg hlt]
        simp only [front]
        unfold idx
        cases hd0 : f.depths[0]? with
        | none =>
          simp only
          constructor
          · intro h; simp at h
          · rintro ⟨_, _, _, _, d0, E, h, _⟩; simp at h
        | some d0 =>
          simp only
          cases hsel : plumeSelect f q.depth d0 up with
          | error e =>
            simp only
            constructor
            · intro h; simp at h
            · rintro ⟨_, _, _, _, d0', E, h, hS, _⟩
              cases h
              rw [← plumeSelect_ok_iff, hsel] at hS
              simp at hS
          | ok E =>
            simp only
            rw [plumeTail_ok_iff]
            constructor
            · rintro ⟨⟨h1, h2, h3⟩, hrel⟩
              exact ⟨hlt, h2, h1, h3, d0, E, rfl, (plumeSelect_ok_iff f q.depth d0 up E).1 hsel, hrel⟩
            · rintro ⟨_, h2, h1, h3, d0', E', h, hS, hrel⟩
              cases h
              rw [← plumeSelect_ok_iff, hsel] at hS
              cases hS
              exact ⟨⟨h1, h2, h3⟩, hrel⟩

end generic

/-! ## ordered fields -/
section field
variable {F : Type} [Field F] [LinearOrder F] [IsStrictOrderedRing F] (T : Transc F)

/-! ### strictly ascending tables and `std::upper_bound` -/

theorem strictAscending_lt (xs : List F) (h : @StrictAscending F (fieldScalar T) xs) (d i : ℕ) (a b : F)
    (ha : xs[i]? = some a) (hb : xs[i + d + 1]? = some b) : a < b := by
  induction d generalizing b with
  | zero => exact h i a b ha hb
  | succ d ih =>
    have hlt : i + d + 1 < xs.length := by
      have := (List.getElem?_eq_some_iff.1 hb).1
      omega
    have hc : xs[i + d + 1]? = some xs[i + d + 1] := List.getElem?_eq_getElem hlt
    have h1 := ih _ hc
    have h2 : xs[i + d + 1] < b := h (i + d + 1) _ b hc hb
    exact lt_trans h1 h2

theorem strictAscending_ascending (xs : List F) (h : @StrictAscending F (fieldScalar T) xs) : Ascending xs := by
  intro i j a b hij ha hb
  rcases Nat.eq_or_lt_of_le hij with rfl | hlt
  · rw [ha] at hb; cases hb; exact le_rfl
  · obtain ⟨d, rfl⟩ : ∃ d, j = i + d + 1 := ⟨j - i - 1, by omega⟩
    exact le_of_lt (strictAscending_lt T xs h d i a b ha hb)

/-- on an ascending table the offset returned by `std::upper_bound` is *the* position with the entry before it `≤ val` and the
entry at it `> val` -/
theorem upperBound_eq_iff (xs : List F) (hs : Ascending xs) (v : F) (k : ℕ) :
    @upperBound F (fieldScalar T) xs v (xs.length + 1) 0 xs.length = .ok k ↔
      k ≤ xs.length ∧ (∀ a, 0 < k → xs[k - 1]? = some a → a ≤ v) ∧ (∀ b, xs[k]? = some b → v < b) := by
  constructor
  · intro hk
    obtain ⟨h1, h2⟩ := @upperBound_bracket F (fieldScalar T) xs v k hk
    exact ⟨@upperBound_le F (fieldScalar T) xs v k hk, fun a hp ha => not_lt.1 (h1 a hp ha), h2⟩
  · rintro ⟨hle, hL, hR⟩
    obtain ⟨r, hr, _, h2, h3, h4⟩ := upperBound_spec T xs v hs (xs.length + 1) 0 xs.length (by omega) (by omega)
    rw [hr]
    congr 1
    rcases Nat.lt_trichotomy r k with hlt | heq | hgt
    · exfalso
      have hk1 : k - 1 < xs.length := by omega
      have hc : xs[k - 1]? = some xs[k - 1] := List.getElem?_eq_getElem hk1
      have := hL _ (by omega) hc
      have := h4 (k - 1) _ (by omega) (by omega) hc
      linarith
    · exact heq
    · exfalso
      have hk1 : k < xs.length := by omega
      have hc : xs[k]? = some xs[k] := List.getElem?_eq_getElem hk1
      have := hR _ hc
      have := h3 k _ (by omega) hgt hc
      linarith

/-! ### the declarative description -/

/-- relative squared distance of `p` from the centre of the ellipse (centre `c`, semi-major axis `a`, eccentricity `e`, major axis
at angle `θ`): `x²/a² + y²/b²` in the ellipse's frame, `b = a·√(1−e²)`; `inf` for a degenerate ellipse -/
def ellipseLevel (c : P2 F) (a e θ : F) (p : P2 F) : F :=
  let x := (p.x - c.x) * T.cos θ + (p.y - c.y) * T.sin θ
  let y := -(p.x - c.x) * T.sin θ + (p.y - c.y) * T.cos θ
  let b := a * T.sqrt (1 - T.pow e 2)
  if a < 10 * T.dblMin ∨ b < 10 * T.dblMin then T.inf else T.pow x 2 / T.pow a 2 + T.pow y 2 / T.pow b 2

/-- ellipsoid level of the head: `x²/a² + y²/b² + z²/c²` (`z` height above the shallowest cross-section, `c` height of the head) -/
def headLevel (c : P2 F) (a e θ cz z : F) (p : P2 F) : F :=
  let x := (p.x - c.x) * T.cos θ + (p.y - c.y) * T.sin θ
  let y := -(p.x - c.x) * T.sin θ + (p.y - c.y) * T.cos θ
  let b := a * T.sqrt (1 - T.pow e 2)
  x * x / (a * a) + y * y / (b * b) + z * z / (cz * cz)

/-- spherical worlds: the description of the query longitude (`± 2π`) closest to the centre; Cartesian: the point itself -/
def closestAlias (spherical : Bool) (c p : P2 F) : P2 F :=
  if spherical then
    if T.pi < p.x - c.x then ⟨p.x - 2 * T.pi, p.y⟩
    else if p.x - c.x < -T.pi then ⟨p.x + 2 * T.pi, p.y⟩
    else p
  else p

/-- cyclic interpolation of two angles: if they differ by more than `π` the smaller one is first raised by `2π`; the result is
reduced to one turn with `floor` -/
def cyclicLerp (a1 a2 t : F) : F :=
  let t1 := if T.pi < |a2 - a1| ∧ a1 < a2 then a1 + 2 * T.pi else a1
  let t2 := if T.pi < |a2 - a1| ∧ ¬ a1 < a2 then a2 + 2 * T.pi else a2
  let rot := (1 - t) * t1 + t * t2
  rot - 2 * T.pi * T.floor (rot / (2 * T.pi))

theorem plume_s_cos (x : F) : @Scalar.cos F (fieldScalar T) x = T.cos x := rfl
theorem plume_s_floor (x : F) : @Scalar.floor F (fieldScalar T) x = T.floor x := rfl
theorem plume_s_dblMin : @Scalar.dblMin F (fieldScalar T) = T.dblMin := rfl
theorem plume_s_inf : @Scalar.inf F (fieldScalar T) = T.inf := rfl

theorem fractionFromEllipseCenter_field (c : P2 F) (a e θ : F) (p : P2 F) :
    @fractionFromEllipseCenter F (fieldScalar T) c a e θ p = ellipseLevel T c a e θ p := by
  unfold fractionFromEllipseCenter ellipseLevel
  sfield
  simp only [plume_s_cos, plume_s_dblMin, plume_s_inf]

theorem plumeHeadLevel_field (c : P2 F) (a e θ cz z : F) (p : P2 F) :
    @plumeHeadLevel F (fieldScalar T) c a e θ cz z p = headLevel T c a e θ cz z p := by
  unfold plumeHeadLevel headLevel
  sfield
  simp only [plume_s_cos]

theorem plumeSurfacePoint_field (spherical : Bool) (c p : P2 F) :
    @plumeSurfacePoint F (fieldScalar T) spherical c p = closestAlias T spherical c p := by
  unfold plumeSurfacePoint closestAlias
  sfield

theorem interpolateAngleAcrossZero_field (a1 a2 t : F) :
    @interpolateAngleAcrossZero F (fieldScalar T) a1 a2 t = cyclicLerp T a1 a2 t := by
  unfold interpolateAngleAcrossZero cyclicLerp
  simp only [fabs_eq_abs]
  sfield
  simp only [plume_s_floor]
  by_cases h1 : T.pi < |a2 - a1|
  · by_cases h2 : a1 < a2
    · simp only [h1, h2, if_true, true_and, not_true_eq_false, if_false]
    · simp only [h1, h2, if_true, if_false, true_and, not_false_eq_true]
  · simp only [h1, if_false, false_and]

/-- **C04 (plume), declaratively**: depth in the closed range `[min depth, max depth]`, relative distance `≤ 1`, where the relative
distance is
* *head* (`depth` above the shallowest listed depth `d₀`): the ellipsoid level of the half-ellipsoid over the first ellipse with
  height `d₀ − min depth`;
* *between* the listed depths `k` and `k+1`: the level of the ellipse with linearly interpolated centre, semi-major axis,
  eccentricity and cyclically interpolated angle, `t = (depth − d_k)/(d_{k+1} − d_k)`;
* *below* the deepest listed depth: the level of the last ellipse, unchanged. -/
def PlumeContains (f : PlumeFeature F) (spherical : Bool) (depth : F) (sp0 : P2 F) (rel : F) : Prop :=
  f.minDepth ≤ depth ∧ depth ≤ f.maxDepth ∧ rel ≤ 1 ∧
  ((∃ d0 c a e r, f.depths[0]? = some d0 ∧ f.coords[0]? = some c ∧ f.semiMajor[0]? = some a ∧ f.ecc[0]? = some e ∧
      f.rot[0]? = some r ∧ depth < d0 ∧
      rel = headLevel T c a e r (d0 - f.minDepth) (d0 - depth) (closestAlias T spherical c sp0)) ∨
   (∃ k dl dh cl ch sl sh el eh rl rh, f.depths[k]? = some dl ∧ f.depths[k + 1]? = some dh ∧
      f.coords[k]? = some cl ∧ f.coords[k + 1]? = some ch ∧ f.semiMajor[k]? = some sl ∧ f.semiMajor[k + 1]? = some sh ∧
      f.ecc[k]? = some el ∧ f.ecc[k + 1]? = some eh ∧ f.rot[k]? = some rl ∧ f.rot[k + 1]? = some rh ∧
      dl ≤ depth ∧ depth < dh ∧
      rel = ellipseLevel T
        ⟨(1 - (depth - dl) / (dh - dl)) * cl.x + (depth - dl) / (dh - dl) * ch.x,
         (1 - (depth - dl) / (dh - dl)) * cl.y + (depth - dl) / (dh - dl) * ch.y⟩
        ((1 - (depth - dl) / (dh - dl)) * sl + (depth - dl) / (dh - dl) * sh)
        ((1 - (depth - dl) / (dh - dl)) * el + (depth - dl) / (dh - dl) * eh)
        (cyclicLerp T rl rh ((depth - dl) / (dh - dl)))
        (closestAlias T spherical
          ⟨(1 - (depth - dl) / (dh - dl)) * cl.x + (depth - dl) / (dh - dl) * ch.x,
           (1 - (depth - dl) / (dh - dl)) * cl.y + (depth - dl) / (dh - dl) * ch.y⟩ sp0)) ∨
   (∃ dn c a e r, f.depths[f.depths.length - 1]? = some dn ∧ f.coords[f.depths.length - 1]? = some c ∧
      f.semiMajor[f.depths.length - 1]? = some a ∧ f.ecc[f.depths.length - 1]? = some e ∧ f.rot[f.depths.length - 1]? = some r ∧
      dn ≤ depth ∧ rel = ellipseLevel T c a e r (closestAlias T spherical c sp0)))

theorem plumeLerpSection_field (t : F) (cl ch : P2 F) (sl sh el eh rl rh : F) :
    @plumeLerpSection F (fieldScalar T) t cl ch sl sh el eh rl rh =
      (⟨(1 - t) * cl.x + t * ch.x, (1 - t) * cl.y + t * ch.y⟩, (1 - t) * sl + t * sh, (1 - t) * el + t * eh, cyclicLerp T rl rh t) := by
  unfold plumeLerpSection
  rw [interpolateAngleAcrossZero_field]
  sfield

theorem PlumeRel_head (f : PlumeFeature F) (spherical : Bool) (depth d0 : F) (sp0 : P2 F) (E : P2 F × F × F × F) (rel : F)
    (h : depth < d0) :
    @PlumeRel F (fieldScalar T) f spherical depth d0 sp0 E rel ↔
      ∃ a, f.semiMajor[0]? = some a ∧
        rel = headLevel T E.1 a E.2.2.1 E.2.2.2 (d0 - f.minDepth) (d0 - depth) (closestAlias T spherical E.1 sp0) := by
  unfold PlumeRel
  have h' : @LT.lt F (fieldScalar T).toLT depth d0 := h
  rw [if_pos h']
  simp only [plumeHeadLevel_field, plumeSurfacePoint_field]

theorem PlumeRel_body (f : PlumeFeature F) (spherical : Bool) (depth d0 : F) (sp0 : P2 F) (E : P2 F × F × F × F) (rel : F)
    (h : d0 ≤ depth) :
    @PlumeRel F (fieldScalar T) f spherical depth d0 sp0 E rel ↔
      rel = ellipseLevel T E.1 E.2.1 E.2.2.1 E.2.2.2 (closestAlias T spherical E.1 sp0) := by
  unfold PlumeRel
  have h' : ¬ @LT.lt F (fieldScalar T).toLT depth d0 := not_lt.2 h
  rw [if_neg h']
  simp only [fractionFromEllipseCenter_field, plumeSurfacePoint_field]

/-- **C04**: for a plume with one entry per cross-section in every list and strictly ascending depths, the code's decision is the
declarative one -/
theorem PlumeFeature.covers_iff_contains (f : PlumeFeature F) (hl : @PlumeFeature.ListsOk F f)
    (hasc : @StrictAscending F (fieldScalar T) f.depths) (ctx : Ctx F) (q : Query F) (rel : F) :
    @PlumeFeature.covers F (fieldScalar T) f ctx q = .ok (some rel) ↔
      PlumeContains T f ctx.coord.spherical q.depth (surfacePoint ctx.coord.spherical q.nat) rel := by
  have hA := strictAscending_ascending T f.depths hasc
  obtain ⟨hn, hld, hls, hle, hlr⟩ := hl
  rw [@PlumeFeature.covers_ok_iff F (fieldScalar T)]
  constructor
  · rintro ⟨up, hup, hnlt, hge, hle', hrel1, d0, E, hd0, hS, hR⟩
    have hrel1' : rel ≤ 1 := by rw [← lit_1_0 T]; exact hrel1
    refine ⟨hge, hle', hrel1', ?_⟩
    obtain ⟨hupn, hL, hRt⟩ := (upperBound_eq_iff T f.depths hA q.depth up).1 hup
    rcases hS with ⟨h0, c, e, r, b, hc, he, hr, hb, hE⟩ | ⟨h0, hlen, c, s, e, r, hc, hs, he, hr, hE⟩ |
      ⟨h0, hlen, dl, dh, cl, ch, sl, sh, el, eh, rl, rh, hdl, hdh, hcl, hch, hsl, hsh, hel, heh, hrl, hrh, hE⟩
    · subst h0
      have hlt := hRt d0 hd0
      obtain ⟨a, ha, hrel⟩ := (PlumeRel_head T f _ _ _ _ E rel hlt).1 hR
      subst hE
      exact Or.inl ⟨d0, c, a, e, r, hd0, hc, ha, he, hr, hlt, hrel⟩
    · subst hlen
      have hk1 : f.depths.length - 1 < f.depths.length := by omega
      have hdn : f.depths[f.depths.length - 1]? = some f.depths[f.depths.length - 1] := List.getElem?_eq_getElem hk1
      have h1 := hL _ (by omega) hdn
      have h2 := hA 0 (f.depths.length - 1) d0 _ (Nat.zero_le _) hd0 hdn
      have hrel := (PlumeRel_body T f _ _ _ _ E rel (le_trans h2 h1)).1 hR
      subst hE
      refine Or.inr (Or.inr ⟨_, c, s, e, r, hdn, ?_, ?_, ?_, ?_, h1, hrel⟩)
      · rw [hld]; exact hc
      · rw [hld, ← hls]; exact hs
      · rw [hld, ← hle]; exact he
      · rw [hld, ← hlr]; exact hr
    · have h1 := hL dl (by omega) hdl
      have h2 := hA 0 (up - 1) d0 dl (Nat.zero_le _) hd0 hdl
      have h3 := hRt dh hdh
      have hrel := (PlumeRel_body T f _ _ _ _ E rel (le_trans h2 h1)).1 hR
      rw [plumeLerpSection_field] at hE
      subst hE
      obtain ⟨k, rfl⟩ : ∃ k, up = k + 1 := ⟨up - 1, by omega⟩
      simp only [Nat.add_sub_cancel] at hdl hcl hsl hel hrl
      exact Or.inr (Or.inl ⟨k, dl, dh, cl, ch, sl, sh, el, eh, rl, rh, hdl, hdh, hcl, hch, hsl, hsh, hel, heh, hrl, hrh, h1, h3, hrel⟩)
  · rintro ⟨hge, hle', hrel1, hreg⟩
    have hrel1' : @LE.le F (fieldScalar T).toLE rel (@OfScientific.ofScientific F (@Scalar.instOfScientific F (fieldScalar T)) 10 true 1) := by
      rw [lit_1_0 T]; exact hrel1
    have hnlt : ¬ @LT.lt F (fieldScalar T).toLT q.depth f.minDepth := not_lt.2 hge
    rcases hreg with ⟨d0, c, a, e, r, hd0, hc, ha, he, hr, hlt, hrel⟩ |
      ⟨k, dl, dh, cl, ch, sl, sh, el, eh, rl, rh, hdl, hdh, hcl, hch, hsl, hsh, hel, heh, hrl, hrh, h1, h3, hrel⟩ |
      ⟨dn, c, a, e, r, hdn, hc, ha, he, hr, h1, hrel⟩
    · refine ⟨0, ?_, hnlt, hge, hle', hrel1', d0, _, hd0, Or.inl ⟨rfl, c, e, r, a, hc, he, hr, ha, rfl⟩, ?_⟩
      · rw [upperBound_eq_iff T f.depths hA]
        refine ⟨Nat.zero_le _, fun a h => absurd h (lt_irrefl _), fun b hb => ?_⟩
        rw [hd0] at hb; cases hb; exact hlt
      · exact (PlumeRel_head T f _ _ _ _ _ rel hlt).2 ⟨a, ha, hrel⟩
    · have hk1 : k + 1 < f.depths.length := (List.getElem?_eq_some_iff.1 hdh).1
      obtain ⟨d0, hd0⟩ := getElem?_zero_of_some _ _ _ hdl
      have h2 := hA 0 k d0 dl (Nat.zero_le _) hd0 hdl
      refine ⟨k + 1, ?_, hnlt, hge, hle', hrel1', d0, _, hd0,
        Or.inr (Or.inr ⟨by omega, by omega, dl, dh, cl, ch, sl, sh, el, eh, rl, rh, hdl, hdh, hcl, hch, hsl, hsh, hel, heh, hrl, hrh, rfl⟩), ?_⟩
      · rw [upperBound_eq_iff T f.depths hA]
        refine ⟨by omega, fun a _ ha => ?_, fun b hb => ?_⟩
        · simp only [Nat.add_sub_cancel] at ha
          rw [hdl] at ha; cases ha; exact h1
        · rw [hdh] at hb; cases hb; exact h3
      · rw [plumeLerpSection_field]
        exact (PlumeRel_body T f _ _ _ _ _ rel (le_trans h2 h1)).2 hrel
    · have hk1 : f.depths.length - 1 < f.depths.length := (List.getElem?_eq_some_iff.1 hdn).1
      obtain ⟨d0, hd0⟩ := getElem?_zero_of_some _ _ _ hdn
      have h2 := hA 0 _ d0 dn (Nat.zero_le _) hd0 hdn
      refine ⟨f.depths.length, ?_, hnlt, hge, hle', hrel1', d0, (c, a, e, r), hd0,
        Or.inr (Or.inl ⟨by omega, rfl, c, a, e, r, ?_, ?_, ?_, ?_, rfl⟩), ?_⟩
      · rw [upperBound_eq_iff T f.depths hA]
        refine ⟨le_rfl, fun a _ ha => ?_, fun b hb => ?_⟩
        · rw [hdn] at ha; cases ha; exact h1
        · rw [List.getElem?_eq_none (le_refl _)] at hb; cases hb
      · rw [← hld]; exact hc
      · rw [hls, ← hld]; exact ha
      · rw [hle, ← hld]; exact he
      · rw [hlr, ← hld]; exact hr
      · exact (PlumeRel_body T f _ _ _ _ _ rel (le_trans h2 h1)).2 hrel

/-! ### the three regimes, one at a time -/

theorem getElem?_some_inj {α : Type} {xs : List α} {i : ℕ} {a b : α} (h1 : xs[i]? = some a) (h2 : xs[i]? = some b) : a = b := by
  rw [h1] at h2; exact Option.some.inj h2

/-- *head*: above the shallowest listed depth only the head regime applies -/
theorem PlumeContains_head_iff (f : PlumeFeature F) (hasc : @StrictAscending F (fieldScalar T) f.depths)
    (spherical : Bool) (depth : F) (sp0 : P2 F) (rel : F) (d0 : F) (c : P2 F) (a e r : F)
    (hd0 : f.depths[0]? = some d0) (hc : f.coords[0]? = some c) (ha : f.semiMajor[0]? = some a) (he : f.ecc[0]? = some e)
    (hr : f.rot[0]? = some r) (hlt : depth < d0) :
    PlumeContains T f spherical depth sp0 rel ↔
      f.minDepth ≤ depth ∧ depth ≤ f.maxDepth ∧ rel ≤ 1 ∧
        rel = headLevel T c a e r (d0 - f.minDepth) (d0 - depth) (closestAlias T spherical c sp0) := by
  have hA := strictAscending_ascending T f.depths hasc
  unfold PlumeContains
  constructor
  · rintro ⟨h1, h2, h3, hreg⟩
    refine ⟨h1, h2, h3, ?_⟩
    rcases hreg with ⟨d0', c', a', e', r', hd0', hc', ha', he', hr', _, hrel⟩ |
      ⟨k, dl, dh, cl, ch, sl, sh, el, eh, rl, rh, hdl, _, _, _, _, _, _, _, _, _, hle, _, _⟩ |
      ⟨dn, c', a', e', r', hdn, _, _, _, _, hle, _⟩
    · cases getElem?_some_inj hd0 hd0'; cases getElem?_some_inj hc hc'; cases getElem?_some_inj ha ha'
      cases getElem?_some_inj he he'; cases getElem?_some_inj hr hr'
      exact hrel
    · have := hA 0 k d0 dl (Nat.zero_le _) hd0 hdl
      exact absurd (lt_of_le_of_lt (le_trans this hle) hlt) (lt_irrefl _)
    · have := hA 0 _ d0 dn (Nat.zero_le _) hd0 hdn
      exact absurd (lt_of_le_of_lt (le_trans this hle) hlt) (lt_irrefl _)
  · rintro ⟨h1, h2, h3, hrel⟩
    exact ⟨h1, h2, h3, Or.inl ⟨d0, c, a, e, r, hd0, hc, ha, he, hr, hlt, hrel⟩⟩

/-- *between* the listed depths `k` and `k+1` only the interpolation regime applies, with that `k` -/
theorem PlumeContains_between_iff (f : PlumeFeature F) (hasc : @StrictAscending F (fieldScalar T) f.depths)
    (spherical : Bool) (depth : F) (sp0 : P2 F) (rel : F) (k : ℕ) (dl dh : F) (cl ch : P2 F) (sl sh el eh rl rh : F)
    (hdl : f.depths[k]? = some dl) (hdh : f.depths[k + 1]? = some dh)
    (hcl : f.coords[k]? = some cl) (hch : f.coords[k + 1]? = some ch) (hsl : f.semiMajor[k]? = some sl)
    (hsh : f.semiMajor[k + 1]? = some sh) (hel : f.ecc[k]? = some el) (heh : f.ecc[k + 1]? = some eh)
    (hrl : f.rot[k]? = some rl) (hrh : f.rot[k + 1]? = some rh) (h1 : dl ≤ depth) (h2 : depth < dh) :
    PlumeContains T f spherical depth sp0 rel ↔
      f.minDepth ≤ depth ∧ depth ≤ f.maxDepth ∧ rel ≤ 1 ∧
        rel = ellipseLevel T
          ⟨(1 - (depth - dl) / (dh - dl)) * cl.x + (depth - dl) / (dh - dl) * ch.x,
           (1 - (depth - dl) / (dh - dl)) * cl.y + (depth - dl) / (dh - dl) * ch.y⟩
          ((1 - (depth - dl) / (dh - dl)) * sl + (depth - dl) / (dh - dl) * sh)
          ((1 - (depth - dl) / (dh - dl)) * el + (depth - dl) / (dh - dl) * eh)
          (cyclicLerp T rl rh ((depth - dl) / (dh - dl)))
          (closestAlias T spherical
            ⟨(1 - (depth - dl) / (dh - dl)) * cl.x + (depth - dl) / (dh - dl) * ch.x,
             (1 - (depth - dl) / (dh - dl)) * cl.y + (depth - dl) / (dh - dl) * ch.y⟩ sp0) := by
  have hA := strictAscending_ascending T f.depths hasc
  unfold PlumeContains
  constructor
  · rintro ⟨g1, g2, g3, hreg⟩
    refine ⟨g1, g2, g3, ?_⟩
    rcases hreg with ⟨d0, _, _, _, _, hd0, _, _, _, _, hlt, _⟩ |
      ⟨k', dl', dh', cl', ch', sl', sh', el', eh', rl', rh', hdl', hdh', hcl', hch', hsl', hsh', hel', heh', hrl', hrh', h1', h2', hrel⟩ |
      ⟨dn, _, _, _, _, hdn, _, _, _, _, hle, _⟩
    · have := hA 0 k d0 dl (Nat.zero_le _) hd0 hdl
      exact absurd (lt_of_le_of_lt (le_trans this h1) hlt) (lt_irrefl _)
    · have hk : k' = k := by
        rcases Nat.lt_trichotomy k' k with h | h | h
        · have := hA (k' + 1) k dh' dl h hdh' hdl
          exact absurd (lt_of_lt_of_le h2' (le_trans this h1)) (lt_irrefl _)
        · exact h
        · have := hA (k + 1) k' dh dl' h hdh hdl'
          exact absurd (lt_of_lt_of_le h2 (le_trans this h1')) (lt_irrefl _)
      subst hk
      cases getElem?_some_inj hdl hdl'; cases getElem?_some_inj hdh hdh'; cases getElem?_some_inj hcl hcl'; cases getElem?_some_inj hch hch'
      cases getElem?_some_inj hsl hsl'; cases getElem?_some_inj hsh hsh'; cases getElem?_some_inj hel hel'; cases getElem?_some_inj heh heh'
      cases getElem?_some_inj hrl hrl'; cases getElem?_some_inj hrh hrh'
      exact hrel
    · have hk1 : k + 1 < f.depths.length := (List.getElem?_eq_some_iff.1 hdh).1
      have := hA (k + 1) _ dh dn (by omega) hdh hdn
      exact absurd (lt_of_lt_of_le h2 (le_trans this hle)) (lt_irrefl _)
  · rintro ⟨g1, g2, g3, hrel⟩
    exact ⟨g1, g2, g3, Or.inr (Or.inl ⟨k, dl, dh, cl, ch, sl, sh, el, eh, rl, rh, hdl, hdh, hcl, hch, hsl, hsh, hel, heh, hrl, hrh, h1, h2, hrel⟩)⟩

/-- *below* the deepest listed depth only the last ellipse applies, unchanged -/
theorem PlumeContains_below_iff (f : PlumeFeature F) (hasc : @StrictAscending F (fieldScalar T) f.depths)
    (spherical : Bool) (depth : F) (sp0 : P2 F) (rel : F) (dn : F) (c : P2 F) (a e r : F)
    (hdn : f.depths[f.depths.length - 1]? = some dn) (hc : f.coords[f.depths.length - 1]? = some c)
    (ha : f.semiMajor[f.depths.length - 1]? = some a) (he : f.ecc[f.depths.length - 1]? = some e)
    (hr : f.rot[f.depths.length - 1]? = some r) (hle : dn ≤ depth) :
    PlumeContains T f spherical depth sp0 rel ↔
      f.minDepth ≤ depth ∧ depth ≤ f.maxDepth ∧ rel ≤ 1 ∧ rel = ellipseLevel T c a e r (closestAlias T spherical c sp0) := by
  have hA := strictAscending_ascending T f.depths hasc
  unfold PlumeContains
  constructor
  · rintro ⟨g1, g2, g3, hreg⟩
    refine ⟨g1, g2, g3, ?_⟩
    rcases hreg with ⟨d0, _, _, _, _, hd0, _, _, _, _, hlt, _⟩ |
      ⟨k, dl, dh, _, _, _, _, _, _, _, _, _, hdh, _, _, _, _, _, _, _, _, _, h2, _⟩ |
      ⟨dn', c', a', e', r', hdn', hc', ha', he', hr', _, hrel⟩
    · have := hA 0 _ d0 dn (Nat.zero_le _) hd0 hdn
      exact absurd (lt_of_le_of_lt (le_trans this hle) hlt) (lt_irrefl _)
    · have hk1 : k + 1 < f.depths.length := (List.getElem?_eq_some_iff.1 hdh).1
      have := hA (k + 1) _ dh dn (by omega) hdh hdn
      exact absurd (lt_of_lt_of_le h2 (le_trans this hle)) (lt_irrefl _)
    · cases getElem?_some_inj hdn hdn'; cases getElem?_some_inj hc hc'; cases getElem?_some_inj ha ha'
      cases getElem?_some_inj he he'; cases getElem?_some_inj hr hr'
      exact hrel
  · rintro ⟨g1, g2, g3, hrel⟩
    exact ⟨g1, g2, g3, Or.inr (Or.inr ⟨dn, c, a, e, r, hdn, hc, ha, he, hr, hle, hrel⟩)⟩

/-! ### laws of the libm members used by the facts below -/

/-- what the facts about the shape need from `<cmath>`: `pow(x, 2) = x²`, Pythagoras, `floor` integer valued, period `2π` -/
structure PlumeLaws (T : Transc F) : Prop where
  pow_two : ∀ x, T.pow x 2 = x * x
  sin_cos_sq : ∀ x, T.sin x * T.sin x + T.cos x * T.cos x = 1
  floor_int : ∀ x, ∃ z : ℤ, T.floor x = z
  sin_period : ∀ x (z : ℤ), T.sin (x + 2 * T.pi * z) = T.sin x
  cos_period : ∀ x (z : ℤ), T.cos (x + 2 * T.pi * z) = T.cos x

/-! ### fraction 0 / convex combinations -/

theorem plume_lerp_zero (u v : F) : (1 - 0) * u + 0 * v = u := by ring

/-- a convex combination lies between its two ends -/
theorem lerp_between_ends (t u v : F) (h0 : 0 ≤ t) (h1 : t ≤ 1) : min u v ≤ (1 - t) * u + t * v ∧ (1 - t) * u + t * v ≤ max u v := by
  have e1 : (1 - t) * u + t * v = u + t * (v - u) := by ring
  have e2 : (1 - t) * u + t * v = v - (1 - t) * (v - u) := by ring
  rcases le_total u v with h | h
  · rw [min_eq_left h, max_eq_right h]
    constructor
    · rw [e1]; nlinarith
    · rw [e2]; nlinarith
  · rw [min_eq_right h, max_eq_left h]
    constructor
    · rw [e2]; nlinarith
    · rw [e1]; nlinarith

/-- the interpolation fraction between two listed depths lies in `[0, 1)` -/
theorem plume_fraction_range (dl dh depth : F) (h1 : dl ≤ depth) (h2 : depth < dh) :
    0 ≤ (depth - dl) / (dh - dl) ∧ (depth - dl) / (dh - dl) < 1 := by
  have hpos : 0 < dh - dl := by linarith
  constructor
  · exact div_nonneg (by linarith) hpos.le
  · rw [div_lt_one hpos]; linarith

/-- the cyclically interpolated angle is one of the shortest-arc interpolants, up to whole turns -/
theorem cyclicLerp_spec (L : PlumeLaws T) (a1 a2 t : F) :
    ∃ (k1 k2 z : ℤ), (k1 = 0 ∨ k1 = 1) ∧ (k2 = 0 ∨ k2 = 1) ∧
      cyclicLerp T a1 a2 t = (1 - t) * (a1 + 2 * T.pi * k1) + t * (a2 + 2 * T.pi * k2) + 2 * T.pi * z ∧
      (|a2 - a1| ≤ 2 * T.pi → |(a2 + 2 * T.pi * k2) - (a1 + 2 * T.pi * k1)| ≤ T.pi) := by
  unfold cyclicLerp
  by_cases h1 : T.pi < |a2 - a1|
  · by_cases h2 : a1 < a2
    · simp only [h1, h2, true_and, if_true, not_true_eq_false, if_false]
      obtain ⟨z, hz⟩ := L.floor_int (((1 - t) * (a1 + 2 * T.pi) + t * a2) / (2 * T.pi))
      refine ⟨1, 0, -z, Or.inr rfl, Or.inl rfl, ?_, ?_⟩
      · rw [hz]; push_cast; ring
      · intro hb
        push_cast
        rw [abs_of_pos (by linarith)] at h1 hb
        rw [abs_le]; constructor <;> linarith
    · simp only [h1, h2, true_and, if_true, if_false, not_false_eq_true]
      obtain ⟨z, hz⟩ := L.floor_int (((1 - t) * a1 + t * (a2 + 2 * T.pi)) / (2 * T.pi))
      refine ⟨0, 1, -z, Or.inl rfl, Or.inr rfl, ?_, ?_⟩
      · rw [hz]; push_cast; ring
      · intro hb
        push_cast
        have h2' : a2 - a1 ≤ 0 := by linarith [not_lt.1 h2]
        rw [abs_of_nonpos h2'] at h1 hb
        rw [abs_le]; constructor <;> linarith
  · simp only [h1, false_and, if_false]
    obtain ⟨z, hz⟩ := L.floor_int (((1 - t) * a1 + t * a2) / (2 * T.pi))
    refine ⟨0, 0, -z, Or.inl rfl, Or.inl rfl, ?_, ?_⟩
    · rw [hz]; push_cast; ring
    · intro _
      push_cast
      simp only [mul_zero, add_zero]
      exact not_lt.1 h1

/-- at fraction 0 the interpolated angle is the first one up to whole turns -/
theorem cyclicLerp_zero (L : PlumeLaws T) (a1 a2 : F) : ∃ z : ℤ, cyclicLerp T a1 a2 0 = a1 + 2 * T.pi * z := by
  obtain ⟨k1, k2, z, _, _, h, _⟩ := cyclicLerp_spec T L a1 a2 0
  refine ⟨k1 + z, ?_⟩
  rw [h]; push_cast; ring

/-- the ellipse only sees the angle through `sin` and `cos`: whole turns do not matter -/
theorem ellipseLevel_turns (L : PlumeLaws T) (c : P2 F) (a e θ : F) (z : ℤ) (p : P2 F) :
    ellipseLevel T c a e (θ + 2 * T.pi * z) p = ellipseLevel T c a e θ p := by
  unfold ellipseLevel
  simp only [L.sin_period, L.cos_period]

/-- the level function of a non-degenerate ellipse in closed form -/
theorem ellipseLevel_eq (L : PlumeLaws T) (c : P2 F) (a e θ : F) (p : P2 F)
    (hnd : ¬ (a < 10 * T.dblMin ∨ a * T.sqrt (1 - e * e) < 10 * T.dblMin)) :
    ellipseLevel T c a e θ p =
      ((p.x - c.x) * T.cos θ + (p.y - c.y) * T.sin θ) * ((p.x - c.x) * T.cos θ + (p.y - c.y) * T.sin θ) / (a * a) +
      (-(p.x - c.x) * T.sin θ + (p.y - c.y) * T.cos θ) * (-(p.x - c.x) * T.sin θ + (p.y - c.y) * T.cos θ) /
        ((a * T.sqrt (1 - e * e)) * (a * T.sqrt (1 - e * e))) := by
  unfold ellipseLevel
  simp only [L.pow_two]
  rw [if_neg hnd]

/-! ### the head -/

/-- the rotation into the ellipse's frame is injective: both frame coordinates vanish only at the centre -/
theorem frame_zero_iff (L : PlumeLaws T) (c p : P2 F) (θ : F) :
    ((p.x - c.x) * T.cos θ + (p.y - c.y) * T.sin θ = 0 ∧ -(p.x - c.x) * T.sin θ + (p.y - c.y) * T.cos θ = 0) ↔ p = c := by
  constructor
  · rintro ⟨hx, hy⟩
    have hs := L.sin_cos_sq θ
    have h1 : p.x - c.x = 0 := by
      have : p.x - c.x = ((p.x - c.x) * T.cos θ + (p.y - c.y) * T.sin θ) * T.cos θ
          - (-(p.x - c.x) * T.sin θ + (p.y - c.y) * T.cos θ) * T.sin θ
          + (p.x - c.x) * (1 - (T.sin θ * T.sin θ + T.cos θ * T.cos θ)) := by ring
      rw [this, hx, hy, hs]; ring
    have h2 : p.y - c.y = 0 := by
      have : p.y - c.y = ((p.x - c.x) * T.cos θ + (p.y - c.y) * T.sin θ) * T.sin θ
          + (-(p.x - c.x) * T.sin θ + (p.y - c.y) * T.cos θ) * T.cos θ
          + (p.y - c.y) * (1 - (T.sin θ * T.sin θ + T.cos θ * T.cos θ)) := by ring
      rw [this, hx, hy, hs]; ring
    cases p; cases c
    simp only [P2.mk.injEq]
    exact ⟨sub_eq_zero.1 h1, sub_eq_zero.1 h2⟩
  · rintro rfl
    constructor <;> ring

/-- the head is the ellipsoid `x²/a² + y²/b² + z²/c² ≤ 1`; every term is non-negative, so inside the head
`z² ≤ c²` (it reaches up to `min depth` and no further) and the surface position lies in the first ellipse -/
theorem headLevel_le_one (c : P2 F) (a e θ cz z : F) (p : P2 F) (hcz : cz ≠ 0) (h : headLevel T c a e θ cz z p ≤ 1) :
    z * z ≤ cz * cz ∧ headLevel T c a e θ cz 0 p ≤ 1 := by
  unfold headLevel at h ⊢
  simp only at h ⊢
  have hc2 : 0 < cz * cz := mul_self_pos.2 hcz
  have t1 := div_nonneg (mul_self_nonneg ((p.x - c.x) * T.cos θ + (p.y - c.y) * T.sin θ)) (mul_self_nonneg a)
  have t2 := div_nonneg (mul_self_nonneg (-(p.x - c.x) * T.sin θ + (p.y - c.y) * T.cos θ))
    (mul_self_nonneg (a * T.sqrt (1 - T.pow e 2)))
  have t3 := div_nonneg (mul_self_nonneg z) hc2.le
  constructor
  · have : z * z / (cz * cz) ≤ 1 := by linarith
    rwa [div_le_one hc2] at this
  · rw [mul_zero, zero_div, add_zero]; linarith

/-- **the head closes at `min depth`**: at height `z = c` the ellipsoid contains exactly the axis point -/
theorem headLevel_top (L : PlumeLaws T) (c : P2 F) (a e θ cz : F) (p : P2 F) (ha : a ≠ 0)
    (hb : a * T.sqrt (1 - T.pow e 2) ≠ 0) (hcz : cz ≠ 0) :
    headLevel T c a e θ cz cz p ≤ 1 ↔ p = c := by
  unfold headLevel
  simp only
  have hc2 : cz * cz ≠ 0 := mul_ne_zero hcz hcz
  rw [div_self hc2]
  have ha2 : 0 < a * a := mul_self_pos.2 ha
  have hb2 : 0 < (a * T.sqrt (1 - T.pow e 2)) * (a * T.sqrt (1 - T.pow e 2)) := mul_self_pos.2 hb
  have t1 := div_nonneg (mul_self_nonneg ((p.x - c.x) * T.cos θ + (p.y - c.y) * T.sin θ)) ha2.le
  have t2 := div_nonneg (mul_self_nonneg (-(p.x - c.x) * T.sin θ + (p.y - c.y) * T.cos θ)) hb2.le
  constructor
  · intro h
    have h1 : ((p.x - c.x) * T.cos θ + (p.y - c.y) * T.sin θ) * ((p.x - c.x) * T.cos θ + (p.y - c.y) * T.sin θ) / (a * a) = 0 := by
      linarith
    have h2 : (-(p.x - c.x) * T.sin θ + (p.y - c.y) * T.cos θ) * (-(p.x - c.x) * T.sin θ + (p.y - c.y) * T.cos θ) /
        ((a * T.sqrt (1 - T.pow e 2)) * (a * T.sqrt (1 - T.pow e 2))) = 0 := by linarith
    rw [div_eq_zero_iff] at h1 h2
    have h1' := h1.resolve_right ha2.ne'
    have h2' := h2.resolve_right hb2.ne'
    exact (frame_zero_iff T L c p θ).1 ⟨mul_self_eq_zero.1 h1', mul_self_eq_zero.1 h2'⟩
  · rintro rfl
    have e1 : (p.x - p.x) * T.cos θ + (p.y - p.y) * T.sin θ = 0 := by ring
    have e2 : -(p.x - p.x) * T.sin θ + (p.y - p.y) * T.cos θ = 0 := by ring
    rw [e1, e2]
    simp

/-- the base of the head (`z = 0`, the shallowest listed depth) is the first ellipse: no jump where the regimes meet -/
theorem headLevel_base (L : PlumeLaws T) (c : P2 F) (a e θ cz : F) (p : P2 F)
    (hnd : ¬ (a < 10 * T.dblMin ∨ a * T.sqrt (1 - e * e) < 10 * T.dblMin)) :
    headLevel T c a e θ cz 0 p = ellipseLevel T c a e θ p := by
  rw [ellipseLevel_eq T L c a e θ p hnd]
  unfold headLevel
  simp only [L.pow_two]
  rw [mul_zero, zero_div, add_zero]

end field
end Gwb
