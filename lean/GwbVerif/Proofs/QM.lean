/-
Reasoning principles for the query monad `QM G = StateT G (Except Err)`:
* `QM.bind_apply` & co: pointwise unfolding;
* `Post m P`: partial-correctness postcondition (`m g = ok (a, g') → P a`);
* `StateIndep m`: `m` neither reads nor advances the random-number engine (`m = liftE r`).
Core Lean only.
-/
import GwbVerif.Model.Basic
namespace Gwb
variable {G : Type}

theorem QM.bind_apply {α β : Type} (x : QM G α) (f : α → QM G β) (g : G) :
    (x >>= f) g = (match x g with | .ok (a, g') => f a g' | .error e => .error e) := by
  show (StateT.bind x f) g = _
  unfold StateT.bind
  show (x g >>= _) = _
  cases x g with
  | error e => rfl
  | ok p => cases p; rfl

theorem QM.map_apply {α β : Type} (f : α → β) (x : QM G α) (g : G) :
    (f <$> x) g = (match x g with | .ok (a, g') => .ok (f a, g') | .error e => .error e) := by
  show (StateT.map f x) g = _
  unfold StateT.map
  show (x g >>= _) = _
  cases x g with
  | error e => rfl
  | ok p => cases p; rfl

theorem QM.pure_apply {α : Type} (a : α) (g : G) : (pure a : QM G α) g = .ok (a, g) := rfl
theorem liftE_ok {α : Type} (a : α) (g : G) : (liftE (.ok a) : QM G α) g = .ok (a, g) := rfl
theorem liftE_error {α : Type} (e : Err) (g : G) : (liftE (.error e) : QM G α) g = .error e := rfl
theorem QM.throw_apply {α : Type} (e : Err) (g : G) : (QM.throw e : QM G α) g = .error e := rfl

/-- partial-correctness postcondition of a query computation -/
def Post {α : Type} (m : QM G α) (P : α → Prop) : Prop := ∀ g a g', m g = .ok (a, g') → P a

theorem Post.pure {α : Type} {a : α} {P : α → Prop} (h : P a) : Post (G := G) (pure a) P := by
  intro g a' g' hh
  simp only [QM.pure_apply, Except.ok.injEq, Prod.mk.injEq] at hh
  obtain ⟨rfl, _⟩ := hh; exact h

theorem Post.bind {α β : Type} {m : QM G α} {f : α → QM G β} {P : α → Prop} {Q : β → Prop}
    (hm : Post m P) (hf : ∀ a, P a → Post (f a) Q) : Post (m >>= f) Q := by
  intro g b g' hh
  rw [QM.bind_apply] at hh
  split at hh
  · rename_i a g1 h1
    exact hf a (hm _ _ _ h1) _ _ _ hh
  · simp at hh

theorem Post.triv {α : Type} (m : QM G α) : Post m (fun _ => True) := fun _ _ _ _ => trivial

theorem Post.mono {α : Type} {m : QM G α} {P Q : α → Prop} (h : Post m P) (hpq : ∀ a, P a → Q a) : Post m Q :=
  fun g a g' hh => hpq a (h g a g' hh)

theorem Post.throw {α : Type} {e : Err} {P : α → Prop} : Post (G := G) (QM.throw e) P := by
  intro g a g' hh; simp [QM.throw] at hh

theorem Post.liftE {α : Type} {x : Except Err α} {P : α → Prop} (h : ∀ a, x = .ok a → P a) : Post (G := G) (liftE x) P := by
  intro g a g' hh
  cases x with
  | error e => simp [liftE_error] at hh
  | ok v => simp only [liftE_ok, Except.ok.injEq, Prod.mk.injEq] at hh; obtain ⟨rfl, _⟩ := hh; exact h _ rfl

theorem Post.foldlM {α β : Type} (f : β → α → QM G β) (P : β → Prop) (hf : ∀ b a, P b → Post (f b a) P)
    (xs : List α) (b : β) (hb : P b) : Post (xs.foldlM f b) P := by
  induction xs generalizing b with
  | nil => simpa [List.foldlM] using Post.pure hb
  | cons x xs ih =>
    rw [List.foldlM_cons]
    exact Post.bind (hf b x hb) (fun b' hb' => ih b' hb')

/-- `m` does not touch the random-number engine -/
def StateIndep {α : Type} (m : QM G α) : Prop := ∃ r : Except Err α, m = liftE r

theorem StateIndep.liftE {α : Type} (x : Except Err α) : StateIndep (G := G) (liftE x) := ⟨x, rfl⟩
theorem StateIndep.pure {α : Type} (a : α) : StateIndep (G := G) (pure a) := ⟨.ok a, rfl⟩
theorem StateIndep.throw {α : Type} (e : Err) : StateIndep (G := G) (QM.throw e : QM G α) := ⟨.error e, rfl⟩

theorem StateIndep.bind {α β : Type} {m : QM G α} {f : α → QM G β}
    (hm : StateIndep m) (hf : ∀ a, StateIndep (f a)) : StateIndep (m >>= f) := by
  obtain ⟨r, rfl⟩ := hm
  cases r with
  | error e => exact ⟨.error e, by funext g; rw [QM.bind_apply]; rfl⟩
  | ok a =>
    obtain ⟨s, hs⟩ := hf a
    exact ⟨s, by funext g; rw [QM.bind_apply]; simp only [liftE_ok]; rw [hs]⟩

theorem StateIndep.foldlM {α β : Type} (f : β → α → QM G β) (hf : ∀ b a, StateIndep (f b a))
    (xs : List α) (b : β) : StateIndep (xs.foldlM f b) := by
  induction xs generalizing b with
  | nil => simpa [List.foldlM] using StateIndep.pure b
  | cons x xs ih =>
    rw [List.foldlM_cons]
    exact StateIndep.bind (hf b x) (fun b' => ih b')

/-- a state-independent computation gives the same answer from any engine state and leaves it alone -/
theorem StateIndep.ok_any {α : Type} {m : QM G α} (h : StateIndep m) {g g' : G} {a : α}
    (hg : m g = .ok (a, g')) : g' = g ∧ ∀ g₂, m g₂ = .ok (a, g₂) := by
  obtain ⟨r, rfl⟩ := h
  cases r with
  | error e => simp [liftE_error] at hg
  | ok v =>
    simp only [liftE_ok, Except.ok.injEq, Prod.mk.injEq] at hg
    obtain ⟨rfl, rfl⟩ := hg
    exact ⟨rfl, fun g₂ => rfl⟩

end Gwb
