/-
`Scalar` instances for proofs: any linearly ordered field with a bundle `Transc` of the libm members.
`fieldScalar T` is reducible so that `ring`, `linarith`, `field_simp`, `positivity` see through it.
Laws of the libm members needed by a theorem appear as explicit hypotheses on `T`.
-/
import GwbVerif.Scalar
import Mathlib.Tactic.Ring
import Mathlib.Tactic.Linarith
import Mathlib.Tactic.FieldSimp
import Mathlib.Tactic.Positivity
import Mathlib.Tactic.LinearCombination
import Mathlib.Algebra.Order.Field.Basic
namespace Gwb

/-- the uninterpreted members of `Scalar` over a carrier `F` -/
structure Transc (F : Type) where
  sqrt : F → F
  exp : F → F
  log : F → F
  sin : F → F
  cos : F → F
  tan : F → F
  asin : F → F
  acos : F → F
  atan : F → F
  tanh : F → F
  erfc : F → F
  floor : F → F
  ceil : F → F
  round : F → F
  atan2 : F → F → F
  pow : F → F → F
  fmod : F → F → F
  pi : F
  eps : F
  dblMin : F
  dblMax : F
  inf : F

open Classical in
/-- the scalar instance on a linearly ordered field -/
@[reducible] noncomputable def fieldScalar {F : Type} [Field F] [LinearOrder F] [IsStrictOrderedRing F] (T : Transc F) : Scalar F where
  ofNat n := (n : F)
  ofScientific m s e := (OfScientific.ofScientific m s e : ℚ)
  decLt a b := inferInstance
  decLe a b := inferInstance
  beq a b := decide (a = b)
  sqrt := T.sqrt
  exp := T.exp
  log := T.log
  sin := T.sin
  cos := T.cos
  tan := T.tan
  asin := T.asin
  acos := T.acos
  atan := T.atan
  tanh := T.tanh
  erfc := T.erfc
  floor := T.floor
  ceil := T.ceil
  round := T.round
  atan2 := T.atan2
  pow := T.pow
  fmod := T.fmod
  pi := T.pi
  eps := T.eps
  dblMin := T.dblMin
  dblMax := T.dblMax
  inf := T.inf
  isNaN _ := false
  isFinite _ := true

end Gwb
